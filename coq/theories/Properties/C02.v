(* Properties/C02.v -- silence outside scope; replies only from configured
   identities. This file only pins statements; the proofs are in Proofs/C02.v. *)
From MS Require Import L2 Spec.View Spec.RefDec Spec.C02 Proofs.C02 Proofs.C02Cor.

(* For every configuration, table and frame: what is emitted satisfies the C02
   monitor. A frame whose destination MAC is not one of the authorised addresses
   (configured MAC, broadcast, all-nodes, the multicast MACs of the self
   addresses), or whose IP source is on the deny list, or which carries something
   the stack does not speak (EtherType other than ARP/IPv4/IPv6, IP protocol other
   than ICMP/TCP/UDP resp. ICMPv6/TCP/UDP) gets no reply; and when a self-IP list
   is configured, the source address of every reply (ARP sender protocol address,
   IP source, advertised neighbour-discovery target) is on that list. *)
Theorem C02_scope_and_identity :
  forall E cfg clk tb f tb' r evs,
    cfg_ok cfg = true -> bytes_ok f = true ->
    reply E cfg clk tb f = Ok (tb', r, evs) ->
    ok_C02 cfg f r = true.
Proof. exact scope_and_identity. Qed.

(* Such frames also leave the connection table untouched. *)
Theorem C02_out_of_scope_is_inert :
  forall E cfg clk tb f tb' r evs,
    (14 <= length f)%nat ->
    ref_auth cfg (firstn 6 f) = false \/ denied_source cfg f = true \/ unsupported f = true ->
    reply E cfg clk tb f = Ok (tb', r, evs) ->
    tb' = tb /\ r = None.
Proof. exact out_of_scope_is_inert. Qed.

Print Assumptions C02_scope_and_identity.
Print Assumptions C02_out_of_scope_is_inert.

(* The identity clause as plain statements about the decoded reply (no monitor
   in the statement): with a self-IP list l configured, ... *)

(* ... an ARP reply speaks for an address on the list; *)
Theorem C02_arp_reply_identity :
  forall E cfg clk tb tb' f rf evs l,
    cfg_ok cfg = true -> bytes_ok f = true ->
    reply E cfg clk tb f = Ok (tb', Some rf, evs) -> c_self cfg = Some l ->
    forall e, dec_eth rf = Some e -> de_type e = 2054 ->
    exists a, dec_arp (de_payload e) = Some a /\ ip_in (V4 (da_spa a)) l = true.
Proof. exact arp_reply_identity. Qed.
Print Assumptions C02_arp_reply_identity.

(* ... an IP reply leaves from an address on the list; *)
Theorem C02_ip_reply_identity :
  forall E cfg clk tb tb' f rf evs l,
    cfg_ok cfg = true -> bytes_ok f = true ->
    reply E cfg clk tb f = Ok (tb', Some rf, evs) -> c_self cfg = Some l ->
    forall e, dec_eth rf = Some e -> de_type e <> 2054 ->
    exists i, dec_ip e = Some i /\
              ip_in (if di_v4 i then V4 (di_src i) else V6 (di_src i)) l = true.
Proof. exact ip_reply_identity. Qed.
Print Assumptions C02_ip_reply_identity.

(* ... and a neighbour advertisement advertises a target on the list. *)
Theorem C02_na_reply_identity :
  forall E cfg clk tb tb' f rf evs l,
    cfg_ok cfg = true -> bytes_ok f = true ->
    reply E cfg clk tb f = Ok (tb', Some rf, evs) -> c_self cfg = Some l ->
    forall e i, dec_eth rf = Some e -> de_type e <> 2054 -> dec_ip e = Some i ->
    di_v4 i = false -> di_proto i = 58 -> u8_at 0 (di_payload i) = 136 ->
    ip_in (V6 (firstn 16 (skipn 8 (di_payload i)))) l = true.
Proof. exact na_reply_identity. Qed.
Print Assumptions C02_na_reply_identity.
