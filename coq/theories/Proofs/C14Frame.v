(* C14Frame.v -- lift of C14 from the application layer (proto::repl) to whole
   frames: the frame-level monitor ok_C14_udp of Spec/C14.v accepts everything
   reply() emits for any received frame (with the signature table of any env). *)
From MS Require Import Proofs.Tactics Proofs.Pipeline Proofs.ViewLemmas Proofs.C06 Proofs.Lift
     L2 Spec.View Spec.RefDec Spec.AppView Spec.RefDns Spec.C14 Proofs.C14Reply.

Lemma app_ok_C14_not_v4 (E : env) (ctx : app_ctx) (p : bytes) (o : option bytes) :
  a_v4 ctx = false -> app_ok_C14 E ctx p o = true.
Proof.
  intros H. unfold app_ok_C14, app_ok_C14_core. rewrite H. destruct (udp_id E p); reflexivity.
Qed.

Lemma view_dst4_ok cfg f v :
  bytes_ok f = true -> view cfg f = Some v -> v_v4 v = true -> dst_ok (v_dst v).
Proof.
  intros Hf Hv H4. pose proof (view_sizes _ _ _ Hv) as [_ Hs]. rewrite H4 in Hs. destruct Hs as [_ Hd].
  split; [exact Hd|].
  destruct (view_inv _ _ _ Hv) as (_ & _ & [Hc | Hc]).
  - destruct Hc as (_ & _ & _ & _ & -> & _). apply bytes_ok_slice, bytes_ok_skipn, Hf.
  - destruct Hc as (_ & _ & H6 & _). congruence.
Qed.

Theorem frame_udp_C14 E cfg clk tb f tb' r evs :
  cfg_ok cfg = true -> bytes_ok f = true ->
  reply E cfg clk tb f = Ok (tb', r, evs) ->
  ok_C14_udp E cfg f r = true.
Proof.
  intros Hcfg Hf Hr. unfold ok_C14_udp, ok_app_udp, udp_req.
  destruct (view_udp cfg f) as [v|] eqn:Hvu; [|reflexivity].
  destruct (udp_lift _ _ _ _ _ _ _ _ _ Hcfg Hf Hvu Hr) as (_ & ci' & out & Hpr & Hresp & _).
  rewrite Hresp.
  destruct (view_udp_view _ _ _ Hvu) as (Hv & _ & _).
  destruct (v_v4 v) eqn:H4.
  - eapply C14_proto_udp_any; [| | | | |exact Hpr].
    + exact H4.
    + reflexivity.
    + apply bytes_ok_skipn. exact (view_l4_ok _ _ _ Hf Hv).
    + cbn [ctx_of a_dst]. exact (view_dst4_ok _ _ _ Hf Hv H4).
    + unfold udp_ci, l3_ci. cbn. rewrite H4. reflexivity.
  - apply app_ok_C14_not_v4. exact H4.
Qed.
