"""C17 -- SMB1/SMB2: negotiate / session-setup replies framed, correlated, consistent."""
import struct
import net, gens, runner, sigs
from common import *
from runner import Script, Cfg

ID = "C17"
THEOREMS = ['C17_ref_smb1_hdr_roundtrip', 'C17_ref_smb2_hdr_roundtrip', 'C17_classify_sound', 'C17_ref_neg1_req_roundtrip', 'C17_ref_setup1_req_roundtrip', 'C17_ref_neg2_req_roundtrip', 'C17_ref_setup2_req_roundtrip', 'C17_classify_complete_neg1', 'C17_classify_complete_setup1', 'C17_classify_complete_neg2', 'C17_classify_complete_setup2', 'C17_select2_meaning', 'C17_select2_none_meaning', 'C17_combinator_read_ule', 'C17_le_val_le16', 'C17_le_val_le32', 'C17_le_val_le64', 'C17_smb1_negotiate_parse', 'C17_smb1_setup_parse', 'C17_smb2_negotiate_parse', 'C17_smb2_setup_parse', 'C17_smb1_negotiate_reply', 'C17_smb1_setup_reply', 'C17_smb2_negotiate_reply', 'C17_smb2_setup_reply', 'C17_response_flag_silent', 'C17_other_command_silent', 'C17_smb2_response_flag_silent', 'C17_smb2_other_command_silent', 'C17_smb2_no_common_dialect_silent', 'C17_smb1_no_dialect_silent', 'C17_smb1_setup_all_blobs', 'C17_smb2_setup_all_blobs', 'C17_smb1_handler_verdict', 'C17_smb2_handler_verdict', 'C17_proto_monitor_udp_smb1', 'C17_proto_monitor_udp_smb2', 'C17_proto_monitor_tcp_smb1', 'C17_proto_monitor_tcp_smb2', 'C17_blob_ok_the_env', 'C17_examples_classified', 'C17_examples_identified', 'C17_examples_answered', 'C17_monitor_rejects', 'C17_empty_blob_answered'] + ["SrcTie.src_smb_blobs_are_dumped", "Current.C17_classified_head", "Current.C17_classified_identified", "Current.C17_frame_udp", "Current.C17_frame_tcp_first", "Current.C17_frame_tcp_first_agree", "Current.C17_frame_tcp_first_state", "Current.C17_frame_examples", "Env.the_env_ok"]
MONITORS = ["C17udp", "C17tcp"]
RULE = ("SMB1 / SMB2 Negotiate and Session-Setup requests built by an independent Python encoder inside NetBIOS session "
        "messages: random correlation ids (PID high/low, TID, UID, MID; MessageId, AsyncId, SessionId incl. all-ones), all "
        "flag bytes / flag words without the reply bit, SMB1 dialect lists (0..16 entries, the three known names in every "
        "order and position, unknown names, duplicates, empty names, non-UTF-8), SMB2 dialect lists (0..16 entries from "
        "known and unknown revisions, duplicates, orders), security blob lengths 0..512, trailing bytes, NetBIOS length "
        "bytes; negative cases: every SMB1 command byte 0..255 and a grid of SMB2 command words with and without the reply "
        "flag, requests with the reply flag, no common dialect, truncations of every request. Sent as first data segment "
        "of a TCP flow (both IP versions) and as UDP datagram. Compared with the model (application payload modulo the "
        "two FILETIME fields, which are read back into the model's clock). Judged on the implementation's output by the "
        "extracted monitors ok_C17_udp / ok_C17_tcp (reference codec Spec/RefSmb.v) and by an independent Python reader "
        "that also checks the DER length of the security blob present in the reply. non-trivial = script carries a "
        "well-formed negotiate or session-setup request")
TRUSTED = ["Coq 8.16.1 kernel + vm_compute", "extraction (ExtrOcamlBasic) + ocaml/model_run.ml", "harness/*.py",
           "Rust hook verif_driver.rs", "pnet accessor semantics as modelled",
           "data translator (the two security blobs are dumped from the implementation)"]
ASSUMPTIONS = ["identification of the NetBIOS/SMB magic by the compiled matcher is a hypothesis of the proto-level theorems "
               "(C10); the request arrives in one datagram / in the first data segment of the flow (the dissectors keep no "
               "state across TCP segments)"]

KEY = (0x17, 0x71)


def le16(x): return struct.pack("<H", x & 0xFFFF)
def le32(x): return struct.pack("<I", x & 0xFFFFFFFF)
def le64(x): return struct.pack("<Q", x & 0xFFFFFFFFFFFFFFFF)


def nbt(payload, length=None, typ=0, flags=0):
    length = len(payload) if length is None else length
    return bytes([typ, flags]) + struct.pack(">H", length & 0xFFFF) + payload


def smb1_hdr(cmd, status=0, flags=0x18, flags2=0xc843, pid_high=0, sig=b"\0" * 8, reserved=0, tid=0, pid_low=0xfffe, uid=0, mid=0):
    return (b"\xffSMB" + bytes([cmd]) + le32(status) + bytes([flags]) + le16(flags2) + le16(pid_high) + sig + le16(reserved) +
            le16(tid) + le16(pid_low) + le16(uid) + le16(mid))


def smb1_neg_body(dialects, trailer=b""):
    data = b"".join(b"\x02" + d + b"\0" for d in dialects)
    return b"\0" + le16(len(data)) + data + trailer


def smb1_setup_body(blob, tail=b"\0U\0n\0i\0x\0\0\0S\0a\0m\0b\0a\0\0\0", sec_len=None):
    sec_len = len(blob) if sec_len is None else sec_len
    return (bytes([12, 0xff, 0]) + le16(0) + le16(0xffff) + le16(2) + le16(1) + le32(0) + le16(sec_len) + le32(0) +
            le32(0x8000c054) + le16(len(blob) + len(tail)) + blob + tail)


def smb2_hdr(cmd, flags=0, mid=0, aid=0, sid=0, credit_charge=0, status=0, credits=31, next_cmd=0, sig=b"\0" * 16):
    return (b"\xfeSMB" + le16(64) + le16(credit_charge) + le32(status) + le16(cmd) + le16(credits) + le32(flags) +
            le32(next_cmd) + le64(mid) + le64(aid) + le64(sid) + sig)


def smb2_neg_body(dialects, count=None, guid=bytes(range(0xa0, 0xb0)), trailer=b""):
    count = len(dialects) if count is None else count
    return (le16(36) + le16(count) + le16(1) + le16(0) + le32(0x7f) + guid + b"\x78\0\0\0\x03\0\0\0" +
            b"".join(le16(d) for d in dialects) + trailer)


def smb2_setup_body(blob, sec_len=None, trailer=b""):
    sec_len = len(blob) if sec_len is None else sec_len
    return le16(25) + bytes([0, 1]) + le32(1) + le32(0) + le16(0x58) + le16(sec_len) + le64(0) + blob + trailer


D_NTLM, D_ANY, D_202 = b"NT LM 0.12", b"SMB 2.???", b"SMB 2.002"
D_OTHER = [b"PC NETWORK PROGRAM 1.0", b"LANMAN1.0", b"Windows for Workgroups 3.1a", b"LM1.2X002", b"LANMAN2.1", b"NT LANMAN 1.0", b"",
           b"nt lm 0.12", b"NT LM 0.12 ", b"NT LM 0.1", b"SMB 2.??", b"SMB 2.0022", b"\xff\xfe", b"SMB 3.1.1"]
SMB2_KNOWN = [0x0202, 0x0210, 0x02ff, 0x0300, 0x0302, 0x0310, 0x0311]
SMB2_UNKNOWN = [0x0000, 0x0001, 0x0201, 0x0203, 0x0211, 0x0301, 0x0312, 0x0402, 0xffff, 0x0202 << 8 & 0xffff]


# ---------------- independent readers of the replies ----------------
def der_len_ok(blob):
    """the blob is one DER TLV whose length field covers exactly the blob"""
    if len(blob) < 2:
        return False
    l = blob[1]
    if l < 0x80:
        return 2 + l == len(blob)
    n = l & 0x7f
    if n == 0 or len(blob) < 2 + n:
        return False
    return 2 + n + int.from_bytes(blob[2:2 + n], "big") == len(blob)


def check_reply(req, app):
    """req: dict describing the request; app: reply payload. -> None or a message"""
    if len(app) < 4 or app[0] != 0:
        return "no NetBIOS session message"
    if int.from_bytes(app[1:4], "big") & 0x1ffff != len(app) - 4:
        return "NetBIOS length %d, %d bytes follow" % (int.from_bytes(app[1:4], "big"), len(app) - 4)
    m = app[4:]
    if req["v"] == 1:
        if len(m) < 32 or m[:4] != b"\xffSMB":
            return "no SMB1 header"
        cmd, flags = m[4], m[9]
        pid_high, = struct.unpack("<H", m[12:14])
        tid, pid_low, uid, mid = struct.unpack("<HHHH", m[24:32])
        if not flags & 0x80:
            return "reply flag clear"
        if cmd != req["cmd"]:
            return "command %#x, expected %#x" % (cmd, req["cmd"])
        if (pid_high, tid, pid_low, uid, mid) != (req["pid_high"], req["tid"], req["pid_low"], req["uid"], req["mid"]):
            return "correlation fields not echoed: %r" % ((pid_high, tid, pid_low, uid, mid),)
        b = m[32:]
        if req["cmd"] == 0x72:
            if len(b) < 37 or b[0] != 17:
                return "negotiate response: WordCount %r" % (b[:1].hex(),)
            idx, = struct.unpack("<H", b[1:3])
            bc, = struct.unpack("<H", b[35:37])
            data = b[37:]
            if bc != len(data):
                return "ByteCount %d, %d bytes follow" % (bc, len(data))
            if len(data) < 16 or not der_len_ok(data[16:]):
                return "security blob after the server GUID is not one DER element of ByteCount - 16 bytes"
            if idx >= len(req["dialects"]):
                return "dialect index %d, %d dialects offered" % (idx, len(req["dialects"]))
            for pref in (D_NTLM, D_ANY, D_202):
                pass
        else:
            if len(b) < 11 or b[0] != 4:
                return "session setup response: WordCount %r" % (b[:1].hex(),)
            seclen, = struct.unpack("<H", b[7:9])
            bc, = struct.unpack("<H", b[9:11])
            data = b[11:]
            if bc != len(data):
                return "ByteCount %d, %d bytes follow" % (bc, len(data))
            if seclen > len(data) or not der_len_ok(data[:seclen]):
                return "SecurityBlobLength %d does not delimit one DER element" % seclen
    else:
        if len(m) < 64 or m[:4] != b"\xfeSMB":
            return "no SMB2 header"
        cmd, = struct.unpack("<H", m[12:14])
        flags, = struct.unpack("<I", m[16:20])
        mid, aid, sid = struct.unpack("<QQQ", m[24:48])
        if not flags & 1:
            return "reply flag clear"
        if cmd != req["cmd"]:
            return "command %#x, expected %#x" % (cmd, req["cmd"])
        if (mid, aid, sid) != (req["mid"], req["aid"], req["sid"]):
            return "correlation fields not echoed: %r" % ((mid, aid, sid),)
        b = m[64:]
        if req["cmd"] == 0:
            if len(b) < 64 or struct.unpack("<H", b[0:2])[0] != 65:
                return "negotiate response: StructureSize"
            rev, = struct.unpack("<H", b[4:6])
            off, ln = struct.unpack("<HH", b[56:60])
            if off != 64 + 64 or ln != len(b) - 64 or not der_len_ok(b[64:]):
                return "security buffer offset %#x length %d, %d bytes present" % (off, ln, len(b) - 64)
            if rev not in req["dialects"]:
                return "dialect revision %#x was not offered" % rev
        else:
            if len(b) < 8 or struct.unpack("<H", b[0:2])[0] != 9:
                return "session setup response: StructureSize"
            off, ln = struct.unpack("<HH", b[4:8])
            if off != 64 + 8 or ln != len(b) - 8 or not der_len_ok(b[8:]):
                return "security buffer offset %#x length %d, %d bytes present" % (off, ln, len(b) - 8)
    return None


ORACLE = {}      # frame -> (req dict or None, expectation 'answer' | 'silent', tcp)


class Batch:
    def __init__(self, tag, cfg=None):
        self.tag, self.cfg = tag, cfg or Cfg(key=KEY)
        self.udp, self.tcp, self.sport = [], [], 7000

    def add(self, p, req, expect, tcp=True, v6=False, dport=445):
        s, d = gens.addr_pair(v6)
        self.sport += 1
        if tcp:
            fr = gens.handshake(self.cfg.key, s, d, self.sport, dport, [p])
            self.tcp.append(fr)
            f = fr[-1]
        else:
            f = net.frame_udp(s, d, self.sport, dport, p)
            self.udp.append(f)
        ORACLE[f] = (req, expect, tcp)
        return f

    def scripts(self, per=100):
        for i in range(0, len(self.udp), per):
            yield Script(self.cfg, self.udp[i:i + per], self.tag + ":udp")
        for i in range(0, len(self.tcp), per // 2):
            yield Script(self.cfg, [f for fl in self.tcp[i:i + per // 2] for f in fl], self.tag + ":tcp")


def r16(rng):
    return rng.choice([0, 1, 0xffff, 0xfffe, 0x8000, rng.getrandbits(16)])


def r64(rng):
    return rng.choice([0, 1, 2 ** 64 - 1, 2 ** 63, rng.getrandbits(64)])


def mk1(rng, cmd, body, flags=None, **kw):
    req = dict(v=1, cmd=cmd, pid_high=r16(rng), tid=r16(rng), pid_low=r16(rng), uid=r16(rng), mid=r16(rng))
    req.update(kw)
    flags = rng.choice([0x18, 0x00, 0x08, 0x10, 0x7f, rng.getrandbits(7)]) if flags is None else flags
    p = nbt(smb1_hdr(cmd, flags=flags, flags2=r16(rng), status=rng.choice([0, 0xc0000016, rng.getrandbits(32)]),
                     pid_high=req["pid_high"], tid=req["tid"], pid_low=req["pid_low"], uid=req["uid"], mid=req["mid"],
                     sig=bytes(rng.getrandbits(8) for _ in range(8))) + body)
    return p, req


def mk2(rng, cmd, body, flags=None, **kw):
    req = dict(v=2, cmd=cmd, mid=r64(rng), aid=r64(rng), sid=r64(rng))
    req.update(kw)
    flags = rng.choice([0, 0, 2, 4, 8, 0x10000000, rng.getrandbits(31) << 1]) if flags is None else flags
    p = nbt(smb2_hdr(cmd, flags=flags, mid=req["mid"], aid=req["aid"], sid=req["sid"], credits=r16(rng), credit_charge=r16(rng),
                     status=rng.getrandbits(32), sig=bytes(rng.getrandbits(8) for _ in range(16))) + body)
    return p, req


def corpus():
    import random
    rng = random.Random(17)
    b = Batch("corpus:fixed")
    # 9bdd5f3: duplicate dialects never completed; bytes after the list read as dialects
    for dl in ([0x0202, 0x0202], [0x0311, 0x0311, 0x0202], [0x0001, 0x0001]):
        p, req = mk2(rng, 0, smb2_neg_body(dl), dialects=dl)
        b.add(p, req, "answer" if set(dl) & set(SMB2_KNOWN) else "silent")
    p, req = mk2(rng, 0, smb2_neg_body([0x0001], trailer=le16(0x0202)), dialects=[0x0001])
    b.add(p, req, "silent")
    # 5dca3e9: empty security blob never answered
    p, req = mk1(rng, 0x73, smb1_setup_body(b""))
    b.add(p, req, "answer")
    p, req = mk2(rng, 1, smb2_setup_body(b""))
    b.add(p, req, "answer")
    yield from b.scripts()


def generate(tier, rng):
    thorough = tier == "thorough"
    n = 300 if thorough else 40
    blob = lambda k: bytes(rng.getrandbits(8) for _ in range(k))
    # A. SMB1 negotiate: dialect lists
    b = Batch("smb1-negotiate")
    for _ in range(n):
        k = rng.choice([1, 1, 2, 3, 4, 6, 10, 16])
        dl = [rng.choice([D_NTLM, D_ANY, D_202] + D_OTHER) for _ in range(k)]
        p, req = mk1(rng, 0x72, smb1_neg_body(dl, trailer=rng.choice([b"", b"", b"xyz"])), dialects=dl)
        b.add(p, req, "answer", tcp=rng.random() < 0.8, v6=rng.random() < 0.3)
    for dl in ([D_NTLM], [D_ANY], [D_202], [D_202, D_ANY, D_NTLM], [D_OTHER[0], D_NTLM], [D_OTHER[0]], [D_OTHER[0], D_OTHER[1]],
               [b""], [D_NTLM, D_NTLM], [D_OTHER[7], D_OTHER[8]]):
        p, req = mk1(rng, 0x72, smb1_neg_body(dl), dialects=dl)
        b.add(p, req, "answer")
    p, req = mk1(rng, 0x72, smb1_neg_body([]), dialects=[])
    b.add(p, req, None)                        # nothing offered: no dialect can be selected (either outcome)
    yield from b.scripts()
    # B. SMB1 session setup: blob lengths
    b = Batch("smb1-session-setup")
    for k in (list(range(0, 20)) + [63, 64, 65, 127, 128, 255, 256, 257, 512] if not thorough else range(0, 513)):
        p, req = mk1(rng, 0x73, smb1_setup_body(blob(k), tail=rng.choice([b"", b"\0U\0n\0i\0x\0\0\0"])))
        b.add(p, req, "answer", tcp=k % 5 != 0, v6=k % 3 == 0)
    yield from b.scripts()
    # C. SMB2 negotiate
    b = Batch("smb2-negotiate")
    for _ in range(n):
        k = rng.choice([1, 1, 2, 3, 5, 8, 16])
        dl = [rng.choice(SMB2_KNOWN + SMB2_UNKNOWN) for _ in range(k)]
        p, req = mk2(rng, 0, smb2_neg_body(dl, trailer=rng.choice([b"", b"", le16(0x0202), b"\x11\x03"])), dialects=dl)
        b.add(p, req, "answer" if set(dl) & set(SMB2_KNOWN) else "silent", tcp=rng.random() < 0.8, v6=rng.random() < 0.3)
    for dl in [[x] for x in SMB2_KNOWN + SMB2_UNKNOWN] + [SMB2_KNOWN, SMB2_KNOWN[::-1], [0x0311, 0x0202], [0x0202] * 16]:
        p, req = mk2(rng, 0, smb2_neg_body(dl), dialects=dl)
        b.add(p, req, "answer" if set(dl) & set(SMB2_KNOWN) else "silent")
    # DialectCount that disagrees with the list: only the first DialectCount entries are offered
    for trailer in (b"", le16(0x0202), le16(0x0311), le16(0x0001), le16(0x0202) * 3, le16(0x02ff) + b"\x01"):
        p, req = mk2(rng, 0, smb2_neg_body([], count=0, trailer=trailer), dialects=[])
        b.add(p, req, "silent", tcp=len(trailer) % 4 == 0)
    for dl, count in (([0x0001, 0x0202], 1), ([0x0001, 0x0002, 0x0311], 2), ([0x0202, 0x0001], 1), ([0x0311, 0x0202], 1)):
        p, req = mk2(rng, 0, smb2_neg_body(dl, count=count), dialects=dl[:count])
        b.add(p, req, "answer" if set(dl[:count]) & set(SMB2_KNOWN) else "silent")
    yield from b.scripts()
    # D. SMB2 session setup
    b = Batch("smb2-session-setup")
    for k in (list(range(0, 20)) + [63, 64, 65, 127, 128, 255, 256, 257, 512] if not thorough else range(0, 513)):
        p, req = mk2(rng, 1, smb2_setup_body(blob(k), trailer=rng.choice([b"", b"zz"])))
        b.add(p, req, "answer", tcp=k % 5 != 0, v6=k % 3 == 0)
    yield from b.scripts()
    # E. negative: reply flag, other commands
    b = Batch("negative")
    dl1, dl2 = [D_OTHER[0], D_NTLM], [0x0202, 0x0210]
    for cmd in range(256):
        body = smb1_neg_body(dl1) if cmd % 2 == 0 else smb1_setup_body(blob(8))
        if cmd not in (0x72, 0x73):
            p, req = mk1(rng, cmd, body)
            b.add(p, None, "silent", tcp=cmd % 4 != 0)
    for cmd in list(range(2, 20)) + [0x0100, 0x0101, 0xffff, 0x8000, rng.getrandbits(16) | 2]:
        p, req = mk2(rng, cmd, smb2_neg_body(dl2) if cmd % 2 == 0 else smb2_setup_body(blob(8)))
        b.add(p, None, "silent")
    for fl in (0x80, 0x98, 0x88, 0x90, 0xff, 0x81):
        p, req = mk1(rng, 0x72, smb1_neg_body(dl1), flags=fl, dialects=dl1)
        b.add(p, None, "silent")
        p, req = mk1(rng, 0x73, smb1_setup_body(blob(8)), flags=fl)
        b.add(p, None, "silent")
    for fl in (1, 3, 9, 0xffffffff, 0x80000001):
        p, req = mk2(rng, 0, smb2_neg_body(dl2), flags=fl, dialects=dl2)
        b.add(p, None, "silent")
        p, req = mk2(rng, 1, smb2_setup_body(blob(8)), flags=fl)
        b.add(p, None, "silent")
    yield from b.scripts()
    # F. truncations (the request is incomplete: the property says nothing beyond 'no panic'; compared with the model)
    b = Batch("truncated")
    for p in (mk1(rng, 0x72, smb1_neg_body([D_NTLM, D_202]), dialects=[D_NTLM, D_202])[0], mk1(rng, 0x73, smb1_setup_body(blob(9)))[0],
              mk2(rng, 0, smb2_neg_body([0x0202, 0x0311]), dialects=[0x0202, 0x0311])[0], mk2(rng, 1, smb2_setup_body(blob(9)))[0]):
        for k in range(4, len(p)):
            b.add(p[:k], None, None, tcp=k % 2 == 0)
    yield from b.scripts(per=200)
    # every byte of the four request kinds replaced by a boundary value (fields the responder ignores today -- offsets,
    # reserved words, counts it does not use -- must stay ignored; model and implementation are compared, no oracle)
    b4 = Batch("single-byte-substitutions")
    seeds4 = [mk1(rng, 0x72, smb1_neg_body([D_NTLM, D_202]))[0], mk1(rng, 0x73, smb1_setup_body(blob(9)))[0],
              mk2(rng, 0, smb2_neg_body([0x0202, 0x0311]))[0], mk2(rng, 1, smb2_setup_body(blob(9)))[0]]
    for p_ in seeds4:
        for i in range(len(p_)):
            for v in {0, 0xff, p_[i] ^ 1, p_[i] ^ 0x80, (p_[i] + 0x10) & 0xff} - {p_[i]}:
                if thorough or (i + v) % 2 == 0:
                    b4.add(p_[:i] + bytes([v]) + p_[i + 1:], None, None, tcp=(i + v) % 7 == 0)
    yield from b4.scripts(per=200)
    # several messages on one flow: each is parsed by a fresh dissector of the protocol the flow is bound to
    b2 = Batch("multi-message-flows")
    n1, rq1 = mk1(rng, 0x72, smb1_neg_body([D_NTLM]), dialects=[D_NTLM])
    s1, rs1 = mk1(rng, 0x73, smb1_setup_body(blob(20)))
    n2, rq2 = mk2(rng, 0, smb2_neg_body([0x0202, 0x0311]), dialects=[0x0202, 0x0311])
    s2, rs2 = mk2(rng, 1, smb2_setup_body(blob(20)))
    keepalive = b"\x85\x00\x00\x00"
    flows = [[n1, s1], [n1, keepalive, s1], [n2, s2], [n2, keepalive, s2], [n2, keepalive, keepalive, s2, s2], [n1, b"junk", s1],
             [n1, n2], [n2, n1], [s2, n2], [n1, b"", s1]]
    sportm = 7800
    for i, segs in enumerate(flows):
        for v6 in (False, True):
            s_, d_ = gens.addr_pair(v6)
            sportm += 1
            fl = gens.handshake(b2.cfg.key, s_, d_, sportm, 445, segs)
            b2.tcp.append(fl)
            ORACLE[fl[1]] = ({n1: rq1, s1: rs1, n2: rq2, s2: rs2}[segs[0]], "answer", True)
    yield from b2.scripts()
    # the peer's advertised receive window is not an input of the responder
    b3 = Batch("small-windows")
    for win in (0, 1, 100, 229, 400, 451, 452):
        for p_, rq_ in ((n1, rq1), (s1, rs1), (n2, rq2), (s2, rs2)):
            sportm += 1
            fl = gens.handshake(b3.cfg.key, gens.PEER4, gens.SELF4, sportm, 445, [p_], window=win)
            b3.tcp.append(fl)
            ORACLE[fl[-1]] = (rq_, "answer", True)
    yield from b3.scripts()
    # G. NetBIOS header bytes
    b = Batch("nbt-header")
    for typ, fl, ln in ((0, 0, None), (0, 1, None), (0x81, 0, None), (0, 0, 0), (0, 0, 0xffff), (0x85, 0, 4)):
        body = smb2_hdr(0) + smb2_neg_body([0x0202])
        b.add(nbt(body, typ=typ, flags=fl, length=ln), None, None)
    yield from b.scripts()


def nontrivial(script):
    return any(f in ORACLE and ORACLE[f][1] == "answer" for f in script.frames)


FT_OFFSETS = {1: (60, 68), 2: (108, 116)}


def app_payload(o):
    """application payload with the wall-clock fields of negotiate responses masked"""
    if o.kind != "R":
        return (o.kind,)
    p = net.parse_frame(o.reply)
    if p is None or p.proto not in (6, 17):
        return ("R", "other")
    a = bytearray(p.app)
    if len(a) >= 68 and a[4:8] == b"\xffSMB" and a[8] == 0x72:
        a[60:68] = bytes(8)
    elif len(a) >= 116 and a[4:8] == b"\xfeSMB" and a[16:18] == b"\0\0":
        a[108:116] = bytes(8)
    return ("R", p.proto, bytes(a))


def abstract_reply(app):
    """The fields of an SMB reply that C17 determines (framing, reply flag, command, correlation fields, embedded
    lengths / offsets and whether they are consistent with the bytes present, selected dialect); free fields (times,
    GUIDs, capabilities, native OS strings, the blob's content) are left out."""
    if len(app) < 8 or app[0] != 0 or app[5:8] != b"SMB":
        return ("raw", app)
    nbt_ok = int.from_bytes(app[1:4], "big") & 0x1ffff == len(app) - 4
    m = app[4:]
    if m[0] == 0xff and len(m) >= 32:
        hdr = (m[4], m[9] & 0x80, m[12:14], m[24:32])
        b = m[32:]
        if m[4] == 0x72 and len(b) >= 37:
            bc, = struct.unpack("<H", b[35:37])
            return ("smb1-neg", nbt_ok, hdr, b[0], b[1:3], bc == len(b) - 37, len(b) - 37 - 16, der_len_ok(b[53:]))
        if m[4] == 0x73 and len(b) >= 11:
            sl, bc = struct.unpack("<HH", b[7:11])
            return ("smb1-setup", nbt_ok, hdr, b[0], sl, bc == len(b) - 11, der_len_ok(b[11:11 + sl]))
        return ("smb1-other", nbt_ok, hdr, len(b))
    if m[0] == 0xfe and len(m) >= 64:
        hdr = (m[12:14], m[16] & 1, m[24:48])
        b = m[64:]
        if m[12:14] == b"\0\0" and len(b) >= 64:
            off, ln = struct.unpack("<HH", b[56:60])
            return ("smb2-neg", nbt_ok, hdr, b[0:2], b[4:6], off, ln == len(b) - 64, der_len_ok(b[64:]))
        if m[12:14] == b"\1\0" and len(b) >= 8:
            off, ln = struct.unpack("<HH", b[4:8])
            return ("smb2-setup", nbt_ok, hdr, b[0:2], off, ln == len(b) - 8, der_len_ok(b[8:]))
        return ("smb2-other", nbt_ok, hdr, len(b))
    return ("raw", app)


def project(script, i, o):
    a = app_payload(o)
    if a[0] != "R" or len(a) != 3:
        return a
    return ("R", a[1], abstract_reply(a[2]))


def history_monitor(script, outs):
    msgs = []
    for i, (f, o) in enumerate(zip(script.frames, outs)):
        if f not in ORACLE:
            continue
        req, expect, tcp = ORACLE[f]
        a = app_payload(o)
        answered = a[0] == "R" and len(a) == 3 and len(a[2]) > 0
        if expect == "answer":
            if not answered:
                msgs.append((i, "python oracle: request not answered"))
                continue
            e = check_reply(req, a[2])
            if e:
                msgs.append((i, "python oracle: " + e))
        elif expect == "silent" and answered and len(a[2]) >= 8 and a[2][5:8] == b"SMB":
            msgs.append((i, "python oracle: a message that must not be answered got an SMB reply"))
    return msgs


def neighbourhood(script, rng):
    yield script
