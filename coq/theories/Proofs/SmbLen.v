(* SmbLen.v -- exact lengths of the SMB replies (needed by the u16 length
   conversions of the transport layers: C01, C04). *)
From MS Require Import Proofs.Tactics Smb Proofs.SmbSafe.
Open Scope N_scope.

(* ====================================================================== *)
(*                             reply lengths                              *)
(* ====================================================================== *)
Lemma some_inj {A} (a b : A) : Some a = Some b -> a = b.
Proof. congruence. Qed.
Lemma ok_some_inj {A} (a b : A) : @Ok (option A) (Some a) = Ok (Some b) -> a = b.
Proof. congruence. Qed.

Lemma nbt_repl_some T (t_repl : T -> option bytes) s r :
  nbt_repl T t_repl s = Ok (Some r) ->
  exists p r0, nb_pay T s = Some p /\ t_repl p = Some r0 /\
               r = [0; N.land (N.shiftr (N.land (lenN r0) 131071 mod W32) 16) 255]
                   ++ be16 (N.land (N.land (lenN r0) 131071) 65535) ++ r0.
Proof.
  unfold nbt_repl. destruct (nb_pay T s) as [p|]; [|discriminate].
  destruct (t_repl p) as [r0|] eqn:Er; [|discriminate]. cbv zeta.
  destruct (256 <=? _); [discriminate|]. intros H. apply ok_some_inj in H. subst r. eauto.
Qed.

Lemma le16_length x : length (le16 x) = 2%nat. Proof. reflexivity. Qed.
Lemma le32_length x : length (le32 x) = 4%nat. Proof. reflexivity. Qed.
Lemma le64_length x : length (le64 x) = 8%nat. Proof. reflexivity. Qed.
Lemma be16_length x : length (be16 x) = 2%nat. Proof. reflexivity. Qed.
Lemma zeros_length n : length (zeros n) = n. Proof. apply repeat_length. Qed.

Ltac len_simpl :=
  repeat (rewrite ?app_length, ?le16_length, ?le32_length, ?le64_length, ?be16_length, ?zeros_length);
  cbn [length].

Lemma hdr1_repl_len neg chal ft s r :
  hdr1_repl neg chal ft s = Some r ->
  (length r = 85 + length neg \/ length r = 91 + length chal)%nat.
Proof.
  unfold hdr1_repl. destruct (h1_pay s) as [p|]; [|discriminate].
  destruct (pay1_repl neg chal ft p) as [body|] eqn:Eb; [|discriminate].
  intros H. apply some_inj in H. subst r.
  destruct p as [n|st]; cbn [pay1_repl] in Eb.
  - unfold neg1_repl in Eb. destruct (negb _); [discriminate|]. apply some_inj in Eb. subst body.
    left. unfold SMB1_MAGIC. len_simpl. lia.
  - unfold setup1_repl in Eb. destruct (negb _); [discriminate|]. apply some_inj in Eb. subst body.
    right. unfold SMB1_MAGIC, NATIVE_OS. len_simpl. lia.
Qed.

Lemma hdr2_repl_len neg chal ft s r :
  inv_h2 s -> hdr2_repl neg chal ft s = Some r ->
  (length r = 128 + length neg \/ length r = 72 + length chal)%nat.
Proof.
  intros I. unfold hdr2_repl. destruct (h2_pay s) as [p|] eqn:Ep; [|discriminate].
  destruct (pay2_repl neg chal ft p) as [body|] eqn:Eb; [|discriminate].
  intros H. apply some_inj in H. subst r.
  unfold inv_h2 in I. rewrite Ep in I.
  destruct p as [n|st]; cbn [pay2_repl] in Eb.
  - unfold neg2_repl in Eb. destruct (negb _); [discriminate|].
    destruct (neg2_pick _); [|discriminate]. apply some_inj in Eb. subst body.
    assert (HG : length (n2_client_guid n) = 16%nat) by (cbn [inv_p2] in I; unfold inv_n2 in I; tauto).
    left. unfold SMB2_MAGIC. len_simpl. rewrite HG. lia.
  - unfold setup2_repl in Eb. destruct (negb _); [discriminate|]. apply some_inj in Eb. subst body.
    right. unfold SMB2_MAGIC. len_simpl. lia.
Qed.

Theorem smb1_reply_len neg chal ft data r :
  bytes_ok data = true -> smb1_repl neg chal ft data = Ok (Some r) ->
  (length r = 89 + length neg \/ length r = 95 + length chal)%nat.
Proof.
  intros Hd. unfold smb1_repl.
  destruct (nbt_run_ok hdr1 hdr1_new hdr1_byte (hdr1_repl neg chal ft) inv_h1 inv_h1_new hdr1_step data Hd)
    as (s & _ & Is & ->).
  intros H. apply nbt_repl_some in H. destruct H as (p & r0 & Ep & Er & ->).
  apply hdr1_repl_len in Er. len_simpl. lia.
Qed.

Theorem smb2_reply_len neg chal ft data r :
  bytes_ok data = true -> smb2_repl neg chal ft data = Ok (Some r) ->
  (length r = 132 + length neg \/ length r = 76 + length chal)%nat.
Proof.
  intros Hd. unfold smb2_repl.
  destruct (nbt_run_ok hdr2 hdr2_new hdr2_byte (hdr2_repl neg chal ft) inv_h2 inv_h2_new hdr2_step data Hd)
    as (s & _ & Is & ->).
  intros H. apply nbt_repl_some in H. destruct H as (p & r0 & Ep & Er & ->).
  unfold inv_nb in Is. rewrite Ep in Is.
  apply hdr2_repl_len in Er; [|exact Is]. len_simpl. lia.
Qed.

(* the form needed by the transport layers (u16 length conversions) *)
Corollary smb_reply_short neg chal ft data r :
  bytes_ok data = true ->
  smb1_repl neg chal ft data = Ok (Some r) \/ smb2_repl neg chal ft data = Ok (Some r) ->
  (length r <= 132 + length neg + length chal)%nat.
Proof.
  intros Hd [H|H].
  - apply smb1_reply_len in H; [lia | exact Hd].
  - apply smb2_reply_len in H; [lia | exact Hd].
Qed.

