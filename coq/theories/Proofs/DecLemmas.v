(* DecLemmas.v -- decode-after-encode laws: the strict reply decoders of
   Spec/RefDec.v read back exactly the fields the builders of L2/L3/L4 write. *)
From MS Require Import Proofs.Tactics L2 Spec.RefDec.

Lemma dec_eth_frame (dst src : bytes) (ety : N) (pl : bytes) :
  length dst = 6%nat -> length src = 6%nat -> ety < 65536 ->
  dec_eth (eth_frame dst src ety pl) =
  Some {| de_dst := dst; de_src := src; de_type := ety; de_payload := pl |}.
Proof.
  intros Hd Hs He. explode_lists.
  unfold dec_eth, eth_frame, be16, u16_at, u8_at. list_cbn.
  do 2 f_equal. lia.
Qed.

Lemma dec_ipv4_packet (total proto c : N) (src dst l4 : bytes) :
  length src = 4%nat -> length dst = 4%nat -> proto < 256 ->
  dec_ipv4 (set_cksum 10 (ipv4_header total proto src dst ++ l4) c) =
  Some {| di_v4 := true;
          di_hdr := set_cksum 10 (ipv4_header total proto src dst) c;
          di_len_field := total mod 65536; di_ttl := 64; di_proto := proto;
          di_src := src; di_dst := dst; di_payload := l4 |}.
Proof.
  intros Hs Hd Hp. explode_lists.
  unfold dec_ipv4, set_cksum, ipv4_header, be16, u16_at, u8_at. list_cbn.
  change (69 =? 69) with true. cbn [negb].
  do 2 f_equal. lia.
Qed.

Lemma dec_ipv6_packet (plen nh hlim : N) (src dst l4 : bytes) :
  length src = 16%nat -> length dst = 16%nat -> nh < 256 -> hlim < 256 ->
  dec_ipv6 (ipv6_header plen nh hlim src dst ++ l4) =
  Some {| di_v4 := false;
          di_hdr := ipv6_header plen nh hlim src dst;
          di_len_field := plen mod 65536; di_ttl := hlim; di_proto := nh;
          di_src := src; di_dst := dst; di_payload := l4 |}.
Proof.
  intros Hs Hd Hn Hh. explode_lists.
  unfold dec_ipv6, ipv6_header, be16, u16_at, u8_at. list_cbn.
  change (96 / 16 =? 6) with true. cbn [negb].
  do 2 f_equal. lia.
Qed.

Lemma dec_tcp_segment (sp dp seq ack fl c : N) (pl : bytes) :
  fl < 512 ->
  dec_tcp (set_cksum 16 (tcp_header sp dp seq ack fl ++ pl) c) =
  Some {| dt_sport := sp mod 65536; dt_dport := dp mod 65536;
          dt_seq := seq mod 4294967296; dt_ack := ack mod 4294967296;
          dt_doff := 5; dt_flags := fl; dt_window := 65535; dt_payload := pl |}.
Proof.
  intros Hfl.
  unfold dec_tcp, set_cksum, tcp_header, be16, be32, u32_at, u16_at, u8_at, lenN. list_cbn.
  replace ((80 + (fl / 256) mod 2) / 16) with 5 by lia.
  change (5 <? 5) with false.
  replace (N.of_nat (S (S (S (S (S (S (S (S (S (S (S (S (S (S (S (S (S (S (S (S (length pl))))))))))))))))))))) <? 5 * 4)
    with false by lia.
  cbn [orb]. change (N.to_nat 5 * 4)%nat with 20%nat. list_cbn.
  f_equal. f_equal; lia.
Qed.

Lemma dec_udp_datagram (sp dp len c : N) (pl : bytes) :
  dec_udp (set_cksum 6 (be16 sp ++ be16 dp ++ be16 len ++ [0; 0] ++ pl) c) =
  Some {| du_sport := sp mod 65536; du_dport := dp mod 65536; du_len := len mod 65536;
          du_cksum := c mod 65536; du_payload := pl |}.
Proof.
  unfold dec_udp, set_cksum, be16, u16_at, u8_at. list_cbn.
  f_equal. f_equal; lia.
Qed.
