"""Inventory of explicit panic sites (unwrap / expect / panic! / unreachable! / assert!) in the parts of
/repo that reply() can reach. The committed inventory (harness/panic_inventory.json) maps every site to
its disposition: the model's Panic branch that represents it, or the reason it cannot fire. A site that
is new (or whose text changed) breaks the C01 correspondence (the model no longer accounts for every way the
code can abort); a site that has disappeared is only logged."""
import os, re, json, sys
from common import *

TOK = re.compile(r"\.unwrap\(\)|\.expect\(|panic!\(|unreachable!\(|todo!\(|unimplemented!\(|\bassert(_eq|_ne)?!\(")
FN = re.compile(r"^\s*(pub(\([a-z]+\))?\s+)?fn\s+([A-Za-z0-9_]+)")
# not reachable from reply(): start-up code, file parsers, the verification driver
SKIP_FILES = {"src/verif_driver.rs", "src/utils/parsers.rs"}
SKIP_FNS = {("src/masscanned.rs", "main"), ("src/masscanned.rs", "get_channel")}
INVENTORY = os.path.join(VERIF, "harness", "panic_inventory.json")


OPEN, CLOSE = "([{", ")]}"


def _strip_comments(text):
    return "\n".join(l if not l.strip().startswith("//") else "" for l in text.split("\n"))


def site_expr(text, start, tok):
    """Identity of a panic site: for .unwrap() / .expect( the receiver expression the call is applied to -- scanned
    backwards from the call over identifiers, paths, field accesses, `?`, `&`, `*`, `!`, balanced brackets, and over
    line breaks where rustfmt has broken a method chain or an argument list -- with every bracketed argument list
    elided and white space removed, followed by the call's name. So `let mut ct = CONTABLE.lock().unwrap();`,
    `f(CONTABLE.lock().unwrap().get_mut(&c))` and a chain broken over several lines are all `CONTABLE.lock().unwrap()`,
    and `X::owned(vec![0; n]).expect("..")` is `X::owned().expect(` whatever n and the message are. For the macros
    (panic!, assert!, ...): the macro's name (`panic!()`), whatever its arguments and the match arm it stands in."""
    if not tok.startswith("."):
        return tok + ")"             # panic!() / assert!() / unreachable!() ...: the macro, whatever its arguments
    i, depth = start, 0
    while i > 0:
        c = text[i - 1]
        if c in CLOSE:
            depth += 1
        elif c in OPEN:
            if depth == 0:
                break
            depth -= 1
        elif depth == 0:
            if c.isspace():
                # a line break inside a method chain: the text to the right starts with '.'
                if text[i:start + 1].lstrip().startswith(".") and not text[i:].lstrip().startswith(".."):
                    i -= 1
                    continue
                break
            if not (c.isalnum() or c in "_.:?&*!<>'\""):
                break
        i -= 1
    recv, out, depth = text[i:start], [], 0
    for c in recv:
        if c in OPEN:
            if depth == 0:
                out.append(c)
            depth += 1
        elif c in CLOSE:
            depth -= 1
            if depth == 0:
                out.append(c)
        elif depth == 0 and not c.isspace():
            out.append(c)
    return "".join(out) + (".unwrap()" if tok.startswith(".unwrap") else ".expect(")


def scan(repo=REPO):
    sites = []
    for root, dirs, fs in os.walk(os.path.join(repo, "src")):
        dirs.sort()
        for f in sorted(fs):
            if not f.endswith(".rs"):
                continue
            p = os.path.join(root, f)
            rel = os.path.relpath(p, repo)
            if rel in SKIP_FILES:
                continue
            text = open(p).read()
            cut = text.find("#[cfg(test)]")
            text = _strip_comments(text if cut < 0 else text[:cut])
            fns = [(m.start(), m.group(3)) for m in re.finditer(FN.pattern, text, re.M)]
            seen = {}
            for t in TOK.finditer(text):
                fn = next((n for pos, n in reversed(fns) if pos <= t.start()), "?")
                if (rel, fn) in SKIP_FNS:
                    continue
                key = "%s|%s|%s" % (rel, fn, site_expr(text, t.start(), t.group(0)))
                seen[key] = seen.get(key, 0) + 1
                sites.append(key + ("#%d" % seen[key] if seen[key] > 1 else ""))
    return sites


ROOT = re.compile(r"^[A-Za-z_][A-Za-z0-9_]*(?=\.)")


def _bag(keys):
    """multiset, over the whole crate, of site expressions without the name of the variable they start from
    (`client_info.port.dst.unwrap()` and `self.port.dst.unwrap()` are both `.port.dst.unwrap()`): the file, the enclosing
    function, the occurrence number, the statement around the panicking call and the name of the receiver are not part
    of a site's identity, so that moving a site into a helper function or a method of another file, rewriting the
    statement around it or reformatting it is not reported; a site of a kind the inventory does not have, or one more
    site of a kind than it has, is"""
    bag = {}
    for k in keys:
        f, fn, text = k.split("|", 2)
        text = ROOT.sub("", re.sub(r"#\d+$", "", text).rstrip(" ;,"))
        bag[text] = bag.get(text, 0) + 1
    return bag


# discharged by their form, wherever they stand: converting a slice taken with a range (`v[4..8]`) into a fixed-size array
# fails for every input or for none (the lengths are fixed by the range and by the target type), and taking the slice is an
# index expression, which this inventory does not cover anyway (index panics are the dynamic checks' business)
BY_FORM = re.compile(r"\[\]\.try_into\(\)\.unwrap\(\)$")


def compare():
    """-> list of problem strings (empty when every site of the code is accounted for by the inventory)."""
    inv = json.load(open(INVENTORY))
    cur, known = _bag(scan()), _bag(inv)
    out = []
    for k in sorted(cur):
        if BY_FORM.search(k):
            continue
        if cur[k] > known.get(k, 0):
            out.append("panic site not in the inventory (no model branch / discharge accounts for it): %s (%d in the code, %d "
                       "in the inventory)" % (k, cur[k], known.get(k, 0)))
    # a site that is gone cannot abort the process any more: information only (the model's Panic branch for it is
    # then unreachable in the code, which no C01 statement depends on)
    for k in sorted(known):
        if known[k] > cur.get(k, 0):
            log("C01 inventory: fewer sites of this kind in the code than in the inventory: %s" % k)
    return out


if __name__ == "__main__":
    if "--init" in sys.argv:
        old = json.load(open(INVENTORY)) if os.path.exists(INVENTORY) else {}
        new = {k: old.get(k, "TODO") for k in scan()}
        json.dump(new, open(INVENTORY, "w"), indent=1, sort_keys=True)
        print(len(new), "sites;", sum(1 for v in new.values() if v == "TODO"), "without disposition")
    else:
        for l in compare():
            print(l)
