(* Proofs/HttpParse.v -- the language of the HTTP parser model: starting from a
   fresh state, one buffer [p] drives the parser into CONTENT (the 401 is sent)
   exactly when [p] has a complete prefix in Lrelaxed ([rl_request p <> None]). *)
From Coq Require Import Lia.
From MS Require Import Http Spec.RefHttp Spec.HttpTbl Spec.C11http
  Proofs.Tactics Proofs.SmackSeg Proofs.HttpLemmas Proofs.HttpFold.


(* ------------------------------------------------------------------ *)
(* after the verb: a plain fold of http_byte                           *)
(* ------------------------------------------------------------------ *)
Definition stb (s : http_st) (X : N) : Prop := h_state s = X /\ h_bis s = 0.

Lemma hb_space s b : h_state s = HTTP_SPACE ->
  http_byte s b = if b =? 32 then set_state s HTTP_URI else set_state s HTTP_FAIL.
Proof. intros H. unfold http_byte. rewrite H. reflexivity. Qed.

Lemma hb_uri s b : h_state s = HTTP_URI ->
  http_byte s b = if b =? 32 then set_state s HTTP_H
                  else if (b =? 13) || (b =? 10) then set_state s HTTP_FAIL
                  else {| h_state := HTTP_URI; h_bis := h_bis s; h_smack := h_smack s; h_verb := h_verb s;
                          h_uri := h_uri s ++ [b] |}.
Proof. intros H. unfold http_byte. rewrite H. reflexivity. Qed.

Lemma hb_lit s b st x :
  In (st, x) [(4, 72); (5, 84); (6, 84); (7, 80); (8, 47)] -> h_state s = st ->
  http_byte s b = if b =? x then set_state s (st + 1) else set_state s HTTP_FAIL.
Proof.
  intros Hin H. cbn [In] in Hin.
  repeat (destruct Hin as [Hin|Hin]; [injection Hin as <- <-; unfold http_byte; rewrite H; reflexivity|]).
  contradiction.
Qed.

Lemma hb_vmaj s b : h_state s = HTTP_VMAJ ->
  http_byte s b = if b =? 46 then (if h_bis s =? 0 then set_state s HTTP_FAIL else set_state_bis s HTTP_VMIN 0)
                  else if is_digit b then set_state_bis s HTTP_VMAJ 1
                  else set_state s HTTP_FAIL.
Proof. intros H. unfold http_byte. rewrite H. reflexivity. Qed.

Lemma hb_vmin s b : h_state s = HTTP_VMIN ->
  http_byte s b = if b =? 13 then s
                  else if b =? 10 then (if h_bis s =? 0 then set_state s HTTP_FAIL else set_state_bis s HTTP_FIELD_START 0)
                  else if is_digit b then set_state_bis s HTTP_VMIN 1
                  else set_state s HTTP_FAIL.
Proof. intros H. unfold http_byte. rewrite H. reflexivity. Qed.

Lemma hb_fstart s b : h_state s = HTTP_FIELD_START ->
  http_byte s b = if b =? 13 then s
                  else if b =? 10 then set_state_bis s HTTP_CONTENT 0
                  else set_state_bis s HTTP_FIELD_NAME 0.
Proof. intros H. unfold http_byte. rewrite H. reflexivity. Qed.

Lemma hb_fname s b : h_state s = HTTP_FIELD_NAME ->
  http_byte s b = if (b =? 13) || (b =? 10) then set_state s HTTP_FAIL
                  else if b =? 58 then set_state s HTTP_FIELD_VALUE
                  else s.
Proof. intros H. unfold http_byte. rewrite H. reflexivity. Qed.

Lemma hb_fvalue s b : h_state s = HTTP_FIELD_VALUE ->
  http_byte s b = if b =? 13 then s else if b =? 10 then set_state s HTTP_FIELD_START else s.
Proof. intros H. unfold http_byte. rewrite H. reflexivity. Qed.

Lemma ans_fail s d : h_state s = HTTP_FAIL -> http_answers (run s d) = false.
Proof. intros H. rewrite run_fail by exact H. unfold http_answers. rewrite H. reflexivity. Qed.

(* shape of a phase lemma: the recogniser succeeds and the parser moves on to
   the next phase on the rest, or it fails and the parser will not answer *)
Definition phase (s : http_st) (d : bytes) (o : option bytes) (Y : N) : Prop :=
  match o with
  | Some r => exists s', stb s' Y /\ run s d = run s' r
  | None => http_answers (run s d) = false
  end.

Lemma ph_space s d : stb s HTTP_SPACE -> phase s d (rx_byte 32 d) HTTP_URI.
Proof.
  intros [Hs Hb]. unfold phase. destruct d as [|b r]; cbn [rx_byte].
  - unfold run, http_answers. cbn [fold_left]. rewrite Hs. reflexivity.
  - rewrite run_cons, hb_space by exact Hs. destruct (b =? 32).
    + exists (set_state s HTTP_URI). split; [split; [reflexivity | exact Hb] | reflexivity].
    + apply ans_fail. reflexivity.
Qed.

Lemma ph_uri : forall d s, stb s HTTP_URI -> phase s d (rx_until_sp d) HTTP_H.
Proof.
  induction d as [|b r IH]; intros s [Hs Hb]; unfold phase; cbn [rx_until_sp].
  - unfold run, http_answers. cbn [fold_left]. rewrite Hs. reflexivity.
  - rewrite run_cons, hb_uri by exact Hs. destruct (b =? 32).
    + exists (set_state s HTTP_H). split; [split; [reflexivity | exact Hb] | reflexivity].
    + destruct ((b =? 13) || (b =? 10)).
      * apply ans_fail. reflexivity.
      * apply IH. split; [reflexivity | exact Hb].
Qed.

Lemma ph_lit_aux : forall lit d s k,
  In (k, lit) [(4, [72; 84; 84; 80; 47]); (5, [84; 84; 80; 47]); (6, [84; 80; 47]); (7, [80; 47]); (8, [47]); (9, [])] ->
  stb s k -> phase s d (rx_lit lit d) HTTP_VMAJ.
Proof.
  induction lit as [|x lit IH]; intros d s k Hin [Hs Hb].
  - assert (k = 9) by (cbn [In] in Hin; repeat (destruct Hin as [Hin|Hin]; [congruence|]); contradiction).
    subst k. unfold phase, rx_lit. cbn [is_prefix length skipn]. exists s. split; [split; assumption | reflexivity].
  - assert (Hk : In (k, x) [(4, 72); (5, 84); (6, 84); (7, 80); (8, 47)] /\
                 In (k + 1, lit) [(4, [72; 84; 84; 80; 47]); (5, [84; 84; 80; 47]); (6, [84; 80; 47]); (7, [80; 47]); (8, [47]); (9, [])]).
    { cbn [In] in Hin. repeat (destruct Hin as [Hin|Hin]; [injection Hin as <- <- <-; cbn [In]; split; tauto|]).
      destruct Hin as [Hin|Hin]; [discriminate | contradiction]. }
    destruct Hk as [Hk1 Hk2]. unfold phase, rx_lit. destruct d as [|b r]; cbn [is_prefix].
    + unfold run, http_answers. cbn [fold_left]. rewrite Hs.
      cbn [In] in Hk1. repeat (destruct Hk1 as [Hk1|Hk1]; [injection Hk1 as <- _; reflexivity|]). contradiction.
    + rewrite run_cons, (hb_lit s b k x Hk1 Hs). rewrite (N.eqb_sym x b). destruct (b =? x); cbn [andb].
      * specialize (IH r (set_state s (k + 1)) (k + 1) Hk2). unfold phase, rx_lit in IH.
        cbn [length skipn]. apply IH. split; [reflexivity | exact Hb].
      * apply ans_fail. reflexivity.
Qed.
Lemma ph_lit s d : stb s HTTP_H -> phase s d (rx_lit HTTP_SLASH_LIT d) HTTP_VMAJ.
Proof. apply ph_lit_aux. cbn [In]. left. reflexivity. Qed.

(* major version: digit+ "." *)
Lemma ph_vmaj_more : forall d s, h_state s = HTTP_VMAJ -> h_bis s = 1 ->
  phase s d (rx_byte 46 (skip_digits d)) HTTP_VMIN.
Proof.
  induction d as [|b r IH]; intros s Hs Hb; unfold phase; cbn [skip_digits].
  - cbn [rx_byte]. unfold run, http_answers. cbn [fold_left]. rewrite Hs. reflexivity.
  - rewrite run_cons, hb_vmaj by exact Hs. destruct (is_digit b) eqn:Ed.
    + replace (b =? 46) with false by (unfold is_digit in Ed; lia).
      apply IH; reflexivity.
    + cbn [rx_byte]. destruct (b =? 46).
      * rewrite Hb. change (1 =? 0) with false. cbv iota.
        exists (set_state_bis s HTTP_VMIN 0). split; [split; reflexivity | reflexivity].
      * apply ans_fail. reflexivity.
Qed.
Lemma ph_vmaj s d : stb s HTTP_VMAJ ->
  phase s d (olet r5 <- rx_digits1 d; rx_byte 46 r5) HTTP_VMIN.
Proof.
  intros [Hs Hb]. destruct d as [|b r]; cbn [rx_digits1 obind].
  - unfold phase, run, http_answers. cbn [fold_left]. rewrite Hs. reflexivity.
  - destruct (is_digit b) eqn:Ed; cbn [obind].
    + unfold phase. rewrite run_cons, hb_vmaj by exact Hs.
      replace (b =? 46) with false by (unfold is_digit in Ed; lia). rewrite Ed.
      apply ph_vmaj_more; reflexivity.
    + unfold phase. rewrite run_cons, hb_vmaj by exact Hs. rewrite Ed, Hb.
      change (0 =? 0) with true. cbv iota. destruct (b =? 46); apply ans_fail; reflexivity.
Qed.

(* minor version: digits and CRs, at least one digit, LF *)
Lemma ph_vmin_aux : forall d s seen, h_state s = HTTP_VMIN -> (h_bis s =? 0) = negb seen ->
  phase s d (rl_minor d seen) HTTP_FIELD_START.
Proof.
  induction d as [|b r IH]; intros s seen Hs Hb; unfold phase; cbn [rl_minor].
  - unfold run, http_answers. cbn [fold_left]. rewrite Hs. reflexivity.
  - rewrite run_cons, hb_vmin by exact Hs. destruct (b =? 13).
    + apply IH; assumption.
    + destruct (b =? 10).
      * rewrite Hb. destruct seen; cbn [negb].
        -- exists (set_state_bis s HTTP_FIELD_START 0). split; [split; reflexivity | reflexivity].
        -- apply ans_fail. reflexivity.
      * destruct (is_digit b).
        -- apply IH; reflexivity.
        -- apply ans_fail. reflexivity.
Qed.
Lemma ph_vmin s d : stb s HTTP_VMIN -> phase s d (rl_minor d false) HTTP_FIELD_START.
Proof. intros [Hs Hb]. apply ph_vmin_aux; [exact Hs | rewrite Hb; reflexivity]. Qed.

(* header lines *)
Lemma run_skip_cr : forall d s, h_state s = HTTP_FIELD_START -> run s d = run s (skip_cr d).
Proof.
  induction d as [|b r IH]; intros s Hs; cbn [skip_cr]; [reflexivity|].
  destruct (b =? 13) eqn:E; [|reflexivity].
  rewrite run_cons, hb_fstart by exact Hs. rewrite E. apply IH. exact Hs.
Qed.
Lemma skip_cr_length : forall d, (length (skip_cr d) <= length d)%nat.
Proof. induction d as [|b r IH]; cbn [skip_cr length]; [lia|]. destruct (b =? 13); cbn [length]; lia. Qed.

Lemma ph_fname : forall d s, stb s HTTP_FIELD_NAME ->
  match rl_name d with
  | Some r => (length r < length d)%nat /\ exists s', stb s' HTTP_FIELD_VALUE /\ run s d = run s' r
  | None => http_answers (run s d) = false
  end.
Proof.
  induction d as [|b r IH]; intros s [Hs Hb]; cbn [rl_name].
  - unfold run, http_answers. cbn [fold_left]. rewrite Hs. reflexivity.
  - rewrite run_cons, hb_fname by exact Hs. destruct (b =? 58) eqn:Ec.
    + replace ((b =? 13) || (b =? 10)) with false by lia. split; [cbn [length]; lia|].
      exists (set_state s HTTP_FIELD_VALUE). split; [split; [reflexivity | exact Hb] | reflexivity].
    + destruct ((b =? 13) || (b =? 10)).
      * apply ans_fail. reflexivity.
      * specialize (IH s (conj Hs Hb)). destruct (rl_name r) as [r1|]; [|exact IH].
        destruct IH as [Hl IH]. split; [cbn [length]; lia | exact IH].
Qed.
Lemma ph_fvalue : forall d s, stb s HTTP_FIELD_VALUE ->
  match rl_value d with
  | Some r => (length r < length d)%nat /\ exists s', stb s' HTTP_FIELD_START /\ run s d = run s' r
  | None => http_answers (run s d) = false
  end.
Proof.
  induction d as [|b r IH]; intros s [Hs Hb]; cbn [rl_value].
  - unfold run, http_answers. cbn [fold_left]. rewrite Hs. reflexivity.
  - rewrite run_cons, hb_fvalue by exact Hs. destruct (b =? 10) eqn:El.
    + replace (b =? 13) with false by lia. split; [cbn [length]; lia|].
      exists (set_state s HTTP_FIELD_START). split; [split; [reflexivity | exact Hb] | reflexivity].
    + assert (Hrun : run (if b =? 13 then s else s) r = run s r) by (destruct (b =? 13); reflexivity).
      rewrite Hrun. specialize (IH s (conj Hs Hb)). destruct (rl_value r) as [r1|]; [|exact IH].
      destruct IH as [Hl IH]. split; [cbn [length]; lia | exact IH].
Qed.

Lemma skip_cr_hd : forall d b r, skip_cr d = b :: r -> (b =? 13) = false.
Proof.
  induction d as [|x d IH]; intros b r H; cbn [skip_cr] in H; [discriminate|].
  destruct (x =? 13) eqn:E; [apply (IH _ _ H)|]. injection H as <- _. exact E.
Qed.

Lemma ph_headers : forall fuel d s, stb s HTTP_FIELD_START -> (length d < fuel)%nat ->
  phase s d (rl_headers fuel d) HTTP_CONTENT.
Proof.
  induction fuel as [|f IH]; intros d s [Hs Hb] Hf; [lia|]. unfold phase. cbn [rl_headers].
  rewrite (run_skip_cr d s Hs). pose proof (skip_cr_length d) as Hl.
  destruct (skip_cr d) as [|b r] eqn:Esk.
  - unfold run, http_answers. cbn [fold_left]. rewrite Hs. reflexivity.
  - cbn [length] in Hl. rewrite run_cons, hb_fstart by exact Hs.
    rewrite (skip_cr_hd _ _ _ Esk). destruct (b =? 10).
    + exists (set_state_bis s HTTP_CONTENT 0). split; [split; reflexivity | reflexivity].
    + pose proof (ph_fname r (set_state_bis s HTTP_FIELD_NAME 0) (conj eq_refl eq_refl)) as H1.
      destruct (rl_name r) as [r1|]; cbn [obind]; [|exact H1].
      destruct H1 as (L1 & s2 & St2 & ->).
      pose proof (ph_fvalue r1 s2 St2) as H2.
      destruct (rl_value r1) as [r2|]; cbn [obind]; [|exact H2].
      destruct H2 as (L2 & s3 & St3 & ->).
      apply (IH r2 s3 St3). lia.
Qed.

(* the whole head after the verb *)
Theorem post_verb_spec s d :
  stb s HTTP_SPACE -> http_answers (run s d) = is_some (rl_after_verb d).
Proof.
  intros St. unfold rl_after_verb.
  pose proof (ph_space s d St) as H. unfold phase in H.
  destruct (rx_byte 32 d) as [r2|]; cbn [obind is_some]; [|exact H]. destruct H as (s2 & St2 & ->).
  pose proof (ph_uri r2 s2 St2) as H. unfold phase in H.
  destruct (rx_until_sp r2) as [r3|]; cbn [obind is_some]; [|exact H]. destruct H as (s3 & St3 & ->).
  pose proof (ph_lit s3 r3 St3) as H. unfold phase in H.
  destruct (rx_lit HTTP_SLASH_LIT r3) as [r4|]; cbn [obind is_some]; [|exact H]. destruct H as (s4 & St4 & ->).
  pose proof (ph_vmaj s4 r4 St4) as H. unfold phase in H.
  destruct (rx_digits1 r4) as [r5|]; cbn [obind is_some] in *; [|exact H].
  destruct (rx_byte 46 r5) as [r6|]; cbn [obind is_some] in *; [|exact H]. destruct H as (s6 & St6 & ->).
  pose proof (ph_vmin s6 r6 St6) as H. unfold phase in H.
  destruct (rl_minor r6 false) as [r7|]; cbn [obind is_some]; [|exact H]. destruct H as (s7 & St7 & ->).
  pose proof (ph_headers (S (length r7)) r7 s7 St7 (Nat.lt_succ_diag_r _)) as H. unfold phase in H.
  destruct (rl_headers (S (length r7)) r7) as [r8|]; cbn [is_some]; [|exact H]. destruct H as (s8 & [St8 _] & ->).
  rewrite run_content by exact St8. unfold http_answers. rewrite St8. reflexivity.
Qed.

(* ------------------------------------------------------------------ *)
(* the verb phase against the method trie                              *)
(* ------------------------------------------------------------------ *)
Lemma rx_word_null f cands s : existsb null cands = true -> rx_word f cands s = Some s.
Proof. intros H. destruct s; cbn [rx_word]; rewrite H; reflexivity. Qed.
Lemma rx_word_nil f : forall s, rx_word f [] s = None.
Proof. induction s as [|b s IH]; cbn [rx_word existsb]; [reflexivity | exact IH]. Qed.
Lemma rx_word_cons f cands b r :
  existsb null cands = false -> rx_word f cands (b :: r) = rx_word f (deriv cands (f b)) r.
Proof. intros H. cbn [rx_word]. rewrite H. reflexivity. Qed.

Section VerbPhase.
  Variable tbl : smack.
  Hypothesis Hok : smack_ok tbl = true.
  Hypothesis Htbl : http_tbl_ok tbl = true.
  Let Hsz : sm_rows tbl <= TWO24 := proj1 (http_tbl_ok_parts tbl Htbl).
  Let D := dead_rows tbl.

  Lemma walk_step f row cands b :
    verb_walk (S f) tbl D row cands = true -> b < 256 ->
    let row' := sm_stepb tbl row b in
    let c' := deriv cands (upper b) in
    if existsb null c' then sm_match_limit tbl <= row' /\ row' < sm_rows tbl /\ sm_ids tbl row' = [0]
    else if null c' then In row' D
    else row' < sm_match_limit tbl /\ row' <> UNANCHORED_STATE /\ verb_walk f tbl D row' c' = true.
  Proof.
    intros H Hb. cbn [verb_walk] in H. rewrite forallb_forall in H. specialize (H b (all_bytes_In b Hb)).
    cbv zeta in *. destruct (existsb null (deriv cands (upper b))).
    - rewrite !andb_true_iff, N.leb_le, N.ltb_lt in H. destruct H as [[H1 H2] H3].
      repeat split; auto. unfold ids_is_verb in H3.
      destruct (sm_ids tbl (sm_stepb tbl row b)) as [|i [|j l]]; try discriminate.
      apply N.eqb_eq in H3. rewrite H3. reflexivity.
    - destruct (null (deriv cands (upper b))).
      + apply memN_In. exact H.
      + rewrite !andb_true_iff, negb_true_iff, N.ltb_lt, N.eqb_neq in H. tauto.
  Qed.

  Lemma dead_not_ans s : http_dead tbl s = true -> http_answers s = false.
  Proof. apply dead_not_answers. Qed.

  (* the step leads into the dead set: whatever follows, no answer *)
  Lemma verb_into_dead s b r :
    h_state s = HTTP_VERB -> http_st_ok tbl s -> bytes_ok r = true ->
    In (sm_stepb tbl (h_smack s) b) D ->
    exists s', http_parse tbl s (b :: r) = Ok s' /\ http_answers s' = false.
  Proof.
    intros Hs Hst Hb Hin. set (row' := sm_stepb tbl (h_smack s) b) in *.
    destruct (dead_ok_row tbl D row' (D_ok tbl Htbl) Hin) as (Hrow' & Hnv & _).
    destruct (N.lt_ge_cases row' (sm_match_limit tbl)) as [Hlo | Hhi].
    - destruct r as [|c r'].
      + rewrite (http_parse_verb_last tbl Hok Hsz s b Hs Hst Hlo). fold row'. eexists. split; [reflexivity|].
        destruct (row' =? UNANCHORED_STATE); reflexivity.
      + rewrite (http_parse_verb_more tbl Hok Hsz s b (c :: r') Hs Hst) by (try discriminate; exact Hlo).
        destruct (dead_verb_parse tbl Hok Htbl (c :: r') (verb_adv s b row') eq_refl Hin Hb) as (s' & P & Dd & _).
        exists s'. split; [exact P | apply dead_not_ans; exact Dd].
    - destruct (sm_ids_cases tbl row' Hok Hrow') as [_ Hids]. destruct (Hids Hhi) as (i & Hi).
      rewrite (http_parse_verb_match tbl Hok Hsz s b r i Hs Hst Hhi Hi). fold row'.
      assert (Hi0 : (i =? 0) = false).
      { unfold verb_row in Hnv. rewrite Hi in Hnv. cbn [existsb] in Hnv. rewrite orb_false_r in Hnv.
        unfold VERB_ID in Hnv. rewrite N.eqb_sym. exact Hnv. }
      rewrite Hi0.
      destruct (dead_verb_parse tbl Hok Htbl r (verb_adv s b row') eq_refl Hin Hb) as (s' & P & Dd & _).
      exists s'. split; [exact P | apply dead_not_ans; exact Dd].
  Qed.

  Lemma verb_phase : forall d fuel s cands,
    h_state s = HTTP_VERB -> http_st_ok tbl s ->
    verb_walk fuel tbl D (h_smack s) cands = true -> existsb null cands = false ->
    bytes_ok d = true -> d <> [] ->
    match rx_word upper cands d with
    | Some rest => exists s', h_state s' = HTTP_SPACE /\ h_bis s' = h_bis s /\
                              http_parse tbl s d = http_parse tbl s' rest
    | None => exists s', http_parse tbl s d = Ok s' /\ http_answers s' = false
    end.
  Proof.
    induction d as [|b r IH]; intros fuel s cands Hs Hst Hw Hnull Hb Hne; [congruence|].
    destruct (bytes_ok_cons _ _ Hb) as [Hb1 Hb2].
    destruct fuel as [|f]; [discriminate|].
    pose proof (walk_step f (h_smack s) cands b Hw Hb1) as Hstep. cbv zeta in Hstep.
    rewrite rx_word_cons by exact Hnull.
    set (row' := sm_stepb tbl (h_smack s) b) in *. set (c' := deriv cands (upper b)) in *.
    destruct (existsb null c') eqn:En.
    - destruct Hstep as (Hlim & Hrow' & Hids).
      rewrite rx_word_null by exact En.
      exists (set_state (verb_adv s b row') HTTP_SPACE). split; [reflexivity|]. split; [reflexivity|].
      rewrite (http_parse_verb_match tbl Hok Hsz s b r 0 Hs Hst Hlim Hids). reflexivity.
    - destruct (null c') eqn:Ec.
      + destruct c'; [|discriminate]. rewrite rx_word_nil.
        apply verb_into_dead; assumption.
      + destruct Hstep as (Hlo & Hnu & Hw').
        assert (Hrow' : row' < sm_rows tbl) by (apply sm_next_lt; assumption).
        destruct r as [|c r'].
        * cbn [rx_word]. rewrite En.
          rewrite (http_parse_verb_last tbl Hok Hsz s b Hs Hst Hlo). fold row'.
          replace (row' =? UNANCHORED_STATE) with false by (symmetry; apply N.eqb_neq; exact Hnu).
          eexists. split; reflexivity.
        * rewrite (http_parse_verb_more tbl Hok Hsz s b (c :: r') Hs Hst) by (try discriminate; exact Hlo).
          fold row'. specialize (IH f (verb_adv s b row') c' eq_refl Hrow' Hw' En Hb2).
          assert (Hne' : c :: r' <> []) by discriminate. specialize (IH Hne').
          destruct (rx_word upper c' (c :: r')) as [rest|]; exact IH.
  Qed.

  (* ---- the language of the parser from a fresh state ---- *)
  Theorem http_new_language p :
    bytes_ok p = true ->
    exists s', http_parse tbl http_new p = Ok s' /\ http_answers s' = is_some (rl_request p).
  Proof.
    intros Hb. destruct p as [|b r].
    - exists http_new. split; reflexivity.
    - rewrite (http_parse_start tbl http_new (b :: r)) by (try reflexivity; discriminate).
      pose proof (http_tbl_ok_parts tbl Htbl) as (_ & H1 & H2 & _ & _ & Hnn & Hw).
      assert (Hne : b :: r <> []) by discriminate.
      assert (Hst : http_st_ok tbl (set_state http_new HTTP_VERB)).
      { unfold http_st_ok. cbn [h_smack set_state http_new]. lia. }
      pose proof (verb_phase (b :: r) 8 (set_state http_new HTTP_VERB) HTTP_VERBS eq_refl Hst Hw Hnn Hb Hne) as H.
      unfold rl_request. destruct (rx_word upper HTTP_VERBS (b :: r)) as [rest|]; cbn [obind].
      + destruct H as (s' & Hs' & Hbis & ->). cbn [h_bis set_state http_new] in Hbis.
        rewrite http_parse_post by (split; rewrite Hs'; discriminate).
        eexists. split; [reflexivity|]. apply post_verb_spec. split; assumption.
      + destruct H as (s' & P & A). exists s'. split; [exact P | exact A].
  Qed.
End VerbPhase.
