(* Proofs/C11uCut.v -- cut invariance: for any segmentation of a stream, the first reply goes
   out with the segment that holds the completing byte ([http_complete_at] / [rpc_complete_at],
   functions of the stream alone); every segment before it gets a bare ACK. *)
From Coq Require Import Lia.
From MS Require Import Proofs.Tactics Smack Http Rpc Proto Spec.AppView Spec.C11 Spec.EnvOk Spec.C11http Spec.C11u
     Proofs.HttpLemmas Proofs.HttpFold Proofs.C11 Proofs.C11uQuiet Proofs.C11uHttp.

(* ---------- lists ---------- *)
Lemma firstn_app_exact {A} (a b : list A) : firstn (length a) (a ++ b) = a.
Proof. rewrite firstn_app, Nat.sub_diag, firstn_O, app_nil_r, firstn_all. reflexivity. Qed.

Lemma firstn_split_le {A} (m n : nat) (s : list A) : (m <= n)%nat ->
  firstn n s = firstn m s ++ firstn (n - m) (skipn m s).
Proof.
  intros H. rewrite <- (firstn_skipn m s) at 1. rewrite firstn_app.
  destruct (Nat.le_gt_cases (length s) m) as [Hl|Hl].
  - rewrite (firstn_all2 s) by exact Hl. rewrite firstn_all2 by lia.
    rewrite skipn_all2 by exact Hl. rewrite !firstn_nil. reflexivity.
  - rewrite firstn_length_le by lia. rewrite firstn_all2 by (rewrite firstn_length; lia). reflexivity.
Qed.

Lemma first_reply_here (x : option bytes) (l : list (option bytes)) : first_reply_at (x :: l) 0 x.
Proof. unfold first_reply_at, quiet. cbn. repeat split; lia. Qed.

Lemma first_reply_later (l : list (option bytes)) (j : nat) (o : option bytes) :
  first_reply_at l j o -> first_reply_at (None :: l) (S j) o.
Proof.
  unfold first_reply_at, quiet. intros (H1 & H2 & H3). cbn [length firstn repeat nth]. rewrite H2.
  repeat split; [lia|exact H3].
Qed.

(* [seg_index segs k] is the segment that holds stream offset k *)
Lemma seg_index_spec : forall segs k, (k < length (concat segs))%nat ->
  (seg_index segs k < length segs)%nat /\
  (length (concat (firstn (seg_index segs k) segs)) <= k < length (concat (firstn (S (seg_index segs k)) segs)))%nat.
Proof.
  induction segs as [|d r IH]; intros k Hk; cbn [concat length] in Hk; [lia|].
  rewrite app_length in Hk. cbn [seg_index].
  destruct (k <? length d)%nat eqn:Hlt.
  - apply Nat.ltb_lt in Hlt. cbn [firstn concat length]. rewrite app_nil_r. lia.
  - apply Nat.ltb_ge in Hlt. destruct (IH (k - length d)%nat ltac:(lia)) as (H1 & H2 & H3).
    cbn [length]. split; [lia|]. cbn [firstn concat] in *. rewrite !app_length. lia.
Qed.

(* ---------- HTTP: the completing byte ---------- *)
Section HttpScan.
  Variable tbl : smack.

  Definition ans (h : http_st) (p : bytes) : bool :=
    match http_fold tbl h p with Ok h' => http_answers h' | Panic _ => false end.

  Lemma ans_cons h b q h' : http_step tbl h b = Ok h' -> ans h (b :: q) = ans h' q.
  Proof. intros H. unfold ans. cbn [http_fold]. rewrite H. reflexivity. Qed.
  Lemma ans_cons_panic h b q e : http_step tbl h b = Panic e -> ans h (b :: q) = false.
  Proof. intros H. unfold ans. cbn [http_fold]. rewrite H. reflexivity. Qed.

  Lemma scan_some : forall s h k0 k, http_scan tbl h s k0 = Some k ->
    exists m, k = (k0 + m)%nat /\ (m < length s)%nat /\
      (forall n, (1 <= n <= m)%nat -> ans h (firstn n s) = false) /\ ans h (firstn (S m) s) = true.
  Proof.
    induction s as [|b r IH]; intros h k0 k H; cbn [http_scan] in H; [discriminate|].
    destruct (http_step tbl h b) as [h'|e] eqn:Hs; [|discriminate].
    destruct (http_answers h') eqn:Ha.
    - injection H as <-. exists 0%nat. cbn [length]. split; [lia|]. split; [lia|]. split; [intros n Hn; lia|].
      cbn [firstn]. rewrite (ans_cons _ _ _ _ Hs). unfold ans. cbn [http_fold]. exact Ha.
    - destruct (IH h' (S k0) k H) as (m & -> & Hm & Hq & Ht). exists (S m). cbn [length].
      split; [lia|]. split; [lia|]. split.
      + intros n Hn. destruct n as [|n]; [lia|]. cbn [firstn]. rewrite (ans_cons _ _ _ _ Hs).
        destruct n as [|n]; [cbn [firstn]; unfold ans; cbn [http_fold]; exact Ha|]. apply Hq. lia.
      + cbn [firstn] in *. rewrite (ans_cons _ _ _ _ Hs). exact Ht.
  Qed.

  Lemma scan_none : forall s h k0, http_scan tbl h s k0 = None ->
    forall n, (1 <= n <= length s)%nat -> ans h (firstn n s) = false.
  Proof.
    induction s as [|b r IH]; intros h k0 H n Hn; cbn [length] in Hn; [lia|]. cbn [http_scan] in H.
    destruct n as [|n]; [lia|]. cbn [firstn].
    destruct (http_step tbl h b) as [h'|e] eqn:Hs; [|apply (ans_cons_panic _ _ _ _ Hs)].
    rewrite (ans_cons _ _ _ _ Hs).
    destruct (http_answers h') eqn:Ha; [discriminate|].
    destruct n as [|n]; [cbn [firstn]; unfold ans; cbn [http_fold]; exact Ha|].
    apply (IH h' (S k0) H). lia.
  Qed.

  Lemma ans_monotone h a b : ans h a = true -> ans h (a ++ b) = true.
  Proof.
    unfold ans. destruct (http_fold tbl h a) as [h1|e] eqn:Hf; [|discriminate]. intros Ha.
    rewrite (fold_answer_monotone tbl a b h h1 Hf Ha). exact Ha.
  Qed.

  (* what [http_complete_at] says of the stream, in terms of [http_answered] *)
  Theorem http_complete_at_some s k : http_complete_at tbl s = Some k ->
    (k < length s)%nat /\ (forall n, (n <= k)%nat -> http_answered tbl (firstn n s) = false) /\
    (forall n, (k < n)%nat -> http_answered tbl (firstn n s) = true).
  Proof.
    intros H. destruct (scan_some s http_new 0 k H) as (m & Hk & Hm & Hq & Ht). cbn [Nat.add] in Hk. subst m.
    split; [exact Hm|]. split.
    - intros n Hn. destruct n as [|n]; [reflexivity|]. apply Hq. lia.
    - intros n Hn. rewrite (firstn_split_le (S k) n s) by lia. apply ans_monotone. exact Ht.
  Qed.

  Theorem http_complete_at_none s : http_complete_at tbl s = None ->
    forall n, http_answered tbl (firstn n s) = false.
  Proof.
    intros H n. destruct n as [|n]; [reflexivity|].
    destruct (Nat.le_gt_cases (S n) (length s)) as [Hl|Hl].
    - apply (scan_none s http_new 0 H). lia.
    - rewrite firstn_all2 by lia. destruct s as [|b r]; [reflexivity|].
      rewrite <- (firstn_all (b :: r)). apply (scan_none (b :: r) http_new 0 H). cbn [length]. lia.
  Qed.
End HttpScan.

(* ---------- the reference reading of a flow, around the completing byte ---------- *)
Section RefReply.
  Variables (E : env) (clk : clock).
  Let tbl := e_http_tbl E.

  Lemma http_ref_reply s k : forall segs acc,
    s = acc ++ concat segs -> (length acc <= k)%nat -> (k < length s)%nat ->
    (forall n, (n <= k)%nat -> http_answered tbl (firstn n s) = false) ->
    (forall n, (k < n)%nat -> http_answered tbl (firstn n s) = true) ->
    first_reply_at (http_stream_ref_at E clk acc segs) (seg_index segs (k - length acc)) (Some (http_401 E clk)).
  Proof.
    induction segs as [|d rest IH]; intros acc Hs Hacc Hk Hlo Hhi.
    - cbn [concat] in Hs. rewrite app_nil_r in Hs. subst s. lia.
    - cbn [concat] in Hs. rewrite app_assoc in Hs.
      assert (Hpre : acc ++ d = firstn (length (acc ++ d)) s) by (rewrite Hs; symmetry; apply firstn_app_exact).
      cbn [http_stream_ref_at seg_index]. fold tbl. rewrite Hpre. rewrite app_length.
      destruct (k - length acc <? length d)%nat eqn:Hlt.
      + apply Nat.ltb_lt in Hlt. rewrite Hhi by lia. apply first_reply_here.
      + apply Nat.ltb_ge in Hlt. rewrite Hlo by lia. apply first_reply_later.
        replace (k - length acc - length d)%nat with (k - length (acc ++ d))%nat by (rewrite app_length; lia).
        rewrite <- app_length, <- Hpre.
        apply IH; try assumption. rewrite app_length. lia.
  Qed.

  Lemma http_ref_quiet s : forall segs acc,
    s = acc ++ concat segs -> (forall n, http_answered tbl (firstn n s) = false) ->
    http_stream_ref_at E clk acc segs = quiet (length segs).
  Proof.
    unfold quiet. induction segs as [|d rest IH]; intros acc Hs Hq; [reflexivity|].
    cbn [concat] in Hs. rewrite app_assoc in Hs.
    assert (Hpre : acc ++ d = firstn (length (acc ++ d)) s) by (rewrite Hs; symmetry; apply firstn_app_exact).
    cbn [http_stream_ref_at length repeat]. fold tbl. rewrite Hpre at 1. rewrite Hq.
    rewrite (IH (acc ++ d) Hs Hq). reflexivity.
  Qed.

  Lemma http_ref_length : forall segs acc, length (http_stream_ref_at E clk acc segs) = length segs.
  Proof.
    induction segs as [|d rest IH]; intros acc; [reflexivity|]. cbn [http_stream_ref_at].
    destruct (http_answered _ _); cbn [length]; rewrite IH; reflexivity.
  Qed.
End RefReply.

(* the first reply of an HTTP flow, for ONE segmentation of the stream s: it goes out with
   the segment that holds offset [http_complete_at s]; bare ACKs before; no reply at all if
   the stream holds no complete request *)
Theorem http_reply_segment E clk ci s segs :
  proto_tbl_ok E = true -> http_uniform_ok E = true ->
  smack_ok (e_http_tbl E) = true -> http_tbl_ok (e_http_tbl E) = true ->
  concat segs = s -> bytes_ok s = true -> tcp_first_id E s = Some PROTO_HTTP ->
  exists outs, tcp_stream E clk ci tcb_new segs = Ok outs /\ length outs = length segs /\
    match http_complete_at (e_http_tbl E) s with
    | Some k => (k < length s)%nat /\ first_reply_at outs (seg_index segs k) (Some (http_401 E clk))
    | None => outs = quiet (length segs)
    end.
Proof.
  intros Ht Hu Hhok Hhtbl Hc Hb Hs. subst s.
  exists (http_stream_ref E clk segs). split; [apply http_stream_uniform; assumption|].
  split; [apply http_ref_length|].
  destruct (http_complete_at (e_http_tbl E) (concat segs)) as [k|] eqn:Hk.
  - destruct (http_complete_at_some _ _ _ Hk) as (Hlt & Hlo & Hhi). split; [exact Hlt|].
    pose proof (http_ref_reply E clk (concat segs) k segs [] eq_refl ltac:(cbn; lia) Hlt Hlo Hhi) as H.
    cbn [length] in H. rewrite Nat.sub_0_r in H. exact H.
  - apply (http_ref_quiet E clk (concat segs) segs [] eq_refl). apply http_complete_at_none. exact Hk.
Qed.

(* two segmentations of the same stream *)
Theorem http_cut_invariance E clk ci s segs1 segs2 :
  proto_tbl_ok E = true -> http_uniform_ok E = true ->
  smack_ok (e_http_tbl E) = true -> http_tbl_ok (e_http_tbl E) = true ->
  concat segs1 = s -> concat segs2 = s -> bytes_ok s = true -> tcp_first_id E s = Some PROTO_HTTP ->
  exists outs1 outs2,
    tcp_stream E clk ci tcb_new segs1 = Ok outs1 /\ tcp_stream E clk ci tcb_new segs2 = Ok outs2 /\
    length outs1 = length segs1 /\ length outs2 = length segs2 /\
    match http_complete_at (e_http_tbl E) s with
    | Some k => (k < length s)%nat /\
                first_reply_at outs1 (seg_index segs1 k) (Some (http_401 E clk)) /\
                first_reply_at outs2 (seg_index segs2 k) (Some (http_401 E clk))
    | None => outs1 = quiet (length segs1) /\ outs2 = quiet (length segs2)
    end.
Proof.
  intros Ht Hu Hhok Hhtbl Hc1 Hc2 Hb Hs.
  destruct (http_reply_segment E clk ci s segs1 Ht Hu Hhok Hhtbl Hc1 Hb Hs) as (o1 & H1 & L1 & R1).
  destruct (http_reply_segment E clk ci s segs2 Ht Hu Hhok Hhtbl Hc2 Hb Hs) as (o2 & H2 & L2 & R2).
  exists o1, o2. repeat (split; [assumption|]).
  destruct (http_complete_at (e_http_tbl E) s); [|split; assumption].
  destruct R1 as [Hk R1]. destruct R2 as [_ R2]. split; [exact Hk|]. split; [exact R1|exact R2].
Qed.

(* ---------- ONC-RPC ---------- *)
Lemma rpc_byte_end r b : r_state r = R_END -> rpc_byte r b = r.
Proof. intros H. unfold rpc_byte. rewrite H. reflexivity. Qed.

Lemma rpc_parse_end p : forall r, r_state r = R_END -> rpc_parse r p = r.
Proof.
  unfold rpc_parse. induction p as [|b p IH]; intros r H; [reflexivity|].
  cbn [fold_left]. rewrite rpc_byte_end by exact H. apply IH. exact H.
Qed.

Lemma rpc_scan_some : forall s r k0 k, rpc_scan r s k0 = Some k ->
  exists m, k = (k0 + m)%nat /\ (m < length s)%nat /\
    (forall n, (1 <= n <= m)%nat -> r_state (rpc_parse r (firstn n s)) <> R_END) /\
    r_state (rpc_parse r (firstn (S m) s)) = R_END.
Proof.
  induction s as [|b t IH]; intros r k0 k H; cbn [rpc_scan] in H; [discriminate|]. cbv zeta in H.
  destruct (r_state (rpc_byte r b) =? R_END) eqn:He.
  - injection H as <-. apply N.eqb_eq in He. exists 0%nat. cbn [length]. split; [lia|]. split; [lia|].
    split; [intros n Hn; lia|]. exact He.
  - apply N.eqb_neq in He. destruct (IH (rpc_byte r b) (S k0) k H) as (m & -> & Hm & Hq & Ht).
    exists (S m). cbn [length]. split; [lia|]. split; [lia|]. split.
    + intros n Hn. destruct n as [|n]; [lia|]. cbn [firstn]. unfold rpc_parse. cbn [fold_left].
      destruct n as [|n]; [exact He|]. apply Hq. lia.
    + exact Ht.
Qed.

Lemma rpc_scan_none : forall s r k0, rpc_scan r s k0 = None ->
  forall n, (1 <= n <= length s)%nat -> r_state (rpc_parse r (firstn n s)) <> R_END.
Proof.
  induction s as [|b t IH]; intros r k0 H n Hn; cbn [length] in Hn; [lia|]. cbn [rpc_scan] in H. cbv zeta in H.
  destruct (r_state (rpc_byte r b) =? R_END) eqn:He; [discriminate|]. apply N.eqb_neq in He.
  destruct n as [|n]; [lia|]. cbn [firstn]. unfold rpc_parse. cbn [fold_left].
  destruct n as [|n]; [exact He|]. apply (IH (rpc_byte r b) (S k0) H). lia.
Qed.

Definition rpc_end_at (s : bytes) (n : nat) : bool := r_state (rpc_parse (rpc_new R_FRAG) (firstn n s)) =? R_END.

Theorem rpc_complete_at_some s k : rpc_complete_at s = Some k ->
  (k < length s)%nat /\ (forall n, (n <= k)%nat -> rpc_end_at s n = false) /\
  (forall n, (k < n)%nat -> rpc_parse (rpc_new R_FRAG) (firstn n s) = rpc_parse (rpc_new R_FRAG) (firstn (S k) s)) /\
  rpc_end_at s (S k) = true.
Proof.
  intros H. destruct (rpc_scan_some s (rpc_new R_FRAG) 0 k H) as (m & Hk & Hm & Hq & Ht). cbn [Nat.add] in Hk. subst m.
  split; [exact Hm|]. split; [|split].
  - intros n Hn. unfold rpc_end_at. apply N.eqb_neq. destruct n as [|n]; [vm_compute; discriminate|]. apply Hq. lia.
  - intros n Hn. rewrite (firstn_split_le (S k) n s) by lia. rewrite <- rpc_parse_app. apply rpc_parse_end. exact Ht.
  - unfold rpc_end_at. apply N.eqb_eq. exact Ht.
Qed.

Theorem rpc_complete_at_none s : rpc_complete_at s = None -> forall n, rpc_end_at s n = false.
Proof.
  intros H n. unfold rpc_end_at. apply N.eqb_neq. destruct n as [|n]; [vm_compute; discriminate|].
  destruct (Nat.le_gt_cases (S n) (length s)) as [Hl|Hl].
  - apply (rpc_scan_none s _ 0 H). lia.
  - rewrite firstn_all2 by lia. destruct s as [|b r]; [vm_compute; discriminate|].
    rewrite <- (firstn_all (b :: r)). apply (rpc_scan_none (b :: r) _ 0 H). cbn [length]. lia.
Qed.

Lemma rpc_expected_quiet ip port p :
  (r_state (rpc_parse (rpc_new R_FRAG) p) =? R_END) = false -> rpc_expected ip port p = None.
Proof. intros H. unfold rpc_expected, rpc_repl_tcp. rewrite H. reflexivity. Qed.

Lemma rpc_expected_parse ip port p q :
  rpc_parse (rpc_new R_FRAG) p = rpc_parse (rpc_new R_FRAG) q -> rpc_expected ip port p = rpc_expected ip port q.
Proof. intros H. unfold rpc_expected, rpc_repl_tcp. rewrite H. reflexivity. Qed.

Section RpcRef.
  Variables (ip : ipaddr) (port : N).

  Lemma rpc_ref_reply s k : forall segs acc,
    s = acc ++ concat segs -> (length acc <= k)%nat -> (k < length s)%nat ->
    (forall n, (n <= k)%nat -> rpc_end_at s n = false) ->
    (forall n, (k < n)%nat -> rpc_parse (rpc_new R_FRAG) (firstn n s) = rpc_parse (rpc_new R_FRAG) (firstn (S k) s)) ->
    rpc_end_at s (S k) = true ->
    first_reply_at (rpc_stream_ref ip port acc segs) (seg_index segs (k - length acc))
                   (rpc_expected ip port (firstn (S k) s)).
  Proof.
    induction segs as [|d rest IH]; intros acc Hs Hacc Hk Hlo Hhi Hend.
    - cbn [concat] in Hs. rewrite app_nil_r in Hs. subst s. lia.
    - cbn [concat] in Hs. rewrite app_assoc in Hs.
      assert (Hpre : acc ++ d = firstn (length (acc ++ d)) s) by (rewrite Hs; symmetry; apply firstn_app_exact).
      cbn [rpc_stream_ref seg_index].
      destruct (k - length acc <? length d)%nat eqn:Hlt.
      + apply Nat.ltb_lt in Hlt.
        assert (Hp : rpc_parse (rpc_new R_FRAG) (acc ++ d) = rpc_parse (rpc_new R_FRAG) (firstn (S k) s)).
        { rewrite Hpre. apply Hhi. rewrite app_length. lia. }
        rewrite (rpc_expected_parse ip port _ _ Hp). apply first_reply_here.
      + apply Nat.ltb_ge in Hlt.
        assert (Hq : (r_state (rpc_parse (rpc_new R_FRAG) (acc ++ d)) =? R_END) = false).
        { rewrite Hpre. apply (Hlo (length (acc ++ d))). rewrite app_length. lia. }
        rewrite (rpc_expected_quiet ip port _ Hq), Hq. apply first_reply_later.
        replace (k - length acc - length d)%nat with (k - length (acc ++ d))%nat by (rewrite app_length; lia).
        apply IH; try assumption. rewrite app_length. lia.
  Qed.

  Lemma rpc_ref_quiet s : forall segs acc,
    s = acc ++ concat segs -> (forall n, rpc_end_at s n = false) ->
    rpc_stream_ref ip port acc segs = quiet (length segs).
  Proof.
    unfold quiet. induction segs as [|d rest IH]; intros acc Hs Hq; [reflexivity|].
    cbn [concat] in Hs. rewrite app_assoc in Hs.
    assert (Hpre : acc ++ d = firstn (length (acc ++ d)) s) by (rewrite Hs; symmetry; apply firstn_app_exact).
    assert (Hq' : (r_state (rpc_parse (rpc_new R_FRAG) (acc ++ d)) =? R_END) = false) by (rewrite Hpre; apply Hq).
    cbn [rpc_stream_ref length repeat]. rewrite (rpc_expected_quiet ip port _ Hq'), Hq'.
    rewrite (IH (acc ++ d) Hs Hq). reflexivity.
  Qed.

  Lemma rpc_outs_length : forall segs r, length (rpc_outs ip port r segs) = length segs.
  Proof.
    induction segs as [|d rest IH]; intros r; [reflexivity|]. cbn [rpc_outs].
    destruct (rpc_repl_tcp r ip port d) as [r' o]. cbn [length]. rewrite IH. reflexivity.
  Qed.
  Lemma rpc_ref_length : forall segs acc, length (rpc_stream_ref ip port acc segs) = length segs.
  Proof.
    induction segs as [|d rest IH]; intros acc; [reflexivity|]. cbn [rpc_stream_ref length].
    destruct (_ =? R_END); [rewrite rpc_outs_length|rewrite IH]; reflexivity.
  Qed.

  (* [rpc_stream_ref] refers to the responder after the first message; it is in fact the
     self-contained reading that starts afresh *)
  Lemma rpc_stream_ref_self acc s rest :
    rpc_stream_ref ip port acc (s :: rest) =
    rpc_expected ip port (acc ++ s) ::
    (if r_state (rpc_parse (rpc_new R_FRAG) (acc ++ s)) =? R_END
     then rpc_stream_ref ip port [] rest else rpc_stream_ref ip port (acc ++ s) rest).
  Proof.
    cbn [rpc_stream_ref]. destruct (_ =? R_END); [|reflexivity].
    rewrite <- (rpc_outs_stream ip port rest []). reflexivity.
  Qed.
End RpcRef.

Theorem rpc_reply_segment E clk ci ip port s segs :
  proto_tbl_ok E = true -> ci_ip_dst ci = Some ip -> ci_port_dst ci = Some port ->
  concat segs = s -> bytes_ok s = true -> tcp_first_id E s = Some PROTO_RPC_TCP ->
  exists outs, tcp_stream E clk ci tcb_new segs = Ok outs /\ length outs = length segs /\
    match rpc_complete_at s with
    | Some k => (k < length s)%nat /\
                first_reply_at outs (seg_index segs k) (rpc_expected ip port (firstn (S k) s))
    | None => outs = quiet (length segs)
    end.
Proof.
  intros Ht Hip Hport Hc Hb Hs. subst s.
  exists (rpc_stream_ref ip port [] segs). split; [apply rpc_stream_any; assumption|].
  split; [apply rpc_ref_length|].
  destruct (rpc_complete_at (concat segs)) as [k|] eqn:Hk.
  - destruct (rpc_complete_at_some _ _ Hk) as (Hlt & Hlo & Hhi & Hend). split; [exact Hlt|].
    pose proof (rpc_ref_reply ip port (concat segs) k segs [] eq_refl ltac:(cbn; lia) Hlt Hlo Hhi Hend) as H.
    cbn [length] in H. rewrite Nat.sub_0_r in H. exact H.
  - apply (rpc_ref_quiet ip port (concat segs) segs [] eq_refl). apply rpc_complete_at_none. exact Hk.
Qed.

Theorem rpc_cut_invariance E clk ci ip port s segs1 segs2 :
  proto_tbl_ok E = true -> ci_ip_dst ci = Some ip -> ci_port_dst ci = Some port ->
  concat segs1 = s -> concat segs2 = s -> bytes_ok s = true -> tcp_first_id E s = Some PROTO_RPC_TCP ->
  exists outs1 outs2,
    tcp_stream E clk ci tcb_new segs1 = Ok outs1 /\ tcp_stream E clk ci tcb_new segs2 = Ok outs2 /\
    length outs1 = length segs1 /\ length outs2 = length segs2 /\
    match rpc_complete_at s with
    | Some k => (k < length s)%nat /\
                first_reply_at outs1 (seg_index segs1 k) (rpc_expected ip port (firstn (S k) s)) /\
                first_reply_at outs2 (seg_index segs2 k) (rpc_expected ip port (firstn (S k) s))
    | None => outs1 = quiet (length segs1) /\ outs2 = quiet (length segs2)
    end.
Proof.
  intros Ht Hip Hport Hc1 Hc2 Hb Hs.
  destruct (rpc_reply_segment E clk ci ip port s segs1 Ht Hip Hport Hc1 Hb Hs) as (o1 & H1 & L1 & R1).
  destruct (rpc_reply_segment E clk ci ip port s segs2 Ht Hip Hport Hc2 Hb Hs) as (o2 & H2 & L2 & R2).
  exists o1, o2. repeat (split; [assumption|]).
  destruct (rpc_complete_at s); [|split; assumption].
  destruct R1 as [Hk R1]. destruct R2 as [_ R2]. split; [exact Hk|]. split; [exact R1|exact R2].
Qed.
