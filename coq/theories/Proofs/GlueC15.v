(* Proofs/GlueC15.v -- C15 (STUN) on the current implementation WITHOUT identification
   hypothesis: [stun_ident_ok the_env false tcp] (Proofs/C15Frame.v) for TCP and UDP,
   and [dns_quiet_at] from a bound on the length of the datagram.

   Relation of C15's class [stun_shadowed] with C10's class, on binding requests
   covered by the published signatures (facts about the reference, by computation):
   * the magic-cookie layout with a non-zero high length byte (byte 2): outside C10's
     class, the reference says STUN ([chk_stun_magic]) -- discharged by C10, TCP and UDP;
   * the two end-anchored RFC 3489 layouts (UDP, 20 / 28 bytes) are NOT outside C10's
     class: a 20-byte (28-byte) request whose bytes 4..7 are the magic cookie passes the
     non-dead known point (7, [STUN_MAGIC; STUN_EMPTY|STUN_CHANGE; RPC_TCP]) + 0x42
     (the reference identifies it at byte 8, the matcher at the end of the datagram:
     same id, but C10 says nothing there), and a 28-byte CHANGE-REQUEST request that is
     also the head of an ONC-RPC/TCP call passes (27, [STUN_CHANGE; RPC_TCP]) where the
     reference says RPC_TCP and the matcher STUN.  [stun_shadowed] does not contain
     them (they ARE identified as STUN), so that C10 alone cannot discharge the
     hypothesis; for the two end-anchored layouts the identification is proved
     DIRECTLY on the compiled matcher ([chk_stun_empty_tbl], [chk_stun_change_tbl]:
     every datagram of that layout, whatever its other bytes). *)
From Coq Require Import Lia.
From MS Require Import Proofs.Tactics Stun Dns Proto L2 Spec.View Spec.RefDec Spec.TcpRef Spec.RefStun Spec.AppView
     Spec.History Spec.EnvOk Spec.C15 Spec.RefSig Spec.C10 Spec.C10Known Instance
     Proofs.Pipeline Proofs.ViewLemmas Proofs.C06 Proofs.TcpState Proofs.C07 Proofs.Lift Proofs.LiftTcp
     Proofs.ReplyBytes Proofs.C10Sound Proofs.C10Dispatch Proofs.C10Current
     Proofs.C15Proto Proofs.C15Foreign Proofs.C15Frame Proofs.GluePat.

(* ---------- the patterns ---------- *)
Definition pat_stun_magic : list cls :=
  [CLit 0; CLit 1; CNot [0]; CAny; CLit 33; CLit 18; CLit 164; CLit 66].
Definition pat_stun_empty : list cls :=
  [CLit 0; CLit 1; CLit 0; CLit 0] ++ repeat CAny 16.
Definition pat_stun_change : list cls :=
  [CLit 0; CLit 1; CLit 0; CLit 8] ++ repeat CAny 16 ++ [CLit 0; CLit 3; CLit 0; CLit 4; CLit 0; CLit 0; CLit 0; CAny].

(* the reference and K0 only *)
Lemma chk_stun_magic : ref_chk K0 ID_STUN false pat_stun_magic [r_init] = true.
Proof. vm_compute. reflexivity. Qed.
(* the compiled matcher of the current implementation (per-run obligations, < 1 s) *)
Lemma chk_stun_empty_tbl : tbl_chk cur_tbl ID_STUN true pat_stun_empty [BASE_STATE] = true.
Proof. vm_compute. reflexivity. Qed.
Lemma chk_stun_change_tbl : tbl_chk cur_tbl ID_STUN true pat_stun_change [BASE_STATE] = true.
Proof. vm_compute. reflexivity. Qed.
(* ... and why C10 cannot be used for these two layouts: the reference check fails *)
Lemma chk_stun_empty_ref_fails : ref_chk K0 ID_STUN true pat_stun_empty [r_init] = false.
Proof. vm_compute. reflexivity. Qed.
Lemma chk_stun_change_ref_fails : ref_chk K0 ID_STUN true pat_stun_change [r_init] = false.
Proof. vm_compute. reflexivity. Qed.

(* ---------- the published layouts, as patterns ---------- *)
Lemma sig_magic_pat p : sig_magic p = true -> (nth 2 p 1 =? 0) = false -> pmatch false pat_stun_magic p = true.
Proof.
  intros H H2. unfold sig_magic in H. rewrite !andb_true_iff in H. destruct H as [[Hl H01] Hck].
  apply Nat.leb_le in Hl.
  do 8 (destruct p as [|? p]; [cbn [length] in Hl; lia|]).
  cbn [firstn] in H01. unfold slice in Hck. cbn [skipn firstn] in Hck.
  apply bytes_eqb_eq in H01, Hck. injection H01 as -> ->. injection Hck as -> -> -> ->.
  cbn [nth] in H2. unfold pat_stun_magic.
  cbn [pmatch cls_mem existsb orb]. rewrite H2.
  cbn [negb andb N.eqb Pos.eqb]. apply pmatch_nil_prefix.
Qed.

Lemma sig_empty_pat p : sig_empty p = true -> pmatch true pat_stun_empty p = true.
Proof.
  intros H. unfold sig_empty in H. apply andb_true_iff in H. destruct H as [Hl H4].
  apply Nat.eqb_eq in Hl.
  do 20 (destruct p as [|? p]; [cbn [length] in Hl; lia|]). destruct p; [|cbn [length] in Hl; lia].
  cbn [firstn] in H4. apply bytes_eqb_eq in H4. injection H4 as -> -> -> ->. reflexivity.
Qed.

Lemma sig_change_pat p : sig_change p = true -> pmatch true pat_stun_change p = true.
Proof.
  intros H. unfold sig_change in H. rewrite !andb_true_iff in H. destruct H as [[Hl H4] H7].
  apply Nat.eqb_eq in Hl.
  do 28 (destruct p as [|? p]; [cbn [length] in Hl; lia|]). destruct p; [|cbn [length] in Hl; lia].
  cbn [firstn] in H4. unfold slice in H7. cbn [skipn firstn] in H7.
  apply bytes_eqb_eq in H4, H7. injection H4 as -> -> -> ->. injection H7 as -> -> -> -> -> -> ->. reflexivity.
Qed.

(* ---------- the identification hypothesis, on the current tables ---------- *)
Lemma magic_identified p :
  bytes_ok p = true -> sig_magic p = true -> (nth 2 p 1 =? 0) = false ->
  c10_class_payload_coarse false p = false /\ c10_class_payload_coarse true p = false /\
  ref_udp p = Some ID_STUN /\ ref_tcp p = Some ID_STUN /\
  udp_id the_env p = Some PROTO_STUN /\ tcp_first_id the_env p = Some PROTO_STUN.
Proof.
  intros Hok Hm H2.
  destruct (ref_chk_init K0 ID_STUN false pat_stun_magic chk_stun_magic p Hok (sig_magic_pat p Hm H2))
    as (H1 & H2' & H3 & H4). specialize (H4 eq_refl).
  destruct (current_ident p Hok H1) as [Hu Ht].
  repeat split; try assumption; [rewrite Hu; exact H3 | rewrite Ht; exact H4].
Qed.

Lemma empty_identified p : bytes_ok p = true -> sig_empty p = true -> udp_id the_env p = Some PROTO_STUN.
Proof.
  intros Hok H. rewrite udp_id_tbl_eq.
  exact (proj1 (tbl_chk_init cur_tbl ID_STUN true pat_stun_empty cur_smack_ok cur_pre chk_stun_empty_tbl
                             p Hok (sig_empty_pat p H))).
Qed.
Lemma change_identified p : bytes_ok p = true -> sig_change p = true -> udp_id the_env p = Some PROTO_STUN.
Proof.
  intros Hok H. rewrite udp_id_tbl_eq.
  exact (proj1 (tbl_chk_init cur_tbl ID_STUN true pat_stun_change cur_smack_ok cur_pre chk_stun_change_tbl
                             p Hok (sig_change_pat p H))).
Qed.

(* every payload covered by the published STUN signatures and outside [stun_shadowed]
   is identified as STUN (binding request or not) *)
Theorem stun_published_identified tcp p :
  bytes_ok p = true -> stun_published tcp p && negb (stun_shadowed tcp p) = true ->
  c15_id the_env tcp p = Some PROTO_STUN.
Proof.
  intros Hok H. apply andb_true_iff in H. destruct H as [Hpub Hsh]. apply negb_true_iff in Hsh.
  unfold stun_published in Hpub. unfold stun_shadowed in Hsh. destruct tcp; unfold c15_id.
  - cbn [negb andb orb] in Hpub, Hsh. rewrite orb_false_r in Hpub. rewrite Hpub, andb_true_r in Hsh.
    cbn [andb] in Hsh. exact (proj2 (proj2 (proj2 (proj2 (proj2 (magic_identified p Hok Hpub Hsh)))))).
  - cbn [negb andb orb] in Hpub, Hsh.
    destruct (sig_empty p) eqn:He; [exact (empty_identified p Hok He)|].
    destruct (sig_change p) eqn:Hc; [exact (change_identified p Hok Hc)|].
    cbn [orb negb] in Hpub, Hsh. rewrite orb_false_r in Hpub. rewrite Hpub, andb_true_r in Hsh.
    cbn [andb] in Hsh. exact (proj1 (proj2 (proj2 (proj2 (proj2 (magic_identified p Hok Hpub Hsh)))))).
Qed.

Theorem stun_ident_current (tcp : bool) : stun_ident_ok the_env false tcp.
Proof. intros p Hok m _ _ Hpub. cbn [orb] in Hpub. exact (stun_published_identified tcp p Hok Hpub). Qed.

(* ---------- the DNS fallback never emits a STUN response to a short datagram ---------- *)
(* the reply of the DNS responder starts with ID, then a flag word with QR set: read as a
   STUN header its length field is at least 0x8000; the reply is shorter than that when the
   query is at most 4096 bytes long (5132 would do: 12 + qs + (qs + 22 n), qs + 12 <= |p|, 5 n <= qs) *)
Lemma some_inj {A : Type} (a b : A) : Some a = Some b -> a = b.
Proof. intros H. inversion H. reflexivity. Qed.

Lemma dns_reply_not_stun_resp ip p r tid :
  (length (ip_octets ip) <= 16)%nat -> (length p <= 4096)%nat ->
  dns_repl (Some ip) p = Some r -> is_stun_response_to tid r = false.
Proof.
  intros Hip Hlen Hr.
  destruct (dns_repl_shape (Some ip) p _ Hr) as [H | (m & ip' & Hm & Hip' & Hout)]; [discriminate H|].
  apply some_inj in Hip', Hout. subst ip'.
  destruct (dns_parse_ok _ _ Hm) as (_ & A2 & A3).
  pose proof (answers_len ip (d_qd m) Hip) as Ha.
  assert (Hrl : (length r <= 12 + qs_size (d_qd m) + (qs_size (d_qd m) + 22 * length (d_qd m)))%nat).
  { rewrite Hout, !app_length, ser_questions_len, (proj2 (dns_header_reply_ok m)). lia. }
  assert (H2 : 32768 <= u16_at 2 r).
  { rewrite Hout. unfold dns_header_reply, be16, u16_at, u8_at. cbn [app nth]. lia. }
  clear Hout Hr. unfold is_stun_response_to, dec_stun_resp, dec_stun_gen.
  destruct (length r <? 20)%nat; [reflexivity|].
  destruct (16384 <=? u16_at 0 r); [reflexivity|].
  destruct (length r =? 20 + N.to_nat (u16_at 2 r))%nat eqn:He; cbn [negb]; [|reflexivity].
  apply Nat.eqb_eq in He. lia.
Qed.

Theorem dns_quiet_short ctx p :
  (length (a_dst ctx) <= 16)%nat -> (length p <= 4096)%nat -> dns_quiet_at ctx p.
Proof.
  intros Hd Hl m r _ Hr. apply (dns_reply_not_stun_resp (ctx_dst_ip ctx) p r (sm_tid m)); [|exact Hl|exact Hr].
  unfold ctx_dst_ip. destruct (a_v4 ctx); exact Hd.
Qed.

(* ---------- every frame, no identification hypothesis ---------- *)
Lemma the_env_ok_glue : env_ok the_env = true.
Proof. vm_compute. reflexivity. Qed.

Theorem frame_tcp_C15_current cfg h clk tb f tb' r evs :
  cfg_ok cfg = true ->
  Forall (fun x => bytes_ok x = true) (frames h) -> bytes_ok f = true ->
  run the_env cfg [] h = Ok tb ->
  (forall v, view_tcp cfg f = Some v -> no_collision cfg (flow_of v :: ref_run cfg (frames h))) ->
  reply the_env cfg clk tb f = Ok (tb', r, evs) ->
  ok_C15_tcp cfg (ref_run cfg (frames h)) f r = true.
Proof.
  intros Hcfg Hall Hf Hrun Hnc Hr.
  pose proof the_env_ok_glue as HE.
  exact (frame_tcp_C15 the_env cfg h clk tb f tb' r evs Hcfg HE (stun_ident_current true) Hall Hf Hrun Hnc Hr).
Qed.

Theorem frame_tcp_C15_current_state cfg clk tb f tb' r evs v :
  cfg_ok cfg = true -> bytes_ok f = true ->
  view_tcp cfg f = Some v ->
  is_data (tcp_flags (v_l4 v)) = true ->
  tbl_mem (flow_cookie cfg (flow_of v)) tb = false ->
  presents_cookie cfg v = true ->
  reply the_env cfg clk tb f = Ok (tb', r, evs) ->
  exists o, tcp_resp r = Some o /\ app_ok_C15 (ctx_of true v) (tcp_payload (v_l4 v)) o = true.
Proof.
  intros Hcfg Hf Hvt Hd Hmem Hpres Hr.
  pose proof the_env_ok_glue as HE.
  apply (frame_tcp_C15_state the_env cfg clk tb f tb' r evs v false Hcfg HE Hf Hvt Hd Hmem Hpres); [|exact Hr].
  apply stun_ident_current.
  destruct (view_tcp_view _ _ _ Hvt) as [Hv _].
  pose proof (view_l4_ok _ _ _ Hf Hv) as Hok. unfold tcp_payload.
  destruct (_ <=? _)%nat; [reflexivity|apply bytes_ok_skipn, Hok].
Qed.

Lemma udp_req_len cfg f ctx p : udp_req cfg f = Some (ctx, p) -> (length p <= length f)%nat.
Proof.
  unfold udp_req. destruct (view_udp cfg f) as [v|] eqn:Hvu; [|discriminate].
  intros H. assert (p = skipn 8 (v_l4 v)) as -> by congruence. destruct (view_udp_view _ _ _ Hvu) as (Hv & _).
  pose proof (ip_payload_len _ _ _ Hv). rewrite skipn_length. lia.
Qed.

Theorem frame_udp_C15_current cfg clk tb f tb' r evs :
  cfg_ok cfg = true -> bytes_ok f = true -> (length f <= 4096)%nat ->
  reply the_env cfg clk tb f = Ok (tb', r, evs) ->
  ok_C15_udp cfg f r = true.
Proof.
  intros Hcfg Hf Hlen Hr.
  pose proof the_env_ok_glue as HE.
  rewrite <- ok_C15_udp_gen_false.
  apply (frame_udp_C15_any the_env cfg clk tb f tb' r evs false Hcfg HE Hf); [|exact Hr].
  intros ctx p Hreq.
  destruct (udp_req_lift the_env cfg clk tb f tb' r evs ctx p Hcfg Hf Hreq Hr) as (Hp & Hctx & _).
  split; [exact (stun_ident_current false p Hp)|].
  apply dns_quiet_short.
  - destruct Hctx as (_ & _ & Hd & _). rewrite Hd. destruct (a_v4 ctx); lia.
  - pose proof (udp_req_len cfg f ctx p Hreq). lia.
Qed.
