(* Spec/C20.v -- the event log is a faithful, balanced account of every frame.
   Written from the property text and the frame formats; shares nothing with
   L2/L3/L4 except the byte helpers, the stack's view of a frame (Spec/View.v),
   the authorised-MAC predicate of Spec/C02.v and the strict reply decoders of
   Spec/RefDec.v. Definitions only (extracted: the monitor judges the
   implementation's real log). *)
From MS Require Export Bytes Types Log Spec.RefDec Spec.View Spec.C02.

(* ---------- which layers does a frame reach? ----------
   "Reached" = the layer's function is entered, i.e. the enclosing layer
   accepted the packet and pnet could construct the layer's packet type
   (minimum header size). In particular the IP layers are reached -- and log
   recv/drop -- for packets addressed to somebody else or sent by a denied
   source; the transport layers only when the IP layer accepts the packet. *)
Definition l4_layer (v : l4view) : list layer :=
  let n := length (v_l4 v) in
  if v_v4 v then
    if v_proto v =? 1 then (if (4 <=? n)%nat then [LIcmpv4] else [])
    else if v_proto v =? 6 then (if (20 <=? n)%nat then [LTcp] else [])
    else if v_proto v =? 17 then (if (8 <=? n)%nat then [LUdp] else [])
    else []
  else
    if v_proto v =? 58 then (if (4 <=? n)%nat then [LIcmpv6] else [])
    else if v_proto v =? 6 then (if (20 <=? n)%nat then [LTcp] else [])
    else if v_proto v =? 17 then (if (8 <=? n)%nat then [LUdp] else [])
    else [].

Definition l3_layers (cfg : config) (f : bytes) (l3 : layer) : list layer :=
  l3 :: match view cfg f with Some v => l4_layer v | None => [] end.

Definition layers_reached (cfg : config) (f : bytes) : list layer :=
  if (length f <? 14)%nat then []          (* no Ethernet header: no event at all *)
  else
    LEth ::
    (if negb (ref_auth cfg (firstn 6 f)) then []
     else
       let ety := u16_at 12 f in
       let n := length (skipn 14 f) in
       if ety =? 2054 then (if (28 <=? n)%nat then [LArp] else [])
       else if ety =? 2048 then (if (20 <=? n)%nat then l3_layers cfg f LIpv4 else [])
       else if ety =? 34525 then (if (40 <=? n)%nat then l3_layers cfg f LIpv6 else [])
       else []).

(* ---------- balance ---------- *)
Definition is_terminal (v : verb) : bool := match v with Recv => false | _ => true end.
Definition is_send (v : verb) : bool := match v with Send => true | _ => false end.

Definition split_last {A} (l : list A) : option (list A * A) :=
  match rev l with
  | [] => None
  | t :: m => Some (rev m, t)
  end.

(* evs = recv(l1), recv(l2), ..., term(ln), ..., term(l2), term(l1) *)
Fixpoint balanced (ls : list layer) (evs : list event) : bool :=
  match ls with
  | [] => match evs with [] => true | _ :: _ => false end
  | l :: ls' =>
    match evs with
    | [] => false
    | e :: rest =>
      layer_eqb (ev_layer e) l && verb_eqb (ev_verb e) Recv &&
      match split_last rest with
      | None => false
      | Some (mid, t) =>
        layer_eqb (ev_layer t) l && is_terminal (ev_verb t) && balanced ls' mid
      end
    end
  end.

(* the fate logged at the Ethernet level (the last event) *)
Definition eth_terminal (evs : list event) : option verb :=
  match split_last evs with
  | Some (_, t) => if layer_eqb (ev_layer t) LEth then Some (ev_verb t) else None
  | None => None
  end.

(* 'send' exactly when a reply frame is emitted; no event at all only without reply *)
Definition eth_terminal_is_send (evs : list event) (r : option bytes) : bool :=
  match evs with
  | [] => match r with None => true | Some _ => false end
  | _ :: _ =>
    match eth_terminal evs with
    | Some v => is_terminal v && Bool.eqb (is_send v) (match r with Some _ => true | None => false end)
    | None => false
    end
  end.

(* all layers log the same fate *)
Definition terminals_agree (evs : list event) : bool :=
  match eth_terminal evs with
  | Some v => forallb (fun e => negb (is_terminal (ev_verb e)) || verb_eqb (ev_verb e) v) evs
  | None => match evs with [] => true | _ :: _ => false end
  end.

(* ---------- the fields of the frame ---------- *)
Definition mk_ci (ms md : option bytes) (isrc idst : option ipaddr) (tr ps pd : option N) : cinfo :=
  {| ci_mac_src := ms; ci_mac_dst := md; ci_ip_src := isrc; ci_ip_dst := idst;
     ci_transport := tr; ci_port_src := ps; ci_port_dst := pd; ci_cookie := None |}.

(* what layer 2 knows: the two MAC addresses of the frame *)
Definition know_l2 (f : bytes) : cinfo :=
  mk_ci (Some (firstn 6 (skipn 6 f))) (Some (firstn 6 f)) None None None None None.

Definition frame_ips (f : bytes) : option (ipaddr * ipaddr) :=
  let p := skipn 14 f in
  if u16_at 12 f =? 2048 then Some (V4 (firstn 4 (skipn 12 p)), V4 (firstn 4 (skipn 16 p)))
  else if u16_at 12 f =? 34525 then Some (V6 (firstn 16 (skipn 8 p)), V6 (firstn 16 (skipn 24 p)))
  else None.

(* ... plus the IP addresses of the frame *)
Definition know_l3 (f : bytes) : option cinfo :=
  match frame_ips f with
  | Some (s, d) => Some (mk_ci (Some (firstn 6 (skipn 6 f))) (Some (firstn 6 f)) (Some s) (Some d) None None None)
  | None => None
  end.

(* ... plus the transport protocol, once the IP layer has accepted the packet *)
Definition know_l3t (cfg : config) (f : bytes) : option cinfo :=
  match know_l3 f, view cfg f with
  | Some c, Some v =>
    Some (mk_ci (ci_mac_src c) (ci_mac_dst c) (ci_ip_src c) (ci_ip_dst c) (Some (v_proto v)) None None)
  | _, _ => None
  end.

(* ... plus the ports; [local] is the local (destination) port to print *)
Definition know_l4 (cfg : config) (f : bytes) (local : option N) : option cinfo :=
  match know_l3t cfg f, view cfg f, local with
  | Some c, Some v, Some lp =>
    Some (mk_ci (ci_mac_src c) (ci_mac_dst c) (ci_ip_src c) (ci_ip_dst c) (ci_transport c)
                (Some (u16_at 0 (v_l4 v))) (Some lp))
  | _, _, _ => None
  end.

Definition frame_dport (cfg : config) (f : bytes) : option N :=
  match view cfg f with Some v => Some (u16_at 2 (v_l4 v)) | None => None end.

(* the source port of the emitted TCP / UDP reply *)
Definition reply_sport (rf : bytes) : option N :=
  match dec_frame_tcp rf with
  | Some (_, _, t) => Some (dt_sport t)
  | None =>
    match dec_frame_udp rf with
    | Some (_, _, u) => Some (du_sport u)
    | None => None
    end
  end.

(* The local port printed once the fate is known: the reply's source port
   (which differs from the request's destination port only after a STUN
   change-port), or the request's destination port when nothing is sent. *)
Definition final_dport (cfg : config) (f : bytes) (r : option bytes) : option N :=
  match r with
  | Some rf => reply_sport rf
  | None => frame_dport cfg f
  end.

Definition last_layer (ls : list layer) : layer := last ls LEth.

(* everything that is known about the client when the fate is logged: the
   knowledge of the innermost layer the frame reached (ARP does not touch it) *)
Definition know_final (cfg : config) (f : bytes) (r : option bytes) : option cinfo :=
  match last_layer (layers_reached cfg f) with
  | LEth | LArp => Some (know_l2 f)
  | LIpv4 | LIpv6 =>
    match view cfg f with
    | Some _ => know_l3t cfg f
    | None => know_l3 f
    end
  | LIcmpv4 | LIcmpv6 => know_l3t cfg f
  | LTcp | LUdp => know_l4 cfg f (final_dport cfg f r)
  end.

(* ARP events print four address columns (stored in the mac / ip slots) *)
Definition arp_cols (hw1 hw2 ip1 ip2 : bytes) : cinfo :=
  mk_ci (Some hw1) (Some hw2) (Some (V4 ip1)) (Some (V4 ip2)) None None None.

Definition expect_ci (cfg : config) (f : bytes) (r : option bytes) (l : layer) (v : verb) : option cinfo :=
  match l, v with
  | LEth, Recv => Some (know_l2 f)
  | LIpv4, Recv | LIpv6, Recv => know_l3 f
  | LIcmpv4, _ | LIcmpv6, _ => know_l3t cfg f
  | LTcp, Recv | LUdp, Recv => know_l4 cfg f (frame_dport cfg f)
  | LArp, Send =>
    (* target hw, sender hw, target ip, sender ip of the REPLY; they are the
       asker's hardware address, ours, the asker's IP and the address asked for *)
    match r with
    | Some rf =>
      match dec_frame_arp rf with
      | Some (_, a) =>
        let p := skipn 14 f in
        if bytes_eqb (da_tha a) (firstn 6 (skipn 8 p)) && bytes_eqb (da_sha a) (c_mac cfg) &&
           bytes_eqb (da_tpa a) (firstn 4 (skipn 14 p)) && bytes_eqb (da_spa a) (firstn 4 (skipn 24 p))
        then Some (arp_cols (da_tha a) (da_sha a) (da_tpa a) (da_spa a))
        else None
      | None => None
      end
    | None => None
    end
  | LArp, _ =>
    let p := skipn 14 f in
    Some (arp_cols (firstn 6 (skipn 8 p)) (firstn 6 (skipn 18 p)) (firstn 4 (skipn 14 p)) (firstn 4 (skipn 24 p)))
  | _, _ => know_final cfg f r
  end.

Definition tcp_flags_of (p : bytes) : N := (u8_at 12 p mod 2) * 256 + u8_at 13 p.

(* the trailing columns: of the frame for recv / drop, of the reply for send *)
Definition expect_extra (cfg : config) (f : bytes) (r : option bytes) (l : layer) (v : verb) : option (list N) :=
  match v with
  | Send =>
    match r with
    | None => None
    | Some rf =>
      match l with
      | LEth => match dec_eth rf with Some e => Some [de_type e] | None => None end
      | LIpv4 | LIpv6 => match dec_frame_ip rf with Some (_, i) => Some [di_proto i] | None => None end
      | LIcmpv4 | LIcmpv6 =>
        match dec_frame_icmp rf with Some (_, _, c) => Some [dc_type c; dc_code c] | None => None end
      | LTcp => match dec_frame_tcp rf with Some (_, _, t) => Some [dt_flags t; dt_seq t; dt_ack t] | None => None end
      | LUdp => match dec_frame_udp rf with Some _ => Some [] | None => None end
      | LArp => match dec_frame_arp rf with Some (_, a) => Some [da_op a] | None => None end
      end
    end
  | _ =>
    match l with
    | LEth => Some [u16_at 12 f]
    | LIpv4 => Some [u8_at 9 (skipn 14 f)]
    | LIpv6 => Some [u8_at 6 (skipn 14 f)]
    | LIcmpv4 | LIcmpv6 =>
      match view cfg f with Some x => Some [u8_at 0 (v_l4 x); u8_at 1 (v_l4 x)] | None => None end
    | LTcp =>
      match view cfg f with
      | Some x => Some [tcp_flags_of (v_l4 x); u32_at 4 (v_l4 x); u32_at 8 (v_l4 x)]
      | None => None
      end
    | LUdp => Some []
    | LArp => Some [u16_at 6 (skipn 14 f)]
    end
  end.

(* ---------- comparison of what is printed ---------- *)
Definition opt_eqb {A} (eq : A -> A -> bool) (a b : option A) : bool :=
  match a, b with
  | Some x, Some y => eq x y
  | None, None => true
  | _, _ => false
  end.

(* the cookie is not printed; protocols are compared as they print (by name class) *)
Definition ci_print_eqb (a b : cinfo) : bool :=
  opt_eqb bytes_eqb (ci_mac_src a) (ci_mac_src b) && opt_eqb bytes_eqb (ci_mac_dst a) (ci_mac_dst b) &&
  opt_eqb ip_eqb (ci_ip_src a) (ci_ip_src b) && opt_eqb ip_eqb (ci_ip_dst a) (ci_ip_dst b) &&
  opt_eqb (fun x y => proto_class x =? proto_class y) (ci_transport a) (ci_transport b) &&
  opt_eqb N.eqb (ci_port_src a) (ci_port_src b) && opt_eqb N.eqb (ci_port_dst a) (ci_port_dst b).

Fixpoint list_eqb (a b : list N) : bool :=
  match a, b with
  | [], [] => true
  | x :: a', y :: b' => (x =? y) && list_eqb a' b'
  | _, _ => false
  end.

Definition extra_print_eqb (l : layer) (a b : list N) : bool :=
  match l with
  | LEth => list_eqb (map ety_class a) (map ety_class b)
  | LIpv4 | LIpv6 => list_eqb (map proto_class a) (map proto_class b)
  | _ => list_eqb a b
  end.

Definition event_ok (cfg : config) (f : bytes) (r : option bytes) (e : event) : bool :=
  match expect_ci cfg f r (ev_layer e) (ev_verb e), expect_extra cfg f r (ev_layer e) (ev_verb e) with
  | Some c, Some x => ci_print_eqb (ev_ci e) c && extra_print_eqb (ev_layer e) (ev_extra e) x
  | _, _ => false
  end.

Definition fields_ok (cfg : config) (f : bytes) (r : option bytes) (evs : list event) : bool :=
  forallb (event_ok cfg f r) evs.

(* ---------- the monitor ---------- *)
Definition ok_C20 (cfg : config) (f : bytes) (r : option bytes) (evs : list event) : bool :=
  balanced (layers_reached cfg f) evs &&
  eth_terminal_is_send evs r &&
  terminals_agree evs &&
  fields_ok cfg f r evs.

(* ---------- one syntactically complete line per event ---------- *)
Definition nl_free (b : bytes) : bool := forallb (fun x => negb (x =? NL)) b.

(* exactly one newline, at the end *)
Definition one_line (l : bytes) : Prop := exists body, l = body ++ [NL] /\ nl_free body = true.

(* every text a field renderer can produce is free of newlines *)
Definition field_renderers_nl_free : Prop :=
  (forall c : cinfo, forallb (fun kv => nl_free (fst kv) && nl_free (opt_text (snd kv))) (ci_fields c) = true) /\
  (forall (l : layer) (x : list N), forallb (fun kv => nl_free (fst kv) && nl_free (snd kv)) (extra_fields l x) = true) /\
  (forall l : layer, nl_free (layer_name l) = true) /\ (forall v : verb, nl_free (verb_name v) = true) /\
  (forall secs millis : N, nl_free (render_ts secs millis) = true).
