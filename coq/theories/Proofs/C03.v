(* Proofs/C03.v -- replies go back to the asker, from the identity that was
   asked (monitor ok_C03 of Spec/C03.v), proved against reply_spec. *)
From MS Require Import Proofs.Tactics Proofs.Pending Proofs.DecLemmas Proofs.Pipeline Proofs.Factor Proofs.ViewLemmas
     Proofs.C06 Proofs.Auth Proofs.DecLemmas2 Proofs.C05 Proofs.C02
     L2 Spec.View Spec.RefDec Spec.C03 Spec.EnvOk.

(* ================= part 1: the ports of application replies ================= *)

(* What a responder may do to the client information: the source port is kept,
   and the destination port (= source port of the reply) moves to the next port
   exactly when the request is a STUN change-port request answered by a STUN
   success response. *)
Definition ports_spec (ci ci' : cinfo) (data : bytes) (out : option bytes) : Prop :=
  ci_port_src ci' = ci_port_src ci /\
  ci_port_dst ci' =
  match out with
  | Some d => if stun_change_port data && is_stun_success d
              then option_map (fun p => wrap16 (p + 1)) (ci_port_dst ci)
              else ci_port_dst ci
  | None => ci_port_dst ci
  end.

Lemma ports_spec_none ci data : ports_spec ci ci data None.
Proof. split; reflexivity. Qed.

(* a responder that keeps the client information and never looks like STUN *)
Lemma ports_spec_plain ci data out :
  (forall d, out = Some d -> stun_change_port data && is_stun_success d = false) ->
  ports_spec ci ci data out.
Proof.
  intros H. split; [reflexivity|]. destruct out as [d|]; [|reflexivity].
  rewrite (H d eq_refl). reflexivity.
Qed.

(* ---------- STUN ---------- *)
Lemma land_2_mod4 (x : N) : N.land x 2 = N.land (x mod 4) 2.
Proof.
  change 2 with (N.land 3 2) at 1. rewrite N.land_assoc.
  change 3 with (N.ones 2). rewrite N.land_ones. reflexivity.
Qed.

Lemma testbit_low (k b : N) : testbit (k * 256 + b) 2 = testbit b 2.
Proof.
  unfold testbit. rewrite (land_2_mod4 (k * 256 + b)), (land_2_mod4 b).
  replace ((k * 256 + b) mod 4) with (b mod 4) by lia. reflexivity.
Qed.

Lemma testbit_u32 (v : bytes) : testbit (u32_at 4 v) 2 = testbit (u8_at 7 v) 2.
Proof.
  unfold u32_at, u16_at.
  replace ((u8_at 4 v * 256 + u8_at 5 v) * 65536 + (u8_at 6 v * 256 + u8_at 7 v))
    with (((u8_at 4 v * 256 + u8_at 5 v) * 256 + u8_at 6 v) * 256 + u8_at 7 v) by lia.
  apply testbit_low.
Qed.

Lemma has_change_short (fuel : nat) (a : bytes) :
  (length a < 8)%nat -> stun_has_change_port fuel a = false.
Proof.
  intros H. destruct fuel; [reflexivity|]. cbn [stun_has_change_port].
  assert ((length a <? 8)%nat = true) as -> by lia. reflexivity.
Qed.

(* the model's attribute walker and the specification's agree, in lock-step *)
Lemma stun_walkers_agree (fuel : nat) :
  forall (v : bytes) (c b : bool),
    stun_attrs fuel v c = Some b -> b = c || stun_has_change_port fuel v.
Proof.
  induction fuel as [|fuel IH]; intros v c b.
  { cbn [stun_attrs stun_has_change_port]. intros H. inversion H. rewrite orb_false_r. reflexivity. }
  cbn [stun_attrs stun_has_change_port].
  destruct (length v <=? 4)%nat eqn:H4.
  { intros H. inversion H. assert ((length v <? 8)%nat = true) as -> by lia.
    rewrite orb_false_r. reflexivity. }
  destruct (lenN v <? 4 + u16_at 2 v) eqn:Hfit; [discriminate|].
  unfold pad4.
  set (len := u16_at 2 v) in *. set (next := skipn (4 + N.to_nat ((len + 3) / 4 * 4)) v).
  assert (length next = (length v - (4 + N.to_nat ((len + 3) / 4 * 4)))%nat) as Hnext by apply skipn_length.
  unfold lenN in Hfit.
  destruct (length v <? 8)%nat eqn:H8.
  - (* too short to hold a CHANGE-REQUEST: the model cannot find one either *)
    assert (forall c', stun_attrs fuel next c' = Some b -> b = c' || false) as Hrec.
    { intros c' H. rewrite (IH _ _ _ H). rewrite has_change_short by lia. reflexivity. }
    destruct (u16_at 0 v =? 1).
    { destruct (len <? 4) eqn:Hl4; [discriminate|]. lia. }
    destruct (u16_at 0 v =? 3).
    { destruct (len <? 4) eqn:Hl4; [discriminate|]. lia. }
    apply Hrec.
  - destruct (u16_at 0 v =? 1) eqn:T1.
    { apply N.eqb_eq in T1. rewrite T1. change (1 =? 3) with false. cbn [andb orb].
      destruct (len <? 4); [discriminate|].
      destruct (u8_at 5 v =? 1); [destruct (len <? 8); [discriminate|apply IH]|].
      destruct (u8_at 5 v =? 2); [destruct (len <? 20); [discriminate|apply IH]|discriminate]. }
    destruct (u16_at 0 v =? 3) eqn:T3.
    { destruct (len <? 4) eqn:Hl4; [discriminate|].
      assert ((4 <=? len) = true) as -> by lia. cbn [andb].
      intros H. rewrite (IH _ _ _ H). rewrite testbit_u32. rewrite orb_assoc. reflexivity. }
    cbn [andb orb]. apply IH.
Qed.

(* the only requests the model answers are binding requests: 00 01 *)
Definition byte_values : list N := map N.of_nat (seq 0 256).
Lemma byte_values_in (b : N) : b < 256 -> In b byte_values.
Proof.
  intros H. unfold byte_values. apply in_map_iff. exists (N.to_nat b). split; [lia|]. apply in_seq. lia.
Qed.

Definition stun_d0_row (d0 : N) : bool :=
  if (d0 <? 64) && (N.land d0 1 =? 0) && (N.land d0 62 =? 0) then d0 =? 0 else true.
Definition stun_d1_row (d1 : N) : bool :=
  if (N.land d1 16 / 16 =? 0) && (N.land d1 239 =? 1) then d1 =? 1 else true.
Lemma stun_rows_computed :
  forallb stun_d0_row byte_values = true /\ forallb stun_d1_row byte_values = true.
Proof. split; vm_compute; reflexivity. Qed.

Lemma stun_type_bytes (d0 d1 : N) :
  d0 < 256 -> d1 < 256 ->
  (64 <=? d0) = false ->
  (N.land d0 1 * 2 + N.land d1 16 / 16 =? 0) = true ->
  (N.land d0 62 * 128 + N.land d1 239 =? 1) = true ->
  d0 * 256 + d1 = 1.
Proof.
  intros H0 H1 H64 Hc Hm.
  destruct stun_rows_computed as [R0 R1]. rewrite forallb_forall in R0, R1.
  pose proof (R0 d0 (byte_values_in d0 H0)) as X0. pose proof (R1 d1 (byte_values_in d1 H1)) as X1.
  unfold stun_d0_row in X0. unfold stun_d1_row in X1.
  apply N.eqb_eq in Hc. apply N.eqb_eq in Hm.
  assert (N.land d0 1 = 0 /\ N.land d1 16 / 16 = 0) as [A B] by lia.
  assert (N.land d0 62 = 0 /\ N.land d1 239 = 1) as [C D] by lia.
  rewrite A, C in X0. rewrite B, D in X1.
  assert ((d0 <? 64) = true) as Y by lia. rewrite Y in X0.
  change (0 =? 0) with true in *. change (1 =? 1) with true in X1. cbn [andb] in *.
  apply N.eqb_eq in X0. apply N.eqb_eq in X1. subst. reflexivity.
Qed.

Lemma stun_response_success id src sport : is_stun_success (stun_response id src sport) = true.
Proof. reflexivity. Qed.

Lemma stun_ports ci data ci' out :
  bytes_ok data = true -> stun_repl ci data = (ci', out) -> ports_spec ci ci' data out.
Proof.
  intros Hok. unfold stun_repl.
  destruct (length data <? 20)%nat eqn:Hlen.
  { intros H. inversion H. apply ports_spec_none. }
  destruct (64 <=? u8_at 0 data) eqn:H64.
  { intros H. inversion H. apply ports_spec_none. }
  destruct (lenN data <? 20 + u16_at 2 data).
  { intros H. inversion H. apply ports_spec_none. }
  destruct (stun_attrs _ _ false) as [chg|] eqn:Hw.
  2: { intros H. inversion H. apply ports_spec_none. }
  destruct (N.land (u8_at 0 data) 1 * 2 + N.land (u8_at 1 data) 16 / 16 =? 0) eqn:Hc; cbn [negb].
  2: { intros H. inversion H. apply ports_spec_none. }
  destruct (N.land (u8_at 0 data) 62 * 128 + N.land (u8_at 1 data) 239 =? 1) eqn:Hm; cbn [negb].
  2: { intros H. inversion H. apply ports_spec_none. }
  destruct (ci_ip_src ci) as [src|].
  2: { intros H. inversion H. apply ports_spec_none. }
  destruct (ci_port_src ci) as [sport|] eqn:Hsp.
  2: { intros H. inversion H. apply ports_spec_none. }
  destruct (ci_port_dst ci) as [dport|] eqn:Hdp.
  2: { intros H. inversion H. apply ports_spec_none. }
  intros H. apply pair_equal_spec in H. destruct H as [<- <-].
  (* the request is a binding request and the walkers agree *)
  pose proof (stun_type_bytes _ _ (u8_at_lt 0 _ Hok) (u8_at_lt 1 _ Hok) H64 Hc Hm) as Hty.
  pose proof (stun_walkers_agree _ _ _ _ Hw) as Hchg. cbn [orb] in Hchg.
  assert (stun_change_port data = chg) as Hreq.
  { unfold stun_change_port. assert ((20 <=? length data)%nat = true) as -> by lia.
    unfold u16_at at 1. rewrite Hty. change (1 =? 1) with true. cbn [andb].
    rewrite Hchg. reflexivity. }
  unfold ports_spec. rewrite Hreq, stun_response_success, andb_true_r.
  destruct chg; cbn [ci_port_src ci_port_dst ci_set_port_dst option_map]; rewrite ?Hsp, ?Hdp; split; reflexivity.
Qed.

(* ---------- the other responders: one small lemma each ---------- *)
Lemma env_ok_heads E : env_ok E = true ->
  not_stun_head (e_http_pre E) = true /\ not_stun_head (e_ssh_banner E) = true /\
  not_stun_head (e_ghost E) = true.
Proof.
  unfold env_ok. intros H. repeat (apply andb_true_iff in H; destruct H as [H ?]).
  repeat split; assumption.
Qed.

Lemma not_stun_head_app (a b : bytes) : not_stun_head a = true -> is_stun_success (a ++ b) = false.
Proof.
  unfold not_stun_head, is_stun_success. intros H. apply andb_true_iff in H. destruct H as [Hl Hn].
  destruct a as [|x [|y a]]; cbn [length] in Hl; try (apply Nat.leb_le in Hl; lia).
  apply negb_true_iff in Hn. exact Hn.
Qed.
Lemma not_stun_head_self (a : bytes) : not_stun_head a = true -> is_stun_success a = false.
Proof. intros H. rewrite <- (app_nil_r a). apply not_stun_head_app, H. Qed.

Lemma http_not_stun E date h data h' d :
  env_ok E = true ->
  http_repl (e_http_tbl E) (e_http_pre E) (e_http_post E) date h data = Ok (h', Some d) ->
  is_stun_success d = false.
Proof.
  intros HE. destruct (env_ok_heads E HE) as (Hh & _ & _).
  unfold http_repl, http_response.
  destruct (http_parse _ _ _) as [s'|s]; cbn [bind]; [|discriminate].
  destruct (h_state s' =? HTTP_CONTENT); intros H; inversion H; subst.
  apply not_stun_head_app, Hh.
Qed.

Lemma ssh_not_stun E data d :
  env_ok E = true -> ssh_repl (e_ssh_banner E) data = Some d -> is_stun_success d = false.
Proof.
  intros HE. destruct (env_ok_heads E HE) as (_ & Hs & _).
  unfold ssh_repl. destruct (_ =? _); intros H; inversion H; subst.
  apply not_stun_head_self, Hs.
Qed.

Lemma ghost_not_stun E data d :
  env_ok E = true -> ghost_repl (e_ghost E) data = Some d -> is_stun_success d = false.
Proof.
  intros HE. destruct (env_ok_heads E HE) as (_ & _ & Hg).
  unfold ghost_repl. intros H; inversion H; subst. apply not_stun_head_self, Hg.
Qed.

(* RPC over TCP: the reply begins with a record mark whose last-fragment bit is set *)
Lemma rpc_tcp_not_stun r0 ip port data r' d :
  rpc_repl_tcp r0 ip port data = (r', Some d) -> is_stun_success d = false.
Proof.
  unfold rpc_repl_tcp. destruct (r_state _ =? R_END); [destruct (r_mtype _ =? 0)|];
    intros H; inversion H; subst.
  unfold is_stun_success, u16_at, u8_at. cbn [app nth]. apply N.eqb_neq. lia.
Qed.

(* RPC over UDP: the reply begins with the transaction id of the call, i.e. with
   the first four bytes of the request; a STUN binding request begins 00 01 *)
Lemma rpc_step_xid (s : rpc_st) (b : N) :
  r_state s = R_XID ->
  r_xid (rpc_byte s b) = acc (r_xid s) b /\
  (if r_cur_len s + 1 =? 4
   then r_state (rpc_byte s b) = R_MTYPE
   else r_state (rpc_byte s b) = R_XID /\ r_cur_len (rpc_byte s b) = r_cur_len s + 1).
Proof.
  intros H. unfold rpc_byte, rd. rewrite H.
  change (R_XID =? R_FRAG) with false. change (R_XID =? R_XID) with true. cbv iota.
  destruct (r_cur_len s + 1 =? 4); cbn [r_xid r_state r_cur_len]; auto.
Qed.

Lemma rd_state (s : rpc_st) (next : N) : fst (rd s next) = next \/ fst (rd s next) = r_state s.
Proof. unfold rd. destruct (_ =? 4); cbn [fst]; auto. Qed.

(* past the transaction id, the parser never returns to it *)
Lemma rpc_byte_keeps_xid (s : rpc_st) (b : N) :
  2 <= r_state s -> 2 <= r_state (rpc_byte s b) /\ r_xid (rpc_byte s b) = r_xid s.
Proof.
  intros H. unfold rpc_byte.
  repeat match goal with
         | |- context [r_state s =? ?k] =>
           let E := fresh "E" in destruct (r_state s =? k) eqn:E;
           [apply N.eqb_eq in E|apply N.eqb_neq in E]
         end;
  try (unfold R_FRAG, R_XID in *; lia);
  repeat match goal with
         | |- context [rd s ?n] =>
           let Hn := fresh "Hn" in
           pose proof (rd_state s n) as Hn; destruct (rd s n) as [n' c']; cbn [fst] in Hn
         end;
  repeat match goal with
         | |- context [if ?c then _ else _] => destruct c
         end;
  cbn [upd r_state r_xid];
  unfold R_MTYPE, R_RPCVERS, R_PROG, R_PROGVERS, R_PROC, R_CFLAVOR, R_CLEN, R_CREDS, R_VFLAVOR,
         R_VLEN, R_VERIF, R_END in *;
  (split; [lia|reflexivity]).
Qed.

Lemma rpc_parse_keeps_xid (data : bytes) : forall s,
  2 <= r_state s -> r_xid (rpc_parse s data) = r_xid s.
Proof.
  unfold rpc_parse. induction data as [|b data IH]; intros s H; [reflexivity|].
  cbn [fold_left]. destruct (rpc_byte_keeps_xid s b H) as [H2 Hx]. rewrite IH by exact H2. exact Hx.
Qed.

Lemma rpc_udp_xid (b0 b1 b2 b3 : N) (rest : bytes) :
  r_xid (rpc_parse (rpc_new R_XID) (b0 :: b1 :: b2 :: b3 :: rest)) = acc (acc (acc (acc 0 b0) b1) b2) b3.
Proof.
  unfold rpc_parse. cbn [fold_left].
  set (s0 := rpc_new R_XID).
  destruct (rpc_step_xid s0 b0 eq_refl) as [X0 Y0].
  change (r_cur_len s0 + 1 =? 4) with false in Y0. cbv iota in Y0. destruct Y0 as [S0 C0].
  set (s1 := rpc_byte s0 b0) in *.
  destruct (rpc_step_xid s1 b1 S0) as [X1 Y1]. rewrite C0 in Y1.
  change (r_cur_len s0 + 1 + 1 =? 4) with false in Y1. cbv iota in Y1. destruct Y1 as [S1 C1].
  set (s2 := rpc_byte s1 b1) in *.
  destruct (rpc_step_xid s2 b2 S1) as [X2 Y2]. rewrite C1 in Y2.
  change (r_cur_len s0 + 1 + 1 + 1 =? 4) with false in Y2. cbv iota in Y2. destruct Y2 as [S2 C2].
  set (s3 := rpc_byte s2 b2) in *.
  destruct (rpc_step_xid s3 b3 S2) as [X3 Y3]. rewrite C2 in Y3.
  change (r_cur_len s0 + 1 + 1 + 1 + 1 =? 4) with true in Y3. cbv iota in Y3.
  fold (rpc_parse (rpc_byte s3 b3) rest).
  rewrite rpc_parse_keeps_xid by (rewrite Y3; unfold R_MTYPE; lia).
  rewrite X3, X2, X1, X0. reflexivity.
Qed.

Lemma rpc_udp_not_stun ip port data d :
  bytes_ok data = true ->
  rpc_repl_udp ip port data = Some d -> stun_change_port data && is_stun_success d = false.
Proof.
  intros Hok. unfold rpc_repl_udp.
  destruct ((r_state _ =? R_END) && _); intros H; inversion H; subst. clear H.
  destruct (stun_change_port data) eqn:Hreq; [|reflexivity]. cbn [andb].
  unfold stun_change_port in Hreq.
  apply andb_true_iff in Hreq. destruct Hreq as [Hreq _].
  apply andb_true_iff in Hreq. destruct Hreq as [Hlen Hty].
  apply Nat.leb_le in Hlen. apply N.eqb_eq in Hty.
  destruct data as [|b0 [|b1 [|b2 [|b3 rest]]]]; cbn [length] in Hlen; try lia.
  unfold is_stun_success, rpc_build. rewrite rpc_udp_xid.
  unfold u16_at, u8_at in Hty. cbn [nth] in Hty.
  unfold bytes_ok in Hok. cbn [forallb] in Hok. unfold byte_ok in Hok.
  unfold be32, u16_at, u8_at. cbn [app nth]. unfold acc, wrap32.
  apply N.eqb_neq. lia.
Qed.

(* DNS (the UDP fallback): the reply repeats the id of the query *)
Lemma dns_parse_id data m : dns_parse data = Some m -> d_id m = u16_at 0 data.
Proof.
  unfold dns_parse. destruct (length data <? 12)%nat; [discriminate|].
  destruct (take_questions _ _) as [[qs r]|]; [|discriminate].
  destruct (skip_rrs _ _); [|discriminate].
  destruct (_ && _); [|discriminate]. intros H. inversion H. reflexivity.
Qed.

Lemma dns_not_stun dst data d :
  dns_repl dst data = Some d -> stun_change_port data && is_stun_success d = false.
Proof.
  unfold dns_repl. destruct (dns_parse data) as [m|] eqn:Hp; [|discriminate].
  destruct dst as [ip|]; [|discriminate].
  destruct (32768 <=? d_flags m); [discriminate|].
  destruct (forallb _ _); [|discriminate]. intros H. inversion H. subst d. clear H.
  destruct (stun_change_port data) eqn:Hreq; [|reflexivity]. cbn [andb].
  unfold stun_change_port in Hreq.
  apply andb_true_iff in Hreq. destruct Hreq as [Hreq _].
  apply andb_true_iff in Hreq. destruct Hreq as [_ Hty]. apply N.eqb_eq in Hty.
  unfold is_stun_success, dns_header_reply. rewrite (dns_parse_id _ _ Hp), Hty.
  reflexivity.
Qed.

(* SMB: every reply starts with the NetBIOS session header 00 <hi>, hi < 256 *)
Lemma nbt_run_not_stun T tn tb tr data d :
  nbt_run T tn tb tr data = Ok (Some d) -> is_stun_success d = false.
Proof.
  unfold nbt_run. destruct (fold_res _ _ _) as [st|s]; cbn [bind]; [|discriminate].
  unfold nbt_repl. destruct (nb_pay _ st); [|discriminate].
  destruct (tr _) as [l|]; [|discriminate].
  cbv zeta.
  match goal with |- context [256 <=? ?h] => set (hi := h) end.
  destruct (256 <=? hi) eqn:Hhi; [discriminate|].
  intros H. injection H as <-.
  unfold is_stun_success, u16_at, u8_at. cbn [app nth].
  apply N.eqb_neq. lia.
Qed.
Lemma smb1_not_stun nb cb ft data d : smb1_repl nb cb ft data = Ok (Some d) -> is_stun_success d = false.
Proof. unfold smb1_repl. apply nbt_run_not_stun. Qed.
Lemma smb2_not_stun nb cb ft data d : smb2_repl nb cb ft data = Ok (Some d) -> is_stun_success d = false.
Proof. unfold smb2_repl. apply nbt_run_not_stun. Qed.

Lemma andb_false_of_r (a b : bool) : b = false -> a && b = false.
Proof. intros ->. apply andb_false_r. Qed.

(* ---------- the dispatcher ---------- *)
Lemma dispatch_ports E clk ci id t data ci' t' out :
  env_ok E = true -> bytes_ok data = true ->
  dispatch E clk ci id t data = Ok (ci', t', out) -> ports_spec ci ci' data out.
Proof.
  intros HE Hok. unfold dispatch.
  destruct (id =? PROTO_HTTP).
  { destruct t as [tc|].
    - destruct (t_pstate tc) as [[h|r]|]; try discriminate.
      + destruct (http_repl _ _ _ _ h data) as [[h' o]|s] eqn:Hh; cbn [bind]; [|discriminate].
        intros H. inversion H; subst. apply ports_spec_plain. intros d ->.
        apply andb_false_of_r. eapply http_not_stun; eassumption.
      + destruct (http_repl _ _ _ _ http_new data) as [[h' o]|s] eqn:Hh; cbn [bind]; [|discriminate].
        intros H. inversion H; subst. apply ports_spec_plain. intros d ->.
        apply andb_false_of_r. eapply http_not_stun; eassumption.
    - destruct (http_repl _ _ _ _ http_new data) as [[h' o]|s] eqn:Hh; cbn [bind]; [|discriminate].
      intros H. inversion H; subst. apply ports_spec_plain. cbn [snd]. intros d ->.
      apply andb_false_of_r. eapply http_not_stun; eassumption. }
  destruct (id =? PROTO_STUN).
  { destruct (stun_repl ci data) as [ci2 o] eqn:Hst. intros H. inversion H; subst.
    eapply stun_ports; eassumption. }
  destruct (id =? PROTO_SSH).
  { intros H. inversion H; subst. apply ports_spec_plain. intros d Hd.
    apply andb_false_of_r. eapply ssh_not_stun; eassumption. }
  destruct (id =? PROTO_GHOST).
  { intros H. inversion H; subst. apply ports_spec_plain. intros d Hd.
    apply andb_false_of_r. eapply ghost_not_stun; eassumption. }
  destruct (id =? PROTO_RPC_TCP).
  { destruct (ci_ip_dst ci) as [ip|]; [|intros H; inversion H; apply ports_spec_none].
    destruct (ci_port_dst ci) as [port|]; [|intros H; inversion H; apply ports_spec_none].
    destruct t as [tc|].
    - destruct (t_pstate tc) as [[h|r]|]; try discriminate.
      + destruct (rpc_repl_tcp r ip port data) as [r' o] eqn:Hr.
        intros H. inversion H; subst. apply ports_spec_plain. intros d ->.
        apply andb_false_of_r. eapply rpc_tcp_not_stun; eassumption.
      + destruct (rpc_repl_tcp (rpc_new R_FRAG) ip port data) as [r' o] eqn:Hr.
        intros H. inversion H; subst. apply ports_spec_plain. intros d ->.
        apply andb_false_of_r. eapply rpc_tcp_not_stun; eassumption.
    - destruct (rpc_repl_tcp (rpc_new R_FRAG) ip port data) as [r' o] eqn:Hr.
      intros H. inversion H; subst. apply ports_spec_plain. cbn [snd]. intros d ->.
      apply andb_false_of_r. eapply rpc_tcp_not_stun; eassumption. }
  destruct (id =? PROTO_RPC_UDP).
  { destruct (ci_ip_dst ci) as [ip|]; [|intros H; inversion H; apply ports_spec_none].
    destruct (ci_port_dst ci) as [port|]; [|intros H; inversion H; apply ports_spec_none].
    intros H. inversion H; subst. apply ports_spec_plain. intros d Hd.
    eapply rpc_udp_not_stun; eassumption. }
  destruct (id =? PROTO_SMB1).
  { destruct (smb1_repl _ _ _ data) as [o|s] eqn:Hs; cbn [bind]; [|discriminate].
    intros H. inversion H; subst. apply ports_spec_plain. intros d ->.
    apply andb_false_of_r. eapply smb1_not_stun; eassumption. }
  destruct (id =? PROTO_SMB2).
  { destruct (smb2_repl _ _ _ data) as [o|s] eqn:Hs; cbn [bind]; [|discriminate].
    intros H. inversion H; subst. apply ports_spec_plain. intros d ->.
    apply andb_false_of_r. eapply smb2_not_stun; eassumption. }
  intros H. inversion H; subst. apply ports_spec_none.
Qed.

(* the reading that does not look at the request: the source port is kept, and the
   destination port is kept or moves to the next port under a STUN success response *)
Definition ports_weak (ci ci' : cinfo) (out : option bytes) : Prop :=
  ci_port_src ci' = ci_port_src ci /\
  (ci_port_dst ci' = ci_port_dst ci \/
   exists d, out = Some d /\ is_stun_success d = true /\
             ci_port_dst ci' = option_map (fun p => wrap16 (p + 1)) (ci_port_dst ci)).

Lemma ports_weak_refl ci out : ports_weak ci ci out.
Proof. split; [reflexivity|left; reflexivity]. Qed.

Lemma stun_ports_weak ci data ci' out : stun_repl ci data = (ci', out) -> ports_weak ci ci' out.
Proof.
  unfold stun_repl.
  destruct (length data <? 20)%nat; [intros H; inversion H; apply ports_weak_refl|].
  destruct (64 <=? u8_at 0 data); [intros H; inversion H; apply ports_weak_refl|].
  destruct (lenN data <? 20 + u16_at 2 data); [intros H; inversion H; apply ports_weak_refl|].
  destruct (stun_attrs _ _ false) as [chg|]; [|intros H; inversion H; apply ports_weak_refl].
  destruct (negb _); [intros H; inversion H; apply ports_weak_refl|].
  destruct (negb _); [intros H; inversion H; apply ports_weak_refl|].
  destruct (ci_ip_src ci) as [src|]; [|intros H; inversion H; apply ports_weak_refl].
  destruct (ci_port_src ci) as [sport|] eqn:Hsp; [|intros H; inversion H; apply ports_weak_refl].
  destruct (ci_port_dst ci) as [dport|] eqn:Hdp; [|intros H; inversion H; apply ports_weak_refl].
  intros H. apply pair_equal_spec in H. destruct H as [<- <-].
  destruct chg; [|apply ports_weak_refl].
  split; [cbn [ci_port_src ci_set_port_dst]; reflexivity|]. right.
  eexists. split; [reflexivity|]. split; [apply stun_response_success|].
  rewrite Hdp. cbn [ci_port_dst ci_set_port_dst option_map]. reflexivity.
Qed.

Lemma dispatch_ports_weak E clk ci id t data ci' t' out :
  dispatch E clk ci id t data = Ok (ci', t', out) -> ports_weak ci ci' out.
Proof.
  unfold dispatch.
  destruct (id =? PROTO_HTTP).
  { destruct t as [tc|].
    - destruct (match t_pstate tc with None => _ | Some _ => _ end) as [h|s]; [|discriminate].
      destruct (http_repl _ _ _ _ h data) as [[h' o]|s]; cbn [bind]; [|discriminate].
      intros H. inversion H; subst. apply ports_weak_refl.
    - destruct (http_repl _ _ _ _ http_new data) as [[h' o]|s]; cbn [bind]; [|discriminate].
      intros H. inversion H; subst. apply ports_weak_refl. }
  destruct (id =? PROTO_STUN).
  { destruct (stun_repl ci data) as [ci2 o] eqn:Hst. intros H. inversion H; subst.
    eapply stun_ports_weak; eassumption. }
  destruct (id =? PROTO_SSH); [intros H; inversion H; subst; apply ports_weak_refl|].
  destruct (id =? PROTO_GHOST); [intros H; inversion H; subst; apply ports_weak_refl|].
  destruct (id =? PROTO_RPC_TCP).
  { destruct (ci_ip_dst ci) as [ip|]; [|intros H; inversion H; apply ports_weak_refl].
    destruct (ci_port_dst ci) as [port|]; [|intros H; inversion H; apply ports_weak_refl].
    destruct t as [tc|].
    - destruct (match t_pstate tc with None => _ | Some _ => _ end) as [r0|s]; [|discriminate].
      destruct (rpc_repl_tcp r0 ip port data) as [r' o].
      intros H. inversion H; subst. apply ports_weak_refl.
    - intros H. inversion H; subst. apply ports_weak_refl. }
  destruct (id =? PROTO_RPC_UDP).
  { destruct (ci_ip_dst ci) as [ip|]; [|intros H; inversion H; apply ports_weak_refl].
    destruct (ci_port_dst ci) as [port|]; intros H; inversion H; apply ports_weak_refl. }
  destruct (id =? PROTO_SMB1).
  { destruct (smb1_repl _ _ _ data) as [o|s]; cbn [bind]; [|discriminate].
    intros H. inversion H; subst. apply ports_weak_refl. }
  destruct (id =? PROTO_SMB2).
  { destruct (smb2_repl _ _ _ data) as [o|s]; cbn [bind]; [|discriminate].
    intros H. inversion H; subst. apply ports_weak_refl. }
  intros H. inversion H; subst. apply ports_weak_refl.
Qed.

(* TCP: the handler is given [snd (tcp_identify E tc data)]: the segment, preceded by the
   bytes the flow has pending when this segment completes a signature *)
Lemma proto_repl_tcp_ports_joined E clk ci tc data ci' tc' out :
  env_ok E = true -> bytes_ok (snd (tcp_identify E tc data)) = true ->
  proto_repl_tcp E clk ci tc data = Ok (ci', tc', out) ->
  ports_spec ci ci' (snd (tcp_identify E tc data)) out.
Proof.
  intros HE Hok. unfold proto_repl_tcp.
  destruct (tcp_identify E tc data) as [tc1 data1]. cbn [snd] in *.
  destruct (dispatch E clk ci (t_proto tc1) (Some tc1) data1) as [[[c2 t2] o]|s] eqn:Hd; cbn [bind]; [|discriminate].
  intros H. inversion H; subst. eapply dispatch_ports; eassumption.
Qed.

(* a flow without pending bytes: the segment alone *)
Lemma proto_repl_tcp_ports E clk ci tc data ci' tc' out :
  env_ok E = true -> bytes_ok data = true -> t_pending tc = [] ->
  proto_repl_tcp E clk ci tc data = Ok (ci', tc', out) -> ports_spec ci ci' data out.
Proof.
  intros HE Hok Hp H. rewrite <- (tcp_identify_data_empty E tc data Hp).
  apply (proto_repl_tcp_ports_joined E clk ci tc data ci' tc' out HE); [|exact H].
  rewrite (tcp_identify_data_empty E tc data Hp). exact Hok.
Qed.

(* any flow *)
Lemma proto_repl_tcp_ports_weak E clk ci tc data ci' tc' out :
  proto_repl_tcp E clk ci tc data = Ok (ci', tc', out) -> ports_weak ci ci' out.
Proof.
  unfold proto_repl_tcp. destruct (tcp_identify E tc data) as [tc1 data1].
  destruct (dispatch E clk ci (t_proto tc1) (Some tc1) data1) as [[[c2 t2] o]|s] eqn:Hd; cbn [bind]; [|discriminate].
  intros H. inversion H; subst. eapply dispatch_ports_weak; eassumption.
Qed.

Lemma proto_repl_udp_ports E clk ci data ci' out :
  env_ok E = true -> bytes_ok data = true ->
  proto_repl_udp E clk ci data = Ok (ci', out) -> ports_spec ci ci' data out.
Proof.
  intros HE Hok. unfold proto_repl_udp.
  destruct (search_next (e_proto_tbl E) BASE_STATE data) as [[id st] n].
  match goal with |- context [match ?x with Some i => _ | None => _ end = _ -> _] => destruct x as [i|] end.
  - destruct (dispatch E clk ci i None data) as [[[c2 t2] o]|s] eqn:Hd; cbn [bind]; [|discriminate].
    intros H. inversion H; subst. eapply dispatch_ports; eassumption.
  - destruct (dns_repl (ci_ip_dst ci) data) as [r|] eqn:Hdns; intros H; inversion H; subst.
    + apply ports_spec_plain. intros d Hd. inversion Hd; subst. eapply dns_not_stun; eassumption.
    + apply ports_spec_none.
Qed.

(* ================= part 2: the ports of transport replies ================= *)
Lemma tcp_payload_ok (p : bytes) : bytes_ok p = true -> bytes_ok (tcp_payload p) = true.
Proof.
  intros H. unfold tcp_payload. destruct (_ <=? _)%nat; [reflexivity|]. apply bytes_ok_skipn, H.
Qed.

Lemma no_payload_not_stun : is_stun_success [] = false.
Proof. reflexivity. Qed.

(* no flow of the table has bytes pending (flows that are identified, or whose first data
   segment is still to come) *)
Definition tbl_no_pending (tb : table) : Prop :=
  forall k tc, tbl_find k tb = Some tc -> t_pending tc = [].

Lemma tcp_repl_ports E cfg clk tb ci0 p tb' ci' r evs :
  env_ok E = true -> bytes_ok p = true -> tbl_no_pending tb ->
  tcp_repl E cfg clk tb ci0 p = Ok (tb', ci', Some r, evs) ->
  exists sp seq ack fl pl,
    r = tcp_header sp (u16_at 0 p) seq ack fl ++ pl /\ fl < 512 /\
    sp = (if stun_change_port (tcp_payload p) && is_stun_success pl
          then wrap16 (u16_at 2 p + 1) else u16_at 2 p).
Proof.
  intros HE Hok Hnp. unfold tcp_repl.
  destruct (tcp_class (tcp_flags p)).
  - (* TData *)
    destruct (cookie_ci _ _ _) as [ck|]; [|discriminate].
    match goal with |- context [if ?c then _ else _] => destruct c end; [discriminate|].
    assert (Hpe : t_pending (match tbl_find ck tb with Some t => t | None => tcb_new end) = []).
    { destruct (tbl_find ck tb) as [t|] eqn:Hf; [exact (Hnp ck t Hf)|reflexivity]. }
    destruct (proto_repl_tcp _ _ _ _ _) as [[[ci2 tc'] out]|s] eqn:Hpr; cbn [bind]; [|discriminate].
    pose proof (proto_repl_tcp_ports _ _ _ _ _ _ _ _ HE (tcp_payload_ok _ Hok) Hpe Hpr) as [Hsrc Hdst].
    cbn [ci_port_src ci_port_dst ci_set_cookie ci_set_ports option_map] in Hsrc, Hdst.
    rewrite Hsrc, Hdst.
    destruct out as [d|].
    + destruct (stun_change_port (tcp_payload p) && is_stun_success d) eqn:Hc;
        intros H; inversion H; subst; eexists _, _, _, _, d;
        (split; [reflexivity|]); (split; [unfold ACK, PSH; lia|]); rewrite Hc; reflexivity.
    + intros H; inversion H; subst. eexists _, _, _, _, [].
      split; [reflexivity|]. split; [unfold ACK; lia|].
      rewrite no_payload_not_stun, andb_false_r. reflexivity.
  - discriminate.
  - discriminate.
  - cbn [ci_port_src ci_port_dst ci_set_ports]. intros H; inversion H; subst.
    eexists _, _, _, _, []. split; [reflexivity|]. split; [unfold FIN, ACK; lia|].
    rewrite no_payload_not_stun, andb_false_r. reflexivity.
  - destruct (cookie_ci _ _ _) as [ck|]; [|discriminate].
    cbn [ci_port_src ci_port_dst ci_set_ports]. intros H; inversion H; subst.
    eexists _, _, _, _, []. split; [reflexivity|]. split; [unfold SYN, ACK; lia|].
    rewrite no_payload_not_stun, andb_false_r. reflexivity.
  - discriminate.
Qed.

(* any table: the reading that does not look at the request *)
Lemma tcp_repl_ports_weak E cfg clk tb ci0 p tb' ci' r evs :
  tcp_repl E cfg clk tb ci0 p = Ok (tb', ci', Some r, evs) ->
  exists sp seq ack fl pl,
    r = tcp_header sp (u16_at 0 p) seq ack fl ++ pl /\ fl < 512 /\
    (sp = u16_at 2 p \/ (is_stun_success pl = true /\ sp = wrap16 (u16_at 2 p + 1))).
Proof.
  unfold tcp_repl.
  destruct (tcp_class (tcp_flags p)).
  - (* TData *)
    destruct (cookie_ci _ _ _) as [ck|]; [|discriminate].
    match goal with |- context [if ?c then _ else _] => destruct c end; [discriminate|].
    destruct (proto_repl_tcp _ _ _ _ _) as [[[ci2 tc'] out]|s] eqn:Hpr; cbn [bind]; [|discriminate].
    pose proof (proto_repl_tcp_ports_weak _ _ _ _ _ _ _ _ Hpr) as [Hsrc Hdst].
    cbn [ci_port_src ci_port_dst ci_set_cookie ci_set_ports option_map] in Hsrc, Hdst.
    rewrite Hsrc.
    destruct Hdst as [Hdst | (d & -> & Hst & Hdst)]; rewrite Hdst.
    + destruct out as [d|]; intros H; inversion H; subst; eexists _, _, _, _, _;
        (split; [reflexivity|]); (split; [unfold ACK, PSH; lia|]); left; reflexivity.
    + intros H; inversion H; subst. eexists _, _, _, _, d.
      split; [reflexivity|]. split; [unfold ACK, PSH; lia|]. right. split; [exact Hst|reflexivity].
  - discriminate.
  - discriminate.
  - cbn [ci_port_src ci_port_dst ci_set_ports]. intros H; inversion H; subst.
    eexists _, _, _, _, []. split; [reflexivity|]. split; [unfold FIN, ACK; lia|]. left. reflexivity.
  - destruct (cookie_ci _ _ _) as [ck|]; [|discriminate].
    cbn [ci_port_src ci_port_dst ci_set_ports]. intros H; inversion H; subst.
    eexists _, _, _, _, []. split; [reflexivity|]. split; [unfold SYN, ACK; lia|]. left. reflexivity.
  - discriminate.
Qed.

Lemma udp_repl_ports E cfg clk ci0 p ci' r evs :
  env_ok E = true -> bytes_ok p = true ->
  udp_repl E cfg clk ci0 p = Ok (ci', Some r, evs) ->
  exists sp len pl,
    r = be16 sp ++ be16 (u16_at 0 p) ++ be16 len ++ [0; 0] ++ pl /\
    sp = (if stun_change_port (skipn 8 p) && is_stun_success pl
          then wrap16 (u16_at 2 p + 1) else u16_at 2 p).
Proof.
  intros HE Hok. unfold udp_repl.
  destruct (proto_repl_udp _ _ _ _) as [[ci1 out]|s] eqn:Hpr; cbn [bind]; [|discriminate].
  pose proof (proto_repl_udp_ports _ _ _ _ _ _ HE (bytes_ok_skipn 8 _ Hok) Hpr) as [Hsrc Hdst].
  cbn [ci_port_src ci_port_dst ci_set_ports option_map] in Hsrc, Hdst.
  destruct out as [d|]; [|discriminate].
  rewrite Hsrc, Hdst.
  destruct (stun_change_port (skipn 8 p) && is_stun_success d) eqn:Hc;
    intros H; inversion H; subst; eexists _, _, d; (split; [reflexivity|]); rewrite Hc; reflexivity.
Qed.

(* ================= part 3: the frame-level statement ================= *)
Lemma mirror_wrap (strict : bool) cfg f v rsrc hlim l4 :
  cfg_ok cfg = true -> bytes_ok f = true -> view cfg f = Some v -> hlim < 256 ->
  length rsrc = (if v_v4 v then 4 else 16)%nat ->
  (if negb (v_v4 v) && (v_proto v =? 58) && (u8_at 0 (v_l4 v) =? 135)
   then bytes_eqb rsrc (firstn 16 (skipn 8 (v_l4 v)))
   else bytes_eqb rsrc (v_dst v)) = true ->
  (if v_proto v =? 6 then
     match dec_tcp l4 with
     | Some t =>
       if strict
       then ports_ok (u16_at 0 (v_l4 v)) (u16_at 2 (v_l4 v)) (tcp_payload (v_l4 v))
                     (dt_sport t) (dt_dport t) (dt_payload t)
       else ports_ok_tcp (u16_at 0 (v_l4 v)) (u16_at 2 (v_l4 v))
                         (dt_sport t) (dt_dport t) (dt_payload t)
     | None => false
     end
   else if v_proto v =? 17 then
     match dec_udp l4 with
     | Some u => ports_ok (u16_at 0 (v_l4 v)) (u16_at 2 (v_l4 v)) (skipn 8 (v_l4 v))
                          (du_sport u) (du_dport u) (du_payload u)
     | None => false
     end
   else true) = true ->
  ok_C03_gen strict cfg f (Some (wrap_ip cfg f v rsrc hlim l4)) = true.
Proof.
  intros Hcfg Hf Hv Hh Hr Hsrcc Hports.
  pose proof (view_proto_lt _ _ _ Hf Hv) as Hp.
  destruct (dec_wrap_ip cfg f v rsrc hlim l4 Hcfg Hv Hp Hh Hr)
    as (e & i & He & Hi & Hdst & Hsrc & Hty & Hv4 & Hisrc & Hidst & Hpr & Hpl).
  unfold ok_C03_gen. rewrite He, Hsrc, Hdst, Hty, (view_ety _ _ _ Hv), Hi, Hv.
  change (firstn 6 (skipn 6 f)) with (slice 6 6 f).
  rewrite !bytes_eqb_refl, N.eqb_refl.
  assert (((if v_v4 v then 2048 else 34525) =? 2054) = false) as -> by (destruct (v_v4 v); reflexivity).
  rewrite Hv4, Hpr, Hidst, Hisrc, Hpl, eqb_reflx, N.eqb_refl, bytes_eqb_refl, Hsrcc, Hports.
  reflexivity.
Qed.

Lemma src_clause_plain v :
  (v_v4 v = true \/ (v_proto v =? 58) = false) ->
  (if negb (v_v4 v) && (v_proto v =? 58) && (u8_at 0 (v_l4 v) =? 135)
   then bytes_eqb (v_dst v) (firstn 16 (skipn 8 (v_l4 v)))
   else bytes_eqb (v_dst v) (v_dst v)) = true.
Proof.
  intros [-> | ->]; cbn [negb andb]; rewrite ?andb_false_r; apply bytes_eqb_refl.
Qed.

Lemma mirror_tcp (strict : bool) E cfg clk tb f v tb' ci' r evs :
  cfg_ok cfg = true -> env_ok E = true -> bytes_ok f = true ->
  (strict = true -> tbl_no_pending tb) ->
  view cfg f = Some v -> v_proto v = 6 ->
  tcp_repl E cfg clk tb (l3_ci f v) (v_l4 v) = Ok (tb', ci', Some r, evs) ->
  ok_C03_gen strict cfg f (Some (wrap_ip cfg f v (v_dst v) 64 (seal_tcp v r))) = true.
Proof.
  intros Hcfg HE Hf Hnp Hv Hp Ht.
  pose proof (view_l4_ok _ _ _ Hf Hv) as Hok.
  pose proof (u16_at_lt 0 _ Hok) as B0. pose proof (u16_at_lt 2 _ Hok) as B2.
  destruct strict.
  - destruct (tcp_repl_ports _ _ _ _ _ _ _ _ _ _ HE Hok (Hnp eq_refl) Ht) as (sp & sq & ak & fl & pl & -> & Hfl & Hsp).
    apply mirror_wrap; try assumption; [lia|apply (view_dst_len _ _ _ Hv)| |].
    + apply src_clause_plain. right. rewrite Hp. reflexivity.
    + rewrite Hp. change (6 =? 6) with true. cbv iota.
      unfold seal_tcp. rewrite dec_tcp_segment by exact Hfl.
      cbn [dt_sport dt_dport dt_payload]. unfold ports_ok.
      rewrite (N.mod_small (u16_at 0 (v_l4 v))) by exact B0. rewrite N.eqb_refl. cbn [andb].
      subst sp. destruct (stun_change_port (tcp_payload (v_l4 v)) && is_stun_success pl).
      * unfold wrap16. rewrite N.mod_mod by lia. apply N.eqb_refl.
      * rewrite N.mod_small by exact B2. apply N.eqb_refl.
  - destruct (tcp_repl_ports_weak _ _ _ _ _ _ _ _ _ _ Ht) as (sp & sq & ak & fl & pl & -> & Hfl & Hsp).
    apply mirror_wrap; try assumption; [lia|apply (view_dst_len _ _ _ Hv)| |].
    + apply src_clause_plain. right. rewrite Hp. reflexivity.
    + rewrite Hp. change (6 =? 6) with true. cbv iota.
      unfold seal_tcp. rewrite dec_tcp_segment by exact Hfl.
      cbn [dt_sport dt_dport dt_payload]. unfold ports_ok_tcp.
      rewrite (N.mod_small (u16_at 0 (v_l4 v))) by exact B0. rewrite N.eqb_refl. cbn [andb].
      destruct Hsp as [-> | [Hst ->]].
      * rewrite N.mod_small by exact B2. rewrite N.eqb_refl. reflexivity.
      * rewrite Hst. unfold wrap16. rewrite N.mod_mod by lia. rewrite N.eqb_refl. apply orb_true_r.
Qed.

Lemma mirror_udp (strict : bool) E cfg clk f v ci' r evs :
  cfg_ok cfg = true -> env_ok E = true -> bytes_ok f = true ->
  view cfg f = Some v -> v_proto v = 17 ->
  udp_repl E cfg clk (l3_ci f v) (v_l4 v) = Ok (ci', Some r, evs) ->
  ok_C03_gen strict cfg f (Some (wrap_ip cfg f v (v_dst v) 64 (seal_udp v r))) = true.
Proof.
  intros Hcfg HE Hf Hv Hp Ht.
  pose proof (view_l4_ok _ _ _ Hf Hv) as Hok.
  destruct (udp_repl_ports _ _ _ _ _ _ _ _ HE Hok Ht) as (sp & len & pl & -> & Hsp).
  apply mirror_wrap; try assumption; [lia|apply (view_dst_len _ _ _ Hv)| |].
  - apply src_clause_plain. right. rewrite Hp. reflexivity.
  - rewrite Hp. change (17 =? 6) with false. change (17 =? 17) with true. cbv iota.
    unfold seal_udp. rewrite dec_udp_datagram.
    cbn [du_sport du_dport du_payload]. unfold ports_ok.
    pose proof (u16_at_lt 0 _ Hok) as B0. pose proof (u16_at_lt 2 _ Hok) as B2.
    rewrite (N.mod_small (u16_at 0 (v_l4 v))) by exact B0. rewrite N.eqb_refl. cbn [andb].
    subst sp. destruct (stun_change_port (skipn 8 (v_l4 v)) && is_stun_success pl).
    + unfold wrap16. rewrite N.mod_mod by lia. apply N.eqb_refl.
    + rewrite N.mod_small by exact B2. apply N.eqb_refl.
Qed.

Lemma ports_clause_none (strict : bool) v l4 :
  (v_proto v =? 6) = false -> (v_proto v =? 17) = false ->
  (if v_proto v =? 6 then
     match dec_tcp l4 with
     | Some t =>
       if strict
       then ports_ok (u16_at 0 (v_l4 v)) (u16_at 2 (v_l4 v)) (tcp_payload (v_l4 v))
                     (dt_sport t) (dt_dport t) (dt_payload t)
       else ports_ok_tcp (u16_at 0 (v_l4 v)) (u16_at 2 (v_l4 v))
                         (dt_sport t) (dt_dport t) (dt_payload t)
     | None => false
     end
   else if v_proto v =? 17 then
     match dec_udp l4 with
     | Some u => ports_ok (u16_at 0 (v_l4 v)) (u16_at 2 (v_l4 v)) (skipn 8 (v_l4 v))
                          (du_sport u) (du_dport u) (du_payload u)
     | None => false
     end
   else true) = true.
Proof. intros -> ->. reflexivity. Qed.

Lemma mirror_l3 (strict : bool) E cfg clk tb f v tb' rf :
  cfg_ok cfg = true -> env_ok E = true -> bytes_ok f = true ->
  (strict = true -> tbl_no_pending tb) -> view cfg f = Some v ->
  l3_reply E cfg clk tb f v = Ok (tb', Some rf) -> ok_C03_gen strict cfg f (Some rf) = true.
Proof.
  intros Hcfg HE Hf Hnp Hv.
  pose proof (view_dst_len _ _ _ Hv) as Hdl.
  unfold l3_reply.
  destruct (v_v4 v) eqn:Hv4.
  - (* IPv4 *)
    destruct (v_proto v =? 1) eqn:P1.
    { destruct (length (v_l4 v) <? 4)%nat; [discriminate|].
      destruct (icmpv4_repl _ _) as [[x|] ev]; [|discriminate].
      intros H. take_reply H. apply N.eqb_eq in P1.
      apply mirror_wrap; try assumption; [lia|rewrite Hv4; exact Hdl| |].
      - apply src_clause_plain. left. exact Hv4.
      - apply ports_clause_none; rewrite P1; reflexivity. }
    destruct (v_proto v =? 6) eqn:P6.
    { destruct (length (v_l4 v) <? 20)%nat; [discriminate|].
      destruct (tcp_repl _ _ _ _ _ _) as [[[[tb2 ci2] [seg|]] evs2]|s] eqn:Ht; try discriminate.
      intros H. take_reply H. apply N.eqb_eq in P6. eapply mirror_tcp; eassumption. }
    destruct (v_proto v =? 17) eqn:P17; [|discriminate].
    destruct (length (v_l4 v) <? 8)%nat; [discriminate|].
    destruct (udp_repl _ _ _ _ _) as [[[ci2 [seg|]] evs2]|s] eqn:Ht; try discriminate.
    destruct (65535 <? lenN seg); [discriminate|].
    intros H. take_reply H. apply N.eqb_eq in P17. eapply mirror_udp; eassumption.
  - (* IPv6 *)
    destruct (v_proto v =? 58) eqn:P58.
    { destruct (length (v_l4 v) <? 4)%nat eqn:Hl4; [discriminate|].
      apply ltb_false_le in Hl4. apply N.eqb_eq in P58.
      assert ((v_proto v =? 6) = false /\ (v_proto v =? 17) = false) as [P6 P17]
          by (rewrite P58; split; reflexivity).
      unfold icmpv6_repl. rewrite (l3_ci_dst6 f v Hv4).
      destruct (u8_at 1 (v_l4 v) =? 0); cbn [negb]; [|discriminate].
      destruct (u8_at 0 (v_l4 v) =? 135) eqn:E135.
      - destruct (length (v_l4 v) <? 24)%nat eqn:Hl24; [discriminate|].
        apply ltb_false_le in Hl24.
        assert (length (slice 8 16 (v_l4 v)) = 16%nat) as Ht by (apply slice_length; lia).
        match goal with |- context [if ?c then _ else _] => destruct c end; [discriminate|].
        intros H. take_reply H.
        apply mirror_wrap; try assumption;
          [destruct (_ =? 136); lia | rewrite Hv4; exact Ht | | apply ports_clause_none; assumption].
        rewrite Hv4, P58, E135. cbn [negb andb]. change (58 =? 58) with true. cbv iota.
        apply bytes_eqb_refl.
      - destruct (u8_at 0 (v_l4 v) =? 128); [|discriminate].
        match goal with |- context [if ?c then _ else _] => destruct c end; [discriminate|].
        intros H. take_reply H.
        apply mirror_wrap; try assumption;
          [destruct (_ =? 136); lia | rewrite Hv4; exact Hdl | | apply ports_clause_none; assumption].
        rewrite E135, andb_false_r. apply bytes_eqb_refl. }
    destruct (v_proto v =? 6) eqn:P6.
    { destruct (length (v_l4 v) <? 20)%nat; [discriminate|].
      destruct (tcp_repl _ _ _ _ _ _) as [[[[tb2 ci2] [seg|]] evs2]|s] eqn:Ht; try discriminate.
      intros H. take_reply H. apply N.eqb_eq in P6. eapply mirror_tcp; eassumption. }
    destruct (v_proto v =? 17) eqn:P17; [|discriminate].
    destruct (length (v_l4 v) <? 8)%nat; [discriminate|].
    destruct (udp_repl _ _ _ _ _) as [[[ci2 [seg|]] evs2]|s] eqn:Ht; try discriminate.
    intros H. take_reply H. apply N.eqb_eq in P17. eapply mirror_udp; eassumption.
Qed.

Lemma mirror_arp (strict : bool) cfg f x :
  cfg_ok cfg = true -> (length f <? 14)%nat = false -> (u16_at 12 f =? 2054) = true ->
  ok_C03_gen strict cfg f (Some (eth_frame (slice 6 6 f) (c_mac cfg) 2054 x)) = true.
Proof.
  intros Hcfg Hlen Ea. apply ltb_false_le in Hlen.
  assert (length (slice 6 6 f) = 6%nat) as Hsm by (apply slice_length; lia).
  unfold ok_C03_gen. rewrite dec_eth_frame by (try apply cfg_ok_mac; assumption || lia).
  cbn [de_src de_dst de_type]. change (firstn 6 (skipn 6 f)) with (slice 6 6 f).
  rewrite !bytes_eqb_refl. apply N.eqb_eq in Ea. rewrite Ea. reflexivity.
Qed.

Theorem mirror_gen (strict : bool) E cfg clk tb f tb' r evs :
  cfg_ok cfg = true -> env_ok E = true -> bytes_ok f = true ->
  (strict = true -> tbl_no_pending tb) ->
  reply E cfg clk tb f = Ok (tb', r, evs) -> ok_C03_gen strict cfg f r = true.
Proof.
  intros Hcfg HE Hf Hnp Hr. destruct r as [rf|]; [|reflexivity].
  apply reply_factor_ok in Hr. unfold reply_spec in Hr.
  destruct (length f <? 14)%nat eqn:Hlen; [discriminate|].
  destruct (auth_mac cfg (slice 0 6 f)); cbn [negb] in Hr; [|discriminate].
  destruct (u16_at 12 f =? 2054) eqn:Ea.
  - destruct (length (skipn 14 f) <? 28)%nat; [discriminate|].
    destruct (arp_repl cfg (skipn 14 f)) as [[x|] ev]; [|discriminate].
    take_reply Hr. apply mirror_arp; assumption.
  - destruct (view cfg f) as [v|] eqn:Hv; [|discriminate].
    eapply mirror_l3; eassumption.
Qed.

(* every table: TCP ports read without looking at the request *)
Theorem mirror E cfg clk tb f tb' r evs :
  cfg_ok cfg = true -> env_ok E = true -> bytes_ok f = true ->
  reply E cfg clk tb f = Ok (tb', r, evs) -> ok_C03 cfg f r = true.
Proof.
  intros Hcfg HE Hf Hr. apply (mirror_gen false E cfg clk tb f tb' r evs Hcfg HE Hf); [discriminate|exact Hr].
Qed.

(* no flow has bytes pending: TCP ports read against the answered segment, as for UDP *)
Theorem mirror_strict E cfg clk tb f tb' r evs :
  cfg_ok cfg = true -> env_ok E = true -> bytes_ok f = true ->
  (forall k tc, tbl_find k tb = Some tc -> t_pending tc = []) ->
  reply E cfg clk tb f = Ok (tb', r, evs) -> ok_C03_strict cfg f r = true.
Proof.
  intros Hcfg HE Hf Hnp Hr. apply (mirror_gen true E cfg clk tb f tb' r evs Hcfg HE Hf); [intros _; exact Hnp|exact Hr].
Qed.
