(* C15Sound.v -- the request reader of Spec/RefStun.v is sound: what it accepts is a
   well-formed message whose serialisation has the payload's header and declared length
   (only the attribute padding bytes, which RFC 5389 leaves free, may differ). *)
From MS Require Import Proofs.Tactics Spec.RefStun Proofs.C15Ref Stun Proofs.C15Walk Proofs.C15Model.

Lemma forallb_cons' {A} (f : A -> bool) (a : A) (l : list A) : forallb f (a :: l) = f a && forallb f l.
Proof. reflexivity. Qed.

Lemma walk_wf (fuel : nat) : forall (v : bytes) (l : list attr) (st : tlv_status),
  bytes_ok v = true -> walk_attrs fuel v = (l, st) -> forallb attr_wf l = true.
Proof.
  induction fuel as [|fuel IH]; intros v l st Hok H.
  { destruct v; cbn in H; inversion H; reflexivity. }
  destruct v as [|x v0]; [rewrite walk_nil in H; inversion H; reflexivity|].
  assert (x :: v0 <> []) as Hne by discriminate. remember (x :: v0) as v eqn:Ev. clear Ev.
  rewrite (walk_unfold fuel v Hne) in H. cbv zeta in H.
  destruct (length v <? 4)%nat; [inversion H; reflexivity|].
  destruct (length (skipn 4 v) <? N.to_nat (u16_at 2 v))%nat eqn:Hov; [inversion H; reflexivity|].
  destruct (attr_value_ok _ _) eqn:Hvo; cbn [negb] in H; [|inversion H; reflexivity].
  assert (attr_wf (u16_at 0 v, firstn (N.to_nat (u16_at 2 v)) (skipn 4 v)) = true) as Hwf.
  { unfold attr_wf. cbn [fst snd]. rewrite Hvo.
    pose proof (u16_at_lt 0 v Hok). pose proof (u16_at_lt 2 v Hok).
    assert (bytes_ok (firstn (N.to_nat (u16_at 2 v)) (skipn 4 v)) = true) as -> by (apply bytes_ok_firstn, bytes_ok_skipn, Hok).
    assert (lenN (firstn (N.to_nat (u16_at 2 v)) (skipn 4 v)) <? 65536 = true) as ->.
    { unfold lenN. rewrite firstn_length. lia. }
    assert (u16_at 0 v <? 65536 = true) as -> by lia. reflexivity. }
  destruct (length (skipn 4 v) <? pad4n _)%nat.
  - apply pair_equal_spec in H; destruct H as [<- <-]. rewrite forallb_cons', Hwf. reflexivity.
  - destruct (walk_attrs fuel _) as [rest st'] eqn:Hw. apply pair_equal_spec in H; destruct H as [<- <-]. rewrite forallb_cons', Hwf. cbn [andb].
    apply (IH _ _ _ (bytes_ok_skipn _ _ (bytes_ok_skipn 4 v Hok)) Hw).
Qed.

Lemma walk_done_length (fuel : nat) : forall (v : bytes) (l : list attr),
  walk_attrs fuel v = (l, TlvDone) -> length (ser_attrs l) = length v.
Proof.
  induction fuel as [|fuel IH]; intros v l H.
  { destruct v; cbn in H; inversion H; reflexivity. }
  destruct v as [|x v0]; [rewrite walk_nil in H; inversion H; reflexivity|].
  assert (x :: v0 <> []) as Hne by discriminate. remember (x :: v0) as v eqn:Ev. clear Ev.
  rewrite (walk_unfold fuel v Hne) in H. cbv zeta in H.
  destruct (length v <? 4)%nat eqn:H4; [discriminate|].
  destruct (length (skipn 4 v) <? N.to_nat (u16_at 2 v))%nat eqn:Hov.
  { destruct (length v =? 4)%nat; discriminate. }
  destruct (negb _). { destruct (length v =? 4)%nat; discriminate. }
  destruct (length (skipn 4 v) <? pad4n _)%nat eqn:Hpad; [discriminate|].
  destruct (walk_attrs fuel _) as [rest st'] eqn:Hw. apply pair_equal_spec in H; destruct H as [<- ->].
  change (ser_attrs ((?a) :: rest)) with (ser_attr a ++ ser_attrs rest).
  rewrite app_length, ser_attr_length, (IH _ _ Hw). cbn [snd].
  rewrite firstn_length, !skipn_length in *. rewrite Nat.min_l by lia. lia.
Qed.

Lemma be16_bytes (a b : N) : a < 256 -> b < 256 -> be16 (a * 256 + b) = [a; b].
Proof. intros Ha Hb. unfold be16. f_equal; [lia|f_equal; lia]. Qed.

Theorem dec_stun_req_sound (p : bytes) (m : stun_msg) :
  bytes_ok p = true -> dec_stun_req p = Some m ->
  stun_wf m = true /\ firstn 20 (ser_stun m) = firstn 20 p /\ (length (ser_stun m) <= length p)%nat /\
  dec_stun_req (ser_stun m) = Some m.
Proof.
  intros Hok Hdec.
  destruct (dec_req_inv p m Hdec) as (Hdiag & Hcls & Hmeth & Htid & Hattrs & Hlen).
  (* what the diagnosis says *)
  unfold stun_diag_of in Hdiag.
  destruct (length p <? 20)%nat; [discriminate|].
  destruct (16384 <=? u16_at 0 p) eqn:Hty; [discriminate|].
  destruct (length p <? 20 + N.to_nat (u16_at 2 p))%nat eqn:Hfit; [discriminate|].
  fold (region_of p) in Hdiag.
  destruct (read_attrs (region_of p)) as [l st] eqn:Hw. cbn [snd] in Hdiag. cbn [fst] in Hattrs.
  inversion Hdiag; subst st. unfold read_attrs in Hw.
  assert (length (region_of p) = N.to_nat (u16_at 2 p)) as Hrl.
  { unfold region_of. rewrite firstn_length, skipn_length. lia. }
  assert (bytes_ok (region_of p) = true) as Hrok by (apply bytes_ok_firstn, bytes_ok_skipn, Hok).
  pose proof (walk_wf _ _ _ _ Hrok Hw) as Hlwf.
  pose proof (walk_done_length _ _ _ Hw) as Hll. rewrite Hrl in Hll.
  destruct (type_of_fields (u16_at 0 p) ltac:(lia)) as (Hc4 & Hm4 & Hback).
  pose proof (u16_at_lt 2 p Hok) as Hl16.
  assert (length (sm_tid m) = 16%nat) as Htl by (rewrite Htid; apply slice_length; lia).
  assert (stun_wf m = true) as Hwf.
  { unfold stun_wf. rewrite Hcls, Hmeth, Hattrs, Htl, Hlwf.
    assert (bytes_ok (sm_tid m) = true) as -> by (rewrite Htid; apply bytes_ok_slice, Hok).
    assert (lenN (ser_attrs l) <? 65536 = true) as -> by (unfold lenN; lia).
    assert (type_class (u16_at 0 p) <? 4 = true) as -> by lia.
    assert (type_method (u16_at 0 p) <? 4096 = true) as -> by lia. reflexivity. }
  split; [exact Hwf|].
  assert (length (ser_stun m) = (20 + N.to_nat (u16_at 2 p))%nat) as Hsl.
  { unfold ser_stun. rewrite !app_length, Hattrs, Htl. unfold be16. cbn [length]. lia. }
  split; [|split; [lia|]].
  - unfold ser_stun. rewrite Hcls, Hmeth, Hback, Hattrs, Htid.
    assert (lenN (ser_attrs l) = u16_at 2 p) as -> by (unfold lenN; lia).
    pose proof (u8_at_lt 0 p Hok). pose proof (u8_at_lt 1 p Hok).
    pose proof (u8_at_lt 2 p Hok). pose proof (u8_at_lt 3 p Hok).
    unfold u16_at. rewrite !be16_bytes by assumption.
    destruct p as [|p0 [|p1 [|p2 [|p3 rest]]]]; cbn [length] in Hlen; try lia.
    unfold u8_at, slice. cbn [nth app skipn]. cbn [length] in Hlen.
    change 20%nat with (S (S (S (S 16)))). rewrite !firstn_cons. do 4 f_equal.
    rewrite firstn_app. rewrite firstn_firstn.
    assert (length (firstn 16 rest) = 16%nat) as -> by (rewrite firstn_length; lia).
    rewrite Nat.sub_diag. cbn [firstn]. rewrite app_nil_r. reflexivity.
  - rewrite <- (app_nil_r (ser_stun m)). apply dec_stun_req_ser, Hwf.
Qed.
