(* Properties/C04.v -- every emitted frame is well-formed at every layer.
   This file only pins statements; the proofs are in Proofs/C04.v. *)
From MS Require Import L2 Spec.View Spec.RefDec Spec.C04 Proofs.C04.

(* For every environment, configuration, clock, table (= whatever happened before)
   and received frame: a frame that reply() emits decodes with the strict reference
   decoders and passes the C04 monitor [wf_frame]: Ethernet header; ARP payload of at
   least 28 bytes; IPv4 version/IHL, total length, DF only, TTL >= 1, header checksum;
   IPv6 version, payload length, hop limit >= 1; TCP data offset 5, checksum, non-zero
   window on SYN-ACK; UDP length, checksum (IPv4: zero or valid; IPv6: non-zero and
   valid); ICMP length and checksum; hop limit 255 on neighbour advertisements.
   The two hypotheses on the emitted frame (octets, and shorter than 64 KiB) are
   discharged in Proofs/ReplyBytes.v for received frames of at most 4096 bytes. *)
Theorem C04_wellformed :
  forall E cfg clk tb f tb' r evs,
    cfg_ok cfg = true -> bytes_ok f = true ->
    reply E cfg clk tb f = Ok (tb', Some r, evs) ->
    bytes_ok r = true -> (length r < 65536)%nat ->
    wf_frame r = true.
Proof. exact wellformed. Qed.

Print Assumptions C04_wellformed.
