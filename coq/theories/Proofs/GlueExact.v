(* Proofs/GlueExact.v -- the class predicates of the C16 / C15 monitors are not too coarse:
   on the current implementation every call in scope INSIDE [rpc_shadowed] is identified by
   nothing (UDP and TCP), and every magic-cookie request inside [stun_shadowed] over TCP is
   identified by nothing.  (The converse direction -- outside the class the payload is
   identified -- is Proofs/GlueC16.v / GlueC15.v.)  Hence the excluded classes are exactly
   the sets of in-scope requests the compiled matcher misses: excluding them hides no other
   behaviour, and every frame of the class fails the strict monitor for the known reason.

   Method: a third checker, [tbl_none_chk]: every payload compatible with the pattern is
   walked by the matcher without any match, and after the whole pattern the matcher is in a
   dead row (certificate [compute_dead], checked by [dead_closed]). *)
From Coq Require Import Lia.
From MS Require Import Proofs.Tactics Smack Rpc Stun Proto Spec.RefXdr Spec.RefStun Spec.AppView
     Spec.RefSig Spec.C10 Spec.C10Known Spec.C15 Spec.C16 Instance
     Proofs.SmackSeg Proofs.C10Sound Proofs.C10Dispatch Proofs.C10Current Proofs.C15Frame Proofs.C16Frame
     Proofs.GluePat Proofs.GlueC16 Proofs.GlueC15.

(* the pattern and the payload agree as far as both go *)
Fixpoint pcompat (pat : list cls) (p : bytes) : bool :=
  match pat, p with
  | [], _ => true
  | _, [] => true
  | c :: pr, b :: r => cls_mem c b && pcompat pr r
  end.

Lemma pmatch_pcompat pat : forall p, pmatch false pat p = true -> pcompat pat p = true /\ (length pat <= length p)%nat.
Proof.
  induction pat as [|c pr IH]; intros p H; [split; [reflexivity | cbn; lia]|].
  destruct p as [|b r]; cbn [pmatch] in H; [discriminate|].
  apply andb_true_iff in H. destruct H as [H1 H2]. destruct (IH r H2) as [A B].
  cbn [pcompat length]. rewrite H1, A. split; [reflexivity | lia].
Qed.

Fixpoint tbl_none_chk (t : smack) (Dd : list bool) (pat : list cls) (rows : list N) : bool :=
  match pat with
  | [] => forallb (deadb Dd) rows
  | c :: pr =>
    let bs := cls_bytes c in
    forallb (fun r => forallb (fun b => match m_step t r b with MAcc _ => false | MCont _ => true end) bs) rows &&
    tbl_none_chk t Dd pr (mnext t rows bs)
  end.

Lemma tbl_none_sound t Dd pat : dead_closed t Dd = true ->
  forall rows, tbl_none_chk t Dd pat rows = true ->
  forall row p, In row rows -> bytes_ok p = true -> pcompat pat p = true ->
    exists r', m_run t row p = MCont r' /\ ((length pat <= length p)%nat -> deadb Dd r' = true).
Proof.
  intros Hdc. induction pat as [|c pr IH]; intros rows Hc row p Hs Hp Hm.
  - cbn [tbl_none_chk] in Hc. rewrite forallb_forall in Hc.
    destruct (dead_run t Dd Hdc p row (Hc row Hs) Hp) as (r' & Hr & Hd). exists r'. split; [exact Hr | intros _; exact Hd].
  - destruct p as [|b r].
    + exists row. split; [reflexivity|]. cbn [length]. lia.
    + cbn [pcompat] in Hm. apply andb_true_iff in Hm. destruct Hm as [Hcb Hm].
      cbn [bytes_ok forallb] in Hp. apply andb_true_iff in Hp. destruct Hp as [Hb Hr].
      unfold byte_ok in Hb. apply N.ltb_lt in Hb.
      cbn [tbl_none_chk] in Hc. apply andb_true_iff in Hc. destruct Hc as [Hc1 Hc2].
      rewrite forallb_forall in Hc1. specialize (Hc1 row Hs). rewrite forallb_forall in Hc1.
      pose proof (cls_bytes_in c b Hb Hcb) as Hin. specialize (Hc1 b Hin).
      cbn [m_run]. destruct (m_step t row b) as [r1 | j] eqn:Hstep; [|discriminate Hc1].
      destruct (IH _ Hc2 r1 r (mnext_in t rows _ row b r1 Hs Hin Hstep) Hr Hm) as (r' & Hrun & Hd).
      exists r'. split; [exact Hrun|]. cbn [length]. intros Hl. apply Hd. lia.
Qed.

Theorem tbl_none_init t Dd pat :
  smack_ok t = true -> tbl_pre t = true -> dead_closed t Dd = true ->
  tbl_none_chk t Dd pat [BASE_STATE] = true ->
  forall p, bytes_ok p = true -> pcompat pat p = true ->
    tcp_first_id_tbl t p = None /\ ((length pat <= length p)%nat -> udp_id_tbl t p = None).
Proof.
  intros Hok Hpre Hdc Hc p Hp Hm.
  unfold tbl_pre in Hpre. rewrite !andb_true_iff in Hpre. destruct Hpre as [[Hsz H0] H1].
  apply N.leb_le in Hsz. apply N.ltb_lt in H0. apply N.ltb_lt in H1.
  destruct (tbl_none_sound t Dd pat Hdc _ Hc BASE_STATE p (or_introl eq_refl) Hp Hm) as (r' & Hr & Hd).
  rewrite (udp_id_m_run t Hok Hsz p H0 H1), (tcp_id_m_run t Hok Hsz p H0 H1), Hr.
  split; [reflexivity|]. intros Hl. exact (proj2 (dead_spec t Dd Hdc r' (Hd Hl))).
Qed.

(* ---------- the current table ---------- *)
Definition cur_dead : list bool := compute_dead cur_tbl.
Lemma cur_dead_closed : dead_closed cur_tbl cur_dead = true.
Proof. vm_compute. reflexivity. Qed.

(* calls in scope inside [rpc_shadowed] *)
Definition pat_rpc_udp_shadowed : list cls := CIn SHADOW_FIRST :: tl pat_rpc_udp.
Definition pat_rpc_tcp_shadowed : list cls :=
  [CNot SHADOW_FIRST; CAny; CAny; CAny; CLit 0] ++ skipn 5 pat_rpc_tcp.

Lemma chk_rpc_udp_shadowed : tbl_none_chk cur_tbl cur_dead pat_rpc_udp_shadowed [BASE_STATE] = true.
Proof. vm_compute. reflexivity. Qed.
Lemma chk_rpc_tcp_shadowed : tbl_none_chk cur_tbl cur_dead pat_rpc_tcp_shadowed [BASE_STATE] = true.
Proof. vm_compute. reflexivity. Qed.

Lemma in_scope_shadowed_udp_pat p c :
  bytes_ok p = true -> scope_call false p = Some c -> rpc_shadowed false p = true ->
  pmatch false pat_rpc_udp_shadowed p = true.
Proof.
  intros Hok Hsc Hsh. unfold scope_call in Hsc.
  destruct (dec_call p) as [[c' rest]|] eqn:Hdec; [|discriminate Hsc].
  destruct (call_in_scope c') eqn:Hs; [|discriminate Hsc].
  destruct (dec_call_head p c' rest Hok Hdec Hs) as (x0 & x1 & x2 & x3 & rv & g3 & v0 & v1 & v2 & v3 & pc & q & ->).
  unfold rpc_shadowed in Hsh. cbn [nth app andb] in Hsh. rewrite orb_false_r in Hsh.
  unfold pat_rpc_udp_shadowed, pat_rpc_udp. cbn [app tl]. rewrite pmatch_cons.
  change (cls_mem (CIn SHADOW_FIRST) x0) with (shadow_first x0). rewrite Hsh.
  cbn [negb andb pmatch cls_mem N.eqb Pos.eqb]. apply pmatch_nil_prefix.
Qed.

Lemma in_scope_shadowed_tcp_pat p c :
  bytes_ok p = true -> scope_call true p = Some c -> rpc_shadowed true p = true ->
  pmatch false pat_rpc_tcp_shadowed p = true.
Proof.
  intros Hok Hsc Hsh. unfold scope_call in Hsc.
  destruct (strip_mark p) as [body|] eqn:Hsm; [|discriminate Hsc].
  destruct (dec_call body) as [[c' [|? ?]]|] eqn:Hdec; try discriminate Hsc.
  destruct (call_in_scope c') eqn:Hs; [|discriminate Hsc].
  destruct (strip_mark_head p body Hok Hsm) as (m0 & m1 & m2 & m3 & -> & Hm0).
  assert (Hbody : bytes_ok body = true).
  { rewrite bytes_ok_app in Hok. apply andb_true_iff in Hok. exact (proj2 Hok). }
  destruct (dec_call_head body c' [] Hbody Hdec Hs) as (x0 & x1 & x2 & x3 & rv & g3 & v0 & v1 & v2 & v3 & pc & q & ->).
  assert (Hsf : shadow_first m0 = false).
  { unfold shadow_first. cbn [existsb]. rewrite !orb_false_iff. repeat split; try reflexivity; apply N.eqb_neq; lia. }
  unfold rpc_shadowed in Hsh. cbn [nth app andb] in Hsh. rewrite Hsf in Hsh. cbn [orb] in Hsh.
  apply N.eqb_eq in Hsh. subst x0.
  unfold pat_rpc_tcp_shadowed, pat_rpc_tcp. cbn [app skipn]. rewrite pmatch_cons, shadow_first_mem, Hsf.
  cbn [negb andb pmatch cls_mem N.eqb Pos.eqb]. apply pmatch_nil_prefix.
Qed.

(* C16: inside the class, in scope => not identified at all *)
Theorem rpc_shadowed_unidentified tcp p c :
  bytes_ok p = true -> scope_call tcp p = Some c -> rpc_shadowed tcp p = true ->
  c16_id the_env tcp p = None.
Proof.
  intros Hok Hsc Hsh. destruct tcp; unfold c16_id.
  - destruct (pmatch_pcompat _ _ (in_scope_shadowed_tcp_pat p c Hok Hsc Hsh)) as [Hc _].
    rewrite tcp_first_id_tbl_eq.
    exact (proj1 (tbl_none_init cur_tbl cur_dead _ cur_smack_ok cur_pre cur_dead_closed chk_rpc_tcp_shadowed p Hok Hc)).
  - destruct (pmatch_pcompat _ _ (in_scope_shadowed_udp_pat p c Hok Hsc Hsh)) as [Hc Hl].
    rewrite udp_id_tbl_eq.
    exact (proj2 (tbl_none_init cur_tbl cur_dead _ cur_smack_ok cur_pre cur_dead_closed chk_rpc_udp_shadowed p Hok Hc) Hl).
Qed.

(* C16: on calls in scope, [rpc_shadowed] is EXACTLY "not identified as ONC-RPC" *)
Corollary rpc_shadowed_exact tcp p c :
  bytes_ok p = true -> scope_call tcp p = Some c ->
  (rpc_shadowed tcp p = true <-> c16_id the_env tcp p <> Some (c16_proto tcp)).
Proof.
  intros Hok Hsc. split.
  - intros Hsh. rewrite (rpc_shadowed_unidentified tcp p c Hok Hsc Hsh). discriminate.
  - intros Hn. destruct (rpc_shadowed tcp p) eqn:Hsh; [reflexivity|]. exfalso. apply Hn.
    apply (rpc_ident_current tcp p Hok). unfold c16_demands. rewrite Hsc, Hsh. reflexivity.
Qed.

(* C15 over TCP: a magic-cookie request whose length field has a zero high byte is never
   identified on a first segment, whatever follows *)
Definition pat_stun_shadowed_tcp : list cls :=
  [CLit 0; CLit 1; CLit 0; CAny; CLit 33; CLit 18; CLit 164; CLit 66] ++ repeat CAny 21.

Lemma chk_stun_shadowed_tcp : tbl_none_chk cur_tbl cur_dead pat_stun_shadowed_tcp [BASE_STATE] = true.
Proof. vm_compute. reflexivity. Qed.

Lemma pcompat_any n : forall p, pcompat (repeat CAny n) p = true.
Proof. induction n as [|n IH]; intros [|b r]; try reflexivity. cbn [repeat pcompat cls_mem andb]. apply IH. Qed.

Theorem stun_shadowed_tcp_unidentified p :
  bytes_ok p = true -> stun_shadowed true p = true -> tcp_first_id the_env p = None.
Proof.
  intros Hok Hsh. unfold stun_shadowed in Hsh. cbn [orb] in Hsh. rewrite andb_true_r in Hsh.
  apply andb_true_iff in Hsh. destruct Hsh as [Hm H2]. apply N.eqb_eq in H2.
  unfold sig_magic in Hm. rewrite !andb_true_iff in Hm. destruct Hm as [[Hl H01] Hck].
  apply Nat.leb_le in Hl.
  do 8 (destruct p as [|? p]; [cbn [length] in Hl; lia|]).
  cbn [firstn] in H01. unfold slice in Hck. cbn [skipn firstn] in Hck.
  apply bytes_eqb_eq in H01, Hck. injection H01 as -> ->. injection Hck as -> -> -> ->.
  cbn [nth] in H2. subst.
  rewrite tcp_first_id_tbl_eq.
  apply (tbl_none_init cur_tbl cur_dead _ cur_smack_ok cur_pre cur_dead_closed chk_stun_shadowed_tcp _ Hok).
  unfold pat_stun_shadowed_tcp. cbn [app pcompat cls_mem N.eqb Pos.eqb andb]. apply pcompat_any.
Qed.

Corollary stun_shadowed_tcp_exact p :
  bytes_ok p = true -> stun_published true p = true ->
  (stun_shadowed true p = true <-> tcp_first_id the_env p <> Some PROTO_STUN).
Proof.
  intros Hok Hpub. split.
  - intros Hsh. rewrite (stun_shadowed_tcp_unidentified p Hok Hsh). discriminate.
  - intros Hn. destruct (stun_shadowed true p) eqn:Hsh; [reflexivity|]. exfalso. apply Hn.
    apply (stun_published_identified true p Hok). rewrite Hpub, Hsh. reflexivity.
Qed.
