(* Properties/C17.v -- SMB1/SMB2: negotiate / session-setup replies framed, correlated,
   consistent.  Statements only; proofs in Proofs/C17*.v; the specification (reference
   codec, dialect selection, classification of payloads, monitors) is Spec/RefSmb.v +
   Spec/C17.v.
   Requests are STRUCTURED: [t; f; a; b] ++ ser_smb{1,2}_hdr h ++ ser_<body> q ++ tail, for
   every header (all ids, flag and status values), every dialect list / blob the wire
   format allows (boolean [*_wf] hypotheses), any trailing bytes, and ANY four bytes in
   the place of the NetBIOS header (the responder never looks at them: in particular every
   announced length, [nbt_req_hdr len], is covered).
   The two security blobs are parameters constrained by [blob_ok] (discharged on the data
   of the implementation: C17_blob_ok_the_env).  Identification by the compiled matcher is
   a hypothesis of the proto-level theorems (C10's subject).
   The empty-security-blob defect found with this property ("Session-Setup requests are
   answered" was false for SecurityBlobLength / SecurityBufferLength 0) has been repaired
   in the implementation (commit 5dca3e9) and in the model: the session-setup theorems
   now hold for ALL blob lengths (C17_smb1_setup_all_blobs, C17_smb2_setup_all_blobs) and
   the monitor has no excluded class. *)
From MS Require Import Smb Proto Spec.RefSmb Spec.C17 Spec.AppView Instance
  Proofs.C17Lib Proofs.C17Smb1 Proofs.C17Smb2 Proofs.C17Mon Proofs.C17Stmts Proofs.C17Ref Proofs.C17Examples.
Open Scope N_scope.

(* ---- the reference readers read the reference encoders back (headers) ---- *)
Theorem C17_ref_smb1_hdr_roundtrip :
  forall h t, smb1_hdr_wf h = true -> rd_smb1_hdr (ser_smb1_hdr h ++ t) = Some (h, t).
Proof. exact rd_smb1_hdr_ser. Qed.
Theorem C17_ref_smb2_hdr_roundtrip :
  forall h t, smb2_hdr_wf h = true -> rd_smb2_hdr (ser_smb2_hdr h ++ t) = Some (h, t).
Proof. exact rd_smb2_hdr_ser. Qed.

(* the classification used by the monitors is exact: a classified payload IS the encoding
   of the structured request it is classified as, followed by trailing bytes *)
Theorem C17_classify_sound :
  forall p rq, classify p = Some rq ->
    exists t f a b rest, p = [t; f; a; b] ++ rest /\ rq_shape rest rq.
Proof. exact classify_sound. Qed.

(* ... and the request bodies; the classification is complete (with C17_classify_sound: exact) *)
Theorem C17_ref_neg1_req_roundtrip :
  forall ds tail, neg1_req_wf ds = true -> rd_neg1_req (ser_neg1_req ds ++ tail) = Some (ds, tail).
Proof. exact rd_neg1_req_ser. Qed.
Theorem C17_ref_setup1_req_roundtrip :
  forall q tail, setup1_req_wf q = true -> rd_setup1_req (ser_setup1_req q ++ tail) = Some (q, tail).
Proof. exact rd_setup1_req_ser. Qed.
Theorem C17_ref_neg2_req_roundtrip :
  forall q tail, neg2_req_wf q = true -> rd_neg2_req (ser_neg2_req q ++ tail) = Some (q, tail).
Proof. exact rd_neg2_req_ser. Qed.
Theorem C17_ref_setup2_req_roundtrip :
  forall q tail, setup2_req_wf q = true -> rd_setup2_req (ser_setup2_req q ++ tail) = Some (q, tail).
Proof. exact rd_setup2_req_ser. Qed.

Theorem C17_classify_complete_neg1 :
  forall h ds tail len,
    smb1_hdr_wf h = true -> neg1_req_wf ds = true -> smb1_is_request h = true ->
    sh1_command h = SMB_COM_NEGOTIATE ->
    lenN (ser_smb1_hdr h ++ ser_neg1_req ds) <= len -> len < 65536 ->
    classify (nbt_req_hdr len ++ ser_smb1_hdr h ++ ser_neg1_req ds ++ tail) = Some (RqNeg1 h ds).
Proof. exact classify_neg1. Qed.
Theorem C17_classify_complete_setup1 :
  forall h q tail len,
    smb1_hdr_wf h = true -> setup1_req_wf q = true -> smb1_is_request h = true ->
    sh1_command h = SMB_COM_SESSION_SETUP_ANDX ->
    lenN (ser_smb1_hdr h ++ ser_setup1_req q) <= len -> len < 65536 ->
    classify (nbt_req_hdr len ++ ser_smb1_hdr h ++ ser_setup1_req q ++ tail) = Some (RqSetup1 h q).
Proof. exact classify_setup1. Qed.
Theorem C17_classify_complete_neg2 :
  forall h q tail len,
    smb2_hdr_wf h = true -> neg2_req_wf q = true -> smb2_is_request h = true ->
    sh2_command h = SMB2_NEGOTIATE ->
    lenN (ser_smb2_hdr h ++ ser_neg2_req q) <= len -> len < 65536 ->
    classify (nbt_req_hdr len ++ ser_smb2_hdr h ++ ser_neg2_req q ++ tail) = Some (RqNeg2 h q).
Proof. exact classify_neg2. Qed.
Theorem C17_classify_complete_setup2 :
  forall h q tail len,
    smb2_hdr_wf h = true -> setup2_req_wf q = true -> smb2_is_request h = true ->
    sh2_command h = SMB2_SESSION_SETUP ->
    lenN (ser_smb2_hdr h ++ ser_setup2_req q) <= len -> len < 65536 ->
    classify (nbt_req_hdr len ++ ser_smb2_hdr h ++ ser_setup2_req q ++ tail) = Some (RqSetup2 h q).
Proof. exact classify_setup2. Qed.

(* what "selected by the server's preference" means *)
Theorem C17_select2_meaning :
  forall ds d, select2 ds = Some d ->
    In d SERVER_DIALECTS2 /\ offered2 d ds = true /\
    exists before after, SERVER_DIALECTS2 = before ++ d :: after /\
                         forallb (fun x => negb (offered2 x ds)) before = true.
Proof. exact (first_offered2_spec SERVER_DIALECTS2). Qed.
Theorem C17_select2_none_meaning :
  forall ds, select2 ds = None -> forallb (fun x => negb (offered2 x ds)) SERVER_DIALECTS2 = true.
Proof. exact (first_offered2_none SERVER_DIALECTS2). Qed.

(* ---- per-combinator lemmas: a whole little-endian field folded through an arbitrary
   step function yields the value and resets the counter ---- *)
Theorem C17_combinator_read_ule :
  forall (S : Type) (step : S -> N -> res S) (get_d : S -> dis) (get_v : S -> N) (upd : S -> N -> dis -> S)
         (st next size width : N),
    (forall s b, d_st (get_d s) = st ->
       step s b = do r <- read_ule (get_d s) b (get_v s) next size width; Ok (upd s (fst r) (snd r))) ->
    (forall s v d, get_d (upd s v d) = d) -> (forall s v d, get_v (upd s v d) = v) ->
    (forall s v d v' d', upd (upd s v d) v' d' = upd s v' d') -> (forall s, upd s (get_v s) (get_d s) = s) ->
    size <= 8 -> width = SmbSafe.pow8 size ->
    forall bs rest s,
      N.of_nat (length bs) = size -> 0 < size -> bytes_ok bs = true ->
      get_d s = {| d_i := 0; d_st := st |} -> get_v s = 0 ->
      fold_res step (bs ++ rest) s = fold_res step rest (upd s (le_val bs) (d_next next)).
Proof. exact @fold_field. Qed.
Theorem C17_le_val_le16 : forall x, x < 65536 -> le_val (le16 x) = x.
Proof. exact le_val_le16. Qed.
Theorem C17_le_val_le32 : forall x, x < 4294967296 -> le_val (le32 x) = x.
Proof. exact le_val_le32. Qed.
Theorem C17_le_val_le64 : forall x, x < W64 -> le_val (le64 x) = x.
Proof. exact le_val_le64. Qed.

(* ---- parse: the byte-at-a-time dissector reaches End with exactly the request's fields ---- *)
Theorem C17_smb1_negotiate_parse :
  forall h d ds tail t f a b,
    smb1_hdr_wf h = true -> neg1_req_wf (d :: ds) = true ->
    smb1_is_request h = true -> sh1_command h = SMB_COM_NEGOTIATE ->
    exists s hs n,
      fold_res (nbt_byte hdr1 hdr1_new hdr1_byte)
        ([t; f; a; b] ++ ser_smb1_hdr h ++ ser_neg1_req (d :: ds) ++ tail) (nbt_new hdr1) = Ok s /\
      d_st (nb_d hdr1 s) = NB_END /\ nb_type hdr1 s = t /\ nb_pay hdr1 s = Some hs /\
      hdr1_holds hs h /\ h1_pay hs = Some (P1Neg n) /\
      d_st (n1_d n) = N1_END /\ n1_wc n = 0 /\ n1_bc n = lenN (ser_dialects (d :: ds)) /\
      n1_dialects n = d :: ds.
Proof. exact smb1_negotiate_parse_fields. Qed.

Theorem C17_smb1_setup_parse :
  forall h q tail t f a b,
    smb1_hdr_wf h = true -> setup1_req_wf q = true ->
    smb1_is_request h = true -> sh1_command h = SMB_COM_SESSION_SETUP_ANDX ->
    exists s hs n,
      fold_res (nbt_byte hdr1 hdr1_new hdr1_byte)
        ([t; f; a; b] ++ ser_smb1_hdr h ++ ser_setup1_req q ++ tail) (nbt_new hdr1) = Ok s /\
      d_st (nb_d hdr1 s) = NB_END /\ nb_type hdr1 s = t /\ nb_pay hdr1 s = Some hs /\
      hdr1_holds hs h /\ h1_pay hs = Some (P1Setup n) /\
      d_st (s1_d n) = S1_END /\ s1_wc n = 12 /\ s1_andx_cmd n = sq1_andx_command q /\
      s1_andx_off n = sq1_andx_offset q /\ s1_max_buf n = sq1_max_buffer q /\ s1_max_mpx n = sq1_max_mpx q /\
      s1_vc n = sq1_vc_number q /\ s1_sess_key n = sq1_session_key q /\ s1_sec_len n = lenN (sq1_blob q) /\
      s1_caps n = sq1_capabilities q /\ s1_bc n = lenN (sq1_blob q) + lenN (sq1_strings q).
Proof. exact smb1_setup_parse_fields. Qed.

Theorem C17_smb2_negotiate_parse :
  forall h q tail t f a b,
    smb2_hdr_wf h = true -> neg2_req_wf q = true ->
    smb2_is_request h = true -> sh2_command h = SMB2_NEGOTIATE ->
    exists s hs n,
      fold_res (nbt_byte hdr2 hdr2_new hdr2_byte)
        ([t; f; a; b] ++ ser_smb2_hdr h ++ ser_neg2_req q ++ tail) (nbt_new hdr2) = Ok s /\
      d_st (nb_d hdr2 s) = NB_END /\ nb_type hdr2 s = t /\ nb_pay hdr2 s = Some hs /\
      hdr2_holds hs h /\ h2_pay hs = Some (P2Neg n) /\
      d_st (n2_d n) = N2_END /\ n2_structure_size n = 36 /\
      n2_dialect_count n = N.of_nat (length (nq2_dialects q)) /\ n2_read n = N.of_nat (length (nq2_dialects q)) /\
      n2_security_mode n = nq2_security_mode q /\ n2_capabilities n = nq2_capabilities q /\
      n2_client_guid n = nq2_client_guid q /\
      (forall v, set_mem v (n2_dialects n) = offered2 v (nq2_dialects q)).
Proof. exact smb2_negotiate_parse_fields. Qed.

Theorem C17_smb2_setup_parse :
  forall h q tail t f a b,
    smb2_hdr_wf h = true -> setup2_req_wf q = true ->
    smb2_is_request h = true -> sh2_command h = SMB2_SESSION_SETUP ->
    exists s hs n,
      fold_res (nbt_byte hdr2 hdr2_new hdr2_byte)
        ([t; f; a; b] ++ ser_smb2_hdr h ++ ser_setup2_req q ++ tail) (nbt_new hdr2) = Ok s /\
      d_st (nb_d hdr2 s) = NB_END /\ nb_type hdr2 s = t /\ nb_pay hdr2 s = Some hs /\
      hdr2_holds hs h /\ h2_pay hs = Some (P2Setup n) /\
      d_st (s2_d n) = S2_END /\ s2_structure_size n = 25 /\ s2_flags n = sq2_flags q /\
      s2_security_mode n = sq2_security_mode q /\ s2_capabilities n = sq2_capabilities q /\
      s2_channel n = sq2_channel q /\ s2_sec_off n = 88 + lenN (sq2_pad q) /\
      s2_sec_len n = lenN (sq2_blob q) /\ s2_prev_session n = sq2_previous_session q.
Proof. exact smb2_setup_parse_fields. Qed.

(* ---- replies: the reply exists, is one exact NetBIOS session message, carries the reply
   flag, the command and the correlation fields of the request; its embedded lengths /
   offsets are consistent with the security blob present, which is the implementation's
   blob; the dialect is selected as specified ---- *)
Theorem C17_smb1_negotiate_reply :
  forall neg chal ft h d ds tail t f a b,
    blob_ok neg chal = true -> smb1_hdr_wf h = true -> neg1_req_wf (d :: ds) = true ->
    smb1_is_request h = true -> sh1_command h = SMB_COM_NEGOTIATE ->
    exists r m rh body rsp,
      smb1_repl neg chal ft ([t; f; a; b] ++ ser_smb1_hdr h ++ ser_neg1_req (d :: ds) ++ tail) = Ok (Some r) /\
      dec_nbt_exact r = Some m /\ lenN r = lenN m + 4 /\
      rd_smb1_hdr m = Some (rh, body) /\ reply1_echoes h rh /\
      rd_neg1_resp body = Some rsp /\
      neg1_resp_consistent rsp = true /\ nr1_byte_count rsp = 16 + lenN neg /\ nr1_blob rsp = neg /\
      sel1_ok (d :: ds) (nr1_dialect_index rsp) = true /\
      neg1_reply_ok h (d :: ds) r = true.
Proof. exact smb1_negotiate_reply_fields. Qed.

Theorem C17_smb1_setup_reply :
  forall neg chal ft h q tail t f a b,
    blob_ok neg chal = true -> smb1_hdr_wf h = true -> setup1_req_wf q = true ->
    smb1_is_request h = true -> sh1_command h = SMB_COM_SESSION_SETUP_ANDX ->
    exists r m rh body rsp,
      smb1_repl neg chal ft ([t; f; a; b] ++ ser_smb1_hdr h ++ ser_setup1_req q ++ tail) = Ok (Some r) /\
      dec_nbt_exact r = Some m /\ lenN r = lenN m + 4 /\
      rd_smb1_hdr m = Some (rh, body) /\ reply1_echoes h rh /\
      rd_setup1_resp body = Some rsp /\
      setup1_resp_consistent rsp = true /\
      sr1_blob_length rsp = lenN chal /\ sr1_blob rsp = chal /\
      sr1_byte_count rsp = lenN chal + lenN (sr1_strings rsp) /\
      setup1_reply_ok h r = true.
Proof. exact smb1_setup_reply_fields. Qed.

Theorem C17_smb2_negotiate_reply :
  forall neg chal ft h q d tail t f a b,
    blob_ok neg chal = true -> smb2_hdr_wf h = true -> neg2_req_wf q = true ->
    smb2_is_request h = true -> sh2_command h = SMB2_NEGOTIATE ->
    select2 (nq2_dialects q) = Some d ->
    exists r m rh body rsp,
      smb2_repl neg chal ft ([t; f; a; b] ++ ser_smb2_hdr h ++ ser_neg2_req q ++ tail) = Ok (Some r) /\
      dec_nbt_exact r = Some m /\ lenN r = lenN m + 4 /\
      rd_smb2_hdr m = Some (rh, body) /\ reply2_echoes h rh /\
      rd_neg2_resp body = Some rsp /\
      neg2_resp_consistent rsp = true /\
      nr2_dialect rsp = d /\ offered2 d (nq2_dialects q) = true /\
      nr2_buffer_offset rsp = 128 /\ nr2_buffer_length rsp = lenN neg /\ nr2_blob rsp = neg /\
      neg2_reply_ok h d r = true.
Proof. exact smb2_negotiate_reply_fields. Qed.

Theorem C17_smb2_setup_reply :
  forall neg chal ft h q tail t f a b,
    blob_ok neg chal = true -> smb2_hdr_wf h = true -> setup2_req_wf q = true ->
    smb2_is_request h = true -> sh2_command h = SMB2_SESSION_SETUP ->
    exists r m rh body rsp,
      smb2_repl neg chal ft ([t; f; a; b] ++ ser_smb2_hdr h ++ ser_setup2_req q ++ tail) = Ok (Some r) /\
      dec_nbt_exact r = Some m /\ lenN r = lenN m + 4 /\
      rd_smb2_hdr m = Some (rh, body) /\ reply2_echoes h rh /\
      rd_setup2_resp body = Some rsp /\
      setup2_resp_consistent rsp = true /\
      sr2_buffer_offset rsp = 72 /\ sr2_buffer_length rsp = lenN chal /\ sr2_blob rsp = chal /\
      setup2_reply_ok h r = true.
Proof. exact smb2_setup_reply_fields. Qed.

(* ---- negative clauses: all 256 SMB1 command bytes, all 65536 SMB2 command words, every
   flag value with the response bit ---- *)
Theorem C17_response_flag_silent :
  forall neg chal ft h body t f a b,
    smb1_hdr_wf h = true -> has_bit (sh1_flags h) SMB_FLAGS_REPLY = true ->
    smb1_repl neg chal ft ([t; f; a; b] ++ ser_smb1_hdr h ++ body) = Ok None.
Proof. exact smb1_response_flag_silent. Qed.
Theorem C17_other_command_silent :
  forall neg chal ft h body t f a b,
    smb1_hdr_wf h = true -> sh1_command h <> SMB_COM_NEGOTIATE -> sh1_command h <> SMB_COM_SESSION_SETUP_ANDX ->
    smb1_repl neg chal ft ([t; f; a; b] ++ ser_smb1_hdr h ++ body) = Ok None.
Proof. exact smb1_other_command_silent. Qed.
Theorem C17_smb2_response_flag_silent :
  forall neg chal ft h body t f a b,
    smb2_hdr_wf h = true -> has_bit (sh2_flags h) SMB2_FLAGS_SERVER_TO_REDIR = true ->
    smb2_repl neg chal ft ([t; f; a; b] ++ ser_smb2_hdr h ++ body) = Ok None.
Proof. exact smb2_response_flag_silent. Qed.
Theorem C17_smb2_other_command_silent :
  forall neg chal ft h body t f a b,
    smb2_hdr_wf h = true -> sh2_command h <> SMB2_NEGOTIATE -> sh2_command h <> SMB2_SESSION_SETUP ->
    smb2_repl neg chal ft ([t; f; a; b] ++ ser_smb2_hdr h ++ body) = Ok None.
Proof. exact smb2_other_command_silent. Qed.

Theorem C17_smb2_no_common_dialect_silent :
  forall neg chal ft h q tail t f a b,
    smb2_hdr_wf h = true -> neg2_req_wf q = true ->
    smb2_is_request h = true -> sh2_command h = SMB2_NEGOTIATE ->
    select2 (nq2_dialects q) = None ->
    smb2_repl neg chal ft ([t; f; a; b] ++ ser_smb2_hdr h ++ ser_neg2_req q ++ tail) = Ok None.
Proof. exact smb2_no_common_dialect_silent. Qed.

(* an SMB1 negotiate offering no dialect at all: nothing can be selected, no reply *)
Theorem C17_smb1_no_dialect_silent :
  forall neg chal ft h tail t f a b,
    smb1_hdr_wf h = true -> smb1_is_request h = true -> sh1_command h = SMB_COM_NEGOTIATE ->
    smb1_repl neg chal ft ([t; f; a; b] ++ ser_smb1_hdr h ++ ser_neg1_req [] ++ tail) = Ok None.
Proof. exact smb1_negotiate_no_dialect_silent. Qed.

(* ---- "Session-Setup requests are answered" for ALL blob lengths, 0 included (the
   statements of Spec/C17.v that were refuted before the repair) ---- *)
Theorem C17_smb1_setup_all_blobs :
  forall neg chal ft, blob_ok neg chal = true ->
    C17_smb1_setup_all_blobs_stmt (fun p => res_view (smb1_repl neg chal ft p)).
Proof. exact smb1_setup_all_blobs. Qed.
Theorem C17_smb2_setup_all_blobs :
  forall neg chal ft, blob_ok neg chal = true ->
    C17_smb2_setup_all_blobs_stmt (fun p => res_view (smb2_repl neg chal ft p)).
Proof. exact smb2_setup_all_blobs. Qed.

(* ---- the responder satisfies the verdict of the specification on EVERY payload the
   specification classifies ---- *)
Theorem C17_smb1_handler_verdict :
  forall neg chal ft p rq,
    blob_ok neg chal = true -> classify p = Some rq -> rq_smb1 rq = true ->
    exists o, smb1_repl neg chal ft p = Ok o /\ req_ok rq o = true.
Proof. exact smb1_req_ok. Qed.
Theorem C17_smb2_handler_verdict :
  forall neg chal ft p rq,
    blob_ok neg chal = true -> classify p = Some rq -> rq_smb2 rq = true ->
    exists o, smb2_repl neg chal ft p = Ok o /\ req_ok rq o = true.
Proof. exact smb2_req_ok. Qed.

(* ---- proto::repl: an identified datagram / first data segment satisfies the monitor.
   [nth 4 p 0]: the signature that identified the payload is the one of its magic byte ---- *)
Theorem C17_proto_monitor_udp_smb1 :
  forall E clk ctx p,
    blob_ok (e_smb_neg E) (e_smb_chal E) = true -> bytes_ok p = true -> forall cfg ms md,
    udp_id E p = Some PROTO_SMB1 -> nth 4 p 0 = 255 ->
    exists o, proto_repl_udp E clk (ctx_ci cfg ms md ctx) p = Ok (ctx_ci cfg ms md ctx, o) /\
              app_ok_C17 ctx p o = true.
Proof. exact C17_proto_udp_smb1. Qed.
Theorem C17_proto_monitor_udp_smb2 :
  forall E clk ctx p,
    blob_ok (e_smb_neg E) (e_smb_chal E) = true -> bytes_ok p = true -> forall cfg ms md,
    udp_id E p = Some PROTO_SMB2 -> nth 4 p 0 = 254 ->
    exists o, proto_repl_udp E clk (ctx_ci cfg ms md ctx) p = Ok (ctx_ci cfg ms md ctx, o) /\
              app_ok_C17 ctx p o = true.
Proof. exact C17_proto_udp_smb2. Qed.
Theorem C17_proto_monitor_tcp_smb1 :
  forall E clk ctx p,
    blob_ok (e_smb_neg E) (e_smb_chal E) = true -> bytes_ok p = true -> forall cfg ms md,
    tcp_first_id E p = Some PROTO_SMB1 -> nth 4 p 0 = 255 ->
    exists tc' o, proto_repl_tcp E clk (ctx_ci cfg ms md ctx) tcb_new p = Ok (ctx_ci cfg ms md ctx, tc', o) /\
              app_ok_C17 ctx p o = true.
Proof. exact C17_proto_tcp_smb1. Qed.
Theorem C17_proto_monitor_tcp_smb2 :
  forall E clk ctx p,
    blob_ok (e_smb_neg E) (e_smb_chal E) = true -> bytes_ok p = true -> forall cfg ms md,
    tcp_first_id E p = Some PROTO_SMB2 -> nth 4 p 0 = 254 ->
    exists tc' o, proto_repl_tcp E clk (ctx_ci cfg ms md ctx) tcb_new p = Ok (ctx_ci cfg ms md ctx, tc', o) /\
              app_ok_C17 ctx p o = true.
Proof. exact C17_proto_tcp_smb2. Qed.

(* ---- non-vacuity on the data of the current implementation ---- *)
Theorem C17_blob_ok_the_env : blob_ok (e_smb_neg the_env) (e_smb_chal the_env) = true.
Proof. exact ex_blob_ok. Qed.
Theorem C17_examples_classified :
  (match classify x_smb1_req_negotiate with
   | Some (RqNeg1 h ds) => Some (sh1_pid_low h, sh1_mid h, length ds) | _ => None end) = Some (65534, 0, 4%nat) /\
  (match classify x_smb1_req_session_setup with
   | Some (RqSetup1 h q) => Some (sh1_pid_low h, sh1_mid h, lenN (sq1_blob q), lenN (sq1_strings q)) | _ => None end)
    = Some (21641, 1, 74, 23) /\
  (match classify x_smb2_req_negotiate with
   | Some (RqNeg2 h q) => Some (sh2_message_id h, nq2_dialects q) | _ => None end)
    = Some (0, [514; 528; 546; 548; 768; 770; 784; 785]) /\
  (match classify x_smb2_req_session_setup with
   | Some (RqSetup2 h q) => Some (sh2_message_id h, lenN (sq2_blob q), lenN (sq2_pad q)) | _ => None end)
    = Some (1, 74, 0).
Proof. exact ex_classified. Qed.
Theorem C17_examples_identified :
  tcp_first_id the_env x_smb1_req_negotiate = Some PROTO_SMB1 /\
  udp_id the_env x_smb1_req_negotiate = Some PROTO_SMB1 /\
  tcp_first_id the_env x_smb1_req_session_setup = Some PROTO_SMB1 /\
  udp_id the_env x_smb1_req_session_setup = Some PROTO_SMB1 /\
  tcp_first_id the_env x_smb2_req_negotiate = Some PROTO_SMB2 /\
  udp_id the_env x_smb2_req_negotiate = Some PROTO_SMB2 /\
  tcp_first_id the_env x_smb2_req_session_setup = Some PROTO_SMB2 /\
  udp_id the_env x_smb2_req_session_setup = Some PROTO_SMB2.
Proof. exact ex_identified. Qed.
Theorem C17_examples_answered :
  app_ok_C17 x_ctx x_smb1_req_negotiate (x_out (x_run1 x_smb1_req_negotiate)) = true /\
  app_ok_C17 x_ctx x_smb1_req_session_setup (x_out (x_run1 x_smb1_req_session_setup)) = true /\
  app_ok_C17 x_ctx x_smb2_req_negotiate (x_out (x_run2 x_smb2_req_negotiate)) = true /\
  app_ok_C17 x_ctx x_smb2_req_session_setup (x_out (x_run2 x_smb2_req_session_setup)) = true.
Proof. exact (fun (P := ex_answers) => conj (proj1 P) (conj (proj1 (proj2 P)) (conj (proj1 (proj2 (proj2 P))) (proj1 (proj2 (proj2 (proj2 P))))))). Qed.
Theorem C17_monitor_rejects :
  app_ok_C17 x_ctx x_smb1_req_negotiate None = false /\
  app_ok_C17 x_ctx x_smb1_req_negotiate (x_out (x_run1 x_smb1_req_session_setup)) = false /\
  app_ok_C17 x_ctx x_smb2_req_negotiate (x_out (x_run2 x_smb2_req_session_setup)) = false /\
  app_ok_C17 x_ctx x_smb2_req_session_setup (x_out (x_run2 x_smb2_req_negotiate)) = false /\
  app_ok_C17 x_ctx x_smb2_req_session_setup None = false.
Proof. exact ex_monitor_rejects. Qed.
(* the two former witnesses of the empty-blob defect are now answered correctly *)
Theorem C17_empty_blob_answered :
  (match classify x_smb1_setup_empty with
   | Some (RqSetup1 h q) => Some (sh1_mid h, lenN (sq1_blob q), lenN (sq1_strings q)) | _ => None end) = Some (1, 0, 23) /\
  (match classify x_smb2_setup_empty with
   | Some (RqSetup2 h q) => Some (sh2_message_id h, lenN (sq2_blob q)) | _ => None end) = Some (1, 0) /\
  tcp_first_id the_env x_smb1_setup_empty = Some PROTO_SMB1 /\
  tcp_first_id the_env x_smb2_setup_empty = Some PROTO_SMB2 /\
  app_ok_C17 x_ctx x_smb1_setup_empty (x_out (x_run1 x_smb1_setup_empty)) = true /\
  app_ok_C17 x_ctx x_smb2_setup_empty (x_out (x_run2 x_smb2_setup_empty)) = true /\
  app_ok_C17 x_ctx x_smb1_setup_empty None = false /\
  app_ok_C17 x_ctx x_smb2_setup_empty None = false /\
  x_out (x_run1 x_smb1_setup_empty) = x_out (x_run1 x_smb1_req_session_setup) /\
  (match x_out (x_run2 x_smb2_setup_empty) with
   | Some r => match dec_smb2_reply r with
               | Some (_, b) => option_map (fun x => (sr2_buffer_offset x, sr2_buffer_length x, lenN (sr2_blob x))) (rd_setup2_resp b)
               | None => None end
   | None => None end) = Some (72, 159, 159).
Proof. exact ex_empty_blob_answered. Qed.

Print Assumptions C17_ref_smb1_hdr_roundtrip.
Print Assumptions C17_ref_smb2_hdr_roundtrip.
Print Assumptions C17_classify_sound.
Print Assumptions C17_ref_neg1_req_roundtrip.
Print Assumptions C17_ref_setup1_req_roundtrip.
Print Assumptions C17_ref_neg2_req_roundtrip.
Print Assumptions C17_ref_setup2_req_roundtrip.
Print Assumptions C17_classify_complete_neg1.
Print Assumptions C17_classify_complete_setup1.
Print Assumptions C17_classify_complete_neg2.
Print Assumptions C17_classify_complete_setup2.
Print Assumptions C17_select2_meaning.
Print Assumptions C17_select2_none_meaning.
Print Assumptions C17_combinator_read_ule.
Print Assumptions C17_le_val_le16.
Print Assumptions C17_le_val_le32.
Print Assumptions C17_le_val_le64.
Print Assumptions C17_smb1_negotiate_parse.
Print Assumptions C17_smb1_setup_parse.
Print Assumptions C17_smb2_negotiate_parse.
Print Assumptions C17_smb2_setup_parse.
Print Assumptions C17_smb1_negotiate_reply.
Print Assumptions C17_smb1_setup_reply.
Print Assumptions C17_smb2_negotiate_reply.
Print Assumptions C17_smb2_setup_reply.
Print Assumptions C17_response_flag_silent.
Print Assumptions C17_other_command_silent.
Print Assumptions C17_smb2_response_flag_silent.
Print Assumptions C17_smb2_other_command_silent.
Print Assumptions C17_smb2_no_common_dialect_silent.
Print Assumptions C17_smb1_no_dialect_silent.
Print Assumptions C17_smb1_setup_all_blobs.
Print Assumptions C17_smb2_setup_all_blobs.
Print Assumptions C17_smb1_handler_verdict.
Print Assumptions C17_smb2_handler_verdict.
Print Assumptions C17_proto_monitor_udp_smb1.
Print Assumptions C17_proto_monitor_udp_smb2.
Print Assumptions C17_proto_monitor_tcp_smb1.
Print Assumptions C17_proto_monitor_tcp_smb2.
Print Assumptions C17_blob_ok_the_env.
Print Assumptions C17_examples_classified.
Print Assumptions C17_examples_identified.
Print Assumptions C17_examples_answered.
Print Assumptions C17_monitor_rejects.
Print Assumptions C17_empty_blob_answered.
