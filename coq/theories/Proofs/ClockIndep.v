(* Proofs/ClockIndep.v -- time independence of [reply] and of histories (Spec/ClockIndep.v). *)
From MS Require Import Proofs.Tactics Smb Proto L4 L2 Spec.View Proofs.Pipeline Proofs.Factor Proofs.FactorEv
     Proofs.ClockIndepSmb Proofs.ClockIndepApp Proofs.ClockIndepMask Spec.ClockIndep.
Open Scope N_scope.

(* ====================================================================== *)
(* inside the IP layer                                                     *)
(* ====================================================================== *)
Definition l4o_rel (E : env) (clk clk' : clock) (v : l4view) (o o' : option (bytes * N * bytes)) : Prop :=
  o = o' \/
  exists d d', pay_rel E clk clk' d d' /\
    ((exists sp dp s a, v_proto v = 6 /\
        o = Some (v_dst v, 64, seal_tcp v (tcp_header sp dp s a (ACK + PSH) ++ d)) /\
        o' = Some (v_dst v, 64, seal_tcp v (tcp_header sp dp s a (ACK + PSH) ++ d'))) \/
     (exists sp dp, v_proto v = 17 /\
        o = Some (v_dst v, 64, seal_udp v (udp_dgram sp dp d)) /\
        o' = Some (v_dst v, 64, seal_udp v (udp_dgram sp dp d')))).

Definition l4_rel (E : env) (clk clk' : clock) (v : l4view)
           (a b : table * cinfo * option (bytes * N * bytes) * list event) : Prop :=
  fst (fst (fst a)) = fst (fst (fst b)) /\ snd (fst (fst a)) = snd (fst (fst b)) /\
  snd a = snd b /\ l4o_rel E clk clk' v (snd (fst a)) (snd (fst b)).

Lemma l4_rel_refl E clk clk' v a : l4_rel E clk clk' v a a.
Proof. repeat split. left. reflexivity. Qed.

Lemma l4_tcp_case E clk clk' v (x y : res (table * cinfo * option bytes * list event)) :
  v_proto v = 6 -> res_rel (tcp_rel E clk clk') x y ->
  res_rel (l4_rel E clk clk' v)
    (match x with
     | Ok (tb', ci', Some r, evs) => Ok (tb', ci', Some (v_dst v, 64, seal_tcp v r), evs)
     | Ok (tb', ci', None, evs) => Ok (tb', ci', None, evs)
     | Panic s => Panic s
     end)
    (match y with
     | Ok (tb', ci', Some r, evs) => Ok (tb', ci', Some (v_dst v, 64, seal_tcp v r), evs)
     | Ok (tb', ci', None, evs) => Ok (tb', ci', None, evs)
     | Panic s => Panic s
     end).
Proof.
  intros Hp H.
  destruct x as [[[[tb1 c1] o1] e1]|s1]; destruct y as [[[[tb2 c2] o2] e2]|s2]; cbn [res_rel] in H;
    try contradiction; [|destruct H; reflexivity].
  destruct H as (H1 & H2 & H3 & H4). cbn [fst snd] in *. subst tb2 c2 e2.
  destruct H4 as [-> | (sp & dp & s & a & d & d' & Hr & -> & ->)].
  - destruct o2; apply l4_rel_refl.
  - cbn [res_rel]. repeat split. cbn [fst snd]. right. exists d, d'. split; [exact Hr|].
    left. exists sp, dp, s, a. repeat split. exact Hp.
Qed.

Lemma lenN_udp_dgram sp dp d : lenN (udp_dgram sp dp d) = 8 + lenN d.
Proof. unfold udp_dgram, lenN. rewrite !app_length. cbn [length be16]. lia. Qed.

Lemma l4_udp_case E clk clk' v (chk : bool) (x y : res (cinfo * option bytes * list event)) tb :
  v_proto v = 17 -> (chk = true -> clocks_compat E clk clk' = true) ->
  res_rel (udp_rel E clk clk') x y ->
  res_rel (l4_rel E clk clk' v)
    (match x with
     | Ok (ci', Some r, evs) =>
       if chk && (65535 <? lenN r) then Panic PANIC_UDP_LEN
       else Ok (tb, ci', Some (v_dst v, 64, seal_udp v r), evs)
     | Ok (ci', None, evs) => Ok (tb, ci', None, evs)
     | Panic s => Panic s
     end)
    (match y with
     | Ok (ci', Some r, evs) =>
       if chk && (65535 <? lenN r) then Panic PANIC_UDP_LEN
       else Ok (tb, ci', Some (v_dst v, 64, seal_udp v r), evs)
     | Ok (ci', None, evs) => Ok (tb, ci', None, evs)
     | Panic s => Panic s
     end).
Proof.
  intros Hp Hk H.
  destruct x as [[[c1 o1] e1]|s1]; destruct y as [[[c2 o2] e2]|s2]; cbn [res_rel] in H;
    try contradiction; [|destruct H; reflexivity].
  destruct H as (H1 & H3 & H4). cbn [fst snd] in *. subst c2 e2.
  destruct H4 as [-> | (sp & dp & d & d' & Hr & -> & ->)].
  - destruct o2 as [r|]; [|apply l4_rel_refl]. destruct (chk && _); [reflexivity | apply l4_rel_refl].
  - rewrite !lenN_udp_dgram.
    destruct chk; cbn [andb].
    + rewrite <- (pay_rel_fits _ _ _ _ _ Hr (Hk eq_refl)).
      destruct (65535 <? 8 + lenN d); [reflexivity|].
      cbn [res_rel]. repeat split. cbn [fst snd]. right. exists d, d'. split; [exact Hr|].
      right. exists sp, dp. repeat split. exact Hp.
    + cbn [res_rel]. repeat split. cbn [fst snd]. right. exists d, d'. split; [exact Hr|].
      right. exists sp, dp. repeat split. exact Hp.
Qed.

Lemma l4_run_clk E cfg clk clk' tb f v :
  clocks_compat E clk clk' = true ->
  res_rel (l4_rel E clk clk' v) (l4_run E cfg clk tb f v) (l4_run E cfg clk' tb f v).
Proof.
  intros Hk. unfold l4_run. cbv zeta.
  destruct (v_v4 v).
  - destruct (v_proto v =? 1); [apply res_rel_refl, l4_rel_refl|].
    destruct (v_proto v =? 6) eqn:E6.
    { destruct (length (v_l4 v) <? 20)%nat; [apply res_rel_refl, l4_rel_refl|].
      apply N.eqb_eq in E6. apply (l4_tcp_case E clk clk' v _ _ E6). apply tcp_repl_clk. }
    destruct (v_proto v =? 17) eqn:E17; [|apply res_rel_refl, l4_rel_refl].
    destruct (length (v_l4 v) <? 8)%nat; [apply res_rel_refl, l4_rel_refl|].
    apply N.eqb_eq in E17.
    pose proof (l4_udp_case E clk clk' v true _ _ tb E17 (fun _ => Hk)
                  (udp_repl_clk E cfg clk clk' (l3_ci f v) (v_l4 v))) as H.
    cbn [andb] in H. exact H.
  - destruct (v_proto v =? 58); [apply res_rel_refl, l4_rel_refl|].
    destruct (v_proto v =? 6) eqn:E6.
    { destruct (length (v_l4 v) <? 20)%nat; [apply res_rel_refl, l4_rel_refl|].
      apply N.eqb_eq in E6. apply (l4_tcp_case E clk clk' v _ _ E6). apply tcp_repl_clk. }
    destruct (v_proto v =? 17) eqn:E17; [|apply res_rel_refl, l4_rel_refl].
    destruct (length (v_l4 v) <? 8)%nat; [apply res_rel_refl, l4_rel_refl|].
    apply N.eqb_eq in E17.
    pose proof (l4_udp_case E clk clk' v false _ _ tb E17 (fun H => False_ind _ (Bool.diff_false_true H))
                  (udp_repl_clk E cfg clk clk' (l3_ci f v) (v_l4 v))) as H.
    cbn [andb] in H. exact H.
Qed.

(* ====================================================================== *)
(* reply                                                                   *)
(* ====================================================================== *)
Definition frame_rel (E : env) (clk clk' : clock) (cfg : config) (f : bytes) (r r' : option bytes) : Prop :=
  r = r' \/
  exists v o o', view cfg f = Some v /\ l4o_rel E clk clk' v o o' /\
                 r = wrap_of cfg f v o /\ r' = wrap_of cfg f v o'.

Definition reply_rel (E : env) (clk clk' : clock) (cfg : config) (f : bytes)
           (a b : table * option bytes * list event) : Prop :=
  fst (fst a) = fst (fst b) /\ snd a = snd b /\ frame_rel E clk clk' cfg f (snd (fst a)) (snd (fst b)).

Lemma reply_rel_refl E clk clk' cfg f a : reply_rel E clk clk' cfg f a a.
Proof. repeat split. left. reflexivity. Qed.

Lemma l4o_rel_verb E clk clk' v o o' : l4o_rel E clk clk' v o o' -> verb_of o = verb_of o'.
Proof.
  intros [-> | (d & d' & _ & [(sp & dp & s & a & _ & -> & ->) | (sp & dp & _ & -> & ->)])]; reflexivity.
Qed.

Theorem reply_clk E cfg clk clk' tb f :
  clocks_compat E clk clk' = true ->
  res_rel (reply_rel E clk clk' cfg f) (reply E cfg clk tb f) (reply E cfg clk' tb f).
Proof.
  intros Hk. rewrite !reply_ev_factor. unfold reply_ev_spec. cbv zeta.
  destruct (length f <? 14)%nat; [apply res_rel_refl, reply_rel_refl|].
  destruct (negb (auth_mac cfg (slice 0 6 f))); [apply res_rel_refl, reply_rel_refl|].
  destruct (u16_at 12 f =? 2054); [apply res_rel_refl, reply_rel_refl|].
  destruct (view cfg f) as [v|] eqn:Hv; [|apply res_rel_refl, reply_rel_refl].
  pose proof (l4_run_clk E cfg clk clk' tb f v Hk) as H.
  destruct (l4_run E cfg clk tb f v) as [[[[tb1 c1] o1] e1]|s1];
    destruct (l4_run E cfg clk' tb f v) as [[[[tb2 c2] o2] e2]|s2]; cbn [res_rel] in H |- *;
    try contradiction; [|exact H].
  destruct H as (H1 & H2 & H3 & H4). cbn [fst snd] in *. subst tb2 c2 e2.
  rewrite (l4o_rel_verb _ _ _ _ _ _ H4).
  repeat split. cbn [fst snd]. right. exists v, o1, o2.
  split; [exact Hv|]. split; [exact H4|]. split; reflexivity.
Qed.

(* ---- (1) ---- *)
Lemma frame_rel_has E clk clk' cfg f r r' : frame_rel E clk clk' cfg f r r' -> has_frame r = has_frame r'.
Proof.
  intros [-> | (v & o & o' & _ & H & -> & ->)]; [reflexivity|].
  destruct H as [-> | (d & d' & _ & [(sp & dp & s & a & _ & -> & ->) | (sp & dp & _ & -> & ->)])]; reflexivity.
Qed.

Theorem reply_clock_state : clock_state_stmt.
Proof.
  intros E cfg clk clk' tb f Hk. pose proof (reply_clk E cfg clk clk' tb f Hk) as H.
  unfold same_outcome.
  destruct (reply E cfg clk tb f) as [[[tb1 r1] e1]|s1]; destruct (reply E cfg clk' tb f) as [[[tb2 r2] e2]|s2];
    cbn [res_rel] in H; try contradiction; [|exact H].
  destruct H as (H1 & H2 & H3). cbn [fst snd] in *. repeat split; try assumption.
  exact (frame_rel_has _ _ _ _ _ _ _ H3).
Qed.

(* both clocks fine / Date values of one length: the two unary forms *)
Corollary reply_clock_state_ok E cfg clk clk' tb f :
  clock_ok E clk = true -> clock_ok E clk' = true ->
  same_outcome (reply E cfg clk tb f) (reply E cfg clk' tb f).
Proof.
  intros H1 H2. apply reply_clock_state. unfold clocks_compat. rewrite H1, H2. apply orb_true_r.
Qed.

Corollary reply_clock_state_len E cfg clk clk' tb f :
  length (clk_date clk) = length (clk_date clk') ->
  same_outcome (reply E cfg clk tb f) (reply E cfg clk' tb f).
Proof.
  intros H. apply reply_clock_state. unfold clocks_compat. rewrite H, Nat.eqb_refl. reflexivity.
Qed.

(* ---- (2) ---- *)
Lemma frame_rel_masked E clk clk' cfg f r r' :
  length (c_mac cfg) = 6%nat -> http_tpl_ok E = true ->
  date_clean clk = true -> date_clean clk' = true ->
  length (clk_date clk) = length (clk_date clk') ->
  frame_rel E clk clk' cfg f r r' -> same_frame_masked r r'.
Proof.
  intros Hmac Ht Hc Hc' Hl [-> | (v & o & o' & Hv & H & -> & ->)].
  - destruct r'; cbn; auto.
  - destruct H as [-> | (d & d' & Hr & [(sp & dp & s & a & Hp & -> & ->) | (sp & dp & Hp & -> & ->)])].
    + destruct (wrap_of cfg f v o'); cbn; auto.
    + cbn [wrap_of same_frame_masked].
      exact (wrap_tcp_masked E clk clk' cfg f v Hmac Hv Ht Hc Hc' Hl sp dp s a d d' Hp Hr).
    + cbn [wrap_of same_frame_masked].
      exact (wrap_udp_masked E clk clk' cfg f v Hmac Hv Ht Hc Hc' Hl sp dp d d' Hp Hr).
Qed.

Theorem reply_clock_frame : clock_frame_stmt.
Proof.
  intros E cfg clk clk' tb f tb1 r1 ev1 tb2 r2 ev2 Hmac Ht Hc Hc' Hl R1 R2.
  assert (Hk : clocks_compat E clk clk' = true) by (unfold clocks_compat; rewrite Hl, Nat.eqb_refl; reflexivity).
  pose proof (reply_clk E cfg clk clk' tb f Hk) as H. rewrite R1, R2 in H. cbn [res_rel] in H.
  destruct H as (_ & _ & H). cbn [fst snd] in H.
  exact (frame_rel_masked _ _ _ _ _ _ _ Hmac Ht Hc Hc' Hl H).
Qed.

(* ====================================================================== *)
(* (3) histories                                                           *)
(* ====================================================================== *)
Theorem run_clock_history : clock_history_stmt.
Proof.
  intros E cfg fs. induction fs as [|f fs IH]; intros clks clks' tb HF.
  - cbn [run fst snd]. split; [reflexivity | constructor].
  - destruct HF as [|c c' clks clks' Hk HF]; [cbn [run fst snd]; split; [reflexivity | constructor]|].
    cbn [run]. pose proof (reply_clock_state E cfg c c' tb f Hk) as H. unfold same_outcome in H.
    destruct (reply E cfg c tb f) as [[[tb1 r1] e1]|s1]; destruct (reply E cfg c' tb f) as [[[tb2 r2] e2]|s2];
      try contradiction.
    + destruct H as (-> & -> & Hh). specialize (IH clks clks' tb2 HF).
      destruct (run E cfg clks fs tb2) as [tbf os]. destruct (run E cfg clks' fs tb2) as [tbf' os'].
      cbn [fst snd] in *. destruct IH as [-> IH]. split; [reflexivity|].
      constructor; [split; [exact Hh | reflexivity] | exact IH].
    + cbn [fst snd]. split; [reflexivity|]. constructor; [exact H | constructor].
Qed.

Theorem run_clock_history_masked : clock_history_masked_stmt.
Proof.
  intros E cfg fs. induction fs as [|f fs IH]; intros clks clks' tb Hmac Ht HF.
  - cbn [run fst snd]. split; [reflexivity | constructor].
  - destruct HF as [|c c' clks clks' (Hk & Hc & Hc' & Hl) HF]; [cbn [run fst snd]; split; [reflexivity | constructor]|].
    cbn [run]. pose proof (reply_clk E cfg c c' tb f Hk) as H.
    destruct (reply E cfg c tb f) as [[[tb1 r1] e1]|s1]; destruct (reply E cfg c' tb f) as [[[tb2 r2] e2]|s2];
      cbn [res_rel] in H; try contradiction.
    + destruct H as (H1 & H2 & H3). cbn [fst snd] in *. subst tb2 e2.
      specialize (IH clks clks' tb1 Hmac Ht HF).
      destruct (run E cfg clks fs tb1) as [tbf os]. destruct (run E cfg clks' fs tb1) as [tbf' os'].
      cbn [fst snd] in *. destruct IH as [-> IH]. split; [reflexivity|].
      constructor; [|exact IH]. split; [|reflexivity].
      exact (frame_rel_masked _ _ _ _ _ _ _ Hmac Ht Hc Hc' Hl H3).
    + cbn [fst snd]. split; [reflexivity|]. constructor; [exact H | constructor].
Qed.

(* the usual reading: two clock lists of the same length, every clock fine *)
Corollary run_clock_history_ok E cfg fs clks clks' tb :
  length clks = length clks' ->
  Forall (fun c => clock_ok E c = true) clks -> Forall (fun c => clock_ok E c = true) clks' ->
  fst (run E cfg clks fs tb) = fst (run E cfg clks' fs tb) /\
  Forall2 outcome_shape (snd (run E cfg clks fs tb)) (snd (run E cfg clks' fs tb)).
Proof.
  intros Hl H1 H2. apply run_clock_history.
  revert clks' Hl H2. induction H1 as [|c clks Hc H1 IH]; intros [|c' clks'] Hl H2; try discriminate; constructor.
  - inversion H2; subst. unfold clocks_compat. rewrite Hc. rewrite H3. apply orb_true_r.
  - inversion H2; subst. apply IH; [injection Hl as Hl; exact Hl | assumption].
Qed.

(* ====================================================================== *)
(* the masks keep the length (they only overwrite)                         *)
(* ====================================================================== *)
Lemma zero_at_length off n p : length (zero_at off n p) = length p.
Proof.
  unfold zero_at. rewrite !app_length, map_length, !firstn_length, !skipn_length. lia.
Qed.

Lemma hrun_length p : forall st, length (snd (hrun st p)) = length p.
Proof.
  induction p as [|b t IH]; intros st; [reflexivity|].
  cbn [hrun]. destruct (hstep st b) as [st1 c]. specialize (IH st1).
  destruct (hrun st1 t) as [st2 out]. cbn [snd length] in *. rewrite IH. reflexivity.
Qed.

Lemma mask_payload_length p : length (mask_payload p) = length p.
Proof.
  unfold mask_payload. destruct (is_prefix HTTP_MAGIC p); [apply hrun_length|].
  destruct (is_smb1_neg_resp p); [apply zero_at_length|].
  destruct (is_smb2_neg_resp p); [apply zero_at_length | reflexivity].
Qed.

Theorem mask_frame_length f : length (mask_frame f) = length f.
Proof.
  assert (HL : forall proto off, length (mask_l4 proto off f) = length f).
  { intros proto off. unfold mask_l4.
    destruct (proto =? 6).
    - rewrite app_length, zero_at_length, mask_payload_length, firstn_length, skipn_length. lia.
    - destruct (proto =? 17); [|reflexivity].
      rewrite app_length, zero_at_length, mask_payload_length, firstn_length, skipn_length. lia. }
  unfold mask_frame. destruct (u16_at 12 f =? 2048); [apply HL|].
  destruct (u16_at 12 f =? 34525); [apply HL | reflexivity].
Qed.

(* ====================================================================== *)
(* the application layer on its own                                        *)
(* ====================================================================== *)
Lemma out_rel_has E clk clk' o o' : out_rel E clk clk' o o' -> has_frame o = has_frame o'.
Proof. intros [-> | (d & d' & -> & -> & _)]; reflexivity. Qed.

Lemma out_rel_masked E clk clk' o o' :
  out_rel E clk clk' o o' ->
  http_tpl_ok E = true -> date_clean clk = true -> date_clean clk' = true ->
  length (clk_date clk) = length (clk_date clk') -> same_payload_masked o o'.
Proof.
  intros [-> | (d & d' & -> & -> & Hr)] Ht Hc Hc' Hl.
  - destruct o'; cbn; auto.
  - cbn. split; [exact (pay_rel_len _ _ _ _ _ Hr Hl) | exact (pay_rel_mask _ _ _ _ _ Ht Hc Hc' Hl Hr)].
Qed.

Theorem proto_repl_tcp_clock : clock_app_tcp_stmt.
Proof.
  intros E clk clk' ci tc data. pose proof (proto_repl_tcp_clk E clk clk' ci tc data) as H.
  destruct (proto_repl_tcp E clk ci tc data) as [[[c1 t1] o1]|s1];
    destruct (proto_repl_tcp E clk' ci tc data) as [[[c2 t2] o2]|s2]; cbn [res_rel] in H; try contradiction; [|exact H].
  destruct H as (H1 & H2 & H3). cbn [fst snd] in *.
  split; [exact H1|]. split; [exact H2|]. split; [exact (out_rel_has _ _ _ _ _ H3) | exact (out_rel_masked _ _ _ _ _ H3)].
Qed.

Theorem proto_repl_udp_clock : clock_app_udp_stmt.
Proof.
  intros E clk clk' ci data. pose proof (proto_repl_udp_clk E clk clk' ci data) as H.
  destruct (proto_repl_udp E clk ci data) as [[c1 o1]|s1];
    destruct (proto_repl_udp E clk' ci data) as [[c2 o2]|s2]; cbn [res_rel] in H; try contradiction; [|exact H].
  destruct H as (H1 & H3). cbn [fst snd] in *.
  split; [exact H1|]. split; [exact (out_rel_has _ _ _ _ _ H3) | exact (out_rel_masked _ _ _ _ _ H3)].
Qed.
