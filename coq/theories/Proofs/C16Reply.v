(* C16Reply.v -- what the RPC responder model builds is, byte for byte, the XDR
   encoding of the reply the specification expects; the reference reader decodes
   it back; UDP and TCP (record mark) handlers; the payload-level monitor holds
   on the model's output; statements at the level of proto::repl. *)
From MS Require Import Proofs.Tactics Proofs.Pending Rpc Proto Spec.RefXdr Spec.C16 Spec.AppView
  Proofs.C16Xdr Proofs.C16Text Proofs.C16Parse.

(* ---- an XDR encoder for replies (proof device: the inverse of the reference reader) ---- *)
Definition enc_mapping (m : mapping) : bytes :=
  let '(a, b, c, d) := m in xdr_u32 1 ++ xdr_u32 a ++ xdr_u32 b ++ xdr_u32 c ++ xdr_u32 d.
Definition enc_rpcb (m : rpcb) : bytes :=
  let '(a, b, n, ad, o) := m in
  xdr_u32 1 ++ xdr_u32 a ++ xdr_u32 b ++ xdr_opaque n ++ xdr_opaque ad ++ xdr_opaque o.

Definition enc_result (r : pm_result) : bytes :=
  match r with
  | ResVoid => []
  | ResPort p => xdr_u32 p
  | ResUaddr s => xdr_opaque s
  | ResDump2 l => flat_map enc_mapping l ++ xdr_u32 0
  | ResDump3 l => flat_map enc_rpcb l ++ xdr_u32 0
  end.

Definition enc_body (b : accept_body) : bytes :=
  match b with
  | AccSuccess r => xdr_u32 0 ++ enc_result r
  | AccProgUnavail => xdr_u32 1
  | AccProgMismatch lo hi => xdr_u32 2 ++ xdr_u32 lo ++ xdr_u32 hi
  | AccProcUnavail => xdr_u32 3
  | AccGarbageArgs => xdr_u32 4
  | AccSystemErr => xdr_u32 5
  end.

Definition enc_reply (r : rpc_reply) : bytes :=
  xdr_u32 (rp_xid r) ++ xdr_u32 MSG_REPLY ++ xdr_u32 0 ++ xdr_u32 (rp_verf_flavor r) ++
  xdr_opaque (rp_verf r) ++ enc_body (rp_body r).

Definition u32 (x : N) : Prop := x < 4294967296.
Definition mapping_wf (m : mapping) : Prop := let '(a, b, c, d) := m in u32 a /\ u32 b /\ u32 c /\ u32 d.
Definition rpcb_wf (m : rpcb) : Prop :=
  let '(a, b, n, ad, o) := m in u32 a /\ u32 b /\ u32 (lenN n) /\ u32 (lenN ad) /\ u32 (lenN o).
Definition result_wf (r : pm_result) : Prop :=
  match r with
  | ResVoid => True
  | ResPort p => u32 p
  | ResUaddr s => u32 (lenN s)
  | ResDump2 l => Forall mapping_wf l
  | ResDump3 l => Forall rpcb_wf l
  end.
Definition body_wf (b : accept_body) : Prop :=
  match b with
  | AccSuccess r => result_wf r
  | AccProgMismatch lo hi => u32 lo /\ u32 hi
  | _ => True
  end.
Definition reply_wf (r : rpc_reply) : Prop :=
  u32 (rp_xid r) /\ u32 (rp_verf_flavor r) /\ u32 (lenN (rp_verf r)) /\ body_wf (rp_body r).

Definition kind_of (r : pm_result) : res_kind :=
  match r with
  | ResVoid => KVoid | ResPort _ => KPort | ResUaddr _ => KUaddr | ResDump2 _ => KDump2 | ResDump3 _ => KDump3
  end.
Definition body_kind (k : res_kind) (b : accept_body) : Prop :=
  match b with AccSuccess r => kind_of r = k | _ => True end.

(* ---- alignment ---- *)
Definition al4 (l : bytes) : Prop := (length l mod 4 = 0)%nat.

Lemma al4_nil : al4 []. Proof. reflexivity. Qed.
Lemma al4_app (a b : bytes) : al4 a -> al4 b -> al4 (a ++ b).
Proof. unfold al4. rewrite app_length. intros Ha Hb. lia. Qed.
Lemma al4_u32 (x : N) : al4 (xdr_u32 x). Proof. reflexivity. Qed.
Lemma al4_opaque (b : bytes) : al4 (xdr_opaque b).
Proof.
  unfold al4, xdr_opaque. rewrite !app_length, zeros_length. cbn [xdr_u32 be32 length].
  pose proof (xpad_align (length b)). lia.
Qed.
Lemma al4_flat_map {A} (f : A -> bytes) (l : list A) : (forall x, al4 (f x)) -> al4 (flat_map f l).
Proof. intros H. induction l as [|x l IH]; [reflexivity|]. cbn [flat_map]. apply al4_app; auto. Qed.

Ltac al4_tac lem :=
  repeat first [apply al4_u32 | apply al4_opaque | apply al4_nil | apply lem | apply al4_app].

Lemma al4_enc_mapping (m : mapping) : al4 (enc_mapping m).
Proof. destruct m as [[[a b] c] d]. reflexivity. Qed.
Lemma al4_enc_rpcb (m : rpcb) : al4 (enc_rpcb m).
Proof.
  destruct m as [[[[a b] n] ad] o]. unfold enc_rpcb. al4_tac al4_nil.
Qed.
Lemma al4_enc_result (r : pm_result) : al4 (enc_result r).
Proof.
  destruct r; cbn [enc_result]; auto using al4_nil, al4_u32, al4_opaque.
  - apply al4_app; [apply al4_flat_map, al4_enc_mapping | apply al4_u32].
  - apply al4_app; [apply al4_flat_map, al4_enc_rpcb | apply al4_u32].
Qed.
Lemma al4_enc_body (b : accept_body) : al4 (enc_body b).
Proof.
  destruct b; cbn [enc_body]; auto using al4_u32.
  - apply al4_app; [apply al4_u32 | apply al4_enc_result].
  - al4_tac al4_nil.
Qed.
Lemma al4_enc_reply (r : rpc_reply) : al4 (enc_reply r).
Proof. unfold enc_reply. al4_tac al4_enc_body. Qed.

(* ---- the reference reader inverts the encoder ---- *)
Lemma rd_pmaplist_enc (l : list mapping) (t : bytes) : forall fuel,
  Forall mapping_wf l -> (length l < fuel)%nat ->
  rd_pmaplist fuel (flat_map enc_mapping l ++ xdr_u32 0 ++ t) = Some (l, t).
Proof.
  induction l as [|m l IH]; intros fuel Hwf Hf.
  - destruct fuel as [|f]; [cbn [length] in Hf; lia|]. cbn [flat_map app rd_pmaplist].
    rewrite rd_u32_xdr by (unfold u32; lia). reflexivity.
  - destruct fuel as [|f]; [cbn [length] in Hf; lia|]. cbn [length] in Hf.
    inversion Hwf as [|? ? Hm Hl]; subst.
    destruct m as [[[a b] c] d]. destruct Hm as (Ha & Hb & Hc & Hd). unfold u32 in *.
    cbn [flat_map rd_pmaplist]. unfold enc_mapping at 1. rewrite <- !app_assoc.
    rewrite rd_u32_xdr by lia. change (1 =? 0) with false. change (1 =? 1) with true. cbv iota.
    rewrite rd_u32_xdr by exact Ha. rewrite rd_u32_xdr by exact Hb.
    rewrite rd_u32_xdr by exact Hc. rewrite rd_u32_xdr by exact Hd.
    rewrite (IH f Hl) by lia. reflexivity.
Qed.

Lemma rd_rpcblist_enc (l : list rpcb) (t : bytes) : forall fuel,
  Forall rpcb_wf l -> (length l < fuel)%nat ->
  rd_rpcblist fuel (flat_map enc_rpcb l ++ xdr_u32 0 ++ t) = Some (l, t).
Proof.
  induction l as [|m l IH]; intros fuel Hwf Hf.
  - destruct fuel as [|f]; [cbn [length] in Hf; lia|]. cbn [flat_map app rd_rpcblist].
    rewrite rd_u32_xdr by (unfold u32; lia). reflexivity.
  - destruct fuel as [|f]; [cbn [length] in Hf; lia|]. cbn [length] in Hf.
    inversion Hwf as [|? ? Hm Hl]; subst.
    destruct m as [[[[a b] n] ad] o]. destruct Hm as (Ha & Hb & Hn & Had & Ho). unfold u32 in *.
    cbn [flat_map rd_rpcblist]. unfold enc_rpcb at 1. rewrite <- !app_assoc.
    rewrite rd_u32_xdr by lia. change (1 =? 0) with false. change (1 =? 1) with true. cbv iota.
    rewrite rd_u32_xdr by exact Ha. rewrite rd_u32_xdr by exact Hb.
    rewrite rd_opaque_xdr by exact Hn. rewrite rd_opaque_xdr by exact Had. rewrite rd_opaque_xdr by exact Ho.
    rewrite (IH f Hl) by lia. reflexivity.
Qed.

Lemma flat_map_len_ge {A} (f : A -> bytes) (l : list A) :
  (forall x, (1 <= length (f x))%nat) -> (length l <= length (flat_map f l))%nat.
Proof.
  intros H. induction l as [|x l IH]; [cbn; lia|]. cbn [flat_map length]. rewrite app_length.
  specialize (H x). lia.
Qed.

Lemma dec_results_enc (r : pm_result) : result_wf r -> dec_results (kind_of r) (enc_result r) = Some r.
Proof.
  intros Hwf. destruct r as [|p|s|l|l]; cbn [kind_of enc_result dec_results result_wf] in *.
  - reflexivity.
  - rewrite <- (app_nil_r (xdr_u32 p)). rewrite rd_u32_xdr by exact Hwf. reflexivity.
  - rewrite <- (app_nil_r (xdr_opaque s)). rewrite rd_opaque_xdr by exact Hwf. reflexivity.
  - rewrite <- (app_nil_r (xdr_u32 0)).
    rewrite rd_pmaplist_enc; [reflexivity | exact Hwf |].
    rewrite app_length. cbn [app length xdr_u32 be32].
    pose proof (flat_map_len_ge enc_mapping l) as H.
    assert (Hx : forall x, (1 <= length (enc_mapping x))%nat) by (intros [[[a b] c] d]; cbn; lia).
    specialize (H Hx). lia.
  - rewrite <- (app_nil_r (xdr_u32 0)).
    rewrite rd_rpcblist_enc; [reflexivity | exact Hwf |].
    rewrite app_length. cbn [app length xdr_u32 be32].
    pose proof (flat_map_len_ge enc_rpcb l) as H.
    assert (Hx : forall x, (1 <= length (enc_rpcb x))%nat).
    { intros [[[[a b] n] ad] o]. unfold enc_rpcb. rewrite app_length. cbn [length xdr_u32 be32]. lia. }
    specialize (H Hx). lia.
Qed.

Theorem dec_reply_enc (k : res_kind) (r : rpc_reply) :
  reply_wf r -> body_kind k (rp_body r) -> dec_reply k (enc_reply r) = Some r.
Proof.
  intros (Hx & Hf & Hv & Hb) Hk. unfold u32 in *. unfold dec_reply.
  pose proof (al4_enc_reply r) as Hal. unfold al4 in Hal. rewrite Hal.
  change (negb (0 =? 0)%nat) with false. cbv iota.
  unfold enc_reply. rewrite rd_u32_xdr by exact Hx.
  rewrite rd_u32_xdr by (unfold MSG_REPLY; lia). change (negb (MSG_REPLY =? MSG_REPLY)) with false. cbv iota.
  rewrite rd_u32_xdr by lia. change (negb (0 =? 0)) with false. cbv iota.
  rewrite rd_u32_xdr by exact Hf. rewrite rd_opaque_xdr by exact Hv.
  destruct r as [x vf vb b]. cbn [rp_xid rp_verf_flavor rp_verf rp_body] in *.
  destruct b as [res| |lo hi| | |]; cbn [enc_body body_wf body_kind] in *.
  - rewrite rd_u32_xdr by lia. change (0 =? 0) with true. cbv iota. subst k.
    rewrite dec_results_enc by exact Hb. reflexivity.
  - rewrite <- (app_nil_r (xdr_u32 1)). rewrite rd_u32_xdr by lia. reflexivity.
  - destruct Hb as [Hlo Hhi]. unfold u32 in *. rewrite <- (app_nil_r (xdr_u32 hi)), <- ?app_assoc.
    rewrite rd_u32_xdr by lia. change (2 =? 0) with false. change (2 =? 1) with false.
    change (2 =? 2) with true. cbv iota.
    rewrite rd_u32_xdr by exact Hlo. rewrite rd_u32_xdr by exact Hhi. reflexivity.
  - rewrite <- (app_nil_r (xdr_u32 3)). rewrite rd_u32_xdr by lia. reflexivity.
  - rewrite <- (app_nil_r (xdr_u32 4)). rewrite rd_u32_xdr by lia. reflexivity.
  - rewrite <- (app_nil_r (xdr_u32 5)). rewrite rd_u32_xdr by lia. reflexivity.
Qed.

(* ---- the model's strings are XDR strings ---- *)
Lemma xdr_string_opaque (s : bytes) : xdr_string s = xdr_opaque s.
Proof.
  unfold xdr_string, xdr_opaque, xdr_u32. f_equal. f_equal.
  assert (Hp : (xpad (length s) < 4)%nat) by apply xpad_lt.
  pose proof (xpad_align (length s)) as Ha.
  destruct (lenN s mod 4 =? 0) eqn:E.
  - replace (xpad (length s)) with 0%nat; [reflexivity|]. unfold lenN in E. unfold xpad in *. lia.
  - f_equal. unfold lenN in *. unfold xpad in *. lia.
Qed.

(* ---- what rpc_build emits is the encoding of the expected reply ---- *)
Lemma rpc_build_enc (s : rpc_st) (ip : ipaddr) (port : N) (c : rpc_call) :
  r_xid s = rc_xid c -> r_prog s = rc_prog c -> r_progvers s = rc_vers c -> r_proc s = rc_proc c ->
  rpc_build s ip port = enc_reply (expected_reply_at ip port c).
Proof.
  intros Hx Hp Hv Hc. unfold rpc_build, enc_reply, expected_reply_at, expected_body.
  cbn [rp_xid rp_verf_flavor rp_verf rp_body]. rewrite Hx, Hp, Hv, Hc. unfold xdr_u32 at 1. f_equal.
  change (xdr_u32 MSG_REPLY ++ xdr_u32 0 ++ xdr_u32 0 ++ xdr_opaque [] ++ ?x)
    with ([0; 0; 0; 1; 0; 0; 0; 0; 0; 0; 0; 0; 0; 0; 0; 0] ++ x).
  f_equal.
  destruct ((rc_vers c <? 2) || (4 <? rc_vers c)); [reflexivity|].
  destruct (rc_proc c =? 0); [reflexivity|].
  unfold PMAP_PROG. destruct (rc_prog c =? 100000); [|reflexivity].
  unfold rpc_portmap. rewrite Hv, Hc.
  destruct (rc_proc c =? 3).
  - destruct (rc_vers c =? 2); cbn [enc_body enc_result]; [reflexivity|].
    rewrite xdr_string_opaque. reflexivity.
  - destruct (rc_proc c =? 4); [|reflexivity].
    unfold rpc_dump_entry. rewrite Hv.
    destruct (rc_vers c =? 2); cbn [enc_body enc_result dump2 dump3 flat_map enc_mapping enc_rpcb].
    + rewrite <- !app_assoc. reflexivity.
    + rewrite !xdr_string_opaque. unfold netid_of, STR_TCP, STR_TCP6, STR_SUPERUSER, OWNER.
      rewrite <- !app_assoc. reflexivity.
Qed.

(* ---- the expected reply is a well-formed value of the right kind ---- *)
Definition ep_ok (ip : ipaddr) (port : N) : Prop := (length (ip_octets ip) <= 16)%nat /\ port < 65536.

Lemma uaddr_u32 (ip : ipaddr) (port : N) : ep_ok ip port -> u32 (lenN (uaddr_text ip port)).
Proof. intros [Hip _]. unfold u32, lenN. pose proof (uaddr_text_len ip port). lia. Qed.

Lemma netid_u32 (ip : ipaddr) : u32 (lenN (netid_of ip)).
Proof. unfold netid_of. destruct (ip_is_v4 ip); vm_compute; reflexivity. Qed.

Lemma expected_wf (ip : ipaddr) (port : N) (c : rpc_call) :
  call_wf c = true -> ep_ok ip port -> reply_wf (expected_reply_at ip port c).
Proof.
  intros Hwf Hep. apply call_wf_iff in Hwf. destruct Hwf as (Hx & _).
  pose proof (uaddr_u32 ip port Hep) as Hu. pose proof (netid_u32 ip) as Hn.
  destruct Hep as [_ Hport].
  unfold reply_wf, expected_reply_at. cbn [rp_xid rp_verf_flavor rp_verf rp_body].
  split; [exact Hx|]. split; [unfold u32; lia|]. split; [vm_compute; reflexivity|].
  unfold expected_body.
  destruct ((rc_vers c <? 2) || (4 <? rc_vers c)); [cbn; unfold u32; lia|].
  destruct (rc_proc c =? 0); [exact I|].
  destruct (rc_prog c =? PMAP_PROG); [|exact I].
  assert (H6 : u32 IPPROTO_TCP) by (vm_compute; reflexivity).
  assert (Hpm : u32 PMAP_PROG) by (vm_compute; reflexivity).
  assert (Hown : u32 (lenN OWNER)) by (vm_compute; reflexivity).
  assert (Hp : u32 port) by (unfold u32; lia).
  assert (H2 : u32 2) by (vm_compute; reflexivity).
  assert (H3 : u32 3) by (vm_compute; reflexivity).
  assert (H4 : u32 4) by (vm_compute; reflexivity).
  destruct (rc_proc c =? 3).
  - destruct (rc_vers c =? 2); cbn [body_wf result_wf]; assumption.
  - destruct (rc_proc c =? 4); [|exact I].
    destruct (rc_vers c =? 2); cbn [body_wf result_wf dump2 dump3].
    + repeat constructor; assumption.
    + repeat constructor; assumption.
Qed.

Lemma expected_kind (ip : ipaddr) (port : N) (c : rpc_call) :
  body_kind (result_kind c) (expected_body ip port c).
Proof.
  unfold expected_body, result_kind.
  destruct ((rc_vers c <? 2) || (4 <? rc_vers c)); [exact I|].
  destruct (rc_proc c =? 0) eqn:E0.
  - apply N.eqb_eq in E0. rewrite E0. change (0 =? 3) with false. change (0 =? 4) with false.
    rewrite !andb_false_r. reflexivity.
  - destruct (rc_prog c =? PMAP_PROG); [|exact I]. cbn [andb].
    destruct (rc_proc c =? 3).
    + destruct (rc_vers c =? 2); reflexivity.
    + destruct (rc_proc c =? 4); [|exact I]. destruct (rc_vers c =? 2); reflexivity.
Qed.

(* the reply the model builds for a parsed call decodes to the expected reply *)
Theorem rpc_build_decodes (s : rpc_st) (ip : ipaddr) (port : N) (c : rpc_call) :
  call_wf c = true -> ep_ok ip port ->
  r_xid s = rc_xid c -> r_prog s = rc_prog c -> r_progvers s = rc_vers c -> r_proc s = rc_proc c ->
  dec_reply (result_kind c) (rpc_build s ip port) = Some (expected_reply_at ip port c) /\
  (length (rpc_build s ip port) mod 4 = 0)%nat.
Proof.
  intros Hwf Hep Hx Hp Hv Hc. rewrite (rpc_build_enc s ip port c Hx Hp Hv Hc). split.
  - apply dec_reply_enc; [apply expected_wf; assumption | apply expected_kind].
  - apply al4_enc_reply.
Qed.

(* length bound (for the record mark and for C04's amplification bound) *)
Lemma xdr_opaque_len (b : bytes) : (length (xdr_opaque b) <= length b + 7)%nat.
Proof.
  unfold xdr_opaque. rewrite !app_length, zeros_length. cbn [xdr_u32 be32 length].
  pose proof (xpad_lt (length b)). lia.
Qed.

Lemma rpc_build_len (s : rpc_st) (ip : ipaddr) (port : N) :
  (length (ip_octets ip) <= 16)%nat -> (length (rpc_build s ip port) <= 4000)%nat.
Proof.
  intros Hip. pose proof (uaddr_text_len ip port) as Hu. change (uaddr_text ip port) with (uaddr ip port) in Hu.
  pose proof (xdr_opaque_len (uaddr ip port)) as Hx. rewrite <- xdr_string_opaque in Hx.
  assert (Hn : (length (xdr_string (if ip_is_v4 ip then STR_TCP else STR_TCP6)) <= 8)%nat)
    by (destruct (ip_is_v4 ip); vm_compute; lia).
  assert (Ho : length (xdr_string STR_SUPERUSER) = 16%nat) by reflexivity.
  unfold rpc_build. rewrite !app_length. cbn [be32 length].
  destruct ((r_progvers s <? 2) || (4 <? r_progvers s)); [cbn [length]; lia|].
  destruct (r_proc s =? 0); [cbn [length]; lia|].
  destruct (r_prog s =? 100000); [|cbn [length]; lia].
  unfold rpc_portmap.
  destruct (r_proc s =? 3).
  - destruct (r_progvers s =? 2); rewrite !app_length; cbn [be32 length]; lia.
  - destruct (r_proc s =? 4); [|cbn [length]; lia].
    unfold rpc_dump_entry.
    destruct (r_progvers s =? 2); rewrite !app_length; cbn [be32 length]; lia.
Qed.

(* ---- the UDP handler ---- *)
Theorem rpc_udp_call (ip : ipaddr) (port : N) (c : rpc_call) (tail : bytes) :
  call_wf c = true -> ep_ok ip port ->
  exists r, rpc_repl_udp ip port (ser_call c ++ tail) = Some r /\
            dec_reply (result_kind c) r = Some (expected_reply_at ip port c) /\
            (length r mod 4 = 0)%nat.
Proof.
  intros Hwf Hep. destruct (rpc_parse_call c tail Hwf) as (Hst & Hx & Hp & Hv & Hc & Hmt).
  unfold rpc_repl_udp. rewrite Hst, Hmt. change ((R_END =? R_END) && (0 =? 0)) with true. cbv iota.
  eexists. split; [reflexivity|]. apply rpc_build_decodes; assumption.
Qed.

(* a complete message whose type word is not CALL is not answered *)
Theorem rpc_udp_not_call (ip : ipaddr) (port : N) (mt : N) (c : rpc_call) (tail : bytes) :
  call_wf c = true -> mt < 4294967296 -> mt <> 0 ->
  rpc_repl_udp ip port (ser_msg mt c ++ tail) = None.
Proof.
  intros Hwf Hmt Hne. destruct (rpc_parse_msg mt c tail Hmt Hwf) as (Hst & _ & _ & _ & _ & Hm).
  unfold rpc_repl_udp. rewrite Hst, Hm. replace (mt =? 0) with false by lia.
  rewrite andb_false_r. reflexivity.
Qed.

(* a truncated call is not answered *)
Theorem rpc_udp_truncated (ip : ipaddr) (port : N) (c : rpc_call) (tail : bytes) (n : nat) :
  call_wf c = true -> (n < complete_at c)%nat ->
  rpc_repl_udp ip port (firstn n (ser_call c ++ tail)) = None.
Proof.
  intros Hwf Hn. unfold rpc_repl_udp.
  pose proof (rpc_parse_truncated 0 c tail n eq_refl Hwf Hn) as H. fold (ser_call c) in H.
  destruct (r_state _ =? R_END) eqn:E; [apply N.eqb_eq in E; contradiction | reflexivity].
Qed.

(* ---- the TCP handler: record mark ---- *)
Definition mark_of (len : N) : bytes :=
  [128 + (len / 16777216) mod 256; (len / 65536) mod 256; (len / 256) mod 256; len mod 256].

Lemma mark_of_record (len : N) : len < 2147483648 -> mark_of len = record_mark len.
Proof.
  intros H. unfold mark_of, record_mark, LAST_FRAG, be32.
  f_equal; [lia | f_equal; [lia | f_equal; [lia | f_equal; lia]]].
Qed.

Lemma rpc_tcp_complete (s0 : rpc_st) (ip : ipaddr) (port : N) (data : bytes) :
  r_state (rpc_parse s0 data) = R_END -> r_mtype (rpc_parse s0 data) = 0 ->
  (length (ip_octets ip) <= 16)%nat ->
  rpc_repl_tcp s0 ip port data =
    (rpc_new R_FRAG,
     Some (record_mark (lenN (rpc_build (rpc_parse s0 data) ip port)) ++ rpc_build (rpc_parse s0 data) ip port)).
Proof.
  intros Hst Hmt Hip. unfold rpc_repl_tcp. rewrite Hst, Hmt.
  change (R_END =? R_END) with true. change (0 =? 0) with true. cbv iota zeta.
  fold (mark_of (lenN (rpc_build (rpc_parse s0 data) ip port))).
  rewrite mark_of_record; [reflexivity|].
  pose proof (rpc_build_len (rpc_parse s0 data) ip port Hip). unfold lenN. lia.
Qed.

Theorem rpc_tcp_call (ip : ipaddr) (port : N) (c : rpc_call) (m0 m1 m2 m3 : N) (tail : bytes) :
  call_wf c = true -> ep_ok ip port ->
  exists r, rpc_repl_tcp (rpc_new R_FRAG) ip port ([m0; m1; m2; m3] ++ ser_call c ++ tail) =
              (rpc_new R_FRAG, Some (record_mark (lenN r) ++ r)) /\
            strip_mark (record_mark (lenN r) ++ r) = Some r /\
            dec_reply (result_kind c) r = Some (expected_reply_at ip port c) /\
            (length r mod 4 = 0)%nat.
Proof.
  intros Hwf Hep.
  destruct (rpc_parse_msg_tcp 0 c m0 m1 m2 m3 tail eq_refl Hwf) as (Hst & Hx & Hp & Hv & Hc & Hmt).
  change (ser_msg 0 c) with (ser_call c) in *.
  destruct Hep as [Hip Hport].
  rewrite (rpc_tcp_complete _ ip port _ Hst Hmt Hip).
  eexists. split; [reflexivity|]. split.
  - apply strip_mark_record.
    pose proof (rpc_build_len (rpc_parse (rpc_new R_FRAG) ([m0; m1; m2; m3] ++ ser_call c ++ tail)) ip port Hip).
    unfold lenN. lia.
  - apply rpc_build_decodes; try assumption. split; assumption.
Qed.

Theorem rpc_tcp_not_call (ip : ipaddr) (port : N) (mt : N) (c : rpc_call) (m0 m1 m2 m3 : N) (tail : bytes) :
  call_wf c = true -> mt < 4294967296 -> mt <> 0 ->
  rpc_repl_tcp (rpc_new R_FRAG) ip port ([m0; m1; m2; m3] ++ ser_msg mt c ++ tail) = (rpc_new R_FRAG, None).
Proof.
  intros Hwf Hmt Hne.
  destruct (rpc_parse_msg_tcp mt c m0 m1 m2 m3 tail Hmt Hwf) as (Hst & _ & _ & _ & _ & Hm).
  unfold rpc_repl_tcp. rewrite Hst, Hm. change (R_END =? R_END) with true. cbv iota.
  replace (mt =? 0) with false by lia. reflexivity.
Qed.

(* ---- the payload-level monitor holds on the handlers' output (even the strict one:
   the handlers do not identify, they are called on identified payloads) ---- *)
Definition ctx_ok (ctx : app_ctx) : Prop := (length (a_dst ctx) <= 16)%nat /\ a_dport ctx < 65536.

Lemma ctx_ep_ok (ctx : app_ctx) : ctx_ok ctx -> ep_ok (ctx_dst_ip ctx) (a_dport ctx).
Proof. unfold ctx_ok, ep_ok, ctx_dst_ip. destruct (a_v4 ctx); cbn [ip_octets]; tauto. Qed.

Theorem app_ok_rpc_udp (strict : bool) (ctx : app_ctx) (p : bytes) :
  a_tcp ctx = false -> bytes_ok p = true -> ctx_ok ctx ->
  app_ok_C16_gen strict ctx p (rpc_repl_udp (ctx_dst_ip ctx) (a_dport ctx) p) = true.
Proof.
  intros Htcp Hok Hctx. unfold app_ok_C16_gen. rewrite Htcp. unfold scope_call.
  destruct (dec_call p) as [[c tail]|] eqn:Hd; [|reflexivity].
  destruct (call_in_scope c); [|reflexivity].
  destruct (negb strict && rpc_shadowed false p); [reflexivity|].
  destruct (dec_call_sound p tail c Hok Hd) as [-> Hwf].
  destruct (rpc_udp_call _ _ c tail Hwf (ctx_ep_ok ctx Hctx)) as (r & -> & Hdec & _).
  rewrite Hdec. apply reply_eqb_refl.
Qed.

Theorem app_ok_rpc_tcp (strict : bool) (ctx : app_ctx) (p : bytes) :
  a_tcp ctx = true -> bytes_ok p = true -> ctx_ok ctx ->
  app_ok_C16_gen strict ctx p (snd (rpc_repl_tcp (rpc_new R_FRAG) (ctx_dst_ip ctx) (a_dport ctx) p)) = true.
Proof.
  intros Htcp Hok Hctx. unfold app_ok_C16_gen. rewrite Htcp. unfold scope_call.
  destruct (strip_mark p) as [body|] eqn:Hs; [|reflexivity].
  destruct (strip_mark_sound p body Hok Hs) as [Hp Hlen].
  assert (Hokb : bytes_ok body = true).
  { rewrite Hp, bytes_ok_app, andb_true_iff in Hok. apply Hok. }
  destruct (dec_call body) as [[c [|x tl]]|] eqn:Hd; try reflexivity.
  destruct (call_in_scope c); [|reflexivity].
  destruct (negb strict && rpc_shadowed true p); [reflexivity|].
  destruct (dec_call_sound body [] c Hokb Hd) as [Hbody Hwf].
  rewrite Hp, Hbody. unfold record_mark, be32.
  match goal with
  | |- context [rpc_repl_tcp _ _ _ ([?b0; ?b1; ?b2; ?b3] ++ _)] =>
    destruct (rpc_tcp_call (ctx_dst_ip ctx) (a_dport ctx) c b0 b1 b2 b3 [] Hwf (ctx_ep_ok ctx Hctx))
      as (r & Hr & Hsm & Hdec & _)
  end.
  rewrite Hr. cbn [snd]. rewrite Hsm, Hdec. apply reply_eqb_refl.
Qed.

(* ---- proto::repl ---- *)
Lemma dispatch_rpc_udp (E : env) (clk : clock) (ci : cinfo) (ip : ipaddr) (port : N) (p : bytes) :
  ci_ip_dst ci = Some ip -> ci_port_dst ci = Some port ->
  dispatch E clk ci PROTO_RPC_UDP None p = Ok (ci, None, rpc_repl_udp ip port p).
Proof. intros Hip Hport. unfold dispatch. rewrite Hip, Hport. reflexivity. Qed.

Lemma dispatch_rpc_tcp (E : env) (clk : clock) (ci : cinfo) (ip : ipaddr) (port : N) (tc : tcb) (r0 : rpc_st) (p : bytes) :
  ci_ip_dst ci = Some ip -> ci_port_dst ci = Some port ->
  (t_pstate tc = None /\ r0 = rpc_new R_FRAG \/ t_pstate tc = Some (PRpc r0)) ->
  dispatch E clk ci PROTO_RPC_TCP (Some tc) p =
    Ok (ci, Some {| t_smack := t_smack tc; t_proto := t_proto tc;
                    t_pstate := Some (PRpc (fst (rpc_repl_tcp r0 ip port p)));
                    t_pending := t_pending tc |},
        snd (rpc_repl_tcp r0 ip port p)).
Proof.
  intros Hip Hport Hps. unfold dispatch.
  change (PROTO_RPC_TCP =? PROTO_HTTP) with false. change (PROTO_RPC_TCP =? PROTO_STUN) with false.
  change (PROTO_RPC_TCP =? PROTO_SSH) with false. change (PROTO_RPC_TCP =? PROTO_GHOST) with false.
  change (PROTO_RPC_TCP =? PROTO_RPC_TCP) with true. cbv iota.
  rewrite Hip, Hport.
  destruct Hps as [[-> ->] | ->]; destruct (rpc_repl_tcp _ ip port p) as [r' out]; reflexivity.
Qed.

Theorem proto_udp_rpc (E : env) (clk : clock) (ci : cinfo) (ip : ipaddr) (port : N) (p : bytes) :
  ci_ip_dst ci = Some ip -> ci_port_dst ci = Some port ->
  udp_id E p = Some PROTO_RPC_UDP ->
  proto_repl_udp E clk ci p = Ok (ci, rpc_repl_udp ip port p).
Proof.
  intros Hip Hport Hid. unfold proto_repl_udp. unfold udp_id in Hid.
  destruct (search_next (e_proto_tbl E) BASE_STATE p) as [[id st] n].
  rewrite Hid. rewrite (dispatch_rpc_udp E clk ci ip port p Hip Hport). reflexivity.
Qed.

Theorem proto_tcp_first_rpc (E : env) (clk : clock) (ci : cinfo) (ip : ipaddr) (port : N) (p : bytes) :
  ci_ip_dst ci = Some ip -> ci_port_dst ci = Some port ->
  tcp_first_id E p = Some PROTO_RPC_TCP ->
  exists st,
    proto_repl_tcp E clk ci tcb_new p =
      Ok (ci, {| t_smack := st; t_proto := PROTO_RPC_TCP;
                 t_pstate := Some (PRpc (fst (rpc_repl_tcp (rpc_new R_FRAG) ip port p)));
                 t_pending := [] |},
          snd (rpc_repl_tcp (rpc_new R_FRAG) ip port p)).
Proof.
  intros Hip Hport Hid. rewrite Pending.proto_repl_tcp_first. unfold tcp_first_id in Hid.
  destruct (search_next (e_proto_tbl E) BASE_STATE p) as [[id st] n]. subst id. cbv zeta.
  cbn [id_of t_proto]. exists st.
  rewrite (dispatch_rpc_tcp E clk ci ip port _ (rpc_new R_FRAG) p Hip Hport)
    by (left; split; reflexivity).
  reflexivity.
Qed.

(* ---- C16 at the level of proto::repl, in terms of the application context ---- *)
Theorem C16_proto_udp (E : env) (clk : clock) (cfg : config) (ms md : bytes) (ctx : app_ctx) (p : bytes) :
  a_tcp ctx = false -> bytes_ok p = true -> ctx_ok ctx ->
  udp_id E p = Some PROTO_RPC_UDP ->
  exists o, proto_repl_udp E clk (ctx_ci cfg ms md ctx) p = Ok (ctx_ci cfg ms md ctx, o) /\
            app_ok_C16_strict ctx p o = true /\ app_ok_C16 ctx p o = true.
Proof.
  intros Htcp Hok Hctx Hid.
  exists (rpc_repl_udp (ctx_dst_ip ctx) (a_dport ctx) p). split; [|split].
  - apply proto_udp_rpc; [reflexivity | reflexivity | exact Hid].
  - apply (app_ok_rpc_udp true); assumption.
  - apply (app_ok_rpc_udp false); assumption.
Qed.

Theorem C16_proto_tcp (E : env) (clk : clock) (cfg : config) (ms md : bytes) (ctx : app_ctx) (p : bytes) :
  a_tcp ctx = true -> bytes_ok p = true -> ctx_ok ctx ->
  tcp_first_id E p = Some PROTO_RPC_TCP ->
  exists tc' o, proto_repl_tcp E clk (ctx_ci cfg ms md ctx) tcb_new p = Ok (ctx_ci cfg ms md ctx, tc', o) /\
                app_ok_C16_strict ctx p o = true /\ app_ok_C16 ctx p o = true.
Proof.
  intros Htcp Hok Hctx Hid.
  destruct (proto_tcp_first_rpc E clk (ctx_ci cfg ms md ctx) (ctx_dst_ip ctx) (a_dport ctx) p
              eq_refl eq_refl Hid) as [st Hr].
  eexists. exists (snd (rpc_repl_tcp (rpc_new R_FRAG) (ctx_dst_ip ctx) (a_dport ctx) p)).
  split; [exact Hr | split].
  - apply (app_ok_rpc_tcp true); assumption.
  - apply (app_ok_rpc_tcp false); assumption.
Qed.

(* the same on structured calls, with the decoded reply spelled out *)
Theorem C16_proto_udp_call (E : env) (clk : clock) (cfg : config) (ms md : bytes) (ctx : app_ctx)
        (c : rpc_call) (tail : bytes) :
  call_wf c = true -> ctx_ok ctx ->
  udp_id E (ser_call c ++ tail) = Some PROTO_RPC_UDP ->
  exists r, proto_repl_udp E clk (ctx_ci cfg ms md ctx) (ser_call c ++ tail) = Ok (ctx_ci cfg ms md ctx, Some r) /\
            dec_reply (result_kind c) r = Some (expected_reply ctx c) /\
            (length r mod 4 = 0)%nat.
Proof.
  intros Hwf Hctx Hid.
  destruct (rpc_udp_call (ctx_dst_ip ctx) (a_dport ctx) c tail Hwf (ctx_ep_ok ctx Hctx)) as (r & Hr & Hdec & Hal).
  exists r. split; [|split; assumption].
  rewrite <- Hr. apply proto_udp_rpc; [reflexivity | reflexivity | exact Hid].
Qed.

Theorem C16_proto_tcp_call (E : env) (clk : clock) (cfg : config) (ms md : bytes) (ctx : app_ctx)
        (c : rpc_call) (tail : bytes) :
  call_wf c = true -> ctx_ok ctx ->
  tcp_first_id E (record_mark (lenN (ser_call c)) ++ ser_call c ++ tail) = Some PROTO_RPC_TCP ->
  exists tc' r,
    proto_repl_tcp E clk (ctx_ci cfg ms md ctx) tcb_new (record_mark (lenN (ser_call c)) ++ ser_call c ++ tail)
      = Ok (ctx_ci cfg ms md ctx, tc', Some (record_mark (lenN r) ++ r)) /\
    t_pstate tc' = Some (PRpc (rpc_new R_FRAG)) /\
    strip_mark (record_mark (lenN r) ++ r) = Some r /\
    dec_reply (result_kind c) r = Some (expected_reply ctx c) /\
    (length r mod 4 = 0)%nat.
Proof.
  intros Hwf Hctx Hid.
  destruct (proto_tcp_first_rpc E clk (ctx_ci cfg ms md ctx) (ctx_dst_ip ctx) (a_dport ctx) _
              eq_refl eq_refl Hid) as [st Hr].
  unfold record_mark, be32 in Hr |- *.
  match type of Hr with
  | context [rpc_repl_tcp _ _ _ ([?b0; ?b1; ?b2; ?b3] ++ _)] =>
    destruct (rpc_tcp_call (ctx_dst_ip ctx) (a_dport ctx) c b0 b1 b2 b3 tail Hwf (ctx_ep_ok ctx Hctx))
      as (r & Hrr & Hsm & Hdec & Hal)
  end.
  rewrite Hrr in Hr. cbn [fst snd] in Hr.
  eexists. exists r. split; [exact Hr|]. cbn [t_pstate]. tauto.
Qed.
