(* Proofs/Later.v -- later data segments of a TCP flow bound to the STUN, SSH or Gh0st
   responder (Spec/Later.v).

   1. proto::repl: on a control block whose [t_proto] is already set, [tcp_identify] is the
      identity ([tcp_identify_sticky]: neither the matcher state nor [t_pending] is
      touched, the matcher is not run) and [dispatch] is called with that id; the STUN,
      SSH and Gh0st branches of [dispatch] hand the block back as it is.  Hence the block is
      UNCHANGED (not only its [t_proto]) and the statement applies again to the next
      segment: [later_*_stream].
   2. frames: through [tcp_later_lift] (Proofs/C11uFrame.v).  The connection table after the
      frame is the table before it; the monitors of Spec/Later.v hold of the emitted frame. *)
From Coq Require Import Lia.
From MS Require Import Proofs.Tactics Proofs.Pending Stun Ssh Ghost Proto L2
     Spec.C11uFrame
     Spec.View Spec.RefDec Spec.TcpRef Spec.RefStun Spec.AppView Spec.History Spec.EnvOk
     Spec.C15 Spec.C18 Spec.Later
     Proofs.Pipeline Proofs.ViewLemmas Proofs.C06 Proofs.C07 Proofs.Lift Proofs.LiftTcp
     Proofs.C15Model Proofs.C15Handler Proofs.C15Proto Proofs.C15Frame Proofs.C18 Proofs.C11uFrame.

(* ================================================================== *)
(* 1. proto::repl on a block that is already bound                     *)
(* ================================================================== *)
Lemma proto_repl_tcp_bound E clk ci tc p :
  t_proto tc <> PROTO_NONE ->
  proto_repl_tcp E clk ci tc p =
  (do r <- dispatch E clk ci (t_proto tc) (Some tc) p;
   let '(ci', t', out) := r in Ok (ci', match t' with Some x => x | None => tc end, out)).
Proof. intros H. unfold proto_repl_tcp. rewrite (tcp_identify_sticky E tc p H). reflexivity. Qed.

Lemma stun_not_none : PROTO_STUN <> PROTO_NONE.
Proof. vm_compute. discriminate. Qed.
Lemma ssh_not_none : PROTO_SSH <> PROTO_NONE.
Proof. vm_compute. discriminate. Qed.
Lemma ghost_not_none : PROTO_GHOST <> PROTO_NONE.
Proof. vm_compute. discriminate. Qed.

(* what is returned: the responder's client information and payload; the block as it was *)
Theorem later_stun_repl E clk ci tc p :
  t_proto tc = PROTO_STUN ->
  proto_repl_tcp E clk ci tc p = Ok (fst (stun_repl ci p), tc, snd (stun_repl ci p)).
Proof.
  intros H. rewrite proto_repl_tcp_bound by (rewrite H; exact stun_not_none).
  rewrite H, dispatch_stun. reflexivity.
Qed.

Theorem later_ssh_repl E clk ci tc p :
  t_proto tc = PROTO_SSH ->
  proto_repl_tcp E clk ci tc p = Ok (ci, tc, if ssh_ref p then Some (e_ssh_banner E) else None).
Proof.
  intros H. rewrite proto_repl_tcp_bound by (rewrite H; exact ssh_not_none).
  rewrite H, dispatch_ssh. reflexivity.
Qed.

Theorem later_ghost_repl E clk ci tc p :
  t_proto tc = PROTO_GHOST ->
  proto_repl_tcp E clk ci tc p = Ok (ci, tc, Some (e_ghost E)).
Proof.
  intros H. rewrite proto_repl_tcp_bound by (rewrite H; exact ghost_not_none).
  rewrite H, dispatch_ghost. reflexivity.
Qed.

(* ---- any number of later segments, each with its own clock reading and client
   information: the block never changes, the outputs are the responder's, segment by
   segment ---- *)
Definition seg_ci (x : clock * cinfo * bytes) : cinfo := snd (fst x).
Definition seg_data (x : clock * cinfo * bytes) : bytes := snd x.

Lemma later_stream_const E tc (g : clock * cinfo * bytes -> cinfo * option bytes) :
  (forall clk ci p, proto_repl_tcp E clk ci tc p = Ok (fst (g (clk, ci, p)), tc, snd (g (clk, ci, p)))) ->
  forall segs, later_stream (proto_repl_tcp E) tc segs = Ok (tc, map g segs).
Proof.
  intros Hg. induction segs as [|[[clk ci] s] rest IH]; [reflexivity|].
  cbn [later_stream map]. rewrite Hg, IH. destruct (g (clk, ci, s)); reflexivity.
Qed.

Theorem later_stun_stream E tc segs :
  t_proto tc = PROTO_STUN ->
  later_stream (proto_repl_tcp E) tc segs = Ok (tc, map (fun x => stun_repl (seg_ci x) (seg_data x)) segs).
Proof.
  intros H. apply (later_stream_const E tc (fun x => stun_repl (seg_ci x) (seg_data x))).
  intros clk ci p. exact (later_stun_repl E clk ci tc p H).
Qed.

Theorem later_ssh_stream E tc segs :
  t_proto tc = PROTO_SSH ->
  later_stream (proto_repl_tcp E) tc segs =
    Ok (tc, map (fun x => (seg_ci x, if ssh_ref (seg_data x) then Some (e_ssh_banner E) else None)) segs).
Proof.
  intros H.
  apply (later_stream_const E tc
           (fun x => (seg_ci x, if ssh_ref (seg_data x) then Some (e_ssh_banner E) else None))).
  intros clk ci p. exact (later_ssh_repl E clk ci tc p H).
Qed.

Theorem later_ghost_stream E tc segs :
  t_proto tc = PROTO_GHOST ->
  later_stream (proto_repl_tcp E) tc segs = Ok (tc, map (fun x => (seg_ci x, Some (e_ghost E))) segs).
Proof.
  intros H. apply (later_stream_const E tc (fun x => (seg_ci x, Some (e_ghost E)))).
  intros clk ci p. exact (later_ghost_repl E clk ci tc p H).
Qed.

(* ================================================================== *)
(* 2. against the payload-level judgements of Spec/Later.v             *)
(* ================================================================== *)
(* the later-segment judgement is the one of C15 without the identification clauses: it
   implies both forms of the first-segment / datagram monitor *)
Lemma app_ok_C15_later_gen strict ctx p o :
  app_ok_C15_later ctx p o = true -> app_ok_C15_gen strict ctx p o = true.
Proof.
  unfold app_ok_C15_later, app_ok_C15_gen. destruct (dec_stun_req p) as [m|]; [|reflexivity].
  destruct (is_binding_request m); [|exact (fun H => H)].
  destruct o as [r|]; [|discriminate]. intros ->.
  destruct (stun_published _ p && _); [reflexivity|].
  destruct (is_stun_response_to _ r); reflexivity.
Qed.

(* the responder against the later-segment judgement *)
Theorem app_ok_stun_later (ctx : app_ctx) (ci : cinfo) (p : bytes) :
  bytes_ok p = true -> c15_ctx_ok ctx ->
  ci_ip_src ci = Some (ctx_src_ip ctx) -> ci_port_src ci = Some (a_sport ctx) ->
  ci_port_dst ci = Some (a_dport ctx) ->
  app_ok_C15_later ctx p (snd (stun_repl ci p)) = true /\
  (forall m, dec_stun_req p = Some m ->
     if is_binding_request m
     then stun_repl ci p =
            (if change_port_requested m then ci_set_port_dst ci ((a_dport ctx + 1) mod 65536) else ci,
             Some (stun_response (sm_tid m) (ctx_src_ip ctx) (a_sport ctx))) /\
          dec_stun_resp (stun_response (sm_tid m) (ctx_src_ip ctx) (a_sport ctx)) =
            Some (expected_response (sm_tid m) (ctx_src_ip ctx) (a_sport ctx))
     else stun_repl ci p = (ci, None)).
Proof.
  intros Hok Hctx Hsrc Hsp Hdp.
  pose proof (u8_at_lt 0 p Hok) as H0. pose proof (u8_at_lt 1 p Hok) as H1.
  split.
  - unfold app_ok_C15_later. destruct (dec_stun_req p) as [m|] eqn:Hdec; [|reflexivity].
    destruct (tid_of_request p m Hok Hdec) as [Htl Htb].
    destruct (is_binding_request m) eqn:Hb.
    + rewrite (stun_repl_request ci p m _ _ _ H0 H1 Hdec Hb Hsrc Hsp Hdp). cbn [snd].
      exact (resp_ok_model ctx _ Htl Htb Hctx).
    + rewrite (stun_repl_other ci p m H0 H1 Hdec Hb). reflexivity.
  - intros m Hdec. destruct (tid_of_request p m Hok Hdec) as [Htl Htb].
    destruct (is_binding_request m) eqn:Hb.
    + split; [exact (stun_repl_request ci p m _ _ _ H0 H1 Hdec Hb Hsrc Hsp Hdp)|].
      apply stun_response_decodes; [exact Htl|exact Htb|apply Hctx].
    + exact (stun_repl_other ci p m H0 H1 Hdec Hb).
Qed.

(* STUN, proto::repl: arbitrary block bound to STUN, no hypothesis on the matcher *)
Theorem later_stun_proto E clk ctx ci tc p :
  t_proto tc = PROTO_STUN -> bytes_ok p = true -> c15_ctx_ok ctx ->
  ci_ip_src ci = Some (ctx_src_ip ctx) -> ci_port_src ci = Some (a_sport ctx) ->
  ci_port_dst ci = Some (a_dport ctx) ->
  exists ci' o,
    proto_repl_tcp E clk ci tc p = Ok (ci', tc, o) /\
    app_ok_C15_later ctx p o = true /\
    app_ok_C15_strict ctx p o = true /\ app_ok_C15 ctx p o = true /\
    ci_same_except_dport ci ci' /\
    (forall m, dec_stun_req p = Some m ->
       if is_binding_request m
       then o = Some (stun_response (sm_tid m) (ctx_src_ip ctx) (a_sport ctx)) /\
            dec_stun_resp (stun_response (sm_tid m) (ctx_src_ip ctx) (a_sport ctx)) =
              Some (expected_response (sm_tid m) (ctx_src_ip ctx) (a_sport ctx)) /\
            ci_port_dst ci' = Some (expected_reply_sport ctx m)
       else o = None /\ ci' = ci) /\
    (o = None -> ci' = ci).
Proof.
  intros Ht Hok Hctx Hsrc Hsp Hdp.
  exists (fst (stun_repl ci p)), (snd (stun_repl ci p)).
  destruct (app_ok_stun_later ctx ci p Hok Hctx Hsrc Hsp Hdp) as [L1 L2].
  destruct (app_ok_stun true ctx ci p Hok Hctx Hsrc Hsp Hdp) as (_ & A2 & _ & A4).
  split; [exact (later_stun_repl E clk ci tc p Ht)|].
  split; [exact L1|].
  split; [exact (app_ok_C15_later_gen true ctx p _ L1)|].
  split; [exact (app_ok_C15_later_gen false ctx p _ L1)|].
  split; [exact A2|]. split; [|exact A4].
  intros m Hm. specialize (L2 m Hm). destruct (is_binding_request m).
  - destruct L2 as [L2 L3]. rewrite L2. cbn [fst snd]. split; [reflexivity|]. split; [exact L3|].
    unfold expected_reply_sport. destruct (change_port_requested m); [reflexivity|exact Hdp].
  - rewrite L2. split; reflexivity.
Qed.

(* SSH / Gh0st against the judgements, given the two constants *)
Lemma app_ok_ssh_later ctx banner p :
  banner = S_SERVER_ID ->
  app_ok_C18_later_ssh ctx p (if ssh_ref p then Some banner else None) = true.
Proof.
  intros ->. unfold app_ok_C18_later_ssh.
  destruct (Bytes.is_prefix S_SSH_20 p || Bytes.is_prefix S_SSH_199 p); [|reflexivity].
  destruct (ssh_ref p); [|reflexivity]. apply bytes_eqb_eq. reflexivity.
Qed.

Lemma app_ok_ghost_later ctx g p :
  ghost_wf g = true -> app_ok_C18_later_ghost ctx p (Some g) = true.
Proof.
  intros H. unfold app_ok_C18_later_ghost. destruct (Bytes.is_prefix S_GHOST p); [exact H|reflexivity].
Qed.

Theorem later_ssh_proto E clk ctx ci tc p :
  env_ok E = true -> t_proto tc = PROTO_SSH ->
  exists o,
    proto_repl_tcp E clk ci tc p = Ok (ci, tc, o) /\
    o = (if ssh_ref p then Some S_SERVER_ID else None) /\
    app_ok_C18_later_ssh ctx p o = true.
Proof.
  intros HE Ht. destruct (env_ok_c18 E HE) as [Hb _].
  exists (if ssh_ref p then Some (e_ssh_banner E) else None).
  split; [exact (later_ssh_repl E clk ci tc p Ht)|].
  split; [rewrite Hb; reflexivity|]. apply app_ok_ssh_later. exact Hb.
Qed.

Theorem later_ghost_proto E clk ctx ci tc p :
  env_ok E = true -> t_proto tc = PROTO_GHOST ->
  proto_repl_tcp E clk ci tc p = Ok (ci, tc, Some (e_ghost E)) /\
  ghost_wf (e_ghost E) = true /\
  app_ok_C18_later_ghost ctx p (Some (e_ghost E)) = true.
Proof.
  intros HE Ht. destruct (env_ok_c18 E HE) as [_ Hg].
  split; [exact (later_ghost_repl E clk ci tc p Ht)|]. split; [exact Hg|].
  apply app_ok_ghost_later. exact Hg.
Qed.

(* ================================================================== *)
(* 3. frames                                                           *)
(* ================================================================== *)
(* setting a flow's block to the value it has leaves the table as it is *)
Lemma tbl_set_find_same k v tb : tbl_find k tb = Some v -> tbl_set k v tb = tb.
Proof.
  induction tb as [|[k' v'] tb IH]; cbn [tbl_find tbl_set]; [discriminate|].
  destruct (k =? k') eqn:Hk.
  - intros H. injection H as ->. apply N.eqb_eq in Hk. subst k'. reflexivity.
  - intros H. rewrite (IH H). reflexivity.
Qed.

Lemma tcp_req_data cfg f v :
  view_tcp cfg f = Some v -> is_data (tcp_flags (v_l4 v)) = true ->
  tcp_req cfg f = Some (ctx_of true v, tcp_payload (v_l4 v)).
Proof. intros Hv Hd. unfold tcp_req. rewrite Hv, Hd. reflexivity. Qed.

Lemma tcp_payload_ok cfg f v :
  bytes_ok f = true -> view cfg f = Some v -> bytes_ok (tcp_payload (v_l4 v)) = true.
Proof.
  intros Hf Hv. pose proof (view_l4_ok _ _ _ Hf Hv) as Hok. unfold tcp_payload.
  destruct (_ <=? _)%nat; [reflexivity|apply bytes_ok_skipn, Hok].
Qed.

(* the generic part: a later data segment of a flow whose block [tc] the application layer
   hands back unchanged, with client information [ci'] and output [out] *)
Lemma later_frame_gen E cfg clk tb tc f tb' r evs v ci' out :
  cfg_ok cfg = true -> bytes_ok f = true ->
  view_tcp cfg f = Some v ->
  is_data (tcp_flags (v_l4 v)) = true ->
  tbl_find (flow_cookie cfg (flow_of v)) tb = Some tc ->
  proto_repl_tcp E clk (ctx_ci cfg (slice 6 6 f) (slice 0 6 f) (ctx_of true v)) tc (tcp_payload (v_l4 v))
    = Ok (ci', tc, out) ->
  reply E cfg clk tb f = Ok (tb', r, evs) ->
  tb' = tb /\ tcp_resp r = Some (norm_out out) /\ tcp_reply_is v ci' out r.
Proof.
  intros Hcfg Hf Hvt Hd Hfind Hpr Hr.
  destruct (view_tcp_view _ _ _ Hvt) as [Hv Hp6].
  destruct (tcp_later_lift E cfg clk tb tc f tb' r evs v Hcfg Hf Hvt Hd Hfind Hr)
    as (ci2 & tc2 & out2 & Hpr2 & Htb & Hresp & Hrep).
  rewrite (tcp_ci_ctx cfg f v Hp6), Hpr in Hpr2. injection Hpr2 as <- <- <-.
  split; [rewrite Htb; exact (tbl_set_find_same _ _ _ Hfind)|]. split; assumption.
Qed.

Lemma some_inj {A : Type} (a b : A) : Some a = Some b -> a = b.
Proof. intros H. injection H as ->. reflexivity. Qed.

Lemma ctx_ci_ports cfg ms md ctx :
  ci_port_src (ctx_ci cfg ms md ctx) = Some (a_sport ctx) /\
  ci_port_dst (ctx_ci cfg ms md ctx) = Some (a_dport ctx).
Proof. split; reflexivity. Qed.

(* ---------- STUN ---------- *)
Theorem later_stun_frame E cfg clk tb tc f tb' r evs v :
  cfg_ok cfg = true -> bytes_ok f = true ->
  view_tcp cfg f = Some v ->
  is_data (tcp_flags (v_l4 v)) = true ->
  tbl_find (flow_cookie cfg (flow_of v)) tb = Some tc ->
  t_proto tc = PROTO_STUN ->
  reply E cfg clk tb f = Ok (tb', r, evs) ->
  ok_C15_tcp_later cfg f r = true /\ tb' = tb /\
  (forall m, dec_stun_req (tcp_payload (v_l4 v)) = Some m ->
     exists rf e i t,
       r = Some rf /\ dec_frame_tcp rf = Some (e, i, t) /\
       dt_dport t = a_sport (ctx_of true v) /\
       dt_seq t = u32_at 8 (v_l4 v) /\
       dt_ack t = wrap32 (u32_at 4 (v_l4 v) + lenN (tcp_payload (v_l4 v))) /\
       if is_binding_request m
       then dt_payload t = stun_response (sm_tid m) (ctx_src_ip (ctx_of true v)) (a_sport (ctx_of true v)) /\
            dec_stun_resp (dt_payload t) =
              Some (expected_response (sm_tid m) (ctx_src_ip (ctx_of true v)) (a_sport (ctx_of true v))) /\
            dt_flags t = ACK + PSH /\
            dt_sport t = expected_reply_sport (ctx_of true v) m
       else dt_payload t = [] /\ dt_flags t = ACK /\ dt_sport t = a_dport (ctx_of true v)).
Proof.
  intros Hcfg Hf Hvt Hd Hfind Ht Hr.
  destruct (view_tcp_view _ _ _ Hvt) as [Hv Hp6].
  set (ctx := ctx_of true v). set (p := tcp_payload (v_l4 v)).
  set (ci := ctx_ci cfg (slice 6 6 f) (slice 0 6 f) ctx).
  pose proof (tcp_payload_ok cfg f v Hf Hv) as Hp. fold p in Hp.
  pose proof (frame_ctx_of true cfg f v Hf Hv) as Hfctx. fold ctx in Hfctx.
  pose proof (frame_ctx_c15 true ctx Hfctx) as Hc15.
  destruct (ctx_ci_fields cfg (slice 6 6 f) (slice 0 6 f) ctx) as (F1 & F2 & F3). fold ci in F1, F2, F3.
  destruct (later_stun_proto E clk ctx ci tc p Ht Hp Hc15 F1 F2 F3)
    as (ci' & o & Hpr & Hmon & _ & _ & Hsame & Hm & _).
  destruct (later_frame_gen E cfg clk tb tc f tb' r evs v ci' o Hcfg Hf Hvt Hd Hfind Hpr Hr)
    as (Htb & Hresp & (rf & e & i & t & -> & Hdec & Hpl & Hfl & Hsp & Hdp & Hseq & Hack)).
  assert (Hne : norm_out o = o).
  { apply norm_out_id. intros d ->. rewrite (later_stun_repl E clk ci tc p Ht) in Hpr.
    injection Hpr as _ Ho. eapply stun_repl_nonempty. rewrite (surjective_pairing (stun_repl ci p)).
    rewrite Ho. reflexivity. }
  rewrite Hne in Hresp.
  assert (Hps : ci_port_src ci' = Some (a_sport ctx)).
  { destruct Hsame as (_ & _ & _ & _ & _ & S6 & _). rewrite S6. exact F2. }
  rewrite Hps in Hdp. unfold option_map in Hdp. apply some_inj in Hdp. rename Hdp into Edp.
  destruct Hc15 as (Hip & Hs16 & Hd16).
  rewrite (N.mod_small _ _ Hs16) in Edp.
  assert (Hspec : forall m, dec_stun_req p = Some m ->
            dt_sport t = (if is_binding_request m then expected_reply_sport ctx m else a_dport ctx)).
  { intros m Hdecm. specialize (Hm m Hdecm). destruct (is_binding_request m).
    - destruct Hm as (_ & _ & Hpd). rewrite Hpd in Hsp. unfold option_map in Hsp. apply some_inj in Hsp.
      rewrite Hsp. apply N.mod_small. apply expected_sport_lt. exact Hd16.
    - destruct Hm as [_ ->]. rewrite F3 in Hsp. unfold option_map in Hsp. apply some_inj in Hsp.
      rewrite Hsp. apply N.mod_small. exact Hd16. }
  split; [|split; [exact Htb|]].
  - unfold ok_C15_tcp_later, ok_app_tcp_later, ok_C15_ports_tcp_later.
    rewrite (tcp_req_data cfg f v Hvt Hd). fold ctx p. rewrite Hresp, Hmon, Hdec. cbn [andb].
    unfold c15_ports_ok. destruct (dec_stun_req p) as [m|] eqn:Hdecm; [|reflexivity].
    destruct (is_binding_request m) eqn:Hb; cbn [andb]; [|reflexivity].
    destruct (is_stun_response_to _ _); [|reflexivity].
    rewrite (Hspec m eq_refl), Hb, Edp, !N.eqb_refl. reflexivity.
  - intros m Hdecm. exists rf, e, i, t. split; [reflexivity|]. split; [exact Hdec|].
    split; [exact Edp|]. split; [exact Hseq|]. split; [exact Hack|].
    pose proof (Hspec m Hdecm) as Hs. specialize (Hm m Hdecm). destruct (is_binding_request m).
    + destruct Hm as (-> & Hd2 & _). cbn [out_bytes out_flags] in Hpl, Hfl.
      split; [exact Hpl|]. split; [rewrite Hpl; exact Hd2|]. split; [exact Hfl|exact Hs].
    + destruct Hm as [-> _]. cbn [out_bytes out_flags] in Hpl, Hfl.
      split; [exact Hpl|]. split; [exact Hfl|exact Hs].
Qed.

(* ---------- SSH, Gh0st: the client information is handed back as it was ---------- *)
Lemma later_frame_same_ci E cfg clk tb tc f tb' r evs v out :
  cfg_ok cfg = true -> bytes_ok f = true ->
  view_tcp cfg f = Some v ->
  is_data (tcp_flags (v_l4 v)) = true ->
  tbl_find (flow_cookie cfg (flow_of v)) tb = Some tc ->
  proto_repl_tcp E clk (ctx_ci cfg (slice 6 6 f) (slice 0 6 f) (ctx_of true v)) tc (tcp_payload (v_l4 v))
    = Ok (ctx_ci cfg (slice 6 6 f) (slice 0 6 f) (ctx_of true v), tc, out) ->
  reply E cfg clk tb f = Ok (tb', r, evs) ->
  tb' = tb /\ tcp_resp r = Some (norm_out out) /\
  exists rf e i t,
    r = Some rf /\ dec_frame_tcp rf = Some (e, i, t) /\
    dt_payload t = out_bytes out /\ dt_flags t = out_flags out /\
    dt_sport t = a_dport (ctx_of true v) /\ dt_dport t = a_sport (ctx_of true v) /\
    dt_seq t = u32_at 8 (v_l4 v) /\
    dt_ack t = wrap32 (u32_at 4 (v_l4 v) + lenN (tcp_payload (v_l4 v))).
Proof.
  intros Hcfg Hf Hvt Hd Hfind Hpr Hr.
  destruct (view_tcp_view _ _ _ Hvt) as [Hv Hp6].
  destruct (later_frame_gen E cfg clk tb tc f tb' r evs v _ out Hcfg Hf Hvt Hd Hfind Hpr Hr)
    as (Htb & Hresp & (rf & e & i & t & -> & Hdec & Hpl & Hfl & Hsp & Hdp & Hseq & Hack)).
  destruct (frame_ctx_of true cfg f v Hf Hv) as (_ & _ & _ & _ & _ & Hs16 & Hd16).
  destruct (ctx_ci_ports cfg (slice 6 6 f) (slice 0 6 f) (ctx_of true v)) as [P1 P2].
  rewrite P2 in Hsp. rewrite P1 in Hdp. unfold option_map in Hsp, Hdp.
  apply some_inj in Hsp. apply some_inj in Hdp. rename Hsp into Esp. rename Hdp into Edp.
  rewrite (N.mod_small _ _ Hd16) in Esp. rewrite (N.mod_small _ _ Hs16) in Edp.
  split; [exact Htb|]. split; [exact Hresp|].
  exists rf, e, i, t. repeat split; assumption.
Qed.

Theorem later_ssh_frame E cfg clk tb tc f tb' r evs v :
  cfg_ok cfg = true -> env_ok E = true -> bytes_ok f = true ->
  view_tcp cfg f = Some v ->
  is_data (tcp_flags (v_l4 v)) = true ->
  tbl_find (flow_cookie cfg (flow_of v)) tb = Some tc ->
  t_proto tc = PROTO_SSH ->
  reply E cfg clk tb f = Ok (tb', r, evs) ->
  ok_C18_tcp_later_ssh cfg f r = true /\ tb' = tb /\
  tcp_resp r = Some (if ssh_ref (tcp_payload (v_l4 v)) then Some S_SERVER_ID else None) /\
  exists rf e i t,
    r = Some rf /\ dec_frame_tcp rf = Some (e, i, t) /\
    dt_payload t = (if ssh_ref (tcp_payload (v_l4 v)) then S_SERVER_ID else []) /\
    dt_flags t = (if ssh_ref (tcp_payload (v_l4 v)) then ACK + PSH else ACK) /\
    dt_sport t = a_dport (ctx_of true v) /\ dt_dport t = a_sport (ctx_of true v) /\
    dt_seq t = u32_at 8 (v_l4 v) /\
    dt_ack t = wrap32 (u32_at 4 (v_l4 v) + lenN (tcp_payload (v_l4 v))).
Proof.
  intros Hcfg HE Hf Hvt Hd Hfind Ht Hr.
  set (ctx := ctx_of true v). set (p := tcp_payload (v_l4 v)).
  destruct (later_ssh_proto E clk ctx (ctx_ci cfg (slice 6 6 f) (slice 0 6 f) ctx) tc p HE Ht)
    as (o & Hpr & Ho & Hmon).
  destruct (later_frame_same_ci E cfg clk tb tc f tb' r evs v o Hcfg Hf Hvt Hd Hfind Hpr Hr)
    as (Htb & Hresp & (rf & e & i & t & Erf & Hdec & Hpl & Hfl & Hrest)).
  assert (Hne : norm_out o = o) by (rewrite Ho; destruct (ssh_ref p); reflexivity).
  rewrite Hne in Hresp.
  split; [|split; [exact Htb|split]].
  - unfold ok_C18_tcp_later_ssh, ok_app_tcp_later. rewrite (tcp_req_data cfg f v Hvt Hd).
    fold ctx p. rewrite Hresp. exact Hmon.
  - rewrite Hresp, Ho. reflexivity.
  - exists rf, e, i, t. split; [exact Erf|]. split; [exact Hdec|].
    split; [rewrite Hpl, Ho; destruct (ssh_ref p); reflexivity|].
    split; [rewrite Hfl, Ho; destruct (ssh_ref p); reflexivity|exact Hrest].
Qed.

Lemma ghost_wf_nonempty g : ghost_wf g = true -> g <> [].
Proof. intros H ->. discriminate H. Qed.

Theorem later_ghost_frame E cfg clk tb tc f tb' r evs v :
  cfg_ok cfg = true -> env_ok E = true -> bytes_ok f = true ->
  view_tcp cfg f = Some v ->
  is_data (tcp_flags (v_l4 v)) = true ->
  tbl_find (flow_cookie cfg (flow_of v)) tb = Some tc ->
  t_proto tc = PROTO_GHOST ->
  reply E cfg clk tb f = Ok (tb', r, evs) ->
  ok_C18_tcp_later_ghost cfg f r = true /\ tb' = tb /\
  exists rf e i t,
    r = Some rf /\ dec_frame_tcp rf = Some (e, i, t) /\
    dt_payload t = e_ghost E /\ ghost_wf (dt_payload t) = true /\
    dt_flags t = ACK + PSH /\
    dt_sport t = a_dport (ctx_of true v) /\ dt_dport t = a_sport (ctx_of true v) /\
    dt_seq t = u32_at 8 (v_l4 v) /\
    dt_ack t = wrap32 (u32_at 4 (v_l4 v) + lenN (tcp_payload (v_l4 v))).
Proof.
  intros Hcfg HE Hf Hvt Hd Hfind Ht Hr.
  set (ctx := ctx_of true v). set (p := tcp_payload (v_l4 v)).
  destruct (later_ghost_proto E clk ctx (ctx_ci cfg (slice 6 6 f) (slice 0 6 f) ctx) tc p HE Ht)
    as (Hpr & Hwf & Hmon).
  destruct (later_frame_same_ci E cfg clk tb tc f tb' r evs v _ Hcfg Hf Hvt Hd Hfind Hpr Hr)
    as (Htb & Hresp & (rf & e & i & t & Erf & Hdec & Hpl & Hfl & Hrest)).
  assert (Hne : norm_out (Some (e_ghost E)) = Some (e_ghost E)).
  { apply norm_out_id. intros d Hd'. injection Hd' as <-. exact (ghost_wf_nonempty _ Hwf). }
  rewrite Hne in Hresp. cbn [out_bytes out_flags] in Hpl, Hfl.
  split; [|split; [exact Htb|]].
  - unfold ok_C18_tcp_later_ghost, ok_app_tcp_later. rewrite (tcp_req_data cfg f v Hvt Hd).
    fold ctx p. rewrite Hresp. exact Hmon.
  - exists rf, e, i, t. split; [exact Erf|]. split; [exact Hdec|]. split; [exact Hpl|].
    split; [rewrite Hpl; exact Hwf|]. split; [exact Hfl|exact Hrest].
Qed.

(* ================================================================== *)
(* 4. any number of later data segments of the flow, through reply()   *)
(* ================================================================== *)
Lemma later_flow_gen E cfg ck tc (M : bytes -> option bytes -> Prop) :
  (forall clk tb f tb' r evs,
     tbl_find ck tb = Some tc -> later_frame cfg ck f ->
     reply E cfg clk tb f = Ok (tb', r, evs) -> tb' = tb /\ M f r) ->
  forall fs tb tb' rs,
    tbl_find ck tb = Some tc ->
    Forall (fun cf : clock * bytes => later_frame cfg ck (snd cf)) fs ->
    flow_run E cfg tb fs = Ok (tb', rs) ->
    tb' = tb /\ Forall2 (fun (cf : clock * bytes) r => M (snd cf) r) fs rs.
Proof.
  intros Hone. induction fs as [|[clk f] rest IH]; intros tb tb' rs Hfind Hall Hrun.
  - cbn in Hrun. injection Hrun as <- <-. split; [reflexivity|constructor].
  - inversion Hall as [|x l Hf Hall']; subst. cbn [snd] in Hf.
    cbn [flow_run] in Hrun.
    destruct (reply E cfg clk tb f) as [[[tb1 r] evs]|s] eqn:Hr; cbn [bind] in Hrun; [|discriminate].
    destruct (flow_run E cfg tb1 rest) as [[tb2 rs']|s] eqn:Hrun'; cbn [bind fst snd] in Hrun; [|discriminate].
    injection Hrun as <- <-.
    destruct (Hone clk tb f tb1 r evs Hfind Hf Hr) as [-> HM].
    destruct (IH tb tb2 rs' Hfind Hall' Hrun') as [-> Hrest].
    split; [reflexivity|]. constructor; [exact HM|exact Hrest].
Qed.

Theorem later_stun_flow E cfg ck tc fs tb tb' rs :
  cfg_ok cfg = true -> t_proto tc = PROTO_STUN ->
  tbl_find ck tb = Some tc ->
  Forall (fun cf : clock * bytes => later_frame cfg ck (snd cf)) fs ->
  flow_run E cfg tb fs = Ok (tb', rs) ->
  tb' = tb /\ Forall2 (fun (cf : clock * bytes) r => ok_C15_tcp_later cfg (snd cf) r = true) fs rs.
Proof.
  intros Hcfg Ht.
  apply (later_flow_gen E cfg ck tc (fun f r => ok_C15_tcp_later cfg f r = true)).
  intros clk tb0 f tb1 r evs Hfind (Hf & v & Hvt & Hd & Hck) Hr. rewrite <- Hck in Hfind.
  destruct (later_stun_frame E cfg clk tb0 tc f tb1 r evs v Hcfg Hf Hvt Hd Hfind Ht Hr) as (H1 & H2 & _).
  split; assumption.
Qed.

Theorem later_ssh_flow E cfg ck tc fs tb tb' rs :
  cfg_ok cfg = true -> env_ok E = true -> t_proto tc = PROTO_SSH ->
  tbl_find ck tb = Some tc ->
  Forall (fun cf : clock * bytes => later_frame cfg ck (snd cf)) fs ->
  flow_run E cfg tb fs = Ok (tb', rs) ->
  tb' = tb /\ Forall2 (fun (cf : clock * bytes) r => ok_C18_tcp_later_ssh cfg (snd cf) r = true) fs rs.
Proof.
  intros Hcfg HE Ht.
  apply (later_flow_gen E cfg ck tc (fun f r => ok_C18_tcp_later_ssh cfg f r = true)).
  intros clk tb0 f tb1 r evs Hfind (Hf & v & Hvt & Hd & Hck) Hr. rewrite <- Hck in Hfind.
  destruct (later_ssh_frame E cfg clk tb0 tc f tb1 r evs v Hcfg HE Hf Hvt Hd Hfind Ht Hr) as (H1 & H2 & _).
  split; assumption.
Qed.

Theorem later_ghost_flow E cfg ck tc fs tb tb' rs :
  cfg_ok cfg = true -> env_ok E = true -> t_proto tc = PROTO_GHOST ->
  tbl_find ck tb = Some tc ->
  Forall (fun cf : clock * bytes => later_frame cfg ck (snd cf)) fs ->
  flow_run E cfg tb fs = Ok (tb', rs) ->
  tb' = tb /\ Forall2 (fun (cf : clock * bytes) r => ok_C18_tcp_later_ghost cfg (snd cf) r = true) fs rs.
Proof.
  intros Hcfg HE Ht.
  apply (later_flow_gen E cfg ck tc (fun f r => ok_C18_tcp_later_ghost cfg f r = true)).
  intros clk tb0 f tb1 r evs Hfind (Hf & v & Hvt & Hd & Hck) Hr. rewrite <- Hck in Hfind.
  destruct (later_ghost_frame E cfg clk tb0 tc f tb1 r evs v Hcfg HE Hf Hvt Hd Hfind Ht Hr) as (H1 & H2 & _).
  split; assumption.
Qed.
