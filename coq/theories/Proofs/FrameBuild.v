(* FrameBuild.v -- concrete Ethernet frames for the non-vacuity examples of the
   frame-level theorems (Proofs/C13Frame.v, C15Frame.v, C16Frame.v): a
   configuration, a client, and builders for Ethernet / IPv4|IPv6 / UDP|TCP
   frames written with the model's own layout.  The first data segment of a TCP
   flow acknowledges the flow's SYN cookie + 1; the cookie is computed here with
   [cookie] (Cookie.v).  Definitions and two small facts; no implementation data. *)
From MS Require Import Bytes Types Cookie L4 L2 Spec.View Spec.TcpRef Spec.AppView Spec.History
     Proofs.C07.

Definition fx_cfg : config :=
  {| c_mac := [192; 255; 238; 192; 255; 238]; c_self := None; c_deny := None;
     c_key0 := 81985529216486895; c_key1 := 1147797409030816545;
     c_level := 5; c_ovf := true |}.
Definition fx_clk : clock :=
  {| clk_date := [84; 104; 117; 44; 32; 48; 49; 32; 79; 99; 116; 32; 50; 48; 50; 54];   (* "Thu, 01 Oct 2026" *)
     clk_filetime := 0 |}.

Definition fx_cmac : bytes := [2; 0; 0; 0; 0; 9].
Definition fx_src4 : bytes := [10; 0; 0; 9].
Definition fx_dst4 : bytes := [10; 0; 0; 1].
Definition fx_src6 : bytes := [32; 1; 13; 184; 0; 0; 0; 0; 0; 0; 0; 0; 0; 0; 0; 9].
Definition fx_dst6 : bytes := [32; 1; 13; 184; 0; 0; 0; 0; 0; 0; 0; 0; 0; 0; 0; 1].

Definition fx_ctx (v4 tcp : bool) (sport dport : N) : app_ctx :=
  {| a_v4 := v4; a_tcp := tcp; a_src := if v4 then fx_src4 else fx_src6;
     a_dst := if v4 then fx_dst4 else fx_dst6; a_sport := sport; a_dport := dport |}.

(* Ethernet + IP around a transport packet *)
Definition fx_ip (v4 : bool) (proto : N) (l4 : bytes) : bytes :=
  c_mac fx_cfg ++ fx_cmac ++
  (if v4 then
     [8; 0] ++ [69; 0] ++ be16 (20 + lenN l4) ++ [0; 0; 0; 0; 64; proto; 0; 0] ++ fx_src4 ++ fx_dst4
   else
     [134; 221] ++ [96; 0; 0; 0] ++ be16 (lenN l4) ++ [proto; 64] ++ fx_src6 ++ fx_dst6) ++ l4.

Definition fx_udp (v4 : bool) (sport dport : N) (p : bytes) : bytes :=
  fx_ip v4 17 (be16 sport ++ be16 dport ++ be16 (8 + lenN p) ++ [0; 0] ++ p).

Definition fx_tcp (v4 : bool) (sport dport seq ack flags : N) (p : bytes) : bytes :=
  fx_ip v4 6 (tcp_header sport dport seq ack flags ++ p).

Definition fx_cookie (v4 : bool) (sport dport : N) : N :=
  cookie (c_key0 fx_cfg) (c_key1 fx_cfg) (if v4 then fx_src4 else fx_src6)
         (if v4 then fx_dst4 else fx_dst6) sport dport.

(* the client's SYN, and its first data segment (PSH+ACK, acknowledging cookie + 1) *)
Definition fx_syn (v4 : bool) (sport dport seq : N) : bytes := fx_tcp v4 sport dport seq 0 SYN [].
Definition fx_data (v4 : bool) (sport dport seq : N) (p : bytes) : bytes :=
  fx_tcp v4 sport dport seq (wrap32 (fx_cookie v4 sport dport + 1)) (PSH + ACK) p.

(* the history in which the client has only sent its SYN *)
Definition fx_hist (v4 : bool) (sport dport seq : N) : list (clock * bytes) :=
  [(fx_clk, fx_syn v4 sport dport seq)].

(* a single flow never collides with itself; an empty reference state agrees with an empty table *)
Lemma no_collision_single cfg fl : no_collision cfg [fl].
Proof. intros a b [<-|[]] [<-|[]] _. reflexivity. Qed.
