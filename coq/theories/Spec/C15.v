(* Spec/C15.v -- STUN: binding requests get a success response reflecting the
   observed address. Written from the property text and Spec/RefStun.v (RFC 5389 /
   RFC 3489 / RFC 5780); nothing is shared with the responder model (Stun.v).
   Definitions only.

   "A STUN Binding Request (with or without the RFC 5389 magic cookie) is answered
    with a Binding Success Response carrying the same 128-bit transaction id, a
    message length equal to the attribute bytes that follow, and a MAPPED-ADDRESS
    attribute whose family, address and port are the IP version, source address and
    source port of the request. A CHANGE-REQUEST with the change-port flag makes the
    response come from the next port number (mod 2^16); other classes and methods get
    no STUN response." *)
From MS Require Export Bytes Types Spec.RefStun Spec.AppView.

(* ---- which payloads the property speaks about ---- *)
Definition is_binding_request (m : stun_msg) : bool :=
  (sm_class m =? CLASS_REQUEST) && (sm_method m =? METHOD_BINDING).

(* the published signatures (identification itself is property C10):
     00 01 * * 21 12 a4 42                                      at the head of the payload
     00 01 00 00 + 16 bytes, END of datagram                    (UDP only)
     00 01 00 08 + 16 bytes + 00 03 00 04 00 00 00 *, END       (UDP only) *)
Definition MAGIC_COOKIE : bytes := [33; 18; 164; 66].
Definition sig_magic (p : bytes) : bool :=
  (8 <=? length p)%nat && bytes_eqb (firstn 2 p) [0; 1] && bytes_eqb (slice 4 4 p) MAGIC_COOKIE.
Definition sig_empty (p : bytes) : bool :=
  (length p =? 20)%nat && bytes_eqb (firstn 4 p) [0; 1; 0; 0].
Definition sig_change (p : bytes) : bool :=
  (length p =? 28)%nat && bytes_eqb (firstn 4 p) [0; 1; 0; 8] && bytes_eqb (slice 20 7 p) [0; 3; 0; 4; 0; 0; 0].
Definition stun_published (tcp : bool) (p : bytes) : bool :=
  sig_magic p || (negb tcp && (sig_empty p || sig_change p)).

(* KNOWN CLASS (C10 finding "wildcard shadowing", same family as C16's
   [rpc_shadowed]): the compiled matcher follows the literal 00 of the two
   end-anchored signatures at offset 2 and loses the wildcard of the magic-cookie
   signature: a magic-cookie request whose length field has a zero high byte (every
   request shorter than 276 bytes) is identified only when the whole datagram also
   fits one of the two end-anchored layouts -- never over TCP. *)
Definition stun_shadowed (tcp : bool) (p : bytes) : bool :=
  sig_magic p && (nth 2 p 1 =? 0) && (tcp || negb (sig_empty p || sig_change p)).

(* ---- the expected response ---- *)
Definition ip_family (a : ipaddr) : N := if ip_is_v4 a then FAMILY_IPV4 else FAMILY_IPV6.

(* as a structured message: success class, binding method, the request's transaction id,
   one attribute, MAPPED-ADDRESS = (reserved 0, family, port, address) *)
Definition expected_response (tid : bytes) (src : ipaddr) (sport : N) : stun_msg :=
  {| sm_class := CLASS_SUCCESS; sm_method := METHOD_BINDING; sm_tid := tid;
     sm_attrs := [(ATTR_MAPPED_ADDRESS, enc_mapped (ip_family src) sport (ip_octets src))] |}.

(* the client information handed back to the transport layer differs from the one received
   at most in the destination port (= the source port of the reply) *)
Definition ci_same_except_dport (a b : cinfo) : Prop :=
  ci_mac_src b = ci_mac_src a /\ ci_mac_dst b = ci_mac_dst a /\ ci_ip_src b = ci_ip_src a /\
  ci_ip_dst b = ci_ip_dst a /\ ci_transport b = ci_transport a /\ ci_port_src b = ci_port_src a /\
  ci_cookie b = ci_cookie a.

Definition ctx_family (ctx : app_ctx) : N := if a_v4 ctx then FAMILY_IPV4 else FAMILY_IPV6.

(* success class, binding method, the request's transaction id, exactly one attribute:
   MAPPED-ADDRESS = (family of the IP version, source port, source address).
   [dec_stun_resp] has already checked: length field = bytes that follow the header. *)
Definition resp_ok (ctx : app_ctx) (tid : bytes) (r : bytes) : bool :=
  match dec_stun_resp r with
  | Some m =>
    (sm_class m =? CLASS_SUCCESS) && (sm_method m =? METHOD_BINDING) && bytes_eqb (sm_tid m) tid &&
    match sm_attrs m with
    | [(t, v)] =>
      (t =? ATTR_MAPPED_ADDRESS) &&
      match dec_mapped v with
      | Some (fam, port, addr) =>
        (fam =? ctx_family ctx) && (port =? a_sport ctx) && bytes_eqb addr (a_src ctx)
      | None => false
      end
    | _ => false
    end
  | None => false
  end.

(* "a STUN response" to a message: a success or error response with its transaction id *)
Definition is_stun_response_to (tid : bytes) (r : bytes) : bool :=
  match dec_stun_resp r with
  | Some m => ((sm_class m =? CLASS_SUCCESS) || (sm_class m =? CLASS_ERROR)) && bytes_eqb (sm_tid m) tid
  | None => false
  end.

(* ---- payload-level monitors ----
   * not a well-formed STUN message: the property says nothing;
   * a binding request covered by the published signatures: answered as expected
     ([strict = false]: unless it is in the known class);
   * a binding request outside the published signatures, or in the known class when it
     is excluded: whether it is answered is not C15's subject, but a STUN response to
     it must be the expected one;
   * any other class / method: no STUN response. *)
Definition app_ok_C15_gen (strict : bool) (ctx : app_ctx) (p : bytes) (o : option bytes) : bool :=
  match dec_stun_req p with
  | None => true
  | Some m =>
    if is_binding_request m then
      if stun_published (a_tcp ctx) p && (strict || negb (stun_shadowed (a_tcp ctx) p)) then
        match o with Some r => resp_ok ctx (sm_tid m) r | None => false end
      else
        match o with
        | Some r => if is_stun_response_to (sm_tid m) r then resp_ok ctx (sm_tid m) r else true
        | None => true
        end
    else
      match o with Some r => negb (is_stun_response_to (sm_tid m) r) | None => true end
  end.

Definition app_ok_C15 : app_ctx -> bytes -> option bytes -> bool := app_ok_C15_gen false.
Definition app_ok_C15_strict : app_ctx -> bytes -> option bytes -> bool := app_ok_C15_gen true.

(* ---- "comes from the next port": the transport ports of the reply frame ----
   judged whenever the reply carries a STUN response to a binding request: its source
   port is the contacted port, or the next one (mod 2^16) exactly when some
   CHANGE-REQUEST asks for another port; its destination port is the client's.
   (Consistent with Spec/C03.v [ports_ok]; written independently of it.) *)
Definition expected_reply_sport (ctx : app_ctx) (m : stun_msg) : N :=
  if change_port_requested m then (a_dport ctx + 1) mod 65536 else a_dport ctx.

Definition c15_ports_ok (ctx : app_ctx) (p : bytes) (rp : bytes) (r_sport r_dport : N) : bool :=
  match dec_stun_req p with
  | Some m =>
    if is_binding_request m && is_stun_response_to (sm_tid m) rp
    then (r_sport =? expected_reply_sport ctx m) && (r_dport =? a_sport ctx)
    else true
  | None => true
  end.

Definition ok_C15_ports_udp (cfg : config) (f : bytes) (r : option bytes) : bool :=
  match udp_req cfg f, r with
  | Some (ctx, p), Some rf =>
    match dec_frame_udp rf with
    | Some (_, _, u) => c15_ports_ok ctx p (du_payload u) (du_sport u) (du_dport u)
    | None => true                  (* not a UDP reply: refused by [ok_app_udp] *)
    end
  | _, _ => true
  end.

Definition ok_C15_ports_tcp (cfg : config) (st : ref_state) (f : bytes) (r : option bytes) : bool :=
  match tcp_first_req cfg st f, r with
  | Some (ctx, p), Some rf =>
    match dec_frame_tcp rf with
    | Some (_, _, t) => c15_ports_ok ctx p (dt_payload t) (dt_sport t) (dt_dport t)
    | None => true
    end
  | _, _ => true
  end.

(* ---- frame-level monitors ---- *)
Definition ok_C15_udp (cfg : config) (f : bytes) (r : option bytes) : bool :=
  ok_app_udp app_ok_C15 cfg f r && ok_C15_ports_udp cfg f r.
Definition ok_C15_tcp (cfg : config) (st : ref_state) (f : bytes) (r : option bytes) : bool :=
  ok_app_tcp_first app_ok_C15 cfg st f r && ok_C15_ports_tcp cfg st f r.
Definition ok_C15_udp_strict (cfg : config) (f : bytes) (r : option bytes) : bool :=
  ok_app_udp app_ok_C15_strict cfg f r && ok_C15_ports_udp cfg f r.
Definition ok_C15_tcp_strict (cfg : config) (st : ref_state) (f : bytes) (r : option bytes) : bool :=
  ok_app_tcp_first app_ok_C15_strict cfg st f r && ok_C15_ports_tcp cfg st f r.

(* class predicate on frames, used by the check to attribute a failure of the strict
   monitors to the known class *)
Definition c15_in_class (tcp : bool) (p : bytes) : bool :=
  match dec_stun_req p with
  | Some m => is_binding_request m && stun_shadowed tcp p
  | None => false
  end.
Definition c15_class_frame (cfg : config) (f : bytes) : bool :=
  match udp_req cfg f with
  | Some (_, p) => c15_in_class false p
  | None =>
    match tcp_req cfg f with
    | Some (_, p) => c15_in_class true p
    | None => false
    end
  end.

(* ---- full statements whose proved form is partial / refuted (Proofs/C15*.v) ---- *)
(* what a responder does with a payload: the client information it hands back (the reply's
   source port is read from it) and the reply payload *)
Definition silent_on (repl : cinfo -> bytes -> cinfo * option bytes) (p : bytes) : Prop :=
  forall ci, repl ci p = (ci, None).

(* every payload that is not a well-formed STUN message is ignored.  FALSE of the
   implementation: see C15_malformed_silent_refuted; the exact set of malformed payloads
   that are answered is given by C15_answered_iff. *)
Definition C15_malformed_silent_stmt (repl : cinfo -> bytes -> cinfo * option bytes) : Prop :=
  forall p, bytes_ok p = true -> dec_stun_req p = None -> silent_on repl p.
