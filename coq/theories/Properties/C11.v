(* Properties/C11.v -- stream parsing is independent of TCP segmentation (HTTP, ONC-RPC over TCP).
   Pins statements only. Parser-level statements for HTTP are in Properties/C11http.v. *)
From MS Require Import Proto Spec.AppView Spec.C11 Spec.EnvOk Spec.C11http Instance Proofs.C11 Proofs.C11Witness.

(* ---- ONC-RPC ---- a flow whose first segment completes the RPC/TCP signature: every segment,
   up to and including the one that completes the first message, is answered with
   rpc_expected(stream prefix ending with that segment) -- a function of the byte stream alone
   (None = bare ACK) -- after which the flow starts afresh. Any number of cuts. *)
Theorem C11_rpc_stream :
  forall E clk ci ip port s rest,
    ci_ip_dst ci = Some ip -> ci_port_dst ci = Some port ->
    tcp_first_id E s = Some PROTO_RPC_TCP ->
    tcp_stream E clk ci tcb_new (s :: rest) = Ok (rpc_stream_ref ip port [] (s :: rest)).
Proof. exact rpc_stream_segmentation. Qed.

(* ---- HTTP ---- a flow whose first segment completes a "VERB /" signature is the fold of the
   HTTP responder over its segments ... *)
Theorem C11_http_stream :
  forall E clk ci d rest,
    tcp_first_id E d = Some PROTO_HTTP ->
    tcp_stream E clk ci tcb_new (d :: rest) = http_outs E clk http_new (d :: rest).
Proof. exact http_stream. Qed.

(* ... and for every list of segments: there is the list l of answers of ONE whole-buffer parse of
   each stream prefix at a segment boundary (a function of the byte stream and the cut points only
   through the prefixes), the responder does not get stuck, and every segment before the first
   "true" of l gets a bare ACK while that segment carries the 401 response. *)
Theorem C11_http_stream_segmentation :
  forall E clk, smack_ok (e_http_tbl E) = true -> http_tbl_ok (e_http_tbl E) = true ->
  forall segs, bytes_ok (concat segs) = true ->
    exists l outs,
      Forall2 (fun upto a => http_answers_at (e_http_tbl E) http_new upto = Ok a) (prefixes_at [] segs) l /\
      http_outs E clk http_new segs = Ok outs /\ length outs = length l /\
      forall j, (forall i, (i < j)%nat -> nth i l false = false) ->
                nth j outs None = (if nth j l false then Some (http_resp_of E clk) else None).
Proof. exact http_stream_segmentation. Qed.

(* ---- known finding ---- if the first segment ends inside the signature the request is lost
   (computed on the current tables). *)
Theorem C11_refuted_short_first_segment :
  answered (tcp_stream the_env w11_clk w11_ci tcb_new [w11_stream]) = true /\
  answered (tcp_stream the_env w11_clk w11_ci tcb_new [firstn 2 w11_stream; skipn 2 w11_stream]) = false /\
  concat [firstn 2 w11_stream; skipn 2 w11_stream] = w11_stream.
Proof. exact refuted_short_first_segment. Qed.

Print Assumptions C11_rpc_stream.
Print Assumptions C11_http_stream.
Print Assumptions C11_http_stream_segmentation.
Print Assumptions C11_refuted_short_first_segment.
