(* Properties/C19.v -- any port, either IP version: answers do not depend on where they were asked.
   This file only pins statements; proofs are in Proofs/C19.v; the cores are in Spec/C19.v. *)
From MS Require Import Proto Spec.AppView Spec.C19 Proofs.C19.

(* For every datagram payload p there is a core -- computed by [udp_core], which has no address,
   port or IP-version argument -- such that in EVERY transport context the application reply is the
   rendering of that core, and the reply port is the contacted port (+1 only for a STUN change-port). *)
Theorem C19_udp_context_free :
  forall E clk p ci, ci_full ci = true ->
    match udp_core E clk p with
    | Ok c => exists ci', proto_repl_udp E clk ci p = Ok (ci', render c ci) /\
                          ci_port_dst ci' = option_map (reply_port c) (ci_port_dst ci)
    | Panic s => proto_repl_udp E clk ci p = Panic s
    end.
Proof. exact udp_context_free. Qed.

(* The same for the first data segment of a TCP flow. *)
Theorem C19_tcp_first_context_free :
  forall E clk p ci, ci_full ci = true ->
    match tcp_first_core E clk p with
    | Ok c => exists ci' tc', proto_repl_tcp E clk ci tcb_new p = Ok (ci', tc', render c ci) /\
                              ci_port_dst ci' = option_map (reply_port c) (ci_port_dst ci)
    | Panic s => proto_repl_tcp E clk ci tcb_new p = Panic s
    end.
Proof. exact tcp_first_context_free. Qed.

(* Whether a core is answered never depends on the context ... *)
Theorem C19_answered_context_free :
  forall c ci ci', ci_full ci = true -> ci_full ci' = true ->
    (match render c ci with Some _ => true | None => false end) =
    (match render c ci' with Some _ => true | None => false end).
Proof. exact answered_context_free. Qed.

(* ... HTTP, SSH, Gh0st and SMB replies (constant cores) are the same bytes in every context ... *)
Theorem C19_constant_responders :
  forall c ci ci', (match c with CSilent | CConst _ => True | _ => False end) -> render c ci = render c ci'.
Proof. exact render_const. Qed.

(* ... an RPC reply depends on the contacted endpoint only for successful portmapper GETPORT/GETADDR/DUMP ... *)
Theorem C19_rpc_endpoint_free :
  forall s ip port ip' port', rpc_endpoint_free s = true -> rpc_build s ip port = rpc_build s ip' port'.
Proof. exact rpc_build_endpoint_free. Qed.

(* ... a STUN response depends on it only in MAPPED-ADDRESS and the two lengths derived from it ... *)
Theorem C19_stun_shape :
  forall tid src sport, length tid = 16%nat ->
    firstn 2 (stun_response tid src sport) = [1; 1] /\
    slice 4 16 (stun_response tid src sport) = tid /\
    slice 20 2 (stun_response tid src sport) = [0; 1].
Proof. exact stun_response_shape. Qed.

(* ... and a DNS response only in the answer section (RDLENGTH / RDATA): header and echoed questions agree. *)
Theorem C19_dns_prefix :
  forall m ip ip',
    firstn (length (dns_header_reply m ++ concat (map ser_question (d_qd m)))) (render_dns m ip) =
    firstn (length (dns_header_reply m ++ concat (map ser_question (d_qd m)))) (render_dns m ip').
Proof. exact render_dns_prefix. Qed.

Print Assumptions C19_udp_context_free.
Print Assumptions C19_tcp_first_context_free.
Print Assumptions C19_answered_context_free.
Print Assumptions C19_constant_responders.
Print Assumptions C19_rpc_endpoint_free.
Print Assumptions C19_stun_shape.
Print Assumptions C19_dns_prefix.

(* Frame level: two UDP datagrams in scope that carry the same payload -- whatever their MACs,
   addresses, ports, IP version, the configurations and the histories -- are answered with
   renderings of ONE core. *)
From MS Require Import L2 Spec.View Spec.RefDec Proofs.Lift.
Theorem C19_frames_same_payload :
  forall E clk cfg cfg' tb tb2 f f' v v' tb' tb2' r r' evs evs',
    cfg_ok cfg = true -> cfg_ok cfg' = true -> bytes_ok f = true -> bytes_ok f' = true ->
    view_udp cfg f = Some v -> view_udp cfg' f' = Some v' ->
    skipn 8 (v_l4 v) = skipn 8 (v_l4 v') ->
    reply E cfg clk tb f = Ok (tb', r, evs) ->
    reply E cfg' clk tb2 f' = Ok (tb2', r', evs') ->
    exists c, udp_core E clk (skipn 8 (v_l4 v)) = Ok c /\
              udp_resp r = Some (render c (udp_ci f v)) /\
              udp_resp r' = Some (render c (udp_ci f' v')).
Proof. exact frames_same_payload. Qed.
Print Assumptions C19_frames_same_payload.
