(* Spec/C19.v -- any port, either IP version: answers do not depend on where they
   were asked. The specification is phrased as a factorisation: for every payload
   there is a context-free "core" (whether it is answered, by which responder and
   with which content), and the transport context (addresses, ports, IP version)
   enters the reply only through the fields that by specification carry an
   endpoint address: STUN MAPPED-ADDRESS (family, port, address, and the two
   length fields derived from them), the portmapper results of GETPORT / GETADDR /
   DUMP (and the TCP record mark length derived from them), and the RDATA (with
   RDLENGTH) of DNS answers. *)
From MS Require Export Bytes Types Proto Spec.AppView.

(* what an application reply may depend on *)
Inductive core :=
| CSilent                                  (* never answered, whatever the context *)
| CConst (r : bytes)                       (* the same bytes in every context *)
| CStun (tid : bytes) (shift : bool)       (* binding success for this transaction id; port shift *)
| CRpc (s : rpc_st) (tcp : bool)           (* RPC reply built from this parsed call *)
| CDns (m : dns_msg).                      (* DNS response to this parsed query *)

Definition render_rpc (s : rpc_st) (tcp : bool) (ip : ipaddr) (port : N) : bytes :=
  let r := rpc_build s ip port in
  if tcp then
    let len := lenN r in
    [128 + (len / 16777216) mod 256; (len / 65536) mod 256; (len / 256) mod 256; len mod 256] ++ r
  else r.

Definition render_dns (m : dns_msg) (ip : ipaddr) : bytes :=
  dns_header_reply m ++ concat (map ser_question (d_qd m)) ++ concat (map (answer_rr ip) (d_qd m)).

(* the reply payload in a given context *)
Definition render (c : core) (ci : cinfo) : option bytes :=
  match c with
  | CSilent => None
  | CConst r => Some r
  | CStun tid _ =>
    match ci_ip_src ci, ci_port_src ci, ci_port_dst ci with
    | Some src, Some sport, Some _ => Some (stun_response tid src sport)
    | _, _, _ => None
    end
  | CRpc s tcp =>
    match ci_ip_dst ci, ci_port_dst ci with
    | Some ip, Some port => Some (render_rpc s tcp ip port)
    | _, _ => None
    end
  | CDns m => match ci_ip_dst ci with Some ip => Some (render_dns m ip) | None => None end
  end.

(* the RPC reply depends on the contacted endpoint only for successful portmapper
   GETPORT / GETADDR / DUMP results *)
Definition rpc_endpoint_free (s : rpc_st) : bool :=
  (r_progvers s <? 2) || (4 <? r_progvers s) || (r_proc s =? 0) || negb (r_prog s =? 100000) ||
  negb ((r_proc s =? 3) || (r_proc s =? 4)).

(* client information as the transport layers produce it: everything the
   application layer may look at is present *)
Definition ci_full (ci : cinfo) : bool :=
  match ci_ip_src ci, ci_ip_dst ci, ci_port_src ci, ci_port_dst ci with
  | Some _, Some _, Some _, Some _ => true
  | _, _, _, _ => false
  end.

(* ---- the context-free core of each responder (no [cinfo] argument anywhere) ---- *)
Definition stun_core (data : bytes) : core :=
  if (length data <? 20)%nat then CSilent
  else
    let d0 := u8_at 0 data in
    let d1 := u8_at 1 data in
    let class := (N.land d0 1) * 2 + (N.land d1 16) / 16 in
    let method := (N.land d0 62) * 128 + N.land d1 239 in
    let len := u16_at 2 data in
    if 64 <=? d0 then CSilent
    else if lenN data <? 20 + len then CSilent
    else
      match stun_attrs (length data) (slice 20 (N.to_nat len) data) false with
      | None => CSilent
      | Some chg =>
        if negb (class =? 0) then CSilent
        else if negb (method =? 1) then CSilent
        else CStun (slice 4 16 data) chg
      end.

Definition of_opt (o : option bytes) : core := match o with Some r => CConst r | None => CSilent end.

(* [st]: the HTTP / RPC parser state the flow is in ([None] for a datagram or a fresh flow);
   returns the core and the parser state to store *)
Definition dispatch_core (E : env) (clk : clock) (id : N) (ps : option pstate) (data : bytes)
  : res (core * option pstate) :=
  if id =? PROTO_HTTP then
    match (match ps with
           | None => Ok http_new
           | Some (PHttp h) => Ok h
           | Some (PRpc _) => Panic PANIC_HTTP_PSTATE
           end) with
    | Panic s => Panic s
    | Ok h =>
      do hr <- http_repl (e_http_tbl E) (e_http_pre E) (e_http_post E) (clk_date clk) h data;
      Ok (of_opt (snd hr), Some (PHttp (fst hr)))
    end
  else if id =? PROTO_STUN then Ok (stun_core data, ps)
  else if id =? PROTO_SSH then Ok (of_opt (ssh_repl (e_ssh_banner E) data), ps)
  else if id =? PROTO_GHOST then Ok (of_opt (ghost_repl (e_ghost E) data), ps)
  else if id =? PROTO_RPC_TCP then
    match (match ps with
           | None => Ok (rpc_new R_FRAG)
           | Some (PRpc r) => Ok r
           | Some (PHttp _) => Panic PANIC_RPC_PSTATE
           end) with
    | Panic s => Panic s
    | Ok r0 =>
      let s' := rpc_parse r0 data in
      if r_state s' =? R_END
      then Ok ((if r_mtype s' =? 0 then CRpc s' true else CSilent), Some (PRpc (rpc_new R_FRAG)))
      else Ok (CSilent, Some (PRpc s'))
    end
  else if id =? PROTO_RPC_UDP then
    let s' := rpc_parse (rpc_new R_XID) data in
    Ok ((if (r_state s' =? R_END) && (r_mtype s' =? 0) then CRpc s' false else CSilent), ps)
  else if id =? PROTO_SMB1 then
    do r <- smb1_repl (e_smb_neg E) (e_smb_chal E) (clk_filetime clk) data; Ok (of_opt r, ps)
  else if id =? PROTO_SMB2 then
    do r <- smb2_repl (e_smb_neg E) (e_smb_chal E) (clk_filetime clk) data; Ok (of_opt r, ps)
  else Ok (CSilent, ps).

Definition dns_core (d : bytes) : core :=
  match dns_parse d with
  | Some m =>
    if 32768 <=? d_flags m then CSilent
    else if forallb (fun q => (q_type q =? 1) && (q_class q =? 1)) (d_qd m) then CDns m
    else CSilent
  | None => CSilent
  end.

(* a datagram *)
Definition udp_core (E : env) (clk : clock) (p : bytes) : res core :=
  match udp_id E p with
  | None => Ok (dns_core p)
  | Some i => do r <- dispatch_core E clk i None p; Ok (fst r)
  end.

(* the first data segment of a TCP flow *)
Definition tcp_first_core (E : env) (clk : clock) (p : bytes) : res core :=
  do r <- dispatch_core E clk (id_of (tcp_first_id E p)) None p; Ok (fst r).

(* the port the reply is sent from *)
Definition reply_port (c : core) (dport : N) : N :=
  match c with CStun _ true => wrap16 (dport + 1) | _ => dport end.
