(* Properties/SrcTie.v -- the constants that the model and the specifications hard-code are the
   ones written in /repo's SOURCE TEXT today. gen/SrcConsts.v is regenerated from the source files
   on every run by harness/gen_srcconsts.py (a regular-expression reader for plain `const` items:
   integers, byte strings, arrays of string literals); the equalities below are re-decided by the
   kernel whenever it changes. A renamed, removed or changed constant makes this file fail to
   compile, which the checks of the properties that rely on it report as a broken obligation.
   Statements only: every proof is a computation. *)
From MS Require Import Bytes Smack Proto Spec.RefSig Spec.RefStun Spec.C18 Instance.
From MSgen Require SrcConsts Consts.

(* ---- protocol identifiers handed from the matcher to the dispatcher (src/proto/mod.rs) ---- *)
Theorem src_protocol_ids :
  [PROTO_NONE; PROTO_HTTP; PROTO_STUN; PROTO_SSH; PROTO_GHOST; PROTO_RPC_TCP; PROTO_RPC_UDP; PROTO_SMB1; PROTO_SMB2] =
  [SrcConsts.proto_mod__PROTO_NONE; SrcConsts.proto_mod__PROTO_HTTP; SrcConsts.proto_mod__PROTO_STUN;
   SrcConsts.proto_mod__PROTO_SSH; SrcConsts.proto_mod__PROTO_GHOST; SrcConsts.proto_mod__PROTO_RPC_TCP;
   SrcConsts.proto_mod__PROTO_RPC_UDP; SrcConsts.proto_mod__PROTO_SMB1; SrcConsts.proto_mod__PROTO_SMB2] /\
  [ID_HTTP; ID_STUN; ID_SSH; ID_GHOST; ID_RPC_TCP; ID_RPC_UDP; ID_SMB1; ID_SMB2] =
  [SrcConsts.proto_mod__PROTO_HTTP; SrcConsts.proto_mod__PROTO_STUN; SrcConsts.proto_mod__PROTO_SSH;
   SrcConsts.proto_mod__PROTO_GHOST; SrcConsts.proto_mod__PROTO_RPC_TCP; SrcConsts.proto_mod__PROTO_RPC_UDP;
   SrcConsts.proto_mod__PROTO_SMB1; SrcConsts.proto_mod__PROTO_SMB2].
Proof. split; reflexivity. Qed.

(* ---- matcher constants (src/smack/smack_constants.rs) ---- *)
Theorem src_smack_constants :
  BASE_STATE = SrcConsts.smack_smack_constants__BASE_STATE /\
  UNANCHORED_STATE = SrcConsts.smack_smack_constants__UNANCHORED_STATE /\
  N.of_nat CHAR_ANCHOR_END = SrcConsts.smack_smack_constants__CHAR_ANCHOR_END /\
  NO_MATCH = SrcConsts.smack_smack_constants__NO_MATCH.
Proof. repeat split; reflexivity. Qed.

(* ---- the registered signatures are the published ones (C10's reference), '*' = 42 being the
   wildcard of the patterns registered with SmackFlags::WILDCARDS ---- *)
Definition pat_of_src (wild : bool) (p : bytes) : list (option N) :=
  map (fun b => if wild && (b =? 42) then None else Some b) p.
Definition verb_sig (v : bytes) : list (option N) := pat_of_src false (v ++ [32; 47]).

Theorem src_signatures_are_published :
  map s_pat ref_sigs =
  map verb_sig SrcConsts.proto_http__HTTP_VERBS ++
  [pat_of_src true SrcConsts.proto_stun__STUN_PATTERN_MAGIC;
   pat_of_src true SrcConsts.proto_stun__STUN_PATTERN_EMPTY;
   pat_of_src true SrcConsts.proto_stun__STUN_PATTERN_CHANGE_REQUEST;
   pat_of_src false SrcConsts.proto_ssh__SSH_PATTERN_CLIENT_PROTOCOL_2;
   pat_of_src false SrcConsts.proto_ssh__SSH_PATTERN_CLIENT_PROTOCOL_1;
   pat_of_src false SrcConsts.proto_ghost__GHOST_PATTERN_SIGNATURE;
   pat_of_src true SrcConsts.proto_rpc__RPC_CALL_TCP;
   pat_of_src true SrcConsts.proto_rpc__RPC_CALL_UDP;
   pat_of_src true SrcConsts.proto_smb__SMB1_PATTERN_MAGIC;
   pat_of_src true SrcConsts.proto_smb__SMB2_PATTERN_MAGIC].
Proof. vm_compute. reflexivity. Qed.

(* ---- SSH / Gh0st literals of the C18 specification ---- *)
Theorem src_ssh_ghost_literals :
  S_SSH_20 = SrcConsts.proto_ssh__SSH_PATTERN_CLIENT_PROTOCOL_2 /\
  S_SSH_199 = SrcConsts.proto_ssh__SSH_PATTERN_CLIENT_PROTOCOL_1 /\
  S_GHOST = SrcConsts.proto_ghost__GHOST_PATTERN_SIGNATURE.
Proof. repeat split; reflexivity. Qed.

(* ---- STUN constants of the C15 reference codec (src/proto/stun.rs) ---- *)
Theorem src_stun_constants :
  [CLASS_REQUEST; CLASS_INDICATION; CLASS_SUCCESS; CLASS_ERROR] =
  [SrcConsts.proto_stun__STUN_CLASS_REQUEST; SrcConsts.proto_stun__STUN_CLASS_INDICATE;
   SrcConsts.proto_stun__STUN_CLASS_SUCCESS_RESPONSE; SrcConsts.proto_stun__STUN_CLASS_FAILURE_RESPONSE] /\
  METHOD_BINDING = SrcConsts.proto_stun__STUN_METHOD_BINDING /\
  ATTR_MAPPED_ADDRESS = SrcConsts.proto_stun__STUN_ATTR_MAPPED_ADDRESS /\
  ATTR_CHANGE_REQUEST = SrcConsts.proto_stun__STUN_ATTR_CHANGE_REQUEST /\
  FAMILY_IPV4 = SrcConsts.proto_stun__STUN_PROTOCOL_FAMILY_IPV4 /\
  FAMILY_IPV6 = SrcConsts.proto_stun__STUN_PROTOCOL_FAMILY_IPV6 /\
  (* the change-port flag is bit 1 (value 2), the change-IP flag bit 2 (value 4) of the flag word *)
  SrcConsts.proto_stun__STUN_CHANGE_REQUEST_MASK_PORT = 2 /\
  SrcConsts.proto_stun__STUN_CHANGE_REQUEST_MASK_IP = 4.
Proof. repeat split; reflexivity. Qed.

(* ---- the two SMB security blobs dumped through the hook ARE the byte strings of the source ---- *)
Theorem src_smb_blobs_are_dumped :
  Consts.smb_neg = SrcConsts.proto_smb__SECURITY_BLOB_NEG_PROTO /\
  Consts.smb_chal = SrcConsts.proto_smb__SECURITY_BLOB_CHALLENGE.
Proof. split; vm_compute; reflexivity. Qed.

Print Assumptions src_protocol_ids.
Print Assumptions src_smack_constants.
Print Assumptions src_signatures_are_published.
Print Assumptions src_ssh_ghost_literals.
Print Assumptions src_stun_constants.
Print Assumptions src_smb_blobs_are_dumped.
