(* C16Text.v -- facts about the textual forms used by the portmapper replies:
   length bounds (so that every string fits an XDR length word) and the round
   trip of the IPv4 universal address through the independent reader
   [parse_uaddr4]. The IPv6 text ([render_ipv6], Rust's Display rules) is NOT
   covered by a round trip: it is validated by the model/implementation
   correspondence and by the harness' independent parser only (partial). *)
From MS Require Import Proofs.Tactics Text Spec.C16.

(* ---- length bounds ---- *)
Lemma dec_digits_aux_len (fuel : nat) (n : N) (acc : bytes) :
  (length (dec_digits_aux fuel n acc) <= fuel + length acc)%nat.
Proof.
  revert n acc. induction fuel as [|f IH]; intros n acc; cbn [dec_digits_aux]; [lia|].
  destruct (n <? 10).
  - cbn [length]. lia.
  - specialize (IH (n / 10) ((48 + n mod 10) :: acc)). cbn [length] in IH. lia.
Qed.

Lemma dec_digits_len (n : N) : (length (dec_digits n) <= 40)%nat.
Proof. unfold dec_digits. pose proof (dec_digits_aux_len 40 n []). cbn [length] in H. lia. Qed.

Lemma hex_digits_aux_len (fuel : nat) (n : N) (acc : bytes) :
  (length (hex_digits_aux fuel n acc) <= fuel + length acc)%nat.
Proof.
  revert n acc. induction fuel as [|f IH]; intros n acc; cbn [hex_digits_aux]; [lia|].
  destruct (n <? 16).
  - cbn [length]. lia.
  - specialize (IH (n / 16) (hex_digit (n mod 16) :: acc)). cbn [length] in IH. lia.
Qed.

Lemma hex_digits_len (n : N) : (length (hex_digits n) <= 32)%nat.
Proof. unfold hex_digits. pose proof (hex_digits_aux_len 32 n []). cbn [length] in H. lia. Qed.

Lemma join_len (sep : N) (K : nat) (l : list bytes) :
  (forall x, In x l -> (length x <= K)%nat) -> (length (join sep l) <= (K + 1) * length l)%nat.
Proof.
  induction l as [|x l IH]; intros H; [cbn; lia|].
  assert (Hx : (length x <= K)%nat) by (apply H; left; reflexivity).
  assert (Hl : (length (join sep l) <= (K + 1) * length l)%nat) by (apply IH; intros y Hy; apply H; right; exact Hy).
  destruct l as [|y l]; cbn [join length] in *; [lia|].
  rewrite app_length. cbn [length]. lia.
Qed.

Lemma map_len_bound {A} (f : A -> bytes) (K : nat) (l : list A) :
  (forall a, (length (f a) <= K)%nat) -> forall x, In x (map f l) -> (length x <= K)%nat.
Proof. intros H x Hx. apply in_map_iff in Hx. destruct Hx as (a & <- & _). apply H. Qed.

Lemma render_ipv4_len (o : bytes) : (length (render_ipv4 o) <= 41 * length o)%nat.
Proof.
  unfold render_ipv4. pose proof (join_len DOT 40 (map dec_digits o) (map_len_bound _ _ _ dec_digits_len)) as H.
  rewrite map_length in H. lia.
Qed.

Lemma segments_len_aux (n : nat) : forall o : bytes, (length o <= n)%nat -> (length (segments o) <= length o)%nat.
Proof.
  induction n as [|n IH]; intros o Ho.
  - destruct o; cbn [length segments] in *; lia.
  - destruct o as [|a [|b t]]; cbn [segments length] in *; try lia.
    assert (Ht : (length (segments t) <= length t)%nat) by (apply IH; lia). lia.
Qed.
Lemma segments_len (o : bytes) : (length (segments o) <= length o)%nat.
Proof. apply (segments_len_aux (length o)). lia. Qed.

Lemma join_hex_len (l : list N) : (length (join COLON (map hex_digits l)) <= 33 * length l)%nat.
Proof.
  pose proof (join_len COLON 32 (map hex_digits l) (map_len_bound _ _ _ hex_digits_len)) as H.
  rewrite map_length in H. lia.
Qed.

Lemma render_ipv6_len (o : bytes) : (length (render_ipv6 o) <= 9 + 66 * length o)%nat.
Proof.
  unfold render_ipv6. pose proof (segments_len o) as Hs.
  destruct (forallb (fun x : N => x =? 0) (firstn 5 (segments o)) && (nth 5 (segments o) 0 =? 65535)).
  - rewrite app_length. cbn [length]. pose proof (render_ipv4_len (skipn 12 o)) as H.
    rewrite skipn_length in H. lia.
  - destruct (zero_run (segments o) 0 0 0 0 0) as [zs zl].
    destruct (1 <? zl)%nat.
    + rewrite !app_length. cbn [length].
      pose proof (join_hex_len (firstn zs (segments o))) as H1.
      pose proof (join_hex_len (skipn (zs + zl) (segments o))) as H2.
      rewrite firstn_length in H1. rewrite skipn_length in H2. lia.
    + pose proof (join_hex_len (segments o)). lia.
Qed.

Lemma render_ip_len (ip : ipaddr) : (length (render_ip ip) <= 9 + 66 * length (ip_octets ip))%nat.
Proof.
  destruct ip as [o|o]; cbn [render_ip ip_octets].
  - pose proof (render_ipv4_len o). lia.
  - apply render_ipv6_len.
Qed.

Lemma uaddr_text_len (ip : ipaddr) (port : N) :
  (length (uaddr_text ip port) <= 91 + 66 * length (ip_octets ip))%nat.
Proof.
  unfold uaddr_text. rewrite !app_length. cbn [length].
  pose proof (render_ip_len ip). pose proof (dec_digits_len (port / 256)). pose proof (dec_digits_len (port mod 256)).
  lia.
Qed.

(* ---- IPv4 universal address: round trip through the independent reader ---- *)
Definition nodot (x : bytes) : bool := forallb (fun b => negb (b =? 46)) x.

Lemma split_on_app (x rest cur : bytes) :
  nodot x = true -> split_on 46 (x ++ 46 :: rest) cur = (rev cur ++ x) :: split_on 46 rest [].
Proof.
  revert cur. induction x as [|b x IH]; intros cur H.
  - cbn [app split_on]. rewrite N.eqb_refl, app_nil_r. reflexivity.
  - cbn [nodot forallb] in H. rewrite andb_true_iff in H. destruct H as [Hb Hx].
    cbn [app split_on]. destruct (b =? 46); [discriminate|].
    rewrite (IH (b :: cur) Hx). cbn [rev]. rewrite <- app_assoc. reflexivity.
Qed.

Lemma split_on_last (x cur : bytes) : nodot x = true -> split_on 46 x cur = [rev cur ++ x].
Proof.
  revert cur. induction x as [|b x IH]; intros cur H.
  - cbn [split_on]. rewrite app_nil_r. reflexivity.
  - cbn [nodot forallb] in H. rewrite andb_true_iff in H. destruct H as [Hb Hx].
    cbn [split_on]. destruct (b =? 46); [discriminate|].
    rewrite (IH (b :: cur) Hx). cbn [rev]. rewrite <- app_assoc. reflexivity.
Qed.

Definition octet_text_ok (n : N) : bool :=
  nodot (dec_digits n) && match dec_value (dec_digits n) with Some m => m =? n | None => false end.

Lemma octet_text_all : forallb octet_text_ok (map N.of_nat (seq 0 256)) = true.
Proof. vm_compute. reflexivity. Qed.

Lemma octet_text (n : N) : n < 256 -> nodot (dec_digits n) = true /\ dec_value (dec_digits n) = Some n.
Proof.
  intros Hn. pose proof octet_text_all as H. rewrite forallb_forall in H.
  assert (Hin : In n (map N.of_nat (seq 0 256))).
  { apply in_map_iff. exists (N.to_nat n). split; [lia|]. apply in_seq. lia. }
  specialize (H n Hin). unfold octet_text_ok in H. rewrite andb_true_iff in H. destruct H as [H1 H2].
  split; [exact H1|]. destruct (dec_value (dec_digits n)) as [m|]; [|discriminate].
  apply N.eqb_eq in H2. subst m. reflexivity.
Qed.

Lemma parse_uaddr4_render (a b c d port : N) :
  a < 256 -> b < 256 -> c < 256 -> d < 256 -> port < 65536 ->
  parse_uaddr4 (uaddr_text (V4 [a; b; c; d]) port) = Some ([a; b; c; d], port).
Proof.
  intros Ha Hb Hc Hd Hp.
  assert (Hh : port / 256 < 256) by lia. assert (Hl : port mod 256 < 256) by lia.
  destruct (octet_text a Ha) as [Na Va]. destruct (octet_text b Hb) as [Nb Vb].
  destruct (octet_text c Hc) as [Nc Vc]. destruct (octet_text d Hd) as [Nd Vd].
  destruct (octet_text _ Hh) as [Nh Vh]. destruct (octet_text _ Hl) as [Nl Vl].
  unfold parse_uaddr4, uaddr_text. cbn [render_ip render_ipv4 map join]. unfold DOT.
  rewrite <- !app_assoc. cbn [app].
  rewrite (split_on_app _ _ [] Na). rewrite <- !app_assoc. cbn [app].
  rewrite (split_on_app _ _ [] Nb). rewrite <- !app_assoc. cbn [app].
  rewrite (split_on_app _ _ [] Nc).
  rewrite (split_on_app _ _ [] Nd).
  rewrite (split_on_app _ _ [] Nh).
  rewrite (split_on_last _ [] Nl).
  cbn [rev app map]. rewrite Va, Vb, Vc, Vd, Vh, Vl.
  replace (a <? 256) with true by lia. replace (b <? 256) with true by lia.
  replace (c <? 256) with true by lia. replace (d <? 256) with true by lia.
  replace (port / 256 <? 256) with true by lia. replace (port mod 256 <? 256) with true by lia.
  cbn [andb]. f_equal. f_equal. lia.
Qed.
