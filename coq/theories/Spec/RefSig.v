(* Spec/RefSig.v -- C10, the REFERENCE: the published signature set of the
   protocol identification, written by hand from the property text (it is NOT
   derived from the compiled table), and its semantics as a small deterministic
   automaton.

   All signatures are anchored at the beginning of the payload.  A position is
   either a literal byte or the wildcard [*] (any byte).  A signature may
   further be anchored at the END of the datagram: it can then only complete
   when the datagram ends exactly there (UDP only: a TCP stream has no end).

   Semantics ("taking the first signature completed"): read the payload left
   to right; a signature is LIVE after n bytes when the n bytes read match its
   first n positions; the first position at which a live signature without end
   anchor is completed decides; if the payload ends first, a live end-anchored
   signature whose length is exactly the payload length decides (UDP only).
   When several signatures complete at the same position the first one in the
   list below is taken (C10_ref_tie_free: on the published set this never
   matters, they always carry the same protocol id).

   Definitions only. *)
From MS Require Export Bytes.
From MSgen Require SrcConsts.   (* the identifiers follow src/proto/mod.rs, read from the source text on every run *)

(* protocol ids (as published; the same numbering as Proto.v) *)
Definition ID_HTTP : N := MSgen.SrcConsts.proto_mod__PROTO_HTTP.
Definition ID_STUN : N := MSgen.SrcConsts.proto_mod__PROTO_STUN.
Definition ID_SSH : N := MSgen.SrcConsts.proto_mod__PROTO_SSH.
Definition ID_GHOST : N := MSgen.SrcConsts.proto_mod__PROTO_GHOST.
Definition ID_RPC_TCP : N := MSgen.SrcConsts.proto_mod__PROTO_RPC_TCP.
Definition ID_RPC_UDP : N := MSgen.SrcConsts.proto_mod__PROTO_RPC_UDP.
Definition ID_SMB1 : N := MSgen.SrcConsts.proto_mod__PROTO_SMB1.
Definition ID_SMB2 : N := MSgen.SrcConsts.proto_mod__PROTO_SMB2.

Record sig := { s_pat : list (option N);   (* None = '*' *)
                s_end : bool;               (* anchored at the end of the datagram *)
                s_id : N }.

Definition L (l : bytes) : list (option N) := map Some l.
Definition W (n : nat) : list (option N) := repeat None n.
Definition B_SP : N := 32.    (* ' ' *)
Definition B_SL : N := 47.    (* '/' *)

Definition http_sig (verb : bytes) : sig :=
  {| s_pat := L (verb ++ [B_SP; B_SL]); s_end := false; s_id := ID_HTTP |}.

Definition V_GET : bytes := [71; 69; 84].
Definition V_PUT : bytes := [80; 85; 84].
Definition V_POST : bytes := [80; 79; 83; 84].
Definition V_HEAD : bytes := [72; 69; 65; 68].
Definition V_DELETE : bytes := [68; 69; 76; 69; 84; 69].
Definition V_CONNECT : bytes := [67; 79; 78; 78; 69; 67; 84].
Definition V_OPTIONS : bytes := [79; 80; 84; 73; 79; 78; 83].
Definition V_TRACE : bytes := [84; 82; 65; 67; 69].
Definition V_PATCH : bytes := [80; 65; 84; 67; 72].

(* the published list; the index in this list names a signature *)
Definition ref_sigs : list sig := [
  (* 0..8 : VERB ' ' '/' *)
  http_sig V_GET; http_sig V_PUT; http_sig V_POST; http_sig V_HEAD; http_sig V_DELETE;
  http_sig V_CONNECT; http_sig V_OPTIONS; http_sig V_TRACE; http_sig V_PATCH;
  (* 9 : STUN binding request with the magic cookie: 00 01 * * 21 12 a4 42 *)
  {| s_pat := L [0; 1] ++ W 2 ++ L [33; 18; 164; 66]; s_end := false; s_id := ID_STUN |};
  (* 10 : RFC 3489 binding request without attribute: 00 01 00 00 + 16 * + END *)
  {| s_pat := L [0; 1; 0; 0] ++ W 16; s_end := true; s_id := ID_STUN |};
  (* 11 : RFC 3489 binding request with CHANGE-REQUEST:
          00 01 00 08 + 16 * + 00 03 00 04 00 00 00 * + END *)
  {| s_pat := L [0; 1; 0; 8] ++ W 16 ++ L [0; 3; 0; 4; 0; 0; 0] ++ W 1; s_end := true; s_id := ID_STUN |};
  (* 12, 13 : "SSH-2.0", "SSH-1.99" *)
  {| s_pat := L [83; 83; 72; 45; 50; 46; 48]; s_end := false; s_id := ID_SSH |};
  {| s_pat := L [83; 83; 72; 45; 49; 46; 57; 57]; s_end := false; s_id := ID_SSH |};
  (* 14 : "Gh0st" *)
  {| s_pat := L [71; 104; 48; 115; 116]; s_end := false; s_id := ID_GHOST |};
  (* 15 : ONC-RPC call over TCP (record mark, xid, CALL, rpcvers .. prog 0x000186xx ..) *)
  {| s_pat := W 8 ++ L [0; 0; 0; 0; 0; 0; 0] ++ W 1 ++ L [0; 1; 134] ++ W 5 ++ L [0; 0; 0] ++ W 1;
     s_end := false; s_id := ID_RPC_TCP |};
  (* 16 : ONC-RPC call over UDP (no record mark) *)
  {| s_pat := W 4 ++ L [0; 0; 0; 0; 0; 0; 0] ++ W 1 ++ L [0; 1; 134] ++ W 5 ++ L [0; 0; 0] ++ W 1;
     s_end := false; s_id := ID_RPC_UDP |};
  (* 17, 18 : SMB1 / SMB2 in a NetBIOS session message: 00 00 * * ff|fe 'S' 'M' 'B' *)
  {| s_pat := L [0; 0] ++ W 2 ++ L [255; 83; 77; 66]; s_end := false; s_id := ID_SMB1 |};
  {| s_pat := L [0; 0] ++ W 2 ++ L [254; 83; 77; 66]; s_end := false; s_id := ID_SMB2 |}
].

(* names of the signature indices (for readable states) *)
Definition I_GET := 0%nat.     Definition I_PUT := 1%nat.     Definition I_POST := 2%nat.
Definition I_HEAD := 3%nat.    Definition I_DELETE := 4%nat.  Definition I_CONNECT := 5%nat.
Definition I_OPTIONS := 6%nat. Definition I_TRACE := 7%nat.   Definition I_PATCH := 8%nat.
Definition I_STUN_MAGIC := 9%nat. Definition I_STUN_EMPTY := 10%nat. Definition I_STUN_CHANGE := 11%nat.
Definition I_SSH2 := 12%nat.   Definition I_SSH1 := 13%nat.   Definition I_GHOST := 14%nat.
Definition I_RPC_TCP := 15%nat. Definition I_RPC_UDP := 16%nat.
Definition I_SMB1 := 17%nat.   Definition I_SMB2 := 18%nat.

Definition sig_dummy : sig := {| s_pat := []; s_end := true; s_id := 0 |}.
Definition sig_at (i : nat) : sig := nth i ref_sigs sig_dummy.

(* ---- the reference automaton ---- *)
(* state: (number of bytes read, indices of the live signatures); dead = no live signature *)
Definition rstate := (nat * list nat)%type.
Definition r_init : rstate := (O, seq 0 (length ref_sigs)).
Definition r_dead : rstate := (O, []).

(* byte [b] matches position [n] of signature [i] *)
Definition pos_ok (i n : nat) (b : N) : bool :=
  match nth_error (s_pat (sig_at i)) n with
  | Some None => true
  | Some (Some c) => c =? b
  | None => false
  end.
(* signature [i] (not end-anchored) is complete after [n] bytes *)
Definition completes (i n : nat) : bool :=
  negb (s_end (sig_at i)) && (length (s_pat (sig_at i)) =? n)%nat.
(* end-anchored signature [i] is complete when the datagram ends after [n] bytes *)
Definition completes_end (i n : nat) : bool :=
  s_end (sig_at i) && (length (s_pat (sig_at i)) =? n)%nat.

Inductive rres := RCont (s : rstate) | RAcc (id : N).

Definition rsig_step (s : rstate) (b : N) : rres :=
  let '(n, live) := s in
  let live' := filter (fun i => pos_ok i n b) live in
  match find (fun i => completes i (S n)) live' with
  | Some i => RAcc (s_id (sig_at i))
  | None => match live' with [] => RCont r_dead | _ :: _ => RCont (S n, live') end
  end.

Definition rsig_end (s : rstate) : option N :=
  let '(n, live) := s in
  match find (fun i => completes_end i n) live with
  | Some i => Some (s_id (sig_at i))
  | None => None
  end.

Fixpoint rsig_run (s : rstate) (p : bytes) : rres :=
  match p with
  | [] => RCont s
  | b :: r => match rsig_step s b with RAcc id => RAcc id | RCont s' => rsig_run s' r end
  end.

(* a TCP stream: no end of input *)
Definition ref_tcp (p : bytes) : option N :=
  match rsig_run r_init p with RAcc id => Some id | RCont _ => None end.
(* a UDP datagram *)
Definition ref_udp (p : bytes) : option N :=
  match rsig_run r_init p with RAcc id => Some id | RCont s => rsig_end s end.

(* ---- the same semantics, stated directly on the payload (no automaton):
   [k] ranges over the lengths of the prefixes of [p], shortest first ---- *)
Fixpoint pat_match (pat : list (option N)) (p : bytes) : bool :=   (* pat matches a prefix of p *)
  match pat, p with
  | [], _ => true
  | _ :: _, [] => false
  | None :: pr, _ :: r => pat_match pr r
  | Some c :: pr, b :: r => (c =? b) && pat_match pr r
  end.
Definition sig_completed_at (k : nat) (p : bytes) (sg : sig) : bool :=
  negb (s_end sg) && (length (s_pat sg) =? k)%nat && pat_match (s_pat sg) p.
Definition sig_completed_end (p : bytes) (sg : sig) : bool :=
  s_end sg && (length (s_pat sg) =? length p)%nat && pat_match (s_pat sg) p.
Fixpoint first_completed (ks : list nat) (p : bytes) : option N :=
  match ks with
  | [] => None
  | k :: r => match find (sig_completed_at k p) ref_sigs with
              | Some sg => Some (s_id sg)
              | None => first_completed r p
              end
  end.
Definition ref_tcp_decl (p : bytes) : option N := first_completed (seq 1 (length p)) p.
Definition ref_udp_decl (p : bytes) : option N :=
  match ref_tcp_decl p with
  | Some id => Some id
  | None => match find (sig_completed_end p) ref_sigs with Some sg => Some (s_id sg) | None => None end
  end.
