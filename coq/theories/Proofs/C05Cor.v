(* Proofs/C05Cor.v -- the negative clauses of C05 as plain implications (no
   monitor in the statement): other ARP operations, unhandled ARP targets, other
   ICMPv4 types / non-zero codes and non-zero ICMPv6 codes get silence. Each is
   a corollary of l2l3_services. *)
From MS Require Import L2 Spec.View Spec.RefDec Spec.C05 Proofs.C05.

Lemma silent_none r : silent r = true -> r = None.
Proof. destruct r; [discriminate|reflexivity]. Qed.

Section Cor.
  Variables (E : env) (cfg : config) (clk : clock) (tb tb' : table) (f : bytes)
            (r : option bytes) (evs : list event).
  Hypothesis Hcfg : cfg_ok cfg = true.
  Hypothesis Hf : bytes_ok f = true.
  Hypothesis Hr : reply E cfg clk tb f = Ok (tb', r, evs).
  Hypothesis Hlen : (length f <? 14)%nat = false.
  Hypothesis Hauth : ref_auth cfg (firstn 6 f) = true.

  Lemma arp_silence q :
    u16_at 12 f = 2054 -> dec_arp (skipn 14 f) = Some q ->
    (da_op q =? 1) && handled cfg (V4 (da_tpa q)) = false -> r = None.
  Proof.
    intros Het Hq Hc. pose proof (l2l3_services _ _ _ _ _ _ _ _ Hcfg Hf Hr) as H.
    unfold ok_C05 in H. rewrite Hlen, Hauth in H. cbn [negb] in H.
    rewrite Het, N.eqb_refl in H. unfold ok_arp in H. rewrite Hq, Hc in H.
    apply silent_none; exact H.
  Qed.

  Lemma arp_short_silence :
    u16_at 12 f = 2054 -> dec_arp (skipn 14 f) = None -> r = None.
  Proof.
    intros Het Hq. pose proof (l2l3_services _ _ _ _ _ _ _ _ Hcfg Hf Hr) as H.
    unfold ok_C05 in H. rewrite Hlen, Hauth in H. cbn [negb] in H.
    rewrite Het, N.eqb_refl in H. unfold ok_arp in H. rewrite Hq in H.
    apply silent_none; exact H.
  Qed.

  Lemma icmp4_other_silence v :
    u16_at 12 f <> 2054 -> view cfg f = Some v -> v_v4 v = true -> v_proto v = 1 ->
    (4 <=? length (v_l4 v))%nat = true ->
    (u8_at 0 (v_l4 v) =? 8) && (u8_at 1 (v_l4 v) =? 0) = false -> r = None.
  Proof.
    intros Het Hv H4 Hp Hl Hc. pose proof (l2l3_services _ _ _ _ _ _ _ _ Hcfg Hf Hr) as H.
    unfold ok_C05 in H. rewrite Hlen, Hauth in H. cbn [negb] in H.
    apply N.eqb_neq in Het. rewrite Het, Hv, H4, Hp in H. cbn [andb N.eqb Pos.eqb] in H.
    unfold ok_icmp4 in H.
    replace (length (v_l4 v) <? 4)%nat with false in H
      by (symmetry; apply Nat.ltb_ge; apply Nat.leb_le; exact Hl).
    rewrite Hc in H. apply silent_none; exact H.
  Qed.

  Lemma icmp6_code_silence v :
    u16_at 12 f <> 2054 -> view cfg f = Some v -> v_v4 v = false -> v_proto v = 58 ->
    u8_at 1 (v_l4 v) <> 0 -> r = None.
  Proof.
    intros Het Hv H4 Hp Hc. pose proof (l2l3_services _ _ _ _ _ _ _ _ Hcfg Hf Hr) as H.
    unfold ok_C05 in H. rewrite Hlen, Hauth in H. cbn [negb] in H.
    apply N.eqb_neq in Het. rewrite Het, Hv, H4, Hp in H. cbn [andb negb] in H.
    rewrite N.eqb_refl in H. unfold ok_icmp6 in H.
    apply N.eqb_neq in Hc. rewrite Hc in H. cbn [negb] in H.
    destruct (length (v_l4 v) <? 4)%nat; apply silent_none; exact H.
  Qed.

  Lemma icmp6_other_type_silence v :
    u16_at 12 f <> 2054 -> view cfg f = Some v -> v_v4 v = false -> v_proto v = 58 ->
    u8_at 0 (v_l4 v) <> 128 -> u8_at 0 (v_l4 v) <> 135 -> r = None.
  Proof.
    intros Het Hv H4 Hp H128 H135. pose proof (l2l3_services _ _ _ _ _ _ _ _ Hcfg Hf Hr) as H.
    unfold ok_C05 in H. rewrite Hlen, Hauth in H. cbn [negb] in H.
    apply N.eqb_neq in Het. rewrite Het, Hv, H4, Hp in H. cbn [andb negb] in H.
    rewrite N.eqb_refl in H. unfold ok_icmp6 in H.
    apply N.eqb_neq in H128. apply N.eqb_neq in H135. rewrite H128, H135 in H.
    destruct (length (v_l4 v) <? 4)%nat; [apply silent_none; exact H|].
    destruct (negb (u8_at 1 (v_l4 v) =? 0)); apply silent_none; exact H.
  Qed.
End Cor.
