(* L3.v -- src/layer_3/{ipv4,ipv6}.rs. Input: the Ethernet payload. Output:
   the reply IP packet (IPv4: header checksum still zero, layer 2 fills it). *)
From MS Require Export Bytes Res Types Checksum L4.

Definition set_cksum (off : nat) (p : bytes) (c : N) : bytes :=
  firstn off p ++ be16 c ++ skipn (off + 2) p.

Definition ipv4_payload (p : bytes) : bytes :=
  let ihl := N.to_nat (u8_at 0 p mod 16) in
  let total := N.to_nat (u16_at 2 p) in
  let start := (20 + (ihl * 4 - 20))%nat in
  let stop := Nat.min (start + (total - ihl * 4)) (length p) in
  if (length p <=? start)%nat then [] else firstn (stop - start) (skipn start p).

Definition ipv4_header (total proto : N) (src dst : bytes) : bytes :=
  [69; 0] ++ be16 total ++ [0; 0; 64; 0; 64; proto; 0; 0] ++ src ++ dst.

Definition PANIC_UDP_LEN : N := 301.

Definition ipv4_repl (E : env) (cfg : config) (clk : clock) (tb : table) (ci0 : cinfo) (p : bytes)
  : res (table * cinfo * option bytes * list event) :=
  let src := slice 12 4 p in
  let dst := slice 16 4 p in
  let proto := u8_at 9 p in
  let ci := ci_set_ip ci0 (V4 src) (V4 dst) in
  let recv := mk_ev LIpv4 Recv ci [proto] in
  let dropped c evs := Ok (tb, c, None, recv :: evs ++ [mk_ev LIpv4 Drop c [proto]]) in
  if match c_self cfg with Some l => negb (ip_in (V4 dst) l) | None => false end then dropped ci []
  else if match c_deny cfg with Some l => ip_in (V4 src) l | None => false end then dropped ci []
  else
    let ci := ci_set_transport ci proto in
    let pl := ipv4_payload p in
    let finish tb' c l4 evs :=
      Ok (tb', c, Some (ipv4_header (20 + lenN l4) proto dst src ++ l4),
          recv :: evs ++ [mk_ev LIpv4 Send c [proto]]) in
    if proto =? 1 then
      if (length pl <? 4)%nat then dropped ci []
      else
        match icmpv4_repl ci pl with
        | (Some r, evs) => finish tb ci (set_cksum 2 r (checksum r)) evs
        | (None, evs) => dropped ci evs
        end
    else if proto =? 6 then
      if (length pl <? 20)%nat then dropped ci []
      else
        do x <- tcp_repl E cfg clk tb ci pl;
        let '(tb', ci', out, evs) := x in
        match out with
        | Some r => finish tb' ci' (set_cksum 16 r (checksum_pseudo dst src 6 r)) evs
        | None => Ok (tb', ci', None, recv :: evs ++ [mk_ev LIpv4 Drop ci' [proto]])
        end
    else if proto =? 17 then
      if (length pl <? 8)%nat then dropped ci []
      else
        do x <- udp_repl E cfg clk ci pl;
        let '(ci', out, evs) := x in
        match out with
        | Some r =>
          if 65535 <? lenN r then Panic PANIC_UDP_LEN     (* udp_len.try_into().unwrap() *)
          else finish tb ci' (set_cksum 6 r (checksum_pseudo dst src 17 r)) evs
        | None => dropped ci' evs
        end
    else dropped ci [].

Definition ipv6_payload (p : bytes) : bytes :=
  let plen := N.to_nat (u16_at 4 p) in
  let stop := Nat.min (40 + plen) (length p) in
  if (length p <=? 40)%nat then [] else firstn (stop - 40) (skipn 40 p).

Definition ipv6_header (plen nh hlim : N) (src dst : bytes) : bytes :=
  [96; 0; 0; 0] ++ be16 plen ++ [nh; hlim] ++ src ++ dst.

(* a UDP checksum that computes to zero is transmitted as 0xFFFF (RFC 8200) *)
Definition udp6_cksum (c : N) : N := if c =? 0 then 65535 else c.

Definition ipv6_repl (E : env) (cfg : config) (clk : clock) (tb : table) (ci0 : cinfo) (p : bytes)
  : res (table * cinfo * option bytes * list event) :=
  let src := slice 8 16 p in
  let dst := slice 24 16 p in
  let nh := u8_at 6 p in
  let ci := ci_set_ip ci0 (V6 src) (V6 dst) in
  let recv := mk_ev LIpv6 Recv ci [nh] in
  let dropped c evs := Ok (tb, c, None, recv :: evs ++ [mk_ev LIpv6 Drop c [nh]]) in
  if match c_self cfg with Some l => negb (ip_in (V6 dst) l) && negb (nh =? 58) | None => false end
  then dropped ci []
  else if match c_deny cfg with Some l => ip_in (V6 src) l | None => false end then dropped ci []
  else
    let ci := ci_set_transport ci nh in
    let pl := ipv6_payload p in
    let finish tb' c rsrc hlim l4 evs :=
      Ok (tb', c, Some (ipv6_header (lenN l4) nh hlim rsrc src ++ l4),
          recv :: evs ++ [mk_ev LIpv6 Send c [nh]]) in
    if nh =? 58 then
      if (length pl <? 4)%nat then dropped ci []
      else
        match icmpv6_repl cfg ci pl with
        | (Some r, tgt, evs) =>
          let rsrc := match tgt with Some t => t | None => dst end in
          finish tb ci rsrc (if u8_at 0 r =? 136 then 255 else 64)
                 (set_cksum 2 r (checksum_pseudo src rsrc 58 r)) evs
        | (None, _, evs) => dropped ci evs
        end
    else if nh =? 6 then
      if (length pl <? 20)%nat then dropped ci []
      else
        do x <- tcp_repl E cfg clk tb ci pl;
        let '(tb', ci', out, evs) := x in
        match out with
        | Some r => finish tb' ci' dst 64 (set_cksum 16 r (checksum_pseudo dst src 6 r)) evs
        | None => Ok (tb', ci', None, recv :: evs ++ [mk_ev LIpv6 Drop ci' [nh]])
        end
    else if nh =? 17 then
      if (length pl <? 8)%nat then dropped ci []
      else
        do x <- udp_repl E cfg clk ci pl;
        let '(ci', out, evs) := x in
        match out with
        | Some r => finish tb ci' dst 64 (set_cksum 6 r (udp6_cksum (checksum_pseudo dst src 17 r))) evs
        | None => dropped ci' evs
        end
    else dropped ci [].
