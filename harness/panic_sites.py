"""Inventory of explicit panic sites (unwrap / expect / panic! / unreachable! / assert!) in the parts of
/repo that reply() can reach. The committed inventory (harness/panic_inventory.json) maps every site to
its disposition: the model's Panic branch that represents it, or the reason it cannot fire. A site that
is new (or whose text changed) breaks the C01 correspondence (the model no longer accounts for every way the
code can abort); a site that has disappeared is only logged."""
import os, re, json, sys
from common import *

TOK = re.compile(r"\.unwrap\(\)|\.expect\(|panic!\(|unreachable!\(|todo!\(|unimplemented!\(|\bassert(_eq|_ne)?!\(")
FN = re.compile(r"^\s*(pub(\([a-z]+\))?\s+)?fn\s+([A-Za-z0-9_]+)")
# not reachable from reply(): start-up code, file parsers, the verification driver
SKIP_FILES = {"src/verif_driver.rs", "src/utils/parsers.rs"}
SKIP_FNS = {("src/masscanned.rs", "main"), ("src/masscanned.rs", "get_channel")}
INVENTORY = os.path.join(VERIF, "harness", "panic_inventory.json")


def scan(repo=REPO):
    sites = []
    for root, dirs, fs in os.walk(os.path.join(repo, "src")):
        dirs.sort()
        for f in sorted(fs):
            if not f.endswith(".rs"):
                continue
            p = os.path.join(root, f)
            rel = os.path.relpath(p, repo)
            if rel in SKIP_FILES:
                continue
            fn = "?"
            seen = {}
            for line in open(p).read().split("\n"):
                s = line.strip()
                if s.startswith("#[cfg(test)]"):
                    break
                if s.startswith("//"):
                    continue
                m = FN.match(line)
                if m:
                    fn = m.group(3)
                for t in TOK.finditer(line):
                    if (rel, fn) in SKIP_FNS:
                        continue
                    key = "%s|%s|%s" % (rel, fn, re.sub(r"\s+", " ", s))
                    seen[key] = seen.get(key, 0) + 1
                    sites.append(key + ("#%d" % seen[key] if seen[key] > 1 else ""))
    return sites


def _bag(keys):
    """multiset of (file, site text): the enclosing function and the occurrence number are not part of a site's identity,
    so that moving a site into a helper function of the same file is not reported"""
    bag = {}
    for k in keys:
        f, fn, text = k.split("|", 2)
        text = re.sub(r"#\d+$", "", text).rstrip(" ;,")          # formatting of the statement's end is not identity
        bag[(f, text)] = bag.get((f, text), 0) + 1
    return bag


def compare():
    """-> list of problem strings (empty when every site of the code is accounted for by the inventory)."""
    inv = json.load(open(INVENTORY))
    cur, known = _bag(scan()), _bag(inv)
    out = []
    for k in sorted(cur):
        if cur[k] > known.get(k, 0):
            out.append("panic site not in the inventory (no model branch / discharge accounts for it): %s|%s" % k)
    # a site that is gone cannot abort the process any more: information only (the model's Panic branch for it is
    # then unreachable in the code, which no C01 statement depends on)
    for k in sorted(known):
        if known[k] > cur.get(k, 0):
            log("C01 inventory: site no longer present in the code: %s|%s" % k)
    return out


if __name__ == "__main__":
    if "--init" in sys.argv:
        old = json.load(open(INVENTORY)) if os.path.exists(INVENTORY) else {}
        new = {k: old.get(k, "TODO") for k in scan()}
        json.dump(new, open(INVENTORY, "w"), indent=1, sort_keys=True)
        print(len(new), "sites;", sum(1 for v in new.values() if v == "TODO"), "without disposition")
    else:
        for l in compare():
            print(l)
