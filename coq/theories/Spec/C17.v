(* Spec/C17.v -- SMB1/SMB2: negotiate / session-setup replies framed, correlated,
   consistent.  Written from the property text and the protocol documents (see
   Spec/RefSmb.v for the references); nothing is shared with the responder model.
   Definitions only.

   What the property says, clause by clause, and where it is below:
     "requests inside a NetBIOS session message"      [classify]: type 0, flags 0, the
                                                      announced length lies within the payload
     "are answered with the matching response"        [*_reply_ok]: Some r, r decodes as the
                                                      response of the same command
     "NetBIOS length = bytes that follow"             [dec_nbt_exact]
     "reply flag set, command and ... echoed"         [smb1_reply_hdr_ok] / [smb2_reply_hdr_ok]
     "every embedded length or offset ... consistent  [neg1_resp_consistent] ... (RefSmb.v)
      with the security blob actually present"
     "the selected dialect is one the client offered" [sel1_ok] / [select2]
     "(SMB2: no reply if none is supported)"          [select2] = None => no reply
     "flagged as responses / other commands"          [RqOther1] / [RqOther2] => no reply
   The two wall-clock FILETIME fields (SystemTime / ServerStartTime) are decoded and
   not constrained. *)
From MS Require Export Bytes Types Spec.RefSmb Spec.AppView.

(* ====================================================================== *)
(*                          dialect selection                             *)
(* ====================================================================== *)
Definition NAME_NT_LM_012 : bytes := [78; 84; 32; 76; 77; 32; 48; 46; 49; 50].      (* "NT LM 0.12" *)
Definition NAME_SMB2_WILD : bytes := [83; 77; 66; 32; 50; 46; 63; 63; 63].          (* "SMB 2.???" *)
Definition NAME_SMB2_002 : bytes := [83; 77; 66; 32; 50; 46; 48; 48; 50].           (* "SMB 2.002" *)

(* SMB1: the dialects the responder recognises, in its order of preference *)
Definition PREFERRED1 : list bytes := [NAME_NT_LM_012; NAME_SMB2_WILD; NAME_SMB2_002].

Definition offered1 (d : bytes) (ds : list bytes) : bool := existsb (bytes_eqb d) ds.

Fixpoint first_offered1 (prefs : list bytes) (ds : list bytes) : option bytes :=
  match prefs with
  | [] => None
  | d :: t => if offered1 d ds then Some d else first_offered1 t ds
  end.

(* DialectIndex designates an entry of the client's list; when a recognised dialect
   was offered the entry is the most preferred of them (any of its occurrences);
   when none was offered the index is 0, the first entry offered *)
Definition sel1_ok (ds : list bytes) (idx : N) : bool :=
  (idx <? N.of_nat (length ds)) &&
  match first_offered1 PREFERRED1 ds with
  | Some name => bytes_eqb (nth (N.to_nat idx) ds []) name
  | None => idx =? 0
  end.

(* SMB2: the revisions the responder supports, in its order of preference
   (0x0202 0x0210 0x02FF 0x0300 0x0302 0x0310 0x0311).  0x02FF, the wildcard revision
   of the multi-protocol negotiate, is treated like any other code: it is selected
   only when the client lists it (and lists neither 0x0202 nor 0x0210) *)
Definition SERVER_DIALECTS2 : list N := [514; 528; 767; 768; 770; 784; 785].

Definition offered2 (d : N) (ds : list N) : bool := existsb (N.eqb d) ds.

Fixpoint first_offered2 (prefs : list N) (ds : list N) : option N :=
  match prefs with
  | [] => None
  | d :: t => if offered2 d ds then Some d else first_offered2 t ds
  end.
Definition select2 (ds : list N) : option N := first_offered2 SERVER_DIALECTS2 ds.

(* ====================================================================== *)
(*                    expected responses (per message type)               *)
(* ====================================================================== *)
Definition smb1_reply_hdr_ok (h rh : smb1_hdr) : bool :=
  has_bit (sh1_flags rh) SMB_FLAGS_REPLY &&
  (sh1_command rh =? sh1_command h) &&
  (sh1_pid_high rh =? sh1_pid_high h) && (sh1_tid rh =? sh1_tid h) &&
  (sh1_pid_low rh =? sh1_pid_low h) && (sh1_uid rh =? sh1_uid h) && (sh1_mid rh =? sh1_mid h).

Definition smb2_reply_hdr_ok (h rh : smb2_hdr) : bool :=
  has_bit (sh2_flags rh) SMB2_FLAGS_SERVER_TO_REDIR &&
  (sh2_command rh =? sh2_command h) &&
  (sh2_message_id rh =? sh2_message_id h) && (sh2_async_id rh =? sh2_async_id h) &&
  (sh2_session_id rh =? sh2_session_id h).

(* r = one session message holding an SMB1 message *)
Definition dec_smb1_reply (r : bytes) : option (smb1_hdr * bytes) :=
  let? m := dec_nbt_exact r in rd_smb1_hdr m.
Definition dec_smb2_reply (r : bytes) : option (smb2_hdr * bytes) :=
  let? m := dec_nbt_exact r in rd_smb2_hdr m.

Definition neg1_reply_ok (h : smb1_hdr) (ds : list bytes) (r : bytes) : bool :=
  match dec_smb1_reply r with
  | Some (rh, body) =>
    smb1_reply_hdr_ok h rh &&
    match rd_neg1_resp body with
    | Some rsp => neg1_resp_consistent rsp && sel1_ok ds (nr1_dialect_index rsp)
    | None => false
    end
  | None => false
  end.

Definition setup1_reply_ok (h : smb1_hdr) (r : bytes) : bool :=
  match dec_smb1_reply r with
  | Some (rh, body) =>
    smb1_reply_hdr_ok h rh &&
    match rd_setup1_resp body with
    | Some rsp => setup1_resp_consistent rsp
    | None => false
    end
  | None => false
  end.

Definition neg2_reply_ok (h : smb2_hdr) (d : N) (r : bytes) : bool :=
  match dec_smb2_reply r with
  | Some (rh, body) =>
    smb2_reply_hdr_ok h rh &&
    match rd_neg2_resp body with
    | Some rsp => neg2_resp_consistent rsp && (nr2_dialect rsp =? d)
    | None => false
    end
  | None => false
  end.

Definition setup2_reply_ok (h : smb2_hdr) (r : bytes) : bool :=
  match dec_smb2_reply r with
  | Some (rh, body) =>
    smb2_reply_hdr_ok h rh &&
    match rd_setup2_resp body with
    | Some rsp => setup2_resp_consistent rsp
    | None => false
    end
  | None => false
  end.

(* ====================================================================== *)
(*                 which payloads the property speaks about               *)
(* ====================================================================== *)
Inductive smb_req :=
| RqNeg1 (h : smb1_hdr) (ds : list bytes)
| RqSetup1 (h : smb1_hdr) (q : setup1_req)
| RqOther1 (h : smb1_hdr)          (* flagged as a response, or another command *)
| RqNeg2 (h : smb2_hdr) (q : neg2_req)
| RqSetup2 (h : smb2_hdr) (q : setup2_req)
| RqOther2 (h : smb2_hdr).

Definition smb1_is_request (h : smb1_hdr) : bool := negb (has_bit (sh1_flags h) SMB_FLAGS_REPLY).
Definition smb2_is_request (h : smb2_hdr) : bool := negb (has_bit (sh2_flags h) SMB2_FLAGS_SERVER_TO_REDIR).

(* the four bytes in front of the SMB message: a session message (type 0) whose
   length fits 16 bits (flags 0; with E set the message is at least 64 KiB long and
   cannot be complete in one segment / datagram) *)
Definition nbt_req_hdr (len : N) : bytes := [0; 0] ++ be16 len.

(* [p] = header(len) ++ ser h ++ ser body ++ tail, for a request that lies within the
   announced session message, every field in range.  The readers locate the fields;
   the final comparison with the re-encoded request makes the classification exact
   (soundness by construction, completeness: Proofs/C17Ref.v) *)
Definition classify (p : bytes) : option smb_req :=
  let? (len, rest) := rd_nbt p in
  if negb (len <? 65536) then None else
  match rd_smb1_hdr rest with
  | Some (h, body) =>
    if negb (smb1_hdr_wf h && is_prefix (ser_smb1_hdr h) rest) then None
    else if negb (smb1_is_request h) then Some (RqOther1 h)
    else if sh1_command h =? SMB_COM_NEGOTIATE then
      let? (ds, _) := rd_neg1_req body in
      let enc := ser_smb1_hdr h ++ ser_neg1_req ds in
      if neg1_req_wf ds && (lenN enc <=? len) && is_prefix enc rest then Some (RqNeg1 h ds) else None
    else if sh1_command h =? SMB_COM_SESSION_SETUP_ANDX then
      let? (q, _) := rd_setup1_req body in
      let enc := ser_smb1_hdr h ++ ser_setup1_req q in
      if setup1_req_wf q && (lenN enc <=? len) && is_prefix enc rest then Some (RqSetup1 h q) else None
    else Some (RqOther1 h)
  | None =>
    match rd_smb2_hdr rest with
    | Some (h, body) =>
      if negb (smb2_hdr_wf h && is_prefix (ser_smb2_hdr h) rest) then None
      else if negb (smb2_is_request h) then Some (RqOther2 h)
      else if sh2_command h =? SMB2_NEGOTIATE then
        let? (q, _) := rd_neg2_req body in
        let enc := ser_smb2_hdr h ++ ser_neg2_req q in
        if neg2_req_wf q && (lenN enc <=? len) && is_prefix enc rest then Some (RqNeg2 h q) else None
      else if sh2_command h =? SMB2_SESSION_SETUP then
        let? (q, _) := rd_setup2_req body in
        let enc := ser_smb2_hdr h ++ ser_setup2_req q in
        if setup2_req_wf q && (lenN enc <=? len) && is_prefix enc rest then Some (RqSetup2 h q) else None
      else Some (RqOther2 h)
    | None => None
    end
  end.

(* ====================================================================== *)
(*                          payload-level monitors                        *)
(* ====================================================================== *)
Definition is_none {A} (o : option A) : bool := match o with None => true | Some _ => false end.

Definition expect_reply (chk : bytes -> bool) (o : option bytes) : bool :=
  match o with Some r => chk r | None => false end.

(* the verdict for a classified request.  An SMB1 negotiate offering no dialect admits
   no response that selects an offered dialect: silence is the only conforming outcome *)
Definition req_ok (rq : smb_req) (o : option bytes) : bool :=
  match rq with
  | RqNeg1 h ds =>
    match ds with
    | [] => is_none o
    | _ => expect_reply (neg1_reply_ok h ds) o
    end
  | RqSetup1 h q => expect_reply (setup1_reply_ok h) o
  | RqOther1 _ => is_none o
  | RqNeg2 h q =>
    match select2 (nq2_dialects q) with
    | Some d => expect_reply (neg2_reply_ok h d) o
    | None => is_none o
    end
  | RqSetup2 h q => expect_reply (setup2_reply_ok h) o
  | RqOther2 _ => is_none o
  end.

(* the payload-level monitor: an in-scope request must be answered as the property says
   (there is no excluded class any more: the empty-security-blob defect found with this
   property was repaired in the implementation, repo commit 5dca3e9) *)
Definition app_ok_C17 (ctx : app_ctx) (p : bytes) (o : option bytes) : bool :=
  match classify p with
  | None => true
  | Some rq => req_ok rq o
  end.

(* ---- frame-level monitors ---- *)
Definition ok_C17_udp (cfg : config) (f : bytes) (r : option bytes) : bool :=
  ok_app_udp app_ok_C17 cfg f r.
Definition ok_C17_tcp (cfg : config) (st : ref_state) (f : bytes) (r : option bytes) : bool :=
  ok_app_tcp_first app_ok_C17 cfg st f r.

(* the facts about the two security blobs (data dumped from the implementation) that
   the theorems need: octets, and short enough for every 16-bit length field and for
   the 17-bit NetBIOS length *)
Definition blob_ok (neg chal : bytes) : bool :=
  bytes_ok neg && bytes_ok chal && (lenN neg <? 65000) && (lenN chal <? 65000).

(* ====================================================================== *)
(*     "Session-Setup requests are answered" for all blob lengths          *)
(*     (refuted before the repair of the implementation, proved now)       *)
(* ====================================================================== *)
(* "Session-Setup requests ... are answered", for ALL blob lengths (the quantifier of
   the property includes 0).  [reply] abstracts the responder entry point. *)
Definition C17_smb1_setup_all_blobs_stmt (reply : bytes -> option (option bytes)) : Prop :=
  forall h q tail,
    smb1_hdr_wf h = true -> setup1_req_wf q = true -> smb1_is_request h = true ->
    sh1_command h = SMB_COM_SESSION_SETUP_ANDX -> bytes_ok tail = true ->
    exists r, reply (ser_nbt (ser_smb1_hdr h ++ ser_setup1_req q) ++ tail) = Some (Some r) /\
              setup1_reply_ok h r = true.
Definition C17_smb2_setup_all_blobs_stmt (reply : bytes -> option (option bytes)) : Prop :=
  forall h q tail,
    smb2_hdr_wf h = true -> setup2_req_wf q = true -> smb2_is_request h = true ->
    sh2_command h = SMB2_SESSION_SETUP -> bytes_ok tail = true ->
    exists r, reply (ser_nbt (ser_smb2_hdr h ++ ser_setup2_req q) ++ tail) = Some (Some r) /\
              setup2_reply_ok h r = true.
