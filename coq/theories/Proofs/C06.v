(* Proofs/C06.v *)
From MS Require Import Proofs.Tactics Proofs.DecLemmas Proofs.Pipeline Proofs.ViewLemmas
     L2 Spec.View Spec.RefDec Spec.C06.

(* ---- the flag decision, settled for all 512 flag words by computation ---- *)
Definition flag_words : list N := map N.of_nat (seq 0 512).

Definition flag_row_ok (fl : N) : bool :=
  if has_syn fl then
    if linux_ok fl then match tcp_class fl with TSynAck => true | _ => false end
    else match tcp_class fl with TData | TDropOther => true | _ => false end
  else true.

Lemma flag_table_computed : forallb flag_row_ok flag_words = true.
Proof. vm_compute. reflexivity. Qed.

Lemma flag_row (fl : N) : fl < 512 -> flag_row_ok fl = true.
Proof.
  intros H. pose proof flag_table_computed as T. rewrite forallb_forall in T. apply T.
  unfold flag_words. apply in_map_iff. exists (N.to_nat fl). split; [lia|].
  apply in_seq. lia.
Qed.

Lemma tcp_flags_lt (p : bytes) : bytes_ok p = true -> tcp_flags p < 512.
Proof.
  intros H. unfold tcp_flags. pose proof (u8_at_lt 12 p H). pose proof (u8_at_lt 13 p H). lia.
Qed.

(* the flow the cookie is computed for *)
Lemma cookie_ci_l3 k0 k1 f v sp dp :
  cookie_ci k0 k1 (ci_set_ports (l3_ci f v) sp dp) = Some (cookie k0 k1 (v_src v) (v_dst v) sp dp).
Proof. unfold l3_ci, cookie_ci. destruct (v_v4 v); reflexivity. Qed.

(* tcp_repl on a segment classified TSynAck *)
Lemma tcp_repl_synack E cfg clk tb f v :
  tcp_class (tcp_flags (v_l4 v)) = TSynAck ->
  exists ci' evs seg,
  tcp_repl E cfg clk tb (l3_ci f v) (v_l4 v) = Ok (tb, ci', Some seg, evs) /\
  seg = tcp_header (u16_at 2 (v_l4 v)) (u16_at 0 (v_l4 v))
                   (cookie (c_key0 cfg) (c_key1 cfg) (v_src v) (v_dst v) (u16_at 0 (v_l4 v)) (u16_at 2 (v_l4 v)))
                   (wrap32 (u32_at 4 (v_l4 v) + 1)) (SYN + ACK) ++ [].
Proof.
  intros Hc. unfold tcp_repl. rewrite Hc. rewrite cookie_ci_l3.
  unfold l3_ci. cbn. eexists _, _, _. split; reflexivity.
Qed.

Lemma tcp_repl_flags E cfg clk tb ci p tb' ci' r evs :
  tcp_repl E cfg clk tb ci p = Ok (tb', ci', Some r, evs) ->
  exists sp dp seq ack fl pl,
    r = tcp_header sp dp seq ack fl ++ pl /\
    (match tcp_class (tcp_flags p) with
     | TData => fl = ACK + PSH \/ fl = ACK
     | TFinAck => fl = FIN + ACK
     | TSynAck => fl = SYN + ACK
     | _ => False
     end).
Proof.
  unfold tcp_repl.
  destruct (tcp_class (tcp_flags p)) eqn:Hc.
  - (* TData *)
    destruct (cookie_ci _ _ _) as [ck|]; [|discriminate].
    match goal with |- context [if ?c then _ else _] => destruct c end; [discriminate|].
    destruct (proto_repl_tcp _ _ _ _ _) as [[[ci2 tc'] out]|s]; cbn [bind]; [|discriminate].
    destruct out as [d|];
      (destruct (ci_port_dst ci2) as [sp|]; [|discriminate];
       destruct (ci_port_src ci2) as [dp|]; [|discriminate]);
      intros H; inversion H; subst; eexists _, _, _, _, _, _; split; try reflexivity; auto.
  - discriminate.
  - discriminate.
  - cbn. intros H. inversion H; subst. eexists _, _, _, _, _, _; split; reflexivity.
  - destruct (cookie_ci _ _ _) as [ck|]; [|discriminate].
    cbn. intros H. inversion H; subst. eexists _, _, _, _, _, _; split; reflexivity.
  - discriminate.
Qed.

Lemma view_tcp_view cfg f v : view_tcp cfg f = Some v -> view cfg f = Some v /\ v_proto v = 6.
Proof.
  unfold view_tcp. destruct (view cfg f) as [v'|]; [|discriminate].
  destruct ((v_proto v' =? 6) && _) eqn:H; [|discriminate].
  intros X; inversion X; subst. apply andb_true_iff in H. destruct H as [H _]. split; [reflexivity|lia].
Qed.

Lemma view_l4_ok cfg f v : bytes_ok f = true -> view cfg f = Some v -> bytes_ok (v_l4 v) = true.
Proof.
  intros Hf Hv. destruct (view_inv _ _ _ Hv) as (_ & _ & [H4 | H6]).
  - destruct H4 as (_ & _ & _ & _ & _ & _ & -> & _). unfold ipv4_payload.
    destruct (_ <=? _)%nat; [reflexivity|]. apply bytes_ok_firstn, bytes_ok_skipn, bytes_ok_skipn, Hf.
  - destruct H6 as (_ & _ & _ & _ & _ & _ & -> & _). unfold ipv6_payload.
    destruct (_ <=? _)%nat; [reflexivity|]. apply bytes_ok_firstn, bytes_ok_skipn, bytes_ok_skipn, Hf.
Qed.

Theorem syn_policy E cfg clk tb f tb' r evs :
  cfg_ok cfg = true -> bytes_ok f = true ->
  reply E cfg clk tb f = Ok (tb', r, evs) ->
  ok_C06 cfg f r = true.
Proof.
  intros Hcfg Hf Hr. unfold ok_C06.
  destruct (view_tcp cfg f) as [v|] eqn:Hvt; [|reflexivity].
  destruct (view_tcp_view _ _ _ Hvt) as [Hv Hp].
  pose proof (reply_tcp E cfg clk tb f v Hvt) as Hfac. rewrite Hr in Hfac. cbn [strip] in Hfac.
  pose proof (tcp_flags_lt _ (view_l4_ok _ _ _ Hf Hv)) as Hfl.
  pose proof (flag_row _ Hfl) as Hrow. unfold flag_row_ok in Hrow.
  destruct (has_syn (tcp_flags (v_l4 v))); [|reflexivity]. cbn [negb].
  destruct (linux_ok (tcp_flags (v_l4 v))).
  - (* must be the SYN-ACK *)
    destruct (tcp_class (tcp_flags (v_l4 v))) eqn:Hc; try discriminate.
    destruct (tcp_repl_synack E cfg clk tb f v Hc) as (ci' & evs' & seg & Ht & Hseg).
    rewrite Ht in Hfac. injection Hfac as Htb Hrr. subst tb' r seg.
    assert (SYN + ACK < 512) as Hsa by (unfold SYN, ACK; lia).
    match goal with |- context [tcp_header ?a ?b ?c ?d ?e ++ []] =>
      destruct (dec_wrap_tcp cfg f v 64 a b c d e [] Hcfg Hv Hp Hsa ltac:(lia)) as (e' & i & Hdec & _)
    end.
    rewrite Hdec. cbn [dt_flags dt_ack dt_payload dt_seq length].
    unfold SYN, ACK, wrap32, cookie.
    repeat (apply andb_true_iff; split); try reflexivity.
    + rewrite N.eqb_eq. rewrite N.mod_mod by lia. reflexivity.
    + rewrite N.eqb_eq. rewrite N.mod_mod by lia. reflexivity.
  - (* must not be a SYN-ACK *)
    destruct r as [rf|]; [|reflexivity].
    destruct (tcp_repl E cfg clk tb (l3_ci f v) (v_l4 v)) as [[[[tb2 ci2] [seg|]] evs2]|s] eqn:Ht;
      try discriminate.
    injection Hfac as Htb Hrr. subst tb' rf.
    destruct (tcp_repl_flags _ _ _ _ _ _ _ _ _ _ Ht) as (sp & dp & sq & ak & fl & pl & -> & Hcls).
    assert (fl = ACK + PSH \/ fl = ACK) as Hfl2.
    { destruct (tcp_class (tcp_flags (v_l4 v))); try discriminate; try contradiction; exact Hcls. }
    assert (fl < 512) as Hfl3 by (unfold ACK, PSH in Hfl2; lia).
    destruct (dec_wrap_tcp cfg f v 64 sp dp sq ak fl pl Hcfg Hv Hp Hfl3 ltac:(lia)) as (e & i & Hdec & _).
    rewrite Hdec. cbn [dt_flags]. unfold ACK, PSH in Hfl2. destruct Hfl2; subst fl; reflexivity.
Qed.

Theorem syn_leaves_table E cfg clk tb f v tb' r evs :
  bytes_ok f = true ->
  view_tcp cfg f = Some v ->
  has_syn (tcp_flags (v_l4 v)) = true -> linux_ok (tcp_flags (v_l4 v)) = true ->
  reply E cfg clk tb f = Ok (tb', r, evs) ->
  tb' = tb.
Proof.
  intros Hf Hvt Hs Hl Hr.
  destruct (view_tcp_view _ _ _ Hvt) as [Hv Hp].
  pose proof (reply_tcp E cfg clk tb f v Hvt) as Hfac. rewrite Hr in Hfac. cbn [strip] in Hfac.
  pose proof (flag_row _ (tcp_flags_lt _ (view_l4_ok _ _ _ Hf Hv))) as Hrow. unfold flag_row_ok in Hrow.
  rewrite Hs, Hl in Hrow.
  destruct (tcp_class (tcp_flags (v_l4 v))) eqn:Hc; try discriminate.
  destruct (tcp_repl_synack E cfg clk tb f v Hc) as (ci' & evs' & seg & Ht & _).
  rewrite Ht in Hfac. injection Hfac as Htb _. exact Htb.
Qed.

(* the property's own flag rule agrees with the implementation's cascade *)
Theorem flag_table (fl : N) :
  fl < 512 -> has_syn fl = true ->
  (linux_ok fl = true <-> tcp_class fl = TSynAck).
Proof.
  intros H Hs. pose proof (flag_row fl H) as R. unfold flag_row_ok in R. rewrite Hs in R.
  destruct (linux_ok fl); destruct (tcp_class fl); split; intros; try discriminate; reflexivity.
Qed.

(* the cookie hashes an injective encoding of exactly (src, dst, sport, dport) *)
Lemma rev_inj (a b : bytes) : rev a = rev b -> a = b.
Proof. intros H. rewrite <- (rev_involutive a), <- (rev_involutive b), H. reflexivity. Qed.

Lemma app_inj_len (a a' b b' : bytes) :
  length a = length a' -> a ++ b = a' ++ b' -> a = a' /\ b = b'.
Proof.
  revert a'. induction a as [|x a IH]; intros [|y a'] Hl H; cbn in *; try discriminate.
  - split; [reflexivity|exact H].
  - inversion H; subst. destruct (IH a' ltac:(lia) H2) as [-> ->]. split; reflexivity.
Qed.

Theorem cookie_encoding_injective s d s' d' sp dp sp' dp' :
  length s = length s' -> length d = length d' ->
  sp < 65536 -> dp < 65536 -> sp' < 65536 -> dp' < 65536 ->
  cookie_msg s d sp dp = cookie_msg s' d' sp' dp' ->
  s = s' /\ d = d' /\ sp = sp' /\ dp = dp'.
Proof.
  intros Hs Hd H1 H2 H3 H4. unfold cookie_msg. intros H.
  apply app_inj_len in H; [|rewrite !rev_length; exact Hs]. destruct H as [Ha H].
  apply app_inj_len in H; [|rewrite !rev_length; exact Hd]. destruct H as [Hb H].
  apply rev_inj in Ha. apply rev_inj in Hb.
  unfold le16 in H. cbn in H. inversion H.
  repeat split; try assumption; lia.
Qed.
