(* Proofs/LaterExamples.v -- non-vacuity of the later-segment theorems (Proofs/Later.v) on the
   data of the current implementation ([the_env]): whole flows run through [reply] -- SYN, a
   first data segment that binds the flow, then later data segments.  Each later frame meets
   the hypotheses of the frame-level theorems (the flow's block is in the table with the
   expected [t_proto]); what comes back is computed and judged by the monitors of
   Spec/Later.v, which also refuse the wrong answers.  Closed computations (vm_compute). *)
From MS Require Import Stun Ssh Ghost Proto L2 Spec.C11uFrame Spec.View Spec.RefDec Spec.TcpRef Spec.RefStun
     Spec.AppView Spec.History Spec.EnvOk Spec.C15 Spec.C18 Spec.Later Instance
     Proofs.C15Examples Proofs.FrameBuild Proofs.Later.

Definition lx_tb (h : list (clock * bytes)) : table :=
  match run the_env fx_cfg [] h with Ok tb => tb | Panic _ => [] end.
Definition lx_reply (tb : table) (f : bytes) : option bytes :=
  match reply the_env fx_cfg fx_clk tb f with Ok (_, r, _) => r | Panic _ => None end.
(* source port, destination port, flags and payload of an emitted TCP segment *)
Definition lx_seg (r : option bytes) : option (N * N * N * bytes) :=
  match r with
  | Some rf => match dec_frame_tcp rf with
               | Some (_, _, t) => Some (dt_sport t, dt_dport t, dt_flags t, dt_payload t)
               | None => None
               end
  | None => None
  end.

Ltac later_frame_tac :=
  split; [vm_compute; reflexivity|];
  match goal with |- exists v, view_tcp ?cfg ?f = Some v /\ _ =>
    let o := eval vm_compute in (view_tcp cfg f) in
    match o with Some ?v => exists v end
  end; repeat (split; [vm_compute; reflexivity|]); vm_compute; reflexivity.

(* ================================================================== *)
(* STUN: TCP / IPv6, client port 65535, server port 3478                *)
(* ================================================================== *)
(* SYN; the 288-byte magic-cookie Binding Request of Proofs/C15Examples.v (identified over
   TCP: attribute area of 268 bytes, length high byte 1); then, as later segments:
     - a 20-byte Binding Request WITHOUT magic cookie (RFC 3489 form),
     - the 28-byte RFC 3489 request with CHANGE-REQUEST change-port,
     - a Binding Indication (type 0x0011),
     - a message of type 0x0201 (class request, method 0x081).
   None of the four is identified as STUN when it is the first segment of a flow. *)
Definition lx_stun_hist : list (clock * bytes) :=
  [(fx_clk, fx_syn false 65535 3478 99); (fx_clk, fx_data false 65535 3478 100 (ser_stun x_big))].
Definition lx_stun_tb : table := lx_tb lx_stun_hist.
Definition lx_stun_ck : N := fx_cookie false 65535 3478.
Definition lx_req20 : bytes := [0; 1; 0; 0] ++ x_tid16.
Definition lx_ind : bytes := [0; 17; 0; 0] ++ x_tid16.
Definition lx_0201 : bytes := [2; 1; 0; 0] ++ x_tid16.
Definition lx_stun_f (p : bytes) : bytes := fx_data false 65535 3478 388 p.
Definition lx_stun_later : list bytes := map lx_stun_f [lx_req20; ser_stun x_change; lx_ind; lx_0201].
Definition lx_stun_answer : bytes :=
  [1; 1; 0; 24] ++ x_tid16 ++ [0; 1; 0; 20; 0; 2; 255; 255; 32; 1; 13; 184; 0; 0; 0; 0; 0; 0; 0; 0; 0; 0; 0; 9].

(* the flow is bound: the hypotheses of [later_stun_frame] / [later_stun_flow] *)
Example ex_later_stun_hyps :
  cfg_ok fx_cfg = true /\
  tcp_first_id the_env (ser_stun x_big) = Some PROTO_STUN /\
  (256 <=? u16_at 2 (ser_stun x_big)) = true /\
  run the_env fx_cfg [] lx_stun_hist = Ok lx_stun_tb /\
  (exists tc, tbl_find lx_stun_ck lx_stun_tb = Some tc /\ t_proto tc = PROTO_STUN) /\
  Forall (later_frame fx_cfg lx_stun_ck) lx_stun_later /\
  map (tcp_first_id the_env) [lx_req20; ser_stun x_change; lx_ind; lx_0201] = [None; None; None; None].
Proof.
  do 4 (split; [vm_compute; reflexivity|]).
  split; [eexists; split; vm_compute; reflexivity|].
  split; [|vm_compute; reflexivity].
  repeat (apply Forall_cons; [later_frame_tac|]); apply Forall_nil.
Qed.

(* answer (from 3478) / answer (from 3479: change-port) / silence / silence; the table stays
   as it is *)
Example ex_later_stun_flow :
  dec_stun_req lx_req20 = Some (x_req x_tid16 []) /\
  dec_stun_req (ser_stun x_change) = Some x_change /\
  dec_stun_req lx_ind = Some x_indication /\
  dec_stun_req lx_0201 =
    Some {| sm_class := CLASS_REQUEST; sm_method := 129; sm_tid := x_tid16; sm_attrs := [] |} /\
  flow_run the_env fx_cfg lx_stun_tb (map (pair fx_clk) lx_stun_later) =
    Ok (lx_stun_tb, map (lx_reply lx_stun_tb) lx_stun_later) /\
  map (fun f => lx_seg (lx_reply lx_stun_tb f)) lx_stun_later =
    [Some (3478, 65535, ACK + PSH, lx_stun_answer); Some (3479, 65535, ACK + PSH, lx_stun_answer);
     Some (3478, 65535, ACK, []); Some (3478, 65535, ACK, [])] /\
  forallb (fun f => ok_C15_tcp_later fx_cfg f (lx_reply lx_stun_tb f)) lx_stun_later = true.
Proof. repeat (split; [vm_compute; reflexivity|]); vm_compute; reflexivity. Qed.

(* the monitor refuses: silence for a request; an answer to an indication or to another
   method; an answer from the contacted port when change-port was requested *)
Example ex_later_stun_monitor_refuses :
  ok_C15_tcp_later fx_cfg (lx_stun_f lx_req20) (lx_reply lx_stun_tb (lx_stun_f lx_ind)) = false /\
  ok_C15_tcp_later fx_cfg (lx_stun_f lx_ind) (lx_reply lx_stun_tb (lx_stun_f lx_req20)) = false /\
  ok_C15_tcp_later fx_cfg (lx_stun_f lx_0201) (lx_reply lx_stun_tb (lx_stun_f lx_req20)) = false /\
  ok_C15_tcp_later fx_cfg (lx_stun_f (ser_stun x_change)) (lx_reply lx_stun_tb (lx_stun_f lx_req20)) = false /\
  ok_C15_tcp_later fx_cfg (lx_stun_f lx_req20) None = false.
Proof. repeat (split; [vm_compute; reflexivity|]); vm_compute; reflexivity. Qed.

(* ================================================================== *)
(* SSH: TCP / IPv4, client port 40000, server port 22                   *)
(* ================================================================== *)
Definition lx_ssh_first : bytes := [83; 83; 72; 45; 50; 46; 48; 45; 120; 13; 10].              (* "SSH-2.0-x\r\n" *)
Definition lx_ssh_199 : bytes := [83; 83; 72; 45; 49; 46; 57; 57; 45; 121; 32; 122; 13; 10].   (* "SSH-1.99-y z\r\n" *)
Definition lx_ssh_noeol : bytes := [83; 83; 72; 45; 50; 46; 48; 45; 110; 111; 101; 111; 108].  (* "SSH-2.0-noeol" *)
Definition lx_ssh_badver : bytes := [83; 83; 72; 45; 50; 46; 48; 97; 45; 120; 13; 10].         (* "SSH-2.0a-x\r\n" *)
Definition lx_ssh_15 : bytes := [83; 83; 72; 45; 49; 46; 53; 45; 113; 13; 10].                 (* "SSH-1.5-q\r\n" *)
Definition lx_gh_on_ssh : bytes := [71; 104; 48; 115; 116; 0].                                 (* "Gh0st\0" *)

Definition lx_ssh_hist : list (clock * bytes) :=
  [(fx_clk, fx_syn true 40000 22 99); (fx_clk, fx_data true 40000 22 100 lx_ssh_first)].
Definition lx_ssh_tb : table := lx_tb lx_ssh_hist.
Definition lx_ssh_ck : N := fx_cookie true 40000 22.
Definition lx_ssh_f (p : bytes) : bytes := fx_data true 40000 22 111 p.
Definition lx_ssh_later : list bytes :=
  map lx_ssh_f [lx_ssh_199; lx_ssh_noeol; lx_ssh_badver; lx_ssh_15; lx_gh_on_ssh].

Example ex_later_ssh_hyps :
  env_ok the_env = true /\
  tcp_first_id the_env lx_ssh_first = Some PROTO_SSH /\
  run the_env fx_cfg [] lx_ssh_hist = Ok lx_ssh_tb /\
  (exists tc, tbl_find lx_ssh_ck lx_ssh_tb = Some tc /\ t_proto tc = PROTO_SSH) /\
  Forall (later_frame fx_cfg lx_ssh_ck) lx_ssh_later.
Proof.
  do 3 (split; [vm_compute; reflexivity|]).
  split; [eexists; split; vm_compute; reflexivity|].
  repeat (apply Forall_cons; [later_frame_tac|]); apply Forall_nil.
Qed.

(* "SSH-1.99-y z\r\n": answered; "SSH-2.0-noeol", "SSH-2.0a-x\r\n": not answered.
   Outside the property's scope (no judgement by the monitor): "SSH-1.5-q\r\n" IS answered
   (as a first segment it would not reach the SSH responder at all); a Gh0st payload on the
   SSH-bound flow is not answered. *)
Example ex_later_ssh_flow :
  map ssh_ref [lx_ssh_199; lx_ssh_noeol; lx_ssh_badver; lx_ssh_15; lx_gh_on_ssh] =
    [true; false; false; true; false] /\
  flow_run the_env fx_cfg lx_ssh_tb (map (pair fx_clk) lx_ssh_later) =
    Ok (lx_ssh_tb, map (lx_reply lx_ssh_tb) lx_ssh_later) /\
  map (fun f => lx_seg (lx_reply lx_ssh_tb f)) lx_ssh_later =
    [Some (22, 40000, ACK + PSH, S_SERVER_ID); Some (22, 40000, ACK, []); Some (22, 40000, ACK, []);
     Some (22, 40000, ACK + PSH, S_SERVER_ID); Some (22, 40000, ACK, [])] /\
  forallb (fun f => ok_C18_tcp_later_ssh fx_cfg f (lx_reply lx_ssh_tb f)) lx_ssh_later = true /\
  tcp_first_id the_env lx_ssh_15 = None.
Proof. repeat (split; [vm_compute; reflexivity|]); vm_compute; reflexivity. Qed.

Example ex_later_ssh_monitor_refuses :
  ok_C18_tcp_later_ssh fx_cfg (lx_ssh_f lx_ssh_199) (lx_reply lx_ssh_tb (lx_ssh_f lx_ssh_noeol)) = false /\
  ok_C18_tcp_later_ssh fx_cfg (lx_ssh_f lx_ssh_noeol) (lx_reply lx_ssh_tb (lx_ssh_f lx_ssh_199)) = false /\
  ok_C18_tcp_later_ssh fx_cfg (lx_ssh_f lx_ssh_badver) (lx_reply lx_ssh_tb (lx_ssh_f lx_ssh_199)) = false /\
  ok_C18_tcp_later_ssh fx_cfg (lx_ssh_f lx_ssh_199) None = false.
Proof. repeat (split; [vm_compute; reflexivity|]); vm_compute; reflexivity. Qed.

(* ================================================================== *)
(* Gh0st: TCP / IPv4, client port 40001, server port 80                 *)
(* ================================================================== *)
Definition lx_gh_first : bytes := [71; 104; 48; 115; 116; 0; 1; 2; 3; 4; 5; 6; 7].
Definition lx_gh_again : bytes := [71; 104; 48; 115; 116; 22; 0; 0; 0; 1; 0; 0; 0; 120].
Definition lx_hello : bytes := [104; 101; 108; 108; 111].                                      (* "hello" *)

Definition lx_gh_hist : list (clock * bytes) :=
  [(fx_clk, fx_syn true 40001 80 99); (fx_clk, fx_data true 40001 80 100 lx_gh_first)].
Definition lx_gh_tb : table := lx_tb lx_gh_hist.
Definition lx_gh_ck : N := fx_cookie true 40001 80.
Definition lx_gh_f (p : bytes) : bytes := fx_data true 40001 80 113 p.
Definition lx_gh_later : list bytes := map lx_gh_f [lx_gh_again; lx_hello; [7]; []].

Example ex_later_ghost_hyps :
  tcp_first_id the_env lx_gh_first = Some PROTO_GHOST /\
  run the_env fx_cfg [] lx_gh_hist = Ok lx_gh_tb /\
  (exists tc, tbl_find lx_gh_ck lx_gh_tb = Some tc /\ t_proto tc = PROTO_GHOST) /\
  Forall (later_frame fx_cfg lx_gh_ck) lx_gh_later.
Proof.
  do 2 (split; [vm_compute; reflexivity|]).
  split; [eexists; split; vm_compute; reflexivity|].
  repeat (apply Forall_cons; [later_frame_tac|]); apply Forall_nil.
Qed.

(* every later segment is answered with the frame: the one that starts with the magic (the
   property's subject), and also "hello", a single byte, and a PSH|ACK segment without any
   payload (the handler does not look at the segment) *)
Example ex_later_ghost_flow :
  ghost_wf (e_ghost the_env) = true /\
  flow_run the_env fx_cfg lx_gh_tb (map (pair fx_clk) lx_gh_later) =
    Ok (lx_gh_tb, map (lx_reply lx_gh_tb) lx_gh_later) /\
  map (fun f => lx_seg (lx_reply lx_gh_tb f)) lx_gh_later =
    repeat (Some (80, 40001, ACK + PSH, e_ghost the_env)) 4 /\
  forallb (fun f => ok_C18_tcp_later_ghost fx_cfg f (lx_reply lx_gh_tb f)) lx_gh_later = true.
Proof. repeat (split; [vm_compute; reflexivity|]); vm_compute; reflexivity. Qed.

Example ex_later_ghost_monitor_refuses :
  ok_C18_tcp_later_ghost fx_cfg (lx_gh_f lx_gh_again) (lx_reply lx_ssh_tb (lx_ssh_f lx_ssh_noeol)) = false /\
  ok_C18_tcp_later_ghost fx_cfg (lx_gh_f lx_gh_again) (lx_reply lx_ssh_tb (lx_ssh_f lx_ssh_199)) = false /\
  ok_C18_tcp_later_ghost fx_cfg (lx_gh_f lx_gh_again) None = false.
Proof. repeat (split; [vm_compute; reflexivity|]); vm_compute; reflexivity. Qed.

(* ---- with the data of the current implementation no hypothesis about constants is left ---- *)
Lemma the_env_ok_later : env_ok the_env = true.
Proof. vm_compute. reflexivity. Qed.
