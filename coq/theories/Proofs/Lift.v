(* Lift.v -- from frames to the application layer and back: a UDP datagram in
   scope is answered with exactly what proto_repl_udp returns for its payload
   (as the UDP payload of the emitted frame), or not at all. *)
From MS Require Import Proofs.Tactics Proofs.DecLemmas Proofs.Pipeline Proofs.ViewLemmas Proofs.Factor
     Proofs.DecLemmas2 L2 Spec.View Spec.RefDec Spec.AppView Spec.C19.

Definition udp_ci (f : bytes) (v : l4view) : cinfo :=
  ci_set_ports (l3_ci f v) (u16_at 0 (v_l4 v)) (u16_at 2 (v_l4 v)).

Lemma udp_ci_full f v : ci_full (udp_ci f v) = true.
Proof. unfold udp_ci, l3_ci, ci_full. destruct (v_v4 v); reflexivity. Qed.

Lemma view_udp_view cfg f v :
  view_udp cfg f = Some v -> view cfg f = Some v /\ v_proto v = 17 /\ (8 <= length (v_l4 v))%nat.
Proof.
  unfold view_udp. destruct (view cfg f) as [v'|]; [|discriminate].
  destruct ((v_proto v' =? 17) && _) eqn:H; [|discriminate].
  intros X; inversion X; subst. apply andb_true_iff in H. destruct H as [H1 H2].
  repeat split; lia.
Qed.

Lemma dec_frame_udp_of fr e i u :
  dec_eth fr = Some e -> dec_ip e = Some i -> di_proto i = 17 -> dec_udp (di_payload i) = Some u ->
  dec_frame_udp fr = Some (e, i, u).
Proof.
  intros He Hi Hp Hu. unfold dec_frame_udp, dec_frame_ip. rewrite He, Hi, Hp, Hu. reflexivity.
Qed.

Theorem udp_lift E cfg clk tb f tb' r evs v :
  cfg_ok cfg = true -> bytes_ok f = true ->
  view_udp cfg f = Some v ->
  reply E cfg clk tb f = Ok (tb', r, evs) ->
  tb' = tb /\
  exists ci' out,
    proto_repl_udp E clk (udp_ci f v) (skipn 8 (v_l4 v)) = Ok (ci', out) /\
    udp_resp r = Some out /\
    (forall d, out = Some d ->
       exists rf e i u, r = Some rf /\ dec_frame_udp rf = Some (e, i, u) /\ du_payload u = d /\
                        Some (du_sport u) = option_map (fun x => x mod 65536) (ci_port_dst ci') /\
                        Some (du_dport u) = option_map (fun x => x mod 65536) (ci_port_src ci')).
Proof.
  intros Hcfg Hf Hvu Hr.
  destruct (view_udp_view _ _ _ Hvu) as (Hv & Hp & Hl).
  apply reply_factor_ok in Hr. unfold reply_spec in Hr.
  destruct (view_inv _ _ _ Hv) as (Hlen & Hauth & Hcase).
  rewrite Hlen, Hauth in Hr. cbn [negb] in Hr.
  assert ((u16_at 12 f =? 2054) = false) as Ha.
  { rewrite (view_ety _ _ _ Hv). destruct (v_v4 v); reflexivity. }
  rewrite Ha, Hv in Hr. unfold l3_reply in Hr. rewrite Hp in Hr.
  assert ((length (v_l4 v) <? 8)%nat = false) as Hl8 by lia.
  change (17 =? 1) with false in Hr. change (17 =? 6) with false in Hr.
  change (17 =? 58) with false in Hr. change (17 =? 17) with true in Hr.
  rewrite Hl8 in Hr.
  assert (forall ci1 d,
    (exists sp dp, ci_port_dst ci1 = Some sp /\ ci_port_src ci1 = Some dp /\
       r = Some (wrap_ip cfg f v (v_dst v) 64 (seal_udp v (be16 sp ++ be16 dp ++ be16 (8 + lenN d) ++ [0; 0] ++ d)))) ->
    exists rf e i u, r = Some rf /\ dec_frame_udp rf = Some (e, i, u) /\ du_payload u = d /\
                     Some (du_sport u) = option_map (fun x => x mod 65536) (ci_port_dst ci1) /\
                     Some (du_dport u) = option_map (fun x => x mod 65536) (ci_port_src ci1)) as Hdec.
  { intros ci1 d (sp & dp & Hsp & Hdp & ->).
    destruct (dec_wrap_udp cfg f v 64 sp dp (8 + lenN d) d Hcfg Hv Hp ltac:(lia))
      as (e & i & He & Hi & _ & _ & _ & _ & _ & _ & Hpr & ck & Hu).
    eexists _, e, i, _. split; [reflexivity|]. split; [eapply dec_frame_udp_of; eassumption|].
    rewrite Hsp, Hdp. cbn. repeat split; reflexivity. }
  unfold udp_repl in Hr. fold (udp_ci f v) in Hr.
  destruct (proto_repl_udp E clk (udp_ci f v) (skipn 8 (v_l4 v))) as [[ci1 [d|]]|s] eqn:Hpr; cbn [bind] in Hr.
  - revert Hr.
    destruct (ci_port_dst ci1) as [sp|] eqn:Hsp; [|intros X; destruct (v_v4 v); discriminate].
    destruct (ci_port_src ci1) as [dp|] eqn:Hdp; [|intros X; destruct (v_v4 v); discriminate].
    intros Hr.
    assert (tb' = tb /\ r = Some (wrap_ip cfg f v (v_dst v) 64
              (seal_udp v (be16 sp ++ be16 dp ++ be16 (8 + lenN d) ++ [0; 0] ++ d)))) as [-> Hrr].
    { destruct (v_v4 v).
      - destruct (65535 <? _); [discriminate|]. apply ok_pair_inj in Hr. destruct Hr as [<- <-]. split; reflexivity.
      - apply ok_pair_inj in Hr. destruct Hr as [<- <-]. split; reflexivity. }
    split; [reflexivity|]. exists ci1, (Some d). split; [reflexivity|].
    destruct (Hdec ci1 d) as (rf & e & i & u & Hrf & Hdf & Hpl & Hp1 & Hp2); [eauto 6|].
    split.
    + rewrite Hrf. unfold udp_resp. rewrite Hdf, Hpl. reflexivity.
    + intros d' Hd'. inversion Hd'; subst d'. exists rf, e, i, u. repeat split; assumption.
  - assert (tb' = tb /\ r = None) as [-> ->].
    { destruct (v_v4 v); apply ok_pair_inj in Hr; destruct Hr as [<- <-]; split; reflexivity. }
    split; [reflexivity|]. exists ci1, None. repeat split; try reflexivity. intros d Hd; discriminate.
  - destruct (v_v4 v); discriminate.
Qed.
