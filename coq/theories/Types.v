(* Types.v -- configuration, client information, events, connection table. *)
From MS Require Export Bytes Res.

(* IP addresses: 4 or 16 octets *)
Inductive ipaddr := V4 (o : bytes) | V6 (o : bytes).

Definition ip_octets (a : ipaddr) : bytes :=
  match a with V4 o => o | V6 o => o end.
Definition ip_is_v4 (a : ipaddr) : bool :=
  match a with V4 _ => true | V6 _ => false end.
Definition ip_eqb (a b : ipaddr) : bool :=
  match a, b with
  | V4 x, V4 y => bytes_eqb x y
  | V6 x, V6 y => bytes_eqb x y
  | _, _ => false
  end.
Definition ip_in (a : ipaddr) (l : list ipaddr) : bool := existsb (ip_eqb a) l.

(* log verbosity as in stderrlog: 0 error, 1 warn, 2 info, 3 debug, 4 trace, 5 off *)
Record config := {
  c_mac : bytes;
  c_self : option (list ipaddr);
  c_deny : option (list ipaddr);
  c_key0 : N;
  c_key1 : N;
  c_level : N;
  c_ovf : bool   (* overflow checks (dev profile) *)
}.

Definition lvl_warn (c : config) : bool := (1 <=? c_level c) && (c_level c <=? 4).
Definition lvl_info (c : config) : bool := (2 <=? c_level c) && (c_level c <=? 4).
Definition lvl_debug (c : config) : bool := (3 <=? c_level c) && (c_level c <=? 4).

Record cinfo := {
  ci_mac_src : option bytes;
  ci_mac_dst : option bytes;
  ci_ip_src : option ipaddr;
  ci_ip_dst : option ipaddr;
  ci_transport : option N;
  ci_port_src : option N;
  ci_port_dst : option N;
  ci_cookie : option N
}.

Definition ci_empty : cinfo :=
  {| ci_mac_src := None; ci_mac_dst := None; ci_ip_src := None; ci_ip_dst := None;
     ci_transport := None; ci_port_src := None; ci_port_dst := None; ci_cookie := None |}.

Definition ci_set_mac (c : cinfo) (s d : bytes) : cinfo :=
  {| ci_mac_src := Some s; ci_mac_dst := Some d; ci_ip_src := ci_ip_src c; ci_ip_dst := ci_ip_dst c;
     ci_transport := ci_transport c; ci_port_src := ci_port_src c; ci_port_dst := ci_port_dst c;
     ci_cookie := ci_cookie c |}.
Definition ci_set_ip (c : cinfo) (s d : ipaddr) : cinfo :=
  {| ci_mac_src := ci_mac_src c; ci_mac_dst := ci_mac_dst c; ci_ip_src := Some s; ci_ip_dst := Some d;
     ci_transport := ci_transport c; ci_port_src := ci_port_src c; ci_port_dst := ci_port_dst c;
     ci_cookie := ci_cookie c |}.
Definition ci_set_transport (c : cinfo) (t : N) : cinfo :=
  {| ci_mac_src := ci_mac_src c; ci_mac_dst := ci_mac_dst c; ci_ip_src := ci_ip_src c; ci_ip_dst := ci_ip_dst c;
     ci_transport := Some t; ci_port_src := ci_port_src c; ci_port_dst := ci_port_dst c;
     ci_cookie := ci_cookie c |}.
Definition ci_set_ports (c : cinfo) (s d : N) : cinfo :=
  {| ci_mac_src := ci_mac_src c; ci_mac_dst := ci_mac_dst c; ci_ip_src := ci_ip_src c; ci_ip_dst := ci_ip_dst c;
     ci_transport := ci_transport c; ci_port_src := Some s; ci_port_dst := Some d;
     ci_cookie := ci_cookie c |}.
Definition ci_set_port_dst (c : cinfo) (d : N) : cinfo :=
  {| ci_mac_src := ci_mac_src c; ci_mac_dst := ci_mac_dst c; ci_ip_src := ci_ip_src c; ci_ip_dst := ci_ip_dst c;
     ci_transport := ci_transport c; ci_port_src := ci_port_src c; ci_port_dst := Some d;
     ci_cookie := ci_cookie c |}.
Definition ci_set_cookie (c : cinfo) (k : N) : cinfo :=
  {| ci_mac_src := ci_mac_src c; ci_mac_dst := ci_mac_dst c; ci_ip_src := ci_ip_src c; ci_ip_dst := ci_ip_dst c;
     ci_transport := ci_transport c; ci_port_src := ci_port_src c; ci_port_dst := ci_port_dst c;
     ci_cookie := Some k |}.

(* ---- events (what the loggers are told) ---- *)
Inductive layer := LArp | LEth | LIpv4 | LIpv6 | LIcmpv4 | LIcmpv6 | LTcp | LUdp.
Inductive verb := Recv | Send | Drop.

(* [ev_ci]: the client information printed with the event (for ARP events the
   four address columns of the ARP logger are stored in the mac/ip slots);
   [ev_extra]: the trailing numeric columns (EtherType / next protocol /
   type, code / flags, seq, ack / ARP operation). *)
Record event := {
  ev_layer : layer;
  ev_verb : verb;
  ev_ci : cinfo;
  ev_extra : list N
}.
Definition mk_ev (l : layer) (v : verb) (c : cinfo) (x : list N) : event :=
  {| ev_layer := l; ev_verb := v; ev_ci := c; ev_extra := x |}.

Definition layer_eqb (a b : layer) : bool :=
  match a, b with
  | LArp, LArp | LEth, LEth | LIpv4, LIpv4 | LIpv6, LIpv6
  | LIcmpv4, LIcmpv4 | LIcmpv6, LIcmpv6 | LTcp, LTcp | LUdp, LUdp => true
  | _, _ => false
  end.
Definition verb_eqb (a b : verb) : bool :=
  match a, b with
  | Recv, Recv | Send, Send | Drop, Drop => true
  | _, _ => false
  end.
