(* Spec/C11.v -- stream parsing is independent of TCP segmentation (HTTP, ONC-RPC over TCP). *)
From MS Require Export Bytes Types Proto Spec.AppView Spec.PendingBound.

(* the application layer fed with the data segments of one validated flow, in
   order, starting from a fresh control block; returns the application payload
   sent back for each segment ([None] = bare ACK) *)
Fixpoint tcp_stream (E : env) (clk : clock) (ci : cinfo) (tc : tcb) (segs : list bytes)
  : res (list (option bytes)) :=
  match segs with
  | [] => Ok []
  | s :: rest =>
    do r <- proto_repl_tcp E clk ci tc s;
    let '(_, tc', out) := r in
    do outs <- tcp_stream E clk ci tc' rest;
    Ok (out :: outs)
  end.

(* ---- reference reading, a function of the byte stream only ---- *)
(* HTTP: the parser state after a stream prefix *)
Definition http_state_of (E : env) (s : bytes) : res N :=
  do h <- http_parse (e_http_tbl E) http_new s; Ok (h_state h).

(* the reply expected for the k-th segment: a function of the stream up to the
   end of that segment *)
Definition http_expected (E : env) (clk : clock) (upto : bytes) : res (option bytes) :=
  do st <- http_state_of E upto;
  Ok (if st =? HTTP_CONTENT then Some (http_response (e_http_pre E) (e_http_post E) (clk_date clk)) else None).

Definition rpc_expected (ip : ipaddr) (port : N) (upto : bytes) : option bytes :=
  snd (rpc_repl_tcp (rpc_new R_FRAG) ip port upto).

(* prefixes of the stream at the segment boundaries *)
Fixpoint boundaries (acc : bytes) (segs : list bytes) : list bytes :=
  match segs with
  | [] => []
  | s :: rest => (acc ++ s) :: boundaries (acc ++ s) rest
  end.

Fixpoint map_res {A B} (f : A -> res B) (l : list A) : res (list B) :=
  match l with
  | [] => Ok []
  | x :: t => do y <- f x; do ys <- map_res f t; Ok (y :: ys)
  end.

(* ---- the per-table obligation of the stream statements (decided by computation on the
   dumped matcher, Spec/PendingBound.v): the table is structurally sane, and a stream whose
   first SIG_SPAN bytes complete no signature never completes one.  SIG_SPAN <= PENDING_MAX,
   so the bytes of a flow are all in the prefix buffer when a signature is completed. ---- *)
Definition SIG_SPAN : nat := 28.
Definition proto_tbl_ok (E : env) : bool :=
  let t := e_proto_tbl E in
  smack_ok t && (sm_rows t <=? TWO24) && (0 <? sm_rows t) && (0 <? sm_match_limit t) &&
  ident_bound_ok t SIG_SPAN.

(* the replies of a flow before / from the segment in which its protocol is identified *)
Definition quiet (n : nat) : list (option bytes) := repeat None n.
