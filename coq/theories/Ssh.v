(* Ssh.v -- src/proto/ssh.rs: client identification string parser. The parser
   state is local to one call, so only the control state is modelled (the
   collected version / software / comment strings are only logged). *)
From MS Require Export Bytes Res.

Definition SSH_START : N := 0.
Definition SSH_S1 : N := 1.
Definition SSH_DASH : N := 4.
Definition SSH_VERSION : N := 5.
Definition SSH_SOFTWARE : N := 6.
Definition SSH_COMMENT : N := 7.
Definition SSH_EOB : N := 8.
Definition SSH_LF : N := 9.
Definition SSH_FAIL : N := 65535.

Definition SSH_MAGIC : bytes := [83; 83; 72; 45].  (* "SSH-" *)


(* one step: returns (state, prev_state, consumed?) -- consumed = false models
   `i -= 1` (the byte is examined again in the restored state) *)
Definition ssh_byte (st prev : N) (b : N) : N * N * bool :=
  if (SSH_S1 <=? st) && (st <=? SSH_DASH) then
    if b =? nth (N.to_nat (st - SSH_S1)) SSH_MAGIC 0 then (st + 1, prev, true)
    else (SSH_FAIL, prev, true)
  else if st =? SSH_LF then
    if b =? 10 then (SSH_EOB, prev, true)
    else if (prev =? SSH_SOFTWARE) || (prev =? SSH_COMMENT) then (prev, prev, false)
    else (SSH_FAIL, prev, true)
  else if st =? SSH_VERSION then
    if b =? 45 then (SSH_SOFTWARE, prev, true)
    else if negb (is_digit b) && negb (b =? 46) then (SSH_FAIL, prev, true)
    else (st, prev, true)
  else if st =? SSH_SOFTWARE then
    if b =? 13 then (SSH_LF, st, true)
    else if b =? 32 then (SSH_COMMENT, prev, true)
    else (st, prev, true)
  else if st =? SSH_COMMENT then
    if b =? 13 then (SSH_LF, st, true)
    else (st, prev, true)
  else (st, prev, true).

Fixpoint ssh_loop (fuel : nat) (st prev : N) (data : bytes) : N :=
  match fuel with
  | O => st
  | S fuel' =>
    match data with
    | [] => st
    | b :: rest =>
      if st =? SSH_START then ssh_loop fuel' SSH_S1 prev data
      else if st =? SSH_FAIL then st
      else
        let '(st', prev', consumed) := ssh_byte st prev b in
        ssh_loop fuel' st' prev' (if consumed then rest else data)
    end
  end.

Definition ssh_parse (data : bytes) : N :=
  ssh_loop (S (length data + length data)) SSH_START SSH_START data.

Definition ssh_repl (banner : bytes) (data : bytes) : option bytes :=
  if ssh_parse data =? SSH_EOB then Some banner else None.
