(* C17Smb1.v -- C17 for SMB1: the byte-at-a-time dissector of Smb.v folded over an encoded
   request reaches End with the request's fields (header, negotiate, session setup), the
   reply read back by the reference readers of Spec/RefSmb.v is the expected response,
   response-flagged messages and other commands are not answered. *)
From MS Require Import Proofs.Tactics Smb Proofs.SmbSafe Proofs.SmbLen Proofs.SmbBytes Spec.RefSmb Spec.C17
  Proofs.C17Lib Proofs.C17Fields.
Open Scope N_scope.

(* ---------- header ---------- *)
Definition hdr1_end (h : smb1_hdr) : hdr1 :=
  {| h1_d := {| d_i := 0; d_st := 12 |}; h1_command := sh1_command h; h1_status := sh1_status h;
     h1_flags := sh1_flags h; h1_flags2 := sh1_flags2 h; h1_pid_high := sh1_pid_high h;
     h1_tid := sh1_tid h; h1_pid_low := sh1_pid_low h; h1_uid := sh1_uid h; h1_mid := sh1_mid h;
     h1_pay := None |}.

Ltac split_wf H :=
  repeat match type of H with
  | (_ && _) = true => let H1 := fresh "W" in apply andb_true_iff in H; destruct H as [H H1]
  end.
Ltac wf_lt :=
  repeat match goal with
  | H : (_ <? _) = true |- _ => apply N.ltb_lt in H
  | H : (_ <=? _) = true |- _ => apply N.leb_le in H
  | H : (_ =? _)%nat = true |- _ => apply Nat.eqb_eq in H
  end.

Lemma hdr1_parse h rest : smb1_hdr_wf h = true ->
  fold_res hdr1_byte (ser_smb1_hdr h ++ rest) hdr1_new = fold_res hdr1_byte rest (hdr1_end h).
Proof.
  intros Hwf. unfold smb1_hdr_wf in Hwf. split_wf Hwf. wf_lt.
  unfold ser_smb1_hdr. rewrite <- !app_assoc.
  rewrite hdr1_skip_0 by reflexivity.
  cbn [app].
  rewrite hdr1_b_command by reflexivity.
  rewrite hdr1_f_status by (first [assumption | reflexivity]).
  rewrite hdr1_b_flags by reflexivity.
  rewrite hdr1_f_flags2 by (first [assumption | reflexivity]).
  rewrite hdr1_f_pid_high by (first [assumption | reflexivity]).
  rewrite hdr1_skip_6 by (first [assumption | reflexivity]).
  rewrite (hdr1_skip_7 (le16 (sh1_reserved h))) by reflexivity.
  rewrite hdr1_f_tid by (first [assumption | reflexivity]).
  rewrite hdr1_f_pid_low by (first [assumption | reflexivity]).
  rewrite hdr1_f_uid by (first [assumption | reflexivity]).
  rewrite hdr1_f_mid by (first [assumption | reflexivity]).
  reflexivity.
Qed.

(* ---------- negotiate request ---------- *)
Definition n1_state (st k : N) (tmp : option bytes) (bc : N) (acc : list bytes) : neg1 :=
  {| n1_d := {| d_i := k; d_st := st |}; n1_tmp := tmp; n1_wc := 0; n1_bc := bc; n1_dialects := acc |}.

Lemma neg1_step_char c k cur bc acc : (c =? 0) = false ->
  neg1_byte (n1_state 2 k (Some cur) bc acc) c = Ok (n1_state 2 (k + 1) (Some (c :: cur)) bc acc).
Proof.
  intros H. unfold neg1_byte, n1_state. cbn [n1_d d_st n1_tmp].
  change (2 =? N1_WORDCOUNT) with false. change (2 =? N1_BYTECOUNT) with false.
  change (2 =? N1_DIALECTS) with true. cbv iota. rewrite H. reflexivity.
Qed.
Lemma neg1_step_fmt f k bc acc :
  neg1_byte (n1_state 2 k None bc acc) f = Ok (n1_state 2 (k + 1) (Some []) bc acc).
Proof. reflexivity. Qed.
Lemma neg1_step_nul k cur bc acc :
  neg1_byte (n1_state 2 k (Some cur) bc acc) 0
  = Ok (if k + 1 =? bc then n1_state 3 0 None bc (acc ++ [rev cur])
        else n1_state 2 (k + 1) None bc (acc ++ [rev cur])).
Proof.
  unfold neg1_byte, n1_state. cbn [n1_d d_st n1_tmp].
  change (2 =? N1_WORDCOUNT) with false. change (2 =? N1_BYTECOUNT) with false.
  change (2 =? N1_DIALECTS) with true. cbv iota. change (0 =? 0) with true. cbv iota.
  unfold set_n1_d, set_n1_tmp, set_n1_dialects, d_inc, d_when, d_next, N1_END.
  cbn [n1_d n1_tmp n1_wc n1_bc n1_dialects d_i d_st].
  destruct (k + 1 =? bc); reflexivity.
Qed.

Lemma neg1_chars : forall str rest k cur bc acc, no_nul str = true ->
  fold_res neg1_byte (str ++ rest) (n1_state 2 k (Some cur) bc acc)
  = fold_res neg1_byte rest (n1_state 2 (k + lenN str) (Some (rev str ++ cur)) bc acc).
Proof.
  induction str as [|c str IH]; intros rest k cur bc acc Hn.
  - cbn [app rev]. unfold lenN. cbn [length]. replace (k + N.of_nat 0) with k by lia. reflexivity.
  - cbn [no_nul forallb] in Hn. apply andb_true_iff in Hn. destruct Hn as [Hc Hn].
    apply negb_true_iff in Hc.
    cbn [app]. rewrite fold_res_cons, neg1_step_char by exact Hc. cbn [bind].
    rewrite IH by exact Hn. f_equal. unfold n1_state. f_equal.
    + f_equal. unfold lenN. cbn [length]. lia.
    + cbn [rev]. rewrite <- app_assoc. reflexivity.
Qed.

Lemma neg1_dialect str rest k bc acc : no_nul str = true ->
  fold_res neg1_byte (ser_dialect str ++ rest) (n1_state 2 k None bc acc)
  = fold_res neg1_byte rest
      (if k + lenN str + 2 =? bc then n1_state 3 0 None bc (acc ++ [str])
       else n1_state 2 (k + lenN str + 2) None bc (acc ++ [str])).
Proof.
  intros Hn. unfold ser_dialect. cbn [app]. rewrite fold_res_cons, neg1_step_fmt. cbn [bind].
  rewrite <- app_assoc. rewrite neg1_chars by exact Hn.
  cbn [app]. rewrite fold_res_cons, neg1_step_nul. cbn [bind].
  rewrite app_nil_r, rev_involutive.
  replace (k + 1 + lenN str + 1) with (k + lenN str + 2) by lia.
  reflexivity.
Qed.

Lemma lenN_ser_dialects_cons d ds : lenN (ser_dialects (d :: ds)) = lenN d + 2 + lenN (ser_dialects ds).
Proof.
  unfold ser_dialects. cbn [map concat]. rewrite lenN_app. unfold ser_dialect.
  rewrite !lenN_app. unfold lenN. cbn [length]. lia.
Qed.

Lemma neg1_end_stuck data bc acc :
  fold_res neg1_byte data (n1_state 3 0 None bc acc) = Ok (n1_state 3 0 None bc acc).
Proof.
  apply (fold_res_stuck neg1_byte (fun s => d_st (n1_d s) = 3)); [|reflexivity].
  intros s b H. unfold neg1_byte. cbv zeta. rewrite H. reflexivity.
Qed.

Lemma neg1_loop : forall ds d tail k bc acc,
  forallb (fun d => no_nul d && bytes_ok d) (d :: ds) = true ->
  k + lenN (ser_dialects (d :: ds)) = bc ->
  fold_res neg1_byte (ser_dialects (d :: ds) ++ tail) (n1_state 2 k None bc acc)
  = Ok (n1_state 3 0 None bc (acc ++ d :: ds)).
Proof.
  induction ds as [|d' ds IH]; intros d tail k bc acc Hwf Hlen.
  - rewrite lenN_ser_dialects_cons in Hlen. change (lenN (ser_dialects [])) with 0 in Hlen.
    cbn [forallb] in Hwf. rewrite andb_true_r in Hwf. apply andb_true_iff in Hwf. destruct Hwf as [Hn _].
    unfold ser_dialects. cbn [map concat]. rewrite app_nil_r.
    rewrite (neg1_dialect d tail k bc acc Hn).
    replace (k + lenN d + 2 =? bc) with true by (symmetry; apply N.eqb_eq; lia).
    apply neg1_end_stuck.
  - rewrite lenN_ser_dialects_cons in Hlen.
    pose proof (lenN_ser_dialects_cons d' ds) as Hl2.
    cbn [forallb] in Hwf. apply andb_true_iff in Hwf. destruct Hwf as [Hd Hwf].
    apply andb_true_iff in Hd. destruct Hd as [Hn _].
    change (ser_dialects (d :: d' :: ds)) with (ser_dialect d ++ ser_dialects (d' :: ds)).
    rewrite <- app_assoc.
    rewrite (neg1_dialect d (ser_dialects (d' :: ds) ++ tail) k bc acc Hn).
    replace (k + lenN d + 2 =? bc) with false by (symmetry; apply N.eqb_neq; lia).
    rewrite (IH d' tail (k + lenN d + 2) bc (acc ++ [d])); [| exact Hwf | lia].
    rewrite <- app_assoc. reflexivity.
Qed.

Lemma neg1_parse ds d tail :
  neg1_req_wf (d :: ds) = true ->
  fold_res neg1_byte (ser_neg1_req (d :: ds) ++ tail) neg1_new
  = Ok (n1_state 3 0 None (lenN (ser_dialects (d :: ds))) (d :: ds)).
Proof.
  intros Hwf. unfold neg1_req_wf in Hwf. apply andb_true_iff in Hwf. destruct Hwf as [Hwf Hlen].
  apply N.ltb_lt in Hlen.
  unfold ser_neg1_req. rewrite <- !app_assoc. cbn [app].
  rewrite neg1_b_wc by reflexivity.
  rewrite neg1_f_bc by (first [assumption | reflexivity]).
  unfold neg1_new, set_n1_d, set_n1_bc, set_n1_wc, d_next, d_new. cbn [n1_d n1_tmp n1_wc n1_bc n1_dialects].
  apply (neg1_loop ds d tail 0 _ []); [exact Hwf | lia].
Qed.

(* ---------- from the header to the payload parser ---------- *)
Lemma hdr1_end_step_pay s p b : d_st (h1_d s) = 12 -> h1_pay s = Some p ->
  hdr1_byte s b = do p' <- pay1_byte p b; Ok (set_h1_pay s (Some p')).
Proof.
  intros Hs Hp. unfold hdr1_byte. cbv zeta. rewrite Hs. unfold hdr1_payload_byte. rewrite Hp. reflexivity.
Qed.

Lemma hdr1_end_step_none s b : d_st (h1_d s) = 12 -> h1_pay s = None ->
  hdr1_byte s b =
  if N.land (h1_flags s) 128 =? 128 then Ok s
  else if h1_command s =? 114 then do p' <- pay1_byte (P1Neg neg1_new) b; Ok (set_h1_pay s (Some p'))
  else if h1_command s =? 115 then do p' <- pay1_byte (P1Setup setup1_new) b; Ok (set_h1_pay s (Some p'))
  else Ok s.
Proof.
  intros Hs Hp. unfold hdr1_byte. cbv zeta. rewrite Hs. unfold hdr1_payload_byte. rewrite Hp. reflexivity.
Qed.

Lemma hdr1_fold_pay data s p : d_st (h1_d s) = 12 -> h1_pay s = Some p ->
  fold_res hdr1_byte data s
  = do p' <- fold_res pay1_byte data p; Ok (match data with [] => s | _ => set_h1_pay s (Some p') end).
Proof.
  intros Hs Hp.
  apply (fold_res_delegate hdr1_byte pay1_byte h1_pay (fun s p => set_h1_pay s (Some p))
           (fun s => d_st (h1_d s) = 12)).
  - intros s0 p0 b Hs0 Hp0. apply hdr1_end_step_pay; assumption.
  - intros s0 p0 H. exact H.
  - reflexivity.
  - reflexivity.
  - exact Hs.
  - exact Hp.
Qed.

Lemma pay1_fold_neg data n :
  fold_res pay1_byte data (P1Neg n) = do n' <- fold_res neg1_byte data n; Ok (P1Neg n').
Proof.
  revert n. induction data as [|b t IH]; intros n; [reflexivity|].
  rewrite !fold_res_cons. cbn [pay1_byte].
  destruct (neg1_byte n b) as [n1|site]; cbn [bind]; [apply IH | reflexivity].
Qed.
Lemma pay1_fold_setup data n :
  fold_res pay1_byte data (P1Setup n) = do n' <- fold_res setup1_byte data n; Ok (P1Setup n').
Proof.
  revert n. induction data as [|b t IH]; intros n; [reflexivity|].
  rewrite !fold_res_cons. cbn [pay1_byte].
  destruct (setup1_byte n b) as [n1|site]; cbn [bind]; [apply IH | reflexivity].
Qed.

(* the state in which the header leaves the message to a payload parser *)
Definition hdr1_with (h : smb1_hdr) (p : pay1) : hdr1 := set_h1_pay (hdr1_end h) (Some p).

Lemma hdr1_fold_first h first x body :
  hdr1_byte (hdr1_end h) x = (do p' <- pay1_byte first x; Ok (set_h1_pay (hdr1_end h) (Some p'))) ->
  fold_res hdr1_byte (x :: body) (hdr1_end h)
  = do p <- fold_res pay1_byte (x :: body) first; Ok (hdr1_with h p).
Proof.
  intros Hstep. rewrite !fold_res_cons, Hstep.
  destruct (pay1_byte first x) as [p1|site]; cbn [bind]; [|reflexivity].
  rewrite (hdr1_fold_pay body _ p1) by reflexivity.
  destruct body as [|b1 body]; [reflexivity|].
  destruct (fold_res pay1_byte (b1 :: body) p1) as [p2|site]; cbn [bind]; reflexivity.
Qed.

Section Run1.
Variables (neg chal : bytes) (ft : N).

Definition smb1_out (h : smb1_hdr) (p : pay1) : res (option bytes) :=
  nbt_wrap (hdr1_repl neg chal ft (hdr1_with h p)).

Lemma ser_smb1_hdr_nonempty h rest : ser_smb1_hdr h ++ rest <> [].
Proof. unfold ser_smb1_hdr, SMB1_PROTOCOL. cbn [app]. discriminate. Qed.

Lemma smb1_run_negotiate h x body t f a b :
  smb1_hdr_wf h = true -> smb1_is_request h = true -> sh1_command h = SMB_COM_NEGOTIATE ->
  smb1_repl neg chal ft ([t; f; a; b] ++ ser_smb1_hdr h ++ x :: body)
  = do n <- fold_res neg1_byte (x :: body) neg1_new; smb1_out h (P1Neg n).
Proof.
  intros Hwf Hreq Hcmd. unfold smb1_repl.
  rewrite nbt_run_payload' by apply ser_smb1_hdr_nonempty.
  rewrite hdr1_parse by exact Hwf.
  rewrite (hdr1_fold_first h (P1Neg neg1_new)).
  - rewrite pay1_fold_neg.
    destruct (fold_res neg1_byte (x :: body) neg1_new) as [n|site]; reflexivity.
  - rewrite hdr1_end_step_none by reflexivity. cbn [hdr1_end h1_flags h1_command].
    unfold smb1_is_request, has_bit, SMB_FLAGS_REPLY in Hreq. rewrite negb_involutive in Hreq.
    apply N.eqb_eq in Hreq. rewrite Hreq, Hcmd. reflexivity.
Qed.

Lemma smb1_run_setup h x body t f a b :
  smb1_hdr_wf h = true -> smb1_is_request h = true -> sh1_command h = SMB_COM_SESSION_SETUP_ANDX ->
  smb1_repl neg chal ft ([t; f; a; b] ++ ser_smb1_hdr h ++ x :: body)
  = do n <- fold_res setup1_byte (x :: body) setup1_new; smb1_out h (P1Setup n).
Proof.
  intros Hwf Hreq Hcmd. unfold smb1_repl.
  rewrite nbt_run_payload' by apply ser_smb1_hdr_nonempty.
  rewrite hdr1_parse by exact Hwf.
  rewrite (hdr1_fold_first h (P1Setup setup1_new)).
  - rewrite pay1_fold_setup.
    destruct (fold_res setup1_byte (x :: body) setup1_new) as [n|site]; reflexivity.
  - rewrite hdr1_end_step_none by reflexivity. cbn [hdr1_end h1_flags h1_command].
    unfold smb1_is_request, has_bit, SMB_FLAGS_REPLY in Hreq. rewrite negb_involutive in Hreq.
    apply N.eqb_eq in Hreq. rewrite Hreq, Hcmd. reflexivity.
Qed.

(* response-flagged messages and other commands: no payload parser is ever created *)
Lemma hdr1_end_ignored h data :
  smb1_is_request h = false \/
  (sh1_command h <> SMB_COM_NEGOTIATE /\ sh1_command h <> SMB_COM_SESSION_SETUP_ANDX) ->
  fold_res hdr1_byte data (hdr1_end h) = Ok (hdr1_end h).
Proof.
  intros Hc.
  apply (fold_res_stuck hdr1_byte (fun s => s = hdr1_end h)); [|reflexivity].
  intros s b ->. rewrite hdr1_end_step_none by reflexivity. cbn [hdr1_end h1_flags h1_command].
  destruct Hc as [Hc | [Hc1 Hc2]].
  - unfold smb1_is_request, has_bit, SMB_FLAGS_REPLY in Hc. apply negb_false_iff, negb_true_iff in Hc.
    assert (Hb : N.land (sh1_flags h) 128 = 0 \/ N.land (sh1_flags h) 128 = 128).
    { change 128 with (2 ^ 7). pose proof (N.land_spec (sh1_flags h) (2^7)) as _.
      destruct (N.testbit (sh1_flags h) 7) eqn:Eb.
      - right. apply N.bits_inj. intros k. rewrite N.land_spec, N.pow2_bits_eqb.
        destruct (N.eqb_spec 7 k); [subst; rewrite Eb; reflexivity | apply andb_false_r].
      - left. apply N.bits_inj. intros k. rewrite N.land_spec, N.pow2_bits_eqb, N.bits_0.
        destruct (N.eqb_spec 7 k); [subst; rewrite Eb; reflexivity | apply andb_false_r]. }
    apply N.eqb_neq in Hc. destruct Hb as [Hb|Hb]; [congruence|]. rewrite Hb. reflexivity.
  - destruct (N.land (sh1_flags h) 128 =? 128); [reflexivity|].
    unfold SMB_COM_NEGOTIATE, SMB_COM_SESSION_SETUP_ANDX in *.
    apply N.eqb_neq in Hc1, Hc2. rewrite Hc1, Hc2. reflexivity.
Qed.

Theorem smb1_not_request_silent h body t f a b :
  smb1_hdr_wf h = true ->
  smb1_is_request h = false \/
  (sh1_command h <> SMB_COM_NEGOTIATE /\ sh1_command h <> SMB_COM_SESSION_SETUP_ANDX) ->
  smb1_repl neg chal ft ([t; f; a; b] ++ ser_smb1_hdr h ++ body) = Ok None.
Proof.
  intros Hwf Hc. unfold smb1_repl.
  rewrite nbt_run_payload' by apply ser_smb1_hdr_nonempty.
  rewrite hdr1_parse by exact Hwf. rewrite hdr1_end_ignored by exact Hc. reflexivity.
Qed.
End Run1.


(* ---------- session setup request ---------- *)
Definition setup1_end (q : setup1_req) : setup1 :=
  {| s1_d := {| d_i := 0; d_st := 13 |}; s1_wc := 12; s1_andx_cmd := sq1_andx_command q;
     s1_andx_off := sq1_andx_offset q; s1_max_buf := sq1_max_buffer q; s1_max_mpx := sq1_max_mpx q;
     s1_vc := sq1_vc_number q; s1_sess_key := sq1_session_key q; s1_sec_len := lenN (sq1_blob q);
     s1_caps := sq1_capabilities q; s1_bc := lenN (sq1_blob q) + lenN (sq1_strings q) |}.

Lemma setup1_blob bs rest s :
  s1_d s = {| d_i := 0; d_st := 12 |} -> s1_sec_len s = lenN bs -> 0 < lenN bs ->
  fold_res setup1_byte (bs ++ rest) s = fold_res setup1_byte rest (set_s1_d s (d_next 13)).
Proof.
  intros Hd Hl Hpos.
  apply (fold_skipq setup1_byte s1_d set_s1_d (fun s => s1_sec_len s = lenN bs) 12 13 (lenN bs)).
  - intros s0 b0 Hq H0 Hi. unfold setup1_byte. cbv zeta. rewrite H0, Hq. reflexivity.
  - intros [] ? H; exact H.
  - intros [] ?; reflexivity.
  - intros [] ? ?; reflexivity.
  - intros []; reflexivity.
  - exact Hl.
  - reflexivity.
  - exact Hpos.
  - exact Hd.
Qed.

Lemma setup1_end_stuck data s : d_st (s1_d s) = 13 -> fold_res setup1_byte data s = Ok s.
Proof.
  intros H. apply (fold_res_stuck setup1_byte (fun s => d_st (s1_d s) = 13)); [|exact H].
  intros s0 b H0. unfold setup1_byte. cbv zeta. rewrite H0. reflexivity.
Qed.

Lemma setup1_parse q tail :
  setup1_req_wf q = true ->
  fold_res setup1_byte (ser_setup1_req q ++ tail) setup1_new = Ok (setup1_end q).
Proof.
  intros Hwf. unfold setup1_req_wf in Hwf. split_wf Hwf. wf_lt.
  unfold ser_setup1_req. rewrite <- !app_assoc. cbn [app].
  rewrite setup1_b_wc by reflexivity.
  rewrite setup1_b_andx_cmd by reflexivity.
  rewrite setup1_b_2 by reflexivity.
  rewrite setup1_f_andx_off by (first [assumption | reflexivity]).
  rewrite setup1_f_max_buf by (first [assumption | reflexivity]).
  rewrite setup1_f_max_mpx by (first [assumption | reflexivity]).
  rewrite setup1_f_vc by (first [assumption | reflexivity]).
  rewrite setup1_f_sess_key by (first [assumption | reflexivity]).
  rewrite setup1_f_sec_len by (first [lia | reflexivity]).
  rewrite (setup1_skip_9 (le32 (sq1_reserved q))) by reflexivity.
  rewrite setup1_f_caps by (first [assumption | reflexivity]).
  rewrite setup1_f_bc by (first [assumption | reflexivity]).
  unfold setup1_end. destruct (sq1_blob q) as [|b0 bl] eqn:Eb.
  - (* empty blob: End is entered with the last byte of ByteCount *)
    rewrite setup1_end_stuck by reflexivity. reflexivity.
  - rewrite setup1_blob by (first [reflexivity | unfold lenN; cbn [length]; lia]).
    rewrite setup1_end_stuck by reflexivity.
    reflexivity.
Qed.


Lemma rd_smb1_hdr_ser h t : smb1_hdr_wf h = true -> rd_smb1_hdr (ser_smb1_hdr h ++ t) = Some (h, t).
Proof.
  intros Hwf. unfold smb1_hdr_wf in Hwf. split_wf Hwf. wf_lt.
  unfold ser_smb1_hdr, rd_smb1_hdr. rewrite <- !app_assoc.
  rewrite rd_take_app by reflexivity.
  change (bytes_eqb SMB1_PROTOCOL SMB1_PROTOCOL) with true. cbn [negb app rd_u8].
  rewrite rd_le32_le32 by assumption. cbn [app rd_u8].
  rewrite !rd_le16_le16 by assumption.
  rewrite rd_take_app by assumption.
  rewrite !rd_le16_le16 by assumption.
  destruct h; reflexivity.
Qed.

(* the header of every reply *)
Definition reply_hdr1 (h : smb1_hdr) : smb1_hdr :=
  {| sh1_command := sh1_command h; sh1_status := 0; sh1_flags := 152; sh1_flags2 := 51207;
     sh1_pid_high := sh1_pid_high h; sh1_security := zeros 8; sh1_reserved := 0;
     sh1_tid := sh1_tid h; sh1_pid_low := sh1_pid_low h; sh1_uid := sh1_uid h; sh1_mid := sh1_mid h |}.

Lemma reply_hdr1_wf h : smb1_hdr_wf h = true -> smb1_hdr_wf (reply_hdr1 h) = true.
Proof.
  intros Hwf. unfold smb1_hdr_wf in *. split_wf Hwf. cbn [reply_hdr1 sh1_command sh1_status sh1_flags sh1_flags2
    sh1_pid_high sh1_security sh1_reserved sh1_tid sh1_pid_low sh1_uid sh1_mid].
  repeat (apply andb_true_iff; split); first [assumption | reflexivity].
Qed.

Lemma reply_hdr1_ok h : smb1_reply_hdr_ok h (reply_hdr1 h) = true.
Proof.
  unfold smb1_reply_hdr_ok, reply_hdr1. cbn [sh1_command sh1_flags sh1_pid_high sh1_tid sh1_pid_low sh1_uid sh1_mid].
  rewrite !N.eqb_refl. reflexivity.
Qed.

Lemma hdr1_repl_with neg chal ft h p body :
  pay1_repl neg chal ft p = Some body ->
  hdr1_repl neg chal ft (hdr1_with h p) = Some (ser_smb1_hdr (reply_hdr1 h) ++ body).
Proof.
  intros Hb. unfold hdr1_repl, hdr1_with. cbn [set_h1_pay h1_pay]. rewrite Hb.
  unfold ser_smb1_hdr. rewrite <- !app_assoc. reflexivity.
Qed.
Lemma hdr1_repl_with_none neg chal ft h p :
  pay1_repl neg chal ft p = None -> hdr1_repl neg chal ft (hdr1_with h p) = None.
Proof. intros Hb. unfold hdr1_repl, hdr1_with. cbn [set_h1_pay h1_pay]. rewrite Hb. reflexivity. Qed.

Lemma lenN_ser_smb1_hdr h : length (sh1_security h) = 8%nat -> lenN (ser_smb1_hdr h) = 32.
Proof.
  intros H. unfold lenN, ser_smb1_hdr, SMB1_PROTOCOL. len_simpl. rewrite H. reflexivity.
Qed.

(* a reply body of moderate size is framed exactly and reads back *)
Lemma smb1_out_some neg chal ft h p body :
  smb1_hdr_wf h = true -> pay1_repl neg chal ft p = Some body -> lenN body < 131000 ->
  exists r, smb1_out neg chal ft h p = Ok (Some r) /\
            dec_nbt_exact r = Some (ser_smb1_hdr (reply_hdr1 h) ++ body) /\
            dec_smb1_reply r = Some (reply_hdr1 h, body).
Proof.
  intros Hwf Hb Hlen. unfold smb1_out. rewrite (hdr1_repl_with _ _ _ _ _ _ Hb).
  assert (Hl : lenN (ser_smb1_hdr (reply_hdr1 h) ++ body) < 131072).
  { rewrite lenN_app, lenN_ser_smb1_hdr by reflexivity. lia. }
  rewrite nbt_wrap_small by exact Hl.
  eexists. split; [reflexivity|].
  pose proof (dec_nbt_exact_wrap _ Hl) as Hd. split; [exact Hd|].
  unfold dec_smb1_reply. rewrite Hd. apply rd_smb1_hdr_ser. apply reply_hdr1_wf. exact Hwf.
Qed.

(* ---------- negotiate response ---------- *)
Lemma rd_neg1_resp_model idx ft neg :
  idx < 65536 -> lenN neg + 16 < 65536 ->
  rd_neg1_resp ([17] ++ le16 idx ++ [3] ++ le16 50 ++ le16 50 ++ le32 65536 ++ le32 65536 ++ le32 0 ++
                le32 2147607548 ++ le64 ft ++ le16 60 ++ [0] ++ le16 (wrap16 (lenN neg + 16)) ++ zeros 16 ++ neg)
  = Some {| nr1_dialect_index := idx; nr1_security_mode := 3; nr1_max_mpx := 50; nr1_max_vcs := 50;
            nr1_max_buffer := 65536; nr1_max_raw := 65536; nr1_session_key := 0;
            nr1_capabilities := 2147607548; nr1_system_time := ft mod W64; nr1_time_zone := 60;
            nr1_challenge_length := 0; nr1_byte_count := lenN neg + 16; nr1_data := zeros 16 ++ neg |}.
Proof.
  intros Hi Hl. unfold rd_neg1_resp. cbn [app rd_u8]. change (17 =? 17) with true. cbn [negb].
  rewrite rd_le16_le16 by exact Hi. cbn [app rd_u8].
  rewrite !rd_le16_le16 by lia. rewrite !rd_le32_le32 by lia.
  rewrite rd_le64_le64_wrap. rewrite rd_le16_le16 by lia. cbn [app rd_u8].
  unfold wrap16. rewrite N.mod_small by lia. rewrite rd_le16_le16 by lia. reflexivity.
Qed.

Lemma neg1_resp_consistent_model idx ft neg :
  neg1_resp_consistent
    {| nr1_dialect_index := idx; nr1_security_mode := 3; nr1_max_mpx := 50; nr1_max_vcs := 50;
       nr1_max_buffer := 65536; nr1_max_raw := 65536; nr1_session_key := 0;
       nr1_capabilities := 2147607548; nr1_system_time := ft; nr1_time_zone := 60;
       nr1_challenge_length := 0; nr1_byte_count := lenN neg + 16; nr1_data := zeros 16 ++ neg |} = true.
Proof.
  unfold neg1_resp_consistent, nr1_blob. cbn [nr1_capabilities nr1_challenge_length nr1_byte_count nr1_data].
  change (has_bit 2147607548 CAP_EXTENDED_SECURITY) with true. change (0 =? 0) with true.
  rewrite lenN_app. change (lenN (zeros 16)) with 16.
  change (skipn 16 (zeros 16 ++ neg)) with neg.
  rewrite !andb_true_l.
  replace (lenN neg + 16 =? 16 + lenN neg) with true by (symmetry; apply N.eqb_eq; lia).
  replace (16 <=? 16 + lenN neg) with true by (symmetry; apply N.leb_le; lia). reflexivity.
Qed.


(* ---------- dialect selection ---------- *)
Lemma bytes_eqb_sym a b : bytes_eqb a b = bytes_eqb b a.
Proof.
  revert b. induction a as [|x a IH]; intros [|y b]; cbn [bytes_eqb]; try reflexivity.
  rewrite IH, N.eqb_sym. reflexivity.
Qed.

Lemma position_some x : forall l k j, position x l k = Some j ->
  k <= j /\ (N.to_nat (j - k) < length l)%nat /\ bytes_eqb (nth (N.to_nat (j - k)) l []) x = true /\
  offered1 x l = true.
Proof.
  induction l as [|y l IH]; intros k j H; cbn [position] in H; [discriminate|].
  unfold offered1. cbn [existsb]. rewrite (bytes_eqb_sym x y).
  destruct (bytes_eqb y x) eqn:E.
  - injection H as <-. rewrite N.sub_diag. cbn [nth length]. repeat split; try lia; assumption.
  - destruct (IH _ _ H) as (H1 & H2 & H3 & H4).
    replace (N.to_nat (j - k)) with (S (N.to_nat (j - (k + 1)))) by lia.
    cbn [nth length orb]. repeat split; try lia; assumption.
Qed.
Lemma position_none x : forall l k, position x l k = None -> offered1 x l = false.
Proof.
  induction l as [|y l IH]; intros k H; cbn [position] in H; [reflexivity|].
  unfold offered1. cbn [existsb]. rewrite (bytes_eqb_sym x y).
  destruct (bytes_eqb y x); [discriminate|]. cbn [orb]. exact (IH _ H).
Qed.

Lemma count_le_ser_dialects ds : N.of_nat (length ds) <= lenN (ser_dialects ds).
Proof.
  induction ds as [|d ds IH]; [cbn; lia|].
  rewrite lenN_ser_dialects_cons. cbn [length]. lia.
Qed.

Lemma sel1_ok_model ds : ds <> [] -> lenN (ser_dialects ds) < 65536 ->
  neg1_dialect_index ds < 65536 /\ sel1_ok ds (neg1_dialect_index ds) = true.
Proof.
  intros Hne Hlen. pose proof (count_le_ser_dialects ds) as Hc.
  assert (Hpos : (0 < length ds)%nat) by (destruct ds; [congruence | cbn; lia]).
  unfold neg1_dialect_index, sel1_ok, PREFERRED1. cbn [first_offered1].
  change DIALECT_NTLM012 with NAME_NT_LM_012. change DIALECT_SMB2_ANY with NAME_SMB2_WILD.
  change DIALECT_SMB2_002 with NAME_SMB2_002.
  destruct (position NAME_NT_LM_012 ds 0) as [j|] eqn:E1.
  { destruct (position_some _ _ _ _ E1) as (H1 & H2 & H3 & H4). rewrite N.sub_0_r in *.
    unfold wrap16. rewrite N.mod_small by lia. rewrite H4, H3.
    split; [lia|]. replace (j <? N.of_nat (length ds)) with true by (symmetry; apply N.ltb_lt; lia). reflexivity. }
  rewrite (position_none _ _ _ E1).
  destruct (position NAME_SMB2_WILD ds 0) as [j|] eqn:E2.
  { destruct (position_some _ _ _ _ E2) as (H1 & H2 & H3 & H4). rewrite N.sub_0_r in *.
    unfold wrap16. rewrite N.mod_small by lia. rewrite H4, H3.
    split; [lia|]. replace (j <? N.of_nat (length ds)) with true by (symmetry; apply N.ltb_lt; lia). reflexivity. }
  rewrite (position_none _ _ _ E2).
  destruct (position NAME_SMB2_002 ds 0) as [j|] eqn:E3.
  { destruct (position_some _ _ _ _ E3) as (H1 & H2 & H3 & H4). rewrite N.sub_0_r in *.
    unfold wrap16. rewrite N.mod_small by lia. rewrite H4, H3.
    split; [lia|]. replace (j <? N.of_nat (length ds)) with true by (symmetry; apply N.ltb_lt; lia). reflexivity. }
  rewrite (position_none _ _ _ E3).
  split; [lia|]. replace (0 <? N.of_nat (length ds)) with true by (symmetry; apply N.ltb_lt; lia). reflexivity.
Qed.

Ltac blob_facts H :=
  unfold blob_ok in H; split_wf H; wf_lt.

(* ---------- SMB1 negotiate: the theorems ---------- *)
Theorem smb1_negotiate_parse h d ds tail t f a b :
  smb1_hdr_wf h = true -> neg1_req_wf (d :: ds) = true ->
  smb1_is_request h = true -> sh1_command h = SMB_COM_NEGOTIATE ->
  exists l,
    fold_res (nbt_byte hdr1 hdr1_new hdr1_byte)
      ([t; f; a; b] ++ ser_smb1_hdr h ++ ser_neg1_req (d :: ds) ++ tail) (nbt_new hdr1)
    = Ok {| nb_d := {| d_i := 0; d_st := NB_END |}; nb_type := t; nb_len := l;
            nb_pay := Some (hdr1_with h (P1Neg (n1_state N1_END 0 None (lenN (ser_dialects (d :: ds))) (d :: ds)))) |}.
Proof.
  intros Hwf Hq Hreq Hcmd.
  destruct (nbt_fold_payload' hdr1 hdr1_new hdr1_byte t f a b (ser_smb1_hdr h ++ ser_neg1_req (d :: ds) ++ tail)
              (ser_smb1_hdr_nonempty h _)) as [l Hl].
  exists l. rewrite Hl. rewrite hdr1_parse by exact Hwf.
  assert (Hne : exists x body, ser_neg1_req (d :: ds) ++ tail = x :: body).
  { unfold ser_neg1_req. cbn [app]. eauto. }
  destruct Hne as (x & body & Hxb).
  pose proof (neg1_parse ds d tail Hq) as Hp. rewrite Hxb in *.
  rewrite (hdr1_fold_first h (P1Neg neg1_new)).
  - rewrite pay1_fold_neg, Hp. reflexivity.
  - rewrite hdr1_end_step_none by reflexivity. cbn [hdr1_end h1_flags h1_command].
    unfold smb1_is_request, has_bit, SMB_FLAGS_REPLY in Hreq. rewrite negb_involutive in Hreq.
    apply N.eqb_eq in Hreq. rewrite Hreq, Hcmd. reflexivity.
Qed.

Theorem smb1_negotiate_reply neg chal ft h d ds tail t f a b :
  blob_ok neg chal = true -> smb1_hdr_wf h = true -> neg1_req_wf (d :: ds) = true ->
  smb1_is_request h = true -> sh1_command h = SMB_COM_NEGOTIATE ->
  exists r body rsp,
    smb1_repl neg chal ft ([t; f; a; b] ++ ser_smb1_hdr h ++ ser_neg1_req (d :: ds) ++ tail) = Ok (Some r) /\
    dec_nbt_exact r = Some (ser_smb1_hdr (reply_hdr1 h) ++ body) /\
    dec_smb1_reply r = Some (reply_hdr1 h, body) /\
    rd_neg1_resp body = Some rsp /\
    neg1_resp_consistent rsp = true /\ nr1_byte_count rsp = 16 + lenN neg /\ nr1_blob rsp = neg /\
    sel1_ok (d :: ds) (nr1_dialect_index rsp) = true /\
    neg1_reply_ok h (d :: ds) r = true.
Proof.
  intros Hblob Hwf Hq Hreq Hcmd. blob_facts Hblob.
  assert (Hne : exists x body, ser_neg1_req (d :: ds) ++ tail = x :: body).
  { unfold ser_neg1_req. cbn [app]. eauto. }
  destruct Hne as (x & body0 & Hxb).
  pose proof (neg1_parse ds d tail Hq) as Hp. rewrite Hxb in *.
  rewrite smb1_run_negotiate by assumption. rewrite Hp. cbn [bind].
  pose proof Hq as Hq'. unfold neg1_req_wf in Hq'. apply andb_true_iff in Hq'. destruct Hq' as [_ Hlen].
  apply N.ltb_lt in Hlen.
  destruct (sel1_ok_model (d :: ds) ltac:(discriminate) Hlen) as [Hidx Hsel].
  set (idx := neg1_dialect_index (d :: ds)) in *.
  set (body := [17] ++ le16 idx ++ [3] ++ le16 50 ++ le16 50 ++ le32 65536 ++ le32 65536 ++ le32 0 ++
                le32 2147607548 ++ le64 ft ++ le16 60 ++ [0] ++ le16 (wrap16 (lenN neg + 16)) ++ zeros 16 ++ neg).
  assert (Hbody : pay1_repl neg chal ft (P1Neg (n1_state 3 0 None (lenN (ser_dialects (d :: ds))) (d :: ds))) = Some body)
    by reflexivity.
  assert (Hbl : lenN body < 131000).
  { subst body. unfold lenN. len_simpl. unfold lenN in *. lia. }
  destruct (smb1_out_some neg chal ft h _ body Hwf Hbody Hbl) as (r & Hr & Hd1 & Hd2).
  pose proof (rd_neg1_resp_model idx ft neg Hidx ltac:(lia)) as Hrd. fold body in Hrd.
  pose proof (neg1_resp_consistent_model idx (ft mod W64) neg) as Hcons.
  eexists r, body, _. split; [exact Hr|]. split; [exact Hd1|]. split; [exact Hd2|].
  split; [exact Hrd|]. split; [exact Hcons|].
  split; [cbn [nr1_byte_count]; lia|].
  split; [reflexivity|]. split; [exact Hsel|].
  unfold neg1_reply_ok. rewrite Hd2, Hrd, reply_hdr1_ok, Hcons. cbn [nr1_dialect_index andb]. exact Hsel.
Qed.


(* ---------- SMB1 session setup: response and theorems ---------- *)
Definition STRINGS1 : bytes := NATIVE_OS ++ NATIVE_OS.

Lemma rd_setup1_resp_model chal :
  lenN chal + 48 < 65536 ->
  rd_setup1_resp ([4; 255; 0] ++ le16 68 ++ le16 0 ++ le16 (wrap16 (lenN chal)) ++
                  le16 (wrap16 (lenN chal + lenN NATIVE_OS + lenN NATIVE_OS)) ++ chal ++ NATIVE_OS ++ NATIVE_OS)
  = Some {| sr1_andx_command := 255; sr1_andx_reserved := 0; sr1_andx_offset := 68; sr1_action := 0;
            sr1_blob_length := lenN chal; sr1_byte_count := lenN chal + 48; sr1_data := chal ++ STRINGS1 |}.
Proof.
  intros Hl. unfold rd_setup1_resp. cbn [app rd_u8]. change (4 =? 4) with true. cbn [negb].
  rewrite !rd_le16_le16 by lia. unfold wrap16. change (lenN NATIVE_OS) with 24.
  rewrite !N.mod_small by lia. rewrite !rd_le16_le16 by lia.
  replace (lenN chal + 24 + 24) with (lenN chal + 48) by lia. reflexivity.
Qed.

Lemma firstn_lenN_app (a b : bytes) : firstn (N.to_nat (lenN a)) (a ++ b) = a.
Proof.
  unfold lenN. rewrite Nat2N.id, firstn_app, Nat.sub_diag, firstn_all. cbn [firstn]. apply app_nil_r.
Qed.
Lemma skipn_lenN_app (a b : bytes) : skipn (N.to_nat (lenN a)) (a ++ b) = b.
Proof.
  unfold lenN. rewrite Nat2N.id, skipn_app, Nat.sub_diag, skipn_all. reflexivity.
Qed.

Lemma setup1_resp_consistent_model chal :
  let rsp := {| sr1_andx_command := 255; sr1_andx_reserved := 0; sr1_andx_offset := 68; sr1_action := 0;
                sr1_blob_length := lenN chal; sr1_byte_count := lenN chal + 48; sr1_data := chal ++ STRINGS1 |} in
  sr1_blob rsp = chal /\ sr1_strings rsp = STRINGS1 /\ setup1_resp_consistent rsp = true.
Proof.
  cbv zeta. unfold setup1_resp_consistent, sr1_blob, sr1_strings.
  cbn [sr1_andx_command sr1_byte_count sr1_blob_length sr1_data].
  rewrite firstn_lenN_app, skipn_lenN_app.
  split; [reflexivity|]. split; [reflexivity|].
  rewrite lenN_app. change (lenN STRINGS1) with 48. change (255 =? 255) with true.
  rewrite !N.eqb_refl. replace (lenN chal <=? lenN chal + 48) with true by (symmetry; apply N.leb_le; lia).
  reflexivity.
Qed.

Theorem smb1_setup_parse h q tail t f a b :
  smb1_hdr_wf h = true -> setup1_req_wf q = true ->
  smb1_is_request h = true -> sh1_command h = SMB_COM_SESSION_SETUP_ANDX ->
  exists l,
    fold_res (nbt_byte hdr1 hdr1_new hdr1_byte)
      ([t; f; a; b] ++ ser_smb1_hdr h ++ ser_setup1_req q ++ tail) (nbt_new hdr1)
    = Ok {| nb_d := {| d_i := 0; d_st := NB_END |}; nb_type := t; nb_len := l;
            nb_pay := Some (hdr1_with h (P1Setup (setup1_end q))) |}.
Proof.
  intros Hwf Hq Hreq Hcmd.
  destruct (nbt_fold_payload' hdr1 hdr1_new hdr1_byte t f a b (ser_smb1_hdr h ++ ser_setup1_req q ++ tail)
              (ser_smb1_hdr_nonempty h _)) as [l Hl].
  exists l. rewrite Hl. rewrite hdr1_parse by exact Hwf.
  assert (Hne : exists x body, ser_setup1_req q ++ tail = x :: body).
  { unfold ser_setup1_req. cbn [app]. eauto. }
  destruct Hne as (x & body & Hxb).
  pose proof (setup1_parse q tail Hq) as Hp. rewrite Hxb in *.
  rewrite (hdr1_fold_first h (P1Setup setup1_new)).
  - rewrite pay1_fold_setup, Hp. reflexivity.
  - rewrite hdr1_end_step_none by reflexivity. cbn [hdr1_end h1_flags h1_command].
    unfold smb1_is_request, has_bit, SMB_FLAGS_REPLY in Hreq. rewrite negb_involutive in Hreq.
    apply N.eqb_eq in Hreq. rewrite Hreq, Hcmd. reflexivity.
Qed.

Theorem smb1_setup_reply neg chal ft h q tail t f a b :
  blob_ok neg chal = true -> smb1_hdr_wf h = true -> setup1_req_wf q = true ->
  smb1_is_request h = true -> sh1_command h = SMB_COM_SESSION_SETUP_ANDX ->
  exists r body rsp,
    smb1_repl neg chal ft ([t; f; a; b] ++ ser_smb1_hdr h ++ ser_setup1_req q ++ tail) = Ok (Some r) /\
    dec_nbt_exact r = Some (ser_smb1_hdr (reply_hdr1 h) ++ body) /\
    dec_smb1_reply r = Some (reply_hdr1 h, body) /\
    rd_setup1_resp body = Some rsp /\
    setup1_resp_consistent rsp = true /\
    sr1_blob_length rsp = lenN chal /\ sr1_blob rsp = chal /\
    sr1_byte_count rsp = lenN chal + lenN (sr1_strings rsp) /\
    setup1_reply_ok h r = true.
Proof.
  intros Hblob Hwf Hq Hreq Hcmd. blob_facts Hblob.
  assert (Hne : exists x body, ser_setup1_req q ++ tail = x :: body).
  { unfold ser_setup1_req. cbn [app]. eauto. }
  destruct Hne as (x & body0 & Hxb).
  pose proof (setup1_parse q tail Hq) as Hp. rewrite Hxb in *.
  rewrite smb1_run_setup by assumption. rewrite Hp. cbn [bind].
  set (body := [4; 255; 0] ++ le16 68 ++ le16 0 ++ le16 (wrap16 (lenN chal)) ++
                  le16 (wrap16 (lenN chal + lenN NATIVE_OS + lenN NATIVE_OS)) ++ chal ++ NATIVE_OS ++ NATIVE_OS).
  assert (Hbody : pay1_repl neg chal ft (P1Setup (setup1_end q)) = Some body) by reflexivity.
  assert (Hbl : lenN body < 131000).
  { subst body. unfold lenN, NATIVE_OS. len_simpl. unfold lenN in *. lia. }
  destruct (smb1_out_some neg chal ft h _ body Hwf Hbody Hbl) as (r & Hr & Hd1 & Hd2).
  pose proof (rd_setup1_resp_model chal ltac:(lia)) as Hrd. fold body in Hrd.
  destruct (setup1_resp_consistent_model chal) as (Hb1 & Hb2 & Hcons).
  eexists r, body, _. split; [exact Hr|]. split; [exact Hd1|]. split; [exact Hd2|].
  split; [exact Hrd|]. split; [exact Hcons|]. split; [reflexivity|]. split; [exact Hb1|].
  split; [rewrite Hb2; reflexivity|].
  unfold setup1_reply_ok. rewrite Hd2, Hrd, reply_hdr1_ok, Hcons. reflexivity.
Qed.
