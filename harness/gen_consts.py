"""Data translator, part 2: reply constants of the implementation, obtained by
sending canonical requests through the real reply() -> coq/gen/Consts.v."""
import os, subprocess, re
from common import *
import net


def ask(driver, payloads):
    """Send each payload over UDP/IPv4 in a fresh process; return application replies."""
    script = "CFG mac=c0ffeec0ffee self=none deny=none key=0,0 logger=none level=5\n"
    for p in payloads:
        script += "F " + net.frame_udp("10.0.0.9", "10.0.0.1", 40000, 7, p).hex() + "\n"
    out = subprocess.run([driver], input=script, stdout=subprocess.PIPE, stderr=subprocess.DEVNULL,
                         env=dict(os.environ, MASSCANNED_VERIF="1"), text=True, timeout=120).stdout
    res = []
    for line in out.splitlines():
        if line.startswith("@@R "):
            f = net.parse_frame(bytes.fromhex(line[4:]))
            res.append(f.app if f is not None and f.app is not None else b"")
        elif line.startswith("@@N") or line.startswith("@@P"):
            res.append(b"")
    return res


def coq_bytes(b):
    return "[" + "; ".join(str(x) for x in b) + "]"


def generate(driver):
    http, ssh, ghost = ask(driver, [b"GET / HTTP/1.1\r\n\r\n", b"SSH-2.0-x\r\n", b"Gh0st"])
    m = re.search(rb"\nDate: ([^\n]*)\n", http)
    if m:
        pre, post = http[:m.start(1)], http[m.end(1):]
    else:
        pre, post = http, b""
    dump = subprocess.run([driver], input="DUMP\n", stdout=subprocess.PIPE, stderr=subprocess.DEVNULL,
                          env=dict(os.environ, MASSCANNED_VERIF="1"), text=True, timeout=120).stdout
    blobs = {}
    for line in dump.splitlines():
        w = line.split()
        if len(w) >= 2 and w[0] == "const":
            blobs[w[1]] = bytes.fromhex(w[2]) if len(w) > 2 else b""
    consts = {"http_pre": pre, "http_post": post, "ssh_banner": ssh, "ghost": ghost,
              "smb_neg": blobs.get("smb_neg", b""), "smb_chal": blobs.get("smb_chal", b"")}
    src = "(* GENERATED from the implementation's replies to canonical requests on every run; do not edit. *)\n"
    src += "From MS Require Import Bytes.\nOpen Scope N_scope.\n\n"
    for k, v in consts.items():
        src += "Definition %s : bytes := %s.\n" % (k, coq_bytes(v))
    changed = write_if_changed(os.path.join(GEN, "Consts.v"), src)
    return consts, changed


if __name__ == "__main__":
    c, ch = generate(DRIVER_DEV)
    print({k: len(v) for k, v in c.items()}, "changed" if ch else "unchanged")
