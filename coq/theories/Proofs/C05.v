(* Proofs/C05.v -- ARP, neighbour discovery and echo are answered correctly, and
   only those (monitor ok_C05 of Spec/C05.v), proved against reply_spec. *)
From MS Require Import Proofs.Tactics Proofs.DecLemmas Proofs.Pipeline Proofs.Factor Proofs.ViewLemmas
     Proofs.C06 Proofs.Auth Proofs.DecLemmas2
     L2 Spec.View Spec.RefDec Spec.C02 Spec.C05.

(* ---- reading bytes through a slice ---- *)
Lemma nth_firstn_lt (i n : nat) (l : bytes) : (i < n)%nat -> nth i (firstn n l) 0 = nth i l 0.
Proof.
  revert n l. induction i as [|i IH]; intros [|n] [|x l] H; try lia; try reflexivity.
  cbn [firstn nth]. apply IH. lia.
Qed.
Lemma nth_skipn_add (o i : nat) (l : bytes) : nth i (skipn o l) 0 = nth (o + i) l 0.
Proof.
  revert l. induction o as [|o IH]; intros l; [reflexivity|].
  destruct l as [|x l]; [destruct i; reflexivity|]. cbn [skipn Nat.add nth]. apply IH.
Qed.
Lemma u8_at_slice (o n i : nat) (l : bytes) : (i < n)%nat -> u8_at i (slice o n l) = u8_at (o + i) l.
Proof. intros H. unfold u8_at, slice. rewrite nth_firstn_lt by exact H. apply nth_skipn_add. Qed.

Lemma bytes_eqb_refl (a : bytes) : bytes_eqb a a = true.
Proof. apply bytes_eqb_eq. reflexivity. Qed.

Lemma if_same_true (c : bool) : (if c then c else true) = true.
Proof. destruct c; reflexivity. Qed.

(* ---------- ARP ---------- *)
Lemma arp_case cfg f r :
  cfg_ok cfg = true -> (length f <? 14)%nat = false ->
  (if (length (skipn 14 f) <? 28)%nat then None
   else match arp_repl cfg (skipn 14 f) with
        | (Some x, _) => Some (eth_frame (slice 6 6 f) (c_mac cfg) 2054 x)
        | (None, _) => None
        end) = r ->
  ok_arp cfg f r = true.
Proof.
  intros Hcfg Hlen Hr. unfold ok_arp, dec_arp.
  set (p := skipn 14 f) in *.
  destruct (length p <? 28)%nat eqn:Hl.
  { subst r. reflexivity. }
  apply ltb_false_le in Hl. apply ltb_false_le in Hlen.
  cbn [da_op da_tpa da_ptype da_hlen da_plen da_sha da_spa].
  change (firstn 4 (skipn 24 p)) with (slice 24 4 p).
  change (firstn 6 (skipn 8 p)) with (slice 8 6 p).
  change (firstn 4 (skipn 14 p)) with (slice 14 4 p).
  unfold arp_repl in Hr.
  destruct (u16_at 6 p =? 1) eqn:Eop; cbn [andb]; [|subst r; reflexivity].
  assert (length (slice 6 6 f) = 6%nat) as Hsm by (apply slice_length; lia).
  pose proof (cfg_ok_mac _ Hcfg) as Hmac.
  assert (length (slice 2 4 p) = 4%nat) as L1 by (apply slice_length; lia).
  assert (length (slice 24 4 p) = 4%nat) as L2 by (apply slice_length; lia).
  assert (length (slice 8 6 p) = 6%nat) as L3 by (apply slice_length; lia).
  assert (length (slice 14 4 p) = 4%nat) as L4 by (apply slice_length; lia).
  unfold handled.
  destruct (c_self cfg) as [l|];
    [destruct (ip_in (V4 (slice 24 4 p)) l); cbn [negb] in Hr|]; subst r; try reflexivity.
  all: unfold dec_frame_arp.
  all: rewrite dec_eth_frame by (assumption || lia).
  all: cbn [de_type de_payload]; change (2054 =? 2054) with true; cbv iota.
  all: rewrite dec_arp_reply by assumption.
  all: cbn [da_op da_htype da_ptype da_hlen da_plen da_sha da_spa da_tha da_tpa].
  all: unfold u16_at; rewrite !u8_at_slice by lia; cbn [Nat.add].
  all: change (u8_at 2 p * 256 + u8_at 3 p) with (u16_at 2 p).
  all: rewrite if_same_true, !bytes_eqb_refl; reflexivity.
Qed.

(* ---------- ICMPv4 echo ---------- *)
Lemma icmp4_case E cfg clk tb f v tb' r :
  cfg_ok cfg = true -> view cfg f = Some v -> v_v4 v = true -> v_proto v = 1 ->
  l3_reply E cfg clk tb f v = Ok (tb', r) -> ok_icmp4 cfg v r = true.
Proof.
  intros Hcfg Hv Hv4 Hp. unfold l3_reply, ok_icmp4. rewrite Hv4, Hp.
  change (1 =? 1) with true. cbv iota.
  destruct (length (v_l4 v) <? 4)%nat eqn:Hl.
  { intros H. apply ok_pair_inj in H. destruct H as [_ <-]. reflexivity. }
  unfold icmpv4_repl.
  destruct ((u8_at 0 (v_l4 v) =? 8) && (u8_at 1 (v_l4 v) =? 0)).
  2: { intros H. apply ok_pair_inj in H. destruct H as [_ <-]. reflexivity. }
  intros H. apply ok_pair_inj in H. destruct H as [_ <-].
  assert (length (v_dst v) = (if v_v4 v then 4 else 16)%nat) as Hr.
  { destruct (view_sizes _ _ _ Hv) as (_ & Hsz). destruct (v_v4 v); apply Hsz. }
  unfold seal_icmp4.
  match goal with |- context [set_cksum 2 ?x ?c] =>
    destruct (dec_wrap_icmp cfg f v (v_dst v) 64 x c Hcfg Hv ltac:(lia) Hr
                ltac:(left; split; assumption) ltac:(cbn [app length]; lia))
      as (e & i & Hdec & Hi)
  end.
  rewrite Hdec, Hi, Hv4. cbn [dc_type dc_code dc_rest].
  unfold u8_at. list_cbn. rewrite bytes_eqb_refl. reflexivity.
Qed.

(* ---------- ICMPv6 echo and neighbour solicitation ---------- *)
Lemma l3_ci_dst6 f v : v_v4 v = false -> ci_ip_dst (l3_ci f v) = Some (V6 (v_dst v)).
Proof. intros H. unfold l3_ci. rewrite H. reflexivity. Qed.

Lemma icmp6_case E cfg clk tb f v tb' r :
  cfg_ok cfg = true -> view cfg f = Some v -> v_v4 v = false -> v_proto v = 58 ->
  l3_reply E cfg clk tb f v = Ok (tb', r) -> ok_icmp6 cfg v r = true.
Proof.
  intros Hcfg Hv Hv4 Hp. unfold l3_reply, ok_icmp6. rewrite Hv4, Hp.
  change (58 =? 58) with true. cbv iota.
  pose proof (cfg_ok_mac _ Hcfg) as Hmac.
  destruct (length (v_l4 v) <? 4)%nat eqn:Hl.
  { intros H. apply ok_pair_inj in H. destruct H as [_ <-]. reflexivity. }
  apply ltb_false_le in Hl.
  unfold icmpv6_repl. rewrite (l3_ci_dst6 f v Hv4).
  destruct (u8_at 1 (v_l4 v) =? 0) eqn:Ec; cbn [negb].
  2: { intros H. apply ok_pair_inj in H. destruct H as [_ <-]. reflexivity. }
  destruct (u8_at 0 (v_l4 v) =? 135) eqn:E135.
  - (* neighbour solicitation *)
    apply N.eqb_eq in E135. rewrite E135. change (135 =? 128) with false. change (135 =? 135) with true.
    cbv iota.
    change (firstn 16 (skipn 8 (v_l4 v))) with (slice 8 16 (v_l4 v)).
    destruct (length (v_l4 v) <? 24)%nat eqn:Hl24.
    { assert ((24 <=? length (v_l4 v))%nat = false) as -> by lia. cbn [andb].
      intros H. apply ok_pair_inj in H. destruct H as [_ <-]. reflexivity. }
    apply ltb_false_le in Hl24.
    assert ((24 <=? length (v_l4 v))%nat = true) as -> by lia. cbn [andb].
    assert (length (slice 8 16 (v_l4 v)) = 16%nat) as Ht by (apply slice_length; lia).
    set (tg := slice 8 16 (v_l4 v)) in *. clearbody tg.
    unfold handled.
    destruct (c_self cfg) as [l|];
      [destruct (ip_in (V6 tg) l); cbn [negb]|];
      intros H; apply ok_pair_inj in H; destruct H as [_ <-]; try reflexivity.
    all: unfold seal_icmp6.
    all: match goal with |- context [wrap_ip _ _ _ ?s ?h (set_cksum 2 ?x ?c)] =>
      destruct (dec_wrap_icmp cfg f v s h x c Hcfg Hv
                  ltac:(destruct (_ =? 136); lia)
                  ltac:(rewrite Hv4; exact Ht)
                  ltac:(right; split; assumption) ltac:(cbn [app length]; lia))
        as (e & i & Hdec & Hi)
    end.
    all: rewrite Hdec, Hi, Hv4; cbn [dc_type dc_code dc_rest negb].
    all: explode_lists; unfold u8_at; list_cbn.
    all: rewrite !bytes_eqb_refl; reflexivity.
  - destruct (u8_at 0 (v_l4 v) =? 128) eqn:E128.
    2: { intros H. apply ok_pair_inj in H. destruct H as [_ <-]. reflexivity. }
    (* echo request *)
    assert (length (v_dst v) = 16%nat) as Hr.
    { destruct (view_sizes _ _ _ Hv) as (_ & Hsz). rewrite Hv4 in Hsz. apply Hsz. }
    unfold handled.
    destruct (c_self cfg) as [l|];
      [destruct (ip_in (V6 (v_dst v)) l); cbn [negb]|];
      intros H; apply ok_pair_inj in H; destruct H as [_ <-]; try reflexivity.
    all: unfold seal_icmp6.
    all: match goal with |- context [wrap_ip _ _ _ ?s ?h (set_cksum 2 ?x ?c)] =>
      destruct (dec_wrap_icmp cfg f v s h x c Hcfg Hv
                  ltac:(destruct (_ =? 136); lia)
                  ltac:(rewrite Hv4; exact Hr)
                  ltac:(right; split; assumption) ltac:(cbn [app length]; lia))
        as (e & i & Hdec & Hi)
    end.
    all: rewrite Hdec, Hi, Hv4; cbn [dc_type dc_code dc_rest negb].
    all: unfold u8_at; list_cbn.
    all: rewrite bytes_eqb_refl; reflexivity.
Qed.

(* ---------- the theorem ---------- *)
Theorem l2l3_services E cfg clk tb f tb' r evs :
  cfg_ok cfg = true -> bytes_ok f = true ->
  reply E cfg clk tb f = Ok (tb', r, evs) -> ok_C05 cfg f r = true.
Proof.
  intros Hcfg Hf Hr. apply reply_factor_ok in Hr. unfold reply_spec in Hr. unfold ok_C05.
  destruct (length f <? 14)%nat eqn:Hlen; [reflexivity|].
  rewrite ref_auth_frame.
  destruct (auth_mac cfg (slice 0 6 f)); cbn [negb] in *; [|reflexivity].
  destruct (u16_at 12 f =? 2054).
  - apply (arp_case cfg f r Hcfg Hlen).
    destruct (length (skipn 14 f) <? 28)%nat.
    + apply ok_pair_inj in Hr. apply Hr.
    + destruct (arp_repl cfg (skipn 14 f)) as [[x|] ev]; apply ok_pair_inj in Hr; apply Hr.
  - destruct (view cfg f) as [v|] eqn:Hv; [|reflexivity].
    destruct (v_v4 v) eqn:Hv4; cbn [andb negb].
    + destruct (v_proto v =? 1) eqn:Hp; [|reflexivity].
      apply N.eqb_eq in Hp. eapply icmp4_case; eassumption.
    + destruct (v_proto v =? 58) eqn:Hp; [|reflexivity].
      apply N.eqb_eq in Hp. eapply icmp6_case; eassumption.
Qed.
