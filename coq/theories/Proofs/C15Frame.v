(* C15Frame.v -- C15 (STUN) as a statement about every received frame: the
   frame-level monitors ok_C15_tcp / ok_C15_udp of Spec/C15.v (payload clause and
   ports clause) hold of everything reply() emits, WITHOUT assuming how the frame's
   payload is identified.  What is needed instead:

   * [stun_ident_at E strict tcp p] -- "a binding request that the published
     signatures cover (and, for the non-strict monitor, that is outside the known
     class [stun_shadowed]) is identified as STUN by the compiled matcher".  This is
     property C10 for the STUN signatures; it is left as an explicit, named
     hypothesis ([stun_ident_ok E strict tcp] = for all payloads), to be discharged
     by C10's product check.
   * for payloads that are NOT identified as STUN, "no STUN response comes back":
     proved here from [env_ok] for every handler (Proofs/C15Foreign.v); over UDP the
     DNS fallback remains: [dns_quiet_at], explicit hypothesis (see below:
     a datagram can be at the same time a well-formed STUN message and a DNS query).

   Generic lift: Proofs/LiftTcp.v. *)
From MS Require Import Proofs.Tactics Proofs.Pending Stun Dns Proto L2 Spec.View Spec.RefDec Spec.TcpRef Spec.RefStun Spec.AppView
     Spec.History Spec.EnvOk Spec.C15
     Proofs.Pipeline Proofs.ViewLemmas Proofs.C06 Proofs.TcpState Proofs.C07 Proofs.Lift Proofs.LiftTcp
     Proofs.C15Model Proofs.C15Handler Proofs.C15Proto Proofs.C15Foreign.

(* ---------- the identification hypothesis (C10) ---------- *)
Definition c15_id (E : env) (tcp : bool) (p : bytes) : option N :=
  if tcp then tcp_first_id E p else udp_id E p.

Definition stun_ident_at (E : env) (strict tcp : bool) (p : bytes) : Prop :=
  forall m, dec_stun_req p = Some m -> is_binding_request m = true ->
    stun_published tcp p && (strict || negb (stun_shadowed tcp p)) = true ->
    c15_id E tcp p = Some PROTO_STUN.

Definition stun_ident_ok (E : env) (strict tcp : bool) : Prop :=
  forall p, bytes_ok p = true -> stun_ident_at E strict tcp p.

(* a payload that IS identified as STUN needs no hypothesis *)
Lemma stun_ident_at_identified E strict tcp p :
  c15_id E tcp p = Some PROTO_STUN -> stun_ident_at E strict tcp p.
Proof. intros H m _ _ _. exact H. Qed.

(* the DNS fallback of proto::repl over UDP does not answer a STUN message with
   something that reads as a STUN response to it *)
Definition dns_quiet_at (ctx : app_ctx) (p : bytes) : Prop :=
  forall m r, dec_stun_req p = Some m -> dns_repl (Some (ctx_dst_ip ctx)) p = Some r ->
    is_stun_response_to (sm_tid m) r = false.

(* ---------- what every frame provides ---------- *)
Lemma frame_ctx_c15 tcp ctx : frame_ctx_ok tcp ctx -> c15_ctx_ok ctx.
Proof.
  intros (_ & Hs & _ & Hbs & _ & Hsp & Hdp). unfold c15_ctx_ok, ctx_src_ip.
  split; [|split; assumption].
  destruct (a_v4 ctx); unfold ip_ok; rewrite Hs, Hbs; reflexivity.
Qed.

Lemma not_resp_nil tid : is_stun_response_to tid [] = false.
Proof. reflexivity. Qed.

(* the payload-level monitor when no STUN response comes back *)
Lemma app_ok_C15_quiet strict ctx p o :
  (forall m, dec_stun_req p = Some m -> is_binding_request m = true ->
     stun_published (a_tcp ctx) p && (strict || negb (stun_shadowed (a_tcp ctx) p)) = false) ->
  (forall m r, dec_stun_req p = Some m -> o = Some r -> is_stun_response_to (sm_tid m) r = false) ->
  app_ok_C15_gen strict ctx p o = true.
Proof.
  intros Hn Hq. unfold app_ok_C15_gen. destruct (dec_stun_req p) as [m|] eqn:Hm; [|reflexivity].
  destruct (is_binding_request m) eqn:Hb.
  - rewrite (Hn m eq_refl Hb). destruct o as [r|]; [|reflexivity]. rewrite (Hq m r eq_refl eq_refl). reflexivity.
  - destruct o as [r|]; [|reflexivity]. rewrite (Hq m r eq_refl eq_refl). reflexivity.
Qed.

(* ---------- proto::repl on the first data segment of a flow, any identification ---------- *)
Theorem C15_proto_tcp_any E clk cfg ms md strict ctx p ci' tc' o :
  env_ok E = true -> a_tcp ctx = true -> bytes_ok p = true -> c15_ctx_ok ctx ->
  stun_ident_at E strict true p ->
  proto_repl_tcp E clk (ctx_ci cfg ms md ctx) tcb_new p = Ok (ci', tc', o) ->
  app_ok_C15_gen strict ctx p o = true /\
  (forall m r, dec_stun_req p = Some m -> is_binding_request m = true -> o = Some r ->
     is_stun_response_to (sm_tid m) r = true ->
     ci_port_dst ci' = Some (expected_reply_sport ctx m) /\ ci_port_src ci' = Some (a_sport ctx)).
Proof.
  intros HE Htcp Hok Hctx Hident Hpr.
  destruct (tcp_first_id E p) as [i|] eqn:Hid.
  - destruct (i =? PROTO_STUN) eqn:Hi.
    + apply N.eqb_eq in Hi. subst i.
      destruct (C15_proto_tcp E clk cfg ms md ctx p Htcp Hok Hctx Hid)
        as (ci2 & tc2 & o2 & Hpr2 & A1 & B1 & Hsame & Hport & _).
      rewrite Hpr in Hpr2. inversion Hpr2; subst ci2 tc2 o2. clear Hpr2.
      split; [destruct strict; assumption|].
      intros m r Hm Hb _ _. specialize (Hport m Hm). rewrite Hb in Hport. split; [exact Hport|].
      destruct Hsame as (_ & _ & _ & _ & _ & S6 & _). rewrite S6. reflexivity.
    + (* identified as something else *)
      pose proof Hid as Hid0.
      rewrite Pending.proto_repl_tcp_first in Hpr. unfold tcp_first_id in Hid.
      destruct (search_next (e_proto_tbl E) BASE_STATE p) as [[id st] n]. subst id.
      cbv zeta in Hpr. cbn [id_of t_proto] in Hpr.
      match type of Hpr with context [dispatch E clk ?c ?j ?t p] =>
        destruct (dispatch E clk c j t p) as [[[c2 t2] o2]|s] eqn:Hd end; cbn [bind] in Hpr; [|discriminate].
      inversion Hpr; subst ci' o2. clear Hpr.
      assert (forall m r, dec_stun_req p = Some m -> o = Some r -> is_stun_response_to (sm_tid m) r = false) as Hq.
      { intros m r Hm ->. exact (dispatch_not_stun_resp _ _ _ _ _ _ _ _ _ _ HE Hok Hm Hi Hd). }
      split.
      * apply app_ok_C15_quiet; [|exact Hq].
        intros m Hm Hb. rewrite Htcp.
        destruct (stun_published true p && (strict || negb (stun_shadowed true p))) eqn:Hpub; [|reflexivity].
        specialize (Hident m Hm Hb Hpub). unfold c15_id in Hident. rewrite Hid0 in Hident.
        inversion Hident; subst i. discriminate.
      * intros m r Hm _ -> Hresp. rewrite (Hq m r Hm eq_refl) in Hresp. discriminate.
  - (* not identified: nothing comes back *)
    rewrite Pending.proto_repl_tcp_first in Hpr. unfold tcp_first_id in Hid.
    destruct (search_next (e_proto_tbl E) BASE_STATE p) as [[id st] n] eqn:Hs. subst id.
    cbv zeta in Hpr. cbn [id_of t_proto] in Hpr. unfold dispatch in Hpr.
    change (NO_MATCH =? PROTO_HTTP) with false in Hpr. change (NO_MATCH =? PROTO_STUN) with false in Hpr.
    change (NO_MATCH =? PROTO_SSH) with false in Hpr. change (NO_MATCH =? PROTO_GHOST) with false in Hpr.
    change (NO_MATCH =? PROTO_RPC_TCP) with false in Hpr. change (NO_MATCH =? PROTO_RPC_UDP) with false in Hpr.
    change (NO_MATCH =? PROTO_SMB1) with false in Hpr. change (NO_MATCH =? PROTO_SMB2) with false in Hpr.
    cbn [bind] in Hpr. inversion Hpr; subst. clear Hpr.
    split.
    + apply app_ok_C15_quiet; [|intros m r _ H; discriminate].
      intros m Hm Hb. rewrite Htcp.
      destruct (stun_published true p && (strict || negb (stun_shadowed true p))) eqn:Hpub; [|reflexivity].
      specialize (Hident m Hm Hb Hpub). unfold c15_id, tcp_first_id in Hident. rewrite Hs in Hident. discriminate.
    + intros m r _ _ H; discriminate.
Qed.

(* ---------- whole frames, TCP ---------- *)
Definition ok_C15_tcp_gen (strict : bool) (cfg : config) (st : ref_state) (f : bytes) (r : option bytes) : bool :=
  ok_app_tcp_first (app_ok_C15_gen strict) cfg st f r && ok_C15_ports_tcp cfg st f r.

Lemma ok_C15_tcp_gen_false : ok_C15_tcp_gen false = ok_C15_tcp.
Proof. reflexivity. Qed.
Lemma ok_C15_tcp_gen_true : ok_C15_tcp_gen true = ok_C15_tcp_strict.
Proof. reflexivity. Qed.

Lemma expected_sport_lt ctx m : a_dport ctx < 65536 -> expected_reply_sport ctx m < 65536.
Proof. unfold expected_reply_sport. destruct (change_port_requested m); lia. Qed.

Theorem frame_tcp_C15_agree E cfg st clk tb f tb' r evs strict :
  cfg_ok cfg = true -> env_ok E = true -> bytes_ok f = true ->
  st_agrees cfg st tb f ->
  (forall ctx p, tcp_first_req cfg st f = Some (ctx, p) -> stun_ident_at E strict true p) ->
  reply E cfg clk tb f = Ok (tb', r, evs) ->
  ok_C15_tcp_gen strict cfg st f r = true.
Proof.
  intros Hcfg HE Hf Hag Hident Hr. unfold ok_C15_tcp_gen, ok_app_tcp_first, ok_C15_ports_tcp.
  destruct (tcp_first_req cfg st f) as [[ctx p]|] eqn:Hreq; [|reflexivity].
  destruct (tcp_first_req_lift E cfg st clk tb f tb' r evs ctx p Hcfg Hf Hag Hreq Hr)
    as (Hp & Hctx & ci' & tc' & out & Hpr & _ & Hresp & (rf & e & i & t & -> & Hdec & Hpl & _ & Hsp & Hdp)).
  pose proof (frame_ctx_c15 true ctx Hctx) as Hc15.
  assert (a_tcp ctx = true) as Htcp by apply Hctx.
  destruct (C15_proto_tcp_any E clk cfg _ _ strict ctx p ci' tc' out HE Htcp Hp Hc15 (Hident ctx p eq_refl) Hpr)
    as [Hmon Hports].
  rewrite Hresp, Hdec. apply andb_true_iff. split.
  - (* the payload clause, on the normalised output *)
    rewrite (norm_out_env _ _ _ _ _ _ _ _ HE Hpr). exact Hmon.
  - unfold c15_ports_ok. destruct (dec_stun_req p) as [m|] eqn:Hm; [|reflexivity].
    destruct (is_binding_request m) eqn:Hb; cbn [andb]; [|reflexivity].
    rewrite Hpl. destruct out as [d|]; cbn [out_bytes]; [|reflexivity].
    destruct (is_stun_response_to (sm_tid m) d) eqn:Hresp2; [|reflexivity].
    destruct (Hports m d eq_refl Hb eq_refl Hresp2) as [Hpd Hps].
    rewrite Hpd in Hsp. rewrite Hps in Hdp. cbn [option_map] in Hsp, Hdp.
    injection Hsp as Esp. injection Hdp as Edp.
    destruct Hc15 as (_ & Hs16 & Hd16). pose proof (expected_sport_lt ctx m Hd16).
    apply andb_true_iff. split; apply N.eqb_eq; [rewrite Esp|rewrite Edp]; apply N.mod_small; assumption.
Qed.

Theorem frame_tcp_C15_history E cfg h clk tb f tb' r evs strict :
  cfg_ok cfg = true -> env_ok E = true ->
  Forall (fun x => bytes_ok x = true) (frames h) -> bytes_ok f = true ->
  run E cfg [] h = Ok tb ->
  (forall v, view_tcp cfg f = Some v -> no_collision cfg (flow_of v :: ref_run cfg (frames h))) ->
  (forall ctx p, tcp_first_req cfg (ref_run cfg (frames h)) f = Some (ctx, p) -> stun_ident_at E strict true p) ->
  reply E cfg clk tb f = Ok (tb', r, evs) ->
  ok_C15_tcp_gen strict cfg (ref_run cfg (frames h)) f r = true.
Proof.
  intros Hcfg HE Hall Hf Hrun Hnc Hident Hr.
  apply (frame_tcp_C15_agree E cfg _ clk tb f tb' r evs strict Hcfg HE Hf); try assumption.
  exact (st_agrees_history E cfg h tb f Hall Hrun Hnc).
Qed.

(* the non-strict monitor, for every frame, under the identification hypothesis for all payloads *)
Corollary frame_tcp_C15 E cfg h clk tb f tb' r evs :
  cfg_ok cfg = true -> env_ok E = true -> stun_ident_ok E false true ->
  Forall (fun x => bytes_ok x = true) (frames h) -> bytes_ok f = true ->
  run E cfg [] h = Ok tb ->
  (forall v, view_tcp cfg f = Some v -> no_collision cfg (flow_of v :: ref_run cfg (frames h))) ->
  reply E cfg clk tb f = Ok (tb', r, evs) ->
  ok_C15_tcp cfg (ref_run cfg (frames h)) f r = true.
Proof.
  intros Hcfg HE HI Hall Hf Hrun Hnc Hr.
  apply (frame_tcp_C15_history E cfg h clk tb f tb' r evs false Hcfg HE Hall Hf Hrun Hnc); [|exact Hr].
  intros ctx p Hreq. apply HI.
  destruct (tcp_first_req_inv _ _ _ _ _ Hreq) as (v & Hvt & _ & -> & _).
  destruct (view_tcp_view _ _ _ Hvt) as [Hv _].
  pose proof (view_l4_ok _ _ _ Hf Hv) as Hok. unfold tcp_payload.
  destruct (_ <=? _)%nat; [reflexivity|apply bytes_ok_skipn, Hok].
Qed.

(* a first data segment identified as STUN: both monitors, no hypothesis on the matcher
   (the TCP analogue of C15_frame_udp) *)
Corollary frame_tcp_C15_identified E cfg h clk tb f tb' r evs ctx p :
  cfg_ok cfg = true -> env_ok E = true ->
  Forall (fun x => bytes_ok x = true) (frames h) -> bytes_ok f = true ->
  run E cfg [] h = Ok tb ->
  (forall v, view_tcp cfg f = Some v -> no_collision cfg (flow_of v :: ref_run cfg (frames h))) ->
  tcp_first_req cfg (ref_run cfg (frames h)) f = Some (ctx, p) -> tcp_first_id E p = Some PROTO_STUN ->
  reply E cfg clk tb f = Ok (tb', r, evs) ->
  ok_C15_tcp_strict cfg (ref_run cfg (frames h)) f r = true /\
  ok_C15_tcp cfg (ref_run cfg (frames h)) f r = true.
Proof.
  intros Hcfg HE Hall Hf Hrun Hnc Hreq Hid Hr.
  split; [rewrite <- ok_C15_tcp_gen_true|rewrite <- ok_C15_tcp_gen_false];
    (apply (frame_tcp_C15_history E cfg h clk tb f tb' r evs _ Hcfg HE Hall Hf Hrun Hnc); [|exact Hr];
     intros ctx' p' Hreq'; rewrite Hreq in Hreq'; inversion Hreq'; subst;
     apply stun_ident_at_identified; exact Hid).
Qed.

(* state level *)
Theorem frame_tcp_C15_state E cfg clk tb f tb' r evs v strict :
  cfg_ok cfg = true -> env_ok E = true -> bytes_ok f = true ->
  view_tcp cfg f = Some v ->
  is_data (tcp_flags (v_l4 v)) = true ->
  tbl_mem (flow_cookie cfg (flow_of v)) tb = false ->
  presents_cookie cfg v = true ->
  stun_ident_at E strict true (tcp_payload (v_l4 v)) ->
  reply E cfg clk tb f = Ok (tb', r, evs) ->
  exists o, tcp_resp r = Some o /\ app_ok_C15_gen strict (ctx_of true v) (tcp_payload (v_l4 v)) o = true.
Proof.
  intros Hcfg HE Hf Hvt Hd Hmem Hpres Hident Hr.
  apply (ok_app_tcp_first_lift_state (app_ok_C15_gen strict) E cfg clk tb f tb' r evs v Hcfg Hf Hvt Hd Hmem Hpres);
    [|exact Hr].
  intros ci' tc' out Hp Hctx Hpr.
  rewrite (norm_out_env _ _ _ _ _ _ _ _ HE Hpr).
  exact (proj1 (C15_proto_tcp_any E clk cfg _ _ strict (ctx_of true v) _ ci' tc' out HE eq_refl Hp
                                  (frame_ctx_c15 true _ Hctx) Hident Hpr)).
Qed.

(* ---------- proto::repl on a UDP datagram, any identification ---------- *)
Theorem C15_proto_udp_any E clk cfg ms md strict ctx p ci' o :
  env_ok E = true -> a_tcp ctx = false -> bytes_ok p = true -> c15_ctx_ok ctx ->
  stun_ident_at E strict false p -> dns_quiet_at ctx p ->
  proto_repl_udp E clk (ctx_ci cfg ms md ctx) p = Ok (ci', o) ->
  app_ok_C15_gen strict ctx p o = true /\
  (forall m r, dec_stun_req p = Some m -> is_binding_request m = true -> o = Some r ->
     is_stun_response_to (sm_tid m) r = true ->
     ci_port_dst ci' = Some (expected_reply_sport ctx m) /\ ci_port_src ci' = Some (a_sport ctx)).
Proof.
  intros HE Htcp Hok Hctx Hident Hdns Hpr.
  destruct (udp_id E p) as [i|] eqn:Hid.
  - destruct (i =? PROTO_STUN) eqn:Hi.
    + apply N.eqb_eq in Hi. subst i.
      destruct (C15_proto_udp E clk cfg ms md ctx p Htcp Hok Hctx Hid)
        as (ci2 & o2 & Hpr2 & A1 & B1 & Hsame & Hport & _).
      rewrite Hpr in Hpr2. inversion Hpr2; subst ci2 o2. clear Hpr2.
      split; [destruct strict; assumption|].
      intros m r Hm Hb _ _. specialize (Hport m Hm). rewrite Hb in Hport. split; [exact Hport|].
      destruct Hsame as (_ & _ & _ & _ & _ & S6 & _). rewrite S6. reflexivity.
    + pose proof Hid as Hid0.
      unfold proto_repl_udp in Hpr. unfold udp_id in Hid.
      destruct (search_next (e_proto_tbl E) BASE_STATE p) as [[id st] n]. rewrite Hid in Hpr.
      match type of Hpr with context [dispatch E clk ?c ?j ?t p] =>
        destruct (dispatch E clk c j t p) as [[[c2 t2] o2]|s] eqn:Hd end; cbn [bind] in Hpr; [|discriminate].
      inversion Hpr; subst ci' o2. clear Hpr.
      assert (forall m r, dec_stun_req p = Some m -> o = Some r -> is_stun_response_to (sm_tid m) r = false) as Hq.
      { intros m r Hm ->. exact (dispatch_not_stun_resp _ _ _ _ _ _ _ _ _ _ HE Hok Hm Hi Hd). }
      split.
      * apply app_ok_C15_quiet; [|exact Hq].
        intros m Hm Hb. rewrite Htcp.
        destruct (stun_published false p && (strict || negb (stun_shadowed false p))) eqn:Hpub; [|reflexivity].
        specialize (Hident m Hm Hb Hpub). unfold c15_id in Hident. rewrite Hid0 in Hident.
        inversion Hident; subst i. discriminate.
      * intros m r Hm _ -> Hresp. rewrite (Hq m r Hm eq_refl) in Hresp. discriminate.
  - (* not identified: the DNS fallback *)
    unfold proto_repl_udp in Hpr. unfold udp_id in Hid.
    destruct (search_next (e_proto_tbl E) BASE_STATE p) as [[id st] n] eqn:Hs. rewrite Hid in Hpr.
    change (ci_ip_dst (ctx_ci cfg ms md ctx)) with (Some (ctx_dst_ip ctx)) in Hpr.
    assert (o = dns_repl (Some (ctx_dst_ip ctx)) p) as Ho.
    { destruct (dns_repl (Some (ctx_dst_ip ctx)) p); inversion Hpr; reflexivity. }
    assert (forall m r, dec_stun_req p = Some m -> o = Some r -> is_stun_response_to (sm_tid m) r = false) as Hq.
    { intros m r Hm Hr. apply (Hdns m r Hm). rewrite <- Ho. exact Hr. }
    split.
    + apply app_ok_C15_quiet; [|exact Hq].
      intros m Hm Hb. rewrite Htcp.
      destruct (stun_published false p && (strict || negb (stun_shadowed false p))) eqn:Hpub; [|reflexivity].
      specialize (Hident m Hm Hb Hpub). unfold c15_id, udp_id in Hident. rewrite Hs in Hident. congruence.
    + intros m r Hm _ -> Hresp. rewrite (Hq m r Hm eq_refl) in Hresp. discriminate.
Qed.

(* ---------- whole frames, UDP ---------- *)
Definition ok_C15_udp_gen (strict : bool) (cfg : config) (f : bytes) (r : option bytes) : bool :=
  ok_app_udp (app_ok_C15_gen strict) cfg f r && ok_C15_ports_udp cfg f r.

Lemma ok_C15_udp_gen_false : ok_C15_udp_gen false = ok_C15_udp.
Proof. reflexivity. Qed.
Lemma ok_C15_udp_gen_true : ok_C15_udp_gen true = ok_C15_udp_strict.
Proof. reflexivity. Qed.

Theorem frame_udp_C15_any E cfg clk tb f tb' r evs strict :
  cfg_ok cfg = true -> env_ok E = true -> bytes_ok f = true ->
  (forall ctx p, udp_req cfg f = Some (ctx, p) -> stun_ident_at E strict false p /\ dns_quiet_at ctx p) ->
  reply E cfg clk tb f = Ok (tb', r, evs) ->
  ok_C15_udp_gen strict cfg f r = true.
Proof.
  intros Hcfg HE Hf Hhyp Hr. unfold ok_C15_udp_gen, ok_app_udp, ok_C15_ports_udp.
  destruct (udp_req cfg f) as [[ctx p]|] eqn:Hreq; [|reflexivity].
  destruct (udp_req_lift E cfg clk tb f tb' r evs ctx p Hcfg Hf Hreq Hr)
    as (Hp & Hctx & _ & ci' & out & Hpr & Hresp & Hframe).
  pose proof (frame_ctx_c15 false ctx Hctx) as Hc15.
  assert (a_tcp ctx = false) as Htcp by apply Hctx.
  destruct (Hhyp ctx p eq_refl) as [Hident Hdns].
  destruct (C15_proto_udp_any E clk cfg _ _ strict ctx p ci' out HE Htcp Hp Hc15 Hident Hdns Hpr) as [Hmon Hports].
  rewrite Hresp, Hmon. cbn [andb].
  destruct r as [rf|]; [|reflexivity].
  destruct (udp_resp_some rf out Hresp) as [d ->].
  destruct (Hframe d eq_refl) as (rf' & e & i & u & Erf & Hdec & Hpl & Hsp & Hdp).
  inversion Erf; subst rf'. rewrite Hdec. unfold c15_ports_ok.
  destruct (dec_stun_req p) as [m|] eqn:Hm; [|reflexivity].
  destruct (is_binding_request m) eqn:Hb; cbn [andb]; [|reflexivity].
  rewrite Hpl. destruct (is_stun_response_to (sm_tid m) d) eqn:Hresp2; [|reflexivity].
  destruct (Hports m d eq_refl Hb eq_refl Hresp2) as [Hpd Hps].
  rewrite Hpd in Hsp. rewrite Hps in Hdp. cbn [option_map] in Hsp, Hdp.
  injection Hsp as Esp. injection Hdp as Edp.
  destruct Hc15 as (_ & Hs16 & Hd16). pose proof (expected_sport_lt ctx m Hd16).
  apply andb_true_iff. split; apply N.eqb_eq; [rewrite Esp|rewrite Edp]; apply N.mod_small; assumption.
Qed.
