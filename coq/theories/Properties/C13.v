(* Properties/C13.v -- HTTP: complete requests get a well-formed 401, anything else gets silence. *)
From MS Require Import Http Proto Spec.RefHttp Spec.HttpTbl Spec.EnvOk Spec.AppView Spec.C11http Spec.C13
  Proofs.HttpGrammar Proofs.C13.

(* The reference grammar: the boolean recogniser decides the declarative language,
   and a byte string has at most one complete prefix. *)
Theorem C13_grammar_recogniser :
  forall s n, http_complete_prefix s = Some n <-> exists p t, s = p ++ t /\ Lstrict p /\ length p = n.
Proof. exact http_complete_prefix_iff. Qed.

Theorem C13_strict_in_relaxed :
  forall s n, http_complete_prefix s = Some n -> http_relaxed_prefix s = Some n.
Proof. exact relaxed_of_strict_prefix. Qed.

(* The 401 is well-formed for every rendering of the clock (Content-Length = body bytes). *)
Theorem C13_response_wf :
  forall E date, env_ok E = true -> no_lf date = true ->
    http_resp_wf (e_http_pre E ++ date ++ e_http_post E) = true.
Proof. exact response_wf_stmt. Qed.

(* Exact language of the responder on a fresh state. *)
Theorem C13_language :
  forall E clk p, env_ok E = true -> bytes_ok p = true ->
    exists h', http_repl (e_http_tbl E) (e_http_pre E) (e_http_post E) (clk_date clk) http_new p =
               Ok (h', if is_some (rl_request p) then Some (http_resp E clk) else None).
Proof. exact language_stmt. Qed.

(* Completeness: a request of the strict grammar, followed by anything, is answered with the 401. *)
Theorem C13_complete :
  forall E clk s t, env_ok E = true -> Lstrict s -> bytes_ok (s ++ t) = true ->
    exists h', http_repl (e_http_tbl E) (e_http_pre E) (e_http_post E) (clk_date clk) http_new (s ++ t) =
               Ok (h', Some (http_resp E clk)).
Proof. exact complete_stmt. Qed.

(* Soundness: an answer implies a complete request head (leniently read), and it is the 401. *)
Theorem C13_sound :
  forall E clk p h' r, env_ok E = true -> bytes_ok p = true ->
    http_repl (e_http_tbl E) (e_http_pre E) (e_http_post E) (clk_date clk) http_new p = Ok (h', Some r) ->
    (exists n, http_relaxed_prefix p = Some n) /\ r = http_resp E clk.
Proof. exact sound_stmt. Qed.

(* Through the dispatcher: a UDP datagram / the first data segment of a TCP flow identified as HTTP. *)
Theorem C13_udp :
  forall E clk ci p, env_ok E = true -> bytes_ok p = true ->
    udp_id E p = Some PROTO_HTTP ->
    proto_repl_udp E clk ci p =
    Ok (ci, if is_some (rl_request p) then Some (http_resp E clk) else None).
Proof. exact udp_dispatch_stmt. Qed.

Theorem C13_tcp_first :
  forall E clk ci p, env_ok E = true -> bytes_ok p = true ->
    tcp_first_id E p = Some PROTO_HTTP ->
    exists tc', proto_repl_tcp E clk ci tcb_new p =
                Ok (ci, tc', if is_some (rl_request p) then Some (http_resp E clk) else None) /\
                t_proto tc' = PROTO_HTTP.
Proof. exact tcp_dispatch_stmt. Qed.

(* Payloads that start with one of the nine "VERB /" signatures are identified as HTTP. *)
Theorem C13_identified :
  forall E p, env_ok E = true -> has_http_sig p = true ->
    udp_id E p = Some PROTO_HTTP /\ tcp_first_id E p = Some PROTO_HTTP.
Proof. exact identified_stmt. Qed.

(* The model satisfies the payload-level monitor app_ok_C13 on every payload. *)
Theorem C13_monitor_udp :
  forall E clk ci ctx p ci' o, env_ok E = true -> bytes_ok p = true -> no_lf (clk_date clk) = true ->
    proto_repl_udp E clk ci p = Ok (ci', o) -> app_ok_C13 ctx p o = true.
Proof. exact monitor_udp_stmt. Qed.

Theorem C13_monitor_tcp_first :
  forall E clk ci ctx p ci' tc' o, env_ok E = true -> bytes_ok p = true -> no_lf (clk_date clk) = true ->
    proto_repl_tcp E clk ci tcb_new p = Ok (ci', tc', o) -> app_ok_C13 ctx p o = true.
Proof. exact monitor_tcp_stmt. Qed.

Print Assumptions C13_grammar_recogniser.
Print Assumptions C13_strict_in_relaxed.
Print Assumptions C13_response_wf.
Print Assumptions C13_language.
Print Assumptions C13_complete.
Print Assumptions C13_sound.
Print Assumptions C13_udp.
Print Assumptions C13_tcp_first.
Print Assumptions C13_identified.
Print Assumptions C13_monitor_udp.
Print Assumptions C13_monitor_tcp_first.
