"""C08 -- flows do not interfere: a reply depends only on the frame and its own flow."""
import subprocess, re
import net, gens, runner, build
from common import *
from runner import Script, Cfg
from props import c09

ID = "C08"
THEOREMS = ["C08_interference_free", "C08_non_tcp_history_irrelevant", "C08_refuted_on_collision",
            "ClockIndep.ClockIndep_state", "ClockIndep.ClockIndep_frame", "ClockIndep.ClockIndep_frame_norm",
            "ClockIndep.ClockIndep_history", "ClockIndep.ClockIndep_history_masked", "ClockIndep.ClockIndep_clocks_nonvacuous",
            "ClockIndep.ClockIndep_state_unconditional_refuted"]
MONITORS = []
KEEP_LAST = True
RULE = ("histories mixing handshakes of several flows, wrong-ack data, SYN floods, FIN/RST/ACK and UDP/ICMP/ARP noise, "
        "followed by a probe frame (data on a validated flow, data on an unvalidated flow, SYN, FIN, UDP/ICMP/ARP request); "
        "the implementation processes the probe after the full history and after the history restricted (by the extracted "
        "specification) to the data segments of the probe's own flow, each on a fresh table; the two replies must be equal "
        "modulo the Date header; the model is run on both as well. non-trivial = history contains a TCP frame of another flow")
TRUSTED = c09.TRUSTED
ASSUMPTIONS = ["outside the known class 'collision' (a data segment of another flow with the same 32-bit SYN cookie), "
               "which is characterised by the extracted predicate collides and refuted by theorem C08_refuted_on_collision"]

KEY_W = (1, 2)
W_A = ("10.0.1.9", "10.0.0.1", 11544, 80)
W_B = ("10.0.1.9", "10.0.0.1", 62702, 80)


def witness_script():
    ck = net.cookie(KEY_W, *W_A)
    a = net.frame_tcp(W_A[0], W_A[1], W_A[2], W_A[3], 100, (ck + 1) & 0xFFFFFFFF, 0x18, b"x")
    b = net.frame_tcp(W_B[0], W_B[1], W_B[2], W_B[3], 200, 5, 0x18, b"y")
    return Script(Cfg(key=KEY_W), [a, b], "corpus:cookie-collision (probe = last frame)")


def corpus():
    yield witness_script()


def probe_frames(rng, key, flows, refused=()):
    out = []
    if refused:
        # a flow whose only data segments so far were refused (wrong acknowledgement): nothing of it was accepted, so
        # it must be treated exactly like a flow never seen -- refused again, or accepted afresh with the cookie
        s, d, sp, dp = rng.choice(list(refused))
        ck = net.cookie(key, s, d, sp, dp)
        out.append(net.frame_tcp(s, d, sp, dp, 1, rng.getrandbits(32), 0x18, b"GET / HTTP/1.0\r\n\r\n"))
        out.append(net.frame_tcp(s, d, sp, dp, 1, (ck + 1) & 0xFFFFFFFF, 0x18, b"GET / HTTP/1.0\r\n\r\n"))
        out.append(net.frame_tcp(s, d, sp, dp, 1, ck, 0x18, b"SSH-2.0-x\r\n"))
    if flows:
        s, d, sp, dp = rng.choice(flows)
        out.append(net.frame_tcp(s, d, sp, dp, 77, rng.getrandbits(32), 0x18, b"GET / HTTP/1.0\r\n\r\n"))
        out.append(net.frame_tcp(s, d, sp, dp, 77, 0, 0x11))
        out.append(net.frame_tcp(s, d, sp, dp, 77, 0, 0x02))
    s, d = gens.addr_pair(rng.random() < 0.5)
    sp, dp = rng.randrange(65536), rng.randrange(65536)
    ck = net.cookie(key, s, d, sp, dp)
    out.append(net.frame_tcp(s, d, sp, dp, 5, (ck + 1) & 0xFFFFFFFF, 0x18, b"SSH-2.0-x\r\n"))
    out.append(net.frame_tcp(s, d, sp, dp, 5, rng.getrandbits(32), 0x18, b"SSH-2.0-x\r\n"))
    out += gens.l2l3_noise(rng, 2)
    return out


def history_with_flows(rng, key, n):
    """A c09-style history, returning also the validated flows (so probes can target them)."""
    fr, flows, refused = [], [], []
    for _ in range(n):
        v6 = rng.random() < 0.4
        s, d = gens.addr_pair(v6)
        k = rng.randrange(8)
        sport, dport = rng.randrange(65536), rng.choice([22, 80, 443, rng.randrange(65536)])
        if k <= 1:
            fr.append(net.frame_tcp(s, d, sport, dport, rng.getrandbits(32), rng.getrandbits(32), rng.randrange(512) | 2))
        elif k == 2:
            if refused and rng.random() < 0.3:
                s, d, sport, dport = rng.choice(refused)
            fr.append(net.frame_tcp(s, d, sport, dport, 1, rng.getrandbits(32), 0x18, b"GET / HTTP/1.0\r\n\r\n"))
            refused.append((s, d, sport, dport))
        elif k in (3, 4):
            name, p, t, u = rng.choice([x for x in gens.app_seeds() if x[2]])
            cut = rng.randrange(len(p) + 1)
            fr += gens.handshake(key, s, d, sport, dport, [p[:cut]] if rng.random() < 0.5 else [p])
            flows.append((s, d, sport, dport))
        elif k == 5 and flows:
            s, d, sport, dport = rng.choice(flows)
            fr.append(net.frame_tcp(s, d, sport, dport, 9, rng.getrandbits(32), 0x18, b" more\r\n\r\n"))
        elif k == 6:
            if flows and rng.random() < 0.5:           # control segments on a flow that holds state, too
                s, d, sport, dport = rng.choice(flows)
            ck = net.cookie(key, s, d, sport, dport)
            fr.append(net.frame_tcp(s, d, sport, dport, 5, rng.choice([6, (ck + 1) & 0xFFFFFFFF]),
                                    rng.choice([0x11, 0x04, 0x10, 0x14, 0x01, 0x02, 0x12]), rng.choice([b"", b"", b"payload"])))
        elif k == 7 and flows and rng.random() < 0.5:
            # the same ports between the IPv4-mapped IPv6 forms of an IPv4 flow's addresses (or back): another flow
            s, d, sport, dport = rng.choice(flows)
            if ":" not in s:
                s, d = "::ffff:" + s, "::ffff:" + d
                ck = net.cookie(key, s, d, sport, dport)
                fr.append(net.frame_tcp(s, d, sport, dport, 9, rng.choice([rng.getrandbits(32), (ck + 1) & 0xFFFFFFFF]), 0x18,
                                        rng.choice([b" more\r\n\r\n", b"GET / HTTP/1.0\r\n\r\n", b"\r\n\r\n"])))
        else:
            fr += gens.l2l3_noise(rng, 1)
    refused = [x for x in refused if x not in flows]
    return fr, flows, refused


def generate(tier, rng):
    n_hist, n = (10, 40) if tier == "quick" else (80, 120)
    for i in range(n_hist):
        key = rng.choice([(0, 0), (1, 2), (rng.getrandbits(64), rng.getrandbits(64))])
        cfg = rng.choice(gens.cfgs(key=key))
        h, flows, refused = history_with_flows(rng, key, n)
        for f in probe_frames(rng, key, flows, refused):
            yield Script(cfg, h + [f], "history+probe")
    # an IPv4 flow and the flow with the same ports between the IPv4-mapped IPv6 forms of its addresses are two flows:
    # each holds half a request while the other one sends data (accepted with its own cookie, or refused), then completes
    half1, half2 = b"GET /index.html HT", b"TP/1.1\r\nHost: a\r\n\r\n"
    for key in ((0, 0), (1, 2)):
        for first_v6 in (False, True):
            a4, b4 = gens.PEER4, gens.SELF4
            a6, b6 = "::ffff:" + a4, "::ffff:" + b4
            (xs, xd), (ys, yd) = ((a6, b6), (a4, b4)) if first_v6 else ((a4, b4), (a6, b6))
            sp = rng.randrange(1024, 65536)
            x = gens.handshake(key, xs, xd, sp, 80, [half1])
            cky = net.cookie(key, ys, yd, sp, 80)
            for ack in ((cky + 1) & 0xFFFFFFFF, rng.getrandbits(32)):
                other = [net.frame_tcp(ys, yd, sp, 80, 1, 0, 0x02),
                         net.frame_tcp(ys, yd, sp, 80, 2, ack, 0x18, b"SSH-2.0-x\r\n"),
                         net.frame_tcp(ys, yd, sp, 80, 14, ack, 0x18, b"\r\n\r\n")]
                ckx = net.cookie(key, xs, xd, sp, 80)
                probe = net.frame_tcp(xs, xd, sp, 80, 1001 + len(half1), (ckx + 1) & 0xFFFFFFFF, 0x18, half2)
                yield Script(Cfg(key=key), x + other + [probe], "mapped-twin")
                yield Script(Cfg(key=key), x + other + [net.frame_tcp(ys, yd, sp, 80, 18, ack, 0x18, half2)], "mapped-twin:probe-on-twin")
    # a flow that holds state -- half a request in the parser, or a prefix too short to be identified in the buffer --
    # receives segments that are not accepted data (every control flag word, with and without payload, acknowledging the
    # cookie or not), then completes: the answer must be the one it gets without them
    for key in ((0, 0), (1, 2)):
        for v6 in (False, True):
            s, d = gens.addr_pair(v6)
            for first, rest in ((b"GET /index.html HT", b"TP/1.1\r\nHost: a\r\n\r\n"), (b"GE", b"T / HTTP/1.0\r\n\r\n"),
                                (b"\x00\x00\x00\x54\xff", gens.SMB1_NEG[5:])):
                for fl in (0x02, 0x12, 0x04, 0x14, 0x11, 0x01, 0x10, 0x42, 0x0a, 0x06, 0x03):
                    sp = rng.randrange(1024, 65536)
                    x = gens.handshake(key, s, d, sp, 445, [first])
                    ck = net.cookie(key, s, d, sp, 445)
                    ctl = [net.frame_tcp(s, d, sp, 445, 5000, a, fl, pl) for a in ((ck + 1) & 0xFFFFFFFF, 0)
                           for pl in ((b"", b"zz") if fl & 0x08 == 0 else (b"",))]
                    probe = net.frame_tcp(s, d, sp, 445, 1001 + len(first), (ck + 1) & 0xFFFFFFFF, 0x18, rest)
                    yield Script(Cfg(key=key), x + ctl + [probe], "control-between-halves %02x" % fl)
    p1, p2 = pressure_script(rng, (1, 2))
    yield p1
    yield p2


def pressure_script(rng, key):
    """Flow A leaves the first half of a request in its control block; then 66 000 OTHER flows each get one data segment
    accepted (valid cookie); then A sends the second half. Whatever the table does under that load (cap, eviction,
    flush, refusal of new entries), A's answer must be the one it gets without the other flows. Implementation against
    itself only (the extracted model's association list is quadratic at this size)."""
    s, d = gens.PEER4, gens.SELF4
    half1, half2 = b"GET /index.html HT", b"TP/1.1\r\nHost: a\r\n\r\n"
    a = gens.handshake(key, s, d, 1025, 80, [half1])
    cka = net.cookie(key, s, d, 1025, 80)
    flood = []
    for i in range(66000):
        src = "11.%d.%d.%d" % ((i >> 16) & 255, (i >> 8) & 255, i & 255)
        ck = net.cookie(key, src, d, 2000 + (i & 0x3fff), 8080)
        flood.append(net.frame_tcp(src, d, 2000 + (i & 0x3fff), 8080, 1, (ck + 1) & 0xFFFFFFFF, 0x18, b"x"))
    probe = net.frame_tcp(s, d, 1025, 80, 1001 + len(half1), (cka + 1) & 0xFFFFFFFF, 0x18, half2)
    # a NEW multi-segment flow after the flood as well (its state must be kept like any other flow's)
    b = gens.handshake(key, s, d, 1026, 80, [half1, half2])
    return Script(Cfg(key=key), a + flood + b[:-1] + [probe], "table-pressure|%d" % len(a)), \
        Script(Cfg(key=key), a + flood + b, "table-pressure-new-flow|%d" % 0)


def nontrivial(script):
    return sum(1 for f in script.frames[:-1] if (p := net.parse_frame(f)) is not None and p.proto == 6) >= 1


def project(script, i, o):
    return None


def mask(o):
    """reply frame reduced to what the properties determine (net.norm_frame), with the HTTP Date value masked: the two
    runs of a metamorphic pair may straddle a second boundary (the checksum over the Date is compared as 'valid')"""
    if o.kind != "R":
        return (o.kind,)
    return ("R",) + net.norm_frame(o.reply, runner.mask_app)


def own_bits(scripts):
    """Ask the extracted specification which history frames belong to the probe's flow / collide with it."""
    res = []
    for chunk in runner._chunks(list(scripts), 1) if False else [list(scripts)]:
        lines = []
        for s in chunk:
            lines.append(s.cfg.model_line())
            lines.append("OWN " + " ".join(f.hex() for f in [s.frames[-1]] + s.frames[:-1]))
        out = runner._run_proc([MODEL_RUN, build.ENVFILE, ""], "\n".join(lines) + "\n")
        for line in out.split("\n"):
            if line.startswith("O "):
                w = line.split()
                own = "" if w[1] == "-" else w[1]
                col = "" if w[2] == "-" else w[2]
                res.append((own, col))
    return res


def evaluate_custom(scripts, drivers):
    issues = []
    stats = {"frames": 0, "replies": 0, "silence": 0, "panics": 0, "monitor_evals": 0, "pairs": 0, "collision_cases": 0}
    pressure = [s for s in scripts if s.tag.startswith("table-pressure")]
    scripts = [s for s in scripts if not s.tag.startswith("table-pressure")]
    for s in pressure:
        k = int(s.tag.split("|")[1])
        # restricted history: the probe's own flow only (for the new-flow variant: its handshake and two halves)
        keep = s.frames[:k] + [s.frames[-1]] if k else s.frames[-3:]
        for dname, driver in drivers:
            full = runner.run_impl([s], driver)[0]
            res = runner.run_impl([Script(s.cfg, keep, s.tag + " [restricted]")], driver)[0]
            stats["frames"] += len(s.frames) + len(keep)
            stats["pairs"] += 1
            stats["monitor_evals"] += 1
            tail = len(keep) - k if k else 3            # the frames after the flood (and the probe's own earlier frames)
            diff = [j for j in range(1, tail + 1) if mask(full[-j]) != mask(res[-j])]
            pre = [j for j in range(k) if mask(full[j]) != mask(res[j])]
            if diff or pre:
                issues.append({"kind": "monitor", "script": s, "frame": len(s.frames) - 1, "driver": dname,
                               "monitor": "C08-metamorphic", "impl": full[-1].short()[:300], "model": res[-1].short()[:300],
                               "class": None, "noshrink": True})
    bits = own_bits(scripts)
    restricted = []
    for s, (own, col) in zip(scripts, bits):
        keep = [g for g, b in zip(s.frames[:-1], own) if b == "1"]
        restricted.append(Script(s.cfg, keep + [s.frames[-1]], s.tag + " [restricted]"))
    for dname, driver in drivers:
        io_full = runner.run_impl(scripts, driver)
        io_res = runner.run_impl(restricted, driver)
        mo_full = runner.run_model(scripts, io_full, ovf=(dname == "dev"))
        mo_res = runner.run_model(restricted, io_res, ovf=(dname == "dev"))
        for si, s in enumerate(scripts):
            a, b = io_full[si][-1], io_res[si][-1]
            ma, mb = mo_full[si][-1], mo_res[si][-1]
            stats["frames"] += len(s.frames) + len(restricted[si].frames)
            stats["pairs"] += 1
            stats["monitor_evals"] += 1
            stats["replies" if a.kind == "R" else "silence" if a.kind == "N" else "panics"] += 1
            collision = "1" in bits[si][1]
            stats["collision_cases"] += 1 if collision else 0
            if mask(a) != mask(b):
                issues.append({"kind": "monitor", "script": s, "frame": len(s.frames) - 1, "driver": dname,
                               "monitor": "C08-metamorphic", "impl": a.short(), "model": b.short(),
                               "class": "collision" if collision else None})
            if not collision:
                if mask(a) != mask(ma) or mask(b) != mask(mb):
                    issues.append({"kind": "correspondence", "script": s, "frame": len(s.frames) - 1, "driver": dname,
                                   "impl": repr((mask(a), mask(b))), "model": repr((mask(ma), mask(mb)))})
    return issues, stats


def known_class(issue):
    return issue.get("class")
