(* Spec/C03.v -- replies go back to the asker, from the identity that was asked. *)
From MS Require Export Bytes Types Spec.RefDec Spec.View.

(* independent reading of a STUN request: a binding request (00 01) carrying a
   CHANGE-REQUEST attribute (type 3, length >= 4) with the change-port bit *)
Fixpoint stun_has_change_port (fuel : nat) (a : bytes) : bool :=
  match fuel with
  | O => false
  | S fuel' =>
    if (length a <? 8)%nat then false
    else
      let ty := u16_at 0 a in
      let len := u16_at 2 a in
      ((ty =? 3) && (4 <=? len) && testbit (u8_at 7 a) 2) ||
      (* attributes are padded to a multiple of 4 bytes (RFC 5389, section 15) *)
      stun_has_change_port fuel' (skipn (4 + N.to_nat (((len + 3) / 4) * 4)) a)
  end.

Definition stun_change_port (payload : bytes) : bool :=
  (20 <=? length payload)%nat && (u16_at 0 payload =? 1) &&
  stun_has_change_port (length payload) (firstn (N.to_nat (u16_at 2 payload)) (skipn 20 payload)).

Definition is_stun_success (payload : bytes) : bool := (u16_at 0 payload =? 257).

Definition ports_ok (req_sport req_dport : N) (req_payload : bytes)
                    (r_sport r_dport : N) (r_payload : bytes) : bool :=
  (r_dport =? req_sport) &&
  (if stun_change_port req_payload && is_stun_success r_payload
   then r_sport =? wrap16 (req_dport + 1)
   else r_sport =? req_dport).

(* TCP: the handler of a flow is given the segment that completes a protocol signature
   joined to the bytes the flow sent before (proto::repl keeps them, bounded), so whether a
   STUN request carries the change-port bit cannot be read off the answered segment alone.
   The reading that does not depend on the state of the flow: the reply leaves from the
   port that was contacted, or, when it is a STUN success response, from the next port. *)
Definition ports_ok_tcp (req_sport req_dport : N)
                        (r_sport r_dport : N) (r_payload : bytes) : bool :=
  (r_dport =? req_sport) &&
  ((r_sport =? req_dport) || (is_stun_success r_payload && (r_sport =? wrap16 (req_dport + 1)))).

(* [strict]: read the TCP ports against the answered segment alone, as for UDP (exact for
   flows that have no bytes pending) *)
Definition ok_C03_gen (strict : bool) (cfg : config) (f : bytes) (r : option bytes) : bool :=
  match r with
  | None => true
  | Some rf =>
    match dec_eth rf with
    | None => false
    | Some e =>
      bytes_eqb (de_src e) (c_mac cfg) &&
      bytes_eqb (de_dst e) (firstn 6 (skipn 6 f)) &&
      (de_type e =? u16_at 12 f) &&
      (if de_type e =? 2054 then true
       else
         match dec_ip e, view cfg f with
         | Some i, Some v =>
           Bool.eqb (di_v4 i) (v_v4 v) &&
           (di_proto i =? v_proto v) &&
           bytes_eqb (di_dst i) (v_src v) &&
           (* neighbour discovery: answered from the solicited target *)
           (if negb (v_v4 v) && (v_proto v =? 58) && (u8_at 0 (v_l4 v) =? 135)
            then bytes_eqb (di_src i) (firstn 16 (skipn 8 (v_l4 v)))
            else bytes_eqb (di_src i) (v_dst v)) &&
           (if v_proto v =? 6 then
              match dec_tcp (di_payload i) with
              | Some t =>
                if strict
                then ports_ok (u16_at 0 (v_l4 v)) (u16_at 2 (v_l4 v)) (tcp_payload (v_l4 v))
                              (dt_sport t) (dt_dport t) (dt_payload t)
                else ports_ok_tcp (u16_at 0 (v_l4 v)) (u16_at 2 (v_l4 v))
                                  (dt_sport t) (dt_dport t) (dt_payload t)
              | None => false
              end
            else if v_proto v =? 17 then
              match dec_udp (di_payload i) with
              | Some u => ports_ok (u16_at 0 (v_l4 v)) (u16_at 2 (v_l4 v)) (skipn 8 (v_l4 v))
                                   (du_sport u) (du_dport u) (du_payload u)
              | None => false
              end
            else true)
         | _, _ => false
         end)
    end
  end.

Definition ok_C03 : config -> bytes -> option bytes -> bool := ok_C03_gen false.
Definition ok_C03_strict : config -> bytes -> option bytes -> bool := ok_C03_gen true.
