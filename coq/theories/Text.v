(* Text.v -- decimal / hexadecimal rendering and the textual form of IP
   addresses as produced by Rust's Display implementations. *)
From MS Require Export Bytes Types.

Fixpoint dec_digits_aux (fuel : nat) (n : N) (acc : bytes) : bytes :=
  match fuel with
  | O => acc
  | S fuel' =>
    let acc' := (48 + n mod 10) :: acc in
    if n <? 10 then acc' else dec_digits_aux fuel' (n / 10) acc'
  end.
(* 40 digits are enough for any value below 2^128 *)
Definition dec_digits (n : N) : bytes := dec_digits_aux 40 n [].

Definition hex_digit (d : N) : N := if d <? 10 then 48 + d else 87 + d.
Fixpoint hex_digits_aux (fuel : nat) (n : N) (acc : bytes) : bytes :=
  match fuel with
  | O => acc
  | S fuel' =>
    let acc' := hex_digit (n mod 16) :: acc in
    if n <? 16 then acc' else hex_digits_aux fuel' (n / 16) acc'
  end.
Definition hex_digits (n : N) : bytes := hex_digits_aux 32 n [].

Definition DOT : N := 46.
Definition COLON : N := 58.

Fixpoint join (sep : N) (l : list bytes) : bytes :=
  match l with
  | [] => []
  | [x] => x
  | x :: t => x ++ sep :: join sep t
  end.

Definition render_ipv4 (o : bytes) : bytes := join DOT (map dec_digits o).

Fixpoint segments (o : bytes) : list N :=
  match o with
  | a :: b :: t => (a * 256 + b) :: segments t
  | _ => []
  end.

(* longest run of zero segments: (start, len), first longest wins *)
Fixpoint zero_run (l : list N) (idx : nat) (cur_start cur_len best_start best_len : nat) : nat * nat :=
  match l with
  | [] => (best_start, best_len)
  | x :: t =>
    if x =? 0 then
      let cs := if (cur_len =? 0)%nat then idx else cur_start in
      let cl := S cur_len in
      if (best_len <? cl)%nat then zero_run t (S idx) cs cl cs cl
      else zero_run t (S idx) cs cl best_start best_len
    else zero_run t (S idx) 0%nat 0%nat best_start best_len
  end.

Definition render_ipv6 (o : bytes) : bytes :=
  let segs := segments o in
  (* IPv4-mapped: ::ffff:a.b.c.d *)
  if forallb (fun x => x =? 0) (firstn 5 segs) && (nth 5 segs 0 =? 65535) then
    [COLON; COLON; 102; 102; 102; 102; COLON] ++ render_ipv4 (skipn 12 o)
  else
    let '(zs, zl) := zero_run segs 0 0 0 0 0 in
    if (1 <? zl)%nat then
      join COLON (map hex_digits (firstn zs segs)) ++ [COLON; COLON] ++
      join COLON (map hex_digits (skipn (zs + zl) segs))
    else join COLON (map hex_digits segs).

Definition render_ip (a : ipaddr) : bytes :=
  match a with V4 o => render_ipv4 o | V6 o => render_ipv6 o end.
