(* Proofs/ClockIndepExamples.v -- Spec/ClockIndep.v on the data of the current implementation
   ([the_env]): the template condition of the masks holds; an HTTP request over TCP (SYN, then the
   request acknowledging the SYN cookie) and SMB1 / SMB2 negotiate requests answered under two
   clocks a day apart: same table, same events, replies that differ in the TCP checksum and in the
   clock field only; and the frame that shows that the side condition of the state theorem
   cannot be dropped. *)
From MS Require Import Proofs.Tactics Proto L4 L2 Instance Proofs.FrameBuild Proofs.C17Examples Spec.ClockIndep.
Open Scope N_scope.

Lemma current_http_tpl_ok : http_tpl_ok the_env = true.
Proof. vm_compute. reflexivity. Qed.

(* "Thu, 01 Oct 2026 10:00:00 GMT" / "Fri, 02 Oct 2026 09:59:59 GMT"; FILETIME of these instants *)
Definition x_clk1 : clock :=
  {| clk_date := [84; 104; 117; 44; 32; 48; 49; 32; 79; 99; 116; 32; 50; 48; 50; 54; 32; 49; 48; 58; 48; 48; 58; 48; 48; 32; 71; 77; 84];
     clk_filetime := 134037720000000000 |}.
Definition x_clk2 : clock :=
  {| clk_date := [70; 114; 105; 44; 32; 48; 50; 32; 79; 99; 116; 32; 50; 48; 50; 54; 32; 48; 57; 58; 53; 57; 58; 53; 57; 32; 71; 77; 84];
     clk_filetime := 134038583990000000 |}.

Lemma x_clocks_ok :
  clock_ok the_env x_clk1 = true /\ clock_ok the_env x_clk2 = true /\
  date_clean x_clk1 = true /\ date_clean x_clk2 = true /\
  length (clk_date x_clk1) = length (clk_date x_clk2) /\ length (c_mac fx_cfg) = 6%nat /\
  clocks_compat the_env x_clk1 x_clk2 = true.
Proof. vm_compute. repeat split; reflexivity. Qed.

(* "GET / HTTP/1.0\n\n" *)
Definition x_get : bytes := [71; 69; 84; 32; 47; 32; 72; 84; 84; 80; 47; 49; 46; 48; 10; 10].

(* a flow: SYN, then one data segment carrying [p] *)
Definition x_flow (v4 : bool) (dport : N) (p : bytes) : list bytes :=
  [fx_syn v4 40000 dport 1000; fx_data v4 40000 dport 1001 p].

(* the two runs of a flow, one clock per frame, the second run a day later; the check: same
   final table; same SYN-ACK; same events for the data segment; the two data replies are
   different, have the same length, are equal outside [lo, lo+n) and the two checksum bytes at
   [ck], carry the clock values [v1] / [v2] at [lo]; and are equal once masked *)
Definition x_check (v4 : bool) (dport : N) (p : bytes) (ck lo n : nat) (v1 v2 : bytes) : bool :=
  let '(tb1, os1) := run the_env fx_cfg [x_clk1; x_clk1] (x_flow v4 dport p) [] in
  let '(tb2, os2) := run the_env fx_cfg [x_clk2; x_clk2] (x_flow v4 dport p) [] in
  match os1, os2 with
  | [OFrame (Some s1) es1; OFrame (Some r1) e1], [OFrame (Some s2) es2; OFrame (Some r2) e2] =>
    bytes_eqb s1 s2 && (length e1 =? length e2)%nat && (length tb1 =? 1)%nat &&
    negb (bytes_eqb r1 r2) && (length r1 =? length r2)%nat &&
    bytes_eqb (firstn ck r1) (firstn ck r2) &&
    bytes_eqb (slice (ck + 2) (lo - (ck + 2)) r1) (slice (ck + 2) (lo - (ck + 2)) r2) &&
    bytes_eqb (slice lo n r1) v1 && bytes_eqb (slice lo n r2) v2 &&
    bytes_eqb (skipn (lo + n) r1) (skipn (lo + n) r2) &&
    bytes_eqb (mask_frame r1) (mask_frame r2) &&
    bytes_eqb (slice lo n (mask_frame r1)) (repeat 0 n)
  | _, _ => false
  end.

(* HTTP over TCP/IPv4 and TCP/IPv6: the Date value (29 bytes after Ethernet 14 + IP 20|40 +
   TCP 20 + 53 bytes of template) *)
Example ex_http_tcp4 : x_check true 80 x_get 50 (54 + length (e_http_pre the_env)) 29 (clk_date x_clk1) (clk_date x_clk2) = true.
Proof. vm_compute. reflexivity. Qed.
Example ex_http_tcp6 : x_check false 80 x_get 70 (74 + length (e_http_pre the_env)) 29 (clk_date x_clk1) (clk_date x_clk2) = true.
Proof. vm_compute. reflexivity. Qed.

(* SMB2 negotiate: SystemTime and ServerStartTime, 16 bytes at 108 of the payload;
   SMB1 negotiate: SystemTime, 8 bytes at 60 *)
Example ex_smb2_tcp4 :
  x_check true 445 x_smb2_req_negotiate 50 (54 + 108) 16
          (le64 (clk_filetime x_clk1) ++ le64 (clk_filetime x_clk1))
          (le64 (clk_filetime x_clk2) ++ le64 (clk_filetime x_clk2)) = true.
Proof. vm_compute. reflexivity. Qed.
Example ex_smb1_tcp4 :
  x_check true 445 x_smb1_req_negotiate 50 (54 + 60) 8
          (le64 (clk_filetime x_clk1)) (le64 (clk_filetime x_clk2)) = true.
Proof. vm_compute. reflexivity. Qed.

(* the events are equal as values, the tables too (not only in size) *)
Example ex_http_state :
  fst (run the_env fx_cfg [x_clk1; x_clk1] (x_flow true 80 x_get) []) =
  fst (run the_env fx_cfg [x_clk2; x_clk2] (x_flow true 80 x_get) []) /\
  map (fun o => match o with OFrame _ e => e | OPanic _ => [] end)
      (snd (run the_env fx_cfg [x_clk1; x_clk1] (x_flow true 80 x_get) [])) =
  map (fun o => match o with OFrame _ e => e | OPanic _ => [] end)
      (snd (run the_env fx_cfg [x_clk2; x_clk2] (x_flow true 80 x_get) [])).
Proof. vm_compute. split; reflexivity. Qed.

(* ---- the side condition of the state theorem is needed ----
   HTTP over UDP/IPv4: with a Date value so long that the page does not fit in a datagram the
   u16 conversion of the IPv4 UDP path panics (site 301), with a real one the page is sent. *)
Definition x_clk_long : clock := {| clk_date := repeat 65 (N.to_nat 65500); clk_filetime := 0 |}.

Theorem clock_panic_witness : clock_panic_stmt the_env.
Proof.
  exists fx_cfg, x_clk1, x_clk_long, (fx_udp true 40000 80 x_get).
  eexists _, _, _, _. split; vm_compute; reflexivity.
Qed.

Example ex_long_not_ok : clock_ok the_env x_clk_long = false /\ clocks_compat the_env x_clk1 x_clk_long = false.
Proof. vm_compute. split; reflexivity. Qed.

(* ---- Date values of different lengths ----
   what the implementation's formatter (chrono to_rfc2822) writes on the 2nd and on the 10th of
   a month: "Fri, 2 Oct 2026 09:59:59 +0000" (30 bytes) and "Sat, 10 Oct 2026 10:00:00 +0000" (31 bytes).
   The two 401 frames differ in length by one; they are equal once normalised, not once masked. *)
Definition x_clk3 : clock := {| clk_date := [70; 114; 105; 44; 32; 50; 32; 79; 99; 116; 32; 50; 48; 50; 54; 32; 48; 57; 58; 53; 57; 58; 53; 57; 32; 43; 48; 48; 48; 48]; clk_filetime := 134038583990000000 |}.
Definition x_clk4 : clock := {| clk_date := [83; 97; 116; 44; 32; 49; 48; 32; 79; 99; 116; 32; 50; 48; 50; 54; 32; 49; 48; 58; 48; 48; 58; 48; 48; 32; 43; 48; 48; 48; 48]; clk_filetime := 134045496000000000 |}.

Definition x_check_norm (v4 tcp : bool) : bool :=
  let fs := if tcp then x_flow v4 80 x_get else [fx_udp v4 40000 80 x_get; fx_udp v4 40000 80 x_get] in
  let '(tb1, os1) := run the_env fx_cfg [x_clk3; x_clk3] fs [] in
  let '(tb2, os2) := run the_env fx_cfg [x_clk4; x_clk4] fs [] in
  match os1, os2 with
  | [OFrame (Some s1) es1; OFrame (Some r1) e1], [OFrame (Some s2) es2; OFrame (Some r2) e2] =>
    (length tb1 =? length tb2)%nat && (length e1 =? length e2)%nat &&
    (S (length r1) =? length r2)%nat &&
    bytes_eqb (norm_frame r1) (norm_frame r2) && negb (bytes_eqb (mask_frame r1) (mask_frame r2)) &&
    (let d := (length r1 - length (norm_frame r1))%nat in (d =? 30)%nat || (d =? 31)%nat)
    (* the 30 bytes of the value, and the space after "Date:" when the template's prefix stops before it *)
  | _, _ => false
  end.

Example ex_norm :
  date_clean x_clk3 = true /\ date_clean x_clk4 = true /\ clocks_compat the_env x_clk3 x_clk4 = true /\
  x_check_norm true true = true /\ x_check_norm false true = true /\
  x_check_norm true false = true /\ x_check_norm false false = true.
Proof. vm_compute. repeat split; reflexivity. Qed.
