(* Inflate.v -- a reference decoder for the zlib container (RFC 1950) around a
   DEFLATE stream (RFC 1951): stored, fixed-Huffman and dynamic-Huffman blocks,
   Adler-32 trailer. Written from the two RFCs (the canonical-code decoder
   follows the counting method of section 3.2.2); it is used only by the
   specification of C18 (the Gh0st frame the responder emits carries a zlib
   body produced by flate2 in the implementation). Fuel-bounded, total,
   executable by vm_compute and by extraction. Definitions only. *)
From MS Require Export Bytes.

(* ---- bit reader: bits of the byte being read (least significant first),
   then the bytes not yet touched ---- *)
Record bitstream := { bs_cur : list bool; bs_rest : bytes }.

Definition byte_bits (b : N) : list bool :=
  map (fun i => N.testbit b i) [0; 1; 2; 3; 4; 5; 6; 7].

Definition get_bit (s : bitstream) : option (bool * bitstream) :=
  match bs_cur s with
  | b :: c => Some (b, {| bs_cur := c; bs_rest := bs_rest s |})
  | [] =>
    match bs_rest s with
    | [] => None
    | x :: r =>
      match byte_bits x with
      | b :: c => Some (b, {| bs_cur := c; bs_rest := r |})
      | [] => None
      end
    end
  end.

(* n bits, first bit read = least significant (RFC 1951, 3.1.1) *)
Fixpoint get_bits (n : nat) (s : bitstream) : option (N * bitstream) :=
  match n with
  | O => Some (0, s)
  | S k =>
    match get_bit s with
    | None => None
    | Some (b, s1) =>
      match get_bits k s1 with
      | None => None
      | Some (v, s2) => Some ((if b then 1 else 0) + 2 * v, s2)
      end
    end
  end.

(* ---- canonical Huffman codes from code lengths (3.2.2) ---- *)
Record huff := {
  h_count : list N;    (* number of codes of each length 1 .. 15 *)
  h_syms : list N      (* symbols ordered by (code length, symbol value) *)
}.

Definition LENS_1_15 : list N := [1; 2; 3; 4; 5; 6; 7; 8; 9; 10; 11; 12; 13; 14; 15].

Definition count_len (lens : list N) (l : N) : N :=
  N.of_nat (length (filter (fun x => x =? l) lens)).

Definition syms_of_len (lens : list N) (l : N) : list N :=
  map fst (filter (fun p => snd p =? l) (combine (map N.of_nat (seq 0 (length lens))) lens)).

Definition huff_build (lens : list N) : huff :=
  {| h_count := map (count_len lens) LENS_1_15;
     h_syms := flat_map (syms_of_len lens) LENS_1_15 |}.

(* code space left after assigning the codes, length by length: None = the
   lengths over-subscribe the code space, Some 0 = complete, Some (>0) = incomplete *)
Fixpoint huff_left (counts : list N) (room : N) : option N :=
  match counts with
  | [] => Some room
  | c :: r => if 2 * room <? c then None else huff_left r (2 * room - c)
  end.

(* complete, or (the one tolerated incomplete case) every used code has length 1 *)
Definition huff_ok (lens : list N) (allow_single : bool) : bool :=
  match huff_left (h_count (huff_build lens)) 1 with
  | None => false
  | Some room =>
    (room =? 0) ||
    (allow_single && (N.of_nat (length lens) =? count_len lens 0 + count_len lens 1))
  end.

(* decode one symbol, reading one bit per code length *)
Fixpoint huff_dec (counts syms : list N) (code first index : N) (s : bitstream)
  : option (N * bitstream) :=
  match counts with
  | [] => None
  | c :: r =>
    match get_bit s with
    | None => None
    | Some (b, s1) =>
      let code := code + (if b then 1 else 0) in
      if code <? first + c then
        match nth_error syms (N.to_nat (index + (code - first))) with
        | Some sym => Some (sym, s1)
        | None => None
        end
      else huff_dec r syms (2 * code) (2 * (first + c)) (index + c) s1
    end
  end.

Definition huff_decode (h : huff) (s : bitstream) : option (N * bitstream) :=
  huff_dec (h_count h) (h_syms h) 0 0 0 s.

(* ---- length / distance alphabets (3.2.5) ---- *)
Definition LBASE : list N :=
  [3; 4; 5; 6; 7; 8; 9; 10; 11; 13; 15; 17; 19; 23; 27; 31; 35; 43; 51; 59; 67; 83; 99; 115;
   131; 163; 195; 227; 258].
Definition LEXT : list nat :=
  [0; 0; 0; 0; 0; 0; 0; 0; 1; 1; 1; 1; 2; 2; 2; 2; 3; 3; 3; 3; 4; 4; 4; 4; 5; 5; 5; 5; 0]%nat.
Definition DBASE : list N :=
  [1; 2; 3; 4; 5; 7; 9; 13; 17; 25; 33; 49; 65; 97; 129; 193; 257; 385; 513; 769; 1025; 1537;
   2049; 3073; 4097; 6145; 8193; 12289; 16385; 24577].
Definition DEXT : list nat :=
  [0; 0; 0; 0; 1; 1; 2; 2; 3; 3; 4; 4; 5; 5; 6; 6; 7; 7; 8; 8; 9; 9; 10; 10; 11; 11; 12; 12;
   13; 13]%nat.

(* the output is kept reversed (most recent byte first); copy n bytes from
   distance d, byte by byte (overlap allowed) *)
Fixpoint lz_copy (n d : nat) (out : bytes) : option bytes :=
  match n with
  | O => Some out
  | S k =>
    match nth_error out (pred d) with
    | Some b => lz_copy k d (b :: out)
    | None => None
    end
  end.

Fixpoint inflate_codes (fuel : nat) (lc dc : huff) (wmax : N) (out : bytes) (s : bitstream)
  : option (bytes * bitstream) :=
  match fuel with
  | O => None
  | S f =>
    match huff_decode lc s with
    | None => None
    | Some (sym, s1) =>
      if sym <? 256 then inflate_codes f lc dc wmax (sym :: out) s1
      else if sym =? 256 then Some (out, s1)
      else
        match nth_error LBASE (N.to_nat (sym - 257)), nth_error LEXT (N.to_nat (sym - 257)) with
        | Some lb, Some le =>
          match get_bits le s1 with
          | None => None
          | Some (ev, s2) =>
            match huff_decode dc s2 with
            | None => None
            | Some (dsym, s3) =>
              match nth_error DBASE (N.to_nat dsym), nth_error DEXT (N.to_nat dsym) with
              | Some db, Some de =>
                match get_bits de s3 with
                | None => None
                | Some (dv, s4) =>
                  let dist := db + dv in
                  if (dist =? 0) || (N.of_nat (length out) <? dist) || (wmax <? dist) then None
                  else
                    match lz_copy (N.to_nat (lb + ev)) (N.to_nat dist) out with
                    | Some out' => inflate_codes f lc dc wmax out' s4
                    | None => None
                    end
                end
              | _, _ => None
              end
            end
          end
        | _, _ => None
        end
    end
  end.

(* ---- block types ---- *)
(* stored (3.2.4): skip to the byte boundary, LEN, NLEN = one's complement, LEN bytes *)
Definition inflate_stored (out : bytes) (s : bitstream) : option (bytes * bitstream) :=
  match bs_rest s with
  | l0 :: l1 :: n0 :: n1 :: r =>
    let len := l0 + 256 * l1 in
    let nlen := n0 + 256 * n1 in
    if negb (len + nlen =? 65535) then None
    else if N.of_nat (length r) <? len then None
    else Some (rev (firstn (N.to_nat len) r) ++ out,
               {| bs_cur := []; bs_rest := skipn (N.to_nat len) r |})
  | _ => None
  end.

(* fixed codes (3.2.6) *)
Definition FIXED_LIT_LENS : list N :=
  repeat 8 144 ++ repeat 9 112 ++ repeat 7 24 ++ repeat 8 8.
Definition FIXED_DIST_LENS : list N := repeat 5 32.

(* dynamic codes (3.2.7) *)
Definition CL_ORDER : list N :=
  [16; 17; 18; 0; 8; 7; 9; 6; 10; 5; 11; 4; 12; 3; 13; 2; 14; 1; 15].

Fixpoint read_n_bits (k : nat) (width : nat) (s : bitstream) : option (list N * bitstream) :=
  match k with
  | O => Some ([], s)
  | S k' =>
    match get_bits width s with
    | None => None
    | Some (v, s1) =>
      match read_n_bits k' width s1 with
      | None => None
      | Some (l, s2) => Some (v :: l, s2)
      end
    end
  end.

(* the length assigned to code-length symbol [sym], given the lengths in
   transmission order *)
Fixpoint cl_lookup (order vals : list N) (sym : N) : N :=
  match order, vals with
  | o :: order', v :: vals' => if o =? sym then v else cl_lookup order' vals' sym
  | _, _ => 0
  end.

(* the literal/length + distance code lengths, run-length coded; [acc] reversed *)
Fixpoint read_lens (fuel : nat) (h : huff) (total : nat) (acc : list N) (s : bitstream)
  : option (list N * bitstream) :=
  if (total <=? length acc)%nat then
    if (length acc =? total)%nat then Some (rev acc, s) else None
  else
    match fuel with
    | O => None
    | S f =>
      match huff_decode h s with
      | None => None
      | Some (sym, s1) =>
        if sym <? 16 then read_lens f h total (sym :: acc) s1
        else
          let '(prev_ok, prev, base, width) :=
            if sym =? 16 then
              (match acc with [] => false | _ => true end, hd 0 acc, 3%nat, 2%nat)
            else if sym =? 17 then (true, 0, 3%nat, 3%nat)
            else (true, 0, 11%nat, 7%nat) in
          if negb prev_ok || (18 <? sym) then None
          else
            match get_bits width s1 with
            | None => None
            | Some (v, s2) =>
              let rep := (base + N.to_nat v)%nat in
              if (total <? length acc + rep)%nat then None
              else read_lens f h total (repeat prev rep ++ acc) s2
            end
      end
    end.

Definition inflate_dynamic_tables (s : bitstream) : option (huff * huff * bitstream) :=
  match get_bits 5 s with
  | None => None
  | Some (hlit, s1) =>
    match get_bits 5 s1 with
    | None => None
    | Some (hdist, s2) =>
      match get_bits 4 s2 with
      | None => None
      | Some (hclen, s3) =>
        let nlen := (N.to_nat hlit + 257)%nat in
        let ndist := (N.to_nat hdist + 1)%nat in
        if (286 <? nlen)%nat || (30 <? ndist)%nat then None
        else
          match read_n_bits (N.to_nat hclen + 4)%nat 3 s3 with
          | None => None
          | Some (cl, s4) =>
            let cl_lens := map (cl_lookup CL_ORDER cl) (map N.of_nat (seq 0 19)) in
            if negb (huff_ok cl_lens false) then None
            else
              match read_lens (nlen + ndist)%nat (huff_build cl_lens) (nlen + ndist)%nat [] s4 with
              | None => None
              | Some (lens, s5) =>
                let ll := firstn nlen lens in
                let dl := skipn nlen lens in
                if nth 256 ll 0 =? 0 then None              (* no end-of-block code *)
                else if negb (huff_ok ll true) || negb (huff_ok dl true) then None
                else Some (huff_build ll, huff_build dl, s5)
              end
          end
      end
    end
  end.

Fixpoint inflate_blocks (fuel : nat) (wmax : N) (out : bytes) (s : bitstream)
  : option (bytes * bitstream) :=
  match fuel with
  | O => None
  | S f =>
    match get_bit s with
    | None => None
    | Some (bfinal, s1) =>
      match get_bits 2 s1 with
      | None => None
      | Some (btype, s2) =>
        let blk :=
          if btype =? 0 then inflate_stored out s2
          else if btype =? 1 then
            inflate_codes (S f) (huff_build FIXED_LIT_LENS) (huff_build FIXED_DIST_LENS) wmax out s2
          else if btype =? 2 then
            match inflate_dynamic_tables s2 with
            | Some (lc, dc, s3) => inflate_codes (S f) lc dc wmax out s3
            | None => None
            end
          else None in
        match blk with
        | None => None
        | Some (out', s') => if bfinal then Some (out', s') else inflate_blocks f wmax out' s'
        end
      end
    end
  end.

(* every block consumes at least 3 bits and every symbol at least 1 *)
Definition inflate_fuel (z : bytes) : nat := S (8 * length z)%nat.

(* raw DEFLATE: the data and the bytes after the last (partially used) byte *)
Definition inflate_raw (wmax : N) (z : bytes) : option (bytes * bytes) :=
  match inflate_blocks (inflate_fuel z) wmax [] {| bs_cur := []; bs_rest := z |} with
  | Some (out, s) => Some (rev out, bs_rest s)
  | None => None
  end.

(* ---- Adler-32 (RFC 1950, 8.2) ---- *)
Definition adler_step (ab : N * N) (x : N) : N * N :=
  let a := (fst ab + x) mod 65521 in (a, (snd ab + a) mod 65521).
Definition adler32 (d : bytes) : N :=
  let '(a, b) := fold_left adler_step d (1, 0) in b * 65536 + a.

(* ---- zlib container (RFC 1950, 2.2): CM = 8, CINFO <= 7, FCHECK, no preset
   dictionary; the Adler-32 of the data follows the DEFLATE stream, big endian.
   Returns the data and the bytes that follow the trailer. ---- *)
Definition zlib_decode (z : bytes) : option (bytes * bytes) :=
  match z with
  | cmf :: flg :: body =>
    if (cmf mod 16 =? 8) && (cmf / 16 <=? 7) && ((cmf * 256 + flg) mod 31 =? 0)
       && (cmf <? 256) && (flg <? 256) && negb (N.testbit flg 5) then
      match inflate_raw (2 ^ (cmf / 16 + 8)) body with
      | Some (d, a3 :: a2 :: a1 :: a0 :: tail) =>
        if adler32 d =? ((a3 * 256 + a2) * 256 + a1) * 256 + a0 then Some (d, tail) else None
      | _ => None
      end
    else None
  | _ => None
  end.

(* the whole byte string is exactly one zlib stream *)
Definition zlib_inflate (z : bytes) : option bytes :=
  match zlib_decode z with
  | Some (d, []) => Some d
  | _ => None
  end.
