(* Http.v -- src/proto/http.rs: incremental request parser and the 401 reply. *)
From MS Require Export Bytes Res Smack.

Definition HTTP_START : N := 0.
Definition HTTP_VERB : N := 1.
Definition HTTP_SPACE : N := 2.
Definition HTTP_URI : N := 3.
Definition HTTP_H : N := 4.
Definition HTTP_SLASH : N := 8.
Definition HTTP_VMAJ : N := 9.
Definition HTTP_VMIN : N := 10.
Definition HTTP_FIELD_START : N := 32.
Definition HTTP_FIELD_NAME : N := 33.
Definition HTTP_FIELD_VALUE : N := 34.
Definition HTTP_CONTENT : N := 64.
Definition HTTP_FAIL : N := 65535.

Record http_st := {
  h_state : N;
  h_bis : N;       (* state_bis: digits seen in the current version number *)
  h_smack : N;
  h_verb : bytes;
  h_uri : bytes
}.

Definition http_new : http_st :=
  {| h_state := HTTP_START; h_bis := 0; h_smack := BASE_STATE; h_verb := []; h_uri := [] |}.

Definition set_state (s : http_st) (x : N) : http_st :=
  {| h_state := x; h_bis := h_bis s; h_smack := h_smack s; h_verb := h_verb s; h_uri := h_uri s |}.
Definition set_state_bis (s : http_st) (x b : N) : http_st :=
  {| h_state := x; h_bis := b; h_smack := h_smack s; h_verb := h_verb s; h_uri := h_uri s |}.


Definition HTTP_SLASH_STR : bytes := [72; 84; 84; 80; 47].  (* "HTTP/" *)

(* one byte in any state other than START / VERB / FAIL *)
Definition http_byte (s : http_st) (b : N) : http_st :=
  let st := h_state s in
  if st =? HTTP_SPACE then
    if b =? 32 then set_state s HTTP_URI else set_state s HTTP_FAIL
  else if st =? HTTP_URI then
    if b =? 32 then set_state s HTTP_H
    else if (b =? 13) || (b =? 10) then set_state s HTTP_FAIL
    else {| h_state := st; h_bis := h_bis s; h_smack := h_smack s; h_verb := h_verb s;
            h_uri := h_uri s ++ [b] |}
  else if (HTTP_H <=? st) && (st <=? HTTP_SLASH) then
    if b =? nth (N.to_nat (st - HTTP_H)) HTTP_SLASH_STR 0
    then set_state s (st + 1) else set_state s HTTP_FAIL
  else if st =? HTTP_VMAJ then
    if b =? 46 then (if h_bis s =? 0 then set_state s HTTP_FAIL else set_state_bis s HTTP_VMIN 0)
    else if is_digit b then set_state_bis s st 1
    else set_state s HTTP_FAIL
  else if st =? HTTP_VMIN then
    if b =? 13 then s
    else if b =? 10 then (if h_bis s =? 0 then set_state s HTTP_FAIL else set_state_bis s HTTP_FIELD_START 0)
    else if is_digit b then set_state_bis s st 1
    else set_state s HTTP_FAIL
  else if st =? HTTP_FIELD_START then
    if b =? 13 then s
    else if b =? 10 then set_state_bis s HTTP_CONTENT 0
    else set_state_bis s HTTP_FIELD_NAME 0
  else if st =? HTTP_FIELD_NAME then
    if (b =? 13) || (b =? 10) then set_state s HTTP_FAIL
    else if b =? 58 then set_state s HTTP_FIELD_VALUE
    else s
  else if st =? HTTP_FIELD_VALUE then
    if b =? 13 then s
    else if b =? 10 then set_state s HTTP_FIELD_START
    else s
  else s.   (* CONTENT and anything else: ignore *)

(* the VERB state hands the rest of the buffer to the verb matcher *)
Definition http_verb_step (tbl : smack) (s : http_st) (data : bytes) : http_st * nat :=
  let '(id, sm, n) := search_next tbl (h_smack s) data in
  let s1 := {| h_state := h_state s; h_bis := h_bis s; h_smack := sm;
               h_verb := h_verb s ++ firstn n data; h_uri := h_uri s |} in
  match id with
  | Some 0 => (set_state s1 HTTP_SPACE, n)
  | None => if sm =? UNANCHORED_STATE then (set_state s1 HTTP_FAIL, n) else (s1, n)
  | Some _ => (s1, n)
  end.

Definition PANIC_HTTP_VERB_ADVANCE : N := 101.

Fixpoint http_loop (tbl : smack) (fuel : nat) (s : http_st) (data : bytes) : res http_st :=
  match fuel with
  | O => Ok s
  | S fuel' =>
    match data with
    | [] => Ok s
    | b :: rest =>
      if h_state s =? HTTP_START then http_loop tbl fuel' (set_state s HTTP_VERB) data
      else if h_state s =? HTTP_VERB then
        let '(s', n) := http_verb_step tbl s data in
        match n with
        | O => Panic PANIC_HTTP_VERB_ADVANCE   (* `i -= 1` with nothing consumed *)
        | S _ => http_loop tbl fuel' s' (skipn n data)
        end
      else if h_state s =? HTTP_FAIL then Ok s
      else http_loop tbl fuel' (http_byte s b) rest
    end
  end.

Definition http_parse (tbl : smack) (s : http_st) (data : bytes) : res http_st :=
  http_loop tbl (S (S (length data))) s data.

(* the reply: template split at the Date value (gen/Consts.v) *)
Definition http_response (pre post date : bytes) : bytes := pre ++ date ++ post.

Definition http_repl (tbl : smack) (pre post date : bytes) (s : http_st) (data : bytes)
  : res (http_st * option bytes) :=
  do s' <- http_parse tbl s data;
  (* once the request is answered, what follows on the flow is parsed as a new request *)
  if h_state s' =? HTTP_CONTENT then Ok (http_new, Some (http_response pre post date))
  else Ok (s', None).
