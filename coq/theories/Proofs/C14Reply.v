(* C14Reply.v -- the DNS responder (dns_repl) and the datagram fallback of proto::repl
   (proto_repl_udp) against Spec/C14.v: the expected answer for every well-formed
   IN/A query, silence for non-IN/A questions, truncated messages and responses, and
   the payload-level monitor on every payload. *)
From MS Require Import Proofs.Tactics Dns Proto Spec.RefDns Spec.C14 Spec.AppView Proofs.C14Ref Proofs.C14Sim.

(* ---- boolean equalities are reflexive ---- *)
Lemma bytes_eqb_refl (a : bytes) : bytes_eqb a a = true.
Proof. apply bytes_eqb_eq. reflexivity. Qed.
Lemma name_eqb_refl (a : dname) : name_eqb a a = true.
Proof. unfold name_eqb. induction a as [|l a IH]; cbn [list_eqb2]; [reflexivity|]. rewrite bytes_eqb_refl, IH. reflexivity. Qed.
Lemma question_eqb_refl (a : dquestion) : question_eqb a a = true.
Proof. unfold question_eqb. rewrite name_eqb_refl, !N.eqb_refl. reflexivity. Qed.
Lemma questions_eqb_refl (l : list dquestion) : list_eqb2 question_eqb l l = true.
Proof. induction l as [|a l IH]; cbn [list_eqb2]; [reflexivity|]. rewrite question_eqb_refl, IH. reflexivity. Qed.

(* ---- the flag word of the answer ---- *)
Lemma answer_flags_bytes (fl : N) :
  be16 (answer_flags fl) = [128 + ((fl / 2048) mod 16) * 8 + 4 + (fl / 256) mod 2; 0].
Proof. unfold answer_flags, be16, QR_BIT, opcode_of, rd_of. f_equal; [|f_equal]; lia. Qed.
Lemma answer_flags_lt (fl : N) : answer_flags fl < 65536.
Proof. unfold answer_flags, QR_BIT, opcode_of, rd_of. lia. Qed.
Lemma answer_flags_qr (fl : N) : qr_of (answer_flags fl) = 1.
Proof. unfold qr_of, answer_flags, QR_BIT, opcode_of, rd_of. lia. Qed.
Lemma answer_flags_opcode (fl : N) : opcode_of (answer_flags fl) = opcode_of fl.
Proof. unfold answer_flags, QR_BIT, opcode_of, rd_of. lia. Qed.
Lemma answer_flags_rd (fl : N) : rd_of (answer_flags fl) = rd_of fl.
Proof. unfold answer_flags, QR_BIT, opcode_of, rd_of. lia. Qed.

(* ---- the answer is a well-formed message that satisfies the property's relation ---- *)
Definition dst_ok (d : bytes) : Prop := length d = 4%nat /\ bytes_ok d = true.

Lemma answer_wf (q : dquery) (d : bytes) : query_wf q = true -> dst_ok d -> msg_wf (answer q d) = true.
Proof.
  intros H [Hl Hb]. apply query_wf_inv in H. destruct H as (H1 & H2 & H3 & H4).
  unfold msg_wf, answer. cbn [m_id m_flags m_qd m_an m_ns m_ar forallb]. rewrite H3.
  pose proof (answer_flags_lt (k_flags q)) as Hf.
  assert (cnt (map (answer_rr_of d) (k_qd q)) = cnt (k_qd q)) as -> by (unfold cnt; rewrite map_length; reflexivity).
  assert (forallb rr_wf (map (answer_rr_of d) (k_qd q)) = true) as ->.
  { clear H4. induction (k_qd q) as [|x l IH]; cbn [map forallb]; [reflexivity|].
    cbn [forallb] in H3. apply andb_true_iff in H3. destruct H3 as [Hx Hl'].
    rewrite (IH Hl'). apply question_wf_inv in Hx. destruct Hx as (Hn & _ & _).
    unfold rr_wf, answer_rr_of. cbn [ro rt rc rttl rdata]. rewrite Hn, Hb. unfold lenN. rewrite Hl. reflexivity. }
  change (cnt (@nil drr)) with 0. cbn [andb].
  replace (k_id q <? 65536) with true by lia. replace (answer_flags (k_flags q) <? 65536) with true by lia.
  replace (cnt (k_qd q) <? 65536) with true by lia. reflexivity.
Qed.

Lemma answer_resp_ok (q : dquery) (d : bytes) : length d = 4%nat -> resp_ok q d (answer q d) = true.
Proof.
  intros Hl. unfold resp_ok, answer. cbn [m_id m_flags m_qd m_an m_ns m_ar is_nil].
  rewrite answer_flags_qr, answer_flags_opcode, answer_flags_rd, !N.eqb_refl, questions_eqb_refl.
  assert (list_eqb2 (answer_rr_ok d) (k_qd q) (map (answer_rr_of d) (k_qd q)) = true) as ->; [|reflexivity].
  induction (k_qd q) as [|x l IH]; cbn [map list_eqb2]; [reflexivity|]. rewrite IH.
  unfold answer_rr_ok, answer_rr_of. cbn [ro rt rc rdata]. rewrite name_eqb_refl, bytes_eqb_refl.
  unfold lenN. rewrite Hl. reflexivity.
Qed.

(* the bytes of the answer: header, the query's question section, one record per question *)
Lemma answer_bytes (q : dquery) (d : bytes) :
  ser_dns (answer q d) =
  be16 (k_id q) ++ be16 (answer_flags (k_flags q)) ++ be16 (cnt (k_qd q)) ++ be16 (cnt (k_qd q)) ++ [0; 0; 0; 0] ++
  skipn 12 (ser_query q) ++
  concat (map (fun x => ser_name (qn x) ++ [0; 1; 0; 1; 0; 0; 168; 192] ++ be16 (lenN d) ++ d) (k_qd q)).
Proof.
  unfold ser_dns, ser_query, ser_header, answer. cbn [m_id m_flags m_qd m_an m_ns m_ar map concat].
  assert (cnt (map (answer_rr_of d) (k_qd q)) = cnt (k_qd q)) as -> by (unfold cnt; rewrite map_length; reflexivity).
  rewrite map_map, !app_nil_r, <- !app_assoc. change (cnt (@nil drr)) with 0.
  unfold be16. cbn [app skipn]. reflexivity.
Qed.

Lemma echo_answer (q : dquery) (d : bytes) : echo_ok (ser_query q) (ser_dns (answer q d)) = true.
Proof.
  unfold echo_ok. rewrite answer_bytes. unfold be16 at 1 2 3 4. cbn [app skipn].
  unfold ser_query, ser_header, be16. cbn [app skipn length Nat.sub]. rewrite Nat.sub_0_r.
  rewrite firstn_len_app. apply bytes_eqb_refl.
Qed.

(* ---- the responder ---- *)
Lemma model_in_a (qs : list dquestion) :
  forallb (fun q => (q_type q =? 1) && (q_class q =? 1)) (map mq qs) = all_in_a qs.
Proof. unfold all_in_a. induction qs as [|x l IH]; cbn [map forallb]; [reflexivity|]. rewrite IH. reflexivity. Qed.

Lemma model_reply_bytes (q : dquery) (d : bytes) :
  dns_header_reply (qview q) ++ concat (map Dns.ser_question (d_qd (qview q))) ++
    concat (map (answer_rr (V4 d)) (d_qd (qview q))) = ser_dns (answer q d).
Proof.
  unfold dns_header_reply, qview, ser_dns, ser_header, answer. cbn [d_id d_flags d_qd m_id m_flags m_qd m_an m_ns m_ar map concat].
  rewrite answer_flags_bytes, !map_map, !map_length, !app_nil_r, <- !app_assoc. unfold cnt. rewrite map_length.
  reflexivity.
Qed.

Theorem dns_repl_answer_tail (q : dquery) (d tail : bytes) :
  query_wf q = true -> all_in_a (k_qd q) = true ->
  dns_repl (Some (V4 d)) (ser_query q ++ tail) = Some (ser_dns (answer q d)).
Proof.
  intros Hwf Hin. unfold dns_repl. rewrite dns_parse_query_tail by exact Hwf.
  apply query_wf_inv in Hwf. destruct Hwf as (_ & Hfl & _ & _).
  change (d_flags (qview q)) with (k_flags q). replace (32768 <=? k_flags q) with false by lia.
  change (d_qd (qview q)) with (map mq (k_qd q)) at 1. rewrite model_in_a, Hin.
  rewrite model_reply_bytes. reflexivity.
Qed.

Theorem dns_repl_answer (q : dquery) (d : bytes) :
  query_wf q = true -> all_in_a (k_qd q) = true -> dst_ok d ->
  dns_repl (Some (V4 d)) (ser_query q) = Some (ser_dns (answer q d)) /\
  dec_dns (ser_dns (answer q d)) = Some (answer q d) /\
  resp_ok q d (answer q d) = true /\
  echo_ok (ser_query q) (ser_dns (answer q d)) = true.
Proof.
  intros Hwf Hin Hd. split; [|split; [|split]].
  - rewrite <- (app_nil_r (ser_query q)). apply dns_repl_answer_tail; assumption.
  - apply dec_dns_ser, answer_wf; assumption.
  - apply answer_resp_ok, Hd.
  - apply echo_answer.
Qed.

(* a complete message with a question that is not IN/A: never answered, whatever its
   flags, its other sections and the bytes after it *)
Theorem dns_repl_not_in_a (dst : option ipaddr) (m : dmsg) (tail : bytes) :
  msg_wf m = true -> all_in_a (m_qd m) = false -> dns_repl dst (ser_dns m ++ tail) = None.
Proof.
  intros Hwf Hin. unfold dns_repl. rewrite dns_parse_msg by exact Hwf.
  destruct (is_nil (m_ns m) && is_nil (m_ar m)); [|reflexivity].
  destruct dst as [ip|]; [|reflexivity].
  destruct (32768 <=? d_flags (mview m)); [reflexivity|].
  change (d_qd (mview m)) with (map mq (m_qd m)). rewrite model_in_a, Hin. reflexivity.
Qed.

Theorem dns_repl_query_not_in_a (dst : option ipaddr) (q : dquery) (tail : bytes) :
  query_wf q = true -> all_in_a (k_qd q) = false -> dns_repl dst (ser_query q ++ tail) = None.
Proof. intros Hwf Hin. rewrite ser_query_msg. apply dns_repl_not_in_a; [apply query_msg_wf, Hwf|exact Hin]. Qed.

(* truncated messages *)
Theorem dns_repl_truncated (dst : option ipaddr) (p : bytes) : dns_truncated p = true -> dns_repl dst p = None.
Proof. intros H. unfold dns_repl. rewrite dns_parse_truncated by exact H. reflexivity. Qed.

Theorem dns_repl_query_prefix (dst : option ipaddr) (q : dquery) (n : nat) :
  query_wf q = true -> (n < length (ser_query q))%nat -> dns_repl dst (firstn n (ser_query q)) = None.
Proof. intros Hwf Hn. apply dns_repl_truncated, query_prefix_truncated; assumption. Qed.

Theorem dns_repl_msg_prefix (dst : option ipaddr) (m : dmsg) (n : nat) :
  msg_wf m = true -> (n < length (ser_dns m))%nat -> dns_repl dst (firstn n (ser_dns m)) = None.
Proof. intros Hwf Hn. apply dns_repl_truncated, dns_truncated_prefix; assumption. Qed.

(* responses (QR = 1) *)
Theorem dns_repl_response (dst : option ipaddr) (m : dmsg) (tail : bytes) :
  msg_wf m = true -> QR_BIT <= m_flags m -> dns_repl dst (ser_dns m ++ tail) = None.
Proof.
  intros Hwf Hqr. unfold dns_repl. rewrite dns_parse_msg by exact Hwf.
  destruct (is_nil (m_ns m) && is_nil (m_ar m)); [|reflexivity].
  destruct dst as [ip|]; [|reflexivity].
  change (d_flags (mview m)) with (m_flags m). unfold QR_BIT in Hqr.
  replace (32768 <=? m_flags m) with true by lia. reflexivity.
Qed.

(* ---- the payload-level monitor on every payload ---- *)
Lemma query_of_msg (m : dmsg) :
  is_nil (m_an m) = true -> is_nil (m_ns m) = true -> is_nil (m_ar m) = true -> msg_of_query (query_of m) = m.
Proof.
  destruct m as [i f qd an ns ar]. cbn [m_an m_ns m_ar]. intros Ha Hn Hr.
  destruct an; [|discriminate]. destruct ns; [|discriminate]. destruct ar; [|discriminate]. reflexivity.
Qed.

Lemma msg_query_wf (m : dmsg) : msg_wf m = true -> m_flags m < QR_BIT -> query_wf (query_of m) = true.
Proof.
  intros H Hf. apply msg_wf_inv in H. destruct H as (H1 & _ & H3 & H4 & _).
  unfold query_wf, query_of. cbn [k_id k_flags k_qd]. rewrite H3. cbn [andb].
  replace (m_id m <? 65536) with true by lia. replace (m_flags m <? QR_BIT) with true by lia.
  replace (cnt (m_qd m) <? 65536) with true by lia. reflexivity.
Qed.

Theorem app_ok_dns_repl (ctx : app_ctx) (p : bytes) :
  a_v4 ctx = true -> a_tcp ctx = false -> bytes_ok p = true -> dst_ok (a_dst ctx) ->
  app_ok_C14_core ctx p (dns_repl (Some (V4 (a_dst ctx))) p) = true.
Proof.
  intros Hv4 Htcp Hok Hd. unfold app_ok_C14_core. rewrite Hv4, Htcp. cbn [negb orb].
  unfold classify. destruct (dec_msg p) as [m [|x r]| |] eqn:Hdec; try reflexivity.
  - apply dec_msg_sound in Hdec; [|exact Hok]. destruct Hdec as [Hp Hwf].
    destruct (all_in_a (m_qd m)) eqn:Hin; cbn [negb].
    + destruct (m_flags m <? QR_BIT) eqn:Hfl; [|reflexivity].
      destruct (is_nil (m_an m)) eqn:Ha; [|reflexivity].
      destruct (is_nil (m_ns m)) eqn:Hn; [|reflexivity].
      destruct (is_nil (m_ar m)) eqn:Hr; [|reflexivity]. cbn [andb].
      assert (p = ser_query (query_of m)) as Hpq.
      { rewrite ser_query_msg, query_of_msg by assumption. rewrite Hp. apply app_nil_r. }
      assert (query_wf (query_of m) = true) as Hqwf by (apply msg_query_wf; [exact Hwf|lia]).
      destruct (dns_repl_answer (query_of m) (a_dst ctx) Hqwf Hin Hd) as (Hr1 & Hr2 & Hr3 & Hr4).
      rewrite Hpq at 1. rewrite Hr1, Hr2, Hr3. rewrite Hpq. rewrite Hr4. reflexivity.
    + rewrite Hp. rewrite dns_repl_not_in_a by assumption. reflexivity.
  - rewrite dns_repl_truncated; [reflexivity|]. unfold dns_truncated. rewrite Hdec. reflexivity.
Qed.

(* ---- proto::repl over UDP: the fallback ---- *)
Theorem proto_udp_dns (E : env) (clk : clock) (ci : cinfo) (p : bytes) :
  udp_id E p = None -> proto_repl_udp E clk ci p = Ok (ci, dns_repl (ci_ip_dst ci) p).
Proof.
  intros Hid. unfold proto_repl_udp. unfold udp_id in Hid.
  destruct (search_next (e_proto_tbl E) BASE_STATE p) as [[id st] n].
  rewrite Hid. destruct (dns_repl (ci_ip_dst ci) p); reflexivity.
Qed.

Lemma ctx_ci_dst4 (cfg : config) (ms md : bytes) (ctx : app_ctx) :
  a_v4 ctx = true -> ci_ip_dst (ctx_ci cfg ms md ctx) = Some (V4 (a_dst ctx)).
Proof. intros H. unfold ctx_ci, ctx_dst_ip. cbn [ci_ip_dst]. rewrite H. reflexivity. Qed.

(* whatever proto::repl returns for a datagram, the monitor accepts it *)
Theorem C14_proto_udp_any (E : env) (clk : clock) (ci : cinfo) (ctx : app_ctx) (p : bytes) (ci' : cinfo) (o : option bytes) :
  a_v4 ctx = true -> a_tcp ctx = false -> bytes_ok p = true -> dst_ok (a_dst ctx) ->
  ci_ip_dst ci = Some (V4 (a_dst ctx)) ->
  proto_repl_udp E clk ci p = Ok (ci', o) ->
  app_ok_C14 E ctx p o = true.
Proof.
  intros Hv4 Htcp Hok Hd Hci Hr. unfold app_ok_C14.
  destruct (udp_id E p) as [i|] eqn:Hid; [reflexivity|].
  rewrite (proto_udp_dns E clk ci p Hid) in Hr. inversion Hr; subst ci' o. rewrite Hci.
  apply app_ok_dns_repl; assumption.
Qed.

Theorem C14_proto_udp (E : env) (clk : clock) (cfg : config) (ms md : bytes) (ctx : app_ctx) (p : bytes) :
  a_v4 ctx = true -> a_tcp ctx = false -> bytes_ok p = true -> dst_ok (a_dst ctx) ->
  udp_id E p = None ->
  exists o, proto_repl_udp E clk (ctx_ci cfg ms md ctx) p = Ok (ctx_ci cfg ms md ctx, o) /\
            app_ok_C14_core ctx p o = true /\ app_ok_C14 E ctx p o = true.
Proof.
  intros Hv4 Htcp Hok Hd Hid.
  exists (dns_repl (Some (V4 (a_dst ctx))) p). split; [|split].
  - rewrite (proto_udp_dns E clk _ p Hid), ctx_ci_dst4 by exact Hv4. reflexivity.
  - apply app_ok_dns_repl; assumption.
  - unfold app_ok_C14. rewrite Hid. apply app_ok_dns_repl; assumption.
Qed.

(* the same on structured queries, with the decoded answer spelled out *)
Theorem C14_proto_udp_query (E : env) (clk : clock) (cfg : config) (ms md : bytes) (ctx : app_ctx) (q : dquery) :
  a_v4 ctx = true -> query_wf q = true -> all_in_a (k_qd q) = true -> dst_ok (a_dst ctx) ->
  udp_id E (ser_query q) = None ->
  exists r, proto_repl_udp E clk (ctx_ci cfg ms md ctx) (ser_query q) = Ok (ctx_ci cfg ms md ctx, Some r) /\
            dec_dns r = Some (answer q (a_dst ctx)) /\
            resp_ok q (a_dst ctx) (answer q (a_dst ctx)) = true /\
            echo_ok (ser_query q) r = true.
Proof.
  intros Hv4 Hwf Hin Hd Hid.
  destruct (dns_repl_answer q (a_dst ctx) Hwf Hin Hd) as (Hr1 & Hr2 & Hr3 & Hr4).
  exists (ser_dns (answer q (a_dst ctx))). split; [|split; [|split]]; try assumption.
  rewrite (proto_udp_dns E clk _ _ Hid), ctx_ci_dst4 by exact Hv4. rewrite Hr1. reflexivity.
Qed.

(* the negative clauses through proto::repl *)
Theorem C14_proto_udp_not_in_a (E : env) (clk : clock) (ci : cinfo) (q : dquery) :
  query_wf q = true -> all_in_a (k_qd q) = false -> udp_id E (ser_query q) = None ->
  proto_repl_udp E clk ci (ser_query q) = Ok (ci, None).
Proof.
  intros Hwf Hin Hid. rewrite (proto_udp_dns E clk ci _ Hid).
  rewrite <- (app_nil_r (ser_query q)), dns_repl_query_not_in_a by assumption. reflexivity.
Qed.

Theorem C14_proto_udp_truncated (E : env) (clk : clock) (ci : cinfo) (q : dquery) (n : nat) :
  query_wf q = true -> (n < length (ser_query q))%nat -> udp_id E (firstn n (ser_query q)) = None ->
  proto_repl_udp E clk ci (firstn n (ser_query q)) = Ok (ci, None).
Proof.
  intros Hwf Hn Hid. rewrite (proto_udp_dns E clk ci _ Hid), dns_repl_query_prefix by assumption. reflexivity.
Qed.

(* ---- beyond the property: what the responder does outside its scope ---- *)
(* a response-typed payload (top bit of the flag word), whatever the rest *)
Theorem dns_repl_qr_any (dst : option ipaddr) (p : bytes) : 128 <= u8_at 2 p -> dns_repl dst p = None.
Proof.
  intros H. unfold dns_repl, dns_parse. destruct (length p <? 12)%nat; [reflexivity|].
  destruct (take_questions _ _) as [[qs r]|]; [|reflexivity].
  destruct (skip_rrs _ _); [|reflexivity].
  destruct (_ && _); [|reflexivity]. destruct dst; [|reflexivity]. cbn [d_flags]. unfold u16_at.
  replace (32768 <=? u8_at 2 p * 256 + u8_at 3 p) with true by lia. reflexivity.
Qed.

(* bytes after a complete query are ignored *)
Theorem dns_repl_trailing (dst : option ipaddr) (q : dquery) (tail : bytes) :
  query_wf q = true -> dns_repl dst (ser_query q ++ tail) = dns_repl dst (ser_query q).
Proof.
  intros H. unfold dns_repl. rewrite dns_parse_query_tail, dns_parse_query by exact H. reflexivity.
Qed.

(* records in the answer section of a query are skipped: the questions are answered as
   if the records were absent; any authority / additional record silences the responder *)
Theorem dns_repl_answer_section_ignored (dst : option ipaddr) (m : dmsg) (tail : bytes) :
  msg_wf m = true -> m_flags m < QR_BIT -> is_nil (m_ns m) = true -> is_nil (m_ar m) = true ->
  dns_repl dst (ser_dns m ++ tail) = dns_repl dst (ser_query (query_of m)).
Proof.
  intros Hwf Hfl Hn Hr. unfold dns_repl.
  rewrite dns_parse_msg by exact Hwf. rewrite Hn, Hr. cbn [andb].
  rewrite dns_parse_query by (apply msg_query_wf; assumption). reflexivity.
Qed.

Theorem dns_repl_ns_ar_silent (dst : option ipaddr) (m : dmsg) (tail : bytes) :
  msg_wf m = true -> is_nil (m_ns m) && is_nil (m_ar m) = false -> dns_repl dst (ser_dns m ++ tail) = None.
Proof. intros Hwf H. unfold dns_repl. rewrite dns_parse_msg by exact Hwf. rewrite H. reflexivity. Qed.

(* over IPv6 the A records carry no address (RDLENGTH 0) *)
Theorem dns_repl_ipv6 (q : dquery) (o : bytes) :
  query_wf q = true -> all_in_a (k_qd q) = true ->
  dns_repl (Some (V6 o)) (ser_query q) = Some (ser_dns (answer q [])).
Proof.
  intros Hwf Hin. unfold dns_repl. rewrite dns_parse_query by exact Hwf.
  apply query_wf_inv in Hwf. destruct Hwf as (_ & Hfl & _ & _).
  change (d_flags (qview q)) with (k_flags q). replace (32768 <=? k_flags q) with false by lia.
  change (d_qd (qview q)) with (map mq (k_qd q)) at 1. rewrite model_in_a, Hin. f_equal.
  unfold dns_header_reply, qview, ser_dns, ser_header, answer.
  cbn [d_id d_flags d_qd m_id m_flags m_qd m_an m_ns m_ar map concat].
  rewrite answer_flags_bytes, !map_map, !map_length, !app_nil_r, <- !app_assoc. unfold cnt. rewrite map_length.
  reflexivity.
Qed.
