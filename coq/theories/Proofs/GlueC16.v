(* Proofs/GlueC16.v -- C16 on the current implementation WITHOUT identification
   hypothesis: [rpc_ident_ok the_env false tcp] (Proofs/C16Frame.v) is discharged
   from C10's product check (Proofs/C10Current.v) by two facts about the REFERENCE
   signature set alone:
     (a) every call in scope that is not [rpc_shadowed] has its leading 24 (28)
         bytes in the byte-class pattern [pat_rpc_udp] ([pat_rpc_tcp]);
     (b) on every payload with such leading bytes the reference automaton passes no
         point of K0 and identifies ONC-RPC ([ref_chk], decided by computation).
   Relation of C16's class [rpc_shadowed] with C10's class on calls in scope: see
   [rpc_shadowed_covers_c10_class] (what the discharge needs: the C10 class contains
   no call in scope outside rpc_shadowed) and, in Proofs/GlueExact.v,
   [rpc_shadowed_unidentified] (the converse: a call in scope inside rpc_shadowed is
   identified by nothing -- the class predicate is not too coarse). *)
From Coq Require Import Lia.
From MS Require Import Proofs.Tactics Rpc Proto L2 Spec.View Spec.RefDec Spec.TcpRef Spec.RefXdr Spec.AppView
     Spec.History Spec.C16 Spec.RefSig Spec.C10 Spec.C10Known Instance
     Proofs.C06 Proofs.TcpState Proofs.C07 Proofs.LiftTcp Proofs.C10Sound Proofs.C10Dispatch Proofs.C10Current
     Proofs.C16Frame Proofs.GluePat.

(* ---------- the patterns ---------- *)
Definition SHADOW_FIRST : list N := [71; 80; 72; 68; 67; 79; 84; 83; 0].

(* xid | CALL | rpcvers < 256 | prog 0x000186** | vers | proc < 256 *)
Definition pat_rpc_udp : list cls :=
  [CNot SHADOW_FIRST; CAny; CAny; CAny;
   CLit 0; CLit 0; CLit 0; CLit 0;
   CLit 0; CLit 0; CLit 0; CAny;
   CLit 0; CLit 1; CLit 134; CAny;
   CAny; CAny; CAny; CAny;
   CLit 0; CLit 0; CLit 0; CAny].
(* record mark | xid, first byte not 00 | ... *)
Definition pat_rpc_tcp : list cls :=
  [CNot SHADOW_FIRST; CAny; CAny; CAny;
   CNot [0]; CAny; CAny; CAny;
   CLit 0; CLit 0; CLit 0; CLit 0;
   CLit 0; CLit 0; CLit 0; CAny;
   CLit 0; CLit 1; CLit 134; CAny;
   CAny; CAny; CAny; CAny;
   CLit 0; CLit 0; CLit 0; CAny].

(* (b): facts about the reference and K0 only *)
Lemma chk_rpc_udp : ref_chk K0 ID_RPC_UDP false pat_rpc_udp [r_init] = true.
Proof. vm_compute. reflexivity. Qed.
Lemma chk_rpc_tcp : ref_chk K0 ID_RPC_TCP false pat_rpc_tcp [r_init] = true.
Proof. vm_compute. reflexivity. Qed.

(* ---------- (a): the leading bytes of a call in scope ---------- *)
Lemma byte_ok_lt b : byte_ok b = true -> b < 256.
Proof. unfold byte_ok. apply N.ltb_lt. Qed.

Lemma dec_call_head p c rest :
  bytes_ok p = true -> dec_call p = Some (c, rest) -> call_in_scope c = true ->
  exists x0 x1 x2 x3 rv g3 v0 v1 v2 v3 pc q,
    p = [x0; x1; x2; x3; 0; 0; 0; 0; 0; 0; 0; rv; 0; 1; 134; g3; v0; v1; v2; v3; 0; 0; 0; pc] ++ q.
Proof.
  intros Hok H Hs. unfold dec_call in H.
  destruct p as [|x0 [|x1 [|x2 [|x3 p]]]]; try discriminate H. cbn [rd_u32] in H.
  destruct p as [|m0 [|m1 [|m2 [|m3 p]]]]; try discriminate H. cbn [rd_u32] in H.
  destruct (m0 * 16777216 + m1 * 65536 + m2 * 256 + m3 =? MSG_CALL) eqn:Hmt; cbn [negb] in H; [|discriminate H].
  destruct p as [|r0 [|r1 [|r2 [|r3 p]]]]; try discriminate H. cbn [rd_u32] in H.
  destruct p as [|g0 [|g1 [|g2 [|g3 p]]]]; try discriminate H. cbn [rd_u32] in H.
  destruct p as [|v0 [|v1 [|v2 [|v3 p]]]]; try discriminate H. cbn [rd_u32] in H.
  destruct p as [|p0 [|p1 [|p2 [|p3 p]]]]; try discriminate H. cbn [rd_u32] in H.
  destruct (rd_u32 p) as [[cf q1]|]; [|discriminate H].
  destruct (rd_opaque q1) as [[cb q2]|]; [|discriminate H].
  destruct (rd_u32 q2) as [[vf q3]|]; [|discriminate H].
  destruct (rd_opaque q3) as [[vb q4]|]; [|discriminate H].
  inversion H; subst c rest. clear H.
  unfold call_in_scope in Hs. cbn [rc_rpcvers rc_prog rc_proc] in Hs.
  rewrite !andb_true_iff in Hs. destruct Hs as [[[S1 S2] S3] S4].
  apply N.ltb_lt in S1, S4. apply N.leb_le in S2, S3. apply N.eqb_eq in Hmt. unfold MSG_CALL in Hmt.
  cbn [bytes_ok forallb] in Hok. rewrite !andb_true_iff in Hok.
  destruct Hok as (_ & _ & _ & _ & B4 & B5 & B6 & B7 & B8 & B9 & B10 & B11 & B12 & B13 & B14 & B15 & _ & _ & _ & _ &
                   B20 & B21 & B22 & B23 & _).
  apply byte_ok_lt in B4, B5, B6, B7, B8, B9, B10, B11, B12, B13, B14, B15, B20, B21, B22, B23.
  assert (m0 = 0 /\ m1 = 0 /\ m2 = 0 /\ m3 = 0) as (-> & -> & -> & ->) by lia.
  assert (r0 = 0 /\ r1 = 0 /\ r2 = 0) as (-> & -> & ->) by lia.
  assert (g0 = 0 /\ g1 = 1 /\ g2 = 134) as (-> & -> & ->) by lia.
  assert (p0 = 0 /\ p1 = 0 /\ p2 = 0) as (-> & -> & ->) by lia.
  exists x0, x1, x2, x3, r3, g3, v0, v1, v2, v3, p3, p. reflexivity.
Qed.

Lemma strip_mark_head p body :
  bytes_ok p = true -> strip_mark p = Some body -> exists m0 m1 m2 m3, p = [m0; m1; m2; m3] ++ body /\ 128 <= m0.
Proof.
  intros Hok H. unfold strip_mark, rd_mark in H.
  destruct p as [|m0 [|m1 [|m2 [|m3 p]]]]; try discriminate H. cbn [rd_u32] in H.
  destruct (LAST_FRAG <=? m0 * 16777216 + m1 * 65536 + m2 * 256 + m3) eqn:Hl; [|discriminate H].
  destruct (_ =? lenN p); [|discriminate H]. inversion H; subst body. clear H.
  exists m0, m1, m2, m3. split; [reflexivity|].
  apply N.leb_le in Hl. unfold LAST_FRAG in Hl.
  cbn [bytes_ok forallb] in Hok. rewrite !andb_true_iff in Hok. destruct Hok as (_ & B1 & B2 & B3 & _).
  apply byte_ok_lt in B1, B2, B3. lia.
Qed.

Lemma shadow_first_mem b : cls_mem (CNot SHADOW_FIRST) b = negb (shadow_first b).
Proof. reflexivity. Qed.

Lemma demands_udp_pat p :
  bytes_ok p = true -> c16_demands false false p = true -> pmatch false pat_rpc_udp p = true.
Proof.
  intros Hok Hd. unfold c16_demands, scope_call in Hd.
  destruct (dec_call p) as [[c rest]|] eqn:Hdec; [|discriminate Hd].
  destruct (call_in_scope c) eqn:Hs; [|discriminate Hd].
  cbn [negb andb] in Hd. apply negb_true_iff in Hd.
  destruct (dec_call_head p c rest Hok Hdec Hs) as (x0 & x1 & x2 & x3 & rv & g3 & v0 & v1 & v2 & v3 & pc & q & ->).
  unfold rpc_shadowed in Hd. cbn [nth app andb] in Hd. rewrite orb_false_r in Hd.
  unfold pat_rpc_udp. cbn [app]. rewrite pmatch_cons, shadow_first_mem, Hd.
  cbn [negb andb pmatch cls_mem N.eqb Pos.eqb]. apply pmatch_nil_prefix.
Qed.

Lemma demands_tcp_pat p :
  bytes_ok p = true -> c16_demands false true p = true -> pmatch false pat_rpc_tcp p = true.
Proof.
  intros Hok Hd. unfold c16_demands, scope_call in Hd.
  destruct (strip_mark p) as [body|] eqn:Hsm; [|discriminate Hd].
  destruct (dec_call body) as [[c [|? ?]]|] eqn:Hdec; try discriminate Hd.
  destruct (call_in_scope c) eqn:Hs; [|discriminate Hd].
  cbn [negb andb] in Hd. apply negb_true_iff in Hd.
  destruct (strip_mark_head p body Hok Hsm) as (m0 & m1 & m2 & m3 & -> & Hm0).
  assert (Hbody : bytes_ok body = true).
  { rewrite bytes_ok_app in Hok. apply andb_true_iff in Hok. exact (proj2 Hok). }
  destruct (dec_call_head body c [] Hbody Hdec Hs) as (x0 & x1 & x2 & x3 & rv & g3 & v0 & v1 & v2 & v3 & pc & q & ->).
  unfold rpc_shadowed in Hd. cbn [nth app andb] in Hd. apply orb_false_iff in Hd. destruct Hd as [Hd1 Hd2].
  unfold pat_rpc_tcp. cbn [app]. rewrite pmatch_cons, shadow_first_mem, Hd1.
  cbn [negb andb pmatch cls_mem existsb orb]. rewrite Hd2.
  cbn [negb andb pmatch cls_mem N.eqb Pos.eqb]. apply pmatch_nil_prefix.
Qed.

(* ---------- the relation between C16's class and C10's class ---------- *)
(* what the discharge needs: a call in scope outside [rpc_shadowed] is outside C10's
   (coarse, hence also refined) class, and the reference identifies it as ONC-RPC *)
Theorem rpc_shadowed_covers_c10_class tcp p :
  bytes_ok p = true -> c16_demands false tcp p = true ->
  c10_class_payload_coarse tcp p = false /\
  (if tcp then ref_tcp p else ref_udp p) = Some (c16_proto tcp).
Proof.
  intros Hok Hd. destruct tcp.
  - destruct (ref_chk_init K0 ID_RPC_TCP false pat_rpc_tcp chk_rpc_tcp p Hok (demands_tcp_pat p Hok Hd))
      as (_ & H2 & _ & H4).
    split; [exact H2 | exact (H4 eq_refl)].
  - destruct (ref_chk_init K0 ID_RPC_UDP false pat_rpc_udp chk_rpc_udp p Hok (demands_udp_pat p Hok Hd))
      as (H1 & _ & H3 & _).
    split; [exact H1 | exact H3].
Qed.

(* ---------- the identification hypothesis, on the current tables ---------- *)
Theorem rpc_ident_current (tcp : bool) : rpc_ident_ok the_env false tcp.
Proof.
  intros p Hok Hd.
  destruct (rpc_shadowed_covers_c10_class tcp p Hok Hd) as [Hc Hr]. destruct tcp; unfold c16_id.
  - rewrite (current_ident_tcp p Hok Hc). exact Hr.
  - rewrite (proj1 (current_ident p Hok Hc)). exact Hr.
Qed.

(* ---------- every frame, no identification hypothesis ---------- *)
Theorem frame_udp_C16_current cfg clk tb f tb' r evs :
  cfg_ok cfg = true -> bytes_ok f = true ->
  reply the_env cfg clk tb f = Ok (tb', r, evs) ->
  ok_C16_udp cfg f r = true.
Proof.
  intros Hcfg Hf Hr. exact (frame_udp_C16 the_env cfg clk tb f tb' r evs Hcfg Hf (rpc_ident_current false) Hr).
Qed.

Theorem frame_tcp_C16_current cfg h clk tb f tb' r evs :
  cfg_ok cfg = true ->
  Forall (fun x => bytes_ok x = true) (frames h) -> bytes_ok f = true ->
  run the_env cfg [] h = Ok tb ->
  (forall v, view_tcp cfg f = Some v -> no_collision cfg (flow_of v :: ref_run cfg (frames h))) ->
  reply the_env cfg clk tb f = Ok (tb', r, evs) ->
  ok_C16_tcp cfg (ref_run cfg (frames h)) f r = true.
Proof.
  intros Hcfg Hall Hf Hrun Hnc Hr.
  exact (frame_tcp_C16 the_env cfg h clk tb f tb' r evs Hcfg (rpc_ident_current true) Hall Hf Hrun Hnc Hr).
Qed.

Theorem frame_tcp_C16_current_state cfg clk tb f tb' r evs v :
  cfg_ok cfg = true -> bytes_ok f = true ->
  view_tcp cfg f = Some v ->
  is_data (tcp_flags (v_l4 v)) = true ->
  tbl_mem (flow_cookie cfg (flow_of v)) tb = false ->
  presents_cookie cfg v = true ->
  reply the_env cfg clk tb f = Ok (tb', r, evs) ->
  exists o, tcp_resp r = Some o /\ app_ok_C16 (ctx_of true v) (tcp_payload (v_l4 v)) o = true.
Proof.
  intros Hcfg Hf Hvt Hd Hmem Hpres Hr.
  apply (frame_tcp_C16_gen_state the_env cfg clk tb f tb' r evs v false Hcfg Hf Hvt Hd Hmem Hpres); [|exact Hr].
  apply rpc_ident_current.
  destruct (view_tcp_view _ _ _ Hvt) as [Hv _].
  pose proof (view_l4_ok _ _ _ Hf Hv) as Hok. unfold tcp_payload.
  destruct (_ <=? _)%nat; [reflexivity|apply bytes_ok_skipn, Hok].
Qed.
