(* C17Lib.v -- generic lemmas for C17: little-endian values, the per-combinator
   lemmas of the byte-at-a-time dissector (one whole field read by [read_ule] /
   skipped by a counter), delegation of the fold through the NetBIOS layer, and
   the reference readers applied to encoded values. *)
From MS Require Import Proofs.Tactics Smb Proofs.SmbSafe Proofs.SmbLen Proofs.SmbBytes Spec.RefSmb.
Open Scope N_scope.

(* ====================================================================== *)
(*                        little-endian values                            *)
(* ====================================================================== *)
Fixpoint le_val (bs : bytes) : N :=
  match bs with [] => 0 | b :: t => b + 256 * le_val t end.

Lemma le_val_le16 x : x < 65536 -> le_val (le16 x) = x.
Proof. intros H. unfold le16. cbn [le_val]. lia. Qed.
Lemma le_val_le32 x : x < 4294967296 -> le_val (le32 x) = x.
Proof. intros H. unfold le32. cbn [le_val]. lia. Qed.
Lemma le_val_app a b : le_val (a ++ b) = le_val a + pow8 (N.of_nat (length a)) * le_val b.
Proof.
  induction a as [|x a IH]; cbn [app le_val length].
  - change (N.of_nat 0) with 0. rewrite pow8_0. lia.
  - rewrite IH. replace (N.of_nat (S (length a))) with (N.of_nat (length a) + 1) by lia.
    rewrite pow8_S. lia.
Qed.
Lemma le_val_le64 x : x < W64 -> le_val (le64 x) = x.
Proof.
  intros H. unfold le64. rewrite le_val_app. rewrite le32_length.
  change (pow8 (N.of_nat 4)) with (pow8 4). rewrite pow8_4.
  rewrite !le_val_le32; unfold W32, W64 in *; lia.
Qed.
Lemma le_val_lt bs : bytes_ok bs = true -> le_val bs < pow8 (N.of_nat (length bs)).
Proof.
  induction bs as [|b t IH]; intros H.
  - cbn. change (N.of_nat 0) with 0. rewrite pow8_0. lia.
  - cbn [bytes_ok forallb] in H. apply andb_true_iff in H. destruct H as [Hb Ht].
    unfold byte_ok in Hb. apply N.ltb_lt in Hb. specialize (IH Ht).
    cbn [le_val length]. replace (N.of_nat (S (length t))) with (N.of_nat (length t) + 1) by lia.
    rewrite pow8_S. lia.
Qed.

Lemma bytes_ok_cons b t : bytes_ok (b :: t) = true -> b < 256 /\ bytes_ok t = true.
Proof.
  cbn [bytes_ok forallb]. intros H. apply andb_true_iff in H. destruct H as [Hb Ht].
  unfold byte_ok in Hb. apply N.ltb_lt in Hb. split; assumption.
Qed.

(* ====================================================================== *)
(*     one field read by read_ule, through an arbitrary step function     *)
(* ====================================================================== *)
Section Field.
Context {S : Type}.
Variable step : S -> N -> res S.
Variable get_d : S -> dis.
Variable get_v : S -> N.
Variable upd : S -> N -> dis -> S.
Variables st next size width : N.
Hypothesis Hstep : forall s b, d_st (get_d s) = st ->
  step s b = do r <- read_ule (get_d s) b (get_v s) next size width; Ok (upd s (fst r) (snd r)).
Hypothesis Hget_d : forall s v d, get_d (upd s v d) = d.
Hypothesis Hget_v : forall s v d, get_v (upd s v d) = v.
Hypothesis Hupd : forall s v d v' d', upd (upd s v d) v' d' = upd s v' d'.
Hypothesis Hid : forall s, upd s (get_v s) (get_d s) = s.
Hypothesis Hsize : size <= 8.
Hypothesis Hwidth : width = pow8 size.

Lemma fold_field_aux : forall bs b rest s0 k v,
  bytes_ok (b :: bs) = true -> k + N.of_nat (length (b :: bs)) = size -> v < pow8 k ->
  fold_res step ((b :: bs) ++ rest) (upd s0 v {| d_i := k; d_st := st |})
  = fold_res step rest (upd s0 (v + pow8 k * le_val (b :: bs)) (d_next next)).
Proof.
  induction bs as [|b' bs IH]; intros b rest s0 k v Hok Hlen Hv.
  - apply bytes_ok_cons in Hok. destruct Hok as [Hb _].
    cbn [app length] in *. rewrite fold_res_cons.
    rewrite Hstep by (rewrite Hget_d; reflexivity).
    rewrite Hget_d, Hget_v.
    rewrite read_ule_ok; cbn [d_i]; try lia.
    cbn [bind fst snd]. rewrite Hupd.
    unfold d_when, d_inc. cbn [d_i d_st].
    replace (k + 1 =? size) with true by (symmetry; apply N.eqb_eq; lia).
    f_equal. f_equal. cbn [le_val].
    pose proof (acc_lt v b (pow8 k) Hv Hb) as Hacc.
    assert (Hw : width = 256 * pow8 k) by (rewrite Hwidth, <- pow8_S; f_equal; lia).
    rewrite N.mod_small by lia. lia.
  - pose proof Hok as Hok'. apply bytes_ok_cons in Hok'. destruct Hok' as [Hb Hok'].
    change ((b :: b' :: bs) ++ rest) with (b :: ((b' :: bs) ++ rest)).
    rewrite fold_res_cons.
    rewrite Hstep by (rewrite Hget_d; reflexivity).
    rewrite Hget_d, Hget_v.
    cbn [length] in Hlen.
    rewrite read_ule_ok; cbn [d_i]; try lia.
    cbn [bind fst snd]. rewrite Hupd.
    unfold d_when, d_inc. cbn [d_i d_st].
    replace (k + 1 =? size) with false by (symmetry; apply N.eqb_neq; lia).
    pose proof (acc_lt v b (pow8 k) Hv Hb) as Hacc.
    assert (Hle : pow8 (k + 1) <= width) by (rewrite Hwidth; apply pow8_mono; lia).
    rewrite pow8_S in Hle.
    rewrite N.mod_small by lia.
    rewrite IH; [| exact Hok' | cbn [length]; lia | rewrite pow8_S; lia].
    f_equal. f_equal. rewrite pow8_S. cbn [le_val]. lia.
Qed.

Lemma fold_field bs rest s :
  N.of_nat (length bs) = size -> 0 < size -> bytes_ok bs = true ->
  get_d s = {| d_i := 0; d_st := st |} -> get_v s = 0 ->
  fold_res step (bs ++ rest) s = fold_res step rest (upd s (le_val bs) (d_next next)).
Proof.
  intros Hlen Hpos Hok Hd Hv.
  destruct bs as [|b bs]; [cbn in Hlen; lia|].
  rewrite <- (Hid s) at 1. rewrite Hd, Hv.
  rewrite fold_field_aux; [| exact Hok | lia | rewrite pow8_0; lia].
  rewrite pow8_0. f_equal. f_equal. lia.
Qed.
End Field.

(* the same when the step applies a post-processing [post] that is the identity while
   the field is still being read (it may act once the next state has been entered) *)
Section FieldPost.
Context {S : Type}.
Variable step : S -> N -> res S.
Variable get_d : S -> dis.
Variable get_v : S -> N.
Variable upd : S -> N -> dis -> S.
Variable post : S -> S.
Variables st next size width : N.
Hypothesis Hstep : forall s b, d_st (get_d s) = st ->
  step s b = do r <- read_ule (get_d s) b (get_v s) next size width; Ok (post (upd s (fst r) (snd r))).
Hypothesis Hpost : forall s, d_st (get_d s) = st -> post s = s.
Hypothesis Hget_d : forall s v d, get_d (upd s v d) = d.
Hypothesis Hget_v : forall s v d, get_v (upd s v d) = v.
Hypothesis Hupd : forall s v d v' d', upd (upd s v d) v' d' = upd s v' d'.
Hypothesis Hid : forall s, upd s (get_v s) (get_d s) = s.
Hypothesis Hsize : size <= 8.
Hypothesis Hwidth : width = pow8 size.

Lemma fold_field_post_aux : forall bs b rest s0 k v,
  bytes_ok (b :: bs) = true -> k + N.of_nat (length (b :: bs)) = size -> v < pow8 k ->
  fold_res step ((b :: bs) ++ rest) (upd s0 v {| d_i := k; d_st := st |})
  = fold_res step rest (post (upd s0 (v + pow8 k * le_val (b :: bs)) (d_next next))).
Proof.
  induction bs as [|b' bs IH]; intros b rest s0 k v Hok Hlen Hv.
  - apply bytes_ok_cons in Hok. destruct Hok as [Hb _].
    cbn [app length] in *. rewrite fold_res_cons.
    rewrite Hstep by (rewrite Hget_d; reflexivity).
    rewrite Hget_d, Hget_v.
    rewrite read_ule_ok; cbn [d_i]; try lia.
    cbn [bind fst snd]. rewrite Hupd.
    unfold d_when, d_inc. cbn [d_i d_st].
    replace (k + 1 =? size) with true by (symmetry; apply N.eqb_eq; lia).
    f_equal. f_equal. f_equal. cbn [le_val].
    pose proof (acc_lt v b (pow8 k) Hv Hb) as Hacc.
    assert (Hw : width = 256 * pow8 k) by (rewrite Hwidth, <- pow8_S; f_equal; lia).
    rewrite N.mod_small by lia. lia.
  - pose proof Hok as Hok'. apply bytes_ok_cons in Hok'. destruct Hok' as [Hb Hok'].
    change ((b :: b' :: bs) ++ rest) with (b :: ((b' :: bs) ++ rest)).
    rewrite fold_res_cons.
    rewrite Hstep by (rewrite Hget_d; reflexivity).
    rewrite Hget_d, Hget_v.
    cbn [length] in Hlen.
    rewrite read_ule_ok; cbn [d_i]; try lia.
    cbn [bind fst snd]. rewrite Hupd.
    unfold d_when, d_inc. cbn [d_i d_st].
    replace (k + 1 =? size) with false by (symmetry; apply N.eqb_neq; lia).
    rewrite Hpost by (rewrite Hget_d; reflexivity).
    pose proof (acc_lt v b (pow8 k) Hv Hb) as Hacc.
    assert (Hle : pow8 (k + 1) <= width) by (rewrite Hwidth; apply pow8_mono; lia).
    rewrite pow8_S in Hle.
    rewrite N.mod_small by lia.
    rewrite IH; [| exact Hok' | cbn [length]; lia | rewrite pow8_S; lia].
    f_equal. f_equal. f_equal. rewrite pow8_S. cbn [le_val]. lia.
Qed.

Lemma fold_field_post bs rest s :
  N.of_nat (length bs) = size -> 0 < size -> bytes_ok bs = true ->
  get_d s = {| d_i := 0; d_st := st |} -> get_v s = 0 ->
  fold_res step (bs ++ rest) s = fold_res step rest (post (upd s (le_val bs) (d_next next))).
Proof.
  intros Hlen Hpos Hok Hd Hv.
  destruct bs as [|b bs]; [cbn in Hlen; lia|].
  rewrite <- (Hid s) at 1. rewrite Hd, Hv.
  rewrite fold_field_post_aux; [| exact Hok | lia | rewrite pow8_0; lia].
  rewrite pow8_0. f_equal. f_equal. f_equal. lia.
Qed.
End FieldPost.

(* ====================================================================== *)
(*            one field skipped by the counter (Start, Reserved, ...)     *)
(* ====================================================================== *)
Section Skip.
Context {S : Type}.
Variable step : S -> N -> res S.
Variable get_d : S -> dis.
Variable upd_d : S -> dis -> S.
Variables st next size : N.
Hypothesis Hstep : forall s b, d_st (get_d s) = st -> d_i (get_d s) < size ->
  step s b = Ok (upd_d s (d_when (d_inc (get_d s)) next size)).
Hypothesis Hget : forall s d, get_d (upd_d s d) = d.
Hypothesis Hupd : forall s d d', upd_d (upd_d s d) d' = upd_d s d'.
Hypothesis Hid : forall s, upd_d s (get_d s) = s.

Lemma fold_skip_aux : forall bs b rest s0 k,
  k + N.of_nat (length (b :: bs)) = size ->
  fold_res step ((b :: bs) ++ rest) (upd_d s0 {| d_i := k; d_st := st |})
  = fold_res step rest (upd_d s0 (d_next next)).
Proof.
  induction bs as [|b' bs IH]; intros b rest s0 k Hlen.
  - cbn [app length] in *. rewrite fold_res_cons.
    rewrite Hstep by (rewrite Hget; cbn [d_i d_st]; try reflexivity; lia).
    cbn [bind]. rewrite Hget, Hupd. unfold d_when, d_inc. cbn [d_i d_st].
    replace (k + 1 =? size) with true by (symmetry; apply N.eqb_eq; lia). reflexivity.
  - change ((b :: b' :: bs) ++ rest) with (b :: ((b' :: bs) ++ rest)).
    cbn [length] in Hlen. rewrite fold_res_cons.
    rewrite Hstep by (rewrite Hget; cbn [d_i d_st]; try reflexivity; lia).
    cbn [bind]. rewrite Hget, Hupd. unfold d_when, d_inc. cbn [d_i d_st].
    replace (k + 1 =? size) with false by (symmetry; apply N.eqb_neq; lia).
    apply IH. cbn [length]. lia.
Qed.

Lemma fold_skip bs rest s :
  N.of_nat (length bs) = size -> 0 < size -> get_d s = {| d_i := 0; d_st := st |} ->
  fold_res step (bs ++ rest) s = fold_res step rest (upd_d s (d_next next)).
Proof.
  intros Hlen Hpos Hd. destruct bs as [|b bs]; [cbn in Hlen; lia|].
  rewrite <- (Hid s) at 1. rewrite Hd. apply fold_skip_aux. lia.
Qed.
End Skip.

(* the same with an invariant on the other fields (the size may be a field of the state) *)
Section SkipQ.
Context {S : Type}.
Variable step : S -> N -> res S.
Variable get_d : S -> dis.
Variable upd_d : S -> dis -> S.
Variable Q : S -> Prop.
Variables st next size : N.
Hypothesis Hstep : forall s b, Q s -> d_st (get_d s) = st -> d_i (get_d s) < size ->
  step s b = Ok (upd_d s (d_when (d_inc (get_d s)) next size)).
Hypothesis HQ : forall s d, Q s -> Q (upd_d s d).
Hypothesis Hget : forall s d, get_d (upd_d s d) = d.
Hypothesis Hupd : forall s d d', upd_d (upd_d s d) d' = upd_d s d'.
Hypothesis Hid : forall s, upd_d s (get_d s) = s.

Lemma fold_skipq_aux : forall bs b rest s0 k, Q s0 ->
  k + N.of_nat (length (b :: bs)) = size ->
  fold_res step ((b :: bs) ++ rest) (upd_d s0 {| d_i := k; d_st := st |})
  = fold_res step rest (upd_d s0 (d_next next)).
Proof.
  induction bs as [|b' bs IH]; intros b rest s0 k Hq Hlen.
  - cbn [app length] in *. rewrite fold_res_cons.
    rewrite Hstep by (first [apply HQ; exact Hq | rewrite Hget; cbn [d_i d_st]; try reflexivity; lia]).
    cbn [bind]. rewrite Hget, Hupd. unfold d_when, d_inc. cbn [d_i d_st].
    replace (k + 1 =? size) with true by (symmetry; apply N.eqb_eq; lia). reflexivity.
  - change ((b :: b' :: bs) ++ rest) with (b :: ((b' :: bs) ++ rest)).
    cbn [length] in Hlen. rewrite fold_res_cons.
    rewrite Hstep by (first [apply HQ; exact Hq | rewrite Hget; cbn [d_i d_st]; try reflexivity; lia]).
    cbn [bind]. rewrite Hget, Hupd. unfold d_when, d_inc. cbn [d_i d_st].
    replace (k + 1 =? size) with false by (symmetry; apply N.eqb_neq; lia).
    apply IH; [exact Hq | cbn [length]; lia].
Qed.

Lemma fold_skipq bs rest s :
  Q s -> N.of_nat (length bs) = size -> 0 < size -> get_d s = {| d_i := 0; d_st := st |} ->
  fold_res step (bs ++ rest) s = fold_res step rest (upd_d s (d_next next)).
Proof.
  intros Hq Hlen Hpos Hd. destruct bs as [|b bs]; [cbn in Hlen; lia|].
  rewrite <- (Hid s) at 1. rewrite Hd. apply fold_skipq_aux; [exact Hq | lia].
Qed.
End SkipQ.

(* a state that ignores its input *)
Lemma fold_res_stuck {S} (step : S -> N -> res S) (P : S -> Prop) :
  (forall s b, P s -> step s b = Ok s) ->
  forall data s, P s -> fold_res step data s = Ok s.
Proof.
  intros H data. induction data as [|b t IH]; intros s Hs; [reflexivity|].
  rewrite fold_res_cons, H by exact Hs. cbn [bind]. apply IH. exact Hs.
Qed.

(* delegation: a layer whose step hands every byte to an inner parser *)
Lemma fold_res_delegate {S T} (step : S -> N -> res S) (inner : T -> N -> res T)
      (get : S -> option T) (set : S -> T -> S) (P : S -> Prop) :
  (forall s p b, P s -> get s = Some p -> step s b = do p' <- inner p b; Ok (set s p')) ->
  (forall s p, P s -> P (set s p)) ->
  (forall s p, get (set s p) = Some p) ->
  (forall s p p', set (set s p) p' = set s p') ->
  forall data s p, P s -> get s = Some p ->
    fold_res step data s = do p' <- fold_res inner data p; Ok (match data with [] => s | _ => set s p' end).
Proof.
  intros Hstep HP Hget Hset data. induction data as [|b t IH]; intros s p Hs Hp.
  - reflexivity.
  - rewrite !fold_res_cons, (Hstep s p b Hs Hp).
    destruct (inner p b) as [p1|site]; cbn [bind]; [|reflexivity].
    rewrite (IH (set s p1) p1 (HP s p1 Hs) (Hget s p1)).
    destruct t as [|b1 t]; [reflexivity|].
    destruct (fold_res inner (b1 :: t) p1) as [p2|site]; cbn [bind]; [|reflexivity].
    rewrite Hset; reflexivity.
Qed.

(* ====================================================================== *)
(*                          NetBIOS session layer                         *)
(* ====================================================================== *)
(* the reply wrapper of NBTSession::repl *)
Definition nbt_wrap (o : option bytes) : res (option bytes) :=
  match o with
  | None => Ok None
  | Some r =>
    let size := N.land (lenN r) 131071 in
    let hi := N.land (N.shiftr (size mod W32) 16) 255 in
    if 256 <=? hi then Panic PANIC_NBT_SIZE
    else Ok (Some ([0; hi] ++ be16 (N.land size 65535) ++ r))
  end.

Section NBTRun.
Variable T : Type.
Variable t_new : T.
Variable t_byte : T -> N -> res T.
Variable t_repl : T -> option bytes.

Lemma nbt_repl_wrap s p : nb_pay T s = Some p -> nbt_repl T t_repl s = nbt_wrap (t_repl p).
Proof. intros H. unfold nbt_repl, nbt_wrap. rewrite H. reflexivity. Qed.

Lemma nbt_prefix t f a b : exists l,
  fold_res (nbt_byte T t_new t_byte) [t; f; a; b] (nbt_new T)
  = Ok {| nb_d := {| d_i := 0; d_st := 3 |}; nb_type := t; nb_len := l; nb_pay := None |}.
Proof. eexists. reflexivity. Qed.

Lemma nbt_fold_payload t f a b x data : exists l,
  fold_res (nbt_byte T t_new t_byte) ([t; f; a; b] ++ x :: data) (nbt_new T)
  = do p <- fold_res t_byte (x :: data) t_new;
    Ok {| nb_d := {| d_i := 0; d_st := 3 |}; nb_type := t; nb_len := l; nb_pay := Some p |}.
Proof.
  destruct (nbt_prefix t f a b) as [l Hl]. exists l.
  rewrite fold_res_app, Hl. cbn [bind].
  rewrite !fold_res_cons.
  unfold nbt_byte at 1. cbn [nb_d d_st nb_pay].
  change (3 =? NB_TYPE) with false. change (3 =? NB_RESERVED) with false. change (3 =? NB_LENGTH) with false.
  cbv iota.
  destruct (t_byte t_new x) as [p1|site]; cbn [bind]; [|reflexivity].
  rewrite (fold_res_delegate (nbt_byte T t_new t_byte) t_byte (nb_pay T) (fun s p => set_nb_pay T s (Some p))
             (fun s => d_st (nb_d T s) = 3)) with (p := p1).
  - destruct data as [|b1 data].
    + reflexivity.
    + destruct (fold_res t_byte (b1 :: data) p1) as [p2|site]; cbn [bind]; reflexivity.
  - intros s p b0 Hs Hp. unfold nbt_byte. rewrite Hs, Hp.
    change (3 =? NB_TYPE) with false. change (3 =? NB_RESERVED) with false. change (3 =? NB_LENGTH) with false.
    reflexivity.
  - intros s p Hs. exact Hs.
  - reflexivity.
  - reflexivity.
  - reflexivity.
  - reflexivity.
Qed.

Lemma nbt_run_payload t f a b x data :
  nbt_run T t_new t_byte t_repl ([t; f; a; b] ++ x :: data)
  = do p <- fold_res t_byte (x :: data) t_new; nbt_wrap (t_repl p).
Proof.
  unfold nbt_run. destruct (nbt_fold_payload t f a b x data) as [l ->].
  destruct (fold_res t_byte (x :: data) t_new) as [p|site]; cbn [bind]; [|reflexivity].
  apply nbt_repl_wrap. reflexivity.
Qed.

Lemma nbt_fold_payload' t f a b data : data <> [] -> exists l,
  fold_res (nbt_byte T t_new t_byte) ([t; f; a; b] ++ data) (nbt_new T)
  = do p <- fold_res t_byte data t_new;
    Ok {| nb_d := {| d_i := 0; d_st := 3 |}; nb_type := t; nb_len := l; nb_pay := Some p |}.
Proof. destruct data; [congruence|]. intros _. apply nbt_fold_payload. Qed.

Lemma nbt_run_payload' t f a b data : data <> [] ->
  nbt_run T t_new t_byte t_repl ([t; f; a; b] ++ data)
  = do p <- fold_res t_byte data t_new; nbt_wrap (t_repl p).
Proof. destruct data; [congruence|]. intros _. apply nbt_run_payload. Qed.

(* fewer than five bytes: no payload parser, no reply *)
Lemma nbt_run_header_only t f a b :
  nbt_run T t_new t_byte t_repl [t; f; a; b] = Ok None.
Proof.
  unfold nbt_run. destruct (nbt_prefix t f a b) as [l ->]. reflexivity.
Qed.
End NBTRun.

(* the wrapper on a reply shorter than 2^17: type 0, E bit, 16 low bits *)
Lemma nbt_wrap_small r : lenN r < 131072 ->
  nbt_wrap (Some r) = Ok (Some ([0; lenN r / 65536] ++ be16 (lenN r mod 65536) ++ r)).
Proof.
  intros H. unfold nbt_wrap. cbv zeta.
  change 131071 with (N.ones 17). change 65535 with (N.ones 16). change 255 with (N.ones 8).
  rewrite !N.land_ones. rewrite N.shiftr_div_pow2.
  change (2 ^ 17) with 131072. change (2 ^ 16) with 65536. change (2 ^ 8) with 256.
  rewrite (N.mod_small (lenN r) 131072) by exact H.
  rewrite (N.mod_small (lenN r) W32) by (unfold W32; lia).
  assert (Hq : lenN r / 65536 < 2) by (apply N.div_lt_upper_bound; lia).
  rewrite (N.mod_small (lenN r / 65536) 256) by lia.
  destruct (256 <=? lenN r / 65536) eqn:E; [lia | reflexivity].
Qed.

(* ... read back by the reference reader *)
Lemma dec_nbt_exact_wrap r : lenN r < 131072 ->
  dec_nbt_exact ([0; lenN r / 65536] ++ be16 (lenN r mod 65536) ++ r) = Some r.
Proof.
  intros H. unfold dec_nbt_exact, rd_nbt, be16. cbn [app].
  assert (Hq : lenN r / 65536 < 2) by (apply N.div_lt_upper_bound; lia).
  change (0 =? 0) with true. cbn [andb].
  destruct (lenN r / 65536 <? 2) eqn:E; [|lia].
  replace (lenN r / 65536 * 65536 + lenN r mod 65536 / 256 mod 256 * 256 + lenN r mod 65536 mod 256)
    with (lenN r) by lia.
  rewrite N.eqb_refl. reflexivity.
Qed.

(* ====================================================================== *)
(*             reference readers applied to encoded values                *)
(* ====================================================================== *)
Lemma rd_le16_le16 x t : x < 65536 -> rd_le16 (le16 x ++ t) = Some (x, t).
Proof. intros H. unfold rd_le16, le16. cbn [app]. f_equal. f_equal. lia. Qed.
Lemma rd_le32_le32 x t : x < 4294967296 -> rd_le32 (le32 x ++ t) = Some (x, t).
Proof. intros H. unfold rd_le32, le32. cbn [app]. f_equal. f_equal. lia. Qed.
Lemma rd_le64_le64 x t : x < W64 -> rd_le64 (le64 x ++ t) = Some (x, t).
Proof.
  intros H. unfold rd_le64, le64. rewrite <- app_assoc.
  rewrite rd_le32_le32 by lia. rewrite rd_le32_le32 by (unfold W64 in H; lia).
  f_equal. f_equal. unfold W64 in H. lia.
Qed.
Lemma rd_le32_le32_wrap x t : rd_le32 (le32 x ++ t) = Some (x mod 4294967296, t).
Proof. unfold rd_le32, le32. cbn [app]. f_equal. f_equal. lia. Qed.
Lemma rd_le64_le64_wrap x t : rd_le64 (le64 x ++ t) = Some (x mod W64, t).
Proof.
  unfold rd_le64, le64. rewrite <- app_assoc. rewrite !rd_le32_le32_wrap. f_equal. f_equal. unfold W64. lia.
Qed.
Lemma rd_take_app n a t : length a = n -> rd_take n (a ++ t) = Some (a, t).
Proof.
  intros H. unfold rd_take. rewrite app_length.
  destruct (length a + length t <? n)%nat eqn:E; [apply Nat.ltb_lt in E; lia|].
  subst n. rewrite firstn_app, Nat.sub_diag, firstn_all, skipn_app, Nat.sub_diag, skipn_all.
  cbn [firstn skipn]. rewrite app_nil_r. reflexivity.
Qed.
Lemma rd_take_all n a : length a = n -> rd_take n a = Some (a, []).
Proof. intros H. rewrite <- (app_nil_r a) at 1. apply rd_take_app. exact H. Qed.
