(* Proofs/PendingBound.v -- soundness of the check of Spec/PendingBound.v, for every table:
   if [ident_bound_ok t L] then a string of at least [L] bytes that completes no signature
   has no extension that completes one. *)
From Coq Require Import Lia.
From MS Require Import Smack Proofs.Tactics Proofs.SmackSeg Spec.C10 Spec.PendingBound Proofs.C10Sound.

Lemma memN_In x l : memN x l = true <-> In x l.
Proof.
  unfold memN. rewrite existsb_exists. split.
  - intros (y & Hy & He). apply N.eqb_eq in He. subst. exact Hy.
  - intros H. exists x. split; [exact H|apply N.eqb_refl].
Qed.

Lemma add_row_In acc y x : In x (add_row acc y) <-> x = y \/ In x acc.
Proof.
  unfold add_row. destruct (memN y acc) eqn:H.
  - apply memN_In in H. split; [auto|]. intros [->|H']; assumption.
  - cbn [In]. split; intros [H'|H']; auto.
Qed.

Lemma add_rows_In xs : forall acc x, In x (add_rows acc xs) <-> In x xs \/ In x acc.
Proof.
  unfold add_rows. induction xs as [|y xs IH]; intros acc x; cbn [fold_left In].
  - tauto.
  - rewrite IH, add_row_In. split; intros H; intuition auto.
Qed.

Lemma sym_in_cols t b : b < 256 -> In (sm_sym t (N.to_nat b)) (byte_cols t).
Proof.
  intros Hb. unfold byte_cols. apply add_rows_In. left. apply in_map. apply in_seq. lia.
Qed.

Lemma m_run_app t a b : forall row,
  m_run t row (a ++ b) = match m_run t row a with MAcc i => MAcc i | MCont r => m_run t r b end.
Proof.
  induction a as [|x a IH]; intros row; cbn [m_run app]; [reflexivity|].
  destruct (m_step t row x); [apply IH|reflexivity].
Qed.

Lemma m_step_cont t row b r : m_step t row b = MCont r ->
  r = sm_next t row (sm_sym t (N.to_nat b)) /\ r < sm_match_limit t.
Proof.
  unfold m_step. destruct (sm_match_limit t <=? _) eqn:H; [discriminate|].
  intros E. inversion E. split; [reflexivity|]. apply N.leb_gt in H. subst r. exact H.
Qed.

Lemma next_layer_In t cols l x : In x (next_layer t cols l) <->
  exists r c, In r l /\ In c cols /\ x = sm_next t r c /\ x < sm_match_limit t.
Proof.
  unfold next_layer.
  assert (forall acc, In x (fold_left (fun acc r => add_rows acc (row_succs t cols r)) l acc) <->
            (exists r, In r l /\ In x (row_succs t cols r)) \/ In x acc) as H.
  { induction l as [|r l IH]; intros acc; cbn [fold_left In].
    - split; [auto|]. intros [(r & [] & _)|H]; exact H.
    - rewrite IH, add_rows_In. split.
      + intros [(r' & Hr' & Hx)|[Hx|Hx]]; eauto.
      + intros [(r' & [<-|Hr'] & Hx)|Hx]; eauto. }
  rewrite H. split.
  - intros [(r & Hr & Hx)|[]]. unfold row_succs in Hx. apply filter_In in Hx. destruct Hx as [Hx Hl].
    apply in_map_iff in Hx. destruct Hx as (c & <- & Hc). exists r, c. apply N.ltb_lt in Hl. auto.
  - intros (r & c & Hr & Hc & -> & Hl). left. exists r. split; [exact Hr|].
    unfold row_succs. apply filter_In. split; [apply in_map; exact Hc|apply N.ltb_lt; exact Hl].
Qed.

Lemma bytes_ok_cons_inv b p : bytes_ok (b :: p) = true -> b < 256 /\ bytes_ok p = true.
Proof. unfold bytes_ok. cbn [forallb]. unfold byte_ok. rewrite andb_true_iff, N.ltb_lt. tauto. Qed.

(* the row after [p] without a match lies in the layer of its depth *)
Lemma m_run_layer t p : forall row k r, bytes_ok p = true ->
  In row (layer t k) -> m_run t row p = MCont r -> In r (layer t (k + length p)).
Proof.
  induction p as [|b p IH]; intros row k r Hb Hin H; cbn [m_run length] in *.
  - inversion H; subst. rewrite Nat.add_0_r. exact Hin.
  - destruct (bytes_ok_cons_inv _ _ Hb) as [Hb1 Hb2].
    destruct (m_step t row b) as [r1|i] eqn:Hs; [|discriminate].
    destruct (m_step_cont t row b r1 Hs) as [Hr1 Hl1].
    replace (k + S (length p))%nat with (S k + length p)%nat by lia.
    apply (IH r1 (S k) r Hb2); [|exact H]. unfold layer. cbn [layer_c]. apply next_layer_In.
    exists row, (sm_sym t (N.to_nat b)). split; [exact Hin|]. split; [apply sym_in_cols; exact Hb1|]. split; assumption.
Qed.

Section Dead.
  Variables (t : smack) (l : list N).
  Hypothesis Hd : layer_dead t l = true.

  Lemma layer_dead_step r c : In r l -> In c (byte_cols t) ->
    sm_next t r c < sm_match_limit t /\ In (sm_next t r c) l.
  Proof.
    intros Hr Hc. unfold layer_dead, layer_dead_c in Hd. rewrite forallb_forall in Hd.
    specialize (Hd r Hr). rewrite forallb_forall in Hd. specialize (Hd c Hc). cbv zeta in Hd.
    apply andb_true_iff in Hd. destruct Hd as [H1 H2]. apply N.ltb_lt in H1. apply memN_In in H2. split; assumption.
  Qed.

  Lemma dead_m_run p : forall r, bytes_ok p = true -> In r l -> exists r', m_run t r p = MCont r' /\ In r' l.
  Proof.
    induction p as [|b p IH]; intros r Hb Hr; cbn [m_run]; [eauto|].
    destruct (bytes_ok_cons_inv _ _ Hb) as [Hb1 Hb2].
    destruct (layer_dead_step r _ Hr (sym_in_cols t b Hb1)) as [Hl Hi].
    unfold m_step. replace (sm_match_limit t <=? _) with false by (symmetry; apply N.leb_gt; exact Hl).
    apply IH; assumption.
  Qed.

  Lemma next_layer_closed l' : incl l' l -> incl (next_layer t (byte_cols t) l') l.
  Proof.
    intros Hi x Hx. apply next_layer_In in Hx. destruct Hx as (r & c & Hr & Hc & -> & _).
    apply layer_dead_step; [apply Hi; exact Hr|exact Hc].
  Qed.
End Dead.

Lemma layer_stable t L : ident_bound_ok t L = true -> forall j, incl (layer t (L + j)) (layer t L).
Proof.
  intros Hd. induction j as [|j IH].
  - rewrite Nat.add_0_r. apply incl_refl.
  - replace (L + S j)%nat with (S (L + j)) by lia. unfold layer at 1. cbn [layer_c].
    apply (next_layer_closed t (layer t L) Hd). exact IH.
Qed.

(* the statement, row by row *)
Theorem bound_m_run t L s a r : ident_bound_ok t L = true -> (L <= length s)%nat ->
  bytes_ok (s ++ a) = true ->
  m_run t BASE_STATE s = MCont r -> exists r', m_run t BASE_STATE (s ++ a) = MCont r'.
Proof.
  intros Hd Hlen Hb Hs. rewrite m_run_app, Hs.
  rewrite bytes_ok_app in Hb. apply andb_true_iff in Hb. destruct Hb as [Hbs Hba].
  assert (In r (layer t L)) as Hr.
  { pose proof (m_run_layer t s BASE_STATE 0 r Hbs (or_introl eq_refl) Hs) as H. cbn [Nat.add] in H.
    apply (layer_stable t L Hd (length s - L)). replace (L + (length s - L))%nat with (length s) by lia. exact H. }
  destruct (dead_m_run t (layer t L) Hd a r Hba Hr) as (r' & Hr' & _). exists r'. exact Hr'.
Qed.

(* ... and in terms of the identification over TCP *)
Theorem ident_bound t L : smack_ok t = true -> sm_rows t <= TWO24 ->
  0 < sm_rows t -> 0 < sm_match_limit t -> ident_bound_ok t L = true ->
  forall s a, (L <= length s)%nat -> bytes_ok (s ++ a) = true ->
    tcp_first_id_tbl t s = None -> tcp_first_id_tbl t (s ++ a) = None.
Proof.
  intros Hok Hsz H0 H1 Hd s a Hlen Hb Hs.
  rewrite (tcp_id_m_run t Hok Hsz s H0 H1) in Hs. rewrite (tcp_id_m_run t Hok Hsz (s ++ a) H0 H1).
  destruct (m_run t BASE_STATE s) as [r|i] eqn:Hr; [|discriminate Hs].
  destruct (bound_m_run t L s a r Hd Hlen Hb Hr) as (r' & Hr'). rewrite Hr'. reflexivity.
Qed.

(* contrapositive: a signature is completed within the first [L] bytes, or never *)
Corollary ident_within t L : smack_ok t = true -> sm_rows t <= TWO24 ->
  0 < sm_rows t -> 0 < sm_match_limit t -> ident_bound_ok t L = true ->
  forall s a i, bytes_ok (s ++ a) = true ->
    tcp_first_id_tbl t s = None -> tcp_first_id_tbl t (s ++ a) = Some i ->
    (length s < L)%nat.
Proof.
  intros Hok Hsz H0 H1 Hd s a i Hb Hs Hsa.
  destruct (Nat.lt_ge_cases (length s) L) as [Hlt|Hge]; [exact Hlt|].
  rewrite (ident_bound t L Hok Hsz H0 H1 Hd s a Hge Hb Hs) in Hsa. discriminate.
Qed.
