(* Spec/C07.v -- TCP data is accepted only behind a valid cookie; seq/ack arithmetic is exact. *)
From MS Require Export Spec.TcpRef Spec.RefDec Spec.View.

(* [accepted]: the flow has been validated before, or this segment presents the
   cookie. The monitor is parameterised by that bit so that it can be used both
   with the implementation's table (state-level theorem) and with the reference
   state (history-level theorem). *)
Definition ok_C07_with (accepted : bool) (cfg : config) (f : bytes) (r : option bytes) : bool :=
  match view_tcp cfg f with
  | None => true
  | Some v =>
    let p := v_l4 v in
    let fl := tcp_flags p in
    let seq := u32_at 4 p in
    let ack := u32_at 8 p in
    if is_data fl then
      if accepted then
        match r with
        | None => false
        | Some rf =>
          match dec_frame_tcp rf with
          | None => false
          | Some (_, _, t) =>
            testbit (dt_flags t) 16 &&
            (* exactly ACK, or ACK|PSH iff it carries application data *)
            (if (length (dt_payload t) =? 0)%nat then dt_flags t =? 16 else dt_flags t =? 24) &&
            (dt_seq t =? ack) &&
            (dt_ack t =? wrap32 (seq + lenN (tcp_payload p)))
          end
        end
      else match r with None => true | Some _ => false end
    else if fl =? 17 then      (* bare FIN|ACK *)
      match r with
      | None => false
      | Some rf =>
        match dec_frame_tcp rf with
        | None => false
        | Some (_, _, t) =>
          (dt_flags t =? 17) && (dt_ack t =? wrap32 (seq + 1)) && (dt_seq t =? ack) &&
          (length (dt_payload t) =? 0)%nat
        end
      end
    else if (fl =? 16) || (fl =? 4) then   (* bare ACK, bare RST *)
      match r with None => true | Some _ => false end
    else true
  end.

(* history-level monitor: acceptance decided by the reference state *)
Definition ok_C07 (cfg : config) (st : ref_state) (f : bytes) (r : option bytes) : bool :=
  match view_tcp cfg f with
  | None => true
  | Some v => ok_C07_with (ref_mem (flow_of v) st || presents_cookie cfg v) cfg f r
  end.
