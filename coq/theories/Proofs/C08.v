(* Proofs/C08.v *)
From MS Require Import Proofs.Tactics Proofs.Pipeline Proofs.ViewLemmas Proofs.C06 Proofs.TcpState Proofs.C09 Proofs.C07
     L2 Spec.View Spec.TcpRef Spec.C08 Spec.C09 Spec.History.

Lemma find_set_same k v tb : tbl_find k (tbl_set k v tb) = Some v.
Proof.
  induction tb as [|[k' v'] tb IH]; cbn [tbl_set tbl_find].
  - rewrite N.eqb_refl. reflexivity.
  - destruct (k =? k') eqn:E; cbn [tbl_find]; [rewrite N.eqb_refl; reflexivity|].
    rewrite E. exact IH.
Qed.

Lemma find_set_other k k' v tb : k <> k' -> tbl_find k (tbl_set k' v tb) = tbl_find k tb.
Proof.
  intros Hne. induction tb as [|[k2 v2] tb IH]; cbn [tbl_set tbl_find].
  - assert (k =? k' = false) as -> by lia. reflexivity.
  - destruct (k' =? k2) eqn:E; cbn [tbl_find].
    + assert (k2 = k') as -> by lia. assert (k =? k' = false) as -> by lia. reflexivity.
    + destruct (k =? k2); [reflexivity|exact IH].
Qed.

(* tcp_repl reads the table only at the flow's cookie *)
Lemma tcp_repl_local E cfg clk tb1 tb2 f v :
  let ck := flow_cookie cfg (flow_of v) in
  tbl_find ck tb1 = tbl_find ck tb2 ->
  match tcp_repl E cfg clk tb1 (l3_ci f v) (v_l4 v), tcp_repl E cfg clk tb2 (l3_ci f v) (v_l4 v) with
  | Ok (t1, c1, o1, e1), Ok (t2, c2, o2, e2) =>
    o1 = o2 /\ tbl_find ck t1 = tbl_find ck t2
  | Panic s1, Panic s2 => s1 = s2
  | _, _ => False
  end.
Proof.
  cbv zeta. intros Hfind. unfold tcp_repl. rewrite cookie_ci_l3.
  unfold flow_cookie, flow_of in Hfind. cbn [fl_src fl_dst fl_sport fl_dport] in Hfind.
  unfold flow_cookie, flow_of. cbn [fl_src fl_dst fl_sport fl_dport].
  set (ck := cookie (c_key0 cfg) (c_key1 cfg) (v_src v) (v_dst v) (u16_at 0 (v_l4 v)) (u16_at 2 (v_l4 v))) in *.
  destruct (tcp_class (tcp_flags (v_l4 v))); cbv zeta.
  - unfold tbl_mem. rewrite Hfind.
    destruct (negb match tbl_find ck tb2 with Some _ => true | None => false end && _).
    + split; [reflexivity|exact Hfind].
    + destruct (proto_repl_tcp _ _ _ _ _) as [[[ci2 tc'] out]|s]; cbn [bind]; [|reflexivity].
      destruct out as [d|];
        (destruct (ci_port_dst ci2); [|reflexivity]; destruct (ci_port_src ci2); [|reflexivity]);
        (split; [reflexivity|rewrite !find_set_same; reflexivity]).
  - split; [reflexivity|exact Hfind].
  - split; [reflexivity|exact Hfind].
  - unfold l3_ci. cbn. split; [reflexivity|exact Hfind].
  - unfold l3_ci. cbn. split; [reflexivity|exact Hfind].
  - split; [reflexivity|exact Hfind].
Qed.

(* reply() on a TCP frame: outcome and own entry are functions of the own entry *)
Lemma reply_local E cfg clk tb1 tb2 f v :
  view_tcp cfg f = Some v ->
  let ck := flow_cookie cfg (flow_of v) in
  tbl_find ck tb1 = tbl_find ck tb2 ->
  match reply E cfg clk tb1 f, reply E cfg clk tb2 f with
  | Ok (t1, r1, _), Ok (t2, r2, _) => r1 = r2 /\ tbl_find ck t1 = tbl_find ck t2
  | Panic s1, Panic s2 => s1 = s2
  | _, _ => False
  end.
Proof.
  intros Hvt ck Hfind.
  pose proof (reply_tcp E cfg clk tb1 f v Hvt) as F1.
  pose proof (reply_tcp E cfg clk tb2 f v Hvt) as F2.
  pose proof (tcp_repl_local E cfg clk tb1 tb2 f v Hfind) as L.
  destruct (tcp_repl E cfg clk tb1 (l3_ci f v) (v_l4 v)) as [[[[t1 c1] o1] e1]|s1];
    destruct (tcp_repl E cfg clk tb2 (l3_ci f v) (v_l4 v)) as [[[[t2 c2] o2] e2]|s2]; try contradiction.
  - destruct L as [-> L].
    destruct (reply E cfg clk tb1 f) as [[[a1 b1] x1]|p1]; cbn [strip] in F1; [|destruct o2; discriminate].
    destruct (reply E cfg clk tb2 f) as [[[a2 b2] x2]|p2]; cbn [strip] in F2; [|destruct o2; discriminate].
    destruct o2; apply ok_pair_inj in F1; apply ok_pair_inj in F2;
      destruct F1 as [-> ->]; destruct F2 as [-> ->]; (split; [reflexivity|exact L]).
  - subst s2.
    destruct (reply E cfg clk tb1 f) as [[[a1 b1] x1]|p1]; cbn [strip] in F1; [discriminate|].
    destruct (reply E cfg clk tb2 f) as [[[a2 b2] x2]|p2]; cbn [strip] in F2; [discriminate|].
    congruence.
Qed.

(* a frame of another flow (or not a data segment) does not touch the entry of [fl] *)
Lemma foreign_frame_keeps_entry E cfg clk tb g tb' r evs fl :
  bytes_ok g = true ->
  own_data cfg fl g = false ->
  (forall v, view_tcp cfg g = Some v -> is_data (tcp_flags (v_l4 v)) = true ->
             flow_cookie cfg (flow_of v) = flow_cookie cfg fl -> flow_of v = fl) ->
  reply E cfg clk tb g = Ok (tb', r, evs) ->
  tbl_find (flow_cookie cfg fl) tb' = tbl_find (flow_cookie cfg fl) tb.
Proof.
  intros Hg Hown Hnc Hr. pose proof (reply_table_step _ _ _ _ _ _ _ _ Hg Hr) as T.
  unfold own_data in Hown.
  destruct (view_tcp cfg g) as [v|]; [|subst; reflexivity].
  cbv zeta in T. destruct (is_data (tcp_flags (v_l4 v))) eqn:Hd; cbn [andb] in *; [|subst; reflexivity].
  destruct (_ || _); [|subst; reflexivity].
  destruct T as (tc' & ->). apply find_set_other. intros Heq.
  symmetry in Heq. pose proof (Hnc v eq_refl Hd Heq) as X. rewrite X in Hown.
  rewrite flow_eqb_refl in Hown. discriminate.
Qed.

(* frames that are not TCP segments are answered without looking at the table *)
Lemma non_tcp_table_irrelevant E cfg clk tb1 tb2 f :
  view_tcp cfg f = None ->
  outcome E cfg clk tb1 f = outcome E cfg clk tb2 f.
Proof.
  intros Hv. unfold outcome, reply, eth_repl. unfold view_tcp, view in Hv.
  destruct (length f <? 14)%nat; [reflexivity|].
  destruct (auth_mac cfg (slice 0 6 f)); cbn [negb] in *; [|reflexivity].
  destruct (u16_at 12 f =? 2054) eqn:Ea.
  { destruct (length (skipn 14 f) <? 28)%nat; [reflexivity|].
    destruct (arp_repl cfg (skipn 14 f)) as [[x|] e]; reflexivity. }
  destruct (u16_at 12 f =? 2048) eqn:E4.
  { destruct (length (skipn 14 f) <? 20)%nat; [reflexivity|].
    unfold ipv4_repl.
    destruct (match c_self cfg with Some l => negb (ip_in (V4 (slice 16 4 (skipn 14 f))) l) | None => false end) eqn:Es;
      [reflexivity|].
    destruct (match c_deny cfg with Some l => ip_in (V4 (slice 12 4 (skipn 14 f))) l | None => false end) eqn:Ed;
      [reflexivity|].
    rewrite (in_scope_v4_conv _ _ _ Es Ed) in Hv. cbn [v_proto v_l4] in Hv.
    destruct (u8_at 9 (skipn 14 f) =? 1) eqn:P1.
    { destruct (length (ipv4_payload (skipn 14 f)) <? 4)%nat; [reflexivity|].
      destruct (icmpv4_repl _ _) as [[x|] e]; reflexivity. }
    destruct (u8_at 9 (skipn 14 f) =? 6) eqn:P6.
    { destruct (length (ipv4_payload (skipn 14 f)) <? 20)%nat eqn:L; [reflexivity|].
      exfalso. cbn [andb] in Hv.
      assert ((20 <=? length (ipv4_payload (skipn 14 f)))%nat = true) as X by lia.
      rewrite X in Hv. discriminate. }
    destruct (u8_at 9 (skipn 14 f) =? 17) eqn:P17.
    { destruct (length (ipv4_payload (skipn 14 f)) <? 8)%nat; [reflexivity|].
      destruct (udp_repl _ _ _ _ _) as [[[c [x|]] e]|s]; cbn [bind]; try reflexivity.
      destruct (65535 <? lenN x); reflexivity. }
    reflexivity. }
  destruct (u16_at 12 f =? 34525) eqn:E6; [|reflexivity].
  destruct (length (skipn 14 f) <? 40)%nat; [reflexivity|].
  unfold ipv6_repl.
  destruct (match c_self cfg with
            | Some l => negb (ip_in (V6 (slice 24 16 (skipn 14 f))) l) && negb (u8_at 6 (skipn 14 f) =? 58)
            | None => false end) eqn:Es; [reflexivity|].
  destruct (match c_deny cfg with Some l => ip_in (V6 (slice 8 16 (skipn 14 f))) l | None => false end) eqn:Ed;
    [reflexivity|].
  rewrite (in_scope_v6_conv _ _ _ _ Es Ed) in Hv. cbn [v_proto v_l4] in Hv.
  destruct (u8_at 6 (skipn 14 f) =? 58) eqn:P1.
  { destruct (length (ipv6_payload (skipn 14 f)) <? 4)%nat; [reflexivity|].
    destruct (icmpv6_repl _ _ _) as [[[x|] t] e]; reflexivity. }
  destruct (u8_at 6 (skipn 14 f) =? 6) eqn:P6.
  { destruct (length (ipv6_payload (skipn 14 f)) <? 20)%nat eqn:L; [reflexivity|].
    exfalso. cbn [andb] in Hv.
    assert ((20 <=? length (ipv6_payload (skipn 14 f)))%nat = true) as X by lia.
    rewrite X in Hv. discriminate. }
  destruct (u8_at 6 (skipn 14 f) =? 17) eqn:P17.
  { destruct (length (ipv6_payload (skipn 14 f)) <? 8)%nat; [reflexivity|].
    destruct (udp_repl _ _ _ _ _) as [[[c [x|]] e]|s]; cbn [bind]; reflexivity. }
  reflexivity.
Qed.

(* lockstep of the full and the restricted history on the entry of [fl] *)
Lemma run_restrict E cfg fl h : forall tb1 tb2 tb1',
  Forall (fun g => bytes_ok g = true) (frames h) ->
  no_collision_with cfg fl h ->
  tbl_find (flow_cookie cfg fl) tb1 = tbl_find (flow_cookie cfg fl) tb2 ->
  run E cfg tb1 h = Ok tb1' ->
  exists tb2', run E cfg tb2 (restrict cfg fl h) = Ok tb2' /\
               tbl_find (flow_cookie cfg fl) tb1' = tbl_find (flow_cookie cfg fl) tb2'.
Proof.
  induction h as [|[clk g] h IH]; intros tb1 tb2 tb1' Hall Hnc Hfind Hrun.
  - cbn in *. inversion Hrun; subst. exists tb2. split; [reflexivity|exact Hfind].
  - cbn [frames map snd] in Hall. inversion Hall as [|? ? Hg Hall']; subst.
    assert (no_collision_with cfg fl h) as Hnc'.
    { intros c x v Hin. apply (Hnc c x v). right. exact Hin. }
    cbn [run] in Hrun.
    destruct (reply E cfg clk tb1 g) as [[[t1 r1] e1]|s1] eqn:Hr1; [|discriminate].
    cbn [restrict filter snd]. destruct (own_data cfg fl g) eqn:Hown.
    + (* both runs process g *)
      unfold own_data in Hown. destruct (view_tcp cfg g) as [v|] eqn:Hvt; [|discriminate].
      apply andb_true_iff in Hown. destruct Hown as [_ Hfl]. apply flow_eqb_eq in Hfl. subst fl.
      pose proof (reply_local E cfg clk tb1 tb2 g v Hvt Hfind) as L. rewrite Hr1 in L.
      cbn [run]. destruct (reply E cfg clk tb2 g) as [[[t2 r2] e2]|s2]; [|contradiction].
      destruct L as [_ L]. apply (IH t1 t2 tb1' Hall' Hnc' L Hrun).
    + (* only the full run processes g *)
      assert (tbl_find (flow_cookie cfg fl) t1 = tbl_find (flow_cookie cfg fl) tb1) as K.
      { eapply foreign_frame_keeps_entry; try eassumption.
        intros v Hv Hd Hc. apply (Hnc clk g v); [left; reflexivity|exact Hv|exact Hd|exact Hc]. }
      apply (IH t1 tb2 tb1' Hall' Hnc'); [rewrite K; exact Hfind|exact Hrun].
Qed.

Theorem interference_free E cfg h clk f v tb1 :
  Forall (fun g => bytes_ok g = true) (frames h) ->
  view_tcp cfg f = Some v ->
  no_collision_with cfg (flow_of v) h ->
  run E cfg [] h = Ok tb1 ->
  exists tb2, run E cfg [] (restrict cfg (flow_of v) h) = Ok tb2 /\
              outcome E cfg clk tb1 f = outcome E cfg clk tb2 f.
Proof.
  intros Hall Hvt Hnc Hrun.
  destruct (run_restrict E cfg (flow_of v) h [] [] tb1 Hall Hnc eq_refl Hrun) as (tb2 & Hrun2 & Hfind).
  exists tb2. split; [exact Hrun2|].
  pose proof (reply_local E cfg clk tb1 tb2 f v Hvt Hfind) as L. unfold outcome.
  destruct (reply E cfg clk tb1 f) as [[[a1 b1] x1]|p1]; destruct (reply E cfg clk tb2 f) as [[[a2 b2] x2]|p2];
    try contradiction.
  - destruct L as [-> _]. reflexivity.
  - subst. reflexivity.
Qed.

(* frames that are not TCP segments: the reply does not depend on the history at all *)
Theorem non_tcp_history_irrelevant E cfg clk f tb1 tb2 :
  view_tcp cfg f = None ->
  outcome E cfg clk tb1 f = outcome E cfg clk tb2 f.
Proof. apply non_tcp_table_irrelevant. Qed.

(* the boolean class predicate implies the hypothesis of the theorem *)
Lemma collision_free_sound cfg fl h :
  collision_free cfg fl h = true -> no_collision_with cfg fl h.
Proof.
  unfold collision_free, no_collision_with. intros H clk g v Hin Hv Hd Hc.
  rewrite forallb_forall in H. specialize (H (clk, g) Hin). cbn [snd] in H.
  unfold collides in H. rewrite Hv, Hd in H. apply negb_true_iff in H.
  assert ((flow_cookie cfg (flow_of v) =? flow_cookie cfg fl) = true) as E by (apply N.eqb_eq; exact Hc).
  rewrite E in H. cbn [andb] in H. apply negb_false_iff in H. apply flow_eqb_eq. exact H.
Qed.

Theorem interference_free_bool E cfg h clk f v tb1 :
  Forall (fun g => bytes_ok g = true) (frames h) ->
  view_tcp cfg f = Some v ->
  collision_free cfg (flow_of v) h = true ->
  run E cfg [] h = Ok tb1 ->
  exists tb2, run E cfg [] (restrict cfg (flow_of v) h) = Ok tb2 /\
              outcome E cfg clk tb1 f = outcome E cfg clk tb2 f.
Proof.
  intros Hall Hv Hc. apply interference_free; try assumption. apply collision_free_sound. exact Hc.
Qed.
