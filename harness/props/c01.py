"""C01 -- no frame, history or configuration can crash the responder."""
import struct, random, importlib
import net, gens, runner, panic_sites
from common import *
from runner import Script, Cfg

ID = "C01"
THEOREMS = ["C01_no_panic_closed", "C01_histories_closed", "C01_current_env_small", "C01_no_panic", "C01_histories",
            "C01_table_invariant_initially", "C01_table_invariant_pending", "Env.the_env_ok"]
MONITORS = []
NEEDS_RELEASE = True
RULE = ("(a) every frame stream of the other properties' generators replayed under logger in {none, console, logfmt} x "
        "log level in {off, error..trace} (quick: a rotating subset); (b) the malformed stream: every truncation of one "
        "seed frame per protocol and layer, length-field lies {0,1,0x7f,0x80,0xff,len-1,len+1,0xffff} at every length "
        "field (IPv4 IHL/total length, IPv6 payload length, TCP data offset, UDP length, NDP option length, STUN length "
        "and attribute TLVs, DNS counts, RPC lengths, NBT/SMB counts), non-UTF-8 HTTP text, random byte mutations, text "
        "fields filled to every length boundary with multi-byte / invalid UTF-8 straddling it (under every log level), "
        "several complete requests on one established flow for every responder (second message meets the state the "
        "first left); on "
        "the dev (overflow-checking) and release builds; the observation is the outcome kind (reply / silence / panic) "
        "per frame, compared with the model; non-trivial = script with at least one frame that passes layer 2")
TRUSTED = ["Coq 8.16.1 kernel + vm_compute", "extraction (ExtrOcamlBasic) + ocaml/model_run.ml", "harness/*.py",
           "Rust hook verif_driver.rs (catch_unwind around the real reply())",
           "harness/panic_sites.py + panic_inventory.json (explicit panic sites and their disposition)",
           "pnet accessor semantics as modelled"]
ASSUMPTIONS = ["runtime failures outside the byte-level logic (memory exhaustion from the ever-growing table, stack depth, "
               "closed stdout, a system clock before 1970, panics inside dependencies on paths the model does not cover) "
               "are not exhibited by the model",
               "frames are at most 4096 bytes (capture buffer); the amplification bound that excludes the u16 length "
               "conversions needs it"]

LOGGERS = ["none", "console", "logfmt"]
LEVELS = [5, 0, 1, 2, 3, 4]


def corpus():
    # witnesses of the repaired panics (all must be answered or ignored, never abort)
    for lg, lv in (("none", 5), ("console", 4), ("logfmt", 1)):
        cfg = Cfg(logger=lg, level=lv, self_ips=[gens.SELF4, gens.SELF6])
        fr = [b"", b"\x00" * 5, b"\xc0\xff\xee\xc0\xff\xee\x0a\x0b\x0c\x0d\x0e\x0f\x08",
              gens.ns6(gens.PEER6, gens.SELF6, trunc=10), gens.ns6(gens.PEER6, gens.SELF6, trunc=0),
              gens.ns6(gens.PEER6, gens.SELF6, opts=b"\x01\x20" + b"\0" * 254),
              gens.ns6(gens.PEER6, gens.SELF6, opts=b"\x01\xff" + b"\0" * 30),
              net.frame_udp(gens.PEER4, gens.SELF4, 5, 80, b"GET /\xff\xfe HTTP/1.1\r\n\r\n"),
              net.frame_udp(gens.PEER4, gens.SELF4, 5, 80, b"GET / HTTP/1.1\r\nX: \xff\r\n\r\n")]
        for attrs in stun_bad_attrs():
            fr.append(net.frame_udp(gens.PEER4, gens.SELF4, 5, 3478, attrs))
        yield Script(cfg, fr, "corpus:repaired-panics")


def stun_bad_attrs():
    pad = gens.stun_attr(0x8022, b"x" * 252)
    outs = []
    for tail in [b"\x00\x01\x00\x08\x00\x03", b"\x00\x01\x00\x00\x00", b"\x00\x01\x00\x08\x00\x07" + b"\0" * 6,
                 b"\x00\x01\x00\x04\x00\x01\x00\x00", b"\x00\x01\x00\x08\x00\x02" + b"\0" * 6,
                 b"\x00\x03\x00\x00\x00", b"\x00\x03\x00\x02\x00\x00", b"\x00\x09\xff\xff\x00", b"\x00\x01\x00\x05" + b"\0" * 5]:
        body = pad + tail
        outs.append(gens.stun_req(attrs=body, magic=True))
    return outs


def seed_frames(rng):
    """One well-formed frame per protocol / layer (name, frame)."""
    out = []
    for v6 in (False, True):
        s, d = gens.addr_pair(v6)
        tag = "6" if v6 else "4"
        for name, p, t, u in gens.app_seeds():
            if u:
                out.append(("udp%s-%s" % (tag, name), net.frame_udp(s, d, 4321, 53, p)))
        out.append(("tcp%s-syn" % tag, net.frame_tcp(s, d, 1234, 80, 77, 0, 2)))
        out.append(("tcp%s-syn-opts" % tag, net.frame_tcp(s, d, 1234, 80, 77, 0, 2, doff=8, options=b"\x02\x04\x05\xb4" + b"\x01" * 8)))
        ck = net.cookie((0, 0), s, d, 1234, 80)
        out.append(("tcp%s-data" % tag, net.frame_tcp(s, d, 1234, 80, 78, (ck + 1) & 0xFFFFFFFF, 0x18, gens.http_req())))
    out += [("arp", gens.arp_req(gens.SELF4)), ("echo4", gens.echo4(gens.PEER4, gens.SELF4)),
            ("echo6", gens.echo6(gens.PEER6, gens.SELF6)),
            ("ns6", gens.ns6(gens.PEER6, gens.SELF6, mac_dst=net.MAC_SELF)),
            ("smb1", net.frame_udp(gens.PEER4, gens.SELF4, 5, 445, SMB1_NEG)),
            ("smb2", net.frame_udp(gens.PEER4, gens.SELF4, 5, 445, SMB2_NEG))]
    return out


SMB1_NEG = bytes.fromhex("00000054ff534d4272000000001843c80000000000000000000000000000feff0000000000310002") + \
    b"NT LANMAN 1.0\x00\x02NT LM 0.12\x00\x02SMB 2.002\x00\x02SMB 2.???\x00"
SMB2_NEG = bytes.fromhex("00000068fe534d42400000000000000000001f0000000000000000000700000000000000000000000000"
                         "000000000000000000000000000000000000000000000000000024000200010000007f000000"
                         "a0a1a2a3a4a5a6a7a8a9aaabacadaeaf780000000300000002021002")

LIES = [0, 1, 0x7f, 0x80, 0xff]


def malformed(rng, tier):
    seeds = seed_frames(rng)
    out = []
    for name, f in seeds:
        # every truncation
        step = 1 if tier == "thorough" or len(f) < 120 else 3
        out.append(("trunc:" + name, [f[:n] for n in range(0, len(f) + 1, step)]))
        # byte-level lies at every position of the first 120 bytes (headers and TLV heads)
        fr = []
        lim = min(len(f), 230 if tier == "quick" else 400)     # 230: past the fixed part of every seed request over IPv6
        for i in range(14, lim):
            for v in (LIES if tier == "thorough" else (0, 0xff, 0x80)):
                if f[i] != v:
                    fr.append(f[:i] + bytes([v]) + f[i + 1:])
            fr.append(f[:i] + bytes([(f[i] + 1) & 0xff]) + f[i + 1:])
        out.append(("lies:" + name, fr))
        # random mutations
        n = 30 if tier == "quick" else 400
        out.append(("mut:" + name, [gens.mutate_bytes(rng, f, rng.randrange(1, 4)) for _ in range(n)]))
    # IHL / data offset sweeps with short and long packets
    fr = []
    for ihl in range(16):
        for total in (0, 19, 20, 21, 40, 60, 0xffff):
            l4 = net.tcp(gens.PEER4, gens.SELF4, 1, 2, 3, 4, 2)
            fr.append(net.eth(net.MAC_SELF, net.MAC_PEER, 0x0800, net.ipv4(gens.PEER4, gens.SELF4, 6, l4, ihl=ihl, total=total)))
            fr.append(net.eth(net.MAC_SELF, net.MAC_PEER, 0x0800, net.ipv4(gens.PEER4, gens.SELF4, 17, b"\0\1\0\2\0\x08\0\0", ihl=ihl, total=total)))
    for doff in range(16):
        for extra in (0, 4, 40):
            fr.append(net.frame_tcp(gens.PEER4, gens.SELF4, 1, 2, 3, 4, 0x18, b"x" * extra, doff=doff))
            fr.append(net.frame_tcp(gens.PEER6, gens.SELF6, 1, 2, 3, 4, 0x02, b"x" * extra, doff=doff))
    for plen in (0, 1, 7, 8, 20, 39, 40, 41, 0xffff):
        fr.append(net.eth(net.MAC_SELF, net.MAC_PEER, 0x86DD, net.ipv6(gens.PEER6, gens.SELF6, 17, b"\0\1\0\2\0\x08\0\0" + b"y" * 30, plen=plen)))
        fr.append(net.eth(net.MAC_SELF, net.MAC_PEER, 0x86DD, net.ipv6(gens.PEER6, gens.SELF6, 58, net.icmp6(gens.PEER6, gens.SELF6, 135, 0, b"\0" * 30), plen=plen)))
    out.append(("header-length-sweeps", fr))
    # NDP option lengths
    fr = []
    for ln in (0, 1, 2, 31, 32, 33, 255):
        for body in (0, 6, 254):
            fr.append(gens.ns6(gens.PEER6, gens.SELF6, opts=bytes([1, ln]) + b"\0" * body, mac_dst=net.MAC_SELF))
    out.append(("ndp-options", fr))
    out.append(("stun-attrs", [net.frame_udp(gens.PEER4, gens.SELF4, 5, 3478, p) for p in stun_bad_attrs()]))
    out.append(("long-text", long_text(rng, tier)))
    out.append(("stateful-flows", stateful_flows(rng, tier)))
    out.append(("control-on-established", gens.control_on_established(rng, (0, 0))))
    return out


BOUNDARIES = [8, 15, 16, 17, 31, 32, 63, 64, 100, 127, 128, 129, 255, 256, 257, 511, 512, 513, 1000, 1023, 1024, 1025, 1400]
ODD_TEXT = [b"\xc3\xa9", b"\xe2\x82\xac", b"\xf0\x9f\x98\x80", b"\xff", b"\xc3", b"\x80", b"\xed\xa0\x80", b"\x00", b"\r", b"\x7f"]


def long_text(rng, tier):
    """Text fields that a log macro may format (HTTP method / target / header, SSH software and comment, SMB dialect
    names, RPC opaque bodies) filled up to every length boundary with a multi-byte, truncated or invalid UTF-8 sequence
    straddling the boundary: any slicing, width computation or conversion of untrusted text shows up as a panic when the
    log level evaluates the arguments."""
    fr = []
    odd = ODD_TEXT if tier == "thorough" else ODD_TEXT[:5]
    for n in BOUNDARIES:
        for o in odd:
            for k in range(len(o) + 1):
                # the odd sequence starts k bytes before offset n of the field
                fill = b"a" * max(0, n - k - 1)
                uri = b"/" + fill + o + b"zz"
                fr.append(net.frame_udp(gens.PEER4, gens.SELF4, 7, 80, b"GET " + uri + b" HTTP/1.1\r\nHost: x\r\n\r\n"))
                if k == 0:
                    fr.append(net.frame_udp(gens.PEER4, gens.SELF4, 7, 22, b"SSH-2.0-" + fill + o + b" c" + o + b"\r\n"))
                    fr.append(net.frame_udp(gens.PEER6, gens.SELF6, 7, 80,
                                            b"POST / HTTP/1.1\r\n" + fill[:200] + o + b": " + fill + o + b"\r\n\r\n"))
    # the same through TCP, request cut into segments around the boundary
    for n in (255, 256, 257, 1024):
        for o in odd[:3]:
            req = b"GET /" + b"a" * (n - 2) + o + b"zz HTTP/1.1\r\n\r\n"
            for cutat in (n, n + 1, n + 5):
                fr += gens.handshake((0, 0), gens.PEER4, gens.SELF4, 20000 + n + cutat % 7, 80, [req[:cutat], req[cutat:]])
    # SMB dialect names (logged with warn!) that are not UTF-8 / very long
    for o in odd[:4]:
        for n in (1, 9, 10, 11, 255, 256):
            dialects = b"\x02" + b"d" * (n - 1) + o + b"\x00\x02NT LM 0.12\x00"
            body = SMB1_NEG[4:4 + 33] + struct.pack("<H", len(dialects)) + dialects
            fr.append(net.frame_udp(gens.PEER4, gens.SELF4, 5, 445, b"\x00\x00" + struct.pack("!H", len(body)) + body))
    return fr


def stateful_flows(rng, tier):
    """Several complete requests on ONE established flow, for every responder that keeps per-flow state (HTTP, ONC-RPC)
    and, for contrast, those that do not: the second and later messages meet whatever the first one left behind."""
    key = (0, 0)
    rc = lambda **kw: gens.rpc_call(tcp=True, **kw)
    c1, c2, c3 = rc(xid=0x81000001, vers=2, proc=3), rc(xid=0xffffffff, prog=100003, vers=4, proc=4, cred=b"abcde"), \
        rc(xid=0x81ffffff, vers=0xffffffff, proc=0xff)
    rep = rc(xid=0x81000009, mtype=1)
    h1, h2 = gens.http_req(), gens.http_req(verb=b"DELETE", target=b"/" + b"\xff" * 30, headers=[])
    flows = [[c1, c2], [c1, c2, c3], [c1 + c2 + c3], [c1, rep, c2], [c1, c2[:9], c2[9:], c3], [c3, c3, c3, c3],
             [h1, h2], [h1, h2, h1], [h1 + h2], [h1, b"garbage\r\n\r\n", h2], [h1[:20], h1[20:], h2[:7], h2[7:]],
             [h1, c1], [c1, h1], [b"SSH-2.0-a\r\n", b"SSH-2.0-b\r\n"], [gens.stun_req(magic=True, attrs=gens.stun_attr(0x8022, b"x" * 252)),
                                                                         gens.stun_req(mtype=0x0101)],
             [SMB1_NEG, SMB1_NEG], [SMB2_NEG, SMB2_NEG, SMB2_NEG]]
    for banner in (b"SSH-2.0-probe\r\n", b"SSH-1.99-a b\r\r\n", b"Gh0st\x00\x00\x00"):
        for c in range(1, len(banner)):
            flows.append([banner[:c], banner[c:]])
    flows += [[b"SSH-2.0-probe\r", b"x\r\n"], [b"SSH-2.0-probe\r", b"\n"], [b"SSH-2.0-p\r", b"\r", b"\n"]]
    fr = []
    for i, segs in enumerate(flows):
        fr += gens.handshake(key, gens.PEER4, gens.SELF4, 30000 + i, 111, segs)
        fr += gens.handshake(key, gens.PEER6, gens.SELF6, 30000 + i, 80, segs)
    return fr


def other_streams(tier, rng):
    """Frame streams of the other properties' generators."""
    out = []
    for name in ("c02", "c03", "c04", "c05", "c07", "c09", "c13", "c14", "c15", "c16", "c17", "c18"):
        try:
            m = importlib.import_module("props." + name)
        except Exception:
            continue
        try:
            scripts = list(m.corpus()) + list(m.generate("quick", random.Random(rng.random())))
        except Exception:
            continue
        k = 10 if tier == "quick" else 60
        step = max(1, len(scripts) // k)
        for s in scripts[::step][:k]:         # spread over the whole stream, not its first scripts
            out.append((name + ":" + s.tag, s))
    return out


def generate(tier, rng):
    combos = [(lg, lv) for lg in LOGGERS for lv in LEVELS]
    k = 0
    for tag, frames in malformed(rng, tier):
        sel = combos if tier == "thorough" else [combos[k % len(combos)], combos[(k * 7 + 5) % len(combos)], ("console", 4)]
        if tag in ("long-text", "stateful-flows", "control-on-established") and tier != "thorough":
            sel = [("none", 5), ("none", 1), ("console", 1), ("logfmt", 2), ("console", 3), ("logfmt", 4)]
        k += 1
        for lg, lv in sel:
            for base in (Cfg(), Cfg(self_ips=[gens.SELF4, gens.SELF6], deny=[gens.DENY4])):
                yield Script(Cfg(mac=base.mac, self_ips=base.self_ips, deny=base.deny, key=(0, 0), logger=lg, level=lv),
                             frames, tag)
    for tag, s in other_streams(tier, rng):
        sel = combos if tier == "thorough" else [combos[k % len(combos)], ("logfmt", 4)]
        k += 1
        for lg, lv in sel:
            c = s.cfg
            yield Script(Cfg(mac=c.mac, self_ips=c.self_ips, deny=c.deny, key=c.key, logger=lg, level=lv), s.frames, tag)


def nontrivial(script):
    return any(len(f) >= 14 and f[:6] in (script.cfg.mac, b"\xff" * 6) for f in script.frames)


def project(script, i, o):
    return (o.kind,)


def static_checks():
    return panic_sites.compare()


def evaluate_custom(scripts, drivers):
    issues = []
    stats = {"frames": 0, "replies": 0, "silence": 0, "panics": 0, "monitor_evals": 0,
             "by_tag": {}, "by_logger_level": {}, "drivers": [d[0] for d in drivers]}
    for dname, driver in drivers:
        io = runner.run_impl(scripts, driver)
        mo = runner.run_model(scripts, io, ovf=(dname == "dev"))
        for si, s in enumerate(scripts):
            key = s.tag.split(":")[0]
            stats["by_tag"][key] = stats["by_tag"].get(key, 0) + len(s.frames)
            lk = "%s/%d" % (s.cfg.logger, s.cfg.level)
            stats["by_logger_level"][lk] = stats["by_logger_level"].get(lk, 0) + len(s.frames)
            for fi in range(len(s.frames)):
                a, b = io[si][fi], mo[si][fi]
                stats["frames"] += 1
                stats["monitor_evals"] += 1
                stats["replies" if a.kind == "R" else "silence" if a.kind == "N" else "panics"] += 1
                if a.kind not in ("R", "N"):
                    issues.append({"kind": "monitor", "script": Script(s.cfg, s.frames[:fi + 1], s.tag), "frame": fi,
                                   "driver": dname, "monitor": "C01-no-panic", "impl": a.kind + " " + a.panic, "model": b.short()})
                elif a.kind != b.kind:
                    issues.append({"kind": "correspondence", "script": Script(s.cfg, s.frames[:fi + 1], s.tag), "frame": fi,
                                   "driver": dname, "impl": a.kind, "model": b.kind + " " + b.panic})
    return issues, stats
