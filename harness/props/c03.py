"""C03 -- replies go back to the asker, from the identity that was asked."""
import net, gens
from runner import Script, Cfg

ID = "C03"
THEOREMS = ["C03_mirror", "C03_mirror_strict", "C03_reply_ethernet", "C03_reply_ip", "Env.the_env_ok"]
MONITORS = ["C03"]
RULE = ("every reply kind (ARP, echo v4/v6, NA, SYN-ACK, FIN-ACK, data ACK, each UDP/TCP application responder) over both "
        "IP versions with random addresses, MACs and ports including 0 and 65535, STUN change-port with ports 65534/65535; "
        "compared on the reply's MACs, EtherType, IP version, protocol, addresses and ports; non-trivial = a frame that "
        "elicits a reply")
TRUSTED = ["Coq 8.16.1 kernel + vm_compute", "extraction (ExtrOcamlBasic) + ocaml/model_run.ml", "harness/*.py",
           "Rust hook verif_driver.rs", "pnet accessor semantics as modelled"]
ASSUMPTIONS = []


def corpus():
    """Two flows whose SYN cookies collide (the C08 known finding: they share one connection-table entry). Whatever
    state they share, each reply must still go back to the flow that asked: identical and different segments,
    retransmissions, and both orders."""
    from props import c08
    key, A, B = c08.KEY_W, c08.W_A, c08.W_B
    ck = net.cookie(key, *A)
    assert ck == net.cookie(key, *B)
    req = b"GET / HTTP/1.0\r\n\r\n"
    for x, y in ((A, B), (B, A)):
        for seq_y, pay_y in ((100, req), (100, b"GET /other HTTP/1.0\r\n\r\n"), (777, req), (100, b"SSH-2.0-x\r\n")):
            fr = [net.frame_tcp(x[0], x[1], x[2], x[3], 99, 0, 0x02),
                  net.frame_tcp(x[0], x[1], x[2], x[3], 100, (ck + 1) & 0xFFFFFFFF, 0x18, req),
                  net.frame_tcp(y[0], y[1], y[2], y[3], seq_y, (ck + 1) & 0xFFFFFFFF, 0x18, pay_y),
                  net.frame_tcp(x[0], x[1], x[2], x[3], 100, (ck + 1) & 0xFFFFFFFF, 0x18, req),      # retransmission
                  net.frame_tcp(y[0], y[1], y[2], y[3], seq_y, 5, 0x18, pay_y),
                  net.frame_tcp(y[0], y[1], y[2], y[3], seq_y + len(pay_y), 5, 0x11)]
            yield Script(Cfg(key=key), fr, "corpus:colliding-cookies (shared table entry, replies still mirror)")


def rand_ip(rng, v6):
    return bytes(rng.randrange(256) for _ in range(16 if v6 else 4))


def generate(tier, rng):
    n = 6 if tier == "quick" else 60
    for it in range(n):
        key = (rng.getrandbits(64), rng.getrandbits(64))
        cfg = Cfg(mac=bytes(rng.randrange(256) for _ in range(6)), key=key)
        fr = []
        for v6 in (False, True):
            for name, p, t, u in gens.app_seeds():
                s, d = rand_ip(rng, v6), rand_ip(rng, v6)
                mac_src = bytes(rng.randrange(256) for _ in range(6))
                for sport, dport in [(rng.randrange(65536), rng.randrange(65536)), (0, 65535), (65535, 0), (4000, 65534)]:
                    if u:
                        fr.append(net.frame_udp(s, d, sport, dport, p, mac_dst=cfg.mac, mac_src=mac_src))
                    if t:
                        fr += gens.handshake(key, s, d, sport, dport, [p], mac_dst=cfg.mac, mac_src=mac_src)
                fr.append(net.frame_tcp(s, d, 7, 8, 1, 2, 0x11, mac_dst=cfg.mac, mac_src=mac_src))
            s, d = rand_ip(rng, v6), rand_ip(rng, v6)
            if v6:
                fr.append(gens.echo6(s, d, mac_dst=cfg.mac))
                fr.append(gens.ns6(s, d))
                fr.append(gens.ns6(s, d, dst=rand_ip(rng, True), mac_dst=cfg.mac))
            else:
                fr.append(gens.echo4(s, d, mac_dst=cfg.mac))
                fr.append(gens.arp_req(d, spa=s, sha=bytes(rng.randrange(256) for _ in range(6))))
                # the announced hardware address differs from the frame's Ethernet source (proxy / relayed ARP)
                fr.append(gens.arp_req(d, spa=s, sha=bytes(rng.randrange(256) for _ in range(6)),
                                       eth_src=bytes(rng.randrange(256) for _ in range(6))))
                fr.append(gens.arp_req(d, spa=s, sha=bytes(rng.randrange(256) for _ in range(6)),
                                       eth_src=bytes(rng.randrange(256) for _ in range(6)), mac_dst=cfg.mac))
        yield Script(cfg, fr, "all-reply-kinds")
    # self-IP lists that hold multicast / broadcast addresses next to unicast ones; requests sent TO the group address
    groups4, groups6 = ["224.0.0.251", "239.1.2.3", "255.255.255.255", "10.0.0.255"], ["ff02::fb", "ff05::1:3"]
    for lists in ([gens.SELF4, gens.SELF6] + groups4 + groups6, groups4 + groups6 + ["10.11.12.13"]):
        cfg = Cfg(self_ips=lists, key=(5, 6))
        fr = []
        for g in groups4:
            gb = net.ip_bytes(g)
            mac = b"\xff" * 6 if g == "255.255.255.255" else b"\x01\x00\x5e" + bytes([gb[1] & 0x7f]) + gb[2:]
            fr.append(gens.echo4(gens.PEER4, g, mac_dst=mac))
            fr.append(net.frame_udp(gens.PEER4, g, 4000, 3478, gens.stun_req(), mac_dst=mac))
            fr.append(net.frame_udp(gens.PEER4, g, 4000, 53, gens.dns_query(), mac_dst=mac))
            fr.append(net.frame_tcp(gens.PEER4, g, 4000, 80, 1, 0, 0x02, mac_dst=mac))
        for g in groups6:
            gb = net.ip_bytes(g)
            mac = b"\x33\x33\xff" + gb[13:]
            for m in (mac, cfg.mac):
                fr.append(gens.echo6(gens.PEER6, g, mac_dst=m))
                fr.append(net.frame_udp(gens.PEER6, g, 4000, 3478, gens.stun_req(), mac_dst=m))
        yield Script(cfg, fr, "group-addresses-in-self-list")
    # requests whose own header fields lie or are unusual (incl. neighbour solicitations from :: and link-local sources)
    yield Script(Cfg(key=(5, 6)), gens.hostile_requests(rng), "hostile-requests")


def nontrivial(script):
    return True


def project(script, i, o):
    if o.kind != "R":
        return (o.kind,)
    p = net.parse_frame(o.reply)
    if p is None:
        return ("R", "unparseable")
    t = ("R", p.mac_dst, p.mac_src, p.ety, p.ipver, p.proto)
    if p.ipver is not None:
        t += (p.ip_src, p.ip_dst)
    if p.proto in (6, 17) and p.app is not None:
        t += (p.sport, p.dport)
    return t
