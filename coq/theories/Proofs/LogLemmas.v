(* LogLemmas.v -- the renderers of Log.v emit exactly one newline, at the end of
   the line: no field renderer (MAC, IP, decimal number, protocol name, Debug
   wrapper) can produce a newline, whatever its input. *)
From MS Require Import Proofs.Tactics Types Text Log Spec.C20.

Lemma nl_free_app a b : nl_free (a ++ b) = nl_free a && nl_free b.
Proof. unfold nl_free. apply forallb_app. Qed.

Lemma nl_free_cons x a : nl_free (x :: a) = negb (x =? NL) && nl_free a.
Proof. reflexivity. Qed.

Lemma nl_free_join sep l :
  negb (sep =? NL) = true -> forallb nl_free l = true -> nl_free (join sep l) = true.
Proof.
  intros Hs. induction l as [|x t IH]; [reflexivity|].
  cbn [forallb]. intros H. apply andb_true_iff in H. destruct H as [Hx Ht].
  destruct t as [|y t']; [exact Hx|].
  change (join sep (x :: y :: t')) with (x ++ sep :: join sep (y :: t')).
  rewrite nl_free_app, nl_free_cons, Hx, Hs, (IH Ht). reflexivity.
Qed.

Lemma nl_free_concat l : forallb nl_free l = true -> nl_free (concat l) = true.
Proof.
  induction l as [|x t IH]; [reflexivity|]. cbn [forallb concat]. intros H.
  apply andb_true_iff in H. destruct H as [Hx Ht]. rewrite nl_free_app, Hx, (IH Ht). reflexivity.
Qed.

Lemma forallb_map {A B} (g : A -> B) (p : B -> bool) l : forallb p (map g l) = forallb (fun x => p (g x)) l.
Proof. induction l as [|x t IH]; [reflexivity|]. cbn [map forallb]. rewrite IH. reflexivity. Qed.

Lemma forallb_all {A} (p : A -> bool) l : (forall x, p x = true) -> forallb p l = true.
Proof. intros H. induction l as [|x t IH]; [reflexivity|]. cbn [forallb]. rewrite H, IH. reflexivity. Qed.

(* ---- numbers ---- *)
Lemma dec_digits_aux_nl fuel n acc : nl_free acc = true -> nl_free (dec_digits_aux fuel n acc) = true.
Proof.
  revert n acc. induction fuel as [|k IH]; intros n acc Ha; [exact Ha|].
  cbn [dec_digits_aux].
  assert (nl_free ((48 + n mod 10) :: acc) = true) as H.
  { rewrite nl_free_cons, Ha. unfold NL. replace (48 + n mod 10 =? 10) with false by lia. reflexivity. }
  destruct (n <? 10); [exact H|apply IH; exact H].
Qed.
Lemma dec_digits_nl n : nl_free (dec_digits n) = true.
Proof. apply dec_digits_aux_nl. reflexivity. Qed.

Lemma hex_digit_nl d : negb (hex_digit d =? NL) = true.
Proof. unfold hex_digit, NL. destruct (d <? 10) eqn:H; lia. Qed.

Lemma hex_digits_aux_nl fuel n acc : nl_free acc = true -> nl_free (hex_digits_aux fuel n acc) = true.
Proof.
  revert n acc. induction fuel as [|k IH]; intros n acc Ha; [exact Ha|].
  cbn [hex_digits_aux].
  assert (nl_free (hex_digit (n mod 16) :: acc) = true) as H
      by (rewrite nl_free_cons, Ha, hex_digit_nl; reflexivity).
  destruct (n <? 16); [exact H|apply IH; exact H].
Qed.
Lemma hex_digits_nl n : nl_free (hex_digits n) = true.
Proof. apply hex_digits_aux_nl. reflexivity. Qed.

(* ---- addresses ---- *)
Lemma render_ipv4_nl o : nl_free (render_ipv4 o) = true.
Proof.
  unfold render_ipv4. apply nl_free_join; [reflexivity|].
  rewrite forallb_map. apply forallb_all. apply dec_digits_nl.
Qed.

Lemma join_hex_nl l : nl_free (join COLON (map hex_digits l)) = true.
Proof. apply nl_free_join; [reflexivity|]. rewrite forallb_map. apply forallb_all. apply hex_digits_nl. Qed.

Lemma render_ipv6_nl o : nl_free (render_ipv6 o) = true.
Proof.
  unfold render_ipv6.
  destruct (_ && _).
  - rewrite nl_free_app, render_ipv4_nl. reflexivity.
  - destruct (zero_run _ _ _ _ _ _) as [zs zl]. destruct (1 <? zl)%nat.
    + rewrite !nl_free_app, !join_hex_nl. reflexivity.
    + apply join_hex_nl.
Qed.

Lemma render_ip_nl a : nl_free (render_ip a) = true.
Proof. destruct a; [apply render_ipv4_nl|apply render_ipv6_nl]. Qed.

Lemma render_mac_nl m : nl_free (render_mac m) = true.
Proof.
  unfold render_mac. apply nl_free_join; [reflexivity|]. rewrite forallb_map. apply forallb_all.
  intros b. unfold hex2. rewrite !nl_free_cons, !hex_digit_nl. reflexivity.
Qed.

(* ---- names ---- *)
Lemma lookup_name_nl n t s :
  forallb (fun p => nl_free (snd p)) t = true -> lookup_name n t = Some s -> nl_free s = true.
Proof.
  induction t as [|[k x] t IH]; cbn [lookup_name forallb snd]; [discriminate|].
  intros H. apply andb_true_iff in H. destruct H as [Hx Ht].
  destruct (n =? k); [intros E; inversion E; subst; exact Hx|apply IH; exact Ht].
Qed.

Lemma ethertype_names_nl : forallb (fun p => nl_free (snd p)) ethertype_names = true.
Proof. vm_compute. reflexivity. Qed.
Lemma ip_proto_names_nl : forallb (fun p => nl_free (snd p)) ip_proto_names = true.
Proof. vm_compute. reflexivity. Qed.

Lemma ethertype_name_nl n : nl_free (ethertype_name n) = true.
Proof.
  unfold ethertype_name. destruct (lookup_name n ethertype_names) as [s|] eqn:H; [|reflexivity].
  eapply lookup_name_nl; [apply ethertype_names_nl|exact H].
Qed.
Lemma ip_proto_name_nl n : nl_free (ip_proto_name n) = true.
Proof.
  unfold ip_proto_name. destruct (lookup_name n ip_proto_names) as [s|] eqn:H; [|reflexivity].
  eapply lookup_name_nl; [apply ip_proto_names_nl|exact H].
Qed.

Lemma layer_name_nl l : nl_free (layer_name l) = true.
Proof. destruct l; reflexivity. Qed.
Lemma verb_name_nl v : nl_free (verb_name v) = true.
Proof. destruct v; reflexivity. Qed.

Lemma debug_wrap_nl name n : nl_free name = true -> nl_free (debug_wrap name n) = true.
Proof.
  intros H. unfold debug_wrap. rewrite !nl_free_app, H, dec_digits_nl. reflexivity.
Qed.

Lemma render_ts_nl secs millis : nl_free (render_ts secs millis) = true.
Proof. unfold render_ts. rewrite !nl_free_app, !dec_digits_nl. reflexivity. Qed.

(* ---- the field lists ---- *)
Lemma opt_text_map_nl {A} (g : A -> bytes) (o : option A) :
  (forall x, nl_free (g x) = true) -> nl_free (opt_text (option_map g o)) = true.
Proof. intros H. destruct o; [apply H|reflexivity]. Qed.

Lemma ci_fields_nl c :
  forallb (fun kv => nl_free (fst kv) && nl_free (opt_text (snd kv))) (ci_fields c) = true.
Proof.
  unfold ci_fields. cbn [forallb fst snd].
  rewrite !(opt_text_map_nl render_mac) by apply render_mac_nl.
  rewrite !(opt_text_map_nl render_ip) by apply render_ip_nl.
  rewrite (opt_text_map_nl ip_proto_name) by apply ip_proto_name_nl.
  rewrite !(opt_text_map_nl dec_digits) by apply dec_digits_nl.
  reflexivity.
Qed.

Lemma extra_fields_nl l x :
  forallb (fun kv => nl_free (fst kv) && nl_free (snd kv)) (extra_fields l x) = true.
Proof.
  destruct l; destruct x as [|a [|b [|c [|d x]]]]; cbn [extra_fields forallb fst snd];
    (* instantiate the name lemmas explicitly: unifying the two name tables against each other is slow *)
    try match goal with
        | |- context [ethertype_name ?t] => rewrite (ethertype_name_nl t)
        | |- context [ip_proto_name ?t] => rewrite (ip_proto_name_nl t)
        end;
    rewrite ?dec_digits_nl, ?debug_wrap_nl by reflexivity; reflexivity.
Qed.

Theorem field_renderers_ok : field_renderers_nl_free.
Proof.
  split; [exact ci_fields_nl|]. split; [exact extra_fields_nl|]. split; [exact layer_name_nl|].
  split; [exact verb_name_nl|exact render_ts_nl].
Qed.

(* ---- bodies ---- *)
Lemma forallb_weaken {A} (p q : A -> bool) l :
  (forall x, p x = true -> q x = true) -> forallb p l = true -> forallb q l = true.
Proof.
  intros H. induction l as [|x t IH]; [reflexivity|]. cbn [forallb]. intros Hp.
  apply andb_true_iff in Hp. destruct Hp as [Hx Ht]. rewrite (H _ Hx), (IH Ht). reflexivity.
Qed.

Lemma forallb_firstn {A} (p : A -> bool) n l : forallb p l = true -> forallb p (firstn n l) = true.
Proof.
  revert l. induction n as [|k IH]; intros [|x t]; cbn [firstn forallb]; try reflexivity.
  intros H. apply andb_true_iff in H. destruct H as [Hx Ht]. rewrite Hx, (IH _ Ht). reflexivity.
Qed.

Lemma console_body_nl e : nl_free (console_body e) = true.
Proof.
  pose proof (ci_fields_nl (ev_ci e)) as Hc.
  assert (forall l, nl_free (join TAB (map snd (extra_fields l (ev_extra e)))) = true) as Hx.
  { intros l. apply nl_free_join; [reflexivity|]. rewrite forallb_map.
    eapply forallb_weaken; [|apply extra_fields_nl]. intros kv H. apply andb_true_iff in H. apply H. }
  assert (nl_free (concat (map (fun kv : bytes * option bytes => opt_text (snd kv) ++ [TAB]) (ci_fields (ev_ci e)))) = true) as Hcols.
  { apply nl_free_concat. rewrite forallb_map. eapply forallb_weaken; [|exact Hc].
    intros kv H. apply andb_true_iff in H. destruct H as [_ H]. rewrite nl_free_app, H. reflexivity. }
  unfold console_body.
  destruct (ev_layer e); try (rewrite nl_free_app, Hcols, Hx; reflexivity).
  (* ARP *)
  apply nl_free_join; [reflexivity|]. rewrite forallb_app, !forallb_map.
  apply andb_true_iff. split.
  - apply forallb_firstn. eapply forallb_weaken; [|exact Hc]. intros kv H. apply andb_true_iff in H. apply H.
  - eapply forallb_weaken; [|apply extra_fields_nl]. intros kv H. apply andb_true_iff in H. apply H.
Qed.

Lemma kv_text_nl k v : nl_free k = true -> nl_free v = true -> nl_free (kv_text k v) = true.
Proof. intros Hk Hv. unfold kv_text. rewrite !nl_free_app, Hk, Hv. reflexivity. Qed.

Lemma logfmt_body_nl e : nl_free (logfmt_body e) = true.
Proof.
  pose proof (ci_fields_nl (ev_ci e)) as Hc.
  assert (forall l, nl_free (concat (map (fun kv : bytes * bytes => kv_text (fst kv) (snd kv)) (extra_fields l (ev_extra e)))) = true) as Hx.
  { intros l. apply nl_free_concat. rewrite forallb_map.
    eapply forallb_weaken; [|apply extra_fields_nl]. intros kv H. apply andb_true_iff in H. destruct H.
    apply kv_text_nl; assumption. }
  assert (nl_free (concat (map (fun kv : bytes * option bytes => match snd kv with Some v => kv_text (fst kv) v | None => [] end)
                               (ci_fields (ev_ci e)))) = true) as Hcols.
  { apply nl_free_concat. rewrite forallb_map. eapply forallb_weaken; [|exact Hc].
    intros [k [v|]] H; cbn [fst snd opt_text] in *; [|reflexivity].
    apply andb_true_iff in H. destruct H. apply kv_text_nl; assumption. }
  unfold logfmt_body.
  destruct (ev_layer e); try (rewrite nl_free_app, Hcols, Hx; reflexivity).
  (* ARP *)
  rewrite nl_free_app, Hx, andb_true_r.
  destruct (ev_verb e); rewrite !nl_free_app;
    rewrite !kv_text_nl; try reflexivity;
    try (apply (opt_text_map_nl render_mac); apply render_mac_nl);
    try (apply (opt_text_map_nl render_ip); apply render_ip_nl).
Qed.

(* ---- the lines ---- *)
Theorem render_console_one_line ts e : nl_free ts = true -> one_line (render_console ts e).
Proof.
  intros Hts. unfold one_line, render_console.
  exists (ts ++ [TAB] ++ layer_name (ev_layer e) ++ [TAB] ++ verb_name (ev_verb e) ++ [TAB] ++ console_body e).
  split; [rewrite <- !app_assoc; reflexivity|].
  rewrite !nl_free_app, Hts, layer_name_nl, verb_name_nl, console_body_nl. reflexivity.
Qed.

Theorem render_logfmt_one_line ts e : nl_free ts = true -> one_line (render_logfmt ts e).
Proof.
  intros Hts. unfold one_line, render_logfmt.
  exists (S_ts ++ ts ++ S_proto ++ layer_name (ev_layer e) ++ S_verb ++ verb_name (ev_verb e) ++ [SP] ++ logfmt_body e).
  split; [rewrite <- !app_assoc; reflexivity|].
  rewrite !nl_free_app, Hts, layer_name_nl, verb_name_nl, logfmt_body_nl. reflexivity.
Qed.
