(* Proofs/C11uFrame.v -- frames of a TCP flow and the application layer, GENERIC in the protocol:
   * [tcp_data_lift_state]: an ACCEPTED data segment (the flow is in the table, or the segment
     presents the cookie) is answered with exactly what [proto_repl_tcp] returns for its payload
     on the flow's control block ([flow_tcb]: the one in the table, a fresh one otherwise), and
     the table is the old one with the flow's control block set;
   * [tcp_later_lift]: the special case of a flow whose control block is [tc] in the table;
   * [flow_lift]: any number of data segments of one flow: the emitted frames carry, one for
     one, the outputs of [tcp_stream_c] on the payloads;
   * [http_frames_uniform] / [http_frames_reply_segment]: C11 at frame level for HTTP. *)
From Coq Require Import Lia.
From MS Require Import Proofs.Tactics Proofs.DecLemmas Proofs.Pipeline Proofs.Factor Proofs.ViewLemmas
     Proofs.DecLemmas2 Proofs.C06 Proofs.TcpState Proofs.C09 Proofs.C07 Proofs.C08 Proofs.Lift Proofs.LiftTcp
     L2 Spec.View Spec.RefDec Spec.TcpRef Spec.AppView Spec.C09 Spec.History Spec.EnvOk
     Spec.C11 Spec.C11http Spec.C11u Spec.C11uFrame Proofs.C11 Proofs.C11uHttp Proofs.C11uCut.

(* ---------- tcp_repl on an accepted data segment ---------- *)
Lemma tcp_repl_data_gen E cfg clk tb f v tb' ci' out evs :
  bytes_ok (v_l4 v) = true ->
  tcp_class (tcp_flags (v_l4 v)) = TData ->
  tbl_mem (flow_cookie cfg (flow_of v)) tb || presents_cookie cfg v = true ->
  tcp_repl E cfg clk tb (l3_ci f v) (v_l4 v) = Ok (tb', ci', out, evs) ->
  exists tc' o sp dp,
    proto_repl_tcp E clk (tcp_ci cfg f v) (flow_tcb (flow_cookie cfg (flow_of v)) tb) (tcp_payload (v_l4 v))
      = Ok (ci', tc', o) /\
    tb' = tbl_set (flow_cookie cfg (flow_of v)) tc' tb /\
    ci_port_dst ci' = Some sp /\ ci_port_src ci' = Some dp /\
    out = Some (tcp_header sp dp (u32_at 8 (v_l4 v))
                           (wrap32 (u32_at 4 (v_l4 v) + lenN (tcp_payload (v_l4 v))))
                           (out_flags o) ++ out_bytes o).
Proof.
  intros Hok Hc. unfold tcp_repl. rewrite Hc. rewrite cookie_ci_l3.
  cbv zeta. unfold tcp_ci, presents_cookie, flow_cookie, flow_of, flow_tcb. cbn [fl_src fl_dst fl_sport fl_dport].
  set (ck := cookie (c_key0 cfg) (c_key1 cfg) (v_src v) (v_dst v) (u16_at 0 (v_l4 v)) (u16_at 2 (v_l4 v))).
  rewrite (ackno_presents (u32_at 8 (v_l4 v)) ck (u32_at_lt _ _ Hok) (cookie_lt _ _ _ _ _ _)).
  intros Hacc.
  assert (Hn : negb (tbl_mem ck tb) && negb (u32_at 8 (v_l4 v) =? wrap32 (ck + 1)) = false).
  { destruct (tbl_mem ck tb); destruct (u32_at 8 (v_l4 v) =? wrap32 (ck + 1)); cbn in *; congruence. }
  rewrite Hn.
  destruct (proto_repl_tcp _ _ _ _ _) as [[[ci2 tc'] o]|s] eqn:Hp; cbn [bind]; [|discriminate].
  destruct o as [d|];
    (destruct (ci_port_dst ci2) as [sp|] eqn:Hsp; [|discriminate];
     destruct (ci_port_src ci2) as [dp|] eqn:Hdp; [|discriminate]);
    intros H; inversion H; subst; eexists _, _, sp, dp;
    (split; [reflexivity|]); (split; [reflexivity|]); (split; [assumption|]); (split; [assumption|]);
    reflexivity.
Qed.

(* ---------- the generic lift, state level, for ANY accepted data segment ---------- *)
Theorem tcp_data_lift_state E cfg clk tb f tb' r evs v :
  cfg_ok cfg = true -> bytes_ok f = true ->
  view_tcp cfg f = Some v ->
  is_data (tcp_flags (v_l4 v)) = true ->
  tbl_mem (flow_cookie cfg (flow_of v)) tb || presents_cookie cfg v = true ->
  reply E cfg clk tb f = Ok (tb', r, evs) ->
  exists ci' tc' out,
    proto_repl_tcp E clk (tcp_ci cfg f v) (flow_tcb (flow_cookie cfg (flow_of v)) tb) (tcp_payload (v_l4 v))
      = Ok (ci', tc', out) /\
    tb' = tbl_set (flow_cookie cfg (flow_of v)) tc' tb /\
    tcp_resp r = Some (norm_out out) /\
    tcp_reply_is v ci' out r.
Proof.
  intros Hcfg Hf Hvt Hd Hacc Hr.
  destruct (view_tcp_view _ _ _ Hvt) as [Hv Hp].
  pose proof (view_l4_ok _ _ _ Hf Hv) as Hok.
  pose proof (reply_tcp E cfg clk tb f v Hvt) as Hfac. rewrite Hr in Hfac. cbn [strip] in Hfac.
  pose proof (tcp_flags_lt _ Hok) as Hfl.
  apply (is_data_class _ Hfl) in Hd.
  destruct (tcp_repl E cfg clk tb (l3_ci f v) (v_l4 v)) as [[[[tb2 ci2] o2] evs2]|s] eqn:Ht; [|discriminate].
  destruct (tcp_repl_data_gen _ _ _ _ _ _ _ _ _ _ Hok Hd Hacc Ht)
    as (tc' & o & sp & dp & Hpr & Htb & Hsp & Hdp & ->).
  apply ok_pair_inj in Hfac. destruct Hfac as [<- ->].
  exists ci2, tc', o. split; [exact Hpr|]. split; [exact Htb|].
  assert (Hfl' : out_flags o < 512) by (destruct o; unfold out_flags, ACK, PSH; lia).
  match goal with |- context [tcp_header ?a ?b ?c ?d ?e ++ ?pl] =>
    destruct (dec_wrap_tcp cfg f v 64 a b c d e pl Hcfg Hv Hp Hfl' ltac:(lia)) as (e' & i & Hdec & _)
  end.
  split.
  - unfold tcp_resp. rewrite Hdec. cbn [dt_payload]. rewrite norm_out_bytes. reflexivity.
  - eexists _, e', i, _. split; [reflexivity|]. split; [exact Hdec|].
    cbn [dt_payload dt_flags dt_sport dt_dport dt_seq dt_ack]. rewrite Hsp, Hdp. cbn [option_map].
    repeat split; try reflexivity.
    + apply N.mod_small. apply u32_at_lt, Hok.
    + unfold wrap32. apply N.mod_mod. lia.
Qed.

(* a later data segment of a flow whose control block is [tc] in the table [tb] *)
Theorem tcp_later_lift E cfg clk tb tc f tb' r evs v :
  cfg_ok cfg = true -> bytes_ok f = true ->
  view_tcp cfg f = Some v ->
  is_data (tcp_flags (v_l4 v)) = true ->
  tbl_find (flow_cookie cfg (flow_of v)) tb = Some tc ->
  reply E cfg clk tb f = Ok (tb', r, evs) ->
  exists ci' tc' out,
    proto_repl_tcp E clk (tcp_ci cfg f v) tc (tcp_payload (v_l4 v)) = Ok (ci', tc', out) /\
    tb' = tbl_set (flow_cookie cfg (flow_of v)) tc' tb /\
    tcp_resp r = Some (norm_out out) /\
    tcp_reply_is v ci' out r.
Proof.
  intros Hcfg Hf Hvt Hd Hfind Hr.
  assert (Hacc : tbl_mem (flow_cookie cfg (flow_of v)) tb || presents_cookie cfg v = true)
    by (unfold tbl_mem; rewrite Hfind; reflexivity).
  destruct (tcp_data_lift_state E cfg clk tb f tb' r evs v Hcfg Hf Hvt Hd Hacc Hr)
    as (ci' & tc' & out & Hpr & Htb & Hresp & Hrep).
  unfold flow_tcb in Hpr. rewrite Hfind in Hpr. exists ci', tc', out. repeat split; assumption.
Qed.

(* ---------- any number of data segments of one flow ---------- *)
Lemma tbl_mem_set_same k v tb : tbl_mem k (tbl_set k v tb) = true.
Proof. unfold tbl_mem. rewrite find_set_same. reflexivity. Qed.

Lemma flow_tcb_set_same k v tb : flow_tcb k (tbl_set k v tb) = v.
Proof. unfold flow_tcb. rewrite find_set_same. reflexivity. Qed.

Lemma tcp_reply_carries cfg f v ci' out r :
  view_tcp cfg f = Some v -> tcp_reply_is v ci' out r -> frame_carries cfg f out r.
Proof.
  intros Hvt (rf & e & i & t & -> & Hdec & H1 & H2 & _ & _ & H5 & H6).
  exists v, rf, e, i, t. split; [exact Hvt|]. split; [reflexivity|]. split; [exact Hdec|].
  split; [rewrite H1; destruct out; reflexivity|]. split; [rewrite H2; destruct out; reflexivity|].
  split; assumption.
Qed.

Theorem flow_lift E cfg ci ck : cfg_ok cfg = true ->
  forall fs tb tb' rs,
    Forall (fun cf : clock * bytes => flow_frame cfg ci ck (snd cf)) fs ->
    match fs with cf :: _ => flow_accepts cfg ck tb (snd cf) | [] => True end ->
    flow_run E cfg tb fs = Ok (tb', rs) ->
    exists outs,
      tcp_stream_c E ci (flow_tcb ck tb) (map (fun cf : clock * bytes => (fst cf, frame_payload cfg (snd cf))) fs)
        = Ok outs /\
      frames_carry cfg (map snd fs) outs rs.
Proof.
  intros Hcfg. induction fs as [|[clk f] t IH]; intros tb tb' rs Hall Hacc Hrun.
  - cbn in Hrun. injection Hrun as <- <-. exists []. split; [reflexivity|exact I].
  - inversion Hall as [|x l Hf Hall']; subst. cbn [snd] in Hf, Hacc.
    destruct Hf as (Hb & v & Hvt & Hd & Hci & Hck).
    cbn [flow_run] in Hrun.
    destruct (reply E cfg clk tb f) as [[[tb1 r] evs]|s] eqn:Hr; cbn [bind] in Hrun; [|discriminate].
    destruct (flow_run E cfg tb1 t) as [[tb2 rs']|s] eqn:Hrun'; cbn [bind fst snd] in Hrun; [|discriminate].
    injection Hrun as <- <-.
    assert (Hacc' : tbl_mem (flow_cookie cfg (flow_of v)) tb || presents_cookie cfg v = true).
    { rewrite Hck. destruct Hacc as [Hm|(v' & Hv' & Hp)]; [rewrite Hm; reflexivity|].
      rewrite Hvt in Hv'. injection Hv' as <-. rewrite Hp. apply orb_true_r. }
    destruct (tcp_data_lift_state E cfg clk tb f tb1 r evs v Hcfg Hb Hvt Hd Hacc' Hr)
      as (ci' & tc' & out & Hpr & Htb & _ & Hrep).
    destruct (view_tcp_view _ _ _ Hvt) as [_ Hp6].
    rewrite (tcp_ci_ctx cfg f v Hp6), Hci, Hck in Hpr. rewrite Hck in Htb.
    assert (Hnext : match t with cf :: _ => flow_accepts cfg ck tb1 (snd cf) | [] => True end).
    { destruct t; [exact I|]. left. rewrite Htb. apply tbl_mem_set_same. }
    destruct (IH tb1 tb2 rs' Hall' Hnext Hrun') as (outs & Hs & Hc).
    rewrite Htb, flow_tcb_set_same in Hs.
    exists (out :: outs). split.
    + cbn [map fst snd tcp_stream_c]. unfold frame_payload at 1. rewrite Hvt. rewrite Hpr. cbn [bind].
      rewrite Hs. reflexivity.
    + cbn [map snd frames_carry]. split; [exact (tcp_reply_carries cfg f v ci' out r Hvt Hrep)|exact Hc].
Qed.

(* ---------- one clock reading for the whole flow: [tcp_stream] ---------- *)
Lemma tcp_stream_c_const E clk ci : forall segs tc,
  tcp_stream_c E ci tc (map (pair clk) segs) = tcp_stream E clk ci tc segs.
Proof.
  induction segs as [|s rest IH]; intros tc; [reflexivity|].
  cbn [map tcp_stream_c tcp_stream].
  destruct (proto_repl_tcp E clk ci tc s) as [[[c tc'] o]|e]; cbn [bind]; [|reflexivity].
  rewrite IH. reflexivity.
Qed.

Lemma frame_payload_ok cfg f : bytes_ok f = true -> bytes_ok (frame_payload cfg f) = true.
Proof.
  intros Hf. unfold frame_payload. destruct (view_tcp cfg f) as [v|] eqn:Hvt; [|reflexivity].
  destruct (view_tcp_view _ _ _ Hvt) as [Hv _]. pose proof (view_l4_ok _ _ _ Hf Hv) as Hok.
  unfold tcp_payload. destruct (_ <=? _)%nat; [reflexivity|apply bytes_ok_skipn, Hok].
Qed.

Lemma payloads_ok cfg ci ck : forall fs, Forall (flow_frame cfg ci ck) fs ->
  bytes_ok (concat (map (frame_payload cfg) fs)) = true.
Proof.
  induction fs as [|f t IH]; intros H; [reflexivity|]. inversion H as [|x l Hf Ht]; subst.
  cbn [map concat]. rewrite bytes_ok_app, (frame_payload_ok cfg f (proj1 Hf)), (IH Ht). reflexivity.
Qed.

(* C11, HTTP, at frame level: the data segments of a flow that is not yet validated, the first
   of which presents the cookie, whose payloads make up a stream identified as HTTP: the frames
   emitted carry, one for one, the reference reading of the stream -- a bare ACK, or PSH|ACK with
   the 401 response in the frame that answers the segment holding the completing byte *)
Theorem http_frames_uniform E cfg clk ci ck fs tb tb' rs :
  cfg_ok cfg = true -> proto_tbl_ok E = true -> http_uniform_ok E = true ->
  smack_ok (e_http_tbl E) = true -> http_tbl_ok (e_http_tbl E) = true ->
  Forall (flow_frame cfg ci ck) fs ->
  tbl_mem ck tb = false ->
  match fs with f :: _ => exists v, view_tcp cfg f = Some v /\ presents_cookie cfg v = true | [] => True end ->
  tcp_first_id E (concat (map (frame_payload cfg) fs)) = Some PROTO_HTTP ->
  flow_run E cfg tb (map (pair clk) fs) = Ok (tb', rs) ->
  frames_carry cfg fs (http_stream_ref E clk (map (frame_payload cfg) fs)) rs.
Proof.
  intros Hcfg Ht Hu Hhok Hhtbl Hall Hmem Hfirst Hid Hrun.
  assert (Hall' : Forall (fun cf : clock * bytes => flow_frame cfg ci ck (snd cf)) (map (pair clk) fs)).
  { apply Forall_forall. intros cf Hin. apply in_map_iff in Hin. destruct Hin as (f & <- & Hin).
    cbn [snd]. rewrite Forall_forall in Hall. exact (Hall f Hin). }
  assert (Hacc : match map (pair clk) fs with cf :: _ => flow_accepts cfg ck tb (snd cf) | [] => True end).
  { destruct fs as [|f t]; [exact I|]. cbn [map snd]. right. exact Hfirst. }
  destruct (flow_lift E cfg ci ck Hcfg (map (pair clk) fs) tb tb' rs Hall' Hacc Hrun) as (outs & Hs & Hc).
  rewrite map_map in Hs. cbn [fst snd] in Hs.
  rewrite <- (map_map (frame_payload cfg) (pair clk)) in Hs. rewrite tcp_stream_c_const in Hs.
  assert (Hnew : flow_tcb ck tb = tcb_new) by (unfold flow_tcb; rewrite (tbl_mem_find _ _ Hmem); reflexivity).
  rewrite Hnew in Hs.
  rewrite (http_stream_uniform E clk ci _ Ht Hu Hhok Hhtbl (payloads_ok cfg ci ck fs Hall) Hid) in Hs.
  injection Hs as <-. rewrite map_map in Hc. cbn [snd] in Hc. rewrite map_id in Hc. exact Hc.
Qed.

(* frame j of the answers, for a relation that holds frame by frame *)
Lemma frames_carry_nth cfg : forall fs outs rs j,
  frames_carry cfg fs outs rs -> (j < length outs)%nat ->
  frame_carries cfg (nth j fs []) (nth j outs None) (nth j rs None).
Proof.
  induction fs as [|f fs IH]; intros [|o outs] [|r rs] j H Hj; cbn [frames_carry length] in *; try contradiction; try lia.
  destruct H as [H1 H2]. destruct j as [|j]; [exact H1|]. cbn [nth]. apply IH; [exact H2|lia].
Qed.

Lemma frames_carry_length cfg : forall fs outs rs,
  frames_carry cfg fs outs rs -> length rs = length outs /\ length fs = length outs.
Proof.
  induction fs as [|f fs IH]; intros [|o outs] [|r rs] H; cbn [frames_carry length] in *; try contradiction; [split; reflexivity|].
  destruct H as [_ H]. destruct (IH _ _ H). split; lia.
Qed.

(* ... hence, whatever the cuts: the frame that answers the segment holding the completing byte
   of the stream carries the 401 with PSH|ACK, every frame before it is a bare ACK *)
Theorem http_frames_reply_segment E cfg clk ci ck fs tb tb' rs s k :
  cfg_ok cfg = true -> proto_tbl_ok E = true -> http_uniform_ok E = true ->
  smack_ok (e_http_tbl E) = true -> http_tbl_ok (e_http_tbl E) = true ->
  Forall (flow_frame cfg ci ck) fs ->
  tbl_mem ck tb = false ->
  match fs with f :: _ => exists v, view_tcp cfg f = Some v /\ presents_cookie cfg v = true | [] => True end ->
  concat (map (frame_payload cfg) fs) = s ->
  tcp_first_id E s = Some PROTO_HTTP ->
  http_complete_at (e_http_tbl E) s = Some k ->
  flow_run E cfg tb (map (pair clk) fs) = Ok (tb', rs) ->
  let j := seg_index (map (frame_payload cfg) fs) k in
  (j < length fs)%nat /\ length rs = length fs /\
  frame_carries cfg (nth j fs []) (Some (http_401 E clk)) (nth j rs None) /\
  forall i, (i < j)%nat -> frame_carries cfg (nth i fs []) None (nth i rs None).
Proof.
  intros Hcfg Ht Hu Hhok Hhtbl Hall Hmem Hfirst Hcat Hid Hk Hrun j.
  subst s.
  pose proof (http_frames_uniform E cfg clk ci ck fs tb tb' rs Hcfg Ht Hu Hhok Hhtbl Hall Hmem Hfirst Hid Hrun) as Hc.
  destruct (frames_carry_length _ _ _ _ Hc) as [Hl1 Hl2].
  destruct (http_complete_at_some _ _ _ Hk) as (Hlt & Hlo & Hhi).
  pose proof (http_ref_reply E clk _ k (map (frame_payload cfg) fs) [] eq_refl ltac:(cbn; lia) Hlt Hlo Hhi) as Hrep.
  cbn [length] in Hrep. rewrite Nat.sub_0_r in Hrep. fold j in Hrep.
  change (http_stream_ref_at E clk [] (map (frame_payload cfg) fs)) with (http_stream_ref E clk (map (frame_payload cfg) fs)) in Hrep.
  destruct Hrep as (Hj & Hq & Hn).
  split; [lia|]. split; [lia|]. split.
  - pose proof (frames_carry_nth cfg _ _ _ j Hc Hj) as X. rewrite Hn in X. exact X.
  - intros i Hi.
    assert (Hnone : nth i (http_stream_ref E clk (map (frame_payload cfg) fs)) None = None).
    { rewrite <- (firstn_skipn j (http_stream_ref E clk (map (frame_payload cfg) fs))), Hq.
      rewrite app_nth1 by (unfold quiet; rewrite repeat_length; exact Hi).
      unfold quiet. apply nth_repeat. }
    pose proof (frames_carry_nth cfg _ _ _ i Hc ltac:(lia)) as X. rewrite Hnone in X. exact X.
Qed.
