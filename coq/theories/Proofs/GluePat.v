(* Proofs/GluePat.v -- byte-class patterns and two checkers, used to close the
   identification hypotheses of the frame-level theorems (C15, C16, C17) with C10.

   A pattern is a list of byte classes (any byte / one byte / all bytes but some /
   some bytes).  A set of payloads described by a pattern ("every payload whose
   leading bytes are in these classes", or "every payload of exactly this length
   whose bytes are in these classes") is followed
     * through the REFERENCE automaton of the published signature set
       (Spec/RefSig.v): [ref_chk] computes, level by level, the finitely many
       reference states such payloads can reach, and checks that no known point
       of K is passed and that every such payload is identified as [id];
     * through the compiled MATCHER ([m_step], Spec/C10.v), the same way
       ([tbl_chk]): used only where the payloads lie inside C10's known class.
   Both checkers are proved sound for payloads of every length; the per-pattern
   obligations are then decided by computation (a few hundred automaton steps). *)
From Coq Require Import Lia.
From MS Require Import Smack Proofs.Tactics Proofs.SmackSeg Spec.RefSig Spec.C10 Proofs.C10Sound.

(* ---------- byte classes and patterns ---------- *)
Inductive cls := CAny | CLit (c : N) | CNot (l : list N) | CIn (l : list N).

Definition cls_mem (c : cls) (b : N) : bool :=
  match c with
  | CAny => true
  | CLit x => x =? b
  | CNot l => negb (existsb (N.eqb b) l)
  | CIn l => existsb (N.eqb b) l
  end.

(* [exact = false]: the pattern matches a prefix of p; [exact = true]: the whole of p *)
Fixpoint pmatch (exact : bool) (pat : list cls) (p : bytes) : bool :=
  match pat, p with
  | [], [] => true
  | [], _ :: _ => negb exact
  | _ :: _, [] => false
  | c :: pr, b :: r => cls_mem c b && pmatch exact pr r
  end.

Definition cls_bytes (c : cls) : list N := filter (cls_mem c) bytes256.

Lemma cls_bytes_in c b : b < 256 -> cls_mem c b = true -> In b (cls_bytes c).
Proof. intros Hb Hc. apply filter_In. split; [apply in_bytes256; exact Hb | exact Hc]. Qed.

(* ---------- the reference side ---------- *)
Definition add_st (s : rstate) (l : list rstate) : list rstate :=
  if existsb (rs_eqb s) l then l else s :: l.

Lemma add_st_mono s x l : In x l -> In x (add_st s l).
Proof. unfold add_st. destruct (existsb _ _); [auto | intros H; right; exact H]. Qed.
Lemma add_st_in s l : In s (add_st s l).
Proof.
  unfold add_st. destruct (existsb (rs_eqb s) l) eqn:H; [|left; reflexivity].
  apply existsb_exists in H. destruct H as (x & Hx & He). apply rs_eqb_eq in He. subst x. exact Hx.
Qed.

Definition next_one (s : rstate) (bs : list N) (acc : list rstate) : list rstate :=
  fold_right (fun b acc => match rsig_step s b with RCont s' => add_st s' acc | RAcc _ => acc end) acc bs.
Definition next_states (sts : list rstate) (bs : list N) : list rstate :=
  fold_right (fun s acc => next_one s bs acc) [] sts.

Lemma next_one_mono s bs : forall acc x, In x acc -> In x (next_one s bs acc).
Proof.
  induction bs as [|b bs IH]; intros acc x H; cbn [next_one fold_right]; [exact H|].
  fold (next_one s bs acc). destruct (rsig_step s b); [apply add_st_mono|]; apply IH; exact H.
Qed.
Lemma next_one_in s bs acc b s' : In b bs -> rsig_step s b = RCont s' -> In s' (next_one s bs acc).
Proof.
  induction bs as [|c bs IH]; intros Hin Hs; [destruct Hin|].
  cbn [next_one fold_right]. fold (next_one s bs acc). destruct Hin as [-> | Hin].
  - rewrite Hs. apply add_st_in.
  - destruct (rsig_step s c); [apply add_st_mono|]; apply IH; assumption.
Qed.
Lemma next_states_in sts bs s b s' :
  In s sts -> In b bs -> rsig_step s b = RCont s' -> In s' (next_states sts bs).
Proof.
  induction sts as [|x sts IH]; intros Hs Hb Hst; [destruct Hs|].
  cbn [next_states fold_right]. fold (next_states sts bs). destruct Hs as [-> | Hs].
  - exact (next_one_in s bs _ b s' Hb Hst).
  - apply next_one_mono. exact (IH Hs Hb Hst).
Qed.

(* at the end of an exact pattern: not a known point, and the end-anchored verdict is [id] *)
Definition r_fin (K : known) (id : N) (s : rstate) : bool :=
  negb (k_at_end K s) && oN_eqb (rsig_end s) (Some id).

Fixpoint ref_chk (K : known) (id : N) (exact : bool) (pat : list cls) (sts : list rstate) : bool :=
  match pat with
  | [] => if exact then forallb (r_fin K id) sts else match sts with [] => true | _ :: _ => false end
  | c :: pr =>
    let bs := cls_bytes c in
    forallb (fun s => forallb (fun b => negb (k_byte K s b) &&
                                        match rsig_step s b with RAcc j => j =? id | RCont _ => true end) bs) sts &&
    ref_chk K id exact pr (next_states sts bs)
  end.

Lemma ref_chk_sound K id exact pat : forall sts, ref_chk K id exact pat sts = true ->
  forall s p, In s sts -> bytes_ok p = true -> pmatch exact pat p = true ->
    d0_run K true s p = false /\
    match rsig_run s p with
    | RAcc j => j = id
    | RCont s' => exact = true /\ rsig_end s' = Some id
    end.
Proof.
  induction pat as [|c pr IH]; intros sts Hc s p Hs Hp Hm.
  - destruct p as [|b r]; cbn [pmatch] in Hm.
    + cbn [ref_chk] in Hc. destruct exact.
      * rewrite forallb_forall in Hc. specialize (Hc s Hs). unfold r_fin in Hc.
        apply andb_true_iff in Hc. destruct Hc as [H1 H2]. apply negb_true_iff in H1.
        cbn [d0_run rsig_run]. rewrite H1. split; [reflexivity|]. split; [reflexivity|].
        apply oN_eqb_eq. exact H2.
      * destruct sts; [destruct Hs | discriminate].
    + destruct exact; [discriminate|]. cbn [ref_chk] in Hc. destruct sts; [destruct Hs | discriminate].
  - destruct p as [|b r]; cbn [pmatch] in Hm; [discriminate|].
    apply andb_true_iff in Hm. destruct Hm as [Hcb Hm].
    cbn [bytes_ok forallb] in Hp. apply andb_true_iff in Hp. destruct Hp as [Hb Hr].
    unfold byte_ok in Hb. apply N.ltb_lt in Hb.
    cbn [ref_chk] in Hc. apply andb_true_iff in Hc. destruct Hc as [Hc1 Hc2].
    rewrite forallb_forall in Hc1. specialize (Hc1 s Hs). rewrite forallb_forall in Hc1.
    pose proof (cls_bytes_in c b Hb Hcb) as Hin. specialize (Hc1 b Hin).
    apply andb_true_iff in Hc1. destruct Hc1 as [Hk Hst]. apply negb_true_iff in Hk.
    cbn [d0_run rsig_run]. rewrite Hk. cbn [orb].
    destruct (rsig_step s b) as [s' | j] eqn:Hstep.
    + exact (IH _ Hc2 s' r (next_states_in sts _ s b s' Hs Hin Hstep) Hr Hm).
    + split; [reflexivity|]. apply N.eqb_eq. exact Hst.
Qed.

(* from the initial state: outside the class D0, identified as [id] by the reference *)
Theorem ref_chk_init K id exact pat : ref_chk K id exact pat [r_init] = true ->
  forall p, bytes_ok p = true -> pmatch exact pat p = true ->
    D0_udp K p = false /\ D0_tcp K p = false /\ ref_udp p = Some id /\ (exact = false -> ref_tcp p = Some id).
Proof.
  intros Hc p Hp Hm.
  destruct (ref_chk_sound K id exact pat _ Hc r_init p (or_introl eq_refl) Hp Hm) as [Hd Hr].
  split; [exact Hd|]. split; [apply D0_udp_tcp; exact Hd|].
  unfold ref_udp, ref_tcp. destruct (rsig_run r_init p) as [s' | j].
  - destruct Hr as [He Hr]. split; [exact Hr|]. intros ->. discriminate.
  - subst j. split; [reflexivity|]. intros _. reflexivity.
Qed.

(* ---------- the matcher side ---------- *)
Definition add_row (r : N) (l : list N) : list N := if existsb (N.eqb r) l then l else r :: l.

Lemma add_row_mono r x l : In x l -> In x (add_row r l).
Proof. unfold add_row. destruct (existsb _ _); [auto | intros H; right; exact H]. Qed.
Lemma add_row_in r l : In r (add_row r l).
Proof.
  unfold add_row. destruct (existsb (N.eqb r) l) eqn:H; [|left; reflexivity].
  apply existsb_exists in H. destruct H as (x & Hx & He). apply N.eqb_eq in He. subst x. exact Hx.
Qed.

Definition mnext_one (t : smack) (row : N) (bs : list N) (acc : list N) : list N :=
  fold_right (fun b acc => match m_step t row b with MCont r' => add_row r' acc | MAcc _ => acc end) acc bs.
Definition mnext (t : smack) (rows : list N) (bs : list N) : list N :=
  fold_right (fun r acc => mnext_one t r bs acc) [] rows.

Lemma mnext_one_mono t row bs : forall acc x, In x acc -> In x (mnext_one t row bs acc).
Proof.
  induction bs as [|b bs IH]; intros acc x H; cbn [mnext_one fold_right]; [exact H|].
  fold (mnext_one t row bs acc). destruct (m_step t row b); [apply add_row_mono|]; apply IH; exact H.
Qed.
Lemma mnext_one_in t row bs acc b r' : In b bs -> m_step t row b = MCont r' -> In r' (mnext_one t row bs acc).
Proof.
  induction bs as [|c bs IH]; intros Hin Hs; [destruct Hin|].
  cbn [mnext_one fold_right]. fold (mnext_one t row bs acc). destruct Hin as [-> | Hin].
  - rewrite Hs. apply add_row_in.
  - destruct (m_step t row c); [apply add_row_mono|]; apply IH; assumption.
Qed.
Lemma mnext_in t rows bs row b r' :
  In row rows -> In b bs -> m_step t row b = MCont r' -> In r' (mnext t rows bs).
Proof.
  induction rows as [|x rows IH]; intros Hs Hb Hst; [destruct Hs|].
  cbn [mnext fold_right]. fold (mnext t rows bs). destruct Hs as [-> | Hs].
  - exact (mnext_one_in t row bs _ b r' Hb Hst).
  - apply mnext_one_mono. exact (IH Hs Hb Hst).
Qed.

Fixpoint tbl_chk (t : smack) (id : N) (exact : bool) (pat : list cls) (rows : list N) : bool :=
  match pat with
  | [] => if exact then forallb (fun r => oN_eqb (m_end t r) (Some id)) rows
          else match rows with [] => true | _ :: _ => false end
  | c :: pr =>
    let bs := cls_bytes c in
    forallb (fun r => forallb (fun b => match m_step t r b with MAcc j => j =? id | MCont _ => true end) bs) rows &&
    tbl_chk t id exact pr (mnext t rows bs)
  end.

Lemma tbl_chk_sound t id exact pat : forall rows, tbl_chk t id exact pat rows = true ->
  forall row p, In row rows -> bytes_ok p = true -> pmatch exact pat p = true ->
    match m_run t row p with
    | MAcc j => j = id
    | MCont r' => exact = true /\ m_end t r' = Some id
    end.
Proof.
  induction pat as [|c pr IH]; intros rows Hc row p Hs Hp Hm.
  - destruct p as [|b r]; cbn [pmatch] in Hm.
    + cbn [tbl_chk] in Hc. destruct exact.
      * rewrite forallb_forall in Hc. specialize (Hc row Hs). cbn [m_run]. split; [reflexivity|].
        apply oN_eqb_eq. exact Hc.
      * destruct rows; [destruct Hs | discriminate].
    + destruct exact; [discriminate|]. cbn [tbl_chk] in Hc. destruct rows; [destruct Hs | discriminate].
  - destruct p as [|b r]; cbn [pmatch] in Hm; [discriminate|].
    apply andb_true_iff in Hm. destruct Hm as [Hcb Hm].
    cbn [bytes_ok forallb] in Hp. apply andb_true_iff in Hp. destruct Hp as [Hb Hr].
    unfold byte_ok in Hb. apply N.ltb_lt in Hb.
    cbn [tbl_chk] in Hc. apply andb_true_iff in Hc. destruct Hc as [Hc1 Hc2].
    rewrite forallb_forall in Hc1. specialize (Hc1 row Hs). rewrite forallb_forall in Hc1.
    pose proof (cls_bytes_in c b Hb Hcb) as Hin. specialize (Hc1 b Hin).
    cbn [m_run]. destruct (m_step t row b) as [r' | j] eqn:Hstep.
    + exact (IH _ Hc2 r' r (mnext_in t rows _ row b r' Hs Hin Hstep) Hr Hm).
    + apply N.eqb_eq. exact Hc1.
Qed.

(* from the base state: the identification by the table, over UDP and (prefix patterns) TCP *)
Theorem tbl_chk_init t id exact pat :
  smack_ok t = true -> tbl_pre t = true -> tbl_chk t id exact pat [BASE_STATE] = true ->
  forall p, bytes_ok p = true -> pmatch exact pat p = true ->
    udp_id_tbl t p = Some id /\ (exact = false -> tcp_first_id_tbl t p = Some id).
Proof.
  intros Hok Hpre Hc p Hp Hm.
  unfold tbl_pre in Hpre. rewrite !andb_true_iff in Hpre. destruct Hpre as [[Hsz H0] H1].
  apply N.leb_le in Hsz. apply N.ltb_lt in H0. apply N.ltb_lt in H1.
  pose proof (tbl_chk_sound t id exact pat _ Hc BASE_STATE p (or_introl eq_refl) Hp Hm) as Hr.
  rewrite (udp_id_m_run t Hok Hsz p H0 H1), (tcp_id_m_run t Hok Hsz p H0 H1).
  destruct (m_run t BASE_STATE p) as [r' | j].
  - destruct Hr as [He Hr]. split; [exact Hr|]. intros ->. discriminate.
  - subst j. split; [reflexivity|]. intros _. reflexivity.
Qed.

(* ---------- small helpers to read patterns off concrete byte lists ---------- *)
Lemma pmatch_cons exact c pr b r : pmatch exact (c :: pr) (b :: r) = cls_mem c b && pmatch exact pr r.
Proof. reflexivity. Qed.
Lemma pmatch_nil_prefix p : pmatch false [] p = true.
Proof. destruct p; reflexivity. Qed.
