(* Spec/C10.v -- C10: protocol identification is decided by the leading bytes
   against the published signature set (Spec/RefSig.v).

   The compiled matcher (a [smack] table dumped from the implementation) and the
   reference automaton are run side by side; the PRODUCT of the two is finite, so
   that agreement on byte strings of EVERY length is decided by a check over the
   reachable product states:

     [product_ok t K] :  a set V of pairs (matcher row, reference state) that
       contains the initial pair, and such that from every pair of V, for every
       byte value and for the end of the datagram, both sides give the same verdict
       (continue / identified as id) and the successor pair is again in V --
       except at the points of [K].

   [K : known] is a set of (reference state, byte or END): the KNOWN points at
   which the two sides may part.  It is a property of the byte string alone:
   [D0 K s] says that the reference run over [s] passes through a point of K.
   Outside D0 the identification by the table IS the reference identification
   (Proofs/C10Sound.v, for every table that passes the check).

   The exploration that produces V is not trusted: only the check is proved.
   Definitions only. *)
From MS Require Export Bytes Smack Spec.RefSig.

(* ---- identification by a table, as proto::repl performs it ---- *)
Definition udp_id_tbl (t : smack) (p : bytes) : option N :=
  let '(id, st, _) := search_next t BASE_STATE p in
  match id with Some i => Some i | None => fst (search_next_end t st) end.
Definition tcp_first_id_tbl (t : smack) (p : bytes) : option N :=
  let '(id, _, _) := search_next t BASE_STATE p in id.

(* ---- the matcher, one symbol at a time ---- *)
Inductive mres := MCont (row : N) | MAcc (id : N).
Definition m_step (t : smack) (row b : N) : mres :=
  let row' := sm_next t row (sm_sym t (N.to_nat b)) in
  if sm_match_limit t <=? row' then MAcc (hd 0 (sm_ids t row')) else MCont row'.
Definition m_end (t : smack) (row : N) : option N :=
  let row' := sm_next t row (sm_sym t CHAR_ANCHOR_END) in
  if sm_match_limit t <=? row' then Some (hd 0 (sm_ids t row')) else None.
Fixpoint m_run (t : smack) (row : N) (p : bytes) : mres :=
  match p with
  | [] => MCont row
  | b :: r => match m_step t row b with MAcc id => MAcc id | MCont row' => m_run t row' r end
  end.

(* ---- known points ---- *)
(* a set of symbols: the bytes of [k_bytes] (or, if [k_neg], all bytes but those), and END if [k_end].
   [k_dead]: at the BYTE points of this entry the matcher does not merely differ, it
   falls into a dead row (no signature can be completed any more): on a payload whose
   first known point is such a point the table identifies nothing. *)
Record kset := { k_end : bool; k_neg : bool; k_bytes : list N; k_dead : bool }.
Definition kset_mem (k : kset) (b : N) : bool := xorb (k_neg k) (existsb (N.eqb b) (k_bytes k)).
Definition known := list (rstate * kset).

Fixpoint lnat_eqb (a b : list nat) : bool :=
  match a, b with
  | [], [] => true
  | x :: a', y :: b' => (x =? y)%nat && lnat_eqb a' b'
  | _, _ => false
  end.
Definition rs_eqb (a b : rstate) : bool := (fst a =? fst b)%nat && lnat_eqb (snd a) (snd b).

Fixpoint k_lookup (K : known) (s : rstate) : option kset :=
  match K with
  | [] => None
  | (s', k) :: r => if rs_eqb s s' then Some k else k_lookup r s
  end.
Definition ko_byte (o : option kset) (b : N) : bool := match o with Some k => kset_mem k b | None => false end.
Definition ko_end (o : option kset) : bool := match o with Some k => k_end k | None => false end.
Definition ko_dead (o : option kset) : bool := match o with Some k => k_dead k | None => false end.
Definition k_dead_at (K : known) (s : rstate) : bool := ko_dead (k_lookup K s).
Definition k_byte (K : known) (s : rstate) (b : N) : bool := ko_byte (k_lookup K s) b.
Definition k_at_end (K : known) (s : rstate) : bool := ko_end (k_lookup K s).

(* the reference run over [p] passes through a known point ([udp]: the end of the
   datagram is a symbol too) *)
Fixpoint d0_run (K : known) (udp : bool) (s : rstate) (p : bytes) : bool :=
  match p with
  | [] => udp && k_at_end K s
  | b :: r => k_byte K s b ||
              match rsig_step s b with RAcc _ => false | RCont s' => d0_run K udp s' r end
  end.
Definition D0_udp (K : known) (p : bytes) : bool := d0_run K true r_init p.
Definition D0_tcp (K : known) (p : bytes) : bool := d0_run K false r_init p.
Definition D0 := D0_udp.

(* the first known point on the way, if any: (reference state, byte or 256 = END) *)
Fixpoint d0_first (K : known) (udp : bool) (s : rstate) (p : bytes) : option (rstate * N) :=
  match p with
  | [] => if udp && k_at_end K s then Some (s, 256) else None
  | b :: r => if k_byte K s b then Some (s, b) else
              match rsig_step s b with RAcc _ => None | RCont s' => d0_first K udp s' r end
  end.

(* the known class, refined: the first known point is a dead point only if the
   reference identifies something (the table then identifies nothing, so the two
   agree exactly when the reference identifies nothing either) *)
Definition o_some {A} (o : option A) : bool := match o with Some _ => true | None => false end.
Definition D0x_udp (K : known) (p : bytes) : bool :=
  match d0_first K true r_init p with
  | None => false
  | Some (s, x) => if (x <? 256) && k_dead_at K s then o_some (ref_udp p) else true
  end.
Definition D0x_tcp (K : known) (p : bytes) : bool :=
  match d0_first K false r_init p with
  | None => false
  | Some (s, x) => if (x <? 256) && k_dead_at K s then o_some (ref_tcp p) else true
  end.

(* ---- the check ---- *)
Definition bytes256 : list N := map N.of_nat (seq 0 256).
Definition oN_eqb (a b : option N) : bool :=
  match a, b with Some x, Some y => x =? y | None, None => true | _, _ => false end.

(* the candidate set V of (matcher row, reference state) pairs, indexed by row *)
Definition vset := list (list rstate).
Definition mem_v (V : vset) (row : N) (s : rstate) : bool :=
  existsb (rs_eqb s) (nth (N.to_nat row) V []).

(* dead rows of the matcher: a certificate [Dd] (row -> bool), closed under every
   byte and with no match at the end of the datagram *)
Definition deadb (Dd : list bool) (row : N) : bool := nth (N.to_nat row) Dd false.
Definition dead_closed (t : smack) (Dd : list bool) : bool :=
  forallb (fun ir : nat * bool =>
             negb (snd ir) ||
             (forallb (fun b => match m_step t (N.of_nat (fst ir)) b with
                                | MCont r' => deadb Dd r'
                                | MAcc _ => false
                                end) bytes256 &&
              oN_eqb (m_end t (N.of_nat (fst ir))) None))
          (combine (seq 0 (length Dd)) Dd).

Definition check_state (t : smack) (K : known) (Dd : list bool) (V : vset) (row : N) (s : rstate) : bool :=
  let ko := k_lookup K s in
  forallb (fun b => if ko_byte ko b
                    then negb (ko_dead ko) ||
                         match m_step t row b with MCont row' => deadb Dd row' | MAcc _ => false end
                    else match m_step t row b, rsig_step s b with
                         | MAcc i, RAcc j => i =? j
                         | MCont row', RCont s' => mem_v V row' s'
                         | _, _ => false
                         end) bytes256 &&
  (ko_end ko || oN_eqb (m_end t row) (rsig_end s)).

Definition tbl_pre (t : smack) : bool :=
  (sm_rows t <=? TWO24) && (0 <? sm_rows t) && (0 <? sm_match_limit t).

Definition check (t : smack) (K : known) (Dd : list bool) (V : vset) : bool :=
  tbl_pre t && dead_closed t Dd && mem_v V BASE_STATE r_init &&
  forallb (fun il : nat * list rstate =>
             forallb (check_state t K Dd V (N.of_nat (fst il))) (snd il))
          (combine (seq 0 (length V)) V).

(* ---- exploration (a worklist; produces the candidate V, with an access
   string for every pair so that a harness can drive the implementation there).
   Not trusted: only [check] is proved sound. ---- *)
Definition prodst := (bytes * N * rstate)%type.     (* access string, matcher row, reference state *)

Fixpoint vadd (V : vset) (i : nat) (s : rstate) : vset :=
  match V, i with
  | l :: r, O => (s :: l) :: r
  | l :: r, S j => l :: vadd r j s
  | [], _ => []
  end.

(* exploration state: V so far, the pairs in reverse order of discovery (with
   reversed access strings), the next level of the breadth-first search *)
Definition xstate := (vset * list prodst * list prodst)%type.

Definition expand (t : smack) (K : known) (q : prodst) (x : xstate) : xstate :=
  let '(racc, row, s) := q in
  let ko := k_lookup K s in
  fold_left (fun (x : xstate) b =>
               if ko_byte ko b then x else
               match m_step t row b, rsig_step s b with
               | MCont row', RCont s' =>
                 let '(V, all, nxt) := x in
                 if mem_v V row' s' then x
                 else let y := (b :: racc, row', s') in (vadd V (N.to_nat row') s', y :: all, y :: nxt)
               | _, _ => x
               end) bytes256 x.

Fixpoint explore_loop (fuel : nat) (t : smack) (K : known) (cur : list prodst) (x : xstate) : xstate :=
  match fuel with
  | O => x
  | S f =>
    match cur with
    | q :: cur' => explore_loop f t K cur' (expand t K q x)
    | [] => let '(V, all, nxt) := x in
            match nxt with
            | [] => x
            | _ :: _ => explore_loop f t K (rev nxt) (V, all, [])
            end
    end
  end.

Definition EXPLORE_FUEL : nat := 4000.
Definition explore (t : smack) (K : known) : xstate :=
  let q0 : prodst := ([], BASE_STATE, r_init) in
  explore_loop EXPLORE_FUEL t K [q0]
               (vadd (repeat [] (N.to_nat (sm_rows t))) O r_init, [q0], []).

Definition product_states_k (t : smack) (K : known) : list prodst :=
  map (fun q : prodst => (rev (fst (fst q)), snd (fst q), snd q)) (rev (snd (fst (explore t K)))).

(* candidate dead rows: the absorbing rows below the match limit (every byte symbol
   and the end anchor lead back to the row itself); not trusted, [dead_closed] checks *)
Definition used_cols (t : smack) : list N :=
  nodup N.eq_dec (sm_sym t CHAR_ANCHOR_END :: map (fun b => sm_sym t (N.to_nat b)) bytes256).
Definition compute_dead (t : smack) : list bool :=
  let cols := used_cols t in
  map (fun r => (r <? sm_match_limit t) && forallb (fun c => sm_next t r c =? r) cols)
      (map N.of_nat (seq 0 (N.to_nat (sm_rows t)))).

Definition product_ok (t : smack) (K : known) : bool :=
  check t K (compute_dead t) (fst (fst (explore t K))).

(* the same check with every entry of K read as "unconstrained" (no dead-row
   requirement): MONOTONE in K -- a table that agrees with the reference passes it
   whatever K is (a corrected implementation does not invalidate a stale K) *)
Definition undead (K : known) : known :=
  map (fun e : rstate * kset =>
         (fst e, {| k_end := k_end (snd e); k_neg := k_neg (snd e); k_bytes := k_bytes (snd e);
                    k_dead := false |})) K.
Definition product_ok_lax (t : smack) (K : known) : bool := product_ok t (undead K).

(* ---- for the harness ---- *)
(* the reachable product states when nothing is tolerated *)
Definition product_states (t : smack) : list prodst := product_states_k t [].

(* a symbol: a byte, or END (256) *)
Definition SYM_END : N := 256.
Definition verdict_m (r : mres) : option N := match r with MAcc i => Some i | MCont _ => None end.
Definition verdict_r (r : rres) : option N := match r with RAcc i => Some i | RCont _ => None end.

(* the points, outside K, at which the verdicts differ (one side identifies, the
   other does not, or the ids differ): (access string ++ [symbol], matcher, reference).
   A byte entry with verdicts (x, y) reads: over TCP and UDP the string so far is
   identified as x by the table, y by the reference; an END entry concerns the
   whole datagram (the access string) over UDP. *)
Definition disagreements_k (t : smack) (K : known) : list (bytes * option N * option N) :=
  flat_map (fun q : prodst =>
    let '(acc, row, s) := q in
    let ko := k_lookup K s in
    flat_map (fun b =>
                if ko_byte ko b then [] else
                match m_step t row b, rsig_step s b with
                | MCont _, RCont _ => []
                | mr, rr => if oN_eqb (verdict_m mr) (verdict_r rr) then []
                            else [(acc ++ [b], verdict_m mr, verdict_r rr)]
                end) bytes256 ++
    (if ko_end ko || oN_eqb (m_end t row) (rsig_end s) then []
     else [(acc ++ [SYM_END], m_end t row, rsig_end s)]))
    (product_states_k t K).
(* all of them, for the current table *)
Definition disagreements (t : smack) : list (bytes * option N * option N) := disagreements_k t [].

(* every raw disagreement point lies in D0 K (the string up to the symbol passes a known point) *)
Definition strip_end (s : bytes) : bytes * bool :=
  match rev s with
  | x :: r => if x =? SYM_END then (rev r, true) else (s, false)
  | [] => ([], false)
  end.
Definition covered (K : known) (d : bytes * option N * option N) : bool :=
  let '(s, isend) := strip_end (fst (fst d)) in
  if isend then D0_udp K s else D0_tcp K s.
Definition known_covers (t : smack) (K : known) : bool := forallb (covered K) (disagreements t).

(* ---- ties in the reference: several signatures completed at the same position ----
   [rsig_step] / [rsig_end] take the first one in the published order; the checks
   below say that all of them carry the same id, at every reachable reference
   state (so the order is immaterial).  [rset]: reference states indexed by the
   number of bytes read; a closure certificate, as for the product. *)
Definition ids_same (l : list N) : bool :=
  match l with [] => true | x :: r => forallb (N.eqb x) r end.
Definition tie_free_step (s : rstate) (b : N) : bool :=
  let '(n, live) := s in
  ids_same (map (fun i => s_id (sig_at i))
                (filter (fun i => completes i (S n)) (filter (fun i => pos_ok i n b) live))).
Definition tie_free_end (s : rstate) : bool :=
  let '(n, live) := s in
  ids_same (map (fun i => s_id (sig_at i)) (filter (fun i => completes_end i n) live)).
Fixpoint ties_run (s : rstate) (p : bytes) : bool :=
  match p with
  | [] => tie_free_end s
  | b :: r => tie_free_step s b &&
              match rsig_step s b with RAcc _ => true | RCont s' => ties_run s' r end
  end.

Definition rset := list (list (list nat)).
Definition mem_r (R : rset) (s : rstate) : bool := existsb (lnat_eqb (snd s)) (nth (fst s) R []).
Definition ref_closed (R : rset) : bool :=
  mem_r R r_init &&
  forallb (fun nl : nat * list (list nat) =>
             forallb (fun live =>
                        let s : rstate := (fst nl, live) in
                        tie_free_end s &&
                        forallb (fun b => tie_free_step s b &&
                                          match rsig_step s b with RAcc _ => true | RCont s' => mem_r R s' end)
                                bytes256) (snd nl))
          (combine (seq 0 (length R)) R).

(* the reachable reference states, level by level (not trusted) *)
Definition next_level (n : nat) (lv : list (list nat)) : list (list nat) :=
  fold_left (fun acc live =>
    fold_left (fun acc b =>
                 match rsig_step (n, live) b with
                 | RCont (S _, l') => if existsb (lnat_eqb l') acc then acc else l' :: acc
                 | _ => acc
                 end) bytes256 acc) lv [].
Fixpoint levels (fuel n : nat) (lv : list (list nat)) : rset :=
  match fuel with
  | O => []
  | S f => lv :: levels f (S n) (next_level n lv)
  end.
Definition ref_states : rset :=
  match levels 40 0 [snd r_init] with
  | l0 :: r => (snd r_dead :: l0) :: r
  | [] => []
  end.
