"""C18 -- SSH and Gh0st: banner exchanges are answered exactly, malformed ones are not."""
import re, zlib
import net, gens
from runner import Script, Cfg

ID = "C18"
THEOREMS = ["Later.Later_ssh_repl", "Later.Later_ghost_repl", "Later.Later_ssh_proto", "Later.Later_ghost_proto", "Later.Later_ssh_frame",
            "Later.Later_ghost_frame", "Later.Later_ssh_flow", "Later.Later_ghost_flow", "Later.Later_current_ssh_flow",
            "Later.Later_current_ghost_flow", "Later.Later_ssh_example_flow", "Later.Later_ghost_example_flow",
            "C18_ssh_reference_grammar", "C18_ssh_reference_first_crlf", "C18_ssh_parser_language",
            "C18_ssh_repl_exact", "C18_ssh_repl_iff", "C18_dispatch_ssh", "C18_dispatch_ghost",
            "C18_udp_ssh", "C18_udp_ghost", "C18_tcp_first_ssh", "C18_tcp_first_ghost", "C18_constants",
            "C18_prefix_identified_sound", "C18_current_tables_identify", "C18_app_udp", "C18_app_tcp_first",
            "C18_answer_udp", "C18_answer_tcp_first", "C18_current",
            "C18_current_ssh_identification", "C18_current_ghost_identification",
            "C18_frame_udp", "C18_frame_tcp_first_state", "C18_frame_tcp_first_history",
            "C18_current_frame_udp", "C18_current_frame_tcp_first", "SrcTie.src_ssh_ghost_literals", "Env.the_env_ok"]
MONITORS = ["C18udp", "C18tcp", "C18later_ssh", "C18later_ghost"]
LATER_SSH, LATER_GHOST = set(), set()      # later segments of flows bound to the SSH / Gh0st responder (filled by generate)
RULE = ("SSH identification strings built from version strings (2.0 / 1.99 / extra digits and dots / non-digits), software "
        "and comment strings over all 256 byte values (weighted towards CR, LF, SP, '-'), every terminator variant (CR LF, "
        "LF only, CR only, none, CR runs, CR x LF for every byte x), trailing bytes, every prefix / single-byte deletion / "
        "substitution of valid banners, byte sweeps at the version / software / after-CR positions; Gh0st payloads with tails "
        "of length 0..1400 and near-miss magics. Every payload is sent as a UDP datagram over IPv4 and IPv6 and as the first "
        "data segment of a freshly validated TCP flow (SYN + PSH|ACK) over IPv4 and IPv6. The application payload of the "
        "implementation's answer is compared with the extracted model's, checked by the extracted monitors ok_C18_udp / "
        "ok_C18_tcp (reference scanner, reference zlib decoder), and cross-checked by an independent Python reading "
        "(regular expression, zlib.decompress). non-trivial = the script carries a payload starting with 'SSH-' or 'Gh0st'")
TRUSTED = ["Coq 8.16.1 kernel + vm_compute", "extraction (ExtrOcamlBasic) + ocaml/model_run.ml",
           "harness/*.py (generators, projection, comparison)", "Rust driver hook src/verif_driver.rs",
           "data translator harness/gen_tables.py / gen_consts.py (tables and reply constants dumped from the implementation)",
           "pnet accessor semantics as modelled in L3.v/L4.v"]
ASSUMPTIONS = ["the identification string arrives in one datagram / in the first data segment of the flow (the SSH parser keeps "
               "no state across TCP segments; multi-segment banners are outside the property's wording and not claimed)",
               "the frame-level TCP theorem at history level assumes no SYN-cookie collision among the flows involved (C08 "
               "known finding); the state-level one (flow's cookie not in the table, segment presents the cookie) is unconditional",
               "identification of the three literal prefixes and its converse are per-run table obligations decided by vm_compute "
               "(c18_ident_ok; safe-row closure + trie walk in Proofs/C18Table.v), the converse for byte strings (values < 256)"]

SERVER_ID = b"SSH-2.0-1\r\n"
SSH_RE = re.compile(rb"SSH-[0-9.]*-.*?\r\n", re.S)


# ---------------- independent Python reading of the property ----------------
def expected(p):
    """None: the property says nothing; ('ghost',) ; ('ssh', True/False)."""
    if p.startswith(b"Gh0st"):
        return ("ghost",)
    if p.startswith(b"SSH-2.0") or p.startswith(b"SSH-1.99"):
        return ("ssh", SSH_RE.match(p) is not None)
    return None


def ghost_ok(g):
    if g is None or len(g) < 13 or g[:5] != b"Gh0st":
        return False
    if int.from_bytes(g[5:9], "little") != len(g):
        return False
    try:
        d = zlib.decompressobj()
        data = d.decompress(g[13:])
        if not d.eof or d.unused_data:
            return False
    except zlib.error:
        return False
    return int.from_bytes(g[9:13], "little") == len(data)


# ---------------- payload generators ----------------
WEIGHTED = b"\r\r\r\r\n\n  --..\x00\xff" + bytes(range(256))


def rnd_text(rng, n):
    return bytes(rng.choice(WEIGHTED) for _ in range(n))


TERMINATORS = [b"\r\n", b"\n", b"\r", b"", b"\r\r\n", b"\n\r", b"\r\n\r\n", b"\r \n", b"\r\x00\n", b"\n\n", b"\r\r", b" \r\n"]
VERSIONS_OK = [b"2.0", b"1.99", b"2.0.1", b"2.0..", b"2.00", b"1.99.9", b"2.0" + b"7" * 40, b"1.990", b"2.0.", b"1.99."]
VERSIONS_BAD = [b"2.0x", b"2.0 ", b"1.99a", b"2.0\r", b"2.0\n", b"2.0\x00", b"2.0/", b"2.0:", b"1.99,", b"2.0+"]
VERSIONS_OTHER = [b"3.0", b"1.5", b"2", b"", b"2.1", b"1.9", b"02.0"]


def systematic_payloads():
    out = []
    good = [b"SSH-2.0-OpenSSH_8.9 comment here\r\n", b"SSH-1.99-x\r\n", b"SSH-2.0-a\rb \r\rc\r\n"]
    for g in good:
        for i in range(len(g) + 1):
            out.append(g[:i])                                  # every prefix
        for i in range(len(g)):
            out.append(g[:i] + g[i + 1:])                      # every deletion
            for c in (0x0d, 0x0a, 0x20, 0x2d, 0x00, 0xff):
                out.append(g[:i] + bytes([c]) + g[i + 1:])     # substitutions
    for b in range(256):
        x = bytes([b])
        out.append(b"SSH-2.0-a" + x + b"z\r\n")                # any byte inside software
        out.append(b"SSH-2.0-a b" + x + b"z\r\n")              # ... inside comment
        out.append(b"SSH-2.0-a\r" + x)                         # CR followed by any byte, end of data
        out.append(b"SSH-2.0-a c\r" + x + b"\n")               # CR x LF
        out.append(b"SSH-2.0" + x + b"-x\r\n")                 # version character sweep
        out.append(b"SSH-1.99" + x + b"-x\r\n")
        out.append(b"SSH-2.0-" + x + b"\r\n")                  # one-byte software
    for k in range(0, 48):
        out.append(b"SSH-2.0-" + b"\r" * k + b"\n")            # CR runs (worst case for re-examination)
        out.append(b"SSH-2.0-x " + b"\r" * k + b"\n")
        out.append(b"SSH-2.0-" + b"\r" * k)
        out.append(b"SSH-2.0-" + b"\r " * k + b"\r\n")
    for v in VERSIONS_OK + VERSIONS_BAD + VERSIONS_OTHER:
        for t in TERMINATORS:
            out.append(b"SSH-" + v + b"-soft" + t)
            out.append(b"SSH-" + v + b"-soft com ment" + t + b"tail")
    for m in (b"SSH_2.0", b"sSH-2.0", b"SSH-2,0", b"SSH 2.0", b"\x00SSH-2.0", b" SSH-2.0", b"SSSH-2.0"):
        out.append(m + b"-x\r\n")
    out.append(b"SSH-2.0-" + b"A" * 1380 + b"\r\n")
    out.append(b"SSH-2.0-" + b"\r" * 1380 + b"\n")
    out.append(b"SSH-2.0-" + b"\r" * 1380)
    # Gh0st
    for m in (b"Gh0s", b"gh0st", b"Gh0sT", b"Gh0st", b"Gh0stGh0st", b"Gh0st\x00", b"xGh0st", b"Gh0stSSH-2.0-x\r\n",
              b"Gh0st" + b"\x16\0\0\0\x01\0\0\0x\x9cc\0\0\0\x01\0\x01"):
        out.append(m)
    return out


def random_ssh(rng):
    k = rng.randrange(10)
    v = rng.choice(VERSIONS_OK) if k < 7 else rng.choice(VERSIONS_BAD) if k < 9 else rng.choice(VERSIONS_OTHER)
    soft = rnd_text(rng, rng.choice([0, 1, 2, 5, 12, 40]))
    p = b"SSH-" + v + b"-" + soft
    if rng.random() < 0.5:
        p += b" " + rnd_text(rng, rng.choice([0, 1, 7, 30]))
    p += rng.choice(TERMINATORS)
    if rng.random() < 0.3:
        p += rnd_text(rng, rng.randrange(20))
    return p


def ghost_payloads(tier, rng):
    lens = range(0, 1401) if tier == "thorough" else \
        sorted(set(list(range(0, 24)) + [63, 64, 255, 256, 257, 1023, 1024, 1399, 1400] + [rng.randrange(1401) for _ in range(40)]))
    return [b"Gh0st" + bytes(rng.randrange(256) for _ in range(n)) for n in lens]


# ---------------- scripts ----------------
def script_for(rng, cfg, key, payloads, tag):
    """Each payload: UDP/IPv4, UDP/IPv6, and SYN + one data segment over TCP/IPv4 and TCP/IPv6
    (fresh flows with pairwise distinct cookies)."""
    fr = []
    seen = set()
    for p in payloads:
        for v6 in (False, True):
            s, d = gens.addr_pair(v6)
            fr.append(net.frame_udp(s, d, rng.randrange(1, 65536), rng.choice([22, 80, 2222, 65535, rng.randrange(65536)]), p))
            while True:
                sport, dport = rng.randrange(1, 65536), rng.choice([22, 80, 2222, 0, rng.randrange(65536)])
                ck = net.cookie(key, s, d, sport, dport)
                if ck not in seen:
                    seen.add(ck)
                    break
            fr += gens.handshake(key, s, d, sport, dport, [p], isn=rng.getrandbits(32))
    return Script(cfg, fr, tag)


def corpus():
    return []


def generate(tier, rng):
    pl = systematic_payloads()
    pl += ghost_payloads(tier, rng)
    pl += [random_ssh(rng) for _ in range(400 if tier == "quick" else 20000)]
    keys = [(0, 0), (0x0123456789abcdef, 0xfedcba9876543210)]
    per = 40
    for i in range(0, len(pl), per):
        key = keys[(i // per) % 2]
        cfg = gens.cfgs(key=key)[(i // per) % 2]      # without / with a self-IP list containing the contacted addresses
        yield script_for(rng, cfg, key, pl[i:i + per], "payloads %d..%d" % (i, i + per - 1))
    # long identification strings with bytes outside ASCII around the lengths where a log line might be cut, under
    # every log level (the reply may not depend on what the loggers do with the text)
    longs = []
    for n in (15, 16, 17, 31, 32, 33, 62, 63, 64, 65, 127, 128, 129, 255, 256):
        for tail in (b"\xff", b"\xc3\xa9", b"\xe2\x82\xac", b"\xc3\xa9\xc3\xa9\xc3\xa9", b"\xf0\x9f\x98\x80"):
            for k in range(0, 4):
                longs.append(b"SSH-2.0-" + b"a" * (n - k) + tail + b"zz comment\r\n")
    for logger, level in (("none", 1), ("console", 3), ("logfmt", 4), ("none", 0)):
        for i in range(0, len(longs), 100):
            yield script_for(rng, Cfg(key=keys[0], logger=logger, level=level), keys[0], longs[i:i + 100],
                             "long-non-ascii level=%d %d.." % (level, i))
    # later segments of a flow already identified as SSH / Gh0st: every segment is judged on its own bytes (the SSH
    # parser keeps no state), whatever the flow carried before
    later = [b"ssh-2.0-OpenSSH_8.9p1\r\n", b"SSH_2.0-probe\r\n", b"HELO1.99-mail.example.org\r\n", b"H-2.0-probe\r\n", b"-2.0-x\r\n",
             b"XXXX2.0-y\r\n", b"SSH-2.0-again\r\n", b"SSH-1.99-z\r\n", b"\r\n", b"", b"Gh0st", b"GET / HTTP/1.0\r\n\r\n", b"SSH-2.0-noeol"]
    fr, sport = [], 30000
    for first in (b"SSH-2.0-probe\r\n", b"SSH-1.99-Cisco-1.25\r\n", b"SS", b"SSH-2.0-unterminated", b"Gh0st\x00\x01"):
        for v6 in (False, True):
            s, d = gens.addr_pair(v6)
            for k in range(0, len(later), 4):
                sport += 1
                fl = gens.handshake(keys[0], s, d, sport, 22, [first] + later[k:k + 4])
                fr += fl
                if first.endswith(b"\r\n"):
                    LATER_SSH.update(fl[2:])
                elif first.startswith(b"Gh0st"):
                    LATER_GHOST.update(fl[2:])
    yield Script(gens.cfgs(key=keys[0])[0], fr, "later-segments")


# ---------------- projection / monitors on the harness side ----------------
def request_of(frame):
    """-> ('udp'|'tcp', payload) for frames that carry an application request, else None."""
    p = net.parse_frame(frame)
    if p is None or p.l4 is None or p.app is None:
        return None
    if p.proto == 17:
        return ("udp", p.app)
    if p.proto == 6 and (p.flags & 0x18) == 0x18:
        return ("tcp", p.app)
    return None


def nontrivial(script):
    for f in script.frames:
        r = request_of(f)
        if r and (r[1].startswith(b"SSH-") or r[1].startswith(b"Gh0st")):
            return True
    return False


def app_of(kind, o):
    """Application payload of an outcome: None = no answer / no application data."""
    if o.kind != "R":
        return (o.kind,)
    p = net.parse_frame(o.reply)
    if p is None or p.app is None or p.proto != (17 if kind == "udp" else 6):
        return ("R", "other")
    if kind == "tcp":
        return ("R", p.flags, p.app)
    return ("R", p.app)


def project(script, i, o):
    r = request_of(script.frames[i])
    if r is None:
        return None
    return app_of(r[0], o)


NOSHRINK_MONITORS = ("C18later_ssh", "C18later_ghost")


def monitor_applies(name, script, i):
    """the later-segment monitors (Spec/Later.v, proved of the model in Properties/Later.v) judge only the frames the
    generator built as later segments of a flow whose first segment is a valid request of that responder"""
    if name == "C18later_ssh":
        return script.frames[i] in LATER_SSH
    if name == "C18later_ghost":
        return script.frames[i] in LATER_GHOST
    return True


def history_monitor(script, outs):
    """Independent Python cross-check of the implementation's answers (regex / zlib.decompress)."""
    bad = []
    seen_flows, bound = set(), {}
    for i, f in enumerate(script.frames):
        r = request_of(f)
        if r is None:
            continue
        kind, p = r
        later = False
        if kind == "tcp":
            # the first data segment of a flow is judged on its own; a later one goes to the responder the flow is bound
            # to, so it is judged only when it is a request for THAT responder (an identification string on a flow whose
            # first segment was answered as SSH, a Gh0st payload on a flow whose first segment was answered as Gh0st)
            pf = net.parse_frame(f)
            flow = (script.cfg.key, pf.ip_src, pf.ip_dst, pf.sport, pf.dport)
            later = flow in seen_flows
            if not later:
                seen_flows.add(flow)
        e = expected(p)
        if e is None:
            continue
        a = app_of(kind, outs[i])
        if later:
            if bound.get(flow) != e[0]:
                continue
        elif kind == "tcp":
            pl = a[-1] if a[0] == "R" and isinstance(a[-1], bytes) else None
            if e[0] == "ghost" and ghost_ok(pl):
                bound[flow] = "ghost"
            elif e[0] == "ssh" and e[1] and pl == SERVER_ID:
                bound[flow] = "ssh"
        if a[0] == "P":
            bad.append((i, "panic on %r" % p[:40]))
            continue
        payload = a[-1] if a[0] == "R" and isinstance(a[-1], bytes) and len(a[-1]) > 0 else None
        if e[0] == "ghost":
            if not ghost_ok(payload):
                bad.append((i, "Gh0st request not answered with a well-formed frame: %r" % (payload,)))
        elif e[1]:
            if payload != SERVER_ID:
                bad.append((i, "valid identification %r answered with %r" % (p[:60], payload)))
        else:
            if payload is not None:
                bad.append((i, "malformed identification %r answered with %r" % (p[:60], payload)))
            if kind == "udp" and a[0] == "R":
                bad.append((i, "malformed identification %r answered with a datagram" % (p[:60],)))
    return bad
