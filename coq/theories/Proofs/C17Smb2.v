(* C17Smb2.v -- C17 for SMB2: header / negotiate / session-setup dissectors of Smb.v folded
   over encoded requests, replies read back by the reference readers, dialect selection,
   silence for responses, other commands and offers without a supported dialect. *)
From MS Require Import Proofs.Tactics Smb Proofs.SmbSafe Proofs.SmbLen Proofs.SmbBytes Spec.RefSmb Spec.C17
  Proofs.C17Lib Proofs.C17Fields Proofs.C17Smb1.
Open Scope N_scope.

(* ---------- header ---------- *)
Definition hdr2_end (h : smb2_hdr) : hdr2 :=
  {| h2_d := {| d_i := 0; d_st := 12 |}; h2_structure_size := 64; h2_credit_charge := sh2_credit_charge h;
     h2_status := sh2_status h; h2_command := sh2_command h; h2_credits_requested := sh2_credits h;
     h2_flags := sh2_flags h; h2_next_command := sh2_next_command h; h2_message_id := sh2_message_id h;
     h2_async_id := sh2_async_id h; h2_session_id := sh2_session_id h; h2_pay := None |}.

Lemma hdr2_parse h rest : smb2_hdr_wf h = true ->
  fold_res hdr2_byte (ser_smb2_hdr h ++ rest) hdr2_new = fold_res hdr2_byte rest (hdr2_end h).
Proof.
  intros Hwf. unfold smb2_hdr_wf in Hwf. split_wf Hwf. wf_lt. unfold W64' in *. fold W64 in *.
  unfold ser_smb2_hdr. rewrite <- !app_assoc.
  rewrite hdr2_skip_0 by reflexivity.
  rewrite hdr2_f_structure_size by (first [lia | reflexivity]).
  rewrite hdr2_f_credit_charge by (first [assumption | reflexivity]).
  rewrite hdr2_f_status by (first [assumption | reflexivity]).
  rewrite hdr2_f_command by (first [assumption | reflexivity]).
  rewrite hdr2_f_credits_requested by (first [assumption | reflexivity]).
  rewrite hdr2_f_flags by (first [assumption | reflexivity]).
  rewrite hdr2_f_next_command by (first [assumption | reflexivity]).
  rewrite hdr2_f_message_id by (first [assumption | reflexivity]).
  rewrite hdr2_f_async_id by (first [assumption | reflexivity]).
  rewrite hdr2_f_session_id by (first [assumption | reflexivity]).
  rewrite hdr2_skip_11 by (first [assumption | reflexivity]).
  reflexivity.
Qed.

Lemma hdr2_end_step_pay s p b : d_st (h2_d s) = 12 -> h2_pay s = Some p ->
  hdr2_byte s b = do p' <- pay2_byte p b; Ok (set_h2_pay s (Some p')).
Proof.
  intros Hs Hp. unfold hdr2_byte. cbv zeta. rewrite Hs. unfold hdr2_payload_byte. rewrite Hp. reflexivity.
Qed.

Lemma hdr2_end_step_none s b : d_st (h2_d s) = 12 -> h2_pay s = None ->
  hdr2_byte s b =
  if N.land (h2_flags s) 1 =? 1 then Ok s
  else if h2_command s =? 0 then do p' <- pay2_byte (P2Neg neg2_new) b; Ok (set_h2_pay s (Some p'))
  else if h2_command s =? 1 then do p' <- pay2_byte (P2Setup setup2_new) b; Ok (set_h2_pay s (Some p'))
  else Ok s.
Proof.
  intros Hs Hp. unfold hdr2_byte. cbv zeta. rewrite Hs. unfold hdr2_payload_byte. rewrite Hp. reflexivity.
Qed.

Lemma hdr2_fold_pay data s p : d_st (h2_d s) = 12 -> h2_pay s = Some p ->
  fold_res hdr2_byte data s
  = do p' <- fold_res pay2_byte data p; Ok (match data with [] => s | _ => set_h2_pay s (Some p') end).
Proof.
  intros Hs Hp.
  apply (fold_res_delegate hdr2_byte pay2_byte h2_pay (fun s p => set_h2_pay s (Some p))
           (fun s => d_st (h2_d s) = 12)).
  - intros s0 p0 b Hs0 Hp0. apply hdr2_end_step_pay; assumption.
  - intros s0 p0 H. exact H.
  - reflexivity.
  - reflexivity.
  - exact Hs.
  - exact Hp.
Qed.

Lemma pay2_fold_neg data n :
  fold_res pay2_byte data (P2Neg n) = do n' <- fold_res neg2_byte data n; Ok (P2Neg n').
Proof.
  revert n. induction data as [|b t IH]; intros n; [reflexivity|].
  rewrite !fold_res_cons. cbn [pay2_byte].
  destruct (neg2_byte n b) as [n1|site]; cbn [bind]; [apply IH | reflexivity].
Qed.
Lemma pay2_fold_setup data n :
  fold_res pay2_byte data (P2Setup n) = do n' <- fold_res setup2_byte data n; Ok (P2Setup n').
Proof.
  revert n. induction data as [|b t IH]; intros n; [reflexivity|].
  rewrite !fold_res_cons. cbn [pay2_byte].
  destruct (setup2_byte n b) as [n1|site]; cbn [bind]; [apply IH | reflexivity].
Qed.

Definition hdr2_with (h : smb2_hdr) (p : pay2) : hdr2 := set_h2_pay (hdr2_end h) (Some p).

Lemma hdr2_fold_first h first x body :
  hdr2_byte (hdr2_end h) x = (do p' <- pay2_byte first x; Ok (set_h2_pay (hdr2_end h) (Some p'))) ->
  fold_res hdr2_byte (x :: body) (hdr2_end h)
  = do p <- fold_res pay2_byte (x :: body) first; Ok (hdr2_with h p).
Proof.
  intros Hstep. rewrite !fold_res_cons, Hstep.
  destruct (pay2_byte first x) as [p1|site]; cbn [bind]; [|reflexivity].
  rewrite (hdr2_fold_pay body _ p1) by reflexivity.
  destruct body as [|b1 body]; [reflexivity|].
  destruct (fold_res pay2_byte (b1 :: body) p1) as [p2|site]; cbn [bind]; reflexivity.
Qed.

Lemma land1_cases x : N.land x 1 = 0 \/ N.land x 1 = 1.
Proof.
  assert (H : N.land x 1 = x mod 2) by (apply (N.land_ones x 1)).
  rewrite H. pose proof (N.mod_lt x 2 ltac:(discriminate)). lia.
Qed.

Lemma smb2_request_flag h : smb2_is_request h = true -> (N.land (sh2_flags h) 1 =? 1) = false.
Proof.
  unfold smb2_is_request, has_bit, SMB2_FLAGS_SERVER_TO_REDIR. rewrite negb_involutive. intros H.
  apply N.eqb_eq in H. rewrite H. reflexivity.
Qed.
Lemma smb2_response_flag h : smb2_is_request h = false -> (N.land (sh2_flags h) 1 =? 1) = true.
Proof.
  unfold smb2_is_request, has_bit, SMB2_FLAGS_SERVER_TO_REDIR. intros H.
  apply negb_false_iff, negb_true_iff, N.eqb_neq in H.
  destruct (land1_cases (sh2_flags h)) as [E|E]; [congruence|]. rewrite E. reflexivity.
Qed.

Lemma ser_smb2_hdr_nonempty h rest : ser_smb2_hdr h ++ rest <> [].
Proof. unfold ser_smb2_hdr, SMB2_PROTOCOL. cbn [app]. discriminate. Qed.

Section Run2.
Variables (neg chal : bytes) (ft : N).

Definition smb2_out (h : smb2_hdr) (p : pay2) : res (option bytes) :=
  nbt_wrap (hdr2_repl neg chal ft (hdr2_with h p)).

Lemma smb2_run_negotiate h x body t f a b :
  smb2_hdr_wf h = true -> smb2_is_request h = true -> sh2_command h = SMB2_NEGOTIATE ->
  smb2_repl neg chal ft ([t; f; a; b] ++ ser_smb2_hdr h ++ x :: body)
  = do n <- fold_res neg2_byte (x :: body) neg2_new; smb2_out h (P2Neg n).
Proof.
  intros Hwf Hreq Hcmd. unfold smb2_repl.
  rewrite nbt_run_payload' by apply ser_smb2_hdr_nonempty.
  rewrite hdr2_parse by exact Hwf.
  rewrite (hdr2_fold_first h (P2Neg neg2_new)).
  - rewrite pay2_fold_neg.
    destruct (fold_res neg2_byte (x :: body) neg2_new) as [n|site]; reflexivity.
  - rewrite hdr2_end_step_none by reflexivity. cbn [hdr2_end h2_flags h2_command].
    rewrite (smb2_request_flag h Hreq), Hcmd. reflexivity.
Qed.

Lemma smb2_run_setup h x body t f a b :
  smb2_hdr_wf h = true -> smb2_is_request h = true -> sh2_command h = SMB2_SESSION_SETUP ->
  smb2_repl neg chal ft ([t; f; a; b] ++ ser_smb2_hdr h ++ x :: body)
  = do n <- fold_res setup2_byte (x :: body) setup2_new; smb2_out h (P2Setup n).
Proof.
  intros Hwf Hreq Hcmd. unfold smb2_repl.
  rewrite nbt_run_payload' by apply ser_smb2_hdr_nonempty.
  rewrite hdr2_parse by exact Hwf.
  rewrite (hdr2_fold_first h (P2Setup setup2_new)).
  - rewrite pay2_fold_setup.
    destruct (fold_res setup2_byte (x :: body) setup2_new) as [n|site]; reflexivity.
  - rewrite hdr2_end_step_none by reflexivity. cbn [hdr2_end h2_flags h2_command].
    rewrite (smb2_request_flag h Hreq), Hcmd. reflexivity.
Qed.

Lemma hdr2_end_ignored h data :
  smb2_is_request h = false \/
  (sh2_command h <> SMB2_NEGOTIATE /\ sh2_command h <> SMB2_SESSION_SETUP) ->
  fold_res hdr2_byte data (hdr2_end h) = Ok (hdr2_end h).
Proof.
  intros Hc.
  apply (fold_res_stuck hdr2_byte (fun s => s = hdr2_end h)); [|reflexivity].
  intros s b ->. rewrite hdr2_end_step_none by reflexivity. cbn [hdr2_end h2_flags h2_command].
  destruct Hc as [Hc | [Hc1 Hc2]].
  - rewrite (smb2_response_flag h Hc). reflexivity.
  - destruct (N.land (sh2_flags h) 1 =? 1); [reflexivity|].
    unfold SMB2_NEGOTIATE, SMB2_SESSION_SETUP in *.
    apply N.eqb_neq in Hc1, Hc2. rewrite Hc1, Hc2. reflexivity.
Qed.

Theorem smb2_not_request_silent h body t f a b :
  smb2_hdr_wf h = true ->
  smb2_is_request h = false \/
  (sh2_command h <> SMB2_NEGOTIATE /\ sh2_command h <> SMB2_SESSION_SETUP) ->
  smb2_repl neg chal ft ([t; f; a; b] ++ ser_smb2_hdr h ++ body) = Ok None.
Proof.
  intros Hwf Hc. unfold smb2_repl.
  rewrite nbt_run_payload' by apply ser_smb2_hdr_nonempty.
  rewrite hdr2_parse by exact Hwf. rewrite hdr2_end_ignored by exact Hc. reflexivity.
Qed.
End Run2.


(* ---------- negotiate request ---------- *)
Definition n2_state (st : N) (q : neg2_req) (set : list N) (rd : N) : neg2 :=
  {| n2_d := {| d_i := 0; d_st := st |}; n2_tmp := 0; n2_structure_size := 36;
     n2_dialect_count := N.of_nat (length (nq2_dialects q)); n2_security_mode := nq2_security_mode q;
     n2_capabilities := nq2_capabilities q; n2_client_guid := nq2_client_guid q;
     n2_dialects := set; n2_read := rd |}.

Lemma neg2_guid_fold b0 b1 b2 b3 b4 b5 b6 b7 b8 b9 b10 b11 b12 b13 b14 b15 rest tmp ss dc sm cp ds rd :
  fold_res neg2_byte ([b0; b1; b2; b3; b4; b5; b6; b7; b8; b9; b10; b11; b12; b13; b14; b15] ++ rest)
    {| n2_d := {| d_i := 0; d_st := 5 |}; n2_tmp := tmp; n2_structure_size := ss; n2_dialect_count := dc;
       n2_security_mode := sm; n2_capabilities := cp; n2_client_guid := zeros 16; n2_dialects := ds; n2_read := rd |}
  = fold_res neg2_byte rest
    {| n2_d := {| d_i := 0; d_st := 6 |}; n2_tmp := tmp; n2_structure_size := ss; n2_dialect_count := dc;
       n2_security_mode := sm; n2_capabilities := cp;
       n2_client_guid := [b0; b1; b2; b3; b4; b5; b6; b7; b8; b9; b10; b11; b12; b13; b14; b15];
       n2_dialects := ds; n2_read := rd |}.
Proof. reflexivity. Qed.

Ltac n2_state7 :=
  change (7 =? N2_STRUCTURESIZE) with false; change (7 =? N2_DIALECTCOUNT) with false;
  change (7 =? N2_SECURITYMODE) with false; change (7 =? N2_RESERVED) with false;
  change (7 =? N2_CAPABILITIES) with false; change (7 =? N2_CLIENTGUID) with false;
  change (7 =? N2_NEGOTIATEANDRESERVED2) with false; change (7 =? N2_DIALECTS) with true; cbv iota.

Lemma neg2_step_lo s b : n2_d s = {| d_i := 0; d_st := 7 |} -> n2_tmp s = 0 -> b < 256 ->
  neg2_byte s b = Ok (set_n2_d (set_n2_tmp s b) {| d_i := 1; d_st := 7 |}).
Proof.
  intros Hd Ht Hb. unfold neg2_byte. cbv zeta. rewrite Hd, Ht. cbn [d_st]. n2_state7.
  unfold read_ule16. rewrite read_ule_ok; cbn [d_i]; try rewrite pow8_0; try lia.
  cbn [bind]. unfold d_when, d_inc. cbn [d_i d_st]. change (0 + 1 =? 2) with false. cbv iota. cbn [d_i].
  change (0 + 1 =? 0) with false. cbv iota.
  rewrite N.mod_small by (unfold W16; lia). replace (0 + b * 1) with b by lia.
  reflexivity.
Qed.

Lemma neg2_step_hi s b lo rd cnt set : n2_d s = {| d_i := 1; d_st := 7 |} -> n2_tmp s = lo ->
  n2_read s = rd -> n2_dialect_count s = cnt -> n2_dialects s = set -> lo < 256 -> b < 256 ->
  neg2_byte s b =
  Ok (set_n2_d (set_n2_tmp (set_n2_read (set_n2_dialects s (set_insert (lo + 256 * b) set)) ((rd + 1) mod W16)) 0)
               (if (rd + 1) mod W16 =? cnt then {| d_i := 0; d_st := 8 |} else {| d_i := 0; d_st := 7 |})).
Proof.
  intros Hd Ht Hrd Hcnt Hset Hlo Hb. unfold neg2_byte. cbv zeta. rewrite Hd, Ht, Hrd, Hcnt, Hset. cbn [d_st]. n2_state7.
  unfold read_ule16. rewrite read_ule_ok; cbn [d_i]; try lia;
    [| change (pow8 1) with (pow8 (0 + 1)); rewrite pow8_S, pow8_0; lia].
  cbn [bind]. unfold d_when, d_inc, d_next, d_force. cbn [d_i d_st]. change (1 + 1 =? 2) with true. cbv iota. cbn [d_i].
  change (0 =? 0) with true. cbv iota.
  change (pow8 1) with (pow8 (0 + 1)). rewrite pow8_S, pow8_0.
  replace ((lo + b * (256 * 1)) mod W16) with (lo + 256 * b) by (unfold W16; lia).
  destruct ((rd + 1) mod W16 =? cnt); reflexivity.
Qed.

Lemma neg2_dialect q v rest set rd :
  v < 65536 ->
  fold_res neg2_byte (le16 v ++ rest) (n2_state 7 q set rd)
  = fold_res neg2_byte rest
      (if (rd + 1) mod W16 =? N.of_nat (length (nq2_dialects q))
       then n2_state 8 q (set_insert v set) ((rd + 1) mod W16)
       else n2_state 7 q (set_insert v set) ((rd + 1) mod W16)).
Proof.
  intros Hv. unfold le16. cbn [app]. rewrite fold_res_cons.
  rewrite neg2_step_lo by (first [reflexivity | lia]). cbn [bind]. rewrite fold_res_cons.
  rewrite (neg2_step_hi _ _ (v mod 256) rd (N.of_nat (length (nq2_dialects q))) set)
    by (first [reflexivity | lia]).
  cbn [bind].
  replace (v mod 256 + 256 * ((v / 256) mod 256)) with v by lia.
  destruct ((rd + 1) mod W16 =? N.of_nat (length (nq2_dialects q))); reflexivity.
Qed.

Definition insert_all (ds : list N) (set : list N) : list N := fold_left (fun s v => set_insert v s) ds set.

Lemma neg2_end_stuck data q set rd :
  fold_res neg2_byte data (n2_state 8 q set rd) = Ok (n2_state 8 q set rd).
Proof.
  apply (fold_res_stuck neg2_byte (fun s => d_st (n2_d s) = 8)); [|reflexivity].
  intros s b H. unfold neg2_byte. cbv zeta. rewrite H. reflexivity.
Qed.

Lemma neg2_loop q : forall ds d tail set rd,
  forallb (fun d => d <? 65536) (d :: ds) = true ->
  rd + N.of_nat (length (d :: ds)) = N.of_nat (length (nq2_dialects q)) ->
  N.of_nat (length (nq2_dialects q)) < 65536 ->
  fold_res neg2_byte (ser_dialects2 (d :: ds) ++ tail) (n2_state 7 q set rd)
  = Ok (n2_state 8 q (insert_all (d :: ds) set) (N.of_nat (length (nq2_dialects q)))).
Proof.
  induction ds as [|d' ds IH]; intros d tail set rd Hwf Hlen Hc.
  - cbn [forallb] in Hwf. rewrite andb_true_r in Hwf. apply N.ltb_lt in Hwf.
    unfold ser_dialects2. cbn [map concat]. rewrite app_nil_r.
    rewrite neg2_dialect by exact Hwf. cbn [length] in Hlen.
    rewrite N.mod_small by (unfold W16; lia).
    replace (rd + 1 =? N.of_nat (length (nq2_dialects q))) with true by (symmetry; apply N.eqb_eq; lia).
    rewrite neg2_end_stuck. cbn [insert_all fold_left]. f_equal. f_equal. lia.
  - cbn [forallb] in Hwf. apply andb_true_iff in Hwf. destruct Hwf as [Hd Hwf]. apply N.ltb_lt in Hd.
    change (ser_dialects2 (d :: d' :: ds)) with (le16 d ++ ser_dialects2 (d' :: ds)).
    rewrite <- app_assoc. rewrite neg2_dialect by exact Hd. cbn [length] in Hlen.
    rewrite N.mod_small by (unfold W16; lia).
    replace (rd + 1 =? N.of_nat (length (nq2_dialects q))) with false by (symmetry; apply N.eqb_neq; lia).
    rewrite IH; [reflexivity | exact Hwf | cbn [length]; lia | exact Hc].
Qed.

Lemma neg2_guid_fold' bs rest s :
  length bs = 16%nat -> n2_d s = {| d_i := 0; d_st := 5 |} -> n2_client_guid s = zeros 16 ->
  fold_res neg2_byte (bs ++ rest) s
  = fold_res neg2_byte rest (set_n2_d (set_n2_client_guid s bs) (d_next 6)).
Proof.
  intros Hl Hd Hg.
  destruct (len16 _ Hl) as (b0 & b1 & b2 & b3 & b4 & b5 & b6 & b7 & b8 & b9 & b10 & b11 & b12 & b13 & b14 & b15 & ->).
  destruct s as [d tmp ss dc sm cp g ds rd]. cbn [n2_d n2_client_guid] in Hd, Hg. subst d g.
  apply neg2_guid_fold.
Qed.

Lemma neg2_parse q tail :
  neg2_req_wf q = true ->
  fold_res neg2_byte (ser_neg2_req q ++ tail) neg2_new
  = Ok (n2_state 8 q (insert_all (nq2_dialects q) []) (N.of_nat (length (nq2_dialects q)))).
Proof.
  intros Hwf. unfold neg2_req_wf in Hwf. split_wf Hwf. wf_lt.
  unfold ser_neg2_req. rewrite <- !app_assoc.
  rewrite neg2_f_structure_size by (first [lia | reflexivity]).
  rewrite neg2_f_dialect_count by (first [assumption | reflexivity]).
  rewrite neg2_f_security_mode by (first [assumption | reflexivity]).
  rewrite (neg2_skip_3 (le16 (nq2_reserved q))) by reflexivity.
  rewrite neg2_f_capabilities by (first [assumption | reflexivity]).
  rewrite neg2_guid_fold' by (first [assumption | reflexivity]).
  rewrite (neg2_skip_6 (le64 (nq2_start_time q))) by reflexivity.
  match goal with |- fold_res _ _ ?s = _ => change s with (n2_state 7 q [] 0) end.
  destruct (nq2_dialects q) as [|d ds] eqn:Eds; [cbn in W0; lia|].
  pose proof (neg2_loop q ds d tail [] 0) as HL. rewrite Eds in HL.
  rewrite HL; [reflexivity | exact W1 | lia | exact W].
Qed.


(* ---------- dialect selection ---------- *)
Lemma set_mem_insert x v set : set_mem x (set_insert v set) = set_mem x set || (x =? v).
Proof.
  unfold set_insert. destruct (set_mem v set) eqn:E.
  - destruct (x =? v) eqn:Ex; [apply N.eqb_eq in Ex; subst; rewrite E; reflexivity | rewrite orb_false_r; reflexivity].
  - unfold set_mem. rewrite existsb_app. cbn [existsb]. rewrite orb_false_r. reflexivity.
Qed.

Lemma set_mem_insert_all x : forall ds set, set_mem x (insert_all ds set) = set_mem x set || offered2 x ds.
Proof.
  induction ds as [|d ds IH]; intros set; cbn [insert_all fold_left offered2 existsb].
  - rewrite orb_false_r. reflexivity.
  - change (fold_left (fun s v => set_insert v s) ds (set_insert d set)) with (insert_all ds (set_insert d set)).
    rewrite IH, set_mem_insert. unfold offered2. rewrite orb_assoc. reflexivity.
Qed.

Lemma neg2_pick_select ds : neg2_pick (insert_all ds []) = select2 ds.
Proof.
  unfold neg2_pick, select2.
  change SMB2_VERSIONS with SERVER_DIALECTS2.
  induction SERVER_DIALECTS2 as [|v l IH]; cbn [find first_offered2]; [reflexivity|].
  rewrite set_mem_insert_all. cbn [set_mem existsb orb].
  destruct (offered2 v ds); [reflexivity | exact IH].
Qed.

(* what the specification's selection function means *)
Lemma first_offered2_spec prefs ds d : first_offered2 prefs ds = Some d ->
  In d prefs /\ offered2 d ds = true /\
  exists before after, prefs = before ++ d :: after /\ forallb (fun x => negb (offered2 x ds)) before = true.
Proof.
  induction prefs as [|p l IH]; cbn [first_offered2]; [discriminate|].
  destruct (offered2 p ds) eqn:E.
  - intros H. injection H as <-. split; [left; reflexivity|]. split; [exact E|]. exists [], l. split; reflexivity.
  - intros H. destruct (IH H) as (H1 & H2 & bf & af & -> & H3).
    split; [right; exact H1|]. split; [exact H2|]. exists (p :: bf), af. split; [reflexivity|].
    cbn [forallb]. rewrite E, H3. reflexivity.
Qed.
Lemma first_offered2_none prefs ds : first_offered2 prefs ds = None ->
  forallb (fun x => negb (offered2 x ds)) prefs = true.
Proof.
  induction prefs as [|p l IH]; cbn [first_offered2 forallb]; [reflexivity|].
  destruct (offered2 p ds); [discriminate|]. intros H. rewrite (IH H). reflexivity.
Qed.

(* ---------- reply header ---------- *)
Lemma rd_smb2_hdr_ser h t : smb2_hdr_wf h = true -> rd_smb2_hdr (ser_smb2_hdr h ++ t) = Some (h, t).
Proof.
  intros Hwf. unfold smb2_hdr_wf in Hwf. split_wf Hwf. wf_lt. unfold W64' in *. fold W64 in *.
  unfold ser_smb2_hdr, rd_smb2_hdr. rewrite <- !app_assoc.
  rewrite rd_take_app by reflexivity.
  change (bytes_eqb SMB2_PROTOCOL SMB2_PROTOCOL) with true. cbn [negb].
  rewrite rd_le16_le16 by lia. change (64 =? 64) with true. cbn [negb].
  rewrite rd_le16_le16 by assumption. rewrite rd_le32_le32 by assumption.
  rewrite !rd_le16_le16 by assumption. rewrite !rd_le32_le32 by assumption.
  rewrite !rd_le64_le64 by assumption.
  rewrite rd_take_app by assumption.
  destruct h; reflexivity.
Qed.

Definition reply_hdr2 (h : smb2_hdr) : smb2_hdr :=
  {| sh2_credit_charge := 0; sh2_status := 0; sh2_command := sh2_command h; sh2_credits := 1;
     sh2_flags := 1; sh2_next_command := 0; sh2_message_id := sh2_message_id h;
     sh2_async_id := sh2_async_id h; sh2_session_id := sh2_session_id h; sh2_signature := zeros 16 |}.

Lemma reply_hdr2_wf h : smb2_hdr_wf h = true -> smb2_hdr_wf (reply_hdr2 h) = true.
Proof.
  intros Hwf. unfold smb2_hdr_wf in *. split_wf Hwf.
  cbn [reply_hdr2 sh2_credit_charge sh2_status sh2_command sh2_credits sh2_flags sh2_next_command
       sh2_message_id sh2_async_id sh2_session_id sh2_signature].
  repeat (apply andb_true_iff; split); first [assumption | reflexivity].
Qed.

Lemma reply_hdr2_ok h : smb2_reply_hdr_ok h (reply_hdr2 h) = true.
Proof.
  unfold smb2_reply_hdr_ok, reply_hdr2. cbn [sh2_command sh2_flags sh2_message_id sh2_async_id sh2_session_id].
  rewrite !N.eqb_refl. reflexivity.
Qed.

Lemma hdr2_repl_with neg chal ft h p body :
  pay2_repl neg chal ft p = Some body ->
  hdr2_repl neg chal ft (hdr2_with h p) = Some (ser_smb2_hdr (reply_hdr2 h) ++ body).
Proof.
  intros Hb. unfold hdr2_repl, hdr2_with. cbn [set_h2_pay h2_pay]. rewrite Hb.
  unfold ser_smb2_hdr. rewrite <- !app_assoc. reflexivity.
Qed.
Lemma hdr2_repl_with_none neg chal ft h p :
  pay2_repl neg chal ft p = None -> hdr2_repl neg chal ft (hdr2_with h p) = None.
Proof. intros Hb. unfold hdr2_repl, hdr2_with. cbn [set_h2_pay h2_pay]. rewrite Hb. reflexivity. Qed.

Lemma lenN_ser_smb2_hdr h : length (sh2_signature h) = 16%nat -> lenN (ser_smb2_hdr h) = 64.
Proof.
  intros H. unfold lenN, ser_smb2_hdr, SMB2_PROTOCOL. len_simpl. rewrite H. reflexivity.
Qed.

Lemma smb2_out_some neg chal ft h p body :
  smb2_hdr_wf h = true -> pay2_repl neg chal ft p = Some body -> lenN body < 131000 ->
  exists r, smb2_out neg chal ft h p = Ok (Some r) /\
            dec_nbt_exact r = Some (ser_smb2_hdr (reply_hdr2 h) ++ body) /\
            dec_smb2_reply r = Some (reply_hdr2 h, body).
Proof.
  intros Hwf Hb Hlen. unfold smb2_out. rewrite (hdr2_repl_with _ _ _ _ _ _ Hb).
  assert (Hl : lenN (ser_smb2_hdr (reply_hdr2 h) ++ body) < 131072).
  { rewrite lenN_app, lenN_ser_smb2_hdr by reflexivity. lia. }
  rewrite nbt_wrap_small by exact Hl.
  eexists. split; [reflexivity|].
  pose proof (dec_nbt_exact_wrap _ Hl) as Hd. split; [exact Hd|].
  unfold dec_smb2_reply. rewrite Hd. apply rd_smb2_hdr_ser. apply reply_hdr2_wf. exact Hwf.
Qed.

(* ---------- negotiate response ---------- *)
Definition exp_neg2_resp (d ft : N) (guid neg : bytes) : neg2_resp :=
  {| nr2_security_mode := 1; nr2_dialect := d; nr2_context_count := 1; nr2_server_guid := guid;
     nr2_capabilities := 1; nr2_max_transact := 65536; nr2_max_read := 65536; nr2_max_write := 65536;
     nr2_system_time := ft mod W64; nr2_start_time := ft mod W64; nr2_buffer_offset := 128;
     nr2_buffer_length := lenN neg; nr2_context_offset := 0; nr2_tail := neg |}.

Lemma rd_neg2_resp_model d ft guid neg :
  d < 65536 -> length guid = 16%nat -> lenN neg < 65536 ->
  rd_neg2_resp (le16 65 ++ le16 1 ++ le16 d ++ le16 1 ++ guid ++ le32 1 ++ le32 65536 ++ le32 65536 ++
                le32 65536 ++ le64 ft ++ le64 ft ++ le16 128 ++ le16 (wrap16 (lenN neg)) ++ le32 0 ++ neg)
  = Some (exp_neg2_resp d ft guid neg).
Proof.
  intros Hd Hg Hl. unfold rd_neg2_resp.
  rewrite rd_le16_le16 by lia. change (65 =? 65) with true. cbn [negb].
  rewrite !rd_le16_le16 by lia. rewrite rd_take_app by exact Hg.
  rewrite !rd_le32_le32 by lia. rewrite !rd_le64_le64_wrap.
  rewrite rd_le16_le16 by lia. unfold wrap16. rewrite N.mod_small by lia.
  rewrite rd_le16_le16 by lia. rewrite rd_le32_le32 by lia. reflexivity.
Qed.

Lemma firstn_lenN_all (a : bytes) : firstn (N.to_nat (lenN a)) a = a.
Proof. unfold lenN. rewrite Nat2N.id. apply firstn_all. Qed.

Lemma neg2_resp_consistent_model d ft guid neg :
  nr2_blob (exp_neg2_resp d ft guid neg) = neg /\ neg2_resp_consistent (exp_neg2_resp d ft guid neg) = true.
Proof.
  unfold neg2_resp_consistent, nr2_blob, exp_neg2_resp.
  cbn [nr2_buffer_offset nr2_buffer_length nr2_tail].
  change (128 - 128) with 0. change (N.to_nat 0) with 0%nat. cbn [skipn].
  rewrite firstn_lenN_all. split; [reflexivity|].
  change (128 <=? 128) with true. change (0 + lenN neg) with (lenN neg). rewrite !N.eqb_refl. reflexivity.
Qed.


Lemma ser_neg2_req_cons q tail : exists x body, ser_neg2_req q ++ tail = x :: body.
Proof. unfold ser_neg2_req, le16. cbn [app]. eauto. Qed.

Definition neg2_end (q : neg2_req) : neg2 :=
  n2_state N2_END q (insert_all (nq2_dialects q) []) (N.of_nat (length (nq2_dialects q))).

Theorem smb2_negotiate_parse h q tail t f a b :
  smb2_hdr_wf h = true -> neg2_req_wf q = true ->
  smb2_is_request h = true -> sh2_command h = SMB2_NEGOTIATE ->
  exists l,
    fold_res (nbt_byte hdr2 hdr2_new hdr2_byte)
      ([t; f; a; b] ++ ser_smb2_hdr h ++ ser_neg2_req q ++ tail) (nbt_new hdr2)
    = Ok {| nb_d := {| d_i := 0; d_st := NB_END |}; nb_type := t; nb_len := l;
            nb_pay := Some (hdr2_with h (P2Neg (neg2_end q))) |}.
Proof.
  intros Hwf Hq Hreq Hcmd.
  destruct (nbt_fold_payload' hdr2 hdr2_new hdr2_byte t f a b (ser_smb2_hdr h ++ ser_neg2_req q ++ tail)
              (ser_smb2_hdr_nonempty h _)) as [l Hl].
  exists l. rewrite Hl. rewrite hdr2_parse by exact Hwf.
  destruct (ser_neg2_req_cons q tail) as (x & body & Hxb).
  pose proof (neg2_parse q tail Hq) as Hp. rewrite Hxb in *.
  rewrite (hdr2_fold_first h (P2Neg neg2_new)).
  - rewrite pay2_fold_neg, Hp. reflexivity.
  - rewrite hdr2_end_step_none by reflexivity. cbn [hdr2_end h2_flags h2_command].
    rewrite (smb2_request_flag h Hreq), Hcmd. reflexivity.
Qed.

Lemma neg2_wf_guid q : neg2_req_wf q = true -> length (nq2_client_guid q) = 16%nat.
Proof. intros H. unfold neg2_req_wf in H. split_wf H. wf_lt. assumption. Qed.

Lemma select2_lt ds d : select2 ds = Some d -> d < 65536.
Proof.
  intros H. destruct (first_offered2_spec _ _ _ H) as (Hin & _).
  unfold SERVER_DIALECTS2 in Hin. cbn [In] in Hin.
  repeat (destruct Hin as [<-|Hin]; [lia|]). destruct Hin.
Qed.

Theorem smb2_negotiate_reply neg chal ft h q d tail t f a b :
  blob_ok neg chal = true -> smb2_hdr_wf h = true -> neg2_req_wf q = true ->
  smb2_is_request h = true -> sh2_command h = SMB2_NEGOTIATE ->
  select2 (nq2_dialects q) = Some d ->
  exists r body rsp,
    smb2_repl neg chal ft ([t; f; a; b] ++ ser_smb2_hdr h ++ ser_neg2_req q ++ tail) = Ok (Some r) /\
    dec_nbt_exact r = Some (ser_smb2_hdr (reply_hdr2 h) ++ body) /\
    dec_smb2_reply r = Some (reply_hdr2 h, body) /\
    rd_neg2_resp body = Some rsp /\
    neg2_resp_consistent rsp = true /\
    nr2_dialect rsp = d /\ nr2_buffer_offset rsp = 128 /\ nr2_buffer_length rsp = lenN neg /\ nr2_blob rsp = neg /\
    neg2_reply_ok h d r = true.
Proof.
  intros Hblob Hwf Hq Hreq Hcmd Hsel. blob_facts Hblob.
  destruct (ser_neg2_req_cons q tail) as (x & body0 & Hxb).
  pose proof (neg2_parse q tail Hq) as Hp. rewrite Hxb in *.
  rewrite smb2_run_negotiate by assumption. rewrite Hp. cbn [bind].
  pose proof (select2_lt _ _ Hsel) as Hd.
  pose proof (neg2_wf_guid q Hq) as Hg.
  set (body := le16 65 ++ le16 1 ++ le16 d ++ le16 1 ++ nq2_client_guid q ++ le32 1 ++ le32 65536 ++ le32 65536 ++
                le32 65536 ++ le64 ft ++ le64 ft ++ le16 128 ++ le16 (wrap16 (lenN neg)) ++ le32 0 ++ neg).
  assert (Hbody : pay2_repl neg chal ft
                    (P2Neg (n2_state 8 q (insert_all (nq2_dialects q) []) (N.of_nat (length (nq2_dialects q)))))
                  = Some body).
  { cbn [pay2_repl]. unfold neg2_repl. cbn [n2_state n2_d d_st n2_dialects n2_client_guid].
    change (negb (8 =? N2_END)) with false. cbv iota.
    rewrite neg2_pick_select, Hsel. reflexivity. }
  assert (Hbl : lenN body < 131000).
  { subst body. unfold lenN. len_simpl. rewrite Hg. unfold lenN in *. lia. }
  destruct (smb2_out_some neg chal ft h _ body Hwf Hbody Hbl) as (r & Hr & Hd1 & Hd2).
  pose proof (rd_neg2_resp_model d ft (nq2_client_guid q) neg Hd Hg ltac:(lia)) as Hrd. fold body in Hrd.
  destruct (neg2_resp_consistent_model d ft (nq2_client_guid q) neg) as [Hblob2 Hcons].
  eexists r, body, _. split; [exact Hr|]. split; [exact Hd1|]. split; [exact Hd2|].
  split; [exact Hrd|]. split; [exact Hcons|].
  split; [reflexivity|]. split; [reflexivity|]. split; [reflexivity|]. split; [exact Hblob2|].
  unfold neg2_reply_ok. rewrite Hd2, Hrd, reply_hdr2_ok, Hcons. cbn [exp_neg2_resp nr2_dialect andb].
  apply N.eqb_refl.
Qed.

Theorem smb2_no_common_dialect_silent neg chal ft h q tail t f a b :
  smb2_hdr_wf h = true -> neg2_req_wf q = true ->
  smb2_is_request h = true -> sh2_command h = SMB2_NEGOTIATE ->
  select2 (nq2_dialects q) = None ->
  smb2_repl neg chal ft ([t; f; a; b] ++ ser_smb2_hdr h ++ ser_neg2_req q ++ tail) = Ok None.
Proof.
  intros Hwf Hq Hreq Hcmd Hsel.
  destruct (ser_neg2_req_cons q tail) as (x & body0 & Hxb).
  pose proof (neg2_parse q tail Hq) as Hp. rewrite Hxb in *.
  rewrite smb2_run_negotiate by assumption. rewrite Hp. cbn [bind].
  unfold smb2_out. rewrite hdr2_repl_with_none; [reflexivity|].
  cbn [pay2_repl]. unfold neg2_repl. cbn [n2_state n2_d d_st n2_dialects].
  change (negb (8 =? N2_END)) with false. cbv iota.
  rewrite neg2_pick_select, Hsel. reflexivity.
Qed.

(* ---------- session setup ---------- *)
Definition setup2_end (q : setup2_req) : setup2 :=
  {| s2_d := {| d_i := 0; d_st := 9 |}; s2_structure_size := 25; s2_flags := sq2_flags q;
     s2_security_mode := sq2_security_mode q; s2_capabilities := sq2_capabilities q;
     s2_channel := sq2_channel q; s2_sec_off := 88 + lenN (sq2_pad q); s2_sec_len := lenN (sq2_blob q);
     s2_prev_session := sq2_previous_session q |}.

Lemma setup2_blob bs rest s :
  s2_d s = {| d_i := 0; d_st := 8 |} -> s2_sec_len s = lenN bs -> 0 < lenN bs ->
  fold_res setup2_byte (bs ++ rest) s = fold_res setup2_byte rest (set_s2_d s (d_next 9)).
Proof.
  intros Hd Hl Hpos.
  apply (fold_skipq setup2_byte s2_d set_s2_d (fun s => s2_sec_len s = lenN bs) 8 9 (lenN bs)).
  - intros s0 b0 Hq H0 Hi. unfold setup2_byte. cbv zeta. rewrite H0, Hq. reflexivity.
  - intros [] ? H; exact H.
  - intros [] ?; reflexivity.
  - intros [] ? ?; reflexivity.
  - intros []; reflexivity.
  - exact Hl.
  - reflexivity.
  - exact Hpos.
  - exact Hd.
Qed.

Lemma setup2_end_stuck data s : d_st (s2_d s) = 9 -> fold_res setup2_byte data s = Ok s.
Proof.
  intros H. apply (fold_res_stuck setup2_byte (fun s => d_st (s2_d s) = 9)); [|exact H].
  intros s0 b H0. unfold setup2_byte. cbv zeta. rewrite H0. reflexivity.
Qed.

(* the responder consumes SecurityBufferLength bytes right after the fixed part, whatever
   SecurityBufferOffset says: with filler bytes in front of the buffer it stops earlier *)
Lemma setup2_parse q tail :
  setup2_req_wf q = true ->
  fold_res setup2_byte (ser_setup2_req q ++ tail) setup2_new = Ok (setup2_end q).
Proof.
  intros Hwf. unfold setup2_req_wf in Hwf. split_wf Hwf. wf_lt. unfold W64' in *. fold W64 in *.
  unfold ser_setup2_req. rewrite <- !app_assoc.
  rewrite setup2_f_structure_size by (first [lia | reflexivity]).
  cbn [app].
  rewrite setup2_b_flags by reflexivity.
  rewrite setup2_b_security_mode by reflexivity.
  rewrite setup2_f_capabilities by (first [assumption | reflexivity]).
  rewrite setup2_f_channel by (first [assumption | reflexivity]).
  rewrite setup2_f_sec_off by (first [assumption | reflexivity]).
  rewrite setup2_f_sec_len by (first [assumption | reflexivity]).
  rewrite setup2_f_prev_session by (first [assumption | reflexivity]).
  unfold setup2_end. destruct (sq2_blob q) as [|b0 bl] eqn:Eb.
  - (* empty buffer: End is entered with the last byte of PreviousSessionId *)
    rewrite setup2_end_stuck by reflexivity. reflexivity.
  - (* the first |blob| bytes of pad ++ blob ++ tail *)
    set (data := sq2_pad q ++ (b0 :: bl) ++ tail).
    assert (Hlen : (length (b0 :: bl) <= length data)%nat).
    { subst data. rewrite !app_length. lia. }
    rewrite <- (firstn_skipn (length (b0 :: bl)) data).
    rewrite setup2_blob.
    + rewrite setup2_end_stuck by reflexivity. reflexivity.
    + reflexivity.
    + transitivity (lenN (b0 :: bl)); [reflexivity|].
      unfold lenN. rewrite firstn_length_le by exact Hlen. reflexivity.
    + unfold lenN. rewrite firstn_length_le by exact Hlen. cbn [length]. lia.
Qed.

Lemma ser_setup2_req_cons q tail : exists x body, ser_setup2_req q ++ tail = x :: body.
Proof. unfold ser_setup2_req, le16. cbn [app]. eauto. Qed.

Theorem smb2_setup_parse h q tail t f a b :
  smb2_hdr_wf h = true -> setup2_req_wf q = true ->
  smb2_is_request h = true -> sh2_command h = SMB2_SESSION_SETUP ->
  exists l,
    fold_res (nbt_byte hdr2 hdr2_new hdr2_byte)
      ([t; f; a; b] ++ ser_smb2_hdr h ++ ser_setup2_req q ++ tail) (nbt_new hdr2)
    = Ok {| nb_d := {| d_i := 0; d_st := NB_END |}; nb_type := t; nb_len := l;
            nb_pay := Some (hdr2_with h (P2Setup (setup2_end q))) |}.
Proof.
  intros Hwf Hq Hreq Hcmd.
  destruct (nbt_fold_payload' hdr2 hdr2_new hdr2_byte t f a b (ser_smb2_hdr h ++ ser_setup2_req q ++ tail)
              (ser_smb2_hdr_nonempty h _)) as [l Hl].
  exists l. rewrite Hl. rewrite hdr2_parse by exact Hwf.
  destruct (ser_setup2_req_cons q tail) as (x & body & Hxb).
  pose proof (setup2_parse q tail Hq) as Hp. rewrite Hxb in *.
  rewrite (hdr2_fold_first h (P2Setup setup2_new)).
  - rewrite pay2_fold_setup, Hp. reflexivity.
  - rewrite hdr2_end_step_none by reflexivity. cbn [hdr2_end h2_flags h2_command].
    rewrite (smb2_request_flag h Hreq), Hcmd. reflexivity.
Qed.

Definition exp_setup2_resp (chal : bytes) : setup2_resp :=
  {| sr2_session_flags := 0; sr2_buffer_offset := 72; sr2_buffer_length := lenN chal; sr2_tail := chal |}.

Lemma rd_setup2_resp_model chal : lenN chal < 65536 ->
  rd_setup2_resp (le16 9 ++ le16 0 ++ le16 72 ++ le16 (wrap16 (lenN chal)) ++ chal) = Some (exp_setup2_resp chal).
Proof.
  intros Hl. unfold rd_setup2_resp. rewrite rd_le16_le16 by lia. change (9 =? 9) with true. cbn [negb].
  rewrite !rd_le16_le16 by lia. unfold wrap16. rewrite N.mod_small by lia. rewrite rd_le16_le16 by lia.
  reflexivity.
Qed.

Lemma setup2_resp_consistent_model chal :
  sr2_blob (exp_setup2_resp chal) = chal /\ setup2_resp_consistent (exp_setup2_resp chal) = true.
Proof.
  unfold setup2_resp_consistent, sr2_blob, exp_setup2_resp.
  cbn [sr2_buffer_offset sr2_buffer_length sr2_tail].
  change (72 - 72) with 0. change (N.to_nat 0) with 0%nat. cbn [skipn].
  rewrite firstn_lenN_all. split; [reflexivity|].
  change (72 <=? 72) with true. change (0 + lenN chal) with (lenN chal). rewrite !N.eqb_refl. reflexivity.
Qed.

Theorem smb2_setup_reply neg chal ft h q tail t f a b :
  blob_ok neg chal = true -> smb2_hdr_wf h = true -> setup2_req_wf q = true ->
  smb2_is_request h = true -> sh2_command h = SMB2_SESSION_SETUP ->
  exists r body rsp,
    smb2_repl neg chal ft ([t; f; a; b] ++ ser_smb2_hdr h ++ ser_setup2_req q ++ tail) = Ok (Some r) /\
    dec_nbt_exact r = Some (ser_smb2_hdr (reply_hdr2 h) ++ body) /\
    dec_smb2_reply r = Some (reply_hdr2 h, body) /\
    rd_setup2_resp body = Some rsp /\
    setup2_resp_consistent rsp = true /\
    sr2_buffer_offset rsp = 72 /\ sr2_buffer_length rsp = lenN chal /\ sr2_blob rsp = chal /\
    setup2_reply_ok h r = true.
Proof.
  intros Hblob Hwf Hq Hreq Hcmd. blob_facts Hblob.
  destruct (ser_setup2_req_cons q tail) as (x & body0 & Hxb).
  pose proof (setup2_parse q tail Hq) as Hp. rewrite Hxb in *.
  rewrite smb2_run_setup by assumption. rewrite Hp. cbn [bind].
  set (body := le16 9 ++ le16 0 ++ le16 72 ++ le16 (wrap16 (lenN chal)) ++ chal).
  assert (Hbody : pay2_repl neg chal ft (P2Setup (setup2_end q)) = Some body) by reflexivity.
  assert (Hbl : lenN body < 131000).
  { subst body. unfold lenN. len_simpl. unfold lenN in *. lia. }
  destruct (smb2_out_some neg chal ft h _ body Hwf Hbody Hbl) as (r & Hr & Hd1 & Hd2).
  pose proof (rd_setup2_resp_model chal ltac:(lia)) as Hrd. fold body in Hrd.
  destruct (setup2_resp_consistent_model chal) as [Hb Hcons].
  eexists r, body, _. split; [exact Hr|]. split; [exact Hd1|]. split; [exact Hd2|].
  split; [exact Hrd|]. split; [exact Hcons|].
  split; [reflexivity|]. split; [reflexivity|]. split; [exact Hb|].
  unfold setup2_reply_ok. rewrite Hd2, Hrd, reply_hdr2_ok, Hcons. reflexivity.
Qed.


(* ---------- SMB1 negotiate offering no dialect ---------- *)
Lemma neg1_empty_stuck data s :
  d_st (n1_d s) = 2 -> n1_bc s = 0 -> (d_i (n1_d s) = 0 -> n1_tmp s = None) ->
  exists s', fold_res neg1_byte data s = Ok s' /\ d_st (n1_d s') = 2.
Proof.
  revert s. induction data as [|b data IH]; intros s Hst Hbc Htmp; [exists s; split; [reflexivity | exact Hst]|].
  rewrite fold_res_cons.
  assert (Hs : exists s1, neg1_byte s b = Ok s1 /\ d_st (n1_d s1) = 2 /\ n1_bc s1 = 0 /\ d_i (n1_d s1) <> 0).
  { destruct s as [[i st] tmp wc bc ds]. cbn [n1_d n1_bc n1_tmp d_i d_st] in *. subst st bc.
    unfold neg1_byte. cbn [n1_d d_st n1_tmp n1_bc n1_dialects].
    change (2 =? N1_WORDCOUNT) with false. change (2 =? N1_BYTECOUNT) with false.
    change (2 =? N1_DIALECTS) with true. cbv iota.
    destruct tmp as [str|].
    - destruct (b =? 0).
      + eexists. split; [reflexivity|]. unfold d_when, d_inc. cbn [set_n1_d set_n1_tmp set_n1_dialects n1_d n1_bc d_i d_st].
        replace (i + 1 =? 0) with false by (symmetry; apply N.eqb_neq; lia). cbn [d_i d_st]. repeat split; lia.
      + eexists. split; [reflexivity|]. unfold d_inc. cbn [set_n1_d set_n1_tmp n1_d n1_bc d_i d_st]. repeat split; lia.
    - eexists. split; [reflexivity|]. unfold d_inc. cbn [set_n1_d set_n1_tmp n1_d n1_bc d_i d_st]. repeat split; lia. }
  destruct Hs as (s1 & -> & H1 & H2 & H3). cbn [bind]. apply IH; [exact H1 | exact H2 | intros; congruence].
Qed.

Theorem smb1_negotiate_no_dialect_silent neg chal ft h tail t f a b :
  smb1_hdr_wf h = true -> smb1_is_request h = true -> sh1_command h = SMB_COM_NEGOTIATE ->
  smb1_repl neg chal ft ([t; f; a; b] ++ ser_smb1_hdr h ++ ser_neg1_req [] ++ tail) = Ok None.
Proof.
  intros Hwf Hreq Hcmd.
  assert (Hne : exists x body, ser_neg1_req [] ++ tail = x :: body).
  { unfold ser_neg1_req. cbn [app]. eauto. }
  destruct Hne as (x & body0 & Hxb).
  assert (Hp : exists s', fold_res neg1_byte (ser_neg1_req [] ++ tail) neg1_new = Ok s' /\ d_st (n1_d s') = 2).
  { unfold ser_neg1_req. rewrite <- !app_assoc. cbn [app ser_dialects map concat].
    rewrite neg1_b_wc by reflexivity.
    change (lenN []) with 0.
    rewrite neg1_f_bc by (first [lia | reflexivity]).
    apply neg1_empty_stuck; reflexivity. }
  destruct Hp as (s' & Hp & Hst). rewrite Hxb in *.
  rewrite smb1_run_negotiate by assumption. rewrite Hp. cbn [bind].
  unfold smb1_out. rewrite hdr1_repl_with_none; [reflexivity|].
  cbn [pay1_repl]. unfold neg1_repl. rewrite Hst. reflexivity.
Qed.
