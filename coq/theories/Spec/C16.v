(* Spec/C16.v -- ONC-RPC / portmapper: replies correlated, framed, advertise the
   contacted endpoint. Written from the property text, RFC 5531 (call / reply,
   record marking) and RFC 1833 (portmapper v2, rpcbind v3/v4 results, universal
   addresses); the only thing shared with the responder model is Text.v
   ([render_ip], [dec_digits]: the textual form of addresses and numbers).
   Definitions only. *)
From MS Require Export Bytes Types Text Spec.RefXdr Spec.AppView.

(* ---- universal addresses (RFC 1833 / RFC 5665): host text "." port-high "." port-low ---- *)
Definition uaddr_text (ip : ipaddr) (port : N) : bytes :=
  render_ip ip ++ [46] ++ dec_digits (port / 256) ++ [46] ++ dec_digits (port mod 256).

Definition netid_of (ip : ipaddr) : bytes :=
  if ip_is_v4 ip then [116; 99; 112] (* "tcp" *) else [116; 99; 112; 54] (* "tcp6" *).

Definition OWNER : bytes := [115; 117; 112; 101; 114; 117; 115; 101; 114].  (* "superuser" *)
Definition IPPROTO_TCP : N := 6.

(* an independent reader for the IPv4 form of a universal address: six decimal
   numbers (no sign, no leading zero, at most three digits, below 256) separated
   by dots. Used to validate [uaddr_text] (round trip, Proofs/C16Text.v). *)
Fixpoint split_on (sep : N) (l cur : bytes) : list bytes :=
  match l with
  | [] => [rev cur]
  | x :: t => if x =? sep then rev cur :: split_on sep t [] else split_on sep t (x :: cur)
  end.

Definition dec_value (l : bytes) : option N :=
  match l with
  | [a] => if is_digit a then Some (a - 48) else None
  | [a; b] => if is_digit a && is_digit b && negb (a =? 48) then Some ((a - 48) * 10 + (b - 48)) else None
  | [a; b; c] =>
    if is_digit a && is_digit b && is_digit c && negb (a =? 48)
    then Some ((a - 48) * 100 + (b - 48) * 10 + (c - 48)) else None
  | _ => None
  end.

Definition parse_uaddr4 (s : bytes) : option (bytes * N) :=
  match map dec_value (split_on 46 s []) with
  | [Some a; Some b; Some c; Some d; Some h; Some l] =>
    if (a <? 256) && (b <? 256) && (c <? 256) && (d <? 256) && (h <? 256) && (l <? 256)
    then Some ([a; b; c; d], h * 256 + l) else None
  | _ => None
  end.

(* ---- the expected reply, in the property's order of precedence ---- *)
Definition dump2 (port : N) : list mapping :=
  [(PMAP_PROG, 2, IPPROTO_TCP, port); (PMAP_PROG, 3, IPPROTO_TCP, port); (PMAP_PROG, 4, IPPROTO_TCP, port)].
Definition dump3 (ip : ipaddr) (port : N) : list rpcb :=
  [(PMAP_PROG, 2, netid_of ip, uaddr_text ip port, OWNER);
   (PMAP_PROG, 3, netid_of ip, uaddr_text ip port, OWNER);
   (PMAP_PROG, 4, netid_of ip, uaddr_text ip port, OWNER)].

Definition expected_body (ip : ipaddr) (port : N) (c : rpc_call) : accept_body :=
  if (rc_vers c <? 2) || (4 <? rc_vers c) then AccProgMismatch 2 4
  else if rc_proc c =? 0 then AccSuccess ResVoid
  else if rc_prog c =? PMAP_PROG then
    if rc_proc c =? 3 then
      AccSuccess (if rc_vers c =? 2 then ResPort port else ResUaddr (uaddr_text ip port))
    else if rc_proc c =? 4 then
      AccSuccess (if rc_vers c =? 2 then ResDump2 (dump2 port) else ResDump3 (dump3 ip port))
    else AccProcUnavail
  else AccProgUnavail.

(* same XID, AUTH_NONE verifier with an empty body *)
Definition expected_reply_at (ip : ipaddr) (port : N) (c : rpc_call) : rpc_reply :=
  {| rp_xid := rc_xid c; rp_verf_flavor := 0; rp_verf := []; rp_body := expected_body ip port c |}.

Definition expected_reply (ctx : app_ctx) (c : rpc_call) : rpc_reply :=
  expected_reply_at (ctx_dst_ip ctx) (a_dport ctx) c.

(* ---- which payloads the property speaks about ---- *)
(* the calls the published signatures identify: message type CALL (checked by
   [dec_call]), RPC version below 256, program in the portmapper range
   0x000186** = 99840..100095, procedure below 256 *)
Definition call_in_scope (c : rpc_call) : bool :=
  (rc_rpcvers c <? 256) && (99840 <=? rc_prog c) && (rc_prog c <=? 100095) && (rc_proc c <? 256).

(* UDP: a call at the head of the datagram (trailing bytes allowed);
   TCP: exactly one record, in one last fragment whose length is the call's *)
Definition scope_call (tcp : bool) (p : bytes) : option rpc_call :=
  if tcp then
    match strip_mark p with
    | Some body =>
      match dec_call body with
      | Some (c, []) => if call_in_scope c then Some c else None
      | _ => None
      end
    | None => None
    end
  else
    match dec_call p with
    | Some (c, _) => if call_in_scope c then Some c else None
    | None => None
    end.

(* KNOWN CLASS (C10 finding "wildcard shadowing", listed under C16 as well): the
   compiled matcher does not identify calls whose first byte is the first byte of
   another signature (HTTP verbs, "SSH-", "Gh0st": G P H D C O T S; STUN / SMB /
   NBT literals: 0x00), nor calls over TCP whose XID starts with 0x00 (offset 4 is
   a wildcard of the TCP signature and a literal of the UDP one). *)
Definition shadow_first (b : N) : bool :=
  existsb (N.eqb b) [71; 80; 72; 68; 67; 79; 84; 83; 0].
Definition rpc_shadowed (tcp : bool) (p : bytes) : bool :=
  shadow_first (nth 0 p 1) || (tcp && (nth 4 p 1 =? 0)).

(* ---- payload-level monitors ---- *)
(* [strict = true]: the property as worded (no exclusion of the known class) *)
Definition app_ok_C16_gen (strict : bool) (ctx : app_ctx) (p : bytes) (o : option bytes) : bool :=
  match scope_call (a_tcp ctx) p with
  | None => true
  | Some c =>
    if negb strict && rpc_shadowed (a_tcp ctx) p then true
    else
      match o with
      | None => false
      | Some r =>
        match (if a_tcp ctx then strip_mark r else Some r) with
        | None => false
        | Some body =>
          match dec_reply (result_kind c) body with
          | Some rep => reply_eqb rep (expected_reply ctx c)
          | None => false
          end
        end
      end
  end.

Definition app_ok_C16 : app_ctx -> bytes -> option bytes -> bool := app_ok_C16_gen false.
Definition app_ok_C16_strict : app_ctx -> bytes -> option bytes -> bool := app_ok_C16_gen true.

(* ---- frame-level monitors ---- *)
Definition ok_C16_udp (cfg : config) (f : bytes) (r : option bytes) : bool :=
  ok_app_udp app_ok_C16 cfg f r.
Definition ok_C16_tcp (cfg : config) (st : ref_state) (f : bytes) (r : option bytes) : bool :=
  ok_app_tcp_first app_ok_C16 cfg st f r.
Definition ok_C16_udp_strict (cfg : config) (f : bytes) (r : option bytes) : bool :=
  ok_app_udp app_ok_C16_strict cfg f r.
Definition ok_C16_tcp_strict (cfg : config) (st : ref_state) (f : bytes) (r : option bytes) : bool :=
  ok_app_tcp_first app_ok_C16_strict cfg st f r.

(* class predicate on frames, used by the check to attribute a failure of the
   strict monitors to the known class *)
Definition c16_class_frame (cfg : config) (f : bytes) : bool :=
  match udp_req cfg f with
  | Some (ctx, p) =>
    match scope_call false p with Some _ => rpc_shadowed false p | None => false end
  | None =>
    match tcp_req cfg f with
    | Some (ctx, p) =>
      match scope_call true p with Some _ => rpc_shadowed true p | None => false end
    | None => false
    end
  end.
