(* Properties/C03.v -- replies go back to the asker, from the identity that was
   asked. This file only pins the statement; the proof is in Proofs/C03.v. *)
From MS Require Import Proto L2 Spec.View Spec.RefDec Spec.C03 Spec.EnvOk Proofs.C03 Proofs.C03Cor.

(* For every configuration, table and frame: what is emitted satisfies the C03
   monitor. A reply frame goes from the configured MAC to the MAC the request came
   from, with the EtherType of the request; an IP reply has the version and
   protocol of the request, is addressed to the request's source and comes from
   the request's destination (a neighbour advertisement: from the solicited
   target); a UDP reply has the request's ports exchanged, except that the
   STUN success response to a binding request carrying CHANGE-REQUEST with the
   change-port bit leaves from the next port (mod 2^16); a TCP reply goes to the
   request's source port and leaves from the port that was contacted, or, when it
   carries a STUN success response, possibly from the next port (the handler of a
   TCP flow is given the answered segment joined to the bytes the flow has pending,
   so the request cannot be read off the answered frame alone: see C03_mirror_strict).
   [env_ok E] (decided by computation on the generated data, Properties/Env.v)
   is used for one fact: the constant replies (HTTP, SSH, Gh0st) do not begin
   with the bytes 01 01 of a STUN success response. *)
Theorem C03_mirror :
  forall E cfg clk tb f tb' r evs,
    cfg_ok cfg = true -> env_ok E = true -> bytes_ok f = true ->
    reply E cfg clk tb f = Ok (tb', r, evs) ->
    ok_C03 cfg f r = true.
Proof. exact mirror. Qed.

(* When no flow of the connection table has bytes pending (all flows identified, or
   still without data), the TCP ports are determined by the answered segment exactly
   as for UDP. *)
Theorem C03_mirror_strict :
  forall E cfg clk tb f tb' r evs,
    cfg_ok cfg = true -> env_ok E = true -> bytes_ok f = true ->
    (forall k tc, tbl_find k tb = Some tc -> t_pending tc = []) ->
    reply E cfg clk tb f = Ok (tb', r, evs) ->
    ok_C03_strict cfg f r = true.
Proof. exact mirror_strict. Qed.

Print Assumptions C03_mirror.
Print Assumptions C03_mirror_strict.

(* The addressing clauses as plain statements about the decoded reply (no
   monitor in the statement). *)

(* Every emitted frame leaves from the configured MAC, goes to the MAC the
   request came from and carries the EtherType of the request. *)
Theorem C03_reply_ethernet :
  forall E cfg clk tb tb' f rf evs,
    cfg_ok cfg = true -> env_ok E = true -> bytes_ok f = true ->
    reply E cfg clk tb f = Ok (tb', Some rf, evs) ->
    exists e, dec_eth rf = Some e /\ de_src e = c_mac cfg /\
              de_dst e = firstn 6 (skipn 6 f) /\ de_type e = u16_at 12 f.
Proof. exact reply_ethernet. Qed.
Print Assumptions C03_reply_ethernet.

(* Every emitted IP packet has the version and protocol of the request and is
   addressed to the request's source address. *)
Theorem C03_reply_ip :
  forall E cfg clk tb tb' f rf evs,
    cfg_ok cfg = true -> env_ok E = true -> bytes_ok f = true ->
    reply E cfg clk tb f = Ok (tb', Some rf, evs) ->
    forall e, dec_eth rf = Some e -> de_type e <> 2054 ->
    exists i v, dec_ip e = Some i /\ view cfg f = Some v /\
                di_v4 i = v_v4 v /\ di_proto i = v_proto v /\ di_dst i = v_src v.
Proof. exact reply_ip. Qed.
Print Assumptions C03_reply_ip.
