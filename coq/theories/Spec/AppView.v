(* AppView.v -- the application-level view of a frame exchange: which application
   request a received frame carries (UDP datagram in scope / first data segment
   of a TCP flow), which application payload the emitted frame carries, and
   wrappers that turn a payload-level specification
       P : app_ctx -> request payload -> option reply payload -> bool
   into a frame-level monitor. Used by the application-layer properties
   (C10-C19). Definitions only. *)
From MS Require Export Bytes Types Proto L4 Spec.RefDec Spec.View Spec.TcpRef.

Record app_ctx := {
  a_v4 : bool;       (* carried over IPv4 (else IPv6) *)
  a_tcp : bool;      (* carried over TCP (else UDP) *)
  a_src : bytes;     (* client address *)
  a_dst : bytes;     (* address the client contacted *)
  a_sport : N;       (* client port *)
  a_dport : N        (* port the client contacted *)
}.

Definition ctx_of (tcp : bool) (v : l4view) : app_ctx :=
  {| a_v4 := v_v4 v; a_tcp := tcp; a_src := v_src v; a_dst := v_dst v;
     a_sport := u16_at 0 (v_l4 v); a_dport := u16_at 2 (v_l4 v) |}.

Definition ctx_src_ip (c : app_ctx) : ipaddr := if a_v4 c then V4 (a_src c) else V6 (a_src c).
Definition ctx_dst_ip (c : app_ctx) : ipaddr := if a_v4 c then V4 (a_dst c) else V6 (a_dst c).

(* ---- requests ---- *)
Definition udp_req (cfg : config) (f : bytes) : option (app_ctx * bytes) :=
  match view_udp cfg f with
  | Some v => Some (ctx_of false v, skipn 8 (v_l4 v))
  | None => None
  end.

(* a TCP data segment (PSH and ACK set) in scope *)
Definition tcp_req (cfg : config) (f : bytes) : option (app_ctx * bytes) :=
  match view_tcp cfg f with
  | Some v => if is_data (tcp_flags (v_l4 v)) then Some (ctx_of true v, tcp_payload (v_l4 v)) else None
  | None => None
  end.

(* ... that is the first accepted data segment of its flow: the flow is not yet
   validated in the reference connection state and the segment presents the cookie *)
Definition tcp_first_req (cfg : config) (st : ref_state) (f : bytes) : option (app_ctx * bytes) :=
  match view_tcp cfg f with
  | Some v =>
    if is_data (tcp_flags (v_l4 v)) && negb (ref_mem (flow_of v) st) && presents_cookie cfg v
    then Some (ctx_of true v, tcp_payload (v_l4 v)) else None
  | None => None
  end.

(* ---- replies: the application payload of an emitted frame; [Some []] is a
   frame without application data (e.g. a bare ACK) ---- *)
Definition udp_resp (r : option bytes) : option (option bytes) :=
  match r with
  | None => Some None
  | Some rf =>
    match dec_frame_udp rf with
    | Some (_, _, u) => Some (Some (du_payload u))
    | None => None          (* a reply that is not a UDP datagram *)
    end
  end.

Definition tcp_resp (r : option bytes) : option (option bytes) :=
  match r with
  | None => Some None
  | Some rf =>
    match dec_frame_tcp rf with
    | Some (_, _, t) => Some (if (length (dt_payload t) =? 0)%nat then None else Some (dt_payload t))
    | None => None
    end
  end.

(* ---- frame-level monitors from a payload-level specification ---- *)
Definition ok_app_udp (P : app_ctx -> bytes -> option bytes -> bool)
           (cfg : config) (f : bytes) (r : option bytes) : bool :=
  match udp_req cfg f with
  | None => true
  | Some (ctx, p) => match udp_resp r with Some o => P ctx p o | None => false end
  end.

Definition ok_app_tcp_first (P : app_ctx -> bytes -> option bytes -> bool)
           (cfg : config) (st : ref_state) (f : bytes) (r : option bytes) : bool :=
  match tcp_first_req cfg st f with
  | None => true
  | Some (ctx, p) => match tcp_resp r with Some o => P ctx p o | None => false end
  end.

(* ---- identification, as proto::repl performs it (the compiled matcher is data) ---- *)
Definition udp_id (E : env) (p : bytes) : option N :=
  let '(id, st, _) := search_next (e_proto_tbl E) BASE_STATE p in
  match id with Some i => Some i | None => fst (search_next_end (e_proto_tbl E) st) end.

Definition tcp_first_id (E : env) (p : bytes) : option N :=
  let '(id, _, _) := search_next (e_proto_tbl E) BASE_STATE p in id.

(* the client information the transport layer hands to the application layer *)
Definition ctx_ci (cfg : config) (mac_src mac_dst : bytes) (c : app_ctx) : cinfo :=
  {| ci_mac_src := Some mac_src; ci_mac_dst := Some mac_dst;
     ci_ip_src := Some (ctx_src_ip c); ci_ip_dst := Some (ctx_dst_ip c);
     ci_transport := Some (if a_tcp c then 6 else 17);
     ci_port_src := Some (a_sport c); ci_port_dst := Some (a_dport c);
     ci_cookie := if a_tcp c
                  then Some (cookie (c_key0 cfg) (c_key1 cfg) (a_src c) (a_dst c) (a_sport c) (a_dport c))
                  else None |}.
