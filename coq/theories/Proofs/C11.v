(* Proofs/C11.v -- segmentation independence at the level of the TCP application layer. *)
From MS Require Import Proofs.Tactics Proto Spec.AppView Spec.C11.

(* ---------- ONC-RPC over TCP ---------- *)
Lemma rpc_parse_app s a b : rpc_parse (rpc_parse s a) b = rpc_parse s (a ++ b).
Proof. unfold rpc_parse. rewrite fold_left_app. reflexivity. Qed.

(* a flow identified as RPC is the fold of rpc_repl_tcp over its segments *)
Fixpoint rpc_outs (ip : ipaddr) (port : N) (r : rpc_st) (segs : list bytes) : list (option bytes) :=
  match segs with
  | [] => []
  | s :: rest => let '(r', o) := rpc_repl_tcp r ip port s in o :: rpc_outs ip port r' rest
  end.

Lemma rpc_flow E clk ci ip port :
  ci_ip_dst ci = Some ip -> ci_port_dst ci = Some port ->
  forall segs st r,
    tcp_stream E clk ci {| t_smack := st; t_proto := PROTO_RPC_TCP; t_pstate := Some (PRpc r) |} segs
    = Ok (rpc_outs ip port r segs).
Proof.
  intros Hip Hport. induction segs as [|s rest IH]; intros st r; [reflexivity|].
  cbn [tcp_stream rpc_outs].
  unfold proto_repl_tcp at 1. cbn [t_proto].
  change (PROTO_RPC_TCP =? PROTO_NONE) with false. cbv iota.
  unfold dispatch. cbn [t_proto].
  change (PROTO_RPC_TCP =? PROTO_HTTP) with false. change (PROTO_RPC_TCP =? PROTO_STUN) with false.
  change (PROTO_RPC_TCP =? PROTO_SSH) with false. change (PROTO_RPC_TCP =? PROTO_GHOST) with false.
  change (PROTO_RPC_TCP =? PROTO_RPC_TCP) with true. cbv iota.
  rewrite Hip, Hport. cbn [t_pstate t_smack].
  destruct (rpc_repl_tcp r ip port s) as [r' o]. cbn [bind].
  rewrite IH. cbn [bind]. reflexivity.
Qed.

Theorem rpc_stream E clk ci ip port s rest :
  ci_ip_dst ci = Some ip -> ci_port_dst ci = Some port ->
  tcp_first_id E s = Some PROTO_RPC_TCP ->
  tcp_stream E clk ci tcb_new (s :: rest) = Ok (rpc_outs ip port (rpc_new R_FRAG) (s :: rest)).
Proof.
  intros Hip Hport Hid. cbn [tcp_stream rpc_outs].
  unfold proto_repl_tcp at 1. change (t_proto tcb_new =? PROTO_NONE) with true. cbv iota.
  unfold tcp_first_id in Hid. change (t_smack tcb_new) with BASE_STATE.
  destruct (search_next (e_proto_tbl E) BASE_STATE s) as [[id st] n]. subst id. cbn [id_of t_proto t_pstate].
  unfold dispatch.
  change (PROTO_RPC_TCP =? PROTO_HTTP) with false. change (PROTO_RPC_TCP =? PROTO_STUN) with false.
  change (PROTO_RPC_TCP =? PROTO_SSH) with false. change (PROTO_RPC_TCP =? PROTO_GHOST) with false.
  change (PROTO_RPC_TCP =? PROTO_RPC_TCP) with true. cbv iota.
  rewrite Hip, Hport. unfold tcb_new. cbn [t_pstate t_smack t_proto].
  destruct (rpc_repl_tcp (rpc_new R_FRAG) ip port s) as [r' out]. cbn [bind].
  rewrite (rpc_flow E clk ci ip port Hip Hport). cbn [bind]. reflexivity.
Qed.

(* the reference: what each segment gets is a function of the stream prefix ending with it,
   up to and including the segment that completes the first message; after that the flow
   starts afresh *)
Fixpoint rpc_stream_ref (ip : ipaddr) (port : N) (acc : bytes) (segs : list bytes) : list (option bytes) :=
  match segs with
  | [] => []
  | s :: rest =>
    rpc_expected ip port (acc ++ s) ::
    (if r_state (rpc_parse (rpc_new R_FRAG) (acc ++ s)) =? R_END
     then rpc_outs ip port (rpc_new R_FRAG) rest
     else rpc_stream_ref ip port (acc ++ s) rest)
  end.

Theorem rpc_outs_stream ip port : forall segs acc,
  rpc_outs ip port (rpc_parse (rpc_new R_FRAG) acc) segs = rpc_stream_ref ip port acc segs.
Proof.
  induction segs as [|s rest IH]; intros acc; [reflexivity|].
  cbn [rpc_outs rpc_stream_ref]. unfold rpc_expected, rpc_repl_tcp. rewrite rpc_parse_app.
  destruct (r_state (rpc_parse (rpc_new R_FRAG) (acc ++ s)) =? R_END).
  - destruct (r_mtype _ =? 0); reflexivity.
  - cbn [snd]. rewrite IH. reflexivity.
Qed.

Corollary rpc_stream_segmentation E clk ci ip port s rest :
  ci_ip_dst ci = Some ip -> ci_port_dst ci = Some port ->
  tcp_first_id E s = Some PROTO_RPC_TCP ->
  tcp_stream E clk ci tcb_new (s :: rest) = Ok (rpc_stream_ref ip port [] (s :: rest)).
Proof.
  intros Hip Hport Hid. rewrite (rpc_stream E clk ci ip port s rest Hip Hport Hid).
  f_equal. apply (rpc_outs_stream ip port (s :: rest) []).
Qed.

(* ---------- HTTP over TCP ---------- *)
From MS Require Import Spec.EnvOk Spec.C11http Proofs.HttpFold Proofs.HttpParse.

(* a flow identified as HTTP is the fold of http_repl over its segments *)
Fixpoint http_outs (E : env) (clk : clock) (h : http_st) (segs : list bytes) : res (list (option bytes)) :=
  match segs with
  | [] => Ok []
  | d :: rest =>
    do x <- http_repl (e_http_tbl E) (e_http_pre E) (e_http_post E) (clk_date clk) h d;
    do l <- http_outs E clk (fst x) rest;
    Ok (snd x :: l)
  end.

Lemma http_flow E clk ci : forall segs st h,
  tcp_stream E clk ci {| t_smack := st; t_proto := PROTO_HTTP; t_pstate := Some (PHttp h) |} segs
  = http_outs E clk h segs.
Proof.
  induction segs as [|d rest IH]; intros st h; [reflexivity|].
  cbn [tcp_stream http_outs].
  unfold proto_repl_tcp at 1. cbn [t_proto].
  change (PROTO_HTTP =? PROTO_NONE) with false. cbv iota.
  unfold dispatch. cbn [t_proto]. change (PROTO_HTTP =? PROTO_HTTP) with true. cbv iota.
  cbn [t_pstate t_smack].
  destruct (http_repl _ _ _ _ h d) as [[h' o]|s]; cbn [bind fst snd]; [|reflexivity].
  rewrite IH. destruct (http_outs E clk h' rest); reflexivity.
Qed.

Theorem http_stream E clk ci d rest :
  tcp_first_id E d = Some PROTO_HTTP ->
  tcp_stream E clk ci tcb_new (d :: rest) = http_outs E clk http_new (d :: rest).
Proof.
  intros Hid. cbn [tcp_stream http_outs].
  unfold proto_repl_tcp at 1. change (t_proto tcb_new =? PROTO_NONE) with true. cbv iota.
  unfold tcp_first_id in Hid. change (t_smack tcb_new) with BASE_STATE.
  destruct (search_next (e_proto_tbl E) BASE_STATE d) as [[id st] n]. subst id. cbn [id_of t_proto t_pstate].
  unfold dispatch. change (PROTO_HTTP =? PROTO_HTTP) with true. cbv iota.
  unfold tcb_new. cbn [t_pstate t_smack t_proto].
  destruct (http_repl _ _ _ _ http_new d) as [[h' o]|s]; cbn [bind fst snd]; [|reflexivity].
  rewrite (http_flow E clk ci). destruct (http_outs E clk h' rest); reflexivity.
Qed.

Definition http_resp_of (E : env) (clk : clock) : bytes :=
  http_response (e_http_pre E) (e_http_post E) (clk_date clk).

Section HttpStream.
  Variable E : env.
  Variable clk : clock.
  Hypothesis Hok : smack_ok (e_http_tbl E) = true.
  Hypothesis Htbl : http_tbl_ok (e_http_tbl E) = true.
  Let tbl := e_http_tbl E.

  Lemma bytes_ok_concat_cons (d : bytes) (rest : list bytes) :
    bytes_ok (concat (d :: rest)) = true -> bytes_ok d = true /\ bytes_ok (concat rest) = true.
  Proof. cbn [concat]. rewrite bytes_ok_app. intros H. apply andb_true_iff in H. exact H. Qed.

  (* the responder never gets stuck on a flow (no panic), whatever the segments *)
  Lemma http_outs_total : forall segs h,
    http_st_ok tbl h -> bytes_ok (concat segs) = true ->
    exists outs, http_outs E clk h segs = Ok outs /\ length outs = length segs.
  Proof.
    induction segs as [|d rest IH]; intros h Hst Hb; [exists []; split; reflexivity|].
    destruct (bytes_ok_concat_cons _ _ Hb) as [Hd Hr].
    destruct (parse_sim_fold tbl Hok Htbl d h Hst Hd) as (s1 & s2 & P & _ & _ & Hs1 & _).
    cbn [http_outs]. unfold http_repl. fold tbl. rewrite P. cbn [bind].
    destruct (h_state s1 =? HTTP_CONTENT); cbn [bind fst snd].
    - destruct (IH http_new (new_st_ok tbl Htbl) Hr) as (outs & -> & Hl). cbn [bind].
      eexists. split; [reflexivity|]. cbn [length]. rewrite Hl. reflexivity.
    - destruct (IH s1 Hs1 Hr) as (outs & -> & Hl). cbn [bind].
      eexists. split; [reflexivity|]. cbn [length]. rewrite Hl. reflexivity.
  Qed.

  Lemma feed_answers_length : forall segs s l, http_feed_answers tbl s segs = Ok l -> length l = length segs.
  Proof.
    induction segs as [|x r IHr]; intros s l F; cbn [http_feed_answers] in F.
    - inversion F. reflexivity.
    - destruct (http_parse tbl s x) as [s'|e]; cbn [bind] in F; [|discriminate].
      destruct (http_feed_answers tbl s' r) as [l'|e] eqn:G; cbn [bind] in F; [|discriminate].
      inversion F. cbn [length]. rewrite (IHr _ _ G). reflexivity.
  Qed.

  (* up to and including the first answered segment, the flow follows the parser alone *)
  Lemma http_outs_feed : forall segs h l,
    http_st_ok tbl h -> bytes_ok (concat segs) = true ->
    http_feed_answers tbl h segs = Ok l ->
    exists outs, http_outs E clk h segs = Ok outs /\ length outs = length l /\
      forall j, (forall i, (i < j)%nat -> nth i l false = false) ->
                nth j outs None = (if nth j l false then Some (http_resp_of E clk) else None).
  Proof.
    induction segs as [|d rest IH]; intros h l Hst Hb Hf.
    - cbn in Hf. inversion Hf; subst. exists []. repeat split; try reflexivity.
      intros j _. destruct j; reflexivity.
    - destruct (bytes_ok_concat_cons _ _ Hb) as [Hd Hr].
      cbn [http_feed_answers] in Hf.
      destruct (http_parse tbl h d) as [s1|e] eqn:P; cbn [bind] in Hf; [|discriminate].
      destruct (http_feed_answers tbl s1 rest) as [l'|e] eqn:F; cbn [bind] in Hf; [|discriminate].
      inversion Hf; subst l. clear Hf.
      destruct (parse_sim_fold tbl Hok Htbl d h Hst Hd) as (s1' & s2 & P' & _ & _ & Hs1 & _).
      rewrite P in P'. inversion P'; subst s1'. clear P'.
      cbn [http_outs]. unfold http_repl. fold tbl. rewrite P. cbn [bind]. unfold http_answers.
      destruct (h_state s1 =? HTTP_CONTENT) eqn:A; cbn [bind fst snd].
      + destruct (http_outs_total rest http_new (new_st_ok tbl Htbl) Hr) as (outs & -> & Hl). cbn [bind].
        eexists. split; [reflexivity|]. split.
        { cbn [length]. rewrite Hl, (feed_answers_length _ _ _ F). reflexivity. }
        intros j Hj. destruct j as [|j]; [reflexivity|].
        exfalso. specialize (Hj 0%nat ltac:(lia)). cbn in Hj. discriminate.
      + destruct (IH s1 l' Hs1 Hr F) as (outs & -> & Hl & Hn). cbn [bind].
        eexists. split; [reflexivity|]. split; [cbn [length]; rewrite Hl; reflexivity|].
        intros j Hj. destruct j as [|j]; [reflexivity|]. cbn [nth].
        apply Hn. intros i Hi. apply (Hj (S i)). lia.
  Qed.

  (* the stream-level statement: which segment carries the (first) reply, and that everything
     before it gets a bare ACK, is a function of the stream prefixes at the segment boundaries *)
  Theorem http_stream_segmentation segs :
    bytes_ok (concat segs) = true ->
    exists l outs,
      Forall2 (fun upto a => http_answers_at tbl http_new upto = Ok a) (prefixes_at [] segs) l /\
      http_outs E clk http_new segs = Ok outs /\ length outs = length l /\
      forall j, (forall i, (i < j)%nat -> nth i l false = false) ->
                nth j outs None = (if nth j l false then Some (http_resp_of E clk) else None).
  Proof.
    intros Hb.
    destruct (feed_answers tbl Hok Htbl segs http_new (new_st_ok tbl Htbl) Hb) as (l & Hf & Hall).
    destruct (http_outs_feed segs http_new l (new_st_ok tbl Htbl) Hb Hf) as (outs & Ho & Hl & Hn).
    exists l, outs. repeat split; assumption.
  Qed.
End HttpStream.
