(* C04Closed.v -- C04 without hypotheses on the emitted frame: the results of
   Proofs/ReplyBytes.v (stated under a section hypothesis "SMB replies are octet
   strings") instantiated with Proofs/SmbBytes.v. If the SMB facts come from
   another file, only the two names below change. *)
From MS Require Import L2 Spec.Pending Spec.View Spec.RefDec Spec.C04 Spec.EnvOk
     Proofs.SmbBytes Proofs.ReplyBytes.

Theorem emitted_bytes_ok E cfg clk tb f tb' r evs :
  cfg_ok cfg = true -> env_ok E = true -> env_blobs_ok E = true ->
  bytes_ok f = true -> bytes_ok (clk_date clk) = true -> table_pending_ok tb ->
  reply E cfg clk tb f = Ok (tb', Some r, evs) ->
  bytes_ok r = true.
Proof. exact (reply_bytes_ok smb1_reply_bytes smb2_reply_bytes E cfg clk tb f tb' r evs). Qed.

Theorem emitted_short E cfg clk tb f tb' r evs :
  cfg_ok cfg = true -> env_small E = true -> bytes_ok f = true ->
  (length f <= 4096)%nat -> (length (clk_date clk) <= 64)%nat -> table_pending_ok tb ->
  reply E cfg clk tb f = Ok (tb', Some r, evs) ->
  (length r < 65536)%nat.
Proof. exact (reply_length E cfg clk tb f tb' r evs). Qed.

Theorem wellformed_unconditional E cfg clk tb f tb' r evs :
  cfg_ok cfg = true -> env_ok E = true -> env_blobs_ok E = true -> env_small E = true ->
  bytes_ok f = true -> (length f <= 4096)%nat ->
  bytes_ok (clk_date clk) = true -> (length (clk_date clk) <= 64)%nat -> table_pending_ok tb ->
  reply E cfg clk tb f = Ok (tb', Some r, evs) ->
  wf_frame r = true.
Proof. exact (wellformed_closed smb1_reply_bytes smb2_reply_bytes E cfg clk tb f tb' r evs). Qed.
