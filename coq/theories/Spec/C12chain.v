(* Spec/C12chain.v -- C12, last clause: "... bouncing each resulting reply back to the
   responder dies out after at most two replies in total".

   Payload level: the reflection chain of a datagram payload [p] is reply(p), reply(reply(p)),
   ... (Proofs/C12Chain.v: [app_chain], fixed client context).  Frame level, stated without
   building frames: three datagrams in scope, the second carrying the payload emitted in
   answer to the first, the third the payload emitted in answer to the second -- from
   whatever addresses and ports, at whatever time; if the first payload is reply-typed
   (DNS QR = 1, STUN non-request below 0x40, ONC-RPC REPLY) the third gets no application
   payload.  The monitor below is executable on observed (received frame, emitted frame)
   pairs: a harness that bounces what the implementation emits feeds it three consecutive
   exchanges.  Definitions only. *)
From MS Require Export Bytes Types Proto Spec.View Spec.AppView Spec.C12.

(* reply-typed datagram payloads the property lists *)
Definition chain_start (p : bytes) : bool :=
  dns_response_typed p || (stun_nonrequest_typed p && (u8_at 0 p <? 64)) || rpc_reply_typed_udp p.

Definition resp_is (r : option bytes) (expected : option bytes) : bool :=
  match udp_resp r, expected with
  | Some (Some d), Some e => bytes_eqb d e
  | Some None, None => true
  | _, _ => false
  end.

(* [f0 -> r0], [f1 -> r1], [f2 -> r2]: three exchanges; when they form a reflection chain from a
   reply-typed start, the third datagram is not answered by the application layer *)
Definition ok_C12chain_udp (cfg : config) (f0 : bytes) (r0 : option bytes) (f1 : bytes) (r1 : option bytes)
           (f2 : bytes) (r2 : option bytes) : bool :=
  match udp_req cfg f0, udp_req cfg f1, udp_req cfg f2 with
  | Some (_, p0), Some (_, p1), Some (_, p2) =>
    if chain_start p0 && resp_is r0 (Some p1) && resp_is r1 (Some p2) then resp_is r2 None else true
  | _, _, _ => true
  end.

(* the same on a whole observed chain of payloads: [outs] = what came back at each bounce *)
Fixpoint replies_before_silence (outs : list (option bytes)) : nat :=
  match outs with
  | Some _ :: r => S (replies_before_silence r)
  | _ => O
  end.
Definition ok_C12chain_payloads (p0 : bytes) (outs : list (option bytes)) : bool :=
  if chain_start p0 then (replies_before_silence outs <=? 2)%nat else true.
