(* Properties/C01.v -- no frame, history or configuration can crash the responder.
   Pins statements only; proofs in Proofs/C01.v. reply() is a total Gallina function, so
   termination with "one reply frame or silence" is its type; the content of C01 is that no
   Panic branch of the model (each standing for an unwrap/expect/panic!/index/overflow site of
   the Rust code, see harness/panic_inventory.json) is reachable. *)
From MS Require Import L2 Spec.View Spec.History Spec.EnvOk Spec.C01 Proofs.C01.

(* One frame, in any reachable state: no configuration hypothesis at all (any MAC, any
   self-IP / deny lists, any key, any log level), any table satisfying the invariant. *)
Theorem C01_no_panic :
  forall E cfg clk tb f,
    env_ok E = true -> udp_replies_short E clk -> table_ok E tb -> frame_ok f ->
    exists tb' r evs, reply E cfg clk tb f = Ok (tb', r, evs) /\ table_ok E tb'.
Proof. exact reply_ok. Qed.

(* Every history of admissible frames, from the empty table: processing runs to completion,
   so the frame after any history is handled without panic as well. *)
Theorem C01_histories :
  forall E cfg, env_ok E = true ->
  forall h tb, table_ok E tb ->
    Forall (fun cf => frame_ok (snd cf) /\ udp_replies_short E (fst cf)) h ->
    exists tb', run E cfg tb h = Ok tb' /\ table_ok E tb'.
Proof. exact run_ok. Qed.

Theorem C01_table_invariant_initially : forall E, table_ok E [].
Proof. exact table_ok_nil. Qed.

(* The invariant contains the invariant of the per-flow prefix buffers (octets, at most
   PENDING_MAX of them) under which the well-formedness results of C04 are stated. *)
Theorem C01_table_invariant_pending : forall E tb, table_ok E tb -> table_pending_ok tb.
Proof. exact table_ok_pending. Qed.

(* The closed forms: the length hypothesis is discharged by the amplification bound
   (every application reply is at most 7 * |request| + 4500 bytes when the dumped constants are
   shorter than 2048 bytes -- env_small, re-decided per run -- and the date string has at most 64 bytes). *)
From MS Require Import Proofs.ReplyBytes.
Theorem C01_no_panic_closed :
  forall E cfg clk tb f,
    env_ok E = true -> env_small E = true -> (length (clk_date clk) <= 64)%nat ->
    table_ok E tb -> frame_ok f ->
    exists tb' r evs, reply E cfg clk tb f = Ok (tb', r, evs) /\ table_ok E tb'.
Proof. exact reply_ok_closed. Qed.

Theorem C01_histories_closed :
  forall E cfg, env_ok E = true -> env_small E = true ->
  forall h, Forall (fun cf => frame_ok (snd cf) /\ (length (clk_date (fst cf)) <= 64)%nat) h ->
    exists tb', run E cfg [] h = Ok tb' /\ table_ok E tb'.
Proof. exact run_ok_closed. Qed.

(* the per-run obligation on the current data *)
From MS Require Import Instance.
Theorem C01_current_env_small : env_small the_env = true.
Proof. vm_compute. reflexivity. Qed.

Print Assumptions C01_no_panic_closed.
Print Assumptions C01_histories_closed.
Print Assumptions C01_current_env_small.
Print Assumptions C01_no_panic.
Print Assumptions C01_histories.
Print Assumptions C01_table_invariant_initially.
Print Assumptions C01_table_invariant_pending.
