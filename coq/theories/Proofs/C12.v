(* Proofs/C12.v -- only requests are answered. *)
From MS Require Import Proofs.Tactics Proofs.Pipeline Proofs.ViewLemmas Proofs.Factor Proofs.C06 Proofs.TcpState
     L2 Spec.View Spec.RefDec Spec.AppView Spec.C02 Spec.C06 Spec.C12 Spec.C19.

(* ---------- layers 2-4: reply-typed frames get nothing at all ---------- *)
Definition rst_row_ok (fl : N) : bool :=
  if (fl =? 18) || (testbit fl 4 && negb (testbit fl 8 && testbit fl 16))
  then match tcp_class fl with TDropAck | TDropRst | TDropOther => true | _ => false end
  else true.
Lemma rst_table_computed : forallb rst_row_ok flag_words = true.
Proof. vm_compute. reflexivity. Qed.
Lemma rst_row fl : fl < 512 -> rst_row_ok fl = true.
Proof.
  intros H. pose proof rst_table_computed as T. rewrite forallb_forall in T. apply T.
  unfold flag_words. apply in_map_iff. exists (N.to_nat fl). split; [lia|]. apply in_seq. lia.
Qed.

Theorem l2l4_replies_unanswered E cfg clk tb f tb' r evs :
  bytes_ok f = true ->
  l2l4_reply_typed cfg f = true ->
  reply E cfg clk tb f = Ok (tb', r, evs) -> r = None /\ tb' = tb.
Proof.
  intros Hf Ht Hr. apply reply_factor_ok in Hr. unfold reply_spec in Hr. unfold l2l4_reply_typed in Ht.
  destruct (length f <? 14)%nat; [discriminate|].
  destruct (negb (auth_mac cfg (slice 0 6 f))); [apply ok_pair_inj in Hr; destruct Hr as [<- <-]; split; reflexivity|].
  destruct (u16_at 12 f =? 2054).
  { apply andb_true_iff in Ht. destruct Ht as [Hl Hop].
    assert ((length (skipn 14 f) <? 28)%nat = false) as X by lia. rewrite X in Hr.
    unfold arp_repl in Hr. apply negb_true_iff in Hop. rewrite Hop in Hr.
    apply ok_pair_inj in Hr. destruct Hr as [<- <-]. split; reflexivity. }
  destruct (view cfg f) as [v|] eqn:Hv; [|discriminate].
  unfold l3_reply in Hr.
  destruct (v_v4 v) eqn:V4; cbn [andb negb] in Ht.
  - destruct (v_proto v =? 1) eqn:P1.
    { apply andb_true_iff in Ht. destruct Ht as [Hl Hty].
      assert ((length (v_l4 v) <? 4)%nat = false) as X by lia. rewrite X in Hr.
      unfold icmpv4_repl in Hr. apply N.eqb_eq in Hty. rewrite Hty in Hr.
      change (0 =? 8) with false in Hr. cbn [andb] in Hr.
      apply ok_pair_inj in Hr. destruct Hr as [<- <-]. split; reflexivity. }
    destruct (v_proto v =? 6) eqn:P6; [|discriminate].
    apply andb_true_iff in Ht. destruct Ht as [Hl Hfl].
    assert ((length (v_l4 v) <? 20)%nat = false) as X by lia. rewrite X in Hr.
    pose proof (rst_row _ (tcp_flags_lt _ (view_l4_ok _ _ _ Hf Hv))) as R. unfold rst_row_ok in R. rewrite Hfl in R.
    unfold tcp_repl in Hr.
    destruct (tcp_class (tcp_flags (v_l4 v))); try discriminate; cbn in Hr;
      apply ok_pair_inj in Hr; destruct Hr as [<- <-]; split; reflexivity.
  - destruct (v_proto v =? 58) eqn:P58.
    { apply andb_true_iff in Ht. destruct Ht as [Hl Hty].
      assert ((length (v_l4 v) <? 4)%nat = false) as X by lia. rewrite X in Hr.
      unfold icmpv6_repl in Hr.
      destruct (negb (u8_at 1 (v_l4 v) =? 0)); [apply ok_pair_inj in Hr; destruct Hr as [<- <-]; split; reflexivity|].
      assert ((u8_at 0 (v_l4 v) =? 135) = false /\ (u8_at 0 (v_l4 v) =? 128) = false) as [A B].
      { apply orb_true_iff in Hty. destruct Hty as [Q|Q]; apply N.eqb_eq in Q; rewrite Q; split; reflexivity. }
      rewrite A, B in Hr. apply ok_pair_inj in Hr. destruct Hr as [<- <-]. split; reflexivity. }
    destruct (v_proto v =? 6) eqn:P6; [|discriminate].
    apply andb_true_iff in Ht. destruct Ht as [Hl Hfl].
    assert ((length (v_l4 v) <? 20)%nat = false) as X by lia. rewrite X in Hr.
    pose proof (rst_row _ (tcp_flags_lt _ (view_l4_ok _ _ _ Hf Hv))) as R. unfold rst_row_ok in R. rewrite Hfl in R.
    unfold tcp_repl in Hr.
    destruct (tcp_class (tcp_flags (v_l4 v))); try discriminate; cbn in Hr;
      apply ok_pair_inj in Hr; destruct Hr as [<- <-]; split; reflexivity.
Qed.

(* ---------- DNS: a message with QR = 1 is never answered by the DNS responder ---------- *)
Lemma dns_parse_flags p m : dns_parse p = Some m -> d_flags m = u16_at 2 p.
Proof.
  unfold dns_parse. destruct (length p <? 12)%nat; [discriminate|].
  destruct (take_questions _ _) as [[qs r]|]; [|discriminate].
  destruct (skip_rrs _ _); [|discriminate].
  destruct ((_ =? 0) && (_ =? 0)); [|discriminate].
  intros H. inversion H. reflexivity.
Qed.

Theorem dns_responses_unanswered p : dns_response_typed p = true -> dns_core p = CSilent.
Proof.
  unfold dns_response_typed, dns_core. intros H. apply andb_true_iff in H. destruct H as [_ Hqr].
  destruct (dns_parse p) as [m|] eqn:Hp; [|reflexivity].
  rewrite (dns_parse_flags _ _ Hp). unfold u16_at.
  assert ((32768 <=? u8_at 2 p * 256 + u8_at 3 p) = true) as -> by lia. reflexivity.
Qed.

(* whatever answers a DNS response, it is not the DNS responder *)
Definition not_dns (c : core) : Prop := match c with CDns _ => False | _ => True end.
Lemma of_opt_not_dns o : not_dns (of_opt o).
Proof. destruct o; exact I. Qed.
Lemma stun_core_not_dns p : not_dns (stun_core p).
Proof.
  unfold stun_core.
  repeat match goal with
         | |- not_dns (if ?b then _ else _) => destruct b
         | |- not_dns (match ?x with _ => _ end) => destruct x
         end; exact I.
Qed.

Lemma dispatch_core_not_dns E clk id ps p c ps' :
  dispatch_core E clk id ps p = Ok (c, ps') -> not_dns c.
Proof.
  unfold dispatch_core.
  destruct (id =? PROTO_HTTP).
  { destruct ps as [[h|r]|]; try discriminate.
    - destruct (http_repl _ _ _ _ h p) as [[h' o]|s]; cbn [bind]; [|discriminate].
      intros H. inversion H. apply of_opt_not_dns.
    - destruct (http_repl _ _ _ _ http_new p) as [[h' o]|s]; cbn [bind]; [|discriminate].
      intros H. inversion H. apply of_opt_not_dns. }
  destruct (id =? PROTO_STUN); [intros H; inversion H; apply stun_core_not_dns|].
  destruct (id =? PROTO_SSH); [intros H; inversion H; apply of_opt_not_dns|].
  destruct (id =? PROTO_GHOST); [intros H; inversion H; exact I|].
  destruct (id =? PROTO_RPC_TCP).
  { destruct ps as [[h|r]|]; try discriminate;
      (destruct (_ =? R_END); [destruct (r_mtype _ =? 0)|]); intros H; inversion H; exact I. }
  destruct (id =? PROTO_RPC_UDP); [intros H; inversion H; destruct (_ && _); exact I|].
  destruct (id =? PROTO_SMB1).
  { destruct (smb1_repl _ _ _ p) as [o|s]; cbn [bind]; [|discriminate]. intros H; inversion H. apply of_opt_not_dns. }
  destruct (id =? PROTO_SMB2).
  { destruct (smb2_repl _ _ _ p) as [o|s]; cbn [bind]; [|discriminate]. intros H; inversion H. apply of_opt_not_dns. }
  intros H; inversion H. exact I.
Qed.

Theorem dns_response_not_dns E clk p c :
  dns_response_typed p = true -> udp_core E clk p = Ok c -> not_dns c.
Proof.
  intros Ht. unfold udp_core. destruct (udp_id E p) as [i|].
  - destruct (dispatch_core E clk i None p) as [[c' ps']|s] eqn:Hd; cbn [bind fst]; [|discriminate].
    intros H. inversion H; subst. eapply dispatch_core_not_dns; eassumption.
  - intros H. inversion H. rewrite (dns_responses_unanswered _ Ht). exact I.
Qed.

(* ---------- STUN: indications, responses and other methods get no STUN response ---------- *)
Theorem stun_nonrequests_unanswered p : stun_nonrequest_typed p = true -> stun_core p = CSilent.
Proof.
  unfold stun_nonrequest_typed, stun_core. intros H. apply andb_true_iff in H. destruct H as [Hl H].
  assert ((length p <? 20)%nat = false) as -> by lia.
  destruct (64 <=? u8_at 0 p); [reflexivity|].
  destruct (lenN p <? 20 + u16_at 2 p); [reflexivity|].
  destruct (stun_attrs _ _ false); [|reflexivity].
  apply orb_true_iff in H. destruct H as [H|H].
  - rewrite H. reflexivity.
  - destruct (negb (_ * 2 + _ =? 0)); [reflexivity|]. rewrite H. reflexivity.
Qed.

(* ---------- the responder's own replies are reply-typed for their protocol ---------- *)
Lemma own_dns_reply_typed m ip : dns_response_typed (render_dns m ip) = true.
Proof.
  unfold dns_response_typed, render_dns, dns_header_reply, be16, u8_at. cbn [app length nth Nat.leb andb].
  apply N.leb_le. lia.
Qed.

Lemma own_stun_reply_typed tid src sport :
  length tid = 16%nat -> stun_nonrequest_typed (stun_response tid src sport) = true.
Proof.
  intros H. explode_lists. unfold stun_nonrequest_typed, stun_response, be16, u8_at.
  cbn [app length nth]. destruct (ip_is_v4 src); reflexivity.
Qed.

Lemma own_rpc_reply_typed s ip port : rpc_reply_typed_udp (rpc_build s ip port) = true.
Proof.
  unfold rpc_reply_typed_udp, rpc_build, be32, u32_at, u16_at, u8_at. cbn [app length nth Nat.leb andb].
  reflexivity.
Qed.
