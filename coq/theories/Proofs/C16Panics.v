(* C16Panics.v -- the panic sites of src/proto/rpc.rs (property C01) seen from the model:
   (1) `_ => panic!("Wrong RPC version")` in build_repl_portmap: a variant of the reply
       builder that carries this branch explicitly never takes it, because build_repl
       calls it only for versions 2..4;
   (2) the bare `panic!()` of repl_tcp / http::repl (control block holding the other
       protocol's parser state): unreachable from a fresh control block, by an invariant
       of proto::repl over TCP;
   (3) `value * 256 + byte` overflow and `data_len -= 1` underflow: Proofs/C16Parse.v,
       [rpc_steps_safe].
   The u8 / u32 `try_into().unwrap()` conversions are not represented in the model:
   get_nth_byte masks to 8 bits before converting, and the converted lengths are lengths of
   in-memory buffers (a frame, a reply below 4000 bytes: [rpc_build_len]). *)
From MS Require Import Proofs.Tactics Rpc Proto.

(* ---- (1) ---- *)
Definition PANIC_RPC_VERSION : N := 9001.

Definition rpc_portmap_res (s : rpc_st) (ip : ipaddr) (port : N) : res bytes :=
  if (r_proc s =? 3) || (r_proc s =? 4) then
    if (r_progvers s =? 2) || (r_progvers s =? 3) || (r_progvers s =? 4)
    then Ok (rpc_portmap s ip port) else Panic PANIC_RPC_VERSION
  else Ok (rpc_portmap s ip port).

Definition rpc_build_res (s : rpc_st) (ip : ipaddr) (port : N) : res bytes :=
  if (r_progvers s <? 2) || (4 <? r_progvers s) then Ok (rpc_build s ip port)
  else if r_proc s =? 0 then Ok (rpc_build s ip port)
  else if r_prog s =? 100000 then
    match rpc_portmap_res s ip port with Ok _ => Ok (rpc_build s ip port) | Panic p => Panic p end
  else Ok (rpc_build s ip port).

Theorem rpc_build_never_panics (s : rpc_st) (ip : ipaddr) (port : N) :
  rpc_build_res s ip port = Ok (rpc_build s ip port).
Proof.
  unfold rpc_build_res, rpc_portmap_res.
  destruct ((r_progvers s <? 2) || (4 <? r_progvers s)) eqn:Hv; [reflexivity|].
  destruct (r_proc s =? 0); [reflexivity|].
  destruct (r_prog s =? 100000); [|reflexivity].
  destruct ((r_proc s =? 3) || (r_proc s =? 4)); [|reflexivity].
  replace ((r_progvers s =? 2) || (r_progvers s =? 3) || (r_progvers s =? 4)) with true by lia.
  reflexivity.
Qed.

(* ---- (2) ---- *)
Definition tcb_inv (tc : tcb) : Prop :=
  match t_pstate tc with
  | None => True
  | Some (PHttp _) => t_proto tc = PROTO_HTTP
  | Some (PRpc _) => t_proto tc = PROTO_RPC_TCP
  end.

Lemma tcb_inv_new : tcb_inv tcb_new.
Proof. exact I. Qed.

(* the two bare panic!() fire exactly when the selection of the parser state fails *)
Definition rpc_pstate_sel (tc : tcb) : res rpc_st :=
  match t_pstate tc with
  | None => Ok (rpc_new R_FRAG)
  | Some (PRpc r) => Ok r
  | Some (PHttp _) => Panic PANIC_RPC_PSTATE
  end.
Definition http_pstate_sel (tc : tcb) : res http_st :=
  match t_pstate tc with
  | None => Ok http_new
  | Some (PHttp h) => Ok h
  | Some (PRpc _) => Panic PANIC_HTTP_PSTATE
  end.

Lemma rpc_pstate_sel_ok (tc : tcb) :
  tcb_inv tc -> t_proto tc = PROTO_RPC_TCP -> exists r, rpc_pstate_sel tc = Ok r.
Proof.
  unfold tcb_inv, rpc_pstate_sel. intros Hinv Hp. destruct (t_pstate tc) as [[h|r]|]; eauto.
  rewrite Hp in Hinv. discriminate.
Qed.
Lemma http_pstate_sel_ok (tc : tcb) :
  tcb_inv tc -> t_proto tc = PROTO_HTTP -> exists h, http_pstate_sel tc = Ok h.
Proof.
  unfold tcb_inv, http_pstate_sel. intros Hinv Hp. destruct (t_pstate tc) as [[h|r]|]; eauto.
  rewrite Hp in Hinv. discriminate.
Qed.

Lemma dispatch_tcb_inv (E : env) (clk : clock) (ci : cinfo) (tc : tcb) (data : bytes) :
  tcb_inv tc ->
  forall ci' t' out, dispatch E clk ci (t_proto tc) (Some tc) data = Ok (ci', Some t', out) -> tcb_inv t'.
Proof.
  intros Hinv. unfold dispatch.
  destruct (t_proto tc =? PROTO_HTTP) eqn:E1.
  { apply N.eqb_eq in E1. unfold tcb_inv in Hinv.
    destruct (t_pstate tc) as [[h|r]|] eqn:Hps.
    - destruct (http_repl _ _ _ _ h data) as [[h' r]|site] eqn:Hr; cbn [bind]; [|discriminate].
      intros ci' t' out H. injection H as <- <- <-. unfold tcb_inv. cbn [t_pstate t_proto]. exact E1.
    - rewrite E1 in Hinv. discriminate.
    - destruct (http_repl _ _ _ _ http_new data) as [[h' r]|site] eqn:Hr; cbn [bind]; [|discriminate].
      intros ci' t' out H. injection H as <- <- <-. unfold tcb_inv. cbn [t_pstate t_proto]. exact E1. }
  destruct (t_proto tc =? PROTO_STUN) eqn:E2.
  { destruct (stun_repl ci data) as [ci1 r]. intros ci' t' out H. injection H as <- <- <-. exact Hinv. }
  destruct (t_proto tc =? PROTO_SSH) eqn:E3.
  { intros ci' t' out H. injection H as <- <- <-. exact Hinv. }
  destruct (t_proto tc =? PROTO_GHOST) eqn:E4.
  { intros ci' t' out H. injection H as <- <- <-. exact Hinv. }
  destruct (t_proto tc =? PROTO_RPC_TCP) eqn:E5.
  { apply N.eqb_eq in E5. destruct (ci_ip_dst ci) as [ip|]; [destruct (ci_port_dst ci) as [port|]|].
    - unfold tcb_inv in Hinv. destruct (t_pstate tc) as [[h|r]|] eqn:Hps.
      + rewrite E5 in Hinv. discriminate.
      + destruct (rpc_repl_tcp r ip port data) as [r' out0].
        intros ci' t' out H. injection H as <- <- <-. unfold tcb_inv. cbn [t_pstate t_proto]. exact E5.
      + destruct (rpc_repl_tcp (rpc_new R_FRAG) ip port data) as [r' out0].
        intros ci' t' out H. injection H as <- <- <-. unfold tcb_inv. cbn [t_pstate t_proto]. exact E5.
    - intros ci' t' out H. injection H as <- <- <-. exact Hinv.
    - intros ci' t' out H. injection H as <- <- <-. exact Hinv. }
  destruct (t_proto tc =? PROTO_RPC_UDP) eqn:E6.
  { destruct (ci_ip_dst ci) as [ip|]; [destruct (ci_port_dst ci) as [port|]|];
      (intros ci' t' out H; injection H as <- <- <-; exact Hinv). }
  destruct (t_proto tc =? PROTO_SMB1) eqn:E7.
  { destruct (smb1_repl _ _ _ data) as [r|site]; cbn [bind]; [|discriminate].
    intros ci' t' out H. injection H as <- <- <-. exact Hinv. }
  destruct (t_proto tc =? PROTO_SMB2) eqn:E8.
  { destruct (smb2_repl _ _ _ data) as [r|site]; cbn [bind]; [|discriminate].
    intros ci' t' out H. injection H as <- <- <-. exact Hinv. }
  intros ci' t' out H. injection H as <- <- <-.
  unfold tcb_inv in *. cbn [t_pstate t_proto].
  destruct (t_pstate tc) as [[h|r]|]; [| |exact I].
  - rewrite Hinv in E1. discriminate.
  - rewrite Hinv in E5. discriminate.
Qed.

(* identification keeps the invariant: it only runs while no protocol is set, and then
   no parser state exists yet *)
Lemma tcb_inv_identify (E : env) (tc : tcb) (data : bytes) :
  tcb_inv tc -> tcb_inv (fst (tcp_identify E tc data)).
Proof.
  intros Hinv. unfold tcp_identify. destruct (t_proto tc =? PROTO_NONE) eqn:E0; [|exact Hinv].
  apply N.eqb_eq in E0. destruct (search_next _ _ data) as [[[i|] st] n];
  unfold tcb_inv in *; cbn [fst t_pstate t_proto];
  (destruct (t_pstate tc) as [[h|r]|]; [| |exact I]; rewrite E0 in Hinv; discriminate).
Qed.

Theorem proto_repl_tcp_inv (E : env) (clk : clock) (ci : cinfo) (tc : tcb) (data : bytes) :
  tcb_inv tc ->
  forall ci' tc' out, proto_repl_tcp E clk ci tc data = Ok (ci', tc', out) -> tcb_inv tc'.
Proof.
  intros Hinv ci' tc' out. unfold proto_repl_tcp.
  pose proof (tcb_inv_identify E tc data Hinv) as H1.
  destruct (tcp_identify E tc data) as [tc1 data1]. cbn [fst] in H1.
  destruct (dispatch E clk ci (t_proto tc1) (Some tc1) data1) as [[[ci1 t1] out1]|site] eqn:Hd; cbn [bind]; [|discriminate].
  intros H. injection H as <- <- <-.
  destruct t1 as [t1|]; [|exact H1].
  apply (dispatch_tcb_inv E clk ci tc1 data1 H1 _ _ _ Hd).
Qed.

(* every control block reachable on a flow satisfies the invariant, hence on every flow
   the parser-state selection of the RPC (and HTTP) handler succeeds: the bare panic!()
   of rpc::repl_tcp / http::repl are unreachable *)
Inductive tcb_reach (E : env) : tcb -> Prop :=
| reach_new : tcb_reach E tcb_new
| reach_step clk ci tc data ci' tc' out :
    tcb_reach E tc -> proto_repl_tcp E clk ci tc data = Ok (ci', tc', out) -> tcb_reach E tc'.

Theorem tcb_reach_inv (E : env) (tc : tcb) : tcb_reach E tc -> tcb_inv tc.
Proof.
  induction 1 as [|clk ci tc data ci' tc' out _ IH Hstep]; [exact tcb_inv_new|].
  exact (proto_repl_tcp_inv E clk ci tc data IH ci' tc' out Hstep).
Qed.

Theorem rpc_pstate_panic_unreachable (E : env) (tc : tcb) (data : bytes) :
  tcb_reach E tc ->
  let tc1 := fst (tcp_identify E tc data) in
  (t_proto tc1 = PROTO_RPC_TCP -> exists r, rpc_pstate_sel tc1 = Ok r) /\
  (t_proto tc1 = PROTO_HTTP -> exists h, http_pstate_sel tc1 = Ok h).
Proof.
  intros Hr tc1. pose proof (tcb_inv_identify E tc data (tcb_reach_inv E tc Hr)) as H1. fold tc1 in H1.
  split; [apply rpc_pstate_sel_ok | apply http_pstate_sel_ok]; exact H1.
Qed.
