(* C16Examples.v -- non-vacuity: concrete calls run through proto::repl on the
   tables of the current implementation ([the_env]); the hypotheses of the C16
   theorems hold for them, the replies are the expected ones, and the known
   shadowing class is inhabited. Closed computations (vm_compute). *)
From MS Require Import Rpc Proto Spec.RefXdr Spec.C16 Spec.AppView Instance.

Definition x_clk : clock := {| clk_date := []; clk_filetime := 0 |}.
Definition x_cfg : config :=
  {| c_mac := [192; 255; 238; 192; 255; 238]; c_self := None; c_deny := None; c_key0 := 0; c_key1 := 0;
     c_level := 5; c_ovf := true |}.
Definition x_ctx4 (tcp : bool) : app_ctx :=
  {| a_v4 := true; a_tcp := tcp; a_src := [10; 0; 0; 9]; a_dst := [10; 0; 0; 1]; a_sport := 40000; a_dport := 111 |}.
Definition x_ctx6 (tcp : bool) : app_ctx :=
  {| a_v4 := false; a_tcp := tcp; a_src := [32; 1; 13; 184; 0; 0; 0; 0; 0; 0; 0; 0; 0; 0; 0; 9];
     a_dst := [32; 1; 13; 184; 0; 0; 0; 0; 0; 0; 0; 0; 0; 0; 0; 1]; a_sport := 40000; a_dport := 65535 |}.
Definition x_ci (ctx : app_ctx) : cinfo := ctx_ci x_cfg [1; 2; 3; 4; 5; 6] (c_mac x_cfg) ctx.

Definition x_call (x pg vs pc : N) (cr vf : bytes) : rpc_call :=
  {| rc_xid := x; rc_rpcvers := 2; rc_prog := pg; rc_vers := vs; rc_proc := pc; rc_cred_flavor := 1;
     rc_cred := cr; rc_verf_flavor := 0; rc_verf := vf |}.

Definition udp_out (ctx : app_ctx) (p : bytes) : option bytes :=
  match proto_repl_udp the_env x_clk (x_ci ctx) p with Ok (_, o) => o | Panic _ => None end.
Definition tcp_out (ctx : app_ctx) (p : bytes) : option bytes :=
  match proto_repl_tcp the_env x_clk (x_ci ctx) tcb_new p with Ok (_, _, o) => o | Panic _ => None end.
Definition decoded (c : rpc_call) (o : option bytes) : option rpc_reply :=
  match o with Some r => dec_reply (result_kind c) r | None => None end.
Definition decoded_tcp (c : rpc_call) (o : option bytes) : option rpc_reply :=
  match o with
  | Some r => match strip_mark r with Some b => dec_reply (result_kind c) b | None => None end
  | None => None
  end.

(* GETPORT, portmapper v2, UDP / IPv4, credentials of 5 bytes (padded to 8), trailing bytes *)
Definition x_getport := x_call 2712847316 100000 2 3 [1; 2; 3; 4; 5] [].
Example ex_getport_v2 :
  udp_id the_env (ser_call x_getport ++ [9; 9]) = Some PROTO_RPC_UDP /\
  decoded x_getport (udp_out (x_ctx4 false) (ser_call x_getport ++ [9; 9])) =
    Some {| rp_xid := 2712847316; rp_verf_flavor := 0; rp_verf := []; rp_body := AccSuccess (ResPort 111) |} /\
  app_ok_C16_strict (x_ctx4 false) (ser_call x_getport ++ [9; 9]) (udp_out (x_ctx4 false) (ser_call x_getport ++ [9; 9])) = true.
Proof. vm_compute. repeat split; reflexivity. Qed.

(* GETADDR, rpcbind v4, TCP / IPv6, port 65535: "2001:db8::1.255.255", verifier of 8 bytes *)
Definition x_getaddr := x_call 2712847316 100000 4 3 [] [1; 2; 3; 4; 5; 6; 7; 8].
Example ex_getaddr_v4_ipv6 :
  tcp_first_id the_env (ser_call_tcp x_getaddr) = Some PROTO_RPC_TCP /\
  decoded_tcp x_getaddr (tcp_out (x_ctx6 true) (ser_call_tcp x_getaddr)) =
    Some {| rp_xid := 2712847316; rp_verf_flavor := 0; rp_verf := [];
            rp_body := AccSuccess (ResUaddr [50; 48; 48; 49; 58; 100; 98; 56; 58; 58; 49; 46; 50; 53; 53; 46; 50; 53; 53]) |} /\
  app_ok_C16_strict (x_ctx6 true) (ser_call_tcp x_getaddr) (tcp_out (x_ctx6 true) (ser_call_tcp x_getaddr)) = true.
Proof. vm_compute. repeat split; reflexivity. Qed.

(* DUMP, rpcbind v3, UDP / IPv4: three entries, netid "tcp", "10.0.0.1.0.111", "superuser" *)
Definition x_dump := x_call 2712847316 100000 3 4 [] [].
Example ex_dump_v3 :
  udp_id the_env (ser_call x_dump) = Some PROTO_RPC_UDP /\
  decoded x_dump (udp_out (x_ctx4 false) (ser_call x_dump)) = Some (expected_reply (x_ctx4 false) x_dump) /\
  rp_body (expected_reply (x_ctx4 false) x_dump) =
    AccSuccess (ResDump3
      [(100000, 2, [116; 99; 112], [49; 48; 46; 48; 46; 48; 46; 49; 46; 48; 46; 49; 49; 49], OWNER);
       (100000, 3, [116; 99; 112], [49; 48; 46; 48; 46; 48; 46; 49; 46; 48; 46; 49; 49; 49], OWNER);
       (100000, 4, [116; 99; 112], [49; 48; 46; 48; 46; 48; 46; 49; 46; 48; 46; 49; 49; 49], OWNER)]).
Proof. vm_compute. repeat split; reflexivity. Qed.

(* DUMP, portmapper v2, TCP / IPv6: three mappings, protocol 6, the contacted port *)
Definition x_dump2 := x_call 2712847316 100000 2 4 [] [].
Example ex_dump_v2 :
  decoded_tcp x_dump2 (tcp_out (x_ctx6 true) (ser_call_tcp x_dump2)) =
    Some {| rp_xid := 2712847316; rp_verf_flavor := 0; rp_verf := [];
            rp_body := AccSuccess (ResDump2 [(100000, 2, 6, 65535); (100000, 3, 6, 65535); (100000, 4, 6, 65535)]) |}.
Proof. vm_compute. reflexivity. Qed.

(* version 7 (and Nmap's 104316): PROG_MISMATCH(2,4), whatever the program and procedure *)
Definition x_vers7 := x_call 2712847316 100003 7 3 [] [].
Example ex_version_7 :
  udp_id the_env (ser_call x_vers7) = Some PROTO_RPC_UDP /\
  decoded x_vers7 (udp_out (x_ctx4 false) (ser_call x_vers7)) =
    Some {| rp_xid := 2712847316; rp_verf_flavor := 0; rp_verf := []; rp_body := AccProgMismatch 2 4 |}.
Proof. vm_compute. repeat split; reflexivity. Qed.

(* another program of the range, supported version, procedure 1: PROG_UNAVAIL; procedure 0: success *)
Definition x_other := x_call 2712847316 100005 3 1 [] [].
Definition x_other_null := x_call 2712847316 100005 3 0 [] [].
Example ex_other_program :
  decoded x_other (udp_out (x_ctx4 false) (ser_call x_other)) =
    Some {| rp_xid := 2712847316; rp_verf_flavor := 0; rp_verf := []; rp_body := AccProgUnavail |} /\
  decoded x_other_null (udp_out (x_ctx4 false) (ser_call x_other_null)) =
    Some {| rp_xid := 2712847316; rp_verf_flavor := 0; rp_verf := []; rp_body := AccSuccess ResVoid |}.
Proof. vm_compute. repeat split; reflexivity. Qed.

(* portmapper, procedure 7: PROC_UNAVAIL (3) -- was SYSTEM_ERR (5) before the fix 0bac594 *)
Definition x_proc7 := x_call 305419896 100000 2 7 [] [].
Example ex_proc_unavail :
  udp_out (x_ctx4 false) (ser_call x_proc7) =
    Some [18; 52; 86; 120; 0; 0; 0; 1; 0; 0; 0; 0; 0; 0; 0; 0; 0; 0; 0; 0; 0; 0; 0; 3] /\
  decoded x_proc7 (udp_out (x_ctx4 false) (ser_call x_proc7)) =
    Some {| rp_xid := 305419896; rp_verf_flavor := 0; rp_verf := []; rp_body := AccProcUnavail |}.
Proof. vm_compute. repeat split; reflexivity. Qed.

(* the known class is inhabited: an in-scope call whose XID starts with 'G' (UDP) or with
   0x00 (TCP) is not identified, gets no reply, and only the strict monitor objects *)
Definition x_shadow_udp := x_call 1191182337 100000 2 3 [] [].      (* xid 0x47000001 *)
Definition x_shadow_tcp := x_call 1122867 100000 2 3 [] [].         (* xid 0x00112233 *)
Example ex_shadowed :
  scope_call false (ser_call x_shadow_udp) = Some x_shadow_udp /\
  rpc_shadowed false (ser_call x_shadow_udp) = true /\
  udp_id the_env (ser_call x_shadow_udp) = None /\
  udp_out (x_ctx4 false) (ser_call x_shadow_udp) = None /\
  app_ok_C16_strict (x_ctx4 false) (ser_call x_shadow_udp) None = false /\
  app_ok_C16 (x_ctx4 false) (ser_call x_shadow_udp) None = true /\
  scope_call true (ser_call_tcp x_shadow_tcp) = Some x_shadow_tcp /\
  rpc_shadowed true (ser_call_tcp x_shadow_tcp) = true /\
  tcp_first_id the_env (ser_call_tcp x_shadow_tcp) = None /\
  tcp_out (x_ctx4 true) (ser_call_tcp x_shadow_tcp) = None /\
  app_ok_C16_strict (x_ctx4 true) (ser_call_tcp x_shadow_tcp) None = false.
Proof. vm_compute. repeat split; reflexivity. Qed.
