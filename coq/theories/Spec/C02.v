(* Spec/C02.v -- silence outside scope; replies only from configured identities. *)
From MS Require Export Bytes Types Spec.RefDec Spec.View.

(* the authorised destination MACs, written from the property text *)
Definition ref_mcast4 (o : bytes) : bytes := [1; 0; 94; u8_at 1 o mod 128; u8_at 2 o; u8_at 3 o].
Definition ref_mcast6 (o : bytes) : bytes := [51; 51; 255; u8_at 13 o; u8_at 14 o; u8_at 15 o].
Definition ref_auth (cfg : config) (m : bytes) : bool :=
  bytes_eqb m (c_mac cfg) ||
  bytes_eqb m [255; 255; 255; 255; 255; 255] ||
  bytes_eqb m [51; 51; 0; 0; 0; 1] ||
  match c_self cfg with
  | None => false
  | Some l => existsb (fun a => match a with
                                | V4 o => bytes_eqb m (ref_mcast4 o)
                                | V6 o => bytes_eqb m (ref_mcast6 o)
                                end) l
  end.

Definition silent (r : option bytes) : bool := match r with None => true | Some _ => false end.

(* the frame is an IP packet from a denied source *)
Definition denied_source (cfg : config) (f : bytes) : bool :=
  match c_deny cfg with
  | None => false
  | Some l =>
    let ety := u16_at 12 f in
    let p := skipn 14 f in
    ((ety =? 2048) && (20 <=? length p)%nat && ip_in (V4 (firstn 4 (skipn 12 p))) l) ||
    ((ety =? 34525) && (40 <=? length p)%nat && ip_in (V6 (firstn 16 (skipn 8 p))) l)
  end.

Definition unsupported (f : bytes) : bool :=
  let ety := u16_at 12 f in
  let p := skipn 14 f in
  if ety =? 2054 then false
  else if ety =? 2048 then
    (20 <=? length p)%nat && negb ((u8_at 9 p =? 1) || (u8_at 9 p =? 6) || (u8_at 9 p =? 17))
  else if ety =? 34525 then
    (40 <=? length p)%nat && negb ((u8_at 6 p =? 58) || (u8_at 6 p =? 6) || (u8_at 6 p =? 17))
  else true.

(* every address a reply speaks for belongs to the self-IP list *)
Definition identities_ok (cfg : config) (r : bytes) : bool :=
  match c_self cfg with
  | None => true
  | Some l =>
    match dec_eth r with
    | None => false
    | Some e =>
      if de_type e =? 2054 then
        match dec_arp (de_payload e) with
        | Some a => ip_in (V4 (da_spa a)) l
        | None => false
        end
      else
        match dec_ip e with
        | None => false
        | Some i =>
          ip_in (if di_v4 i then V4 (di_src i) else V6 (di_src i)) l &&
          (* a neighbour advertisement advertises its target *)
          (if negb (di_v4 i) && (di_proto i =? 58) && (u8_at 0 (di_payload i) =? 136)
           then ip_in (V6 (firstn 16 (skipn 8 (di_payload i)))) l else true)
        end
    end
  end.

Definition ok_C02 (cfg : config) (f : bytes) (r : option bytes) : bool :=
  (if (14 <=? length f)%nat then
     (if negb (ref_auth cfg (firstn 6 f)) then silent r else true) &&
     (if denied_source cfg f then silent r else true) &&
     (if unsupported f then silent r else true)
   else true) &&
  match r with Some rf => identities_ok cfg rf | None => true end.
