(* C11Examples.v -- non-vacuity of the any-segmentation statements on the current tables:
   a serialised portmapper call cut inside the RPC/TCP signature. *)
From MS Require Import Rpc Proto Spec.RefXdr Spec.C16 Spec.AppView Spec.C11 Instance
  Proofs.C11 Proofs.C11Witness Proofs.C11Rpc Proofs.C16Examples.

Definition x11_stream : bytes := ser_call_tcp x_getport.

Theorem rpc_cut_inside_signature :
  bytes_ok x11_stream = true /\ call_wf x_getport = true /\
  tcp_first_id the_env x11_stream = Some PROTO_RPC_TCP /\
  tcp_first_id the_env (firstn 6 x11_stream) = None /\
  concat [firstn 6 x11_stream; skipn 6 x11_stream] = x11_stream /\
  payloads (tcp_stream the_env w11_clk w11_ci tcb_new [firstn 6 x11_stream; skipn 6 x11_stream]) =
  payloads (tcp_stream the_env w11_clk w11_ci tcb_new [x11_stream]) /\
  payloads (tcp_stream the_env w11_clk w11_ci tcb_new (singletons x11_stream)) =
  [first_reply (V4 [10; 0; 0; 1]) 8080 x_getport].
Proof. vm_compute. repeat split; reflexivity. Qed.
