(* Properties/C15frame.v -- C15 (STUN) as a theorem about received and emitted Ethernet
   frames, complementing C15_frame_udp_monitor (Properties/C15.v, UDP, identification
   assumed per frame).  Here identification is not assumed per frame.  Explicit hypotheses:

   * [stun_ident_at E strict tcp p] / [stun_ident_ok E strict tcp] (for all payloads):
       a binding request covered by the published signatures (strict = false: and outside
       the known class stun_shadowed) is identified as STUN by the compiled matcher
     -- property C10 for the STUN signatures; to be discharged by C10's product check
     exactly as for C16 (Properties/C16frame.v: C16_ident_from_C10).
   * over UDP only, [dns_quiet_at ctx p]: the DNS fallback does not answer a STUN message
     with bytes that read as a STUN response to it.  It cannot be dropped:
     C15_udp_without_dns_refuted (a 16.9 kB datagram that is both a STUN Binding Success
     Response and a DNS query; a property of the specification, not a defect).
   That no OTHER responder (HTTP, SSH, Gh0st, ONC-RPC, SMB) emits a STUN response to a
   payload that reads as a STUN message is proved from [env_ok] (Proofs/C15Foreign.v).
   Proofs: Proofs/LiftTcp.v (generic lift), Proofs/C15Frame.v. *)
From MS Require Import Stun Dns Proto L2 Spec.View Spec.RefDec Spec.TcpRef Spec.RefStun Spec.AppView Spec.History
  Spec.EnvOk Spec.C15 Instance
  Proofs.TcpState Proofs.C07 Proofs.LiftTcp Proofs.C15Proto Proofs.C15Examples Proofs.FrameBuild
  Proofs.C15Foreign Proofs.C15Frame Proofs.C15FrameExamples Proofs.C15Polyglot.

(* no handler but the STUN one answers a STUN message with a STUN response to it *)
Theorem C15_other_handlers_no_stun_response :
  forall E clk ci id t p m ci' t' r,
    env_ok E = true -> bytes_ok p = true -> dec_stun_req p = Some m ->
    (id =? PROTO_STUN) = false ->
    dispatch E clk ci id t p = Ok (ci', t', Some r) ->
    is_stun_response_to (sm_tid m) r = false.
Proof. exact dispatch_not_stun_resp. Qed.

(* ---- TCP: the first accepted data segment of a flow; payload clause and ports clause.
   [ok_C15_tcp_gen false] = ok_C15_tcp, [ok_C15_tcp_gen true] = ok_C15_tcp_strict ---- *)
Theorem C15_frame_tcp_gen_is :
  ok_C15_tcp_gen false = ok_C15_tcp /\ ok_C15_tcp_gen true = ok_C15_tcp_strict.
Proof. exact (conj ok_C15_tcp_gen_false ok_C15_tcp_gen_true). Qed.

Theorem C15_frame_tcp_first_history_at :
  forall E cfg h clk tb f tb' r evs strict,
    cfg_ok cfg = true -> env_ok E = true ->
    Forall (fun x => bytes_ok x = true) (frames h) -> bytes_ok f = true ->
    run E cfg [] h = Ok tb ->
    (forall v, view_tcp cfg f = Some v -> no_collision cfg (flow_of v :: ref_run cfg (frames h))) ->
    (forall ctx p, tcp_first_req cfg (ref_run cfg (frames h)) f = Some (ctx, p) -> stun_ident_at E strict true p) ->
    reply E cfg clk tb f = Ok (tb', r, evs) ->
    ok_C15_tcp_gen strict cfg (ref_run cfg (frames h)) f r = true.
Proof. exact frame_tcp_C15_history. Qed.

Theorem C15_frame_tcp_first_state_at :
  forall E cfg clk tb f tb' r evs v strict,
    cfg_ok cfg = true -> env_ok E = true -> bytes_ok f = true ->
    view_tcp cfg f = Some v ->
    is_data (tcp_flags (v_l4 v)) = true ->
    tbl_mem (flow_cookie cfg (flow_of v)) tb = false ->
    presents_cookie cfg v = true ->
    stun_ident_at E strict true (tcp_payload (v_l4 v)) ->
    reply E cfg clk tb f = Ok (tb', r, evs) ->
    exists o, tcp_resp r = Some o /\ app_ok_C15_gen strict (ctx_of true v) (tcp_payload (v_l4 v)) o = true.
Proof. exact frame_tcp_C15_state. Qed.

Theorem C15_frame_tcp_first :
  forall E cfg h clk tb f tb' r evs,
    cfg_ok cfg = true -> env_ok E = true -> stun_ident_ok E false true ->
    Forall (fun x => bytes_ok x = true) (frames h) -> bytes_ok f = true ->
    run E cfg [] h = Ok tb ->
    (forall v, view_tcp cfg f = Some v -> no_collision cfg (flow_of v :: ref_run cfg (frames h))) ->
    reply E cfg clk tb f = Ok (tb', r, evs) ->
    ok_C15_tcp cfg (ref_run cfg (frames h)) f r = true.
Proof. exact frame_tcp_C15. Qed.

(* a first data segment identified as STUN: strict and non-strict monitors, nothing assumed
   of the matcher (the TCP analogue of C15_frame_udp_monitor) *)
Theorem C15_frame_tcp_identified :
  forall E cfg h clk tb f tb' r evs ctx p,
    cfg_ok cfg = true -> env_ok E = true ->
    Forall (fun x => bytes_ok x = true) (frames h) -> bytes_ok f = true ->
    run E cfg [] h = Ok tb ->
    (forall v, view_tcp cfg f = Some v -> no_collision cfg (flow_of v :: ref_run cfg (frames h))) ->
    tcp_first_req cfg (ref_run cfg (frames h)) f = Some (ctx, p) -> tcp_first_id E p = Some PROTO_STUN ->
    reply E cfg clk tb f = Ok (tb', r, evs) ->
    ok_C15_tcp_strict cfg (ref_run cfg (frames h)) f r = true /\
    ok_C15_tcp cfg (ref_run cfg (frames h)) f r = true.
Proof. exact frame_tcp_C15_identified. Qed.

(* ---- UDP, identification not assumed per frame ([ok_C15_udp_gen false] = ok_C15_udp,
   [ok_C15_udp_gen true] = ok_C15_udp_strict) ---- *)
Theorem C15_frame_udp_gen_is :
  ok_C15_udp_gen false = ok_C15_udp /\ ok_C15_udp_gen true = ok_C15_udp_strict.
Proof. exact (conj ok_C15_udp_gen_false ok_C15_udp_gen_true). Qed.

Theorem C15_frame_udp_at :
  forall E cfg clk tb f tb' r evs strict,
    cfg_ok cfg = true -> env_ok E = true -> bytes_ok f = true ->
    (forall ctx p, udp_req cfg f = Some (ctx, p) -> stun_ident_at E strict false p /\ dns_quiet_at ctx p) ->
    reply E cfg clk tb f = Ok (tb', r, evs) ->
    ok_C15_udp_gen strict cfg f r = true.
Proof. exact frame_udp_C15_any. Qed.

(* the DNS hypothesis cannot be dropped (payload level, current tables) *)
Theorem C15_udp_without_dns_hypothesis_refuted : ~ C15_udp_without_dns_stmt the_env.
Proof. exact C15_udp_without_dns_refuted. Qed.

(* ---- non-vacuity on the current data ---- *)
Theorem C15_frame_tcp_example :
  cfg_ok fx_cfg = true /\ bytes_ok c15_tcp_frame = true /\
  Forall (fun x => bytes_ok x = true) (frames c15_tcp_hist) /\
  run the_env fx_cfg [] c15_tcp_hist = Ok [] /\ ref_run fx_cfg (frames c15_tcp_hist) = [] /\
  tcp_first_req fx_cfg [] c15_tcp_frame = Some (fx_ctx false true 65535 3478, ser_stun x_big) /\
  dec_stun_req (ser_stun x_big) = Some x_big /\ is_binding_request x_big = true /\
  stun_published true (ser_stun x_big) = true /\ stun_shadowed true (ser_stun x_big) = false /\
  tcp_first_id the_env (ser_stun x_big) = Some PROTO_STUN /\
  (exists tb' evs, reply the_env fx_cfg fx_clk [] c15_tcp_frame = Ok (tb', c15_tcp_reply, evs)) /\
  (match c15_tcp_reply with
   | Some rf => match dec_frame_tcp rf with
                | Some (_, _, t) => Some (dt_sport t, dt_dport t, dt_payload t)
                | None => None
                end
   | None => None
   end) = Some (3479, 65535,
                [1; 1; 0; 24] ++ MAGIC_COOKIE ++ x_tid12 ++
                [0; 1; 0; 20; 0; 2; 255; 255; 32; 1; 13; 184; 0; 0; 0; 0; 0; 0; 0; 0; 0; 0; 0; 9]) /\
  ok_C15_tcp_strict fx_cfg [] c15_tcp_frame c15_tcp_reply = true /\
  ok_C15_tcp fx_cfg [] c15_tcp_frame c15_tcp_reply = true.
Proof. exact ex_C15_tcp_frame. Qed.

(* the known class seen at frame level *)
Theorem C15_frame_tcp_known_class_example :
  tcp_first_req fx_cfg [] c15_tcp_shadow_frame = Some (fx_ctx true true 40000 3478, ser_stun x_empty) /\
  stun_published true (ser_stun x_empty) = true /\ stun_shadowed true (ser_stun x_empty) = true /\
  tcp_first_id the_env (ser_stun x_empty) = None /\
  tcp_resp c15_tcp_shadow_reply = Some None /\
  ok_C15_tcp_strict fx_cfg [] c15_tcp_shadow_frame c15_tcp_shadow_reply = false /\
  ok_C15_tcp fx_cfg [] c15_tcp_shadow_frame c15_tcp_shadow_reply = true /\
  c15_class_frame fx_cfg c15_tcp_shadow_frame = true.
Proof. exact ex_C15_tcp_shadow_frame. Qed.

Theorem C15_frame_udp_example :
  (forall ctx p, udp_req fx_cfg c15_udp_frame = Some (ctx, p) ->
     stun_ident_at the_env true false p /\ dns_quiet_at ctx p) /\
  bytes_ok c15_udp_frame = true /\
  udp_req fx_cfg c15_udp_frame = Some (fx_ctx true false 40000 65535, ser_stun x_change) /\
  (exists tb' evs, reply the_env fx_cfg fx_clk [] c15_udp_frame = Ok (tb', c15_udp_reply, evs)) /\
  (match c15_udp_reply with
   | Some rf => match dec_frame_udp rf with
                | Some (_, _, u) => Some (du_sport u, du_dport u, du_payload u)
                | None => None
                end
   | None => None
   end) = Some (0, 40000, [1; 1; 0; 12] ++ x_tid16 ++ [0; 1; 0; 8; 0; 1; 156; 64; 10; 0; 0; 9]) /\
  ok_C15_udp_strict fx_cfg c15_udp_frame c15_udp_reply = true /\
  ok_C15_udp fx_cfg c15_udp_frame c15_udp_reply = true.
Proof. exact (conj ex_C15_udp_frame_hyps ex_C15_udp_frame). Qed.

Print Assumptions C15_other_handlers_no_stun_response.
Print Assumptions C15_frame_tcp_gen_is.
Print Assumptions C15_frame_tcp_first_history_at.
Print Assumptions C15_frame_tcp_first_state_at.
Print Assumptions C15_frame_tcp_first.
Print Assumptions C15_frame_tcp_identified.
Print Assumptions C15_frame_udp_gen_is.
Print Assumptions C15_frame_udp_at.
Print Assumptions C15_udp_without_dns_hypothesis_refuted.
Print Assumptions C15_frame_tcp_example.
Print Assumptions C15_frame_tcp_known_class_example.
Print Assumptions C15_frame_udp_example.
