(* Properties/C15.v -- STUN: binding requests get a success response reflecting the observed
   address. Statements only; proofs in Proofs/C15*.v; the specification (reference STUN codec,
   expected response, monitors) is Spec/RefStun.v + Spec/C15.v, written from the property text
   and RFC 5389 / 3489 / 5780, independently of the responder model (Stun.v).
   Identification by the compiled matcher is a hypothesis ([udp_id] / [tcp_first_id]): which
   payloads are identified is C10's subject; the binding requests that the published signatures
   cover but the matcher does not identify form the known class [stun_shadowed] (inhabited:
   C15_known_class_witness).
   "Malformed payloads are ignored" ([C15_malformed_silent_stmt]) is FALSE of the responder:
   C15_malformed_silent_refuted; what holds is C15_malformed_silent_partial, and
   C15_answered_iff says exactly which payloads are answered. *)
From MS Require Import Stun Proto L2 Spec.View Spec.RefDec Spec.RefStun Spec.AppView Spec.C15 Instance
  Proofs.C15Ref Proofs.C15Walk Proofs.C15Model Proofs.C15Sound Proofs.C15Handler Proofs.C15Proto Proofs.C15Examples.

(* ---- the reference codec is coherent ---- *)
(* class and method <-> the 14-bit message type (RFC 5389 figure 3) *)
Theorem C15_ref_type_roundtrip :
  forall cls meth, cls < 4 -> meth < 4096 ->
    type_class (stun_type cls meth) = cls /\ type_method (stun_type cls meth) = meth /\
    stun_type cls meth < 16384.
Proof. exact stun_type_roundtrip. Qed.
Theorem C15_ref_type_fields :
  forall ty, ty < 16384 ->
    type_class ty < 4 /\ type_method ty < 4096 /\ stun_type (type_class ty) (type_method ty) = ty.
Proof. exact type_of_fields. Qed.

(* a serialised well-formed message reads back: as a request whatever follows it, as a
   response when nothing follows *)
Theorem C15_ref_roundtrip :
  forall m tail, stun_wf m = true -> dec_stun_req (ser_stun m ++ tail) = Some m.
Proof. exact dec_stun_req_ser. Qed.
Theorem C15_ref_resp_roundtrip :
  forall m, stun_wf m = true -> dec_stun_resp (ser_stun m) = Some m.
Proof. exact dec_stun_resp_ser. Qed.
(* conversely, what the request reader accepts is a well-formed message whose serialisation
   has the payload's header and length (attribute padding bytes are free) *)
Theorem C15_ref_sound :
  forall p m, bytes_ok p = true -> dec_stun_req p = Some m ->
    stun_wf m = true /\ firstn 20 (ser_stun m) = firstn 20 p /\ (length (ser_stun m) <= length p)%nat /\
    dec_stun_req (ser_stun m) = Some m.
Proof. exact dec_stun_req_sound. Qed.

(* ---- the responder ---- *)
(* every well-formed binding request -- any transaction id, any attribute list (unknown types,
   odd lengths with padding, empty values), whatever follows it in the datagram -- is answered
   with the expected message: success class, binding method, same transaction id, one
   attribute MAPPED-ADDRESS = (family, port, address) of the source, length field = bytes after
   the header; the client information handed back differs at most in the destination port,
   which becomes (dport + 1) mod 2^16 iff a CHANGE-REQUEST asks for another port *)
Theorem C15_handler_request :
  forall ci m tail src sport dport,
    stun_wf m = true -> is_binding_request m = true ->
    ci_ip_src ci = Some src -> ci_port_src ci = Some sport -> ci_port_dst ci = Some dport ->
    ip_ok src = true -> sport < 65536 ->
    exists ci' r,
      stun_repl ci (ser_stun m ++ tail) = (ci', Some r) /\
      dec_stun_resp r = Some (expected_response (sm_tid m) src sport) /\
      dec_mapped (enc_mapped (ip_family src) sport (ip_octets src)) = Some (ip_family src, sport, ip_octets src) /\
      u16_at 2 r + 20 = lenN r /\
      ci_port_dst ci' = Some (if change_port_requested m then (dport + 1) mod 65536 else dport) /\
      ci_same_except_dport ci ci'.
Proof. exact handler_request. Qed.

(* the same on raw payloads: whatever the reference reader accepts as a binding request *)
Theorem C15_handler_request_raw :
  forall ci p m src sport dport,
    u8_at 0 p < 256 -> u8_at 1 p < 256 ->
    dec_stun_req p = Some m -> is_binding_request m = true ->
    ci_ip_src ci = Some src -> ci_port_src ci = Some sport -> ci_port_dst ci = Some dport ->
    stun_repl ci p =
      (if change_port_requested m then ci_set_port_dst ci ((dport + 1) mod 65536) else ci,
       Some (stun_response (sm_tid m) src sport)).
Proof. exact stun_repl_request. Qed.
Theorem C15_response_decodes :
  forall tid src sport, length tid = 16%nat -> bytes_ok tid = true -> ip_ok src = true ->
    dec_stun_resp (stun_response tid src sport) = Some (expected_response tid src sport).
Proof. exact stun_response_decodes. Qed.

(* indications, success / error responses, other methods: nothing, client information untouched *)
Theorem C15_other_class_method_silent :
  forall ci m tail, stun_wf m = true -> is_binding_request m = false ->
    stun_repl ci (ser_stun m ++ tail) = (ci, None).
Proof. exact other_class_method_silent. Qed.

(* malformed payloads. The full statement is refuted ... *)
Theorem C15_malformed_silent_refuted : ~ C15_malformed_silent_stmt stun_repl.
Proof.
  intros H. destruct malformed_silent_refuted as (ci & p & Hok & Hdec & Hne).
  apply Hne. apply (H p Hok Hdec ci).
Qed.
(* ... by the three malformations of the attribute region that the responder does not notice
   (1..3 stray bytes at its end; a bare attribute header in its last 4 bytes; missing padding
   after the last value). Every other malformed payload is ignored: *)
Theorem C15_malformed_silent_partial :
  forall ci p, bytes_ok p = true -> dec_stun_req p = None ->
    stun_diag_of p <> DAttrs TlvStray -> stun_diag_of p <> DAttrs TlvHeaderOnly ->
    stun_diag_of p <> DAttrs TlvUnpadded ->
    stun_repl ci p = (ci, None).
Proof. exact malformed_silent_partial. Qed.
(* in particular every truncation of a well-formed message *)
Theorem C15_truncated_silent :
  forall ci m n, stun_wf m = true -> bytes_ok (ser_stun m) = true -> (n < length (ser_stun m))%nat ->
    stun_repl ci (firstn n (ser_stun m)) = (ci, None).
Proof. exact truncated_silent. Qed.
(* exactly which payloads are answered, and with what *)
Theorem C15_answered_iff :
  forall ci p src sport dport, bytes_ok p = true ->
    ci_ip_src ci = Some src -> ci_port_src ci = Some sport -> ci_port_dst ci = Some dport ->
    (if diag_answered p
     then exists ci', stun_repl ci p = (ci', Some (stun_response (slice 4 16 p) src sport))
     else stun_repl ci p = (ci, None)).
Proof. exact answered_iff. Qed.
(* the responder is a total function (no panic site in stun.rs is reachable: the model has none);
   through dispatch: *)
Theorem C15_dispatch_total :
  forall E clk ci t p, dispatch E clk ci PROTO_STUN t p = Ok (fst (stun_repl ci p), t, snd (stun_repl ci p)).
Proof. exact dispatch_stun. Qed.

(* ---- proto::repl: an identified datagram / first data segment satisfies the payload-level
   monitor in its strict form; the client information handed back differs at most in the
   destination port, which is the expected source port of the reply ---- *)
Theorem C15_proto_udp_monitor :
  forall E clk cfg ms md ctx p,
    a_tcp ctx = false -> bytes_ok p = true -> c15_ctx_ok ctx ->
    udp_id E p = Some PROTO_STUN ->
    exists ci' o,
      proto_repl_udp E clk (ctx_ci cfg ms md ctx) p = Ok (ci', o) /\
      app_ok_C15_strict ctx p o = true /\ app_ok_C15 ctx p o = true /\
      ci_same_except_dport (ctx_ci cfg ms md ctx) ci' /\
      (forall m, dec_stun_req p = Some m ->
         ci_port_dst ci' = Some (if is_binding_request m then expected_reply_sport ctx m else a_dport ctx)) /\
      (o = None -> ci' = ctx_ci cfg ms md ctx).
Proof. exact C15_proto_udp. Qed.
Theorem C15_proto_tcp_monitor :
  forall E clk cfg ms md ctx p,
    a_tcp ctx = true -> bytes_ok p = true -> c15_ctx_ok ctx ->
    tcp_first_id E p = Some PROTO_STUN ->
    exists ci' tc' o,
      proto_repl_tcp E clk (ctx_ci cfg ms md ctx) tcb_new p = Ok (ci', tc', o) /\
      app_ok_C15_strict ctx p o = true /\ app_ok_C15 ctx p o = true /\
      ci_same_except_dport (ctx_ci cfg ms md ctx) ci' /\
      (forall m, dec_stun_req p = Some m ->
         ci_port_dst ci' = Some (if is_binding_request m then expected_reply_sport ctx m else a_dport ctx)) /\
      (o = None -> ci' = ctx_ci cfg ms md ctx).
Proof. exact C15_proto_tcp. Qed.

(* ---- whole frames over UDP: the frame emitted for a datagram identified as STUN satisfies the
   frame-level monitors (strict form), UDP ports included: it comes from the contacted port, or
   from the next one (mod 2^16) iff change-port was requested, and goes to the client's port ---- *)
Theorem C15_frame_udp_monitor :
  forall E cfg clk tb f tb' r evs ctx p,
    cfg_ok cfg = true -> bytes_ok f = true ->
    reply E cfg clk tb f = Ok (tb', r, evs) ->
    udp_req cfg f = Some (ctx, p) -> udp_id E p = Some PROTO_STUN ->
    ok_C15_udp_strict cfg f r = true /\ ok_C15_udp cfg f r = true /\
    (forall m, dec_stun_req p = Some m -> is_binding_request m = true ->
       exists rf e i u, r = Some rf /\ dec_frame_udp rf = Some (e, i, u) /\
         du_payload u = stun_response (sm_tid m) (ctx_src_ip ctx) (a_sport ctx) /\
         du_sport u = (if change_port_requested m then (a_dport ctx + 1) mod 65536 else a_dport ctx) /\
         du_dport u = a_sport ctx).
Proof. exact C15_frame_udp. Qed.

(* ---- non-vacuity on the current tables, and the known class ---- *)
Theorem C15_examples :
  (* RFC 3489 request with change-port to port 65535 over UDP / IPv4: reply port 0 *)
  (stun_wf x_change = true /\ change_port_requested x_change = true /\
   ser_stun x_change = [0; 1; 0; 8] ++ x_tid16 ++ [0; 3; 0; 4; 0; 0; 0; 2] /\
   udp_id the_env (ser_stun x_change) = Some PROTO_STUN /\
   udp_out (x_ctx4 false) (ser_stun x_change) =
     (Some 0, Some ([1; 1; 0; 12] ++ x_tid16 ++ [0; 1; 0; 8; 0; 1; 156; 64; 10; 0; 0; 9])) /\
   app_ok_C15_strict (x_ctx4 false) (ser_stun x_change) (snd (udp_out (x_ctx4 false) (ser_stun x_change))) = true) /\
  (* RFC 5389 request of 288 bytes over TCP / IPv6, client port 65535 *)
  (stun_wf x_big = true /\ length (ser_stun x_big) = 288%nat /\ firstn 4 (ser_stun x_big) = [0; 1; 1; 12] /\
   tcp_first_id the_env (ser_stun x_big) = Some PROTO_STUN /\
   udp_id the_env (ser_stun x_big) = Some PROTO_STUN /\
   tcp_out (x_ctx6 true) (ser_stun x_big) =
     (Some 3479,
      Some ([1; 1; 0; 24] ++ MAGIC_COOKIE ++ x_tid12 ++
            [0; 1; 0; 20; 0; 2; 255; 255; 32; 1; 13; 184; 0; 0; 0; 0; 0; 0; 0; 0; 0; 0; 0; 9])) /\
   app_ok_C15_strict (x_ctx6 true) (ser_stun x_big) (snd (tcp_out (x_ctx6 true) (ser_stun x_big))) = true).
Proof. exact (conj ex_change_udp ex_big_tcp). Qed.

Theorem C15_frame_example :
  cfg_ok x_cfg = true /\ bytes_ok x_frame = true /\
  udp_req x_cfg x_frame = Some (x_ctx4 false, ser_stun x_change) /\
  (match x_frame_reply with
   | Some rf => match dec_frame_udp rf with
                | Some (_, _, u) => Some (du_sport u, du_dport u, du_payload u)
                | None => None
                end
   | None => None
   end) = Some (0, 40000, [1; 1; 0; 12] ++ x_tid16 ++ [0; 1; 0; 8; 0; 1; 156; 64; 10; 0; 0; 9]) /\
  ok_C15_udp_strict x_cfg x_frame x_frame_reply = true /\ ok_C15_udp x_cfg x_frame x_frame_reply = true /\
  c15_class_frame x_cfg x_frame = false.
Proof. exact ex_frame. Qed.

Theorem C15_known_class_witness :
  dec_stun_req (ser_stun x_soft) = Some x_soft /\ stun_published false (ser_stun x_soft) = true /\
  stun_shadowed false (ser_stun x_soft) = true /\
  udp_id the_env (ser_stun x_soft) = None /\
  udp_out (x_ctx4 false) (ser_stun x_soft) = (Some 65535, None) /\
  app_ok_C15_strict (x_ctx4 false) (ser_stun x_soft) None = false /\
  app_ok_C15 (x_ctx4 false) (ser_stun x_soft) None = true /\
  snd (stun_repl (x_ci (x_ctx4 false)) (ser_stun x_soft)) =
    Some ([1; 1; 0; 12] ++ MAGIC_COOKIE ++ x_tid12 ++ [0; 1; 0; 8; 0; 1; 156; 64; 10; 0; 0; 9]) /\
  dec_stun_req (ser_stun x_empty) = Some x_empty /\ stun_published true (ser_stun x_empty) = true /\
  stun_shadowed true (ser_stun x_empty) = true /\
  tcp_first_id the_env (ser_stun x_empty) = None /\
  tcp_out (x_ctx4 true) (ser_stun x_empty) = (Some 65535, None) /\
  app_ok_C15_strict (x_ctx4 true) (ser_stun x_empty) None = false /\
  app_ok_C15 (x_ctx4 true) (ser_stun x_empty) None = true /\
  stun_shadowed false (ser_stun x_empty) = false /\ stun_shadowed true (ser_stun x_big) = false.
Proof. exact ex_shadowed. Qed.

(* on a sample of 4800 payloads around the three signatures, the class is exact: a payload the
   published signatures cover is identified iff it is not in [stun_shadowed]; no other is *)
Theorem C15_known_class_exact_on_sample :
  length s_payloads = 4800%nat /\
  forallb (s_check false) s_payloads = true /\ forallb (s_check true) s_payloads = true /\
  length (filter (stun_published false) s_payloads) = 209%nat /\
  length (filter (stun_shadowed false) s_payloads) = 47%nat /\
  length (filter (stun_shadowed true) s_payloads) = 50%nat.
Proof. exact ex_class_exact_on_sample. Qed.

(* the malformed payloads that are answered, one per tolerated malformation, and one where
   the reply port moves; and one that goes through identification on the current tables *)
Theorem C15_malformed_answered_witnesses :
  (stun_diag_of w_stray = DAttrs TlvStray /\ dec_stun_req w_stray = None /\
   stun_repl (x_ci (x_ctx4 false)) w_stray = (x_ci (x_ctx4 false), Some x_answer) /\
   stun_diag_of w_header = DAttrs TlvHeaderOnly /\ dec_stun_req w_header = None /\
   stun_repl (x_ci (x_ctx4 false)) w_header = (x_ci (x_ctx4 false), Some x_answer) /\
   stun_diag_of w_unpadded = DAttrs TlvUnpadded /\ dec_stun_req w_unpadded = None /\
   stun_repl (x_ci (x_ctx4 false)) w_unpadded = (x_ci (x_ctx4 false), Some x_answer) /\
   stun_diag_of w_shift = DAttrs TlvStray /\ dec_stun_req w_shift = None /\
   stun_repl (x_ci (x_ctx4 false)) w_shift = (ci_set_port_dst (x_ci (x_ctx4 false)) 0, Some x_answer)) /\
  (bytes_ok w_stray_big = true /\ dec_stun_req w_stray_big = None /\
   stun_diag_of w_stray_big = DAttrs TlvStray /\
   udp_id the_env w_stray_big = Some PROTO_STUN /\
   udp_out (x_ctx4 false) w_stray_big =
     (Some 65535, Some ([1; 1; 0; 12] ++ MAGIC_COOKIE ++ x_tid12 ++ [0; 1; 0; 8; 0; 1; 156; 64; 10; 0; 0; 9]))).
Proof. exact (conj ex_malformed_answered ex_malformed_answered_identified). Qed.

Print Assumptions C15_ref_type_roundtrip.
Print Assumptions C15_ref_type_fields.
Print Assumptions C15_ref_roundtrip.
Print Assumptions C15_ref_resp_roundtrip.
Print Assumptions C15_ref_sound.
Print Assumptions C15_handler_request.
Print Assumptions C15_handler_request_raw.
Print Assumptions C15_response_decodes.
Print Assumptions C15_other_class_method_silent.
Print Assumptions C15_malformed_silent_refuted.
Print Assumptions C15_malformed_silent_partial.
Print Assumptions C15_truncated_silent.
Print Assumptions C15_answered_iff.
Print Assumptions C15_dispatch_total.
Print Assumptions C15_proto_udp_monitor.
Print Assumptions C15_proto_tcp_monitor.
Print Assumptions C15_frame_udp_monitor.
Print Assumptions C15_examples.
Print Assumptions C15_frame_example.
Print Assumptions C15_known_class_witness.
Print Assumptions C15_known_class_exact_on_sample.
Print Assumptions C15_malformed_answered_witnesses.
