(* Proofs/C12Bound.v -- C12, the reflection chain over UDP dies out after at most two replies.

   Route.  Every payload the application layer can emit over UDP has one of a few SHAPES
   (fixed leading bytes, the rest free).  For each shape the abstract run of
   Proofs/C12Abs.v over the table dumped from the current implementation computes the set
   of possible verdicts of the protocol identification, for payloads of every length:

     STUN binding success (01 01 00 0c|18 tid 00 01 00 * 00 01|02 ..)   -> never identified
     RPC reply, datagram layout (xid 00000001 0^12 000000 * ..)          -> never identified
     RPC reply, record layout (>=80 * * * xid 00000001 0^12 ..)          -> never identified
     SMB1 / SMB2 reply (00 00 * * ff|fe S M B ..)                        -> SMB1 / SMB2
     DNS response (id fl>=80 00 n n 0000 0000 [qname ..])                -> never identified
       (no question: exactly 12 bytes; otherwise the first name starts with a non-zero
        byte or is the root followed by type 00 01; the two counts are equal)

   Hence: an SMB reply goes back to its own responder, which is silent on replies; an RPC
   record reply is handed to the DNS fallback and is no DNS message (ARCOUNT = 1); a DNS
   response is handed to the DNS fallback, which never answers QR = 1; a STUN response and
   an RPC datagram reply are handed to the DNS fallback, which may answer (one more reply:
   a DNS response, unanswered).  So after ANY first reply that is not the SSH banner, the
   Gh0st frame or the HTTP template the chain has at most one more reply; the HTTP template
   itself is never answered.  A reply-typed start is never identified as HTTP, SSH or
   Gh0st (computed verdict sets of the three start shapes), which gives the bound.

   The client context must carry octet addresses ([ci_ok]): [chain_bound_stmt] as stated in
   Proofs/C12Chain.v quantifies over contexts whose address "octets" are arbitrary numbers;
   the value 256 in a payload is read by the table model as the start anchor and restarts
   the matcher ([junk_context_bounces]); no frame can produce such a context. *)
From MS Require Import Proofs.Tactics Proofs.C19 Proofs.C12 Proofs.C12Own Proofs.C12Shape Proofs.C12Frame
     Proofs.C12Id Proofs.C12Chain Proofs.ReplyBytes Proofs.SmbSafe Proofs.SmbBytes Proofs.SmbLen
     Proofs.C10Sound Proofs.C10Dispatch Proofs.C10Current Proofs.C12Abs
     Rpc Dns Stun Smb Proto Spec.AppView Spec.C12 Spec.C12x Spec.C19 Spec.EnvOk Spec.C10 Instance.

(* ---------- identification of shapes on the current table ---------- *)
Lemma id_open pat allowed : open_ok cur_tbl pat allowed = true ->
  forall p, bytes_ok p = true -> pmatches pat p -> In (udp_id the_env p) allowed.
Proof.
  intros H p Hp Hm. rewrite udp_id_tbl_eq.
  exact (open_sound cur_tbl cur_smack_ok cur_pre pat allowed H p Hp Hm).
Qed.
Lemma id_exact pat allowed : exact_ok cur_tbl pat allowed = true ->
  forall p, bytes_ok p = true -> pmatches pat p -> length p = length pat -> In (udp_id the_env p) allowed.
Proof.
  intros H p Hp Hm Hl. rewrite udp_id_tbl_eq.
  exact (exact_sound cur_tbl cur_smack_ok cur_pre pat allowed H p Hp Hm Hl).
Qed.

Lemma in_none (x : option N) : In x [None] -> x = None.
Proof. intros [H|[]]. symmetry. exact H. Qed.

(* the start shapes: never HTTP (1), SSH (3), Gh0st (4) *)
Definition ids_dyn : list (option N) :=
  [None; Some PROTO_STUN; Some PROTO_RPC_TCP; Some PROTO_RPC_UDP; Some PROTO_SMB1; Some PROTO_SMB2].
Definition pat_start_dns : list pel := [anyb; anyb; GE 128].
Definition pat_start_stun : list pel := [LT 64].
Definition pat_start_rpc : list pel := ANYS 4 ++ LITS [0; 0; 0; 1].
Lemma v_start_dns : open_ok cur_tbl pat_start_dns ids_dyn = true. Proof. vm_compute. reflexivity. Qed.
Lemma v_start_stun : open_ok cur_tbl pat_start_stun ids_dyn = true. Proof. vm_compute. reflexivity. Qed.
Lemma v_start_rpc : open_ok cur_tbl pat_start_rpc ids_dyn = true. Proof. vm_compute. reflexivity. Qed.

(* the output shapes *)
Definition pat_stun_out : list pel :=
  LITS [1; 1; 0] ++ [ONEOF [12; 24]] ++ ANYS 16 ++ LITS [0; 1; 0] ++ [anyb] ++ LITS [0] ++ [ONEOF [1; 2]].
Definition pat_rpcu_out : list pel :=
  ANYS 4 ++ LITS [0; 0; 0; 1; 0; 0; 0; 0; 0; 0; 0; 0; 0; 0; 0; 0; 0; 0; 0] ++ [anyb].
Definition pat_rpct_out : list pel :=
  [GE 128] ++ ANYS 7 ++ LITS [0; 0; 0; 1; 0; 0; 0; 0; 0; 0; 0; 0; 0; 0; 0; 0; 0; 0; 0] ++ [anyb].
Definition pat_smb1_out : list pel := LITS [0; 0] ++ ANYS 2 ++ LITS [255; 83; 77; 66].
Definition pat_smb2_out : list pel := LITS [0; 0] ++ ANYS 2 ++ LITS [254; 83; 77; 66].
Definition pat_dns_h12 : list pel := ANYS 2 ++ [GE 128] ++ LITS [0; 0; 0; 0; 0; 0; 0; 0; 0].
Lemma v_stun_out : open_ok cur_tbl pat_stun_out [None] = true. Proof. vm_compute. reflexivity. Qed.
Lemma v_rpcu_out : open_ok cur_tbl pat_rpcu_out [None] = true. Proof. vm_compute. reflexivity. Qed.
Lemma v_rpct_out : open_ok cur_tbl pat_rpct_out [None] = true. Proof. vm_compute. reflexivity. Qed.
Lemma v_smb1_out : open_ok cur_tbl pat_smb1_out [Some PROTO_SMB1] = true. Proof. vm_compute. reflexivity. Qed.
Lemma v_smb2_out : open_ok cur_tbl pat_smb2_out [Some PROTO_SMB2] = true. Proof. vm_compute. reflexivity. Qed.
Lemma v_dns_h12 : exact_ok cur_tbl pat_dns_h12 [None] = true. Proof. vm_compute. reflexivity. Qed.

(* DNS response with at least one question: the two counts (bytes 4-5 and 6-7) are equal and
   not zero; five classes of the high count byte [c]; the question section starts with a
   non-zero byte ([pat_dns_a]) or with the root name followed by type 00 01 ([pat_dns_b]) *)
Definition DNS_HI : list N := [0; 33; 254; 255].
Definition pat_dns_counts (c : nat) : list pel :=
  match nth_error DNS_HI c with
  | Some v => if v =? 0 then [LIT 0; NOT [0]; LIT 0; NOT [0]] else [LIT v; anyb; LIT v; anyb]
  | None => [NOT DNS_HI; anyb; NOT DNS_HI; anyb]
  end.
Definition pat_dns_a (c : nat) : list pel :=
  ANYS 2 ++ [GE 128] ++ LITS [0] ++ pat_dns_counts c ++ LITS [0; 0; 0; 0] ++ [NOT [0]].
Definition pat_dns_b (c : nat) : list pel :=
  ANYS 2 ++ [GE 128] ++ LITS [0] ++ pat_dns_counts c ++ LITS [0; 0; 0; 0] ++ LITS [0; 0; 1].
Lemma v_dns_a : forallb (fun c => open_ok cur_tbl (pat_dns_a c) [None]) (seq 0 5) = true.
Proof. vm_compute. reflexivity. Qed.
Lemma v_dns_b : forallb (fun c => open_ok cur_tbl (pat_dns_b c) [None]) (seq 0 5) = true.
Proof. vm_compute. reflexivity. Qed.

Lemma dns_counts_class nh nl : nh < 256 -> (nh =? 0) && (nl =? 0) = false ->
  exists c, In c (seq 0 5) /\
    forall tl rest, pmatches tl rest -> pmatches (pat_dns_counts c ++ tl) (nh :: nl :: nh :: nl :: rest).
Proof.
  intros Hlt Hnz.
  destruct (N.eqb_spec nh 0) as [->|H0].
  { exists 0%nat. split; [cbn; tauto|]. intros tl rest Hm. change (0 =? 0) with true in Hnz. cbn [andb] in Hnz.
    cbv [pat_dns_counts nth_error DNS_HI]. change (0 =? 0) with true. cbv iota. cbn [app pmatches].
    unfold LIT, NOT, inN. cbn [existsb]. rewrite Hnz. repeat split; try reflexivity. exact Hm. }
  destruct (N.eqb_spec nh 33) as [->|H1].
  { exists 1%nat. split; [cbn; tauto|]. intros tl rest Hm. cbv [pat_dns_counts nth_error DNS_HI].
    change (33 =? 0) with false. cbv iota. cbn [app pmatches]. repeat split; try reflexivity. exact Hm. }
  destruct (N.eqb_spec nh 254) as [->|H2].
  { exists 2%nat. split; [cbn; tauto|]. intros tl rest Hm. cbv [pat_dns_counts nth_error DNS_HI].
    change (254 =? 0) with false. cbv iota. cbn [app pmatches]. repeat split; try reflexivity. exact Hm. }
  destruct (N.eqb_spec nh 255) as [->|H3].
  { exists 3%nat. split; [cbn; tauto|]. intros tl rest Hm. cbv [pat_dns_counts nth_error DNS_HI].
    change (255 =? 0) with false. cbv iota. cbn [app pmatches]. repeat split; try reflexivity. exact Hm. }
  exists 4%nat. split; [cbn; tauto|]. intros tl rest Hm. cbv [pat_dns_counts nth_error DNS_HI].
  cbn [app pmatches].
  assert (Hn : NOT [0; 33; 254; 255] nh = true).
  { unfold NOT, inN. cbn [existsb].
    apply N.eqb_neq in H0, H1, H2, H3. rewrite H0, H1, H2, H3. reflexivity. }
  repeat split; try exact Hn; try reflexivity. exact Hm.
Qed.

(* ---------- DNS: facts about parsed queries ---------- *)
Lemma take_questions_length : forall n d qs r, take_questions n d = Some (qs, r) -> length qs = n.
Proof.
  induction n as [|n IH]; intros d qs r H; cbn [take_questions] in H.
  - inversion H. reflexivity.
  - destruct (take_question d) as [[q r0]|]; [|discriminate].
    destruct (take_questions n r0) as [[qs0 r1]|] eqn:Hq; [|discriminate].
    inversion H; subst. cbn [length]. f_equal. exact (IH _ _ _ Hq).
Qed.

(* a name: starts with a non-zero byte, or is the root *)
Definition name_shape (name : bytes) : Prop :=
  (exists b t, name = b :: t /\ b <> 0) \/ name = [0].

Lemma take_qname_acc : forall d acc left name r,
  take_qname d acc left = Some (name, r) -> exists s, name = rev acc ++ s /\ s <> [].
Proof.
  induction d as [|b t IH]; intros acc left name r H; cbn [take_qname] in H; [discriminate|].
  assert (Hstep : forall l', take_qname t (b :: acc) l' = Some (name, r) ->
                             exists s, name = rev acc ++ s /\ s <> []).
  { intros l' H'. destruct (IH _ _ _ _ H') as (s & -> & _). cbn [rev]. rewrite <- app_assoc.
    exists ([b] ++ s). split; [reflexivity | discriminate]. }
  destruct (0 <? left); [exact (Hstep _ H)|].
  destruct (b =? 0); [|exact (Hstep _ H)].
  inversion H; subst. cbn [rev]. exists [b]. split; [reflexivity | discriminate].
Qed.

Lemma take_qname_shape d name r : take_qname d [] 0 = Some (name, r) -> name_shape name.
Proof.
  destruct d as [|b t]; cbn [take_qname]; [discriminate|].
  change (0 <? 0) with false. cbv iota.
  destruct (N.eqb_spec b 0) as [->|Hb].
  - intros H. inversion H. right. reflexivity.
  - intros H. destruct (take_qname_acc _ _ _ _ _ H) as (s & -> & _). left. exists b, s. split; [reflexivity | exact Hb].
Qed.

Lemma dns_parse_questions p m : dns_parse p = Some m ->
  length (d_qd m) = N.to_nat (u16_at 4 p) /\
  match d_qd m with [] => True | q :: _ => name_shape (q_name q) end.
Proof.
  unfold dns_parse. destruct (length p <? 12)%nat; [discriminate|].
  destruct (take_questions _ _) as [[qs r]|] eqn:Hq; [|discriminate].
  destruct (skip_rrs _ _); [|discriminate].
  destruct ((_ =? 0) && (_ =? 0)); [|discriminate].
  intros H. inversion H; subst. cbn [d_qd]. split; [exact (take_questions_length _ _ _ _ Hq)|].
  destruct qs as [|q qs]; [exact I|].
  destruct (N.to_nat (u16_at 4 p)) as [|k]; cbn [take_questions] in Hq; [discriminate|].
  unfold take_question in Hq. destruct (take_qname _ [] 0) as [[name r0]|] eqn:Hn; [|discriminate].
  destruct r0 as [|t1 [|t2 [|c1 [|c2 rest]]]]; try discriminate.
  destruct (take_questions k rest) as [[qs0 r1]|]; [|discriminate].
  inversion Hq; subst. cbn [q_name]. exact (take_qname_shape _ _ _ Hn).
Qed.

Lemma dns_parse_ar p : u16_at 10 p <> 0 -> dns_parse p = None.
Proof.
  intros H. unfold dns_parse. destruct (length p <? 12)%nat; [reflexivity|].
  destruct (take_questions _ _) as [[qs r]|]; [|reflexivity].
  destruct (skip_rrs _ _); [|reflexivity].
  apply N.eqb_neq in H. rewrite H, andb_false_r. reflexivity.
Qed.

Lemma render_dns_bytes p m ip : bytes_ok p = true -> dns_parse p = Some m ->
  bytes_ok (ip_octets ip) = true -> bytes_ok (render_dns m ip) = true.
Proof.
  intros Hp Hm Hip. destruct (dns_parse_ok _ _ Hm) as (A1 & _ & _). specialize (A1 Hp).
  unfold render_dns. apply bytes_ok_app_intro; [apply dns_header_reply_ok|].
  apply bytes_ok_app_intro; [apply ser_questions_ok, A1 | apply answers_ok; assumption].
Qed.

(* ---------- a DNS response of the responder is never identified, never answered ---------- *)
Lemma dns_out_id p m ip :
  bytes_ok p = true -> dns_parse p = Some m ->
  forallb (fun q => (q_type q =? 1) && (q_class q =? 1)) (d_qd m) = true ->
  bytes_ok (ip_octets ip) = true ->
  udp_id the_env (render_dns m ip) = None.
Proof.
  intros Hp Hm Hfa Hip. pose proof (render_dns_bytes p m ip Hp Hm Hip) as Hok.
  destruct (dns_parse_questions p m Hm) as [Hlen Hname].
  pose proof (u16_at_lt 4 p Hp) as Hq16.
  unfold render_dns, dns_header_reply, be16 in *.
  set (n := N.of_nat (length (d_qd m))) in *.
  set (fl := 128 + (d_flags m / 2048) mod 16 * 8 + 4 + (d_flags m / 256) mod 2) in *.
  assert (Hfl : GE 128 fl = true) by (unfold GE; apply N.leb_le; subst fl; lia).
  assert (Hn : n < 65536) by (subst n; rewrite Hlen; lia).
  destruct (d_qd m) as [|q qs] eqn:Hqd.
  - (* no question: the bare header *)
    apply in_none. apply (id_exact _ _ v_dns_h12 _ Hok); [|reflexivity].
    subst n. cbn [length map concat app pmatches]. cbv [pat_dns_h12 ANYS LITS repeat map app pmatches anyb].
    change (N.of_nat 0) with 0. repeat split; try reflexivity. exact Hfl.
  - cbn [forallb] in Hfa. apply andb_true_iff in Hfa. destruct Hfa as [Hq1 _].
    apply andb_true_iff in Hq1. destruct Hq1 as [Ht Hc]. apply N.eqb_eq in Ht, Hc.
    assert (Hn1 : 1 <= n) by (subst n; cbn [length]; lia).
    assert (Hnz : ((n / 256) mod 256 =? 0) && (n mod 256 =? 0) = false).
    { apply andb_false_iff. destruct (N.eqb_spec ((n / 256) mod 256) 0) as [E|E]; [right|left; reflexivity].
      apply N.eqb_neq. lia. }
    assert (Hnh : (n / 256) mod 256 < 256) by lia.
    destruct (dns_counts_class _ _ Hnh Hnz) as (c & Hc5 & Hcls).
    cbn [map concat] in *. unfold ser_question at 1 in Hok. unfold ser_question at 1.
    rewrite Ht, Hc in *. change (be16 1) with [0; 1] in *.
    destruct Hname as [(b & t & Hnm & Hb) | Hnm]; rewrite Hnm in *.
    + apply in_none.
      pose proof v_dns_a as V. rewrite forallb_forall in V. specialize (V c Hc5).
      apply (id_open _ _ V _ Hok).
      cbv [pat_dns_a ANYS LITS repeat map]. cbn [app pmatches]. repeat split; try reflexivity; try exact Hfl.
      apply Hcls. cbn [app pmatches]. repeat split; try reflexivity.
      unfold NOT, inN. cbn [existsb]. apply N.eqb_neq in Hb. rewrite Hb. reflexivity.
    + apply in_none.
      pose proof v_dns_b as V. rewrite forallb_forall in V. specialize (V c Hc5).
      apply (id_open _ _ V _ Hok).
      cbv [pat_dns_b ANYS LITS repeat map]. cbn [app pmatches]. repeat split; try reflexivity; try exact Hfl.
      apply Hcls. cbn [app pmatches]. repeat split; reflexivity.
Qed.

Theorem dns_out_silent clk p m ip :
  bytes_ok p = true -> dns_parse p = Some m ->
  forallb (fun q => (q_type q =? 1) && (q_class q =? 1)) (d_qd m) = true ->
  bytes_ok (ip_octets ip) = true ->
  udp_core the_env clk (render_dns m ip) = Ok CSilent.
Proof.
  intros Hp Hm Hfa Hip. unfold udp_core. rewrite (dns_out_id p m ip Hp Hm Hfa Hip).
  rewrite (dns_responses_unanswered _ (own_dns_reply_typed m ip)). reflexivity.
Qed.

(* ---------- chains ---------- *)
Lemma chain_step E clk ci k p : ci_full ci = true ->
  app_chain E clk ci (S k) p =
  match udp_core E clk p with
  | Ok c => match render c ci with Some r => r :: app_chain E clk ci k r | None => [] end
  | Panic _ => []
  end.
Proof.
  intros Hf. cbn [app_chain]. pose proof (udp_context_free E clk p ci Hf) as A.
  destruct (udp_core E clk p) as [c|s].
  - destruct A as (ci' & -> & _). destruct (render c ci); reflexivity.
  - rewrite A. reflexivity.
Qed.

(* nothing comes back: the core is silent (or the model stops) *)
Definition quiet_core (E : env) (clk : clock) (r : bytes) : Prop :=
  match udp_core E clk r with Ok c => c = CSilent | Panic _ => True end.

Lemma quiet_chain E clk ci k r : ci_full ci = true -> quiet_core E clk r -> app_chain E clk ci k r = [].
Proof.
  destruct k; [reflexivity|]. intros Hf Hq. rewrite chain_step by exact Hf. unfold quiet_core in Hq.
  destruct (udp_core E clk r) as [c|s]; [subst c|]; reflexivity.
Qed.

Lemma ci_ok_parts ci sa da : ci_ok ci -> ci_ip_src ci = Some sa -> ci_ip_dst ci = Some da ->
  bytes_ok (ip_octets sa) = true /\ bytes_ok (ip_octets da) = true /\ (length (ip_octets da) <= 16)%nat.
Proof.
  intros [Hs Hd] Es Ed. rewrite Es in Hs. rewrite Ed in Hd. cbn [addr_ok] in Hs, Hd.
  destruct Hs as [S1 _]. destruct Hd as [D1 D2]. auto.
Qed.

(* what may follow a first reply [r1]: nothing at all, or [r1] is handed to the DNS fallback *)
Definition first_ok (r1 : bytes) : Prop :=
  (forall clk, quiet_core the_env clk r1) \/ (bytes_ok r1 = true /\ udp_id the_env r1 = None).

(* the payload is handed to the DNS fallback: its answer, if any, is not answered
   (whatever the context and the clock of each hop) *)
Lemma dns_fallback_next clk ci r1 c r2 : ci_full ci = true -> ci_ok ci -> bytes_ok r1 = true ->
  udp_id the_env r1 = None ->
  udp_core the_env clk r1 = Ok c -> render c ci = Some r2 -> forall clk', quiet_core the_env clk' r2.
Proof.
  intros Hf Hci Hok Hid Hc Hr clk'. unfold udp_core in Hc. rewrite Hid in Hc. apply ok_inj in Hc. subst c.
  unfold dns_core in Hr.
  destruct (dns_parse r1) as [m|] eqn:Hm; [|discriminate Hr].
  destruct (32768 <=? d_flags m); [discriminate Hr|].
  destruct (forallb _ (d_qd m)) eqn:Hfa; [|discriminate Hr].
  cbn [render] in Hr. destruct (ci_full_inv _ Hf) as (sa & da & sp & dp & Hsa & Hda & Hsp & Hdp). rewrite Hda in Hr.
  apply some_inj in Hr. subst r2.
  destruct (ci_ok_parts ci sa da Hci Hsa Hda) as (_ & D1 & _).
  unfold quiet_core. rewrite (dns_out_silent clk' r1 m da Hok Hm Hfa D1). reflexivity.
Qed.

Lemma first_ok_next clk ci r1 c r2 : ci_full ci = true -> ci_ok ci -> first_ok r1 ->
  udp_core the_env clk r1 = Ok c -> render c ci = Some r2 -> forall clk', quiet_core the_env clk' r2.
Proof.
  intros Hf Hci [Hq | [Hok Hid]] Hc Hr.
  - specialize (Hq clk). unfold quiet_core in Hq. rewrite Hc in Hq. subst c. discriminate Hr.
  - exact (dns_fallback_next clk ci r1 c r2 Hf Hci Hok Hid Hc Hr).
Qed.

Definition le1_after (clk : clock) (ci : cinfo) (r1 : bytes) : Prop :=
  forall k, (length (app_chain the_env clk ci k r1) <= 1)%nat.

Lemma first_ok_le1 clk ci r1 : ci_full ci = true -> ci_ok ci -> first_ok r1 -> le1_after clk ci r1.
Proof.
  intros Hf Hci H1 k. destruct k; [cbn; lia|]. rewrite chain_step by exact Hf.
  destruct (udp_core the_env clk r1) as [c|s] eqn:Hc; [|cbn; lia].
  destruct (render c ci) as [r2|] eqn:Hr; [|cbn; lia].
  rewrite (quiet_chain the_env clk ci k r2 Hf (first_ok_next clk ci r1 c r2 Hf Hci H1 Hc Hr clk)). cbn. lia.
Qed.

(* ---------- STUN binding success ---------- *)
Lemma stun_core_inv p : stun_core p = CSilent \/ (exists chg, stun_core p = CStun (slice 4 16 p) chg /\ (20 <= length p)%nat).
Proof.
  unfold stun_core. destruct (length p <? 20)%nat eqn:Hl; [left; reflexivity|].
  destruct (64 <=? _); [left; reflexivity|]. destruct (lenN p <? _); [left; reflexivity|].
  destruct (stun_attrs _ _ _) as [chg|]; [|left; reflexivity].
  destruct (negb _); [left; reflexivity|]. destruct (negb _); [left; reflexivity|].
  right. exists chg. split; [reflexivity|]. apply Nat.ltb_ge in Hl. exact Hl.
Qed.

Lemma stun_out_id tid src sport : length tid = 16%nat -> bytes_ok tid = true -> bytes_ok (ip_octets src) = true ->
  bytes_ok (stun_response tid src sport) = true /\ udp_id the_env (stun_response tid src sport) = None.
Proof.
  intros Hl Ht Hs. pose proof (proj1 (stun_response_ok tid src sport Ht Hs)) as Hok. split; [exact Hok|].
  apply in_none. apply (id_open _ _ v_stun_out _ Hok).
  explode_lists. unfold stun_response, be16.
  cbv [pat_stun_out ANYS LITS repeat map]. cbn [app pmatches].
  destruct (ip_is_v4 src); repeat split; reflexivity.
Qed.

(* ---------- ONC-RPC replies ---------- *)
Lemma rpcu_out_id s ip port : (length (ip_octets ip) <= 16)%nat ->
  bytes_ok (rpc_build s ip port) = true /\ udp_id the_env (rpc_build s ip port) = None.
Proof.
  intros Hip. pose proof (proj1 (rpc_build_ok s ip port Hip)) as Hok. split; [exact Hok|].
  apply in_none. apply (id_open _ _ v_rpcu_out _ Hok).
  destruct (rpc_build_shape s ip port) as (x0 & x1 & x2 & x3 & a & t & -> & Ha).
  cbv [pat_rpcu_out ANYS LITS repeat map]. cbn [app pmatches]. repeat split; reflexivity.
Qed.

Lemma render_rpc_tcp_bytes s ip port : (length (ip_octets ip) <= 16)%nat ->
  bytes_ok (render_rpc s true ip port) = true.
Proof.
  intros Hip. unfold render_rpc. destruct (rpc_build_ok s ip port Hip) as [B1 B2].
  assert (lenN (rpc_build s ip port) < 16777216) as Hl by (unfold lenN; lia).
  apply bytes_ok_app_intro; [|exact B1]. repeat (apply bytes_ok_cons_intro; [lia|]). reflexivity.
Qed.

Lemma rpct_out_silent clk s ip port : (length (ip_octets ip) <= 16)%nat ->
  udp_core the_env clk (render_rpc s true ip port) = Ok CSilent.
Proof.
  intros Hip. pose proof (render_rpc_tcp_bytes s ip port Hip) as Hok.
  unfold render_rpc in *. destruct (rpc_build_shape s ip port) as (x0 & x1 & x2 & x3 & a & t & Hb & Ha).
  rewrite Hb in *. set (len := lenN _) in *. clearbody len.
  assert (Hid : udp_id the_env
            ([128 + (len / 16777216) mod 256; (len / 65536) mod 256; (len / 256) mod 256; len mod 256] ++
             [x0; x1; x2; x3; 0; 0; 0; 1; 0; 0; 0; 0; 0; 0; 0; 0; 0; 0; 0; 0; 0; 0; 0; a] ++ t) = None).
  { apply in_none. apply (id_open _ _ v_rpct_out _ Hok).
    cbv [pat_rpct_out ANYS LITS repeat map]. cbn [app pmatches]. repeat split; try reflexivity.
    unfold GE. apply N.leb_le. lia. }
  unfold udp_core. rewrite Hid. unfold dns_core. rewrite dns_parse_ar; [reflexivity|].
  unfold u16_at, u8_at. cbn [app nth]. lia.
Qed.

(* ---------- SMB replies ---------- *)
Lemma blobs_ok : bytes_ok (e_smb_neg the_env) = true /\ bytes_ok (e_smb_chal the_env) = true.
Proof. split; vm_compute; reflexivity. Qed.

Lemma smb1_out_shape ft p r :
  smb1_repl (e_smb_neg the_env) (e_smb_chal the_env) ft p = Ok (Some r) ->
  exists s1 s0 cmd t, r = [0; 0; s1; s0; 255; 83; 77; 66; cmd; 0; 0; 0; 0; 152] ++ t.
Proof.
  unfold smb1_repl, nbt_run. destruct (fold_res _ p _) as [s|q]; cbn [bind]; [|discriminate].
  intros H. apply nbt_repl_some in H. destruct H as (pp & r0 & _ & Er & ->).
  pose proof (hdr1_repl_len _ _ _ _ _ Er) as Hlen.
  assert (Hhi : N.land (N.shiftr (N.land (lenN r0) 131071 mod W32) 16) 255 = 0).
  { unfold lenN. destruct Hlen as [L|L]; rewrite L; vm_compute; reflexivity. }
  rewrite Hhi. clear Hhi Hlen.
  unfold hdr1_repl in Er. destruct (h1_pay pp) as [py|]; [|discriminate].
  destruct (pay1_repl _ _ _ py) as [body|]; [|discriminate].
  apply some_inj in Er. subst r0.
  unfold SMB1_MAGIC, be16. change (le32 0) with [0; 0; 0; 0]. cbn [app].
  eexists _, _, _, _. reflexivity.
Qed.

Lemma smb2_out_shape ft p r : bytes_ok p = true ->
  smb2_repl (e_smb_neg the_env) (e_smb_chal the_env) ft p = Ok (Some r) ->
  exists s1 s0 c0 c1 t,
    r = [0; 0; s1; s0; 254; 83; 77; 66; 64; 0; 0; 0; 0; 0; 0; 0; c0; c1; 1; 0; 1; 0; 0; 0] ++ t.
Proof.
  intros Hd. unfold smb2_repl.
  destruct (nbt_run_ok hdr2 hdr2_new hdr2_byte (hdr2_repl (e_smb_neg the_env) (e_smb_chal the_env) ft)
              inv_h2 inv_h2_new hdr2_step p Hd) as (s & _ & Is & ->).
  intros H. apply nbt_repl_some in H. destruct H as (pp & r0 & Ep & Er & ->).
  unfold inv_nb in Is. rewrite Ep in Is.
  pose proof (hdr2_repl_len _ _ _ _ _ Is Er) as Hlen.
  assert (Hhi : N.land (N.shiftr (N.land (lenN r0) 131071 mod W32) 16) 255 = 0).
  { unfold lenN. destruct Hlen as [L|L]; rewrite L; vm_compute; reflexivity. }
  rewrite Hhi. clear Hhi Hlen.
  unfold hdr2_repl in Er. destruct (h2_pay pp) as [py|]; [|discriminate].
  destruct (pay2_repl _ _ _ py) as [body|]; [|discriminate].
  apply some_inj in Er. subst r0.
  unfold SMB2_MAGIC, be16.
  change (le16 64) with [64; 0]. change (le16 0) with [0; 0]. change (le32 0) with [0; 0; 0; 0].
  change (le16 1) with [1; 0]. change (le32 1) with [1; 0; 0; 0]. unfold le16. cbn [app].
  eexists _, _, _, _, _. reflexivity.
Qed.

Lemma in_one (x y : option N) : In x [y] -> x = y.
Proof. intros [H|[]]. symmetry. exact H. Qed.

Lemma smb1_out_quiet clk ft p r : bytes_ok p = true ->
  smb1_repl (e_smb_neg the_env) (e_smb_chal the_env) ft p = Ok (Some r) -> quiet_core the_env clk r.
Proof.
  intros Hp Hs. destruct blobs_ok as [B1 B2].
  pose proof (smb1_reply_bytes _ _ _ _ _ B1 B2 Hp Hs) as Hok.
  destruct (smb1_out_shape ft p r Hs) as (s1 & s0 & cmd & t & ->).
  assert (Hid : udp_id the_env ([0; 0; s1; s0; 255; 83; 77; 66; cmd; 0; 0; 0; 0; 152] ++ t) = Some PROTO_SMB1).
  { apply in_one. apply (id_open _ _ v_smb1_out _ Hok).
    cbv [pat_smb1_out ANYS LITS repeat map]. cbn [app pmatches]. repeat split; reflexivity. }
  assert (Hty : smb1_reply_typed ([0; 0; s1; s0; 255; 83; 77; 66; cmd; 0; 0; 0; 0; 152] ++ t) = true) by reflexivity.
  unfold quiet_core, udp_core. rewrite Hid.
  set (r := _ ++ t) in *.
  change (dispatch_core the_env clk PROTO_SMB1 None r)
    with (do x <- smb1_repl (e_smb_neg the_env) (e_smb_chal the_env) (clk_filetime clk) r;
          @Ok (core * option pstate) (of_opt x, None)).
  destruct (smb1_repl _ _ _ r) as [o|q] eqn:Hr; cbn [bind fst]; [|exact I].
  rewrite (smb1_replies_unanswered _ _ _ _ _ Hty Hr). reflexivity.
Qed.

Lemma smb2_out_quiet clk ft p r : bytes_ok p = true ->
  smb2_repl (e_smb_neg the_env) (e_smb_chal the_env) ft p = Ok (Some r) -> quiet_core the_env clk r.
Proof.
  intros Hp Hs. destruct blobs_ok as [B1 B2].
  pose proof (smb2_reply_bytes _ _ _ _ _ B1 B2 Hp Hs) as Hok.
  destruct (smb2_out_shape ft p r Hp Hs) as (s1 & s0 & c0 & c1 & t & ->).
  set (r := _ ++ t) in *.
  assert (Hid : udp_id the_env r = Some PROTO_SMB2).
  { apply in_one. apply (id_open _ _ v_smb2_out _ Hok). subst r.
    cbv [pat_smb2_out ANYS LITS repeat map]. cbn [app pmatches]. repeat split; reflexivity. }
  assert (Hty : smb2_reply_typed r = true) by reflexivity.
  unfold quiet_core, udp_core. rewrite Hid.
  change (dispatch_core the_env clk PROTO_SMB2 None r)
    with (do x <- smb2_repl (e_smb_neg the_env) (e_smb_chal the_env) (clk_filetime clk) r;
          @Ok (core * option pstate) (of_opt x, None)).
  destruct (smb2_repl _ _ _ r) as [o|q] eqn:Hr; cbn [bind fst]; [|exact I].
  rewrite (smb2_replies_unanswered _ _ _ _ _ Hty Hr). reflexivity.
Qed.

(* ---------- the first reply of a chain: whatever follows has at most one reply ---------- *)
(* responders other than HTTP / SSH / Gh0st *)
Lemma hop1_dyn clk ci p c r1 :
  ci_full ci = true -> ci_ok ci -> bytes_ok p = true ->
  In (udp_id the_env p) ids_dyn ->
  udp_core the_env clk p = Ok c -> render c ci = Some r1 -> first_ok r1.
Proof.
  intros Hf Hci Hp Hin Hc Hr.
  destruct (ci_full_inv _ Hf) as (sa & da & sp & dp & Hsa & Hda & Hsp & Hdp).
  destruct (ci_ok_parts ci sa da Hci Hsa Hda) as (S1 & D1 & D2).
  unfold udp_core in Hc. destruct (udp_id the_env p) as [i|] eqn:Hid.
  - assert (Hi : i = PROTO_STUN \/ i = PROTO_RPC_TCP \/ i = PROTO_RPC_UDP \/ i = PROTO_SMB1 \/ i = PROTO_SMB2).
    { unfold ids_dyn in Hin. cbn [In] in Hin.
      destruct Hin as [H|[H|[H|[H|[H|[H|H]]]]]]; try contradiction; inversion H; auto. }
    destruct Hi as [-> | [-> | [-> | [-> | ->]]]].
    + (* STUN *)
      change (dispatch_core the_env clk PROTO_STUN None p)
        with (@Ok (core * option pstate) (stun_core p, None)) in Hc.
      cbn [bind fst] in Hc. inversion Hc; subst c. clear Hc.
      destruct (stun_core_inv p) as [E | (chg & E & Hl)]; rewrite E in Hr; cbn [render] in Hr; [discriminate|].
      rewrite Hsa, Hsp, Hdp in Hr. apply some_inj in Hr. subst r1.
      assert (Htl : length (slice 4 16 p) = 16%nat) by (apply slice_length; lia).
      destruct (stun_out_id (slice 4 16 p) sa sp Htl (bytes_ok_slice _ _ _ Hp) S1) as [Hok Hn].
      right. split; assumption.
    + (* ONC-RPC, record layout *)
      change (dispatch_core the_env clk PROTO_RPC_TCP None p)
        with (let s' := rpc_parse (rpc_new R_FRAG) p in
              if r_state s' =? R_END
              then @Ok (core * option pstate) ((if r_mtype s' =? 0 then CRpc s' true else CSilent), Some (PRpc (rpc_new R_FRAG)))
              else Ok (CSilent, Some (PRpc s'))) in Hc.
      cbv zeta in Hc.
      destruct (r_state _ =? R_END); [|inversion Hc; subst c; discriminate Hr].
      destruct (r_mtype _ =? 0); [|inversion Hc; subst c; discriminate Hr].
      cbn [bind fst] in Hc. inversion Hc; subst c. clear Hc. cbn [render] in Hr. rewrite Hda, Hdp in Hr.
      apply some_inj in Hr. subst r1.
      left. intros clk'. unfold quiet_core. rewrite (rpct_out_silent clk' _ da dp D2). reflexivity.
    + (* ONC-RPC, datagram layout *)
      change (dispatch_core the_env clk PROTO_RPC_UDP None p)
        with (@Ok (core * option pstate)
                ((if (r_state (rpc_parse (rpc_new R_XID) p) =? R_END) && (r_mtype (rpc_parse (rpc_new R_XID) p) =? 0)
                  then CRpc (rpc_parse (rpc_new R_XID) p) false else CSilent), None)) in Hc.
      cbn [bind fst] in Hc. inversion Hc; subst c. clear Hc.
      destruct (_ && _); [|discriminate Hr]. cbn [render] in Hr. rewrite Hda, Hdp in Hr.
      apply some_inj in Hr. subst r1. cbn [render_rpc].
      destruct (rpcu_out_id (rpc_parse (rpc_new R_XID) p) da dp D2) as [Hok Hn].
      right. split; assumption.
    + (* SMB1 *)
      change (dispatch_core the_env clk PROTO_SMB1 None p)
        with (do x <- smb1_repl (e_smb_neg the_env) (e_smb_chal the_env) (clk_filetime clk) p;
              @Ok (core * option pstate) (of_opt x, None)) in Hc.
      destruct (smb1_repl _ _ _ p) as [o|q] eqn:Hs; cbn [bind fst] in Hc; [|discriminate].
      inversion Hc; subst c. clear Hc. destruct o as [r|]; [|discriminate Hr]. cbn [of_opt render] in Hr.
      apply some_inj in Hr. subst r1. left. intros clk'. exact (smb1_out_quiet clk' _ p r Hp Hs).
    + (* SMB2 *)
      change (dispatch_core the_env clk PROTO_SMB2 None p)
        with (do x <- smb2_repl (e_smb_neg the_env) (e_smb_chal the_env) (clk_filetime clk) p;
              @Ok (core * option pstate) (of_opt x, None)) in Hc.
      destruct (smb2_repl _ _ _ p) as [o|q] eqn:Hs; cbn [bind fst] in Hc; [|discriminate].
      inversion Hc; subst c. clear Hc. destruct o as [r|]; [|discriminate Hr]. cbn [of_opt render] in Hr.
      apply some_inj in Hr. subst r1. left. intros clk'. exact (smb2_out_quiet clk' _ p r Hp Hs).
  - (* the DNS fallback *)
    inversion Hc; subst c. clear Hc. unfold dns_core in Hr.
    destruct (dns_parse p) as [m|] eqn:Hm; [|discriminate Hr].
    destruct (32768 <=? d_flags m); [discriminate Hr|].
    destruct (forallb _ (d_qd m)) eqn:Hfa; [|discriminate Hr].
    cbn [render] in Hr. rewrite Hda in Hr. apply some_inj in Hr. subst r1.
    left. intros clk'. unfold quiet_core. rewrite (dns_out_silent clk' p m da Hp Hm Hfa D1). reflexivity.
Qed.

(* ---------- reply-typed starts are never identified as HTTP, SSH or Gh0st ---------- *)
Lemma reply_typed_ids p : bytes_ok p = true -> udp_reply_typed p = true -> In (udp_id the_env p) ids_dyn.
Proof.
  intros Hp Ht. unfold udp_reply_typed in Ht.
  apply orb_true_iff in Ht. destruct Ht as [Ht|Ht]; [apply orb_true_iff in Ht; destruct Ht as [Ht|Ht]|].
  - (* DNS response: byte 2 >= 0x80 *)
    unfold dns_response_typed in Ht. apply andb_true_iff in Ht. destruct Ht as [Hl Hb].
    destruct p as [|a [|b [|c t]]]; cbn [length] in Hl; try discriminate Hl.
    apply (id_open _ _ v_start_dns _ Hp). unfold pat_start_dns. cbn [pmatches].
    repeat split; try reflexivity. exact Hb.
  - (* STUN: byte 0 < 0x40 *)
    apply andb_true_iff in Ht. destruct Ht as [Hs Hb].
    unfold stun_nonrequest_typed in Hs. apply andb_true_iff in Hs. destruct Hs as [Hl _].
    destruct p as [|a t]; cbn [length] in Hl; [discriminate Hl|].
    apply (id_open _ _ v_start_stun _ Hp). unfold pat_start_stun. cbn [pmatches]. split; [exact Hb | exact I].
  - (* ONC-RPC reply: bytes 4..7 = 00 00 00 01 *)
    unfold rpc_reply_typed_udp in Ht. apply andb_true_iff in Ht. destruct Ht as [Hl Hb].
    destruct p as [|a [|b [|c [|d [|e [|f [|g [|h t]]]]]]]]; cbn [length] in Hl; try discriminate Hl.
    assert (He : e < 256) by exact (bytes_ok_nth_lt _ 4 Hp).
    assert (Hf : f < 256) by exact (bytes_ok_nth_lt _ 5 Hp).
    assert (Hg : g < 256) by exact (bytes_ok_nth_lt _ 6 Hp).
    assert (Hh : h < 256) by exact (bytes_ok_nth_lt _ 7 Hp).
    unfold u32_at, u16_at, u8_at in Hb. cbn [nth] in Hb. apply N.eqb_eq in Hb.
    assert (e = 0 /\ f = 0 /\ g = 0 /\ h = 1) as (-> & -> & -> & ->) by lia.
    apply (id_open _ _ v_start_rpc _ Hp).
    cbv [pat_start_rpc ANYS LITS repeat map]. cbn [app pmatches]. repeat split; reflexivity.
Qed.

(* ---------- the bound ---------- *)
Definition chain_bound_ok_stmt (E : env) : Prop :=
  forall clk ci n p, ci_full ci = true -> ci_ok ci -> bytes_ok p = true ->
    udp_reply_typed p = true -> (length (app_chain E clk ci n p) <= 2)%nat.

Lemma chain_from_ids clk ci n p :
  ci_full ci = true -> ci_ok ci -> bytes_ok p = true -> In (udp_id the_env p) ids_dyn ->
  (length (app_chain the_env clk ci n p) <= 2)%nat.
Proof.
  intros Hf Hci Hp Hin. destruct n as [|n]; [cbn; lia|]. rewrite chain_step by exact Hf.
  destruct (udp_core the_env clk p) as [c|s] eqn:Hc; [|cbn; lia].
  destruct (render c ci) as [r1|] eqn:Hr; [|cbn; lia].
  pose proof (first_ok_le1 clk ci r1 Hf Hci (hop1_dyn clk ci p c r1 Hf Hci Hp Hin Hc Hr) n) as H. cbn [length]. lia.
Qed.

Theorem chain_bound_current : chain_bound_ok_stmt the_env.
Proof.
  intros clk ci n p Hf Hci Hp Ht. exact (chain_from_ids clk ci n p Hf Hci Hp (reply_typed_ids p Hp Ht)).
Qed.

(* per start class (the statement of the property for each protocol X) *)
Corollary chain_bound_dns clk ci n p : ci_full ci = true -> ci_ok ci -> bytes_ok p = true ->
  dns_response_typed p = true -> (length (app_chain the_env clk ci n p) <= 2)%nat.
Proof. intros Hf Hci Hp Ht. apply chain_bound_current; try assumption. unfold udp_reply_typed. rewrite Ht. reflexivity. Qed.
Corollary chain_bound_stun clk ci n p : ci_full ci = true -> ci_ok ci -> bytes_ok p = true ->
  stun_nonrequest_typed p = true -> u8_at 0 p < 64 -> (length (app_chain the_env clk ci n p) <= 2)%nat.
Proof.
  intros Hf Hci Hp Ht Hb. apply chain_bound_current; try assumption. unfold udp_reply_typed. rewrite Ht.
  apply N.ltb_lt in Hb. rewrite Hb. cbn [andb]. rewrite orb_true_r. reflexivity.
Qed.
Corollary chain_bound_rpc clk ci n p : ci_full ci = true -> ci_ok ci -> bytes_ok p = true ->
  rpc_reply_typed_udp p = true -> (length (app_chain the_env clk ci n p) <= 2)%nat.
Proof. intros Hf Hci Hp Ht. apply chain_bound_current; try assumption. unfold udp_reply_typed. rewrite Ht. apply orb_true_r. Qed.

(* ---------- any start that is not handed to the SSH or the Gh0st responder ---------- *)
Definition ids_all : list (option N) :=
  [None; Some PROTO_HTTP; Some PROTO_STUN; Some PROTO_SSH; Some PROTO_GHOST; Some PROTO_RPC_TCP; Some PROTO_RPC_UDP;
   Some PROTO_SMB1; Some PROTO_SMB2].
Lemma v_any : open_ok cur_tbl [] ids_all = true. Proof. vm_compute. reflexivity. Qed.

Definition pat_http_out : list pel := LITS (firstn 12 (e_http_pre the_env)).
Lemma v_http_out : open_ok cur_tbl pat_http_out [None] = true. Proof. vm_compute. reflexivity. Qed.

(* the 401 template is never answered *)
Lemma http_out_silent clk date : bytes_ok date = true ->
  udp_core the_env clk (e_http_pre the_env ++ date ++ e_http_post the_env) = Ok CSilent.
Proof.
  intros Hd.
  assert (Hok : bytes_ok (e_http_pre the_env ++ date ++ e_http_post the_env) = true).
  { apply bytes_ok_app_intro; [vm_compute; reflexivity|]. apply bytes_ok_app_intro; [exact Hd | vm_compute; reflexivity]. }
  assert (Hid : udp_id the_env (e_http_pre the_env ++ date ++ e_http_post the_env) = None).
  { apply in_none. apply (id_open _ _ v_http_out _ Hok).
    rewrite <- (firstn_skipn 12 (e_http_pre the_env)) at 1. rewrite <- app_assoc. apply pmatches_lits. }
  unfold udp_core. rewrite Hid. unfold dns_core. rewrite dns_parse_ar; [reflexivity|].
  unfold u16_at, u8_at. rewrite !app_nth1 by (vm_compute; lia). vm_compute. discriminate.
Qed.

Lemma hop1_http clk ci p c r1 :
  bytes_ok (clk_date clk) = true -> udp_id the_env p = Some PROTO_HTTP ->
  udp_core the_env clk p = Ok c -> render c ci = Some r1 -> first_ok r1.
Proof.
  intros Hd Hid Hc Hr. unfold udp_core in Hc. rewrite Hid in Hc.
  change (dispatch_core the_env clk PROTO_HTTP None p)
    with (do hr <- http_repl (e_http_tbl the_env) (e_http_pre the_env) (e_http_post the_env) (clk_date clk) http_new p;
          @Ok (core * option pstate) (of_opt (snd hr), Some (PHttp (fst hr)))) in Hc.
  destruct (http_repl _ _ _ _ http_new p) as [[h' o]|q] eqn:Hh; cbn [bind fst snd] in Hc; [|discriminate].
  apply ok_inj in Hc. subst c.
  destruct (http_repl_shape _ _ _ _ _ _ _ _ Hh) as [-> | ->]; cbn [of_opt render] in Hr; [discriminate|].
  apply some_inj in Hr. subst r1. left. intros clk'. unfold quiet_core.
  rewrite (http_out_silent clk' _ Hd). reflexivity.
Qed.

Theorem chain_bound_not_ssh_ghost clk ci n p :
  ci_full ci = true -> ci_ok ci -> bytes_ok p = true -> bytes_ok (clk_date clk) = true ->
  udp_id the_env p <> Some PROTO_SSH -> udp_id the_env p <> Some PROTO_GHOST ->
  (length (app_chain the_env clk ci n p) <= 2)%nat.
Proof.
  intros Hf Hci Hp Hd N3 N4.
  pose proof (id_open _ _ v_any p Hp I) as Hin. unfold ids_all in Hin. cbn [In] in Hin.
  destruct Hin as [H|[H|Hin]].
  - apply chain_from_ids; try assumption. rewrite <- H. unfold ids_dyn. cbn [In]. auto.
  - (* HTTP *)
    destruct n as [|n]; [cbn; lia|]. rewrite chain_step by exact Hf.
    destruct (udp_core the_env clk p) as [c|s] eqn:Hc; [|cbn; lia].
    destruct (render c ci) as [r1|] eqn:Hr; [|cbn; lia].
    pose proof (first_ok_le1 clk ci r1 Hf Hci (hop1_http clk ci p c r1 Hd (eq_sym H) Hc Hr) n) as X.
    cbn [length]. lia.
  - apply chain_from_ids; try assumption. unfold ids_dyn. cbn [In].
    destruct Hin as [H|[H|[H|[H|[H|[H|[H|H]]]]]]]; try contradiction; try (rewrite <- H; auto 10; fail);
      exfalso; (apply N3 + apply N4); symmetry; exact H.
Qed.

(* ---------- whole frames: whoever sends the emitted payloads back, from whatever address
   and port, at whatever time: the third datagram gets no application reply ---------- *)
From MS Require Import L2 Spec.View Spec.RefDec Proofs.Lift Proofs.C06 Proofs.C12Refute.

Lemma frame_core cfg clk tb f v tb' r evs :
  cfg_ok cfg = true -> bytes_ok f = true -> view_udp cfg f = Some v ->
  reply the_env cfg clk tb f = Ok (tb', r, evs) ->
  bytes_ok (skipn 8 (v_l4 v)) = true /\ ci_ok (udp_ci f v) /\
  exists c, udp_core the_env clk (skipn 8 (v_l4 v)) = Ok c /\ udp_resp r = Some (render c (udp_ci f v)).
Proof.
  intros Hcfg Hf Hvu Hr.
  destruct (udp_lift _ _ _ _ _ _ _ _ _ Hcfg Hf Hvu Hr) as (_ & ci' & out & Hpr & Hresp & _).
  destruct (Lift.view_udp_view _ _ _ Hvu) as (Hv & _ & _).
  split; [apply bytes_ok_skipn; exact (view_l4_ok _ _ _ Hf Hv)|].
  split; [exact (udp_ci_ok _ _ _ Hf Hv)|].
  pose proof (udp_context_free the_env clk (skipn 8 (v_l4 v)) (udp_ci f v) (udp_ci_full f v)) as A.
  destruct (udp_core the_env clk (skipn 8 (v_l4 v))) as [c|q].
  - destruct A as (x & A & _). rewrite Hpr in A. apply ok_inj in A. apply pair_inj in A. destruct A as [_ ->].
    exists c. split; [reflexivity | exact Hresp].
  - rewrite Hpr in A. discriminate.
Qed.

Theorem frame_chain_bound cfg clk0 clk1 clk2 tb0 tb1 tb2 f0 f1 f2 v0 v1 v2 tb0' tb1' tb2' r0 r1 r2 e0 e1 e2 d0 d1 :
  cfg_ok cfg = true -> bytes_ok f0 = true -> bytes_ok f1 = true -> bytes_ok f2 = true ->
  view_udp cfg f0 = Some v0 -> view_udp cfg f1 = Some v1 -> view_udp cfg f2 = Some v2 ->
  udp_reply_typed (skipn 8 (v_l4 v0)) = true ->
  reply the_env cfg clk0 tb0 f0 = Ok (tb0', r0, e0) -> udp_resp r0 = Some (Some d0) -> skipn 8 (v_l4 v1) = d0 ->
  reply the_env cfg clk1 tb1 f1 = Ok (tb1', r1, e1) -> udp_resp r1 = Some (Some d1) -> skipn 8 (v_l4 v2) = d1 ->
  reply the_env cfg clk2 tb2 f2 = Ok (tb2', r2, e2) -> udp_resp r2 = Some None.
Proof.
  intros Hcfg Hf0 Hf1 Hf2 Hv0 Hv1 Hv2 Ht R0 D0 P1 R1 D1 P2 R2.
  destruct (frame_core _ _ _ _ _ _ _ _ Hcfg Hf0 Hv0 R0) as (B0 & C0 & c0 & K0 & X0).
  destruct (frame_core _ _ _ _ _ _ _ _ Hcfg Hf1 Hv1 R1) as (B1 & C1 & c1 & K1 & X1).
  destruct (frame_core _ _ _ _ _ _ _ _ Hcfg Hf2 Hv2 R2) as (B2 & C2 & c2 & K2 & X2).
  rewrite D0 in X0. apply some_inj in X0. symmetry in X0.
  rewrite D1 in X1. apply some_inj in X1. symmetry in X1.
  rewrite P1 in K1. rewrite P2 in K2.
  pose proof (hop1_dyn clk0 _ _ c0 d0 (udp_ci_full f0 v0) C0 B0 (reply_typed_ids _ B0 Ht) K0 X0) as F1.
  pose proof (first_ok_next clk1 _ d0 c1 d1 (udp_ci_full f1 v1) C1 F1 K1 X1 clk2) as Q.
  unfold quiet_core in Q. rewrite K2 in Q. subst c2. exact X2.
Qed.

(* ---------- why the context must carry octets: [chain_bound_stmt] as stated ---------- *)
Definition junk_ci : cinfo :=
  {| ci_mac_src := Some [1; 2; 3; 4; 5; 6]; ci_mac_dst := Some [1; 2; 3; 4; 5; 7];
     ci_ip_src := Some (V4 [256; 71; 104; 48; 115; 116]); ci_ip_dst := Some (V4 [10; 0; 0; 1]);
     ci_transport := Some 17; ci_port_src := Some 40000; ci_port_dst := Some 3478; ci_cookie := None |}.

(* a context whose source "address" is the list 256 'G' 'h' '0' 's' 't': the STUN response to
   [w_two] carries it as MAPPED-ADDRESS; the table model reads the value 256 as the start
   anchor, restarts, and identifies Gh0st: an artefact of contexts no frame can produce *)
Lemma junk_context_bounces :
  ci_full junk_ci = true /\ bytes_ok w_two = true /\ lenN w_two <= 4096 /\ udp_reply_typed w_two = true /\
  length (app_chain the_env x_clk junk_ci 5 w_two) = 5%nat.
Proof. vm_compute. repeat split; try reflexivity. discriminate. Qed.

Theorem chain_bound_stmt_needs_octets : ~ chain_bound_stmt the_env.
Proof.
  intros H. destruct junk_context_bounces as (A & B & C & D & E).
  specialize (H x_clk junk_ci 5%nat w_two A B C D). rewrite E in H. lia.
Qed.

(* ---------- non-vacuity and the families of chains of length two ---------- *)
Lemma x_ci_ok : ci_full x_ci = true /\ ci_ok x_ci.
Proof. split; [reflexivity|]. split; split; (reflexivity || (cbn; lia)). Qed.

(* RPC-reply-typed start that is a STUN request: STUN response, then a DNS header *)
Lemma chain2_rpc_stun_dns :
  rpc_reply_typed_udp w_two = true /\ bytes_ok w_two = true /\ length (x_chain 8 w_two) = 2%nat.
Proof. vm_compute. repeat split; reflexivity. Qed.

(* STUN-typed start (an indication-like first byte pair 01 10 ...) that is an ONC-RPC call in
   datagram layout with xid 01 10 00 00: RPC reply, then the DNS fallback answers the reply
   (QDCOUNT 0, ANCOUNT 1, one well-formed record) with a bare header *)
Definition w_stun_rpc : bytes :=
  [1; 16; 0; 0; 0; 0; 0; 0; 0; 0; 0; 2; 0; 1; 134; 160; 0; 0; 0; 2; 0; 0; 0; 0;
   0; 0; 0; 0; 0; 0; 0; 0; 0; 0; 0; 0; 0; 0; 0; 0].
Lemma chain2_stun_rpc_dns :
  stun_nonrequest_typed w_stun_rpc = true /\ u8_at 0 w_stun_rpc < 64 /\ bytes_ok w_stun_rpc = true /\
  x_chain 8 w_stun_rpc =
    [[1; 16; 0; 0; 0; 0; 0; 1; 0; 0; 0; 0; 0; 0; 0; 0; 0; 0; 0; 0; 0; 0; 0; 0];
     [1; 16; 132; 0; 0; 0; 0; 0; 0; 0; 0; 0]].
Proof. vm_compute. repeat split; reflexivity. Qed.

(* DNS-typed start (QR = 1 in byte 2) that is an ONC-RPC call with xid 12 34 80 00: one reply
   (the RPC reply echoes the xid, so it is DNS-typed as well and the fallback is silent) *)
Definition w_dns_rpc : bytes :=
  [18; 52; 128; 0; 0; 0; 0; 0; 0; 0; 0; 2; 0; 1; 134; 160; 0; 0; 0; 2; 0; 0; 0; 0;
   0; 0; 0; 0; 0; 0; 0; 0; 0; 0; 0; 0; 0; 0; 0; 0].
Lemma chain1_dns_rpc :
  dns_response_typed w_dns_rpc = true /\ bytes_ok w_dns_rpc = true /\ length (x_chain 8 w_dns_rpc) = 1%nat.
Proof. vm_compute. repeat split; reflexivity. Qed.

(* ---------- TCP: reply-typed first data segments of a flow ---------- *)
Lemma tcp_id_open pat allowed : open_ok_tcp cur_tbl pat allowed = true ->
  forall p, bytes_ok p = true -> pmatches pat p -> In (tcp_first_id the_env p) (None :: allowed).
Proof.
  intros H p Hp Hm. rewrite tcp_first_id_tbl_eq.
  exact (open_sound_tcp cur_tbl cur_smack_ok cur_pre pat allowed H p Hp Hm).
Qed.

Lemma tcp_unidentified_silent clk p : tcp_first_id the_env p = None -> tcp_first_core the_env clk p = Ok CSilent.
Proof. intros H. unfold tcp_first_core. rewrite H. reflexivity. Qed.

Definition pat_tcp_smb1_typed : list pel :=
  ANYS 4 ++ LITS [255; 83; 77; 66] ++ ANYS 5 ++ [fun b => testbit b 128].
Definition pat_tcp_smb2_typed : list pel :=
  ANYS 4 ++ LITS [254; 83; 77; 66] ++ ANYS 12 ++ [fun b => testbit b 1].
Lemma v_tcp_smb1_typed : open_ok_tcp cur_tbl pat_tcp_smb1_typed [Some PROTO_SMB1] = true.
Proof. vm_compute. reflexivity. Qed.
Lemma v_tcp_smb2_typed : open_ok_tcp cur_tbl pat_tcp_smb2_typed [Some PROTO_SMB2; Some PROTO_RPC_TCP] = true.
Proof. vm_compute. reflexivity. Qed.

Lemma bytes_eqb_eq a : forall b, bytes_eqb a b = true -> a = b.
Proof.
  induction a as [|x a IH]; intros [|y b] H; cbn [bytes_eqb] in H; try discriminate; [reflexivity|].
  apply andb_true_iff in H. destruct H as [H1 H2]. apply N.eqb_eq in H1. subst y. f_equal. apply IH, H2.
Qed.

Lemma own_silent_tcp clk p c i : bytes_ok p = true -> tcp_first_core the_env clk p = Ok c ->
  tcp_first_id the_env p = Some i -> reply_typed_for i p = true -> c = CSilent.
Proof.
  intros Hp Hc Hid Ht. apply (tcp_first_core_own_silent the_env clk p c Hp Hc).
  unfold responder_of. rewrite Hid. exact Ht.
Qed.

(* an SMB1 message with the reply flag: identified as SMB1 or not at all; no payload *)
Theorem tcp_first_smb1_reply_silent clk p c : bytes_ok p = true -> smb1_reply_typed p = true ->
  tcp_first_core the_env clk p = Ok c -> c = CSilent.
Proof.
  intros Hp Ht Hc. pose proof Ht as Ht0. unfold smb1_reply_typed in Ht.
  apply andb_true_iff in Ht. destruct Ht as [Ht Hbit]. apply andb_true_iff in Ht. destruct Ht as [Hl Hm].
  destruct p as [|n0 [|n1 [|n2 [|n3 [|m0 [|m1 [|m2 [|m3 [|c0 [|s0 [|s1 [|s2 [|s3 [|fl t]]]]]]]]]]]]]];
    cbn [length] in Hl; try discriminate Hl.
  unfold slice in Hm. cbn [skipn firstn] in Hm. apply bytes_eqb_eq in Hm. inversion Hm; subst m0 m1 m2 m3.
  unfold u8_at in Hbit. cbn [nth] in Hbit.
  assert (Hin : In (tcp_first_id the_env (n0 :: n1 :: n2 :: n3 :: 255 :: 83 :: 77 :: 66 :: c0 :: s0 :: s1 :: s2 :: s3 :: fl :: t))
                   [None; Some PROTO_SMB1]).
  { apply (tcp_id_open _ _ v_tcp_smb1_typed _ Hp).
    cbv [pat_tcp_smb1_typed ANYS LITS repeat map]. cbn [app pmatches]. repeat split; try reflexivity. exact Hbit. }
  cbn [In] in Hin. destruct Hin as [H|[H|[]]]; symmetry in H.
  - rewrite (tcp_unidentified_silent clk _ H) in Hc. apply ok_inj in Hc. symmetry. exact Hc.
  - apply (own_silent_tcp clk _ c PROTO_SMB1 Hp Hc H). unfold reply_typed_for. rewrite Ht0. reflexivity.
Qed.

(* an SMB2 message with the response flag: silent, unless its leading bytes are an ONC-RPC
   call in record layout whose xid is fe 'S' 'M' 'B' (a request of another protocol) *)
Theorem tcp_first_smb2_reply clk p c : bytes_ok p = true -> smb2_reply_typed p = true ->
  tcp_first_core the_env clk p = Ok c -> c = CSilent \/ tcp_first_id the_env p = Some PROTO_RPC_TCP.
Proof.
  intros Hp Ht Hc. pose proof Ht as Ht0. unfold smb2_reply_typed in Ht.
  apply andb_true_iff in Ht. destruct Ht as [Ht Hbit]. apply andb_true_iff in Ht. destruct Ht as [Hl Hm].
  destruct p as [|n0 [|n1 [|n2 [|n3 [|m0 [|m1 [|m2 [|m3 [|a0 [|a1 [|a2 [|a3 [|a4 [|a5 [|a6 [|a7 [|a8 [|a9 [|a10 [|a11 [|fl t]]]]]]]]]]]]]]]]]]]]];
    cbn [length] in Hl; try discriminate Hl.
  unfold slice in Hm. cbn [skipn firstn] in Hm. apply bytes_eqb_eq in Hm. inversion Hm; subst m0 m1 m2 m3.
  unfold u8_at in Hbit. cbn [nth] in Hbit.
  set (p := n0 :: _) in *.
  assert (Hin : In (tcp_first_id the_env p) [None; Some PROTO_SMB2; Some PROTO_RPC_TCP]).
  { apply (tcp_id_open _ _ v_tcp_smb2_typed _ Hp). subst p.
    cbv [pat_tcp_smb2_typed ANYS LITS repeat map]. cbn [app pmatches]. repeat split; try reflexivity. exact Hbit. }
  cbn [In] in Hin. destruct Hin as [H|[H|[H|[]]]]; symmetry in H.
  - left. rewrite (tcp_unidentified_silent clk _ H) in Hc. apply ok_inj in Hc. symmetry. exact Hc.
  - left. apply (own_silent_tcp clk _ c PROTO_SMB2 Hp Hc H). unfold reply_typed_for. rewrite Ht0.
    rewrite !orb_true_r. reflexivity.
  - right. exact H.
Qed.

(* an ONC-RPC record whose message type is REPLY: silent, unless identified as a request of
   another protocol *)
Theorem tcp_first_rpc_reply clk p c : bytes_ok p = true -> rpc_reply_typed_tcp p = true ->
  tcp_first_core the_env clk p = Ok c ->
  c = CSilent \/ exists i, tcp_first_id the_env p = Some i /\ i <> PROTO_RPC_TCP.
Proof.
  intros Hp Ht Hc. destruct (tcp_first_id the_env p) as [i|] eqn:Hid.
  - destruct (N.eqb_spec i PROTO_RPC_TCP) as [->|Hne].
    + left. apply (own_silent_tcp clk _ c PROTO_RPC_TCP Hp Hc Hid). unfold reply_typed_for. rewrite Ht.
      rewrite !orb_true_r. reflexivity.
    + right. exists i. split; [reflexivity | exact Hne].
  - left. rewrite (tcp_unidentified_silent clk _ Hid) in Hc. apply ok_inj in Hc. symmetry. exact Hc.
Qed.

(* observed: an SMB2-response-typed first segment that is an RPC call with xid fe534d42 gets an
   RPC reply; an RPC-record-reply-typed first segment that is an SSH identification string
   gets the banner (the SSH / Gh0st level note) *)
Definition w_tcp_smb2_rpc : bytes :=
  [128; 0; 0; 40; 254; 83; 77; 66; 0; 0; 0; 0; 0; 0; 0; 2; 0; 1; 134; 160; 1; 0; 0; 2; 0; 0; 0; 0;
   0; 0; 0; 0; 0; 0; 0; 0; 0; 0; 0; 0; 0; 0; 0; 0].
Definition w_tcp_rpc_ssh : bytes := [83; 83; 72; 45; 50; 46; 48; 45; 0; 0; 0; 1; 13; 10].
Lemma tcp_other_protocol_observed :
  smb2_reply_typed w_tcp_smb2_rpc = true /\ tcp_first_id the_env w_tcp_smb2_rpc = Some PROTO_RPC_TCP /\
  (match tcp_first_core the_env x_clk w_tcp_smb2_rpc with Ok (CRpc _ true) => true | _ => false end) = true /\
  rpc_reply_typed_tcp w_tcp_rpc_ssh = true /\ tcp_first_id the_env w_tcp_rpc_ssh = Some PROTO_SSH /\
  tcp_first_core the_env x_clk w_tcp_rpc_ssh = Ok (CConst (e_ssh_banner the_env)).
Proof. vm_compute. repeat split; reflexivity. Qed.

(* ---------- the frame-level monitor of Spec/C12chain.v ---------- *)
From MS Require Import Spec.C12chain.

Lemma chain_start_is p : chain_start p = udp_reply_typed p.
Proof. reflexivity. Qed.

Lemma resp_is_some r e : resp_is r (Some e) = true -> udp_resp r = Some (Some e).
Proof.
  unfold resp_is. destruct (udp_resp r) as [[d|]|]; try discriminate.
  intros H. apply bytes_eqb_eq in H. subst d. reflexivity.
Qed.

Theorem frame_chain_monitor cfg clk0 clk1 clk2 tb0 tb1 tb2 f0 f1 f2 tb0' tb1' tb2' r0 r1 r2 e0 e1 e2 :
  cfg_ok cfg = true -> bytes_ok f0 = true -> bytes_ok f1 = true -> bytes_ok f2 = true ->
  reply the_env cfg clk0 tb0 f0 = Ok (tb0', r0, e0) ->
  reply the_env cfg clk1 tb1 f1 = Ok (tb1', r1, e1) ->
  reply the_env cfg clk2 tb2 f2 = Ok (tb2', r2, e2) ->
  ok_C12chain_udp cfg f0 r0 f1 r1 f2 r2 = true.
Proof.
  intros Hcfg Hf0 Hf1 Hf2 R0 R1 R2. unfold ok_C12chain_udp, udp_req.
  destruct (view_udp cfg f0) as [v0|] eqn:Hv0; [|reflexivity].
  destruct (view_udp cfg f1) as [v1|] eqn:Hv1; [|reflexivity].
  destruct (view_udp cfg f2) as [v2|] eqn:Hv2; [|reflexivity].
  destruct (chain_start _) eqn:Hs; [|reflexivity].
  destruct (resp_is r0 _) eqn:H0; [|reflexivity].
  destruct (resp_is r1 _) eqn:H1; [|reflexivity]. cbn [andb].
  apply resp_is_some in H0. apply resp_is_some in H1. rewrite chain_start_is in Hs.
  pose proof (frame_chain_bound cfg clk0 clk1 clk2 tb0 tb1 tb2 f0 f1 f2 v0 v1 v2 tb0' tb1' tb2' r0 r1 r2 e0 e1 e2
                _ _ Hcfg Hf0 Hf1 Hf2 Hv0 Hv1 Hv2 Hs R0 H0 eq_refl R1 H1 eq_refl R2) as X.
  unfold resp_is. rewrite X. reflexivity.
Qed.

(* the payload-level monitor on the chain the model produces *)
Fixpoint chain_outs (clk : clock) (ci : cinfo) (n : nat) (p : bytes) : list (option bytes) :=
  match n with
  | O => []
  | S k => match proto_repl_udp the_env clk ci p with
           | Ok (_, Some r) => Some r :: chain_outs clk ci k r
           | _ => [None]
           end
  end.

Lemma chain_outs_count clk ci n p :
  replies_before_silence (chain_outs clk ci n p) = length (app_chain the_env clk ci n p).
Proof.
  revert p. induction n as [|n IH]; intros p; [reflexivity|]. cbn [chain_outs app_chain].
  destruct (proto_repl_udp the_env clk ci p) as [[ci' [r|]]|s]; try reflexivity.
  cbn [replies_before_silence length]. f_equal. apply IH.
Qed.

Theorem chain_payload_monitor clk ci n p : ci_full ci = true -> ci_ok ci -> bytes_ok p = true ->
  ok_C12chain_payloads p (chain_outs clk ci n p) = true.
Proof.
  intros Hf Hci Hp. unfold ok_C12chain_payloads. rewrite chain_start_is.
  destruct (udp_reply_typed p) eqn:Ht; [|reflexivity].
  rewrite chain_outs_count. apply Nat.leb_le. exact (chain_bound_current clk ci n p Hf Hci Hp Ht).
Qed.
