(* C11Rpc.v -- C11, ONC-RPC half, made concrete on serialised calls: on a flow
   whose stream is identified as RPC (in whichever segment), the first call of the stream
   (record mark, call, anything after it) is answered exactly by the segment
   that contains stream byte number 44 + |credentials| (the last byte of the
   verifier-length word when the credentials are 4-byte aligned), whatever the
   cuts; the segments before it carry nothing; the reply is a function of the
   call and of the contacted endpoint only; afterwards the flow's parser is
   fresh, so the remaining segments are treated as a new stream (bytes that
   follow the call inside the completing segment are dropped). Builds on
   Proofs/C11.v ([rpc_stream], [rpc_outs_stream]). *)
From MS Require Import Proofs.Tactics Rpc Proto Spec.RefXdr Spec.C16 Spec.AppView Spec.C11
  Proofs.C11 Proofs.C16Xdr Proofs.C16Parse Proofs.C16Reply.

(* stream offset at which the first call is complete, record mark included *)
Definition complete_at_tcp (c : rpc_call) : nat := (4 + complete_at c)%nat.

Lemma prefix_firstn {A} (a b p : list A) : a ++ b = p -> a = firstn (length a) p.
Proof. intros <-. rewrite firstn_app, Nat.sub_diag, firstn_O, app_nil_r, firstn_all. reflexivity. Qed.

(* before the completing byte the parser has not reached R_END ... *)
Lemma rpc_tcp_prefix_early (c : rpc_call) (m0 m1 m2 m3 : N) (tail : bytes) (n : nat) :
  call_wf c = true -> (n < complete_at_tcp c)%nat ->
  r_state (rpc_parse (rpc_new R_FRAG) (firstn n ([m0; m1; m2; m3] ++ ser_call c ++ tail))) <> R_END.
Proof.
  intros Hwf Hn. unfold complete_at_tcp in Hn.
  destruct (Nat.lt_ge_cases n 4) as [Hlt | Hge].
  - apply need_end.
    pose proof (need_parse (firstn n ([m0; m1; m2; m3] ++ ser_call c ++ tail)) (rpc_new R_FRAG)) as H.
    change (need (rpc_new R_FRAG)) with 44 in H. rewrite firstn_length in H. lia.
  - rewrite firstn_app. cbn [length]. rewrite (firstn_all2 [m0; m1; m2; m3]) by (cbn [length]; lia).
    cbn [app]. rewrite parse_frag.
    apply (rpc_parse_truncated 0 c tail (n - 4) eq_refl Hwf). lia.
Qed.

(* ... and from it on it has, with the call's fields *)
Lemma rpc_tcp_prefix_late (c : rpc_call) (m0 m1 m2 m3 : N) (tail : bytes) (n : nat) :
  call_wf c = true -> (complete_at_tcp c <= n)%nat ->
  end_like 0 c (rpc_parse (rpc_new R_FRAG) (firstn n ([m0; m1; m2; m3] ++ ser_call c ++ tail))).
Proof.
  intros Hwf Hn. unfold complete_at_tcp in Hn.
  rewrite firstn_app. cbn [length]. rewrite (firstn_all2 [m0; m1; m2; m3]) by (cbn [length]; lia).
  cbn [app]. rewrite parse_frag.
  apply (rpc_parse_complete 0 c tail (n - 4) eq_refl Hwf). lia.
Qed.

(* the reply to the first call, as bytes: a function of the call and the endpoint *)
Definition first_reply (ip : ipaddr) (port : N) (c : rpc_call) : bytes :=
  let r := enc_reply (expected_reply_at ip port c) in record_mark (lenN r) ++ r.

Lemma first_reply_decodes (ip : ipaddr) (port : N) (c : rpc_call) :
  call_wf c = true -> ep_ok ip port ->
  exists r, first_reply ip port c = record_mark (lenN r) ++ r /\
            strip_mark (first_reply ip port c) = Some r /\
            dec_reply (result_kind c) r = Some (expected_reply_at ip port c) /\
            (length r mod 4 = 0)%nat.
Proof.
  intros Hwf Hep. exists (enc_reply (expected_reply_at ip port c)). split; [reflexivity|].
  (* reuse the handler theorem on the call alone *)
  destruct (rpc_parse_call c [] Hwf) as (Hst & Hx & Hp & Hv & Hc & Hmt).
  pose proof (rpc_build_enc _ ip port c Hx Hp Hv Hc) as Henc.
  pose proof (rpc_build_decodes _ ip port c Hwf Hep Hx Hp Hv Hc) as [Hdec Hal].
  rewrite Henc in Hdec, Hal. split; [|split; assumption].
  apply strip_mark_record.
  destruct Hep as [Hip _]. pose proof (rpc_build_len (rpc_parse (rpc_new R_XID) (ser_call c ++ [])) ip port Hip) as Hl.
  rewrite Henc in Hl. unfold lenN. lia.
Qed.

(* what a stream prefix gets: nothing before the completing byte, the reply from it on *)
Lemma rpc_expected_prefix (ip : ipaddr) (port : N) (c : rpc_call) (m0 m1 m2 m3 : N) (tail : bytes) (n : nat) :
  call_wf c = true -> (length (ip_octets ip) <= 16)%nat ->
  let upto := firstn n ([m0; m1; m2; m3] ++ ser_call c ++ tail) in
  if (n <? complete_at_tcp c)%nat
  then rpc_expected ip port upto = None /\ r_state (rpc_parse (rpc_new R_FRAG) upto) <> R_END
  else rpc_expected ip port upto = Some (first_reply ip port c) /\
       r_state (rpc_parse (rpc_new R_FRAG) upto) = R_END.
Proof.
  intros Hwf Hip upto. destruct (n <? complete_at_tcp c)%nat eqn:Hn.
  - apply Nat.ltb_lt in Hn. pose proof (rpc_tcp_prefix_early c m0 m1 m2 m3 tail n Hwf Hn) as H.
    fold upto in H. split; [|exact H]. unfold rpc_expected, rpc_repl_tcp.
    destruct (r_state (rpc_parse (rpc_new R_FRAG) upto) =? R_END) eqn:E; [apply N.eqb_eq in E; contradiction|].
    reflexivity.
  - apply Nat.ltb_ge in Hn.
    destruct (rpc_tcp_prefix_late c m0 m1 m2 m3 tail n Hwf Hn) as (Hst & Hx & Hp & Hv & Hc & Hmt).
    fold upto in Hst, Hx, Hp, Hv, Hc, Hmt. split; [|exact Hst].
    unfold rpc_expected. rewrite (rpc_tcp_complete _ ip port upto Hst Hmt Hip). cbn [snd].
    rewrite (rpc_build_enc _ ip port c Hx Hp Hv Hc). reflexivity.
Qed.

(* ---- any segmentation: pre ++ s :: post, the completing byte falls into s ---- *)
Lemma rpc_stream_ref_first_call (ip : ipaddr) (port : N) (c : rpc_call) (m0 m1 m2 m3 : N) (tail : bytes)
      (s : bytes) (post : list bytes) :
  call_wf c = true -> (length (ip_octets ip) <= 16)%nat ->
  forall (pre : list bytes) (acc : bytes),
    acc ++ concat (pre ++ s :: post) = [m0; m1; m2; m3] ++ ser_call c ++ tail ->
    (length acc + length (concat pre) < complete_at_tcp c)%nat ->
    (complete_at_tcp c <= length acc + length (concat pre) + length s)%nat ->
    rpc_stream_ref ip port acc (pre ++ s :: post) =
      repeat None (length pre) ++ Some (first_reply ip port c) :: rpc_outs ip port (rpc_new R_FRAG) post.
Proof.
  intros Hwf Hip. induction pre as [|x pre IH]; intros acc Hcat Hlo Hhi.
  - cbn [app concat length repeat] in *. cbn [rpc_stream_ref].
    assert (Hup : acc ++ s = firstn (length (acc ++ s)) ([m0; m1; m2; m3] ++ ser_call c ++ tail)).
    { apply (prefix_firstn _ (concat post)). rewrite <- app_assoc. exact Hcat. }
    pose proof (rpc_expected_prefix ip port c m0 m1 m2 m3 tail (length (acc ++ s)) Hwf Hip) as H.
    cbv zeta in H. rewrite <- Hup in H.
    replace (length (acc ++ s) <? complete_at_tcp c)%nat with false in H
      by (symmetry; apply Nat.ltb_ge; rewrite app_length; lia).
    destruct H as [-> ->]. change (R_END =? R_END) with true. reflexivity.
  - cbn [app concat length repeat] in *. rewrite app_length in Hlo, Hhi. cbn [rpc_stream_ref].
    assert (Hup : acc ++ x = firstn (length (acc ++ x)) ([m0; m1; m2; m3] ++ ser_call c ++ tail)).
    { apply (prefix_firstn _ (concat (pre ++ s :: post))). rewrite <- app_assoc. exact Hcat. }
    pose proof (rpc_expected_prefix ip port c m0 m1 m2 m3 tail (length (acc ++ x)) Hwf Hip) as H.
    cbv zeta in H. rewrite <- Hup in H.
    replace (length (acc ++ x) <? complete_at_tcp c)%nat with true in H
      by (symmetry; apply Nat.ltb_lt; rewrite app_length; lia).
    destruct H as [-> Hne].
    destruct (r_state (rpc_parse (rpc_new R_FRAG) (acc ++ x)) =? R_END) eqn:E; [apply N.eqb_eq in E; contradiction|].
    rewrite (IH (acc ++ x)).
    + reflexivity.
    + rewrite <- app_assoc. exact Hcat.
    + rewrite app_length. lia.
    + rewrite app_length. lia.
Qed.

(* C11 for the first RPC call of a flow, at the level of proto::repl: any list of segments,
   the cuts may fall anywhere (also inside the protocol signature) *)
Theorem rpc_first_call_segmentation (E : env) (clk : clock) (ci : cinfo) (ip : ipaddr) (port : N)
        (c : rpc_call) (m0 m1 m2 m3 : N) (tail : bytes) (pre : list bytes) (s : bytes) (post : list bytes) :
  proto_tbl_ok E = true ->
  call_wf c = true -> (length (ip_octets ip) <= 16)%nat ->
  ci_ip_dst ci = Some ip -> ci_port_dst ci = Some port ->
  concat (pre ++ s :: post) = [m0; m1; m2; m3] ++ ser_call c ++ tail ->
  bytes_ok ([m0; m1; m2; m3] ++ ser_call c ++ tail) = true ->
  tcp_first_id E ([m0; m1; m2; m3] ++ ser_call c ++ tail) = Some PROTO_RPC_TCP ->
  (length (concat pre) < complete_at_tcp c)%nat ->
  (complete_at_tcp c <= length (concat pre) + length s)%nat ->
  tcp_stream E clk ci tcb_new (pre ++ s :: post) =
    Ok (repeat None (length pre) ++ Some (first_reply ip port c) :: rpc_outs ip port (rpc_new R_FRAG) post).
Proof.
  intros Ht Hwf Hipl Hip Hport Hcat Hb Hid Hlo Hhi.
  rewrite <- Hcat in Hb, Hid.
  rewrite (rpc_stream_any E clk ci ip port _ Ht Hip Hport Hb Hid). f_equal.
  apply (rpc_stream_ref_first_call ip port c m0 m1 m2 m3 tail s post Hwf Hipl pre []); cbn [app length]; assumption.
Qed.

(* ---- after a complete message the parser is fresh ---- *)
Lemma rpc_tcp_resets (s0 : rpc_st) (ip : ipaddr) (port : N) (data : bytes) :
  r_state (rpc_parse s0 data) = R_END -> fst (rpc_repl_tcp s0 ip port data) = rpc_new R_FRAG.
Proof.
  intros H. unfold rpc_repl_tcp. rewrite H. change (R_END =? R_END) with true. cbv iota.
  destruct (r_mtype (rpc_parse s0 data) =? 0); reflexivity.
Qed.

(* two calls in two segments: both answered, each as if it were alone on the flow;
   two calls in ONE segment: [rpc_tcp_call] with the second call as [tail] -- only the
   first is answered and the bytes after it are dropped *)
Theorem rpc_two_calls_two_segments (E : env) (clk : clock) (ci : cinfo) (ip : ipaddr) (port : N)
        (c1 c2 : rpc_call) (t1 t2 : bytes) :
  call_wf c1 = true -> call_wf c2 = true -> (length (ip_octets ip) <= 16)%nat ->
  ci_ip_dst ci = Some ip -> ci_port_dst ci = Some port ->
  tcp_first_id E (ser_call_tcp c1 ++ t1) = Some PROTO_RPC_TCP ->
  tcp_stream E clk ci tcb_new [ser_call_tcp c1 ++ t1; ser_call_tcp c2 ++ t2] =
    Ok [Some (first_reply ip port c1); Some (first_reply ip port c2)].
Proof.
  intros Hwf1 Hwf2 Hipl Hip Hport Hid.
  rewrite (rpc_stream E clk ci ip port _ _ Hip Hport Hid). cbn [rpc_outs]. f_equal.
  assert (Hone : forall c t, call_wf c = true ->
            rpc_repl_tcp (rpc_new R_FRAG) ip port (ser_call_tcp c ++ t) = (rpc_new R_FRAG, Some (first_reply ip port c))).
  { intros c t Hwf. unfold ser_call_tcp, record_mark, be32. rewrite <- app_assoc.
    match goal with
    | |- rpc_repl_tcp _ _ _ ([?b0; ?b1; ?b2; ?b3] ++ _) = _ =>
      destruct (rpc_parse_msg_tcp 0 c b0 b1 b2 b3 t eq_refl Hwf) as (Hst & Hx & Hp & Hv & Hc & Hmt)
    end.
    change (ser_msg 0 c) with (ser_call c) in *.
    rewrite (rpc_tcp_complete _ ip port _ Hst Hmt Hipl).
    rewrite (rpc_build_enc _ ip port c Hx Hp Hv Hc). reflexivity. }
  rewrite (Hone c1 t1 Hwf1), (Hone c2 t2 Hwf2). reflexivity.
Qed.
