#!/usr/bin/env python3
"""seed_eval.py <seed out dir, e.g. /tmp/seed_c06_out/1> <scratch worktree, e.g. /tmp/seed_c06> <name> <check ids...>
Confirms a seeded change (tests pass with it; its demonstration fails with it and passes without it) in the scratch
worktree, then applies it to /repo, runs the given checks (quick), reverts /repo, and stores everything under
/verif/seeded/<name>/."""
import sys, os, subprocess, json, shutil, glob, time

def sh(cmd, cwd=None, env=None, timeout=1800):
    p = subprocess.run(cmd, shell=True, cwd=cwd, env=env, stdout=subprocess.PIPE, stderr=subprocess.STDOUT, text=True, timeout=timeout)
    return p.returncode, p.stdout

def main():
    out, wt, name = sys.argv[1], sys.argv[2], sys.argv[3]
    checks = sys.argv[4:]
    env = dict(os.environ, CARGO_NET_OFFLINE="true", CARGO_TARGET_DIR=wt + "/target", MASSCANNED_BIN=wt + "/target/debug/masscanned")
    patch = os.path.join(out, "patch.diff")
    meta = json.load(open(os.path.join(out, "meta.json"))) if os.path.exists(os.path.join(out, "meta.json")) else {}
    demo = next((f for f in ("demo.py", "demo.sh") if os.path.exists(os.path.join(out, f))), None)
    democmd = ("python3 " if demo.endswith(".py") else "sh ") + os.path.join(out, demo)
    build = "cargo build --offline --features verif --target-dir %s/target" % wt
    res = {"name": name, "property": meta.get("property"), "what_breaks": meta.get("what_breaks"),
           "needs_to_manifest": meta.get("needs_to_manifest"), "files_changed": meta.get("files_changed")}
    sh("git checkout -- .", cwd=wt)
    rc, o = sh("git apply " + patch, cwd=wt); assert rc == 0, o
    rc, o = sh("cargo test --offline 2>&1 | grep 'test result'", cwd=wt, env=env)
    res["tests_with_change"] = o.strip()
    sh(build, cwd=wt, env=env)
    rc1, o1 = sh(democmd, cwd=wt, env=env)
    res["demo_with_change_exit"] = rc1
    sh("git checkout -- .", cwd=wt)
    sh(build, cwd=wt, env=env)
    rc0, o0 = sh(democmd, cwd=wt, env=env)
    res["demo_without_change_exit"] = rc0
    res["confirmed"] = ("93 passed" in res["tests_with_change"]) and rc1 != 0 and rc0 == 0
    # run my checks against it
    res["checks"] = {}
    if res["confirmed"]:
        rc, o = sh("git -C /repo status --short"); assert o.strip() == "", "repo not clean: " + o
        rc, o = sh("git -C /repo apply " + patch); assert rc == 0, o
        try:
            for c in checks:
                t0 = time.time()
                rc, o = sh("./check %s --quick" % c, cwd="/verif", timeout=3600)
                lines = [l for l in o.splitlines() if l.startswith(("VIOLATION", "OK ", "KNOWN-FINDING"))]
                detail = ""
                for l in lines:
                    if l.startswith("VIOLATION") and "replay=" in l:
                        rp = l.split("replay=")[1].split()[0]
                        try:
                            d = json.load(open(rp))
                            detail = json.dumps({k: d.get(k) for k in ("kind", "broken", "note")})[:600] + " " + json.dumps(d.get("detail", {}))[:500]
                        except Exception:
                            pass
                res["checks"][c] = {"exit": rc, "lines": [l[:300] for l in lines], "wall_s": round(time.time() - t0, 1), "first_replay": detail}
        finally:
            sh("git -C /repo checkout -- .")
    d = os.path.join("/verif/seeded", name)
    os.makedirs(d, exist_ok=True)
    shutil.copy(patch, os.path.join(d, "patch.diff"))
    for f in glob.glob(os.path.join(out, "*")):
        if os.path.basename(f) not in ("patch.diff", "meta.json") and os.path.isfile(f):
            shutil.copy(f, d)
    res["ran"] = ["cargo test --offline (with change)", democmd + " (with / without change)"] + ["./check %s --quick (change applied to /repo, then reverted)" % c for c in checks]
    res["caught_by"] = [c for c, v in res["checks"].items() if v["exit"] != 0]
    json.dump(res, open(os.path.join(d, "meta.json"), "w"), indent=1)
    print(json.dumps({k: res[k] for k in ("name", "confirmed", "caught_by")}), {c: v["lines"] for c, v in res["checks"].items()})

main()
