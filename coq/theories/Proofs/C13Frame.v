(* C13Frame.v -- lift of C13 (HTTP) from the application layer (proto::repl) to
   whole frames: the frame-level monitors ok_C13_udp / ok_C13_tcp of Spec/C13.v
   accept everything reply() emits -- for every UDP datagram in scope, and for the
   first accepted data segment of every TCP flow (state level and history level).
   Identification needs no hypothesis: payloads that start with one of the nine
   "VERB /" signatures are identified as HTTP by [env_ok] (C13_identified), and the
   monitor says nothing about the others.  Generic lift: Proofs/LiftTcp.v. *)
From MS Require Import Proofs.Tactics Proofs.Pipeline Proofs.ViewLemmas Proofs.C06 Proofs.TcpState Proofs.C07
     Proofs.Lift Proofs.LiftTcp Proofs.C13 Proofs.FrameBuild
     Http Proto L2 Spec.View Spec.RefDec Spec.TcpRef Spec.AppView Spec.History Spec.RefHttp Spec.EnvOk Spec.C13
     Instance.

Theorem frame_udp_C13 E cfg clk tb f tb' r evs :
  cfg_ok cfg = true -> env_ok E = true -> bytes_ok f = true -> no_lf (clk_date clk) = true ->
  reply E cfg clk tb f = Ok (tb', r, evs) ->
  ok_C13_udp cfg f r = true.
Proof.
  intros Hcfg HE Hf Hlf Hr. unfold ok_C13_udp.
  apply (ok_app_udp_lift app_ok_C13 E cfg clk tb f tb' r evs Hcfg Hf); [|exact Hr].
  intros ctx p ci' out _ Hp _ Hpr.
  exact (monitor_udp_stmt E clk _ ctx p ci' out HE Hp Hlf Hpr).
Qed.

(* TCP, for any reference state that agrees with the table on the frame's flow *)
Theorem frame_tcp_C13_agree E cfg st clk tb f tb' r evs :
  cfg_ok cfg = true -> env_ok E = true -> bytes_ok f = true -> no_lf (clk_date clk) = true ->
  st_agrees cfg st tb f ->
  reply E cfg clk tb f = Ok (tb', r, evs) ->
  ok_C13_tcp cfg st f r = true.
Proof.
  intros Hcfg HE Hf Hlf Hag Hr. unfold ok_C13_tcp.
  apply (ok_app_tcp_first_lift app_ok_C13 E cfg st clk tb f tb' r evs Hcfg Hf Hag); [|exact Hr].
  intros ctx p ci' tc' out _ Hp _ Hpr.
  rewrite (norm_out_env _ _ _ _ _ _ _ _ HE Hpr).
  exact (monitor_tcp_stmt E clk _ ctx p ci' tc' out HE Hp Hlf Hpr).
Qed.

(* state level: the flow's cookie is not a key of the table, the segment presents it *)
Theorem frame_tcp_C13_state E cfg clk tb f tb' r evs v :
  cfg_ok cfg = true -> env_ok E = true -> bytes_ok f = true -> no_lf (clk_date clk) = true ->
  view_tcp cfg f = Some v ->
  is_data (tcp_flags (v_l4 v)) = true ->
  tbl_mem (flow_cookie cfg (flow_of v)) tb = false ->
  presents_cookie cfg v = true ->
  reply E cfg clk tb f = Ok (tb', r, evs) ->
  exists o, tcp_resp r = Some o /\ app_ok_C13 (ctx_of true v) (tcp_payload (v_l4 v)) o = true.
Proof.
  intros Hcfg HE Hf Hlf Hvt Hd Hmem Hpres Hr.
  apply (ok_app_tcp_first_lift_state app_ok_C13 E cfg clk tb f tb' r evs v Hcfg Hf Hvt Hd Hmem Hpres); [|exact Hr].
  intros ci' tc' out Hp _ Hpr.
  rewrite (norm_out_env _ _ _ _ _ _ _ _ HE Hpr).
  exact (monitor_tcp_stmt E clk _ _ _ ci' tc' out HE Hp Hlf Hpr).
Qed.

(* history level: "first accepted data segment of its flow" decided by the reference
   connection state after the history (no cookie collision: C08) *)
Theorem frame_tcp_C13_history E cfg h clk tb f tb' r evs :
  cfg_ok cfg = true -> env_ok E = true ->
  Forall (fun x => bytes_ok x = true) (frames h) -> bytes_ok f = true -> no_lf (clk_date clk) = true ->
  run E cfg [] h = Ok tb ->
  (forall v, view_tcp cfg f = Some v -> no_collision cfg (flow_of v :: ref_run cfg (frames h))) ->
  reply E cfg clk tb f = Ok (tb', r, evs) ->
  ok_C13_tcp cfg (ref_run cfg (frames h)) f r = true.
Proof.
  intros Hcfg HE Hall Hf Hlf Hrun Hnc Hr.
  apply (frame_tcp_C13_agree E cfg _ clk tb f tb' r evs Hcfg HE Hf Hlf); [|exact Hr].
  exact (st_agrees_history E cfg h tb f Hall Hrun Hnc).
Qed.

(* spelled out: a complete request (strict grammar) behind one of the nine signatures, in a
   UDP datagram or in the first data segment of a flow, is answered with the 401, carried
   as the payload of the emitted frame *)
Lemma app_ok_C13_complete ctx p o n :
  has_http_sig p = true -> http_complete_prefix p = Some n -> app_ok_C13 ctx p o = true ->
  exists rp, o = Some rp /\ http_resp_wf rp = true.
Proof.
  unfold app_ok_C13, app_ok_C13_body. intros -> ->. destruct o as [rp|]; [|discriminate].
  intros H. exists rp. split; [reflexivity|exact H].
Qed.

Theorem frame_tcp_C13_answered E cfg h clk tb f tb' r evs ctx p n :
  cfg_ok cfg = true -> env_ok E = true ->
  Forall (fun x => bytes_ok x = true) (frames h) -> bytes_ok f = true -> no_lf (clk_date clk) = true ->
  run E cfg [] h = Ok tb ->
  (forall v, view_tcp cfg f = Some v -> no_collision cfg (flow_of v :: ref_run cfg (frames h))) ->
  tcp_first_req cfg (ref_run cfg (frames h)) f = Some (ctx, p) ->
  has_http_sig p = true -> http_complete_prefix p = Some n ->
  reply E cfg clk tb f = Ok (tb', r, evs) ->
  tcp_resp r = Some (Some (http_resp E clk)) /\ http_resp_wf (http_resp E clk) = true.
Proof.
  intros Hcfg HE Hall Hf Hlf Hrun Hnc Hreq Hsig Hc Hr.
  pose proof (st_agrees_history E cfg h tb f Hall Hrun Hnc) as Hag.
  destruct (tcp_first_req_lift E cfg _ clk tb f tb' r evs ctx p Hcfg Hf Hag Hreq Hr)
    as (Hp & _ & ci' & tc' & out & Hpr & _ & Hresp & _).
  rewrite (norm_out_env _ _ _ _ _ _ _ _ HE Hpr) in Hresp.
  pose proof (monitor_tcp_stmt E clk _ ctx p ci' tc' out HE Hp Hlf Hpr) as Hmon.
  destruct (app_ok_C13_complete ctx p out n Hsig Hc Hmon) as (rp & -> & Hwf).
  destruct (identified_stmt E p HE Hsig) as [_ Hid].
  destruct (tcp_dispatch_stmt E clk (ctx_ci cfg (slice 6 6 f) (slice 0 6 f) ctx) p HE Hp Hid) as (tc2 & Hpr2 & _).
  rewrite Hpr in Hpr2.
  destruct (is_some (rl_request p)); inversion Hpr2; subst.
  split; [exact Hresp|exact Hwf].
Qed.

Theorem frame_udp_C13_answered E cfg clk tb f tb' r evs ctx p n :
  cfg_ok cfg = true -> env_ok E = true -> bytes_ok f = true -> no_lf (clk_date clk) = true ->
  udp_req cfg f = Some (ctx, p) ->
  has_http_sig p = true -> http_complete_prefix p = Some n ->
  reply E cfg clk tb f = Ok (tb', r, evs) ->
  udp_resp r = Some (Some (http_resp E clk)) /\ http_resp_wf (http_resp E clk) = true.
Proof.
  intros Hcfg HE Hf Hlf Hreq Hsig Hc Hr.
  destruct (udp_req_lift E cfg clk tb f tb' r evs ctx p Hcfg Hf Hreq Hr)
    as (Hp & _ & _ & ci' & out & Hpr & Hresp & _).
  pose proof (monitor_udp_stmt E clk _ ctx p ci' out HE Hp Hlf Hpr) as Hmon.
  destruct (app_ok_C13_complete ctx p out n Hsig Hc Hmon) as (rp & -> & Hwf).
  destruct (identified_stmt E p HE Hsig) as [Hid _].
  pose proof (udp_dispatch_stmt E clk (ctx_ci cfg (slice 6 6 f) (slice 0 6 f) ctx) p HE Hp Hid) as Hpr2.
  rewrite Hpr in Hpr2.
  destruct (is_some (rl_request p)); inversion Hpr2; subst.
  split; [exact Hresp|exact Hwf].
Qed.

(* ---------- non-vacuity, on the data of the current implementation ---------- *)
(* "GET / HTTP/1.1\r\nHost: a\r\nAccept: */*\r\n\r\n" from 10.0.0.9:40000 to 10.0.0.1:80 *)
Definition c13_tcp_frame : bytes := fx_data true 40000 80 1000 ex_get2.
Definition c13_tcp_hist : list (clock * bytes) := fx_hist true 40000 80 999.
Definition c13_tcp_reply : option bytes :=
  match reply the_env fx_cfg fx_clk [] c13_tcp_frame with Ok (_, r, _) => r | Panic _ => None end.

Example ex_C13_tcp_frame :
  cfg_ok fx_cfg = true /\ bytes_ok c13_tcp_frame = true /\ no_lf (clk_date fx_clk) = true /\
  Forall (fun x => bytes_ok x = true) (frames c13_tcp_hist) /\
  run the_env fx_cfg [] c13_tcp_hist = Ok [] /\ ref_run fx_cfg (frames c13_tcp_hist) = [] /\
  tcp_first_req fx_cfg [] c13_tcp_frame = Some (fx_ctx true true 40000 80, ex_get2) /\
  has_http_sig ex_get2 = true /\ http_complete_prefix ex_get2 = Some 47%nat /\
  (exists tb' evs, reply the_env fx_cfg fx_clk [] c13_tcp_frame = Ok (tb', c13_tcp_reply, evs)) /\
  tcp_resp c13_tcp_reply = Some (Some (http_resp the_env fx_clk)) /\
  ok_C13_tcp fx_cfg [] c13_tcp_frame c13_tcp_reply = true.
Proof.
  split; [vm_compute; reflexivity|]. split; [vm_compute; reflexivity|]. split; [vm_compute; reflexivity|].
  split; [repeat constructor|].
  split; [vm_compute; reflexivity|]. split; [vm_compute; reflexivity|]. split; [vm_compute; reflexivity|].
  split; [vm_compute; reflexivity|]. split; [vm_compute; reflexivity|].
  split.
  - unfold c13_tcp_reply. destruct (reply the_env fx_cfg fx_clk [] c13_tcp_frame) as [[[tb' r] evs]|s] eqn:H.
    + eexists _, _. reflexivity.
    + exfalso. revert H. vm_compute. discriminate.
  - split; vm_compute; reflexivity.
Qed.

Definition c13_udp_frame : bytes := fx_udp false 40000 8080 ex_get2.
Definition c13_udp_reply : option bytes :=
  match reply the_env fx_cfg fx_clk [] c13_udp_frame with Ok (_, r, _) => r | Panic _ => None end.

Example ex_C13_udp_frame :
  bytes_ok c13_udp_frame = true /\
  udp_req fx_cfg c13_udp_frame = Some (fx_ctx false false 40000 8080, ex_get2) /\
  (exists tb' evs, reply the_env fx_cfg fx_clk [] c13_udp_frame = Ok (tb', c13_udp_reply, evs)) /\
  udp_resp c13_udp_reply = Some (Some (http_resp the_env fx_clk)) /\
  ok_C13_udp fx_cfg c13_udp_frame c13_udp_reply = true.
Proof.
  split; [vm_compute; reflexivity|]. split; [vm_compute; reflexivity|].
  split.
  - unfold c13_udp_reply. destruct (reply the_env fx_cfg fx_clk [] c13_udp_frame) as [[[tb' r] evs]|s] eqn:H.
    + eexists _, _. reflexivity.
    + exfalso. revert H. vm_compute. discriminate.
  - split; vm_compute; reflexivity.
Qed.
