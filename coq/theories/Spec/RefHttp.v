(* Spec/RefHttp.v -- reference grammar of HTTP requests and well-formedness of
   the 401 response (C13).  Written from the property text and the RFC 7230
   request grammar, NOT from the parser: nothing here mentions parser states or
   the compiled matcher.  Definitions only (extractable).

   Two languages of COMPLETE REQUEST HEADS (request line + header lines + the
   terminating empty line), both prefix-free:

   Lstrict   -- the property's wording:
       VERB SP target SP "HTTP/" digit+ "." digit+ EOL (name ":" value EOL)* EOL
       VERB in the nine supported methods (upper case); target starts with "/"
       and contains no SP, CR, LF; name is non-empty without ":", CR, LF; value
       contains no CR, LF; EOL = CRLF | LF.

   Lrelaxed  -- a superset that additionally admits (each item is a leniency of
   the implementation that the property's wording tolerates):
       (L1) the method in any letter case ("get", "Get", ...);
       (L2) a request-target that does not start with "/" or is empty
            (still without SP, CR, LF);
       (L3) CR bytes anywhere inside or after the minor version number
            ("HTTP/1.\r1\r\r\n"), i.e. any number of CRs before the line's LF;
       (L4) any number of CRs before the LF of a header line and of the final
            empty line, and CRs at the START of a header line (they are skipped);
       (L5) CR, and any other byte but LF, inside a header value;
       (L6) a header name whose FIRST byte is ":" (the name then runs to the
            next ":"); every later byte of a name is anything but ":", CR, LF.
   Not admitted by Lrelaxed (and rejected by the implementation since the fix
   commits): CR/LF inside the request-target, empty version numbers. *)
From MS Require Export Bytes.

Definition null {A} (l : list A) : bool := match l with [] => true | _ => false end.

Definition is_some {A} (o : option A) : bool := match o with Some _ => true | None => false end.

Definition obind {A B} (o : option A) (f : A -> option B) : option B :=
  match o with Some a => f a | None => None end.
Notation "'olet' x <- o ; k" := (obind o (fun x => k))
  (at level 200, x name, o at level 100, k at level 200).

(* "GET" "PUT" "POST" "HEAD" "DELETE" "CONNECT" "OPTIONS" "TRACE" "PATCH" *)
Definition HTTP_VERBS : list bytes :=
  [[71; 69; 84]; [80; 85; 84]; [80; 79; 83; 84]; [72; 69; 65; 68]; [68; 69; 76; 69; 84; 69];
   [67; 79; 78; 78; 69; 67; 84]; [79; 80; 84; 73; 79; 78; 83]; [84; 82; 65; 67; 69]; [80; 65; 84; 67; 72]].
Definition HTTP_SLASH_LIT : bytes := [72; 84; 84; 80; 47].   (* "HTTP/" *)

(* ------------------------------------------------------------------ *)
(* Lstrict, declaratively                                              *)
(* ------------------------------------------------------------------ *)
Definition is_eol (e : bytes) : Prop := e = [13; 10] \/ e = [10].
Definition target_ok (u : bytes) : Prop :=
  (exists u', u = 47 :: u') /\ Forall (fun b => b <> 32 /\ b <> 13 /\ b <> 10) u.
Definition digits1 (d : bytes) : Prop := d <> [] /\ Forall (fun b => is_digit b = true) d.
Definition hname_ok (n : bytes) : Prop := n <> [] /\ Forall (fun b => b <> 58 /\ b <> 13 /\ b <> 10) n.
Definition hvalue_ok (v : bytes) : Prop := Forall (fun b => b <> 13 /\ b <> 10) v.

(* header lines followed by the terminating empty line *)
Inductive Lheaders : bytes -> Prop :=
| LH_end e : is_eol e -> Lheaders e
| LH_cons n v e rest :
    hname_ok n -> hvalue_ok v -> is_eol e -> Lheaders rest ->
    Lheaders (n ++ 58 :: v ++ e ++ rest).

Inductive Lstrict : bytes -> Prop :=
| Lstrict_intro verb u maj min e hs :
    In verb HTTP_VERBS -> target_ok u -> digits1 maj -> digits1 min -> is_eol e -> Lheaders hs ->
    Lstrict (verb ++ 32 :: u ++ 32 :: HTTP_SLASH_LIT ++ maj ++ 46 :: min ++ e ++ hs).

(* ------------------------------------------------------------------ *)
(* recognisers: each phase consumes its part and returns the rest      *)
(* ------------------------------------------------------------------ *)

(* one of a finite set of words (a trie walk by derivatives); [f] normalises
   the input byte (identity, or upper-casing for the relaxed language) *)
Definition deriv (cands : list bytes) (b : N) : list bytes :=
  flat_map (fun c => match c with
                     | x :: c' => if x =? b then [c'] else []
                     | [] => []
                     end) cands.
Fixpoint rx_word (f : N -> N) (cands : list bytes) (s : bytes) : option bytes :=
  if existsb null cands then Some s
  else match s with
       | [] => None
       | b :: r => rx_word f (deriv cands (f b)) r
       end.

Definition upper (b : N) : N := if (97 <=? b) && (b <=? 122) then b - 32 else b.

Definition rx_byte (c : N) (s : bytes) : option bytes :=
  match s with b :: r => if b =? c then Some r else None | [] => None end.
Definition rx_lit (lit s : bytes) : option bytes :=
  if is_prefix lit s then Some (skipn (length lit) s) else None.

(* bytes up to the next SP (consumed); CR / LF not allowed *)
Fixpoint rx_until_sp (s : bytes) : option bytes :=
  match s with
  | [] => None
  | b :: r => if b =? 32 then Some r
              else if (b =? 13) || (b =? 10) then None
              else rx_until_sp r
  end.
Definition rs_target (s : bytes) : option bytes :=
  match s with b :: r => if b =? 47 then rx_until_sp r else None | [] => None end.

Fixpoint skip_digits (s : bytes) : bytes :=
  match s with b :: r => if is_digit b then skip_digits r else s | [] => [] end.
Definition rx_digits1 (s : bytes) : option bytes :=
  match s with b :: r => if is_digit b then Some (skip_digits r) else None | [] => None end.

Definition rs_eol (s : bytes) : option bytes :=
  match s with
  | b :: r => if b =? 10 then Some r
              else if b =? 13 then rx_byte 10 r
              else None
  | [] => None
  end.

(* strict header line: name ":" value EOL *)
Fixpoint rs_name (s : bytes) (seen : bool) : option bytes :=
  match s with
  | [] => None
  | b :: r => if b =? 58 then (if seen then Some r else None)
              else if (b =? 13) || (b =? 10) then None
              else rs_name r true
  end.
Fixpoint rs_value (s : bytes) : option bytes :=
  match s with
  | [] => None
  | b :: r => if b =? 10 then Some r
              else if b =? 13 then rx_byte 10 r
              else rs_value r
  end.
Fixpoint rs_headers (fuel : nat) (s : bytes) : option bytes :=
  match fuel with
  | O => None
  | S f =>
    match rs_eol s with
    | Some r => Some r
    | None => olet r1 <- rs_name s false; olet r2 <- rs_value r1; rs_headers f r2
    end
  end.

(* the rest of [s] after a complete strict request head *)
Definition rs_after_verb (r1 : bytes) : option bytes :=
  olet r2 <- rx_byte 32 r1;
  olet r3 <- rs_target r2;
  olet r4 <- rx_lit HTTP_SLASH_LIT r3;
  olet r5 <- rx_digits1 r4;
  olet r6 <- rx_byte 46 r5;
  olet r7 <- rx_digits1 r6;
  olet r8 <- rs_eol r7;
  rs_headers (S (length r8)) r8.
Definition rs_request (s : bytes) : option bytes :=
  olet r1 <- rx_word (fun b => b) HTTP_VERBS s; rs_after_verb r1.

(* length of the (unique, hence shortest) prefix of [s] that is a complete strict request head *)
Definition http_complete_prefix (s : bytes) : option nat :=
  match rs_request s with Some rest => Some (length s - length rest)%nat | None => None end.

(* ---- Lrelaxed ---- *)
(* minor version: digits and CRs in any order, at least one digit, then LF *)
Fixpoint rl_minor (s : bytes) (seen : bool) : option bytes :=
  match s with
  | [] => None
  | b :: r => if b =? 13 then rl_minor r seen
              else if b =? 10 then (if seen then Some r else None)
              else if is_digit b then rl_minor r true
              else None
  end.
Fixpoint skip_cr (s : bytes) : bytes :=
  match s with b :: r => if b =? 13 then skip_cr r else s | [] => [] end.
(* the rest of a header name after its first byte, up to ":" (consumed) *)
Fixpoint rl_name (s : bytes) : option bytes :=
  match s with
  | [] => None
  | b :: r => if b =? 58 then Some r
              else if (b =? 13) || (b =? 10) then None
              else rl_name r
  end.
(* a header value: everything up to LF (consumed) *)
Fixpoint rl_value (s : bytes) : option bytes :=
  match s with
  | [] => None
  | b :: r => if b =? 10 then Some r else rl_value r
  end.
Fixpoint rl_headers (fuel : nat) (s : bytes) : option bytes :=
  match fuel with
  | O => None
  | S f =>
    match skip_cr s with
    | [] => None
    | b :: r => if b =? 10 then Some r
                else olet r1 <- rl_name r; olet r2 <- rl_value r1; rl_headers f r2
    end
  end.

Definition rl_after_verb (r1 : bytes) : option bytes :=
  olet r2 <- rx_byte 32 r1;
  olet r3 <- rx_until_sp r2;
  olet r4 <- rx_lit HTTP_SLASH_LIT r3;
  olet r5 <- rx_digits1 r4;
  olet r6 <- rx_byte 46 r5;
  olet r7 <- rl_minor r6 false;
  rl_headers (S (length r7)) r7.
Definition rl_request (s : bytes) : option bytes :=
  olet r1 <- rx_word upper HTTP_VERBS s; rl_after_verb r1.

Definition http_relaxed_prefix (s : bytes) : option nat :=
  match rl_request s with Some rest => Some (length s - length rest)%nat | None => None end.

(* the nine protocol signatures "VERB /" (case-sensitive) *)
Definition HTTP_SIGS : list bytes := map (fun v => v ++ [32; 47]) HTTP_VERBS.
Definition has_http_sig (p : bytes) : bool := existsb (fun sg => is_prefix sg p) HTTP_SIGS.

(* ------------------------------------------------------------------ *)
(* response well-formedness                                            *)
(* ------------------------------------------------------------------ *)
Definition RESP_STATUS : bytes := [72; 84; 84; 80; 47; 49; 46; 49; 32; 52; 48; 49].   (* "HTTP/1.1 401" *)
Definition RESP_AUTH : bytes :=                                                      (* "WWW-Authenticate:" *)
  [87; 87; 87; 45; 65; 117; 116; 104; 101; 110; 116; 105; 99; 97; 116; 101; 58].
Definition RESP_CLEN : bytes :=                                                      (* "Content-Length:" *)
  [67; 111; 110; 116; 101; 110; 116; 45; 76; 101; 110; 103; 116; 104; 58].

(* drop one trailing CR (so that CRLF line ends are accepted as well as LF) *)
Fixpoint chomp_cr (l : bytes) : bytes :=
  match l with
  | [] => []
  | [b] => if b =? 13 then [] else [b]
  | b :: r => b :: chomp_cr r
  end.

Fixpoint skip_sp (s : bytes) : bytes :=
  match s with b :: r => if b =? 32 then skip_sp r else s | [] => [] end.
Fixpoint dec_digits (acc : N) (s : bytes) : option N :=
  match s with
  | [] => Some acc
  | b :: r => if is_digit b then dec_digits (acc * 10 + (b - 48)) r else None
  end.
(* "Content-Length:" SP* digit+  ->  the number *)
Definition parse_clen (line : bytes) : option N :=
  if is_prefix RESP_CLEN line then
    match skip_sp (skipn (length RESP_CLEN) line) with
    | [] => None
    | d => dec_digits 0 d
    end
  else None.

(* the response is read line by line (lines end with LF; one CR before it is
   ignored): the status line, header lines up to the first empty line, then the body *)
Inductive wf_mode :=
| WHead (first : bool) (cur : bytes) (auth : bool) (cl : option N)
| WBody (auth : bool) (cl : option N) (n : N)
| WBad.

Definition wf_step (m : wf_mode) (b : N) : wf_mode :=
  match m with
  | WHead first cur auth cl =>
    if b =? 10 then
      let l := chomp_cr cur in
      if first then (if is_prefix RESP_STATUS l then WHead false [] auth cl else WBad)
      else if null l then WBody auth cl 0
      else WHead false [] (auth || is_prefix RESP_AUTH l)
                 (match cl with Some _ => cl | None => parse_clen l end)
    else WHead first (cur ++ [b]) auth cl
  | WBody auth cl n => WBody auth cl (n + 1)
  | WBad => WBad
  end.

Definition wf_final (m : wf_mode) : bool :=
  match m with
  | WBody true (Some n) k => n =? k
  | _ => false
  end.

Definition wf_init : wf_mode := WHead true [] false None.

(* status line "HTTP/1.1 401...", a "WWW-Authenticate:" header, and the first
   "Content-Length:" header equals the number of bytes after the empty line *)
Definition http_resp_wf (r : bytes) : bool := wf_final (fold_left wf_step r wf_init).

Definition no_lf (d : bytes) : bool := forallb (fun b => negb (b =? 10)) d.

(* facts about the response template, split at the Date value, from which
   well-formedness of [pre ++ date ++ post] follows for EVERY date without LF:
   [pre] ends inside a header line (after the status line) that has at least two
   bytes and starts with neither "W" nor "C"; [post] begins with that line's LF;
   and the rest of [post] completes a well-formed response from there *)
Definition http_tpl_ok (pre post : bytes) : bool :=
  match fold_left wf_step pre wf_init with
  | WHead false cur auth cl =>
    (2 <=? length cur)%nat && negb (hd 0 cur =? 87) && negb (hd 0 cur =? 67) &&
    match post with
    | b :: post' => (b =? 10) && wf_final (fold_left wf_step post' (WHead false [] auth cl))
    | [] => false
    end
  | _ => false
  end.
