(* Proofs/C12Abs.v -- an abstract run of a compiled matcher table over payload SHAPES.

   A shape is a list of byte predicates (one per leading position); a payload has the
   shape when its leading bytes satisfy the predicates (the rest is unconstrained:
   "open", or absent: "exact").  The abstract run follows every column a position may
   take, keeps the set of rows reached and the set of ids accepted on the way; for open
   shapes the row set is closed under every byte, and the end of the datagram is tried
   from every row of the closure.  The result is a finite set of possible verdicts of
   the identification ([udp_id_tbl]), sound for byte strings of every length
   ([open_sound], [exact_sound]): no reference to the published signatures is involved,
   the facts are about the table that is dumped from the implementation. *)
From MS Require Import Proofs.Tactics Smack Spec.RefSig Spec.C10 Proofs.C10Sound.
From Coq Require Import List NArith Bool Lia.
Import ListNotations.
Open Scope N_scope.

Definition pel := N -> bool.

Fixpoint pmatches (pat : list pel) (p : bytes) : Prop :=
  match pat, p with
  | [], _ => True
  | f :: pat', b :: p' => f b = true /\ pmatches pat' p'
  | _ :: _, [] => False
  end.

Definition inN (x : N) (l : list N) : bool := existsb (N.eqb x) l.
Definition inO (o : option N) (l : list (option N)) : bool := existsb (oN_eqb o) l.

Lemma memN_In x l : In x l -> inN x l = true.
Proof. intros H. apply existsb_exists. exists x. split; [exact H | apply N.eqb_refl]. Qed.
Lemma memN_true x l : inN x l = true -> In x l.
Proof. intros H. apply existsb_exists in H. destruct H as (y & Hy & He). apply N.eqb_eq in He. subst y. exact Hy. Qed.
Lemma memO_true o l : inO o l = true -> In o l.
Proof. intros H. apply existsb_exists in H. destruct H as (y & Hy & He). apply oN_eqb_eq in He. subst y. exact Hy. Qed.

Definition cols_of (t : smack) (f : pel) : list N :=
  nodup N.eq_dec (map (fun b => sm_sym t (N.to_nat b)) (filter f bytes256)).
Definition nexts (t : smack) (rows cols : list N) : list N :=
  flat_map (fun row => map (sm_next t row) cols) rows.
Definition conts (t : smack) (nx : list N) : list N :=
  nodup N.eq_dec (filter (fun r => r <? sm_match_limit t) nx).
Definition accs (t : smack) (nx : list N) : list N :=
  nodup N.eq_dec (map (fun r => hd 0 (sm_ids t r)) (filter (fun r => sm_match_limit t <=? r) nx)).

Lemma step_sound t rows f row b : In row rows -> b < 256 -> f b = true ->
  match m_step t row b with
  | MCont r' => In r' (conts t (nexts t rows (cols_of t f)))
  | MAcc i => In i (accs t (nexts t rows (cols_of t f)))
  end.
Proof.
  intros Hrow Hb Hf. unfold m_step.
  set (r' := sm_next t row (sm_sym t (N.to_nat b))).
  assert (Hin : In r' (nexts t rows (cols_of t f))).
  { unfold nexts. apply in_flat_map. exists row. split; [exact Hrow|].
    apply in_map. unfold cols_of. apply nodup_In.
    apply (in_map (fun b => sm_sym t (N.to_nat b))). apply filter_In. split; [apply in_bytes256, Hb | exact Hf]. }
  destruct (sm_match_limit t <=? r') eqn:Hl.
  - unfold accs. apply nodup_In. apply (in_map (fun r => hd 0 (sm_ids t r))). apply filter_In. split; assumption.
  - unfold conts. apply nodup_In. apply filter_In. split; [exact Hin|].
    apply N.ltb_lt. apply N.leb_gt in Hl. exact Hl.
Qed.

Fixpoint arun (t : smack) (rows ids : list N) (pat : list pel) : list N * list N :=
  match pat with
  | [] => (rows, ids)
  | f :: pat' => let nx := nexts t rows (cols_of t f) in arun t (conts t nx) (accs t nx ++ ids) pat'
  end.

Lemma arun_ids_mono t pat : forall rows ids i, In i ids -> In i (snd (arun t rows ids pat)).
Proof.
  induction pat as [|f pat IH]; intros rows ids i Hi; cbn [arun]; [exact Hi|].
  apply IH. apply in_or_app. right. exact Hi.
Qed.

Lemma arun_sound t pat : forall p rows ids row, bytes_ok p = true -> pmatches pat p -> In row rows ->
  match m_run t row (firstn (length pat) p) with
  | MAcc i => In i (snd (arun t rows ids pat))
  | MCont r => In r (fst (arun t rows ids pat))
  end.
Proof.
  induction pat as [|f pat IH]; intros p rows ids row Hok Hm Hrow.
  - cbn. exact Hrow.
  - destruct p as [|b p]; [contradiction|]. cbn [pmatches] in Hm. destruct Hm as [Hf Hm].
    cbn [bytes_ok forallb] in Hok. apply andb_true_iff in Hok. destruct Hok as [Hb Hok].
    unfold byte_ok in Hb. apply N.ltb_lt in Hb.
    cbn [length firstn m_run arun].
    pose proof (step_sound t rows f row b Hrow Hb Hf) as Hs.
    destruct (m_step t row b) as [r'|i].
    + apply IH; assumption.
    + apply arun_ids_mono. apply in_or_app. left. exact Hs.
Qed.

Lemma m_run_app t a : forall row b,
  m_run t row (a ++ b) = match m_run t row a with MAcc i => MAcc i | MCont r => m_run t r b end.
Proof.
  induction a as [|x a IH]; intros row b; [reflexivity|]. cbn [app m_run].
  destruct (m_step t row x); [apply IH | reflexivity].
Qed.

(* ---- closure under every byte ---- *)
Definition anyb : pel := fun _ => true.

Fixpoint close (fuel : nat) (t : smack) (S frontier : list N) : list N :=
  match fuel with
  | O => S
  | Datatypes.S k =>
    match frontier with
    | [] => S
    | _ :: _ =>
      let nw := filter (fun r => negb (inN r S)) (conts t (nexts t frontier (cols_of t anyb))) in
      close k t (nw ++ S) nw
    end
  end.

Definition closed_ok (t : smack) (S : list N) : bool :=
  forallb (fun r => inN r S) (conts t (nexts t S (cols_of t anyb))).
Definition tail_ids (t : smack) (S : list N) : list N := accs t (nexts t S (cols_of t anyb)).

Lemma closed_sound t S : closed_ok t S = true ->
  forall p row, bytes_ok p = true -> In row S ->
  match m_run t row p with MAcc i => In i (tail_ids t S) | MCont r => In r S end.
Proof.
  intros Hc. induction p as [|b p IH]; intros row Hok Hrow; cbn [m_run]; [exact Hrow|].
  cbn [bytes_ok forallb] in Hok. apply andb_true_iff in Hok. destruct Hok as [Hb Hok].
  unfold byte_ok in Hb. apply N.ltb_lt in Hb.
  pose proof (step_sound t S anyb row b Hrow Hb eq_refl) as Hs.
  destruct (m_step t row b) as [r'|i].
  - apply IH; [exact Hok|]. unfold closed_ok in Hc. rewrite forallb_forall in Hc. apply memN_true, Hc, Hs.
  - exact Hs.
Qed.

(* ---- verdicts ---- *)
Definition open_ok (t : smack) (pat : list pel) (allowed : list (option N)) : bool :=
  let '(rows, ids) := arun t [BASE_STATE] [] pat in
  let S := close 64 t rows rows in
  forallb (fun r => inN r S) rows && closed_ok t S &&
  forallb (fun i => inO (Some i) allowed) (ids ++ tail_ids t S) &&
  forallb (fun r => inO (m_end t r) allowed) S.

(* a TCP stream has no end: the verdicts at the end of the datagram play no part *)
Definition open_ok_tcp (t : smack) (pat : list pel) (allowed : list (option N)) : bool :=
  let '(rows, ids) := arun t [BASE_STATE] [] pat in
  let S := close 64 t rows rows in
  forallb (fun r => inN r S) rows && closed_ok t S &&
  forallb (fun i => inO (Some i) allowed) (ids ++ tail_ids t S).

Definition exact_ok (t : smack) (pat : list pel) (allowed : list (option N)) : bool :=
  let '(rows, ids) := arun t [BASE_STATE] [] pat in
  forallb (fun i => inO (Some i) allowed) ids &&
  forallb (fun r => inO (m_end t r) allowed) rows.

Section Verdict.
  Variable t : smack.
  Hypothesis Hok : smack_ok t = true.
  Hypothesis Hpre : tbl_pre t = true.

  Lemma pre_parts : sm_rows t <= TWO24 /\ 0 < sm_rows t /\ 0 < sm_match_limit t.
  Proof.
    unfold tbl_pre in Hpre. rewrite !andb_true_iff in Hpre. destruct Hpre as [[H1 H2] H3].
    apply N.leb_le in H1. apply N.ltb_lt in H2. apply N.ltb_lt in H3. auto.
  Qed.

  Theorem open_sound pat allowed : open_ok t pat allowed = true ->
    forall p, bytes_ok p = true -> pmatches pat p -> In (udp_id_tbl t p) allowed.
  Proof.
    intros Ho p Hp Hm. destruct pre_parts as (P1 & P2 & P3).
    rewrite (udp_id_m_run t Hok P1 p P2 P3).
    unfold open_ok in Ho. destruct (arun t [BASE_STATE] [] pat) as [rows ids] eqn:Ha.
    cbv zeta in Ho. rewrite !andb_true_iff in Ho. destruct Ho as [[[H1 H2] H3] H4].
    rewrite forallb_forall in H1, H3, H4.
    rewrite <- (firstn_skipn (length pat) p) at 1. rewrite m_run_app.
    pose proof (arun_sound t pat p [BASE_STATE] [] BASE_STATE Hp Hm (or_introl eq_refl)) as Hs.
    rewrite Ha in Hs. cbn [fst snd] in Hs.
    destruct (m_run t BASE_STATE (firstn (length pat) p)) as [r|i].
    - assert (HrS : In r (close 64 t rows rows)) by (apply memN_true, H1, Hs).
      pose proof (closed_sound t _ H2 (skipn (length pat) p) r (bytes_ok_skipn _ _ Hp) HrS) as Hc.
      destruct (m_run t r (skipn (length pat) p)) as [r2|i2].
      + apply memO_true, H4, Hc.
      + apply memO_true, H3. apply in_or_app. right. exact Hc.
    - apply memO_true, H3. apply in_or_app. left. exact Hs.
  Qed.

  Theorem exact_sound pat allowed : exact_ok t pat allowed = true ->
    forall p, bytes_ok p = true -> pmatches pat p -> length p = length pat -> In (udp_id_tbl t p) allowed.
  Proof.
    intros Ho p Hp Hm Hl. destruct pre_parts as (P1 & P2 & P3).
    rewrite (udp_id_m_run t Hok P1 p P2 P3).
    unfold exact_ok in Ho. destruct (arun t [BASE_STATE] [] pat) as [rows ids] eqn:Ha.
    rewrite !andb_true_iff in Ho. destruct Ho as [H3 H4].
    rewrite forallb_forall in H3, H4.
    pose proof (arun_sound t pat p [BASE_STATE] [] BASE_STATE Hp Hm (or_introl eq_refl)) as Hs.
    rewrite Ha in Hs. cbn [fst snd] in Hs. rewrite <- Hl, firstn_all in Hs.
    destruct (m_run t BASE_STATE p) as [r|i].
    - apply memO_true, H4, Hs.
    - apply memO_true, H3, Hs.
  Qed.

  (* a TCP stream has no end: the first data segment of a flow *)
  Theorem open_sound_tcp pat allowed : open_ok_tcp t pat allowed = true ->
    forall p, bytes_ok p = true -> pmatches pat p -> In (tcp_first_id_tbl t p) (None :: allowed).
  Proof.
    intros Ho p Hp Hm. destruct pre_parts as (P1 & P2 & P3).
    rewrite (tcp_id_m_run t Hok P1 p P2 P3).
    unfold open_ok_tcp in Ho. destruct (arun t [BASE_STATE] [] pat) as [rows ids] eqn:Ha.
    cbv zeta in Ho. rewrite !andb_true_iff in Ho. destruct Ho as [[H1 H2] H3].
    rewrite forallb_forall in H1, H3.
    rewrite <- (firstn_skipn (length pat) p) at 1. rewrite m_run_app.
    pose proof (arun_sound t pat p [BASE_STATE] [] BASE_STATE Hp Hm (or_introl eq_refl)) as Hs.
    rewrite Ha in Hs. cbn [fst snd] in Hs.
    destruct (m_run t BASE_STATE (firstn (length pat) p)) as [r|i].
    - assert (HrS : In r (close 64 t rows rows)) by (apply memN_true, H1, Hs).
      pose proof (closed_sound t _ H2 (skipn (length pat) p) r (bytes_ok_skipn _ _ Hp) HrS) as Hc.
      destruct (m_run t r (skipn (length pat) p)) as [r2|i2].
      + left. reflexivity.
      + right. apply memO_true, H3. apply in_or_app. right. exact Hc.
    - right. apply memO_true, H3. apply in_or_app. left. exact Hs.
  Qed.

  (* a family of shapes indexed by a byte value *)
  Lemma family_ok (F : N -> list pel) (chk : list pel -> bool) :
    forallb (fun v => chk (F v)) bytes256 = true -> forall v, v < 256 -> chk (F v) = true.
  Proof. intros H v Hv. rewrite forallb_forall in H. apply H, in_bytes256, Hv. Qed.
End Verdict.

(* ---- byte predicates ---- *)
Definition LIT (c : N) : pel := N.eqb c.
Definition NOT (l : list N) : pel := fun b => negb (inN b l).
Definition GE (n : N) : pel := N.leb n.
Definition LT (n : N) : pel := fun b => b <? n.
Definition ONEOF (l : list N) : pel := fun b => inN b l.
Definition LITS (l : bytes) : list pel := map LIT l.
Definition ANYS (n : nat) : list pel := repeat anyb n.

Lemma pmatches_lits l : forall t, pmatches (LITS l) (l ++ t).
Proof.
  induction l as [|c l IH]; intros t; [exact I|]. cbn [LITS map app pmatches].
  split; [apply N.eqb_refl | apply IH].
Qed.
