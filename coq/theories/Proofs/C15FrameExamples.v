(* C15FrameExamples.v -- non-vacuity of the frame-level C15 theorems (Proofs/C15Frame.v) on
   the data of the current implementation: whole Ethernet frames run through [reply].
   Closed computations (vm_compute). *)
From MS Require Import Stun Dns Proto L2 Spec.View Spec.RefDec Spec.TcpRef Spec.RefStun Spec.AppView Spec.History
     Spec.C15 Instance Proofs.C15Examples Proofs.FrameBuild Proofs.C15Frame.

(* ---- TCP / IPv6: the 288-byte RFC 5389 request in the first data segment of a flow
   (client port 65535, server port 3478; it asks for a port change: the reply comes from 3479) ---- *)
Definition c15_tcp_frame : bytes := fx_data false 65535 3478 100 (ser_stun x_big).
Definition c15_tcp_hist : list (clock * bytes) := fx_hist false 65535 3478 99.
Definition c15_tcp_reply : option bytes :=
  match reply the_env fx_cfg fx_clk [] c15_tcp_frame with Ok (_, r, _) => r | Panic _ => None end.

Example ex_C15_tcp_frame :
  cfg_ok fx_cfg = true /\ bytes_ok c15_tcp_frame = true /\
  Forall (fun x => bytes_ok x = true) (frames c15_tcp_hist) /\
  run the_env fx_cfg [] c15_tcp_hist = Ok [] /\ ref_run fx_cfg (frames c15_tcp_hist) = [] /\
  tcp_first_req fx_cfg [] c15_tcp_frame = Some (fx_ctx false true 65535 3478, ser_stun x_big) /\
  dec_stun_req (ser_stun x_big) = Some x_big /\ is_binding_request x_big = true /\
  stun_published true (ser_stun x_big) = true /\ stun_shadowed true (ser_stun x_big) = false /\
  tcp_first_id the_env (ser_stun x_big) = Some PROTO_STUN /\
  (exists tb' evs, reply the_env fx_cfg fx_clk [] c15_tcp_frame = Ok (tb', c15_tcp_reply, evs)) /\
  (match c15_tcp_reply with
   | Some rf => match dec_frame_tcp rf with
                | Some (_, _, t) => Some (dt_sport t, dt_dport t, dt_payload t)
                | None => None
                end
   | None => None
   end) = Some (3479, 65535,
                [1; 1; 0; 24] ++ MAGIC_COOKIE ++ x_tid12 ++
                [0; 1; 0; 20; 0; 2; 255; 255; 32; 1; 13; 184; 0; 0; 0; 0; 0; 0; 0; 0; 0; 0; 0; 9]) /\
  ok_C15_tcp_strict fx_cfg [] c15_tcp_frame c15_tcp_reply = true /\
  ok_C15_tcp fx_cfg [] c15_tcp_frame c15_tcp_reply = true.
Proof.
  do 2 (split; [vm_compute; reflexivity|]). split; [repeat constructor|].
  do 8 (split; [vm_compute; reflexivity|]).
  split.
  - unfold c15_tcp_reply. destruct (reply the_env fx_cfg fx_clk [] c15_tcp_frame) as [[[tb' r] evs]|s] eqn:H.
    + eexists _, _. reflexivity.
    + exfalso. revert H. vm_compute. discriminate.
  - repeat split; vm_compute; reflexivity.
Qed.

(* ---- the known class at frame level: the 20-byte magic-cookie request over TCP is covered
   by the published signatures but not identified: a bare ACK comes back; the strict monitor
   refuses it, the non-strict one (class excluded) accepts it ---- *)
Definition c15_tcp_shadow_frame : bytes := fx_data true 40000 3478 100 (ser_stun x_empty).
Definition c15_tcp_shadow_reply : option bytes :=
  match reply the_env fx_cfg fx_clk [] c15_tcp_shadow_frame with Ok (_, r, _) => r | Panic _ => None end.

Example ex_C15_tcp_shadow_frame :
  tcp_first_req fx_cfg [] c15_tcp_shadow_frame = Some (fx_ctx true true 40000 3478, ser_stun x_empty) /\
  stun_published true (ser_stun x_empty) = true /\ stun_shadowed true (ser_stun x_empty) = true /\
  tcp_first_id the_env (ser_stun x_empty) = None /\
  tcp_resp c15_tcp_shadow_reply = Some None /\
  ok_C15_tcp_strict fx_cfg [] c15_tcp_shadow_frame c15_tcp_shadow_reply = false /\
  ok_C15_tcp fx_cfg [] c15_tcp_shadow_frame c15_tcp_shadow_reply = true /\
  c15_class_frame fx_cfg c15_tcp_shadow_frame = true.
Proof. repeat split; vm_compute; reflexivity. Qed.

(* ---- UDP / IPv4: the RFC 3489 change-port request; the hypotheses of [frame_udp_C15_any]
   hold of the frame (identified as STUN; the DNS fallback is not reached) ---- *)
Definition c15_udp_frame : bytes := fx_udp true 40000 65535 (ser_stun x_change).
Definition c15_udp_reply : option bytes :=
  match reply the_env fx_cfg fx_clk [] c15_udp_frame with Ok (_, r, _) => r | Panic _ => None end.

Example ex_C15_udp_frame_hyps :
  forall ctx p, udp_req fx_cfg c15_udp_frame = Some (ctx, p) ->
    stun_ident_at the_env true false p /\ dns_quiet_at ctx p.
Proof.
  intros ctx p Hreq.
  assert (udp_req fx_cfg c15_udp_frame = Some (fx_ctx true false 40000 65535, ser_stun x_change)) as H0
    by (vm_compute; reflexivity).
  rewrite H0 in Hreq. inversion Hreq; subst ctx p. clear Hreq H0. split.
  - apply stun_ident_at_identified. vm_compute. reflexivity.
  - intros m r _ H. exfalso. revert H. vm_compute. discriminate.
Qed.

Example ex_C15_udp_frame :
  bytes_ok c15_udp_frame = true /\
  udp_req fx_cfg c15_udp_frame = Some (fx_ctx true false 40000 65535, ser_stun x_change) /\
  (exists tb' evs, reply the_env fx_cfg fx_clk [] c15_udp_frame = Ok (tb', c15_udp_reply, evs)) /\
  (match c15_udp_reply with
   | Some rf => match dec_frame_udp rf with
                | Some (_, _, u) => Some (du_sport u, du_dport u, du_payload u)
                | None => None
                end
   | None => None
   end) = Some (0, 40000, [1; 1; 0; 12] ++ x_tid16 ++ [0; 1; 0; 8; 0; 1; 156; 64; 10; 0; 0; 9]) /\
  ok_C15_udp_strict fx_cfg c15_udp_frame c15_udp_reply = true /\
  ok_C15_udp fx_cfg c15_udp_frame c15_udp_reply = true.
Proof.
  do 2 (split; [vm_compute; reflexivity|]).
  split.
  - unfold c15_udp_reply. destruct (reply the_env fx_cfg fx_clk [] c15_udp_frame) as [[[tb' r] evs]|s] eqn:H.
    + eexists _, _. reflexivity.
    + exfalso. revert H. vm_compute. discriminate.
  - repeat split; vm_compute; reflexivity.
Qed.
