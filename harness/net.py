"""Frame construction and (independent) parsing helpers for the harness."""
import struct, ipaddress

MAC_SELF = bytes.fromhex("c0ffeec0ffee")
MAC_PEER = bytes.fromhex("0a0b0c0d0e0f")


def csum(data: bytes) -> int:
    if len(data) % 2:
        data += b"\0"
    s = sum(struct.unpack("!%dH" % (len(data) // 2), data))
    while s >> 16:
        s = (s >> 16) + (s & 0xFFFF)
    return (~s) & 0xFFFF


def ip_bytes(a) -> bytes:
    if isinstance(a, bytes):
        return a
    return ipaddress.ip_address(a).packed


def eth(dst, src, ety, payload=b""):
    return dst + src + struct.pack("!H", ety) + payload


def ipv4(src, dst, proto, payload, ihl=5, total=None, ttl=64, flags=0x4000, options=b""):
    src, dst = ip_bytes(src), ip_bytes(dst)
    hl = ihl * 4
    if total is None:
        total = 20 + len(options) + len(payload)
    h = struct.pack("!BBHHHBBH", 0x40 | ihl, 0, total & 0xFFFF, 0, flags, ttl, proto, 0) + src + dst + options
    c = csum(h)
    h = h[:10] + struct.pack("!H", c) + h[12:]
    return h + payload


def ipv6(src, dst, nh, payload, plen=None, hlim=64):
    src, dst = ip_bytes(src), ip_bytes(dst)
    if plen is None:
        plen = len(payload)
    return struct.pack("!IHBB", 0x60000000, plen & 0xFFFF, nh, hlim) + src + dst + payload


def pseudo(src, dst, proto, ln):
    src, dst = ip_bytes(src), ip_bytes(dst)
    if len(src) == 4:
        return src + dst + struct.pack("!BBH", 0, proto, ln)
    return src + dst + struct.pack("!IHBB", ln, 0, 0, proto)


def udp(src, dst, sport, dport, payload, length=None, cks=None):
    if length is None:
        length = 8 + len(payload)
    h = struct.pack("!HHHH", sport, dport, length & 0xFFFF, 0) + payload
    if cks is None:
        cks = csum(pseudo(src, dst, 17, len(h)) + h)
    return h[:6] + struct.pack("!H", cks) + h[8:]


def tcp(src, dst, sport, dport, seq, ack, flags, payload=b"", doff=5, window=8192, options=b""):
    b12 = ((doff & 0xF) << 4) | ((flags >> 8) & 1)
    h = struct.pack("!HHIIBBHHH", sport, dport, seq & 0xFFFFFFFF, ack & 0xFFFFFFFF, b12, flags & 0xFF,
                    window, 0, 0) + options + payload
    c = csum(pseudo(src, dst, 6, len(h)) + h)
    return h[:16] + struct.pack("!H", c) + h[18:]


def icmp4(ty, code, rest=b""):
    h = struct.pack("!BBH", ty, code, 0) + rest
    return h[:2] + struct.pack("!H", csum(h)) + h[4:]


def icmp6(src, dst, ty, code, rest=b""):
    h = struct.pack("!BBH", ty, code, 0) + rest
    c = csum(pseudo(src, dst, 58, len(h)) + h)
    return h[:2] + struct.pack("!H", c) + h[4:]


def arp(op, sha, spa, tha, tpa, htype=1, ptype=0x0800, hlen=6, plen=4, trailer=b""):
    return struct.pack("!HHBBH", htype, ptype, hlen, plen, op) + sha + ip_bytes(spa) + tha + ip_bytes(tpa) + trailer


def frame_udp(src, dst, sport, dport, payload, mac_dst=MAC_SELF, mac_src=MAC_PEER):
    s, d = ip_bytes(src), ip_bytes(dst)
    u = udp(s, d, sport, dport, payload)
    if len(s) == 4:
        return eth(mac_dst, mac_src, 0x0800, ipv4(s, d, 17, u))
    return eth(mac_dst, mac_src, 0x86DD, ipv6(s, d, 17, u))


def frame_tcp(src, dst, sport, dport, seq, ack, flags, payload=b"", mac_dst=MAC_SELF, mac_src=MAC_PEER, **kw):
    s, d = ip_bytes(src), ip_bytes(dst)
    t = tcp(s, d, sport, dport, seq, ack, flags, payload, **kw)
    if len(s) == 4:
        return eth(mac_dst, mac_src, 0x0800, ipv4(s, d, 6, t))
    return eth(mac_dst, mac_src, 0x86DD, ipv6(s, d, 6, t))


# ---------- independent parser of reply frames (used by projections) ----------
class Parsed:
    pass


def parse_frame(f: bytes):
    """Parse a reply frame into a simple object; returns None when not parseable."""
    if f is None or len(f) < 14:
        return None
    p = Parsed()
    p.raw = f
    p.mac_dst, p.mac_src = f[0:6], f[6:12]
    p.ety = struct.unpack("!H", f[12:14])[0]
    p.l3 = f[14:]
    p.ipver = None
    p.proto = None
    p.l4 = None
    p.app = None
    if p.ety == 0x0800 and len(p.l3) >= 20:
        p.ipver = 4
        p.ihl = p.l3[0] & 0xF
        p.total = struct.unpack("!H", p.l3[2:4])[0]
        p.ttl = p.l3[8]
        p.proto = p.l3[9]
        p.ip_src, p.ip_dst = p.l3[12:16], p.l3[16:20]
        p.l4 = p.l3[p.ihl * 4:]
    elif p.ety == 0x86DD and len(p.l3) >= 40:
        p.ipver = 6
        p.plen = struct.unpack("!H", p.l3[4:6])[0]
        p.proto = p.l3[6]
        p.hlim = p.l3[7]
        p.ip_src, p.ip_dst = p.l3[8:24], p.l3[24:40]
        p.l4 = p.l3[40:]
    elif p.ety == 0x0806:
        p.arp = p.l3
    if p.l4 is not None:
        if p.proto == 6 and len(p.l4) >= 20:
            (p.sport, p.dport, p.seq, p.ack, b12, fl, p.win, p.cks, _) = struct.unpack("!HHIIBBHHH", p.l4[:20])
            p.flags = ((b12 & 1) << 8) | fl
            p.doff = b12 >> 4
            p.app = p.l4[p.doff * 4:]
        elif p.proto == 17 and len(p.l4) >= 8:
            (p.sport, p.dport, p.ulen, p.cks) = struct.unpack("!HHHH", p.l4[:8])
            p.app = p.l4[8:]
        elif p.proto in (1, 58) and len(p.l4) >= 4:
            p.icmp_type, p.icmp_code = p.l4[0], p.l4[1]
            p.app = p.l4[4:]
    return p


def icmp6_rest(l4: bytes) -> bytes:
    """what follows type / code / checksum; for a Neighbour Advertisement the flag word is reduced to the two flags the
    properties state (Solicited, Override): the Router flag and the reserved bits are left free"""
    r = bytes(l4[4:])
    if l4[0] == 136 and len(r) >= 4:
        r = bytes([r[0] & 0x60, 0, 0, 0]) + r[4:]
    return r


def tcp_optlen(f: bytes) -> int:
    p = parse_frame(f)
    return p.doff * 4 - 20 if p is not None and p.proto == 6 and p.app is not None and p.doff >= 5 else 0


def norm_frame(f: bytes, app_fn=None):
    """(app_fn: applied to a TCP / UDP payload before it is reported, e.g. runner.mask_app; every length field is then
    reported minus the number of bytes app_fn removed, so that two replies whose only difference is the width of a
    wall-clock value -- chrono prints the day of the month unpadded, 'Fri, 2 Oct' / 'Sat, 10 Oct' -- compare equal.)
    An emitted frame reduced to what the properties determine: MACs, EtherType, addresses, protocol, length fields,
    fragment bits, ports, seq / ack / flags / data offset, payload, ICMP type / code / rest; TTL, hop limit and TCP
    window only as the predicates the properties state (>= 1, == 255, != 0); every checksum only as 'valid'. Fields no
    property mentions (TOS, IPv4 identification, traffic class, flow label, urgent pointer) are dropped. Used wherever
    two whole frames are compared, so that a change of an unconstrained field does not break a correspondence."""
    p = parse_frame(f)
    if p is None:
        return ("raw", f)
    t = (p.mac_dst, p.mac_src, p.ety)
    if p.ety == 0x0806:
        return t + ("arp", p.arp)
    app, cut = (bytes(p.app) if p.app is not None else None), 0
    if p.proto == 6 and p.app is not None and p.doff >= 5:
        cut = p.doff * 4 - 20        # TCP options are left free by the properties: lengths are reported without them
    if app_fn is not None and app is not None and p.proto in (6, 17):
        app2 = app_fn(app)
        cut, app = cut + len(app) - len(app2), app2
    if p.ipver == 4:
        hdr = p.l3[:p.ihl * 4]
        t += (4, p.ihl, p.total - cut, p.l3[6:8], p.ttl >= 1, p.proto, p.ip_src, p.ip_dst, csum(hdr) == 0)
        ps = lambda ln: pseudo(p.ip_src, p.ip_dst, p.proto, ln)
    elif p.ipver == 6:
        t += (6, p.plen - cut, p.proto, p.hlim >= 1, p.hlim == 255, p.ip_src, p.ip_dst)
        ps = lambda ln: pseudo(p.ip_src, p.ip_dst, p.proto, ln)
    else:
        return t + ("l3", p.l3)
    l4 = p.l4
    if p.proto == 6 and p.app is not None:
        return t + ("tcp", p.sport, p.dport, p.seq, p.ack, p.doff >= 5, p.flags, p.win != 0, csum(ps(len(l4)) + l4) == 0, app)
    if p.proto == 17 and p.app is not None:
        ok = (p.cks == 0 and p.ipver == 4) or csum(ps(len(l4)) + l4) == 0
        return t + ("udp", p.sport, p.dport, p.ulen - cut, p.cks != 0, ok, app)
    if p.proto == 1 and l4 is not None and len(l4) >= 4:
        return t + ("icmp4", l4[0], l4[1], csum(l4) == 0, l4[4:])
    if p.proto == 58 and l4 is not None and len(l4) >= 4:
        return t + ("icmp6", l4[0], l4[1], csum(ps(len(l4)) + l4) == 0, icmp6_rest(l4))
    return t + ("l4", l4)


# ---------- SipHash-2-4 / SYN cookie (independent Python implementation) ----------
def _rotl(x, b):
    return ((x << b) | (x >> (64 - b))) & 0xFFFFFFFFFFFFFFFF


def siphash24(k0, k1, msg: bytes) -> int:
    M = 0xFFFFFFFFFFFFFFFF
    v0, v1, v2, v3 = k0 ^ 0x736f6d6570736575, k1 ^ 0x646f72616e646f6d, k0 ^ 0x6c7967656e657261, k1 ^ 0x7465646279746573

    def rnd(v0, v1, v2, v3):
        v0 = (v0 + v1) & M; v1 = _rotl(v1, 13); v1 ^= v0; v0 = _rotl(v0, 32)
        v2 = (v2 + v3) & M; v3 = _rotl(v3, 16); v3 ^= v2
        v0 = (v0 + v3) & M; v3 = _rotl(v3, 21); v3 ^= v0
        v2 = (v2 + v1) & M; v1 = _rotl(v1, 17); v1 ^= v2; v2 = _rotl(v2, 32)
        return v0, v1, v2, v3
    n = len(msg)
    for i in range(0, n - n % 8, 8):
        m = int.from_bytes(msg[i:i + 8], "little")
        v3 ^= m
        v0, v1, v2, v3 = rnd(*rnd(v0, v1, v2, v3))
        v0 ^= m
    b = ((n & 0xFF) << 56) | int.from_bytes(msg[n - n % 8:], "little")
    v3 ^= b
    v0, v1, v2, v3 = rnd(*rnd(v0, v1, v2, v3))
    v0 ^= b
    v2 ^= 0xFF
    for _ in range(4):
        v0, v1, v2, v3 = rnd(v0, v1, v2, v3)
    return v0 ^ v1 ^ v2 ^ v3


def cookie(key, src, dst, sport, dport) -> int:
    s, d = ip_bytes(src), ip_bytes(dst)
    msg = s[::-1] + d[::-1] + struct.pack("<HH", sport, dport)
    return siphash24(key[0], key[1], msg) & 0xFFFFFFFF
