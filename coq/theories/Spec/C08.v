(* Spec/C08.v -- flows do not interfere: a reply depends only on the frame and its own flow. *)
From MS Require Export Spec.TcpRef Spec.History.

(* data segments of a given flow *)
Definition own_data (cfg : config) (fl : flow) (g : bytes) : bool :=
  match view_tcp cfg g with
  | Some v => is_data (tcp_flags (v_l4 v)) && flow_eqb (flow_of v) fl
  | None => false
  end.

Definition restrict (cfg : config) (fl : flow) (h : list (clock * bytes)) : list (clock * bytes) :=
  filter (fun cf => own_data cfg fl (snd cf)) h.

(* no data segment of another flow in the history shares the cookie of [fl] *)
Definition no_collision_with (cfg : config) (fl : flow) (h : list (clock * bytes)) : Prop :=
  forall clk g v, In (clk, g) h -> view_tcp cfg g = Some v -> is_data (tcp_flags (v_l4 v)) = true ->
    flow_cookie cfg (flow_of v) = flow_cookie cfg fl -> flow_of v = fl.

(* the observable outcome of processing one frame *)
Definition outcome (E : env) (cfg : config) (clk : clock) (tb : table) (f : bytes) : res (option bytes) :=
  match reply E cfg clk tb f with
  | Ok (_, r, _) => Ok r
  | Panic s => Panic s
  end.

(* executable form of the collision class: [g] is a data segment of ANOTHER flow
   whose SYN cookie equals that of [fl] (C08 known finding: the connection table
   is keyed by the 32-bit cookie only) *)
Definition collides (cfg : config) (fl : flow) (g : bytes) : bool :=
  match view_tcp cfg g with
  | Some v => is_data (tcp_flags (v_l4 v)) &&
              (flow_cookie cfg (flow_of v) =? flow_cookie cfg fl) &&
              negb (flow_eqb (flow_of v) fl)
  | None => false
  end.

Definition collision_free (cfg : config) (fl : flow) (h : list (clock * bytes)) : bool :=
  forallb (fun cf => negb (collides cfg fl (snd cf))) h.

(* monitor used by the harness on the implementation: the outcome of the probe
   frame after the full history and after the restricted history *)
Definition own_data_of_frame (cfg : config) (f g : bytes) : bool :=
  match view_tcp cfg f with
  | Some v => own_data cfg (flow_of v) g
  | None => false
  end.
Definition collides_with_frame (cfg : config) (f g : bytes) : bool :=
  match view_tcp cfg f with
  | Some v => collides cfg (flow_of v) g
  | None => false
  end.
