(* Spec/C06.v -- SYN policy mimics Linux; SYN-ACK acks seq+1 with a deterministic cookie. *)
From MS Require Export Bytes Types Cookie L4 Spec.RefDec Spec.View.

(* the property's flag rule, written from its text: besides SYN only PSH, URG,
   CWR, ECE may be set, and not CWR together with ECE *)
Definition linux_ok (fl : N) : bool :=
  testbit fl 2 &&
  negb (testbit fl 1) && negb (testbit fl 4) && negb (testbit fl 16) && negb (testbit fl 256) &&
  negb (testbit fl 128 && testbit fl 64).

Definition has_syn (fl : N) : bool := testbit fl 2.

(* monitor: [r] is what was emitted in answer to frame [f] *)
Definition ok_C06 (cfg : config) (f : bytes) (r : option bytes) : bool :=
  match view_tcp cfg f with
  | None => true
  | Some v =>
    let p := v_l4 v in
    let fl := tcp_flags p in
    if negb (has_syn fl) then true
    else if linux_ok fl then
      match r with
      | None => false
      | Some rf =>
        match dec_frame_tcp rf with
        | None => false
        | Some (_, _, t) =>
          (dt_flags t =? 18) &&
          (dt_ack t =? wrap32 (u32_at 4 p + 1)) &&
          (length (dt_payload t) =? 0)%nat &&
          (dt_seq t =? cookie (c_key0 cfg) (c_key1 cfg) (v_src v) (v_dst v) (u16_at 0 p) (u16_at 2 p))
        end
      end
    else
      match r with
      | None => true
      | Some rf =>
        match dec_frame_tcp rf with
        | None => true
        | Some (_, _, t) => negb (dt_flags t =? 18)
        end
      end
  end.
