(* Tactics.v -- shared proof infrastructure. *)
From Coq Require Export ZArith Lia ZifyN ZifyNat ZifyBool.
From MS Require Export Bytes.
Ltac Zify.zify_post_hook ::= Z.div_mod_to_equations.

#[global] Arguments N.add : simpl never.
#[global] Arguments N.mul : simpl never.
#[global] Arguments N.div : simpl never.
#[global] Arguments N.modulo : simpl never.
#[global] Arguments N.sub : simpl never.
#[global] Arguments N.eqb : simpl never.
#[global] Arguments N.ltb : simpl never.
#[global] Arguments N.leb : simpl never.
#[global] Arguments N.land : simpl never.
#[global] Arguments N.lxor : simpl never.
#[global] Arguments N.of_nat : simpl never.
#[global] Arguments N.to_nat : simpl never.

Lemma len2 (l : bytes) : length l = 2%nat -> exists a b, l = [a; b].
Proof. destruct l as [|a [|b [|c l]]]; cbn; try discriminate; intros _; eauto. Qed.
Lemma len4 (l : bytes) : length l = 4%nat -> exists a b c d, l = [a; b; c; d].
Proof. destruct l as [|a [|b [|c [|d [|e l]]]]]; cbn; try discriminate; intros _; eauto 10. Qed.
Lemma len6 (l : bytes) : length l = 6%nat -> exists a b c d e f, l = [a; b; c; d; e; f].
Proof. destruct l as [|a [|b [|c [|d [|e [|f [|g l]]]]]]]; cbn; try discriminate; intros _; eauto 10. Qed.
Lemma len16 (l : bytes) : length l = 16%nat ->
  exists a0 a1 a2 a3 a4 a5 a6 a7 a8 a9 a10 a11 a12 a13 a14 a15,
    l = [a0; a1; a2; a3; a4; a5; a6; a7; a8; a9; a10; a11; a12; a13; a14; a15].
Proof.
  destruct l as [|a0 [|a1 [|a2 [|a3 [|a4 [|a5 [|a6 [|a7 [|a8 [|a9 [|a10 [|a11 [|a12 [|a13 [|a14 [|a15 [|a16 l]]]]]]]]]]]]]]]]];
    cbn; try discriminate; intros _; eauto 20.
Qed.

(* turn hypotheses [length l = 4/6/16] into explicit lists *)
Ltac explode_lists :=
  repeat match goal with
  | H : length ?l = 2%nat |- _ => is_var l;
      let a := fresh "b" in let b := fresh "b" in
      destruct (len2 l H) as (a & b & ->); clear H
  | H : length ?l = 4%nat |- _ => is_var l;
      let a := fresh "b" in let b := fresh "b" in let c := fresh "b" in let d := fresh "b" in
      destruct (len4 l H) as (a & b & c & d & ->); clear H
  | H : length ?l = 6%nat |- _ => is_var l;
      let a := fresh "b" in let b := fresh "b" in let c := fresh "b" in let d := fresh "b" in
      let e := fresh "b" in let f := fresh "b" in
      destruct (len6 l H) as (a & b & c & d & e & f & ->); clear H
  | H : length ?l = 16%nat |- _ => is_var l;
      destruct (len16 l H) as (? & ? & ? & ? & ? & ? & ? & ? & ? & ? & ? & ? & ? & ? & ? & ? & ->); clear H
  end.

(* list-level computation that leaves N arithmetic alone *)
Ltac list_cbn :=
  cbn [app firstn skipn length nth Nat.ltb Nat.leb Nat.add Nat.sub Nat.mul Nat.eqb Nat.min rev
       hd tl fst snd negb andb orb].

Lemma bool_true_iff_eq (b : bool) : b = true <-> (if b then True else False).
Proof. destruct b; intuition congruence. Qed.

(* generic facts *)
Lemma slice_length (off len : nat) (l : bytes) :
  (off + len <= length l)%nat -> length (slice off len l) = len.
Proof. intros H. unfold slice. rewrite firstn_length, skipn_length. lia. Qed.

Lemma lenN_app (a b : bytes) : lenN (a ++ b) = lenN a + lenN b.
Proof. unfold lenN. rewrite app_length. lia. Qed.

Lemma forallb_nth (f : N -> bool) (l : bytes) (i : nat) :
  forallb f l = true -> f 0 = true -> f (nth i l 0) = true.
Proof.
  intros H H0. destruct (Nat.lt_ge_cases i (length l)) as [Hi | Hi].
  - rewrite forallb_forall in H. apply H. apply nth_In. exact Hi.
  - rewrite nth_overflow by exact Hi. exact H0.
Qed.

Lemma u8_at_lt (i : nat) (l : bytes) : bytes_ok l = true -> u8_at i l < 256.
Proof.
  intros H. unfold u8_at.
  pose proof (forallb_nth byte_ok l i H eq_refl) as Hb. unfold byte_ok in Hb. lia.
Qed.
Lemma u16_at_lt (i : nat) (l : bytes) : bytes_ok l = true -> u16_at i l < 65536.
Proof.
  intros H. unfold u16_at. pose proof (u8_at_lt i l H). pose proof (u8_at_lt (S i) l H). lia.
Qed.
Lemma u32_at_lt (i : nat) (l : bytes) : bytes_ok l = true -> u32_at i l < 4294967296.
Proof.
  intros H. unfold u32_at. pose proof (u16_at_lt i l H). pose proof (u16_at_lt (S (S i)) l H). lia.
Qed.

Lemma bytes_ok_app (a b : bytes) : bytes_ok (a ++ b) = bytes_ok a && bytes_ok b.
Proof. unfold bytes_ok. apply forallb_app. Qed.
Lemma bytes_ok_skipn (n : nat) (l : bytes) : bytes_ok l = true -> bytes_ok (skipn n l) = true.
Proof.
  intros H. unfold bytes_ok in *. rewrite forallb_forall in *. intros x Hx. apply H.
  rewrite <- (firstn_skipn n l). apply in_or_app. right. exact Hx.
Qed.
Lemma bytes_ok_firstn (n : nat) (l : bytes) : bytes_ok l = true -> bytes_ok (firstn n l) = true.
Proof.
  intros H. unfold bytes_ok in *. rewrite forallb_forall in *. intros x Hx. apply H.
  rewrite <- (firstn_skipn n l). apply in_or_app. left. exact Hx.
Qed.
Lemma bytes_ok_slice (o n : nat) (l : bytes) : bytes_ok l = true -> bytes_ok (slice o n l) = true.
Proof. intros H. unfold slice. apply bytes_ok_firstn, bytes_ok_skipn, H. Qed.

Lemma bytes_eqb_eq (a b : bytes) : bytes_eqb a b = true <-> a = b.
Proof.
  revert b. induction a as [|x a IH]; intros [|y b]; cbn; try (split; congruence).
  rewrite andb_true_iff, N.eqb_eq, IH. split; [intros [-> ->]; reflexivity | intros H; inversion H; auto].
Qed.
