(* C08Witness.v -- the statement of C08 is FALSE without the no-collision
   hypothesis: the connection table is keyed by the 32-bit SYN cookie alone, so
   two flows whose cookies collide share validation and parser state. Concrete
   witness for key (1,2): 10.0.1.9:11544 and 10.0.1.9:62702 -> 10.0.0.1:80 both
   have cookie 3035758244. After the first flow has validated, a data segment of
   the second flow with a wrong acknowledgement number is ACKed; without the
   first flow's traffic it is ignored. (Known finding, see known_findings.txt;
   the same frames are replayed against the implementation by the C08 check.) *)
From MS Require Import L2 Spec.View Spec.TcpRef Spec.C08 Spec.History Instance.

Definition w_cfg : config :=
  {| c_mac := [192; 255; 238; 192; 255; 238]; c_self := None; c_deny := None;
     c_key0 := 1; c_key1 := 2; c_level := 5; c_ovf := true |}.
Definition w_clk : clock := {| clk_date := []; clk_filetime := 0 |}.

(* flow A, PSH|ACK acknowledging cookie+1 (validates A) *)
Definition w_a : bytes :=
  [192; 255; 238; 192; 255; 238; 10; 11; 12; 13; 14; 15; 8; 0; 69; 0; 0; 41; 0; 0; 64; 0; 64; 6; 37; 198;
   10; 0; 1; 9; 10; 0; 0; 1; 45; 24; 0; 80; 0; 0; 0; 100; 180; 241; 254; 165; 80; 24; 32; 0; 33; 94; 0; 0; 120].
(* flow B, PSH|ACK with acknowledgement number 5 (not B's cookie + 1) *)
Definition w_b : bytes :=
  [192; 255; 238; 192; 255; 238; 10; 11; 12; 13; 14; 15; 8; 0; 69; 0; 0; 41; 0; 0; 64; 0; 64; 6; 37; 198;
   10; 0; 1; 9; 10; 0; 0; 1; 244; 238; 0; 80; 0; 0; 0; 200; 0; 0; 0; 5; 80; 24; 32; 0; 11; 182; 0; 0; 121].

Definition w_h : list (clock * bytes) := [(w_clk, w_a)].

Theorem refuted_on_collision :
  exists cfg h clk f v tb1 tb2,
    view_tcp cfg f = Some v /\
    collision_free cfg (flow_of v) h = false /\
    run the_env cfg [] h = Ok tb1 /\
    run the_env cfg [] (restrict cfg (flow_of v) h) = Ok tb2 /\
    outcome the_env cfg clk tb1 f <> outcome the_env cfg clk tb2 f.
Proof.
  eexists w_cfg, w_h, w_clk, w_b, _, _, _.
  split; [vm_compute; reflexivity|].
  split; [vm_compute; reflexivity|].
  split; [vm_compute; reflexivity|].
  split; [vm_compute; reflexivity|].
  vm_compute. discriminate.
Qed.
