(* Proofs/C11.v -- segmentation independence at the level of the TCP application layer. *)
From MS Require Import Proofs.Tactics Proto Spec.AppView Spec.C11.

(* ---------- ONC-RPC over TCP ---------- *)
Lemma rpc_parse_app s a b : rpc_parse (rpc_parse s a) b = rpc_parse s (a ++ b).
Proof. unfold rpc_parse. rewrite fold_left_app. reflexivity. Qed.

Lemma rpc_repl_tcp_app s ip port a b :
  rpc_repl_tcp (rpc_parse s a) ip port b =
  (rpc_parse s (a ++ b), snd (rpc_repl_tcp s ip port (a ++ b))).
Proof. unfold rpc_repl_tcp. rewrite rpc_parse_app. destruct (_ =? R_END); reflexivity. Qed.

Definition rpc_tcb (st : N) (acc : bytes) : tcb :=
  {| t_smack := st; t_proto := PROTO_RPC_TCP; t_pstate := Some (PRpc (rpc_parse (rpc_new R_FRAG) acc)) |}.

(* once the flow is identified as RPC, each further segment continues the same parser *)
Lemma rpc_stream_tail E clk ci ip port :
  ci_ip_dst ci = Some ip -> ci_port_dst ci = Some port ->
  forall segs st acc,
    tcp_stream E clk ci (rpc_tcb st acc) segs = Ok (map (rpc_expected ip port) (boundaries acc segs)).
Proof.
  intros Hip Hport. induction segs as [|s rest IH]; intros st acc; [reflexivity|].
  cbn [tcp_stream boundaries map]. unfold rpc_tcb in *.
  unfold proto_repl_tcp at 1. cbn [t_proto].
  change (PROTO_RPC_TCP =? PROTO_NONE) with false. cbv iota.
  unfold dispatch. cbn [t_proto].
  change (PROTO_RPC_TCP =? PROTO_HTTP) with false. change (PROTO_RPC_TCP =? PROTO_STUN) with false.
  change (PROTO_RPC_TCP =? PROTO_SSH) with false. change (PROTO_RPC_TCP =? PROTO_GHOST) with false.
  change (PROTO_RPC_TCP =? PROTO_RPC_TCP) with true. cbv iota.
  rewrite Hip, Hport. cbn [t_pstate t_smack].
  rewrite rpc_repl_tcp_app. cbn [bind].
  rewrite IH. cbn [bind]. reflexivity.
Qed.

Theorem rpc_stream E clk ci ip port s rest :
  ci_ip_dst ci = Some ip -> ci_port_dst ci = Some port ->
  tcp_first_id E s = Some PROTO_RPC_TCP ->
  tcp_stream E clk ci tcb_new (s :: rest) = Ok (map (rpc_expected ip port) (boundaries [] (s :: rest))).
Proof.
  intros Hip Hport Hid. cbn [tcp_stream boundaries map app].
  unfold proto_repl_tcp at 1. change (t_proto tcb_new =? PROTO_NONE) with true. cbv iota.
  unfold tcp_first_id in Hid. change (t_smack tcb_new) with BASE_STATE.
  destruct (search_next (e_proto_tbl E) BASE_STATE s) as [[id st] n]. subst id. cbn [id_of t_proto t_pstate tcb_new].
  unfold dispatch.
  change (PROTO_RPC_TCP =? PROTO_HTTP) with false. change (PROTO_RPC_TCP =? PROTO_STUN) with false.
  change (PROTO_RPC_TCP =? PROTO_SSH) with false. change (PROTO_RPC_TCP =? PROTO_GHOST) with false.
  change (PROTO_RPC_TCP =? PROTO_RPC_TCP) with true. cbv iota.
  rewrite Hip, Hport. unfold tcb_new. cbn [t_pstate t_smack t_proto].
  destruct (rpc_repl_tcp (rpc_new R_FRAG) ip port s) as [r' out] eqn:Hr. cbn [bind].
  assert (r' = rpc_parse (rpc_new R_FRAG) ([] ++ s)) as -> by (unfold rpc_repl_tcp in Hr; destruct (_ =? R_END); inversion Hr; reflexivity).
  pose proof (rpc_stream_tail E clk ci ip port Hip Hport rest st ([] ++ s)) as T. unfold rpc_tcb in T.
  rewrite T. cbn [bind app].
  do 2 f_equal. unfold rpc_expected. rewrite Hr. reflexivity.
Qed.

