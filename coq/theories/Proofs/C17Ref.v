(* C17Ref.v -- coherence of the reference codec of Spec/RefSmb.v: every request reader
   reads its encoder back (for all well-formed requests, any trailing bytes), and the
   classification of Spec/C17.v is complete: a well-formed request lying within the
   announced NetBIOS session message is classified as itself (with C17Mon.classify_sound:
   the classification is exact). *)
From MS Require Import Proofs.Tactics Smb Proofs.SmbSafe Proofs.SmbLen Spec.RefSmb Spec.C17
  Proofs.C17Lib Proofs.C17Smb1 Proofs.C17Smb2.
Open Scope N_scope.

Lemma rd_take_lenN (a t : bytes) : rd_take (N.to_nat (lenN a)) (a ++ t) = Some (a, t).
Proof. apply rd_take_app. unfold lenN. rewrite Nat2N.id. reflexivity. Qed.

Lemma rd_setup2_req_ser q tail : setup2_req_wf q = true ->
  rd_setup2_req (ser_setup2_req q ++ tail) = Some (q, tail).
Proof.
  intros Hwf. unfold setup2_req_wf in Hwf. split_wf Hwf. wf_lt. unfold W64' in *. fold W64 in *.
  unfold ser_setup2_req, rd_setup2_req. rewrite <- !app_assoc.
  rewrite rd_le16_le16 by lia. change (25 =? 25) with true. cbn [negb app rd_u8].
  rewrite !rd_le32_le32 by assumption. rewrite !rd_le16_le16 by assumption.
  rewrite rd_le64_le64 by assumption.
  replace (88 + lenN (sq2_pad q) <? 88) with false by (symmetry; apply N.ltb_ge; lia).
  replace (88 + lenN (sq2_pad q) - 88) with (lenN (sq2_pad q)) by lia.
  rewrite rd_take_lenN, rd_take_lenN. destruct q; reflexivity.
Qed.

Lemma rd_dialects2_ser : forall ds tail, forallb (fun d => d <? 65536) ds = true ->
  rd_dialects2 (length ds) (ser_dialects2 ds ++ tail) = Some (ds, tail).
Proof.
  induction ds as [|d ds IH]; intros tail H; [reflexivity|].
  cbn [forallb] in H. apply andb_true_iff in H. destruct H as [Hd H]. apply N.ltb_lt in Hd.
  change (ser_dialects2 (d :: ds)) with (le16 d ++ ser_dialects2 ds). rewrite <- app_assoc.
  cbn [length rd_dialects2]. rewrite rd_le16_le16 by exact Hd. rewrite IH by exact H. reflexivity.
Qed.

Lemma rd_neg2_req_ser q tail : neg2_req_wf q = true ->
  rd_neg2_req (ser_neg2_req q ++ tail) = Some (q, tail).
Proof.
  intros Hwf. unfold neg2_req_wf in Hwf. split_wf Hwf. wf_lt. unfold W64' in *. fold W64 in *.
  unfold ser_neg2_req, rd_neg2_req. rewrite <- !app_assoc.
  rewrite rd_le16_le16 by lia. change (36 =? 36) with true. cbn [negb].
  rewrite rd_le16_le16 by assumption.
  replace (N.of_nat (length (nq2_dialects q)) =? 0) with false by (symmetry; apply N.eqb_neq; lia).
  rewrite !rd_le16_le16 by assumption. rewrite rd_le32_le32 by assumption.
  rewrite rd_take_app by assumption. rewrite rd_le64_le64 by assumption.
  rewrite Nat2N.id. rewrite rd_dialects2_ser by assumption. destruct q; reflexivity.
Qed.

Lemma rd_setup1_req_ser q tail : setup1_req_wf q = true ->
  rd_setup1_req (ser_setup1_req q ++ tail) = Some (q, tail).
Proof.
  intros Hwf. unfold setup1_req_wf in Hwf. split_wf Hwf. wf_lt.
  unfold ser_setup1_req, rd_setup1_req. rewrite <- !app_assoc. cbn [app rd_u8].
  change (12 =? 12) with true. cbn [negb].
  rewrite !rd_le16_le16 by assumption. rewrite rd_le32_le32 by assumption.
  rewrite rd_le16_le16 by lia. rewrite !rd_le32_le32 by assumption. rewrite rd_le16_le16 by assumption.
  replace (lenN (sq1_blob q) + lenN (sq1_strings q) <? lenN (sq1_blob q)) with false
    by (symmetry; apply N.ltb_ge; lia).
  rewrite <- lenN_app. rewrite app_assoc. rewrite rd_take_lenN.
  rewrite firstn_lenN_app, skipn_lenN_app. destruct q; reflexivity.
Qed.

Lemma split_nul_piece : forall d rest cur, no_nul d = true ->
  split_nul (d ++ 0 :: rest) cur = (rev cur ++ d) :: split_nul rest [].
Proof.
  induction d as [|c d IH]; intros rest cur H.
  - cbn [app split_nul]. change (0 =? 0) with true. cbv iota. rewrite app_nil_r. reflexivity.
  - cbn [no_nul forallb] in H. apply andb_true_iff in H. destruct H as [Hc H]. apply negb_true_iff in Hc.
    cbn [app split_nul]. rewrite Hc. rewrite IH by exact H. cbn [rev]. rewrite <- app_assoc. reflexivity.
Qed.

Lemma split_nul_dialects : forall ds, forallb (fun d => no_nul d && bytes_ok d) ds = true ->
  split_nul (ser_dialects ds) [] = map (cons 2) ds ++ [[]].
Proof.
  induction ds as [|d ds IH]; intros H; [reflexivity|].
  cbn [forallb] in H. apply andb_true_iff in H. destruct H as [Hd H]. apply andb_true_iff in Hd. destruct Hd as [Hn _].
  change (ser_dialects (d :: ds)) with (ser_dialect d ++ ser_dialects ds).
  unfold ser_dialect. rewrite <- !app_assoc. cbn [app].
  change (2 :: d ++ 0 :: ser_dialects ds) with ((2 :: d) ++ 0 :: ser_dialects ds).
  rewrite split_nul_piece by (cbn [no_nul forallb]; change (negb (2 =? 0)) with true; exact Hn).
  rewrite IH by exact H. reflexivity.
Qed.

Lemma strip_format_map ds : strip_format (map (cons 2) ds) = Some ds.
Proof.
  induction ds as [|d ds IH]; [reflexivity|]. cbn [map strip_format]. change (2 =? 2) with true. cbv iota.
  rewrite IH. reflexivity.
Qed.

Lemma dialects_of_ser ds : forallb (fun d => no_nul d && bytes_ok d) ds = true ->
  dialects_of (ser_dialects ds) = Some ds.
Proof.
  intros H. unfold dialects_of. rewrite split_nul_dialects by exact H.
  rewrite rev_app_distr. cbn [rev app]. rewrite rev_involutive. apply strip_format_map.
Qed.

Lemma rd_neg1_req_ser ds tail : neg1_req_wf ds = true ->
  rd_neg1_req (ser_neg1_req ds ++ tail) = Some (ds, tail).
Proof.
  intros Hwf. unfold neg1_req_wf in Hwf. apply andb_true_iff in Hwf. destruct Hwf as [Hd Hl]. apply N.ltb_lt in Hl.
  unfold ser_neg1_req, rd_neg1_req. rewrite <- !app_assoc. cbn [app rd_u8].
  change (0 =? 0) with true. cbn [negb].
  rewrite rd_le16_le16 by exact Hl. rewrite rd_take_lenN. rewrite dialects_of_ser by exact Hd. reflexivity.
Qed.

(* ---------- the classification is complete: a well-formed request lying within the
   announced session message is classified as itself ---------- *)
Lemma is_prefix_refl_app a : forall t, is_prefix a (a ++ t) = true.
Proof. induction a as [|x a IH]; intros t; [reflexivity|]. cbn [app is_prefix]. rewrite N.eqb_refl, IH. reflexivity. Qed.

Lemma rd_nbt_req_hdr len rest : len < 65536 -> rd_nbt (nbt_req_hdr len ++ rest) = Some (len, rest).
Proof.
  intros H. unfold nbt_req_hdr, be16, rd_nbt. cbn [app]. change ((0 =? 0) && (0 <? 2)) with true. cbv iota.
  f_equal. f_equal. lia.
Qed.

Lemma smb1_magic_not_smb2 h t : rd_smb1_hdr (ser_smb2_hdr h ++ t) = None.
Proof.
  unfold ser_smb2_hdr, rd_smb1_hdr. rewrite <- !app_assoc. rewrite rd_take_app by reflexivity. reflexivity.
Qed.

Theorem classify_neg1 h ds tail len :
  smb1_hdr_wf h = true -> neg1_req_wf ds = true -> smb1_is_request h = true ->
  sh1_command h = SMB_COM_NEGOTIATE ->
  lenN (ser_smb1_hdr h ++ ser_neg1_req ds) <= len -> len < 65536 ->
  classify (nbt_req_hdr len ++ ser_smb1_hdr h ++ ser_neg1_req ds ++ tail) = Some (RqNeg1 h ds).
Proof.
  intros Hwf Hq Hreq Hcmd Hlen Hl. unfold classify. rewrite rd_nbt_req_hdr by exact Hl.
  replace (len <? 65536) with true by (symmetry; apply N.ltb_lt; exact Hl). cbn [negb].
  rewrite rd_smb1_hdr_ser by exact Hwf. rewrite Hwf, is_prefix_refl_app, Hreq. cbn [andb negb].
  rewrite Hcmd. change (SMB_COM_NEGOTIATE =? SMB_COM_NEGOTIATE) with true. cbv iota.
  rewrite rd_neg1_req_ser by exact Hq. rewrite Hq. cbn [andb].
  replace (lenN (ser_smb1_hdr h ++ ser_neg1_req ds) <=? len) with true by (symmetry; apply N.leb_le; exact Hlen).
  rewrite app_assoc, is_prefix_refl_app. reflexivity.
Qed.

Theorem classify_setup1 h q tail len :
  smb1_hdr_wf h = true -> setup1_req_wf q = true -> smb1_is_request h = true ->
  sh1_command h = SMB_COM_SESSION_SETUP_ANDX ->
  lenN (ser_smb1_hdr h ++ ser_setup1_req q) <= len -> len < 65536 ->
  classify (nbt_req_hdr len ++ ser_smb1_hdr h ++ ser_setup1_req q ++ tail) = Some (RqSetup1 h q).
Proof.
  intros Hwf Hq Hreq Hcmd Hlen Hl. unfold classify. rewrite rd_nbt_req_hdr by exact Hl.
  replace (len <? 65536) with true by (symmetry; apply N.ltb_lt; exact Hl). cbn [negb].
  rewrite rd_smb1_hdr_ser by exact Hwf. rewrite Hwf, is_prefix_refl_app, Hreq. cbn [andb negb].
  rewrite Hcmd. change (SMB_COM_SESSION_SETUP_ANDX =? SMB_COM_NEGOTIATE) with false.
  change (SMB_COM_SESSION_SETUP_ANDX =? SMB_COM_SESSION_SETUP_ANDX) with true. cbv iota.
  rewrite rd_setup1_req_ser by exact Hq. rewrite Hq. cbn [andb].
  replace (lenN (ser_smb1_hdr h ++ ser_setup1_req q) <=? len) with true by (symmetry; apply N.leb_le; exact Hlen).
  rewrite app_assoc, is_prefix_refl_app. reflexivity.
Qed.

Theorem classify_neg2 h q tail len :
  smb2_hdr_wf h = true -> neg2_req_wf q = true -> smb2_is_request h = true ->
  sh2_command h = SMB2_NEGOTIATE ->
  lenN (ser_smb2_hdr h ++ ser_neg2_req q) <= len -> len < 65536 ->
  classify (nbt_req_hdr len ++ ser_smb2_hdr h ++ ser_neg2_req q ++ tail) = Some (RqNeg2 h q).
Proof.
  intros Hwf Hq Hreq Hcmd Hlen Hl. unfold classify. rewrite rd_nbt_req_hdr by exact Hl.
  replace (len <? 65536) with true by (symmetry; apply N.ltb_lt; exact Hl). cbn [negb].
  rewrite smb1_magic_not_smb2.
  rewrite rd_smb2_hdr_ser by exact Hwf. rewrite Hwf, is_prefix_refl_app, Hreq. cbn [andb negb].
  rewrite Hcmd. change (SMB2_NEGOTIATE =? SMB2_NEGOTIATE) with true. cbv iota.
  rewrite rd_neg2_req_ser by exact Hq. rewrite Hq. cbn [andb].
  replace (lenN (ser_smb2_hdr h ++ ser_neg2_req q) <=? len) with true by (symmetry; apply N.leb_le; exact Hlen).
  rewrite app_assoc, is_prefix_refl_app. reflexivity.
Qed.

Theorem classify_setup2 h q tail len :
  smb2_hdr_wf h = true -> setup2_req_wf q = true -> smb2_is_request h = true ->
  sh2_command h = SMB2_SESSION_SETUP ->
  lenN (ser_smb2_hdr h ++ ser_setup2_req q) <= len -> len < 65536 ->
  classify (nbt_req_hdr len ++ ser_smb2_hdr h ++ ser_setup2_req q ++ tail) = Some (RqSetup2 h q).
Proof.
  intros Hwf Hq Hreq Hcmd Hlen Hl. unfold classify. rewrite rd_nbt_req_hdr by exact Hl.
  replace (len <? 65536) with true by (symmetry; apply N.ltb_lt; exact Hl). cbn [negb].
  rewrite smb1_magic_not_smb2.
  rewrite rd_smb2_hdr_ser by exact Hwf. rewrite Hwf, is_prefix_refl_app, Hreq. cbn [andb negb].
  rewrite Hcmd. change (SMB2_SESSION_SETUP =? SMB2_NEGOTIATE) with false.
  change (SMB2_SESSION_SETUP =? SMB2_SESSION_SETUP) with true. cbv iota.
  rewrite rd_setup2_req_ser by exact Hq. rewrite Hq. cbn [andb].
  replace (lenN (ser_smb2_hdr h ++ ser_setup2_req q) <=? len) with true by (symmetry; apply N.leb_le; exact Hlen).
  rewrite app_assoc, is_prefix_refl_app. reflexivity.
Qed.
