(* Properties/C14.v -- DNS: IN/A queries get a faithful, parseable answer with the
   queried address. Statements only; proofs in Proofs/C14*.v; the specification
   (reference codec for uncompressed DNS messages, expected response, monitors) is
   Spec/RefDns.v + Spec/C14.v, written from RFC 1035 section 4.1 and the property text
   and sharing only Bytes.v with the responder model Dns.v.
   "Not itself completing another protocol's signature" is the hypothesis
   [udp_id E p = None]; the monitors evaluate it on the signature table they are given.
   AA / TC / RA / Z / RCODE and the TTLs of the response are not constrained by the
   property ([resp_ok]); [answer q dst] is the representative the implementation emits
   (AA = 1, the others 0, TTL 43200) and the theorems identify the reply with it. *)
From MS Require Import Dns Proto L2 Spec.RefDns Spec.C14 Spec.AppView Instance
  Proofs.Tactics Proofs.C14Ref Proofs.C14Sim Proofs.C14Reply Proofs.C14Frame Proofs.C16Examples Proofs.C14Examples.

(* ---- the reference codec is coherent ---- *)
Theorem C14_ref_roundtrip :
  (forall q, query_wf q = true -> dec_dns (ser_query q) = Some (msg_of_query q)) /\
  (forall m, msg_wf m = true -> dec_dns (ser_dns m) = Some m) /\
  (forall m tail, msg_wf m = true -> dec_msg (ser_dns m ++ tail) = Done m tail).
Proof. exact (conj dec_dns_query (conj dec_dns_ser dec_msg_ser)). Qed.
Theorem C14_ref_sound :
  forall p m, bytes_ok p = true -> dec_dns p = Some m -> p = ser_dns m /\ msg_wf m = true.
Proof. exact dec_dns_sound. Qed.
(* every strict prefix of a well-formed message is classified as truncated *)
Theorem C14_ref_truncated :
  forall m n, msg_wf m = true -> (n < length (ser_dns m))%nat -> dns_truncated (firstn n (ser_dns m)) = true.
Proof. exact dns_truncated_prefix. Qed.

(* ---- the parser: all question counts, all label layouts ---- *)
Theorem C14_parser_correct :
  forall q, query_wf q = true ->
    dns_parse (ser_query q) =
      Some {| d_id := k_id q; d_flags := k_flags q;
              d_qd := map (fun x => {| q_name := ser_name (qn x); q_type := qt x; q_class := qc x |}) (k_qd q) |}.
Proof. exact dns_parse_query. Qed.
(* ... on every complete message, whatever follows it *)
Theorem C14_parser_correct_msg :
  forall m tail, msg_wf m = true ->
    dns_parse (ser_dns m ++ tail) = if is_nil (m_ns m) && is_nil (m_ar m) then Some (mview m) else None.
Proof. exact dns_parse_msg. Qed.
(* ... and on EVERY input the parser agrees with the reference reader wherever that one
   delivers a message or runs out of input *)
Theorem C14_parser_simulation :
  forall p,
    (forall m r, dec_msg p = Done m r ->
       dns_parse p = if is_nil (m_ns m) && is_nil (m_ar m) then Some (mview m) else None) /\
    (dec_msg p = Short -> dns_parse p = None).
Proof. exact dns_parse_sim. Qed.

(* ---- the responder: the positive clause ---- *)
Theorem C14_answer :
  forall q d, query_wf q = true -> all_in_a (k_qd q) = true -> dst_ok d ->
    dns_repl (Some (V4 d)) (ser_query q) = Some (ser_dns (answer q d)) /\
    dec_dns (ser_dns (answer q d)) = Some (answer q d) /\
    resp_ok q d (answer q d) = true /\
    echo_ok (ser_query q) (ser_dns (answer q d)) = true.
Proof. exact dns_repl_answer. Qed.
(* the reply, field by field: ID; QR / OPCODE / AA / RD; QDCOUNT = ANCOUNT = number of
   questions; NSCOUNT = ARCOUNT = 0; the query's question section; per question its name,
   TYPE 1, CLASS 1, TTL 43200, RDLENGTH, RDATA; nothing else *)
Theorem C14_answer_bytes :
  forall q d,
    ser_dns (answer q d) =
    be16 (k_id q) ++ be16 (answer_flags (k_flags q)) ++ be16 (cnt (k_qd q)) ++ be16 (cnt (k_qd q)) ++ [0; 0; 0; 0] ++
    skipn 12 (ser_query q) ++
    concat (map (fun x => ser_name (qn x) ++ [0; 1; 0; 1; 0; 0; 168; 192] ++ be16 (lenN d) ++ d) (k_qd q)).
Proof. exact answer_bytes. Qed.
Theorem C14_answer_flags :
  forall fl, qr_of (answer_flags fl) = 1 /\ opcode_of (answer_flags fl) = opcode_of fl /\
             rd_of (answer_flags fl) = rd_of fl /\ answer_flags fl < 65536.
Proof. exact (fun fl => conj (answer_flags_qr fl) (conj (answer_flags_opcode fl) (conj (answer_flags_rd fl) (answer_flags_lt fl)))). Qed.

(* ---- the negative clauses ---- *)
Theorem C14_not_in_a_silent :
  forall dst q tail, query_wf q = true -> all_in_a (k_qd q) = false -> dns_repl dst (ser_query q ++ tail) = None.
Proof. exact dns_repl_query_not_in_a. Qed.
Theorem C14_not_in_a_silent_msg :
  forall dst m tail, msg_wf m = true -> all_in_a (m_qd m) = false -> dns_repl dst (ser_dns m ++ tail) = None.
Proof. exact dns_repl_not_in_a. Qed.
Theorem C14_truncated_silent :
  forall dst q n, query_wf q = true -> (n < length (ser_query q))%nat -> dns_repl dst (firstn n (ser_query q)) = None.
Proof. exact dns_repl_query_prefix. Qed.
Theorem C14_truncated_silent_msg :
  forall dst m n, msg_wf m = true -> (n < length (ser_dns m))%nat -> dns_repl dst (firstn n (ser_dns m)) = None.
Proof. exact dns_repl_msg_prefix. Qed.
Theorem C14_truncated_silent_any :
  forall dst p, dns_truncated p = true -> dns_repl dst p = None.
Proof. exact dns_repl_truncated. Qed.
Theorem C14_response_silent :
  (forall dst m tail, msg_wf m = true -> QR_BIT <= m_flags m -> dns_repl dst (ser_dns m ++ tail) = None) /\
  (forall dst p, 128 <= u8_at 2 p -> dns_repl dst p = None).
Proof. exact (conj dns_repl_response dns_repl_qr_any). Qed.

(* ---- proto::repl: the payload-level monitor accepts whatever the datagram fallback
   returns, on every payload; then the clauses on structured queries ---- *)
Theorem C14_proto_udp_monitor :
  forall E clk cfg ms md ctx p,
    a_v4 ctx = true -> a_tcp ctx = false -> bytes_ok p = true -> dst_ok (a_dst ctx) ->
    udp_id E p = None ->
    exists o, proto_repl_udp E clk (ctx_ci cfg ms md ctx) p = Ok (ctx_ci cfg ms md ctx, o) /\
              app_ok_C14_core ctx p o = true /\ app_ok_C14 E ctx p o = true.
Proof. exact C14_proto_udp. Qed.
Theorem C14_proto_udp_monitor_any :
  forall E clk ci ctx p ci' o,
    a_v4 ctx = true -> a_tcp ctx = false -> bytes_ok p = true -> dst_ok (a_dst ctx) ->
    ci_ip_dst ci = Some (V4 (a_dst ctx)) ->
    proto_repl_udp E clk ci p = Ok (ci', o) ->
    app_ok_C14 E ctx p o = true.
Proof. exact C14_proto_udp_any. Qed.
Theorem C14_proto_udp_structured :
  forall E clk cfg ms md ctx q,
    a_v4 ctx = true -> query_wf q = true -> all_in_a (k_qd q) = true -> dst_ok (a_dst ctx) ->
    udp_id E (ser_query q) = None ->
    exists r, proto_repl_udp E clk (ctx_ci cfg ms md ctx) (ser_query q) = Ok (ctx_ci cfg ms md ctx, Some r) /\
              dec_dns r = Some (answer q (a_dst ctx)) /\
              resp_ok q (a_dst ctx) (answer q (a_dst ctx)) = true /\
              echo_ok (ser_query q) r = true.
Proof. exact C14_proto_udp_query. Qed.
Theorem C14_proto_udp_not_in_a_silent :
  forall E clk ci q, query_wf q = true -> all_in_a (k_qd q) = false -> udp_id E (ser_query q) = None ->
    proto_repl_udp E clk ci (ser_query q) = Ok (ci, None).
Proof. exact C14_proto_udp_not_in_a. Qed.
Theorem C14_proto_udp_truncated_silent :
  forall E clk ci q n, query_wf q = true -> (n < length (ser_query q))%nat ->
    udp_id E (firstn n (ser_query q)) = None ->
    proto_repl_udp E clk ci (firstn n (ser_query q)) = Ok (ci, None).
Proof. exact C14_proto_udp_truncated. Qed.

(* ---- whole frames: the frame-level monitor accepts everything reply() emits ---- *)
Theorem C14_frame_udp :
  forall E cfg clk tb f tb' r evs,
    cfg_ok cfg = true -> bytes_ok f = true ->
    reply E cfg clk tb f = Ok (tb', r, evs) ->
    ok_C14_udp E cfg f r = true.
Proof. exact frame_udp_C14. Qed.

(* ---- non-vacuity on the current tables ---- *)
Theorem C14_examples :
  in_a_answered x_www /\ in_a_answered x_three /\ in_a_answered x_zero /\ in_a_answered x_zbyte /\ in_a_answered x_root /\
  in_a_answered x_l63 /\ (name_len n_max = 255 /\ in_a_answered x_max).
Proof. exact sum_examples. Qed.
Theorem C14_examples_negative :
  (query_wf x_txt = true /\ udp_id the_env (ser_query x_txt) = None /\ classify (ser_query x_txt) = NotInA /\
   dns_out (ser_query x_txt) = None) /\
  (let p := ser_query x_www in
   forallb (fun n => match udp_id the_env (firstn n p) with None => true | Some _ => false end) (seq 0 33) = true /\
   forallb (fun n => match classify (firstn n p) with Truncated => true | _ => false end) (seq 0 33) = true /\
   forallb (fun n => match dns_out (firstn n p) with None => true | Some _ => false end) (seq 0 33) = true /\
   length p = 33%nat).
Proof. exact sum_examples_negative. Qed.
Theorem C14_monitor_sensitive :
  let p := ser_query x_www in
  let mon := app_ok_C14 the_env (x_ctx4 false) p in
  mon None = false /\
  mon (Some (ser_dns (answer x_www [10; 0; 0; 2]))) = false /\
  mon (Some (ser_dns (answer {| k_id := 4661; k_flags := 256; k_qd := k_qd x_www |} x_dst))) = false /\
  mon (Some (ser_dns (answer {| k_id := 4660; k_flags := 0; k_qd := k_qd x_www |} x_dst))) = false /\
  mon (Some (ser_dns (answer {| k_id := 4660; k_flags := 2304; k_qd := k_qd x_www |} x_dst))) = false /\
  mon (Some (ser_dns (answer x_www x_dst) ++ [0])) = false /\
  mon (Some (ser_dns (msg_of_query x_www))) = false /\
  mon (Some (firstn 60 (ser_dns (answer x_www x_dst)))) = false /\
  mon (Some (ser_dns x_ok_free)) = true /\
  mon (Some (ser_dns (answer x_www x_dst))) = true.
Proof. exact ex_monitor_sensitive. Qed.

(* whole frames through reply() and the frame-level monitor: (monitor on the model's reply,
   in positive scope, in negative scope, monitor on silence) *)
Theorem C14_examples_frames :
  x_run (ser_query x_www) = Some (true, true, false, false) /\
  x_run (ser_query x_three) = Some (true, true, false, false) /\
  x_run (ser_query x_txt) = Some (true, false, true, true) /\
  x_run (firstn 20 (ser_query x_www)) = Some (true, false, true, true) /\
  x_run (ser_query x_stun) = Some (true, false, false, true).
Proof. exact ex_frames. Qed.

(* ---- observations outside the property (recorded, not required) ---- *)
(* a well-formed IN/A query that completes the STUN signature: answered as STUN *)
Theorem C14_obs_signature_collision :
  query_wf x_stun = true /\ all_in_a (k_qd x_stun) = true /\
  ser_query x_stun = [0; 1; 0; 0; 0; 1; 0; 0; 0; 0; 0; 0; 2; 97; 98; 0; 0; 1; 0; 1] /\
  udp_id the_env (ser_query x_stun) = Some PROTO_STUN /\
  decoded_out (ser_query x_stun) = None /\
  query_wf x_http = true /\ all_in_a (k_qd x_http) = true /\ udp_id the_env (ser_query x_http) = Some PROTO_HTTP.
Proof. exact sum_obs_signature_collision. Qed.
(* trailing bytes are ignored; answer records of a query are skipped; authority /
   additional records (EDNS0 OPT) silence the responder; IPv6: RDLENGTH 0 *)
Theorem C14_obs_trailing_bytes :
  forall dst q tail, query_wf q = true -> dns_repl dst (ser_query q ++ tail) = dns_repl dst (ser_query q).
Proof. exact dns_repl_trailing. Qed.
Theorem C14_obs_answer_section_ignored :
  forall dst m tail, msg_wf m = true -> m_flags m < QR_BIT -> is_nil (m_ns m) = true -> is_nil (m_ar m) = true ->
    dns_repl dst (ser_dns m ++ tail) = dns_repl dst (ser_query (query_of m)).
Proof. exact dns_repl_answer_section_ignored. Qed.
Theorem C14_obs_ns_ar_silent :
  forall dst m tail, msg_wf m = true -> is_nil (m_ns m) && is_nil (m_ar m) = false ->
    dns_repl dst (ser_dns m ++ tail) = None.
Proof. exact dns_repl_ns_ar_silent. Qed.
Theorem C14_obs_edns_silent :
  msg_wf x_edns = true /\ udp_id the_env (ser_dns x_edns) = None /\ dns_out (ser_dns x_edns) = None.
Proof. exact sum_obs_edns_silent. Qed.
Theorem C14_obs_ipv6 :
  forall q o, query_wf q = true -> all_in_a (k_qd q) = true ->
    dns_repl (Some (V6 o)) (ser_query q) = Some (ser_dns (answer q [])).
Proof. exact dns_repl_ipv6. Qed.
Theorem C14_obs_compression_pointers :
  classify x_ptr00 = Outside /\ classify x_ptr0c = Outside /\ classify x_ptr02 = Outside /\
  udp_id the_env x_ptr00 = None /\
  dns_out x_ptr00 =
    Some [18; 52; 133; 0; 0; 1; 0; 1; 0; 0; 0; 0; 192; 0; 0; 1; 0; 1; 192; 0; 0; 1; 0; 1; 0; 0; 168; 192; 0; 4; 10; 0; 0; 1] /\
  decoded_out x_ptr00 = None /\
  dns_out x_ptr0c = None.
Proof. exact sum_obs_compression_pointers. Qed.

Print Assumptions C14_ref_roundtrip.
Print Assumptions C14_ref_sound.
Print Assumptions C14_ref_truncated.
Print Assumptions C14_parser_correct.
Print Assumptions C14_parser_correct_msg.
Print Assumptions C14_parser_simulation.
Print Assumptions C14_answer.
Print Assumptions C14_answer_bytes.
Print Assumptions C14_answer_flags.
Print Assumptions C14_not_in_a_silent.
Print Assumptions C14_not_in_a_silent_msg.
Print Assumptions C14_truncated_silent.
Print Assumptions C14_truncated_silent_msg.
Print Assumptions C14_truncated_silent_any.
Print Assumptions C14_response_silent.
Print Assumptions C14_proto_udp_monitor.
Print Assumptions C14_proto_udp_monitor_any.
Print Assumptions C14_proto_udp_structured.
Print Assumptions C14_proto_udp_not_in_a_silent.
Print Assumptions C14_proto_udp_truncated_silent.
Print Assumptions C14_frame_udp.
Print Assumptions C14_examples.
Print Assumptions C14_examples_negative.
Print Assumptions C14_monitor_sensitive.
Print Assumptions C14_examples_frames.
Print Assumptions C14_obs_signature_collision.
Print Assumptions C14_obs_trailing_bytes.
Print Assumptions C14_obs_answer_section_ignored.
Print Assumptions C14_obs_ns_ar_silent.
Print Assumptions C14_obs_edns_silent.
Print Assumptions C14_obs_ipv6.
Print Assumptions C14_obs_compression_pointers.
