(* Properties/C04.v -- every emitted frame is well-formed at every layer.
   This file only pins statements; the proofs are in Proofs/C04.v,
   Proofs/ReplyBytes.v, Proofs/SmbBytes.v and Proofs/C04Closed.v. *)
From MS Require Import L2 Spec.Pending Spec.View Spec.RefDec Spec.C04 Spec.EnvOk
     Proofs.C04 Proofs.ReplyBytes Proofs.C04Closed.

(* For every environment, configuration, clock, table (= whatever happened before)
   and received frame: a frame that reply() emits decodes with the strict reference
   decoders and passes the C04 monitor [wf_frame]: Ethernet header; ARP payload of at
   least 28 bytes; IPv4 version/IHL, total length, DF only, TTL >= 1, header checksum;
   IPv6 version, payload length, hop limit >= 1; TCP data offset 5, checksum, non-zero
   window on SYN-ACK; UDP length, checksum (IPv4: zero or valid; IPv6: non-zero and
   valid); ICMP length and checksum; hop limit 255 on neighbour advertisements.
   The two hypotheses on the emitted frame (octets, and shorter than 64 KiB) are
   discharged below for received frames of at most 4096 bytes and connection tables
   whose per-flow prefix buffers are octet strings of at most PENDING_MAX bytes
   ([table_pending_ok], Spec/Pending.v: the handler of a TCP flow is given the
   answered segment joined to the bytes the flow has pending; the invariant holds of
   the empty table and is kept by every step, see C01). *)
Theorem C04_wellformed :
  forall E cfg clk tb f tb' r evs,
    cfg_ok cfg = true -> bytes_ok f = true ->
    reply E cfg clk tb f = Ok (tb', Some r, evs) ->
    bytes_ok r = true -> (length r < 65536)%nat ->
    wf_frame r = true.
Proof. exact wellformed. Qed.

(* Every emitted frame is a string of octets: the dumped constants are octet strings
   ([env_ok], and [env_blobs_ok] for the two SMB security blobs), the clock string
   is, and so is the received frame. *)
Theorem C04_emitted_bytes_ok :
  forall E cfg clk tb f tb' r evs,
    cfg_ok cfg = true -> env_ok E = true -> env_blobs_ok E = true ->
    bytes_ok f = true -> bytes_ok (clk_date clk) = true -> table_pending_ok tb ->
    reply E cfg clk tb f = Ok (tb', Some r, evs) ->
    bytes_ok r = true.
Proof. exact emitted_bytes_ok. Qed.

(* Every frame emitted in answer to a frame of at most 4096 bytes is shorter than
   64 KiB, when each dumped constant is shorter than 2048 bytes ([env_small]) and the
   clock string is at most 64 bytes long. *)
Theorem C04_emitted_short :
  forall E cfg clk tb f tb' r evs,
    cfg_ok cfg = true -> env_small E = true -> bytes_ok f = true ->
    (length f <= 4096)%nat -> (length (clk_date clk) <= 64)%nat -> table_pending_ok tb ->
    reply E cfg clk tb f = Ok (tb', Some r, evs) ->
    (length r < 65536)%nat.
Proof. exact emitted_short. Qed.

(* C04 with no hypothesis on the emitted frame. *)
Theorem C04_wellformed_unconditional :
  forall E cfg clk tb f tb' r evs,
    cfg_ok cfg = true -> env_ok E = true -> env_blobs_ok E = true -> env_small E = true ->
    bytes_ok f = true -> (length f <= 4096)%nat ->
    bytes_ok (clk_date clk) = true -> (length (clk_date clk) <= 64)%nat -> table_pending_ok tb ->
    reply E cfg clk tb f = Ok (tb', Some r, evs) ->
    wf_frame r = true.
Proof. exact wellformed_unconditional. Qed.

Print Assumptions C04_wellformed.
Print Assumptions C04_emitted_bytes_ok.
Print Assumptions C04_emitted_short.
Print Assumptions C04_wellformed_unconditional.
