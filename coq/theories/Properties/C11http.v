(* Properties/C11http.v -- HTTP stream parsing is independent of TCP segmentation
   (parser-level theorems; the frame-level multi-segment statement is built on them). *)
From MS Require Import Http Spec.HttpTbl Spec.C11http Proofs.HttpLemmas Proofs.HttpFold.

(* Parsing a buffer at once = parsing it one byte per segment (up to http_sim);
   no panic (PANIC_HTTP_VERB_ADVANCE is unreachable). *)
Theorem C11_http_parse_is_fold :
  forall tbl, smack_ok tbl = true -> http_tbl_ok tbl = true ->
  forall d s, http_st_ok tbl s -> bytes_ok d = true ->
    exists s1 s2, http_parse tbl s d = Ok s1 /\ http_fold tbl s d = Ok s2 /\
                  http_sim tbl s1 s2 /\ http_st_ok tbl s1 /\ http_st_ok tbl s2.
Proof. exact parse_sim_fold. Qed.

(* parse (parse s a) b = parse s (a ++ b): same answer decision, and the very same
   state whenever the request is answered *)
Theorem C11_http_parse_app :
  forall tbl, smack_ok tbl = true -> http_tbl_ok tbl = true ->
  forall a b s, http_st_ok tbl s -> bytes_ok (a ++ b) = true ->
    exists s1 s2 s12, http_parse tbl s a = Ok s1 /\ http_parse tbl s1 b = Ok s2 /\
                      http_parse tbl s (a ++ b) = Ok s12 /\ http_sim tbl s2 s12 /\
                      http_answers s2 = http_answers s12 /\ (http_answers s12 = true -> s2 = s12).
Proof. exact parse_app. Qed.

(* any number of cuts: the state after the last segment depends on the concatenation only *)
Theorem C11_http_segments :
  forall tbl, smack_ok tbl = true -> http_tbl_ok tbl = true ->
  forall segs s, http_st_ok tbl s -> bytes_ok (concat segs) = true ->
    exists s1 s2, http_feed tbl s segs = Ok s1 /\ http_parse tbl s (concat segs) = Ok s2 /\
                  http_sim tbl s1 s2 /\ http_answers s1 = http_answers s2 /\
                  (http_answers s2 = true -> s1 = s2).
Proof. exact feed_sim_parse. Qed.

(* ... and equals the byte-at-a-time state: after k segments the reply has been triggered
   iff the byte-level parser has reached CONTENT within the bytes received so far *)
Theorem C11_http_segments_fold :
  forall tbl, smack_ok tbl = true -> http_tbl_ok tbl = true ->
  forall segs s, http_st_ok tbl s -> bytes_ok (concat segs) = true ->
    exists s1 s2, http_feed tbl s segs = Ok s1 /\ http_fold tbl s (concat segs) = Ok s2 /\
                  http_sim tbl s1 s2 /\ http_st_ok tbl s1 /\ http_st_ok tbl s2.
Proof. exact feed_sim_fold. Qed.

(* the point of the stream at which the reply is triggered is a function of the bytes:
   after k segments the 401 has been sent iff the byte-at-a-time parser has reached
   CONTENT within the bytes received so far, and once it has, it stays there *)
Theorem C11_http_reply_point :
  forall tbl, smack_ok tbl = true -> http_tbl_ok tbl = true ->
  forall segs k s, http_st_ok tbl s -> bytes_ok (concat segs) = true ->
    exists sk fk, http_feed tbl s (firstn k segs) = Ok sk /\
                  http_fold tbl s (concat (firstn k segs)) = Ok fk /\
                  http_answers sk = http_answers fk /\ (http_answers fk = true -> sk = fk).
Proof. exact reply_point. Qed.

Theorem C11_http_answer_monotone :
  forall tbl a b s s1, http_fold tbl s a = Ok s1 -> http_answers s1 = true -> http_fold tbl s (a ++ b) = Ok s1.
Proof. exact fold_answer_monotone. Qed.

(* per segment, in the form the stream-level statement uses: with the k-th segment the 401
   goes out iff ONE whole-buffer parse of the stream up to the end of that segment, from the
   state the flow started in, ends in CONTENT *)
Theorem C11_http_per_segment :
  forall tbl, smack_ok tbl = true -> http_tbl_ok tbl = true ->
  forall segs s, http_st_ok tbl s -> bytes_ok (concat segs) = true ->
    exists l, http_feed_answers tbl s segs = Ok l /\
              Forall2 (fun upto a => http_answers_at tbl s upto = Ok a) (prefixes_at [] segs) l.
Proof. exact feed_answers. Qed.

(* similar states answer alike; dead states never answer and stay dead; FAIL and CONTENT are absorbing *)
Theorem C11_http_sim_answers :
  forall tbl s1 s2, http_sim tbl s1 s2 -> http_answers s1 = http_answers s2.
Proof. exact sim_answers. Qed.

Theorem C11_http_dead_absorbing :
  forall tbl, smack_ok tbl = true -> http_tbl_ok tbl = true ->
  forall d s, http_dead tbl s = true -> http_st_ok tbl s -> bytes_ok d = true ->
    exists s', http_parse tbl s d = Ok s' /\ http_dead tbl s' = true /\ http_st_ok tbl s'.
Proof. exact dead_parse. Qed.

Theorem C11_http_fail_absorbing :
  forall tbl s d, h_state s = HTTP_FAIL -> http_parse tbl s d = Ok s.
Proof. exact fail_absorbing. Qed.

Theorem C11_http_content_absorbing :
  forall tbl s d, h_state s = HTTP_CONTENT -> http_parse tbl s d = Ok s.
Proof. exact content_absorbing. Qed.

Theorem C11_http_new_ok :
  forall tbl, http_tbl_ok tbl = true -> http_st_ok tbl http_new.
Proof. exact new_st_ok. Qed.

Print Assumptions C11_http_parse_is_fold.
Print Assumptions C11_http_parse_app.
Print Assumptions C11_http_segments.
Print Assumptions C11_http_segments_fold.
Print Assumptions C11_http_reply_point.
Print Assumptions C11_http_answer_monotone.
Print Assumptions C11_http_per_segment.
Print Assumptions C11_http_sim_answers.
Print Assumptions C11_http_dead_absorbing.
Print Assumptions C11_http_fail_absorbing.
Print Assumptions C11_http_content_absorbing.
Print Assumptions C11_http_new_ok.
